(* FuelLP.v — readLocalSymbolTable, driven through the reader's own (inner) Next, never runs out of fuel:
   every Next that delivers a value inside a list or a struct consumes a character. *)
From Coq Require Import String List NArith ZArith Bool Lia.
From IonV Require Import Base.Wire Base.Utf8 Bin.Bits Data.Ion Num.Float Bin.BitStream Bin.BinReader
  Text.Tokenizer Text.Skipper Text.TextReader Text.TokenizerP Text.FuelP Text.FuelRP.
Import ListNotations.
Open Scope N_scope.

Definition G (x x' : xstate) : Prop := (xrem x' <= xrem x)%nat /\ x_ctx x' = x_ctx x.
Definition EG (x x' : xstate) : Prop := x_err x' = true \/ G x x'.

Lemma step_in_as x x' c : (c = CList /\ x_type x = TList) \/ (c = CStruct /\ x_type x = TStruct) ->
  x_step_in x = (x', Ok true) -> xrem x' = xrem x /\ x_ctx x' = c :: x_ctx x /\ x_err x' = false.
Proof.
  unfold x_step_in. destruct (x_err x) eqn:Ee; [discriminate|].
  destruct (negb (x_state x =? trsBeforeContainer)); [discriminate|].
  intros [[-> Ht]|[-> Ht]]; rewrite Ht; cbn [N.eqb TList TSexp TStruct Pos.eqb]; intros E; injection E as <-;
    (split; [reflexivity|split; [reflexivity|exact Ee]]).
Qed.
Lemma step_out_ok x x' c rest : x_ctx x = c :: rest -> x_step_out x = (x', Ok true) ->
  x_err x = false /\ (xrem x' <= xrem x)%nat /\ x_ctx x' = rest.
Proof.
  intros Hc. unfold x_step_out. destruct (x_err x) eqn:Ee; [discriminate|]. rewrite Hc.
  pose proof (finish_value_spec (x_tok x)) as HF. unfold lift at 1. unfold wp in HF.
  destruct (t_finish_value (x_tok x)) as [[b t1]| | |]; try discriminate.
  destruct (x_eof (xs_tok x t1)).
  - intros E; injection E as <-. split; [reflexivity|]. unfold xrem; cbn. split; [exact HF|reflexivity].
  - pose proof (skip_container_contents_spec c (x_tok (xs_tok x t1))) as HS. unfold lift. unfold wp in HS.
    destruct (t_skip_container_contents c (x_tok (xs_tok x t1))) as [[u t2]| | |]; try discriminate.
    intros E; injection E as <-. split; [reflexivity|]. unfold xrem; cbn. cbn in HS. split; [lia|reflexivity].
Qed.

Section L.
Variable pd : list N -> res dec.
Variable pt : list N -> res (list N).
Hypothesis pd_nof : forall l, pd l <> OutOfFuel.
Hypothesis pt_nof : forall l, pt l <> OutOfFuel.
Let api := x_next_inner pd pt.

Lemma api_cases x : in_sexp x = false ->
  match api x with
  | (x1, Ok true) => (xrem x1 + 1 <= xrem x)%nat /\ x_ctx x1 = x_ctx x
  | (x1, Ok false) => EG x x1
  | (_, OutOfFuel) => False
  | _ => True
  end.
Proof.
  intros Hx. pose proof (next_inner_spec pd pt pd_nof pt_nof x) as H. unfold rwp, next_post_x in H. fold api in H.
  destruct (api x) as [x1 [[|]| | |]]; auto.
  - destruct H as [H1 [H2 H3]]. split; [apply H3, Hx|exact H2].
Qed.
Lemma in_sexp_of x c rest : x_ctx x = c :: rest -> c <> CSexp -> in_sexp x = false.
Proof. intros E H. unfold in_sexp. rewrite E. destruct c; congruence. Qed.

(* a loop over the inner Next inside a list or struct *)
Ltac loop_start IH x Hs Hf :=
  pose proof (api_cases x Hs) as HA;
  destruct (api x) as [x1 [[|]| | |]]; cbn [keep_bad]; try exact I; try contradiction;
  [ destruct HA as [A1 A2];
    assert (Hs1 : in_sexp x1 = false) by (unfold in_sexp in *; rewrite A2; exact Hs)
  | exact HA ].
Ltac loop_rec IH A1 A2 :=
  eapply rwp_mono; [apply IH; [assumption|lia]|];
  intros ? x2 [K|[K1 K2]]; [left; exact K|right; split; [lia|congruence]].

Lemma read_symbols_loop_spec : forall f x acc, in_sexp x = false -> (xrem x < f)%nat ->
  rwp (read_symbols_loop api f x acc) (fun _ x' => EG x x').
Proof.
  induction f as [|f IH]; intros x acc Hs Hf; [lia|]. cbn [read_symbols_loop].
  loop_start IH x Hs Hf. loop_rec IH A1 A2.
Qed.

(* step in, loop, step out *)
Lemma in_container {A B} x c (loop : xstate -> xstate * res A) (k : A -> xstate -> xstate * res B) (fl : res A -> res B) :
  (forall (Q : B -> xstate -> Prop) y, rwp (y, fl Err) Q /\ rwp (y, fl Panic) Q) ->
  (c = CList /\ x_type x = TList) \/ (c = CStruct /\ x_type x = TStruct) ->
  (forall x1, xrem x1 = xrem x -> x_ctx x1 = c :: x_ctx x -> rwp (loop x1) (fun _ x' => EG x1 x')) ->
  (forall a x3, G x x3 -> rwp (k a x3) (fun _ x' => G x x')) ->
  rwp (match x_step_in x with
       | (x1, Ok true) =>
         match loop x1 with
         | (x2, Ok a) =>
           match x_step_out x2 with
           | (x3, Ok true) => k a x3
           | (x3, r) => (x3, keep_bad r)
           end
         | (x2, r) => (x2, fl r)
         end
       | (x1, r) => (x1, keep_bad r)
       end) (fun _ x' => G x x').
Proof.
  intros Hfl Hc Hloop Hk. pose proof (step_in_nof x) as HI. pose proof (step_in_as x) as HS.
  destruct (x_step_in x) as [x1 [[|]| | |]]; cbn [snd keep_bad] in *; try exact I; try congruence.
  destruct (HS x1 c Hc eq_refl) as [S1 [S2 S3]].
  specialize (Hloop x1 S1 S2). unfold rwp in Hloop.
  destruct (loop x1) as [x2 [a| | |]]; cbn [keep_bad]; try contradiction; try apply Hfl.
  pose proof (step_out_nof x2) as HO.
  destruct (x_step_out x2) as [x3 [[|]| | |]] eqn:EO; cbn [snd keep_bad] in *; try exact I; try congruence.
  destruct Hloop as [K|[K1 K2]].
  - (* exploded: StepOut answers false *)
    exfalso. unfold x_step_out in EO. rewrite K in EO. discriminate EO.
  - rewrite S2 in K2. destruct (step_out_ok x2 x3 c (x_ctx x) K2 EO) as [O1 [O2 O3]].
    apply Hk. split; [lia|exact O3].
Qed.
Lemma fl_keep {A B} (Q : B -> xstate -> Prop) y : rwp (y, @keep_bad A B Err) Q /\ rwp (y, @keep_bad A B Panic) Q.
Proof. split; exact I. Qed.
Lemma fl_id {A} (Q : A -> xstate -> Prop) y : rwp (y, (fun r : res A => r) Err) Q /\ rwp (y, (fun r : res A => r) Panic) Q.
Proof. split; exact I. Qed.

Lemma read_symbols_spec f x : (x_ctx x <> [] \/ True) -> (xrem x < f)%nat ->
  rwp (read_symbols api f x) (fun _ x' => G x x').
Proof.
  intros _ Hf. unfold read_symbols.
  destruct (negb (x_type x =? TList) || x_is_null x) eqn:E; [split; [lia|reflexivity]|].
  apply orb_false_iff in E. destruct E as [E _]. apply negb_false_iff, N.eqb_eq in E.
  apply (in_container x CList (fun x1 => read_symbols_loop api f x1 []) (fun a x3 => (x3, Ok a)) (fun r => r)).
  - intros; apply fl_id.
  - left; split; [reflexivity|exact E].
  - intros x1 R1 C1. apply read_symbols_loop_spec; [eapply in_sexp_of; [exact C1|discriminate]|lia].
  - intros a x3 HG. exact HG.
Qed.

Ltac leaves IH :=
  repeat match goal with
         | |- rwp (if ?b then _ else _) _ => destruct b
         | |- rwp (match ?v with _ => _ end) _ =>
           lazymatch v with
           | context [read_import_loop] => fail
           | _ => destruct v
           end
         end.
Lemma read_import_loop_spec : forall f x d, in_sexp x = false -> (xrem x < f)%nat ->
  rwp (read_import_loop api f x d) (fun _ x' => EG x x').
Proof.
  induction f as [|f IH]; intros x d Hs Hf; [lia|]. cbn [read_import_loop].
  loop_start IH x Hs Hf.
  leaves IH; try exact I; loop_rec IH A1 A2.
Qed.
Lemma read_import_spec f x : (xrem x < f)%nat -> rwp (read_import api f x) (fun _ x' => G x x').
Proof.
  intros Hf. unfold read_import.
  destruct (negb (x_type x =? TStruct) || x_is_null x) eqn:E; [split; [lia|reflexivity]|].
  apply orb_false_iff in E. destruct E as [E _]. apply negb_false_iff, N.eqb_eq in E.
  apply (in_container x CStruct (fun x1 => read_import_loop api f x1 _)
           (fun d x3 => if list_eqb (id_name d) [] || list_eqb (id_name d) (s "$ion"%string) then (x3, Ok None)
                        else if (id_maxid d <? 0)%Z then (x3, Err)
                        else (x3, Ok (Some {| im_syms := []; im_maxid := Z.to_N (id_maxid d) |}))) keep_bad).
  - intros; apply fl_keep.
  - right; split; [reflexivity|exact E].
  - intros x1 R1 C1. apply read_import_loop_spec; [eapply in_sexp_of; [exact C1|discriminate]|lia].
  - intros a x3 HG. destruct (list_eqb (id_name a) [] || list_eqb (id_name a) (s "$ion"%string)); [exact HG|].
    destruct (id_maxid a <? 0)%Z; [exact I|exact HG].
Qed.
Lemma EG_step x x1 x2 (R : Prop) : (xrem x1 + 1 <= xrem x)%nat -> x_ctx x1 = x_ctx x -> G x1 x2 ->
  in_sexp x = false -> in_sexp x2 = false /\ (xrem x2 + 1 <= xrem x)%nat /\ x_ctx x2 = x_ctx x.
Proof.
  intros A1 A2 [G1 G2] Hs. split; [unfold in_sexp in *; rewrite G2, A2; exact Hs|]. split; [lia|congruence].
Qed.
Lemma read_imports_loop_spec : forall f x acc, in_sexp x = false -> (xrem x < f)%nat ->
  rwp (read_imports_loop api f x acc) (fun _ x' => EG x x').
Proof.
  induction f as [|f IH]; intros x acc Hs Hf; [lia|]. cbn [read_imports_loop].
  loop_start IH x Hs Hf.
  pose proof (read_import_spec (S f) x1 ltac:(lia)) as HR. unfold rwp in HR.
  destruct (read_import api (S f) x1) as [x2 [[i|]| | |]]; cbn [keep_bad]; try exact I; try contradiction.
  - destruct (EG_step x x1 x2 True A1 A2 HR Hs) as [S2 [R2 C2]].
    eapply rwp_mono; [apply IH; [exact S2|lia]|]. intros ? x3 [K|[K1 K2]]; [left; exact K|right; split; [lia|congruence]].
  - destruct (EG_step x x1 x2 True A1 A2 HR Hs) as [S2 [R2 C2]].
    eapply rwp_mono; [apply IH; [exact S2|lia]|]. intros ? x3 [K|[K1 K2]]; [left; exact K|right; split; [lia|congruence]].
Qed.
Lemma read_imports_spec f x : (xrem x < f)%nat -> rwp (read_imports api f x) (fun _ x' => G x x').
Proof.
  intros Hf. unfold read_imports.
  match goal with |- rwp (match ?ac with _ => _ end) _ => destruct ac as [r|] eqn:EA end.
  - (* the append marker: no reading *)
    destruct (x_type x =? TSymbol); [|discriminate]. destruct (x_err x).
    + injection EA as <-. exact I.
    + destruct (x_value x); try discriminate. destruct (is_append_marker t); [|discriminate].
      destruct (x_lst x); injection EA as <-; (split; [lia|reflexivity]).
  - destruct (negb (x_type x =? TList) || x_is_null x) eqn:E; [split; [lia|reflexivity]|].
    apply orb_false_iff in E. destruct E as [E _]. apply negb_false_iff, N.eqb_eq in E.
    apply (in_container x CList (fun x1 => read_imports_loop api f x1 []) (fun a x3 => (x3, Ok a)) (fun r => r)).
    + intros; apply fl_id.
    + left; split; [reflexivity|exact E].
    + intros x1 R1 C1. apply read_imports_loop_spec; [eapply in_sexp_of; [exact C1|discriminate]|lia].
    + intros a x3 HG. exact HG.
Qed.
Lemma read_lst_loop_spec : forall f x imps syms fi fs, in_sexp x = false -> (xrem x < f)%nat ->
  rwp (read_lst_loop api f x imps syms fi fs) (fun _ x' => EG x x').
Proof.
  induction f as [|f IH]; intros x imps syms fi fs Hs Hf; [lia|]. cbn [read_lst_loop].
  loop_start IH x Hs Hf.
  destruct (x_err x1); [exact I|]. destruct (field_text x1) as [fnm|]; [|exact I].
  destruct (list_eqb fnm (s "symbols"%string)).
  { destruct fs; [exact I|].
    pose proof (read_symbols_spec (S f) x1 (or_intror I) ltac:(lia)) as HR. unfold rwp in HR.
    destruct (read_symbols api (S f) x1) as [x2 [sy| | |]]; cbn [keep_bad]; try exact I; try contradiction.
    destruct (EG_step x x1 x2 True A1 A2 HR Hs) as [S2 [R2 C2]].
    eapply rwp_mono; [apply IH; [exact S2|lia]|]. intros ? x3 [K|[K1 K2]]; [left; exact K|right; split; [lia|congruence]]. }
  destruct (list_eqb fnm (s "imports"%string)).
  { destruct fi; [exact I|].
    pose proof (read_imports_spec (S f) x1 ltac:(lia)) as HR. unfold rwp in HR.
    destruct (read_imports api (S f) x1) as [x2 [im| | |]]; cbn [keep_bad]; try exact I; try contradiction.
    destruct (EG_step x x1 x2 True A1 A2 HR Hs) as [S2 [R2 C2]].
    eapply rwp_mono; [apply IH; [exact S2|lia]|]. intros ? x3 [K|[K1 K2]]; [left; exact K|right; split; [lia|congruence]]. }
  loop_rec IH A1 A2.
Qed.
Theorem read_local_symbol_table_spec f x : x_type x = TStruct -> (xrem x < f)%nat ->
  rwp (read_local_symbol_table api f x) (basic (xrem x) (x_ctx x)).
Proof.
  intros Ht Hf. unfold read_local_symbol_table.
  pose proof (step_in_nof x) as HI. pose proof (step_in_as x) as HS.
  destruct (x_step_in x) as [x1 [[|]| | |]]; cbn [snd keep_bad] in *; try exact I; try congruence.
  destruct (HS x1 CStruct (or_intror (conj eq_refl Ht)) eq_refl) as [S1 [S2 S3]].
  pose proof (read_lst_loop_spec f x1 [] [] false false) as Hloop.
  specialize (Hloop ltac:(eapply in_sexp_of; [exact S2|discriminate]) ltac:(lia)). unfold rwp in Hloop.
  destruct (read_lst_loop api f x1 [] [] false false) as [x2 [[imps syms]| | |]]; cbn [keep_bad]; try exact I; try contradiction.
  pose proof (step_out_nof x2) as HO.
  destruct (x_step_out x2) as [x3 [[|]| | |]] eqn:EO; cbn [snd keep_bad] in *; try exact I; try congruence.
  destruct Hloop as [K|[K1 K2]].
  - exfalso. unfold x_step_out in EO. rewrite K in EO. discriminate EO.
  - rewrite S2 in K2. destruct (step_out_ok x2 x3 CStruct (x_ctx x) K2 EO) as [O1 [O2 O3]].
    split; [lia|exact O3].
Qed.

(* so the outer Next, and every program, never runs out of fuel *)
Theorem lst_fuel_ok : LstFuelOK pd pt.
Proof. intros f x Ht Hf. apply read_local_symbol_table_spec; assumption. Qed.
Theorem next_never_oof x : rwp (x_next pd pt x) (next_post_x x).
Proof. apply next_spec_x; try assumption. exact lst_fuel_ok. Qed.
Theorem run_never_oof inp ioerr p : ~ In OOF (snd (x_run pd pt (x_init inp ioerr) p [])).
Proof. apply run_nof; try assumption; [exact lst_fuel_ok|intros []]. Qed.
Theorem op_never_oof x o :
  match x_op_res pd pt x o with (_, Ok _) => True | (_, Panic) => True | _ => False end.
Proof. apply op_nof; try assumption. exact lst_fuel_ok. Qed.
End L.
