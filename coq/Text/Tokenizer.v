(* Tokenizer.v — executable model of ion/tokenizer.go (with the character classes
   of ion/textutils.go and the whitespace/comment part of ion/skipper.go that the
   value readers call).

   A character is Go's [int]: a byte 0..255, or -1 for end of input, hence [Z].
   bufio.Reader is modelled as `the bytes not yet consumed` plus what the
   underlying io.Reader does when they run out (io.EOF, or a persistent I/O
   failure); [t_buf] is the tokenizer's own push-back slice (top first).
   [t.pos] only feeds error messages and is not modelled.  Every tokenizer error
   makes the text reader explode (state trsDone), after which the tokenizer is
   never touched again; so a failing operation returns no state: the monad is
   [tstate -> res (A * tstate)].  Loops are fuelled; the fuel of a loop is the
   number of characters still to be read plus two ([t_fuel]).  No proofs. *)
From Coq Require Import String List NArith ZArith Bool Ascii.
From IonV Require Import Base.Wire Base.Utf8.
Import ListNotations.
Open Scope Z_scope.

(* ---- token codes (iota order of tokenizer.go) ---------------------------------------------- *)
Definition tokenError : N := 0.        Definition tokenEOF : N := 1.
Definition tokenNumber : N := 2.       Definition tokenBinary : N := 3.
Definition tokenHex : N := 4.          Definition tokenFloatInf : N := 5.
Definition tokenFloatMinusInf : N := 6. Definition tokenTimestamp : N := 7.
Definition tokenSymbol : N := 8.       Definition tokenSymbolQuoted : N := 9.
Definition tokenSymbolOperator : N := 10. Definition tokenString : N := 11.
Definition tokenLongString : N := 12.  Definition tokenDot : N := 13.
Definition tokenComma : N := 14.       Definition tokenColon : N := 15.
Definition tokenDoubleColon : N := 16. Definition tokenOpenParen : N := 17.
Definition tokenCloseParen : N := 18.  Definition tokenOpenBrace : N := 19.
Definition tokenCloseBrace : N := 20.  Definition tokenOpenBracket : N := 21.
Definition tokenCloseBracket : N := 22. Definition tokenOpenDoubleBrace : N := 23.
Definition tokenCloseDoubleBrace : N := 24.

(* ---- characters ------------------------------------------------------------------------------ *)
Definition C (a : ascii) : Z := Z.of_N (N_of_ascii a).
Definition cEOF : Z := -1.
Definition c_tab : Z := 9.   Definition c_nl : Z := 10.  Definition c_cr : Z := 13.
Definition c_sp : Z := 32.
Definition c_dquote : Z := 34.                      (* ` *)
Definition c_quote : Z := 39.                       (* ' *)
Definition c_lparen : Z := Eval compute in C "(".   Definition c_rparen : Z := Eval compute in C ")".
Definition c_star : Z := Eval compute in C "*".     Definition c_plus : Z := Eval compute in C "+".
Definition c_comma : Z := Eval compute in C ",".    Definition c_minus : Z := Eval compute in C "-".
Definition c_dot : Z := Eval compute in C ".".      Definition c_slash : Z := Eval compute in C "/".
Definition c_0 : Z := Eval compute in C "0".        Definition c_colon : Z := Eval compute in C ":".
Definition c_lbracket : Z := Eval compute in C "[". Definition c_rbracket : Z := Eval compute in C "]".
Definition c_bslash : Z := Eval compute in C "\".   Definition c_under : Z := Eval compute in C "_".
Definition c_lbrace : Z := Eval compute in C "{".   Definition c_rbrace : Z := Eval compute in C "}".
Definition c_T : Z := Eval compute in C "T".

(* textutils.go *)
Definition is_digit (c : Z) : bool := (48 <=? c) && (c <=? 57).
Definition is_identifier_start (c : Z) : bool :=
  ((97 <=? c) && (c <=? 122)) || ((65 <=? c) && (c <=? 90)) || (c =? 95) || (c =? 36).
Definition is_identifier_part (c : Z) : bool := is_identifier_start c || is_digit c.
Definition is_hex_digit (c : Z) : bool :=
  is_digit c || ((97 <=? c) && (c <=? 102)) || ((65 <=? c) && (c <=? 70)).
Definition zmem (c : Z) (l : list Z) : bool := existsb (Z.eqb c) l.
(* ! # % & * + - . / ; < = > ? @ ^ ` | ~ *)
Definition is_operator_char (c : Z) : bool :=
  zmem c [33; 35; 37; 38; 42; 43; 45; 46; 47; 59; 60; 61; 62; 63; 64; 94; 96; 124; 126].
(* -1 { } [ ] ( ) , ` ' space \t \n \r \v \f *)
Definition is_stop_char (c : Z) : bool :=
  zmem c [-1; 123; 125; 91; 93; 40; 41; 44; 34; 39; 32; 9; 10; 13; 11; 12].
(* space \t \n \r \v \f (also the case list of skipWhitespaceWith) *)
Definition is_whitespace (c : Z) : bool := zmem c [32; 9; 10; 13; 11; 12].
(* tokenizer.go, end of file *)
Definition is_string_whitespace (c : Z) : bool := (c =? 9) || (c =? 11) || (c =? 12).
Definition is_new_line_char (c : Z) : bool := (c =? 10) || (c =? 13).
Definition is_prohibited_control_char (c : Z) : bool :=
  if (c <? 0) || (31 <? c) then false
  else if is_string_whitespace c || is_new_line_char c then false else true.
Definition is_ascii (c : Z) : bool := c <? 128.
Definition is_bin_digit (c : Z) : bool := (c =? 48) || (c =? 49).
Definition is_b (c : Z) : bool := (c =? 98) || (c =? 66).
Definition is_x (c : Z) : bool := (c =? 120) || (c =? 88).

(* byte(c) *)
Definition byte_of (c : Z) : N := Z.to_N (c mod 256).

(* ---- state ------------------------------------------------------------------------------------- *)
Record tstate := {
  t_in : list N;          (* bufio: bytes not yet consumed *)
  t_ioerr : bool;         (* when they run out: true = the io.Reader fails, false = io.EOF *)
  t_buf : list Z;         (* t.buffer, top of the stack first *)
  t_token : N;
  t_unfinished : bool
}.
Definition t_init (inp : list N) (ioerr : bool) : tstate :=
  {| t_in := inp; t_ioerr := ioerr; t_buf := []; t_token := tokenError; t_unfinished := false |}.
Definition set_in (t : tstate) (i : list N) : tstate :=
  {| t_in := i; t_ioerr := t_ioerr t; t_buf := t_buf t; t_token := t_token t; t_unfinished := t_unfinished t |}.
Definition set_buf (t : tstate) (b : list Z) : tstate :=
  {| t_in := t_in t; t_ioerr := t_ioerr t; t_buf := b; t_token := t_token t; t_unfinished := t_unfinished t |}.
Definition set_tok (t : tstate) (k : N) (more : bool) : tstate :=
  {| t_in := t_in t; t_ioerr := t_ioerr t; t_buf := t_buf t; t_token := k; t_unfinished := more |}.
Definition set_unfinished (t : tstate) (more : bool) : tstate := set_tok t (t_token t) more.

(* characters still to be delivered by read(): the measure every loop decreases *)
Definition t_rem (t : tstate) : nat :=
  (length (t_in t) + length (filter (fun c => negb (c =? -1)%Z) (t_buf t)))%nat.
Definition t_fuel (t : tstate) : nat := S (S (t_rem t)).

(* ---- the monad ---------------------------------------------------------------------------------- *)
Definition M (A : Type) : Type := tstate -> res (A * tstate).
Definition ret {A} (a : A) : M A := fun t => Ok (a, t).
Definition fail {A} : M A := fun _ => Err.
Definition mpanic {A} : M A := fun _ => Panic.
Definition nofuel {A} : M A := fun _ => OutOfFuel.
Definition mbind {A B} (m : M A) (f : A -> M B) : M B :=
  fun t => match m t with
           | Ok (a, t') => f a t'
           | Err => Err
           | Panic => Panic
           | OutOfFuel => OutOfFuel
           end.
Notation "'tdo' x <- m ; k" := (mbind m (fun x => k))
  (at level 200, x name, m at level 100, k at level 200, right associativity).
Notation "'tdo' ' p <- m ; k" := (mbind m (fun p => k))
  (at level 200, p pattern, m at level 100, k at level 200, right associativity).
Definition get : M tstate := fun t => Ok (t, t).
(* run a loop with the fuel the current state warrants *)
Definition with_fuel {A} (f : nat -> M A) : M A := fun t => f (t_fuel t) t.

(* ---- read / unread / peek / peekN / skipN --------------------------------------------------------- *)
(* read: EOF is (-1, nil); `\r` and `\r\n` become `\n` *)
Definition t_read : M Z := fun t =>
  match t_buf t with
  | c :: b => Ok (c, set_buf t b)
  | [] =>
    match t_in t with
    | [] => if t_ioerr t then Err else Ok (-1, t)
    | c :: r =>
      if (c =? 13)%N then
        match r with
        | [] => if t_ioerr t then Err                  (* in.Peek(1) fails with the I/O error *)
                else Ok (10, set_in t [])
        | c2 :: r2 => if (c2 =? 10)%N then Ok (10, set_in t r2) else Ok (10, set_in t r)
        end
      else Ok (Z.of_N c, set_in t r)
    end
  end.
Definition t_unread (c : Z) : M unit := fun t => Ok (tt, set_buf t (c :: t_buf t)).
Definition t_peek : M Z := fun t =>
  match t_buf t with
  | c :: _ => Ok (c, t)
  | [] => (tdo c <- t_read; tdo _ <- t_unread c; ret c) t
  end.

(* peekN: the characters it could read, and whether it stopped at EOF (err == io.EOF);
   any other error is passed on by every caller *)
Fixpoint peekN_loop (n : nat) (acc : list Z) : M (list Z * bool) :=
  match n with
  | O => ret (rev acc, false)
  | S n' => tdo c <- t_read;
            if c =? -1 then ret (rev acc, true) else peekN_loop n' (c :: acc)
  end.
Fixpoint unread_all (l : list Z) : M unit :=
  match l with
  | [] => ret tt
  | c :: r => tdo _ <- t_unread c; unread_all r
  end.
Definition t_peekN (n : nat) : M (list Z * bool) :=
  tdo '(cs, eof) <- peekN_loop n [];
  tdo _ <- (if eof then t_unread (-1) else ret tt);
  tdo _ <- unread_all (rev cs);
  ret (cs, eof).
Fixpoint t_skipN (n : nat) : M unit :=
  match n with
  | O => ret tt
  | S n' => tdo c <- t_read; if c =? -1 then ret tt else t_skipN n'
  end.

(* expect(f) *)
Definition t_expect (f : Z -> bool) : M unit :=
  tdo c <- t_read; if f c then ret tt else fail.

(* isStopChar(c) with the comment look-ahead *)
Definition t_is_stop_char (c : Z) : M bool :=
  if is_stop_char c then ret true
  else if c =? c_slash then
    tdo c2 <- t_peek;
    ret ((c2 =? c_slash) || (c2 =? c_star))
  else ret false.

Definition znth (l : list Z) (i : nat) : Z := nth i l 0.

(* IsTripleQuote: called after a ' has been read *)
Definition t_is_triple_quote : M bool :=
  tdo '(cs, eof) <- t_peekN 2;
  if eof then ret false
  else if (znth cs 0 =? c_quote) && (znth cs 1 =? c_quote) then tdo _ <- t_skipN 2; ret true
  else ret false.

(* isInf(c) *)
Definition t_is_inf (c : Z) : M bool :=
  if negb ((c =? c_plus) || (c =? c_minus)) then ret false else
  tdo '(cs, _) <- t_peekN 5;
  let n := length cs in
  if (n <? 3)%nat || negb ((znth cs 0 =? 105) && (znth cs 1 =? 110) && (znth cs 2 =? 102)) then ret false
  else if (n =? 3)%nat || is_stop_char (znth cs 3) then tdo _ <- t_skipN 3; ret true
  else if (znth cs 3 =? c_slash) && (4 <? n)%nat && ((znth cs 4 =? c_slash) || (znth cs 4 =? c_star))
  then tdo _ <- t_skipN 3; ret true
  else ret false.

(* scanForNumericType(c): panics on a non-digit *)
Definition t_scan_numeric (c : Z) : M N :=
  if negb (is_digit c) then mpanic else
  tdo '(cs, _) <- t_peekN 4;
  let n := length cs in
  if (c =? c_0) && (0 <? n)%nat && is_b (znth cs 0) then ret tokenBinary
  else if (c =? c_0) && (0 <? n)%nat && is_x (znth cs 0) then ret tokenHex
  else if (4 <=? n)%nat && is_digit (znth cs 0) && is_digit (znth cs 1) && is_digit (znth cs 2)
          && ((znth cs 3 =? c_minus) || (znth cs 3 =? c_T)) then ret tokenTimestamp
  else ret tokenNumber.

(* ---- from skipper.go: whitespace and comments (the value readers below need them) ---------------- *)
Inductive handler := HSkipComments | HStopForComments | HEnsureNoComments.

Fixpoint skip_single_line_comment (fuel : nat) : M unit :=
  match fuel with
  | O => nofuel
  | S f => tdo c <- t_read;
           if (c =? -1) || (c =? c_nl) then ret tt else skip_single_line_comment f
  end.
Fixpoint skip_block_comment (fuel : nat) (star : bool) : M unit :=
  match fuel with
  | O => nofuel
  | S f => tdo c <- t_read;
           if c =? -1 then fail
           else if star && (c =? c_slash) then ret tt
           else skip_block_comment f (c =? c_star)
  end.
(* a commentHandler: true = found and handled a comment *)
Definition run_handler (h : handler) : M bool :=
  match h with
  | HStopForComments => ret false
  | HEnsureNoComments => fail
  | HSkipComments =>
    tdo c <- t_peek;
    if c =? c_slash then tdo _ <- with_fuel skip_single_line_comment; ret true
    else if c =? c_star then
      tdo _ <- t_read;                 (* the '*' of the opener must not double as the '*' of a closer *)
      tdo _ <- with_fuel (fun f => skip_block_comment f false); ret true
    else ret false
  end.
(* skipWhitespaceWith: the first non-whitespace character and whether anything was skipped *)
Fixpoint skip_whitespace_with (fuel : nat) (h : handler) (skipped : bool) : M (Z * bool) :=
  match fuel with
  | O => nofuel
  | S f =>
    tdo c <- t_read;
    if is_whitespace c then skip_whitespace_with f h true
    else if c =? c_slash then
      tdo comment <- run_handler h;
      if comment then skip_whitespace_with f h true else ret (c_slash, skipped)
    else ret (c, skipped)
  end.
Definition t_skip_whitespace : M (Z * bool) := with_fuel (fun f => skip_whitespace_with f HSkipComments false).
Definition t_skip_lob_whitespace : M (Z * bool) := with_fuel (fun f => skip_whitespace_with f HStopForComments false).
Definition t_skip_whitespace_h (h : handler) : M (Z * bool) := with_fuel (fun f => skip_whitespace_with f h false).

(* skipEndOfLongString: (isEndOfString, isConsumed), called after a ' has been read *)
Definition t_skip_end_of_long_string (h : handler) : M (bool * bool) :=
  tdo '(cs, _) <- t_peekN 2;
  if (length cs <? 2)%nat || negb (znth cs 0 =? c_quote) || negb (znth cs 1 =? c_quote) then ret (false, false)
  else
    tdo _ <- t_skipN 2;
    tdo '(c, _) <- t_skip_whitespace_h h;
    tdo again <- (if c =? c_quote then t_is_triple_quote else ret false);
    if again then ret (false, true)
    else tdo _ <- t_unread c; ret (true, true).

(* ---- escapes ---------------------------------------------------------------------------------------- *)
(* strings.Builder.WriteRune on an int32 given as its uint32 pattern *)
Definition utf8_of_rune (r : Z) : list N :=
  let b (z : Z) : N := Z.to_N z in
  if r <=? 127 then [b r]
  else if r <=? 2047 then [b (192 + r / 64); b (128 + r mod 64)]
  else if (1114111 <? r) || ((55296 <=? r) && (r <=? 57343)) then [239; 191; 189]%N     (* U+FFFD *)
  else if r <=? 65535 then [b (224 + r / 4096); b (128 + (r / 64) mod 64); b (128 + r mod 64)]
  else [b (240 + r / 262144); b (128 + (r / 4096) mod 64); b (128 + (r / 64) mod 64); b (128 + r mod 64)].

Definition from_hex (c : Z) : option Z :=
  if (48 <=? c) && (c <=? 57) then Some (c - 48)
  else if (97 <=? c) && (c <=? 102) then Some (10 + (c - 97))
  else if (65 <=? c) && (c <=? 70) then Some (10 + (c - 65))
  else None.
(* readHexEscapeSeq: val = (val << 4) | d in int32, kept as the uint32 pattern *)
Fixpoint read_hex_escape_seq (n : nat) (val : Z) : M Z :=
  match n with
  | O => ret val
  | S n' => tdo c <- t_read;
            match from_hex c with
            | Some d => read_hex_escape_seq n' ((val * 16 + d) mod 4294967296)
            | None => fail
            end
  end.
(* the one-character escapes of readEscapedChar: 0 a b t n f r v ? / ' ` \ *)
Definition simple_escape (c : Z) : option Z :=
  if c =? 48 then Some 0 else if c =? 97 then Some 7 else if c =? 98 then Some 8
  else if c =? 116 then Some 9 else if c =? 110 then Some 10 else if c =? 102 then Some 12
  else if c =? 114 then Some 13 else if c =? 118 then Some 11 else if c =? 63 then Some 63
  else if c =? 47 then Some 47 else if c =? 39 then Some 39 else if c =? 34 then Some 34
  else if c =? 92 then Some 92 else None.
Definition is_surrogate (r : Z) : bool := (55296 <=? r) && (r <=? 57343).
(* readSurrogatePair: after a \uXXXX that named the surrogate [hi] *)
Definition read_surrogate_pair (hi : Z) : M Z :=
  if 56320 <=? hi then fail else                                     (* a low surrogate first *)
  tdo _ <- t_expect (fun c => c =? c_bslash);
  tdo _ <- t_expect (fun c => c =? 117);
  tdo lo <- read_hex_escape_seq 4 0;
  if (lo <? 56320) || (57343 <? lo) then fail
  else ret (65536 + (hi - 55296) * 1024 + (lo - 56320)).
Definition read_escaped_char (is_clob : bool) : M Z :=
  tdo c <- t_read;
  match simple_escape c with
  | Some r => ret r
  | None =>
    if c =? 85 then                                                                (* U *)
      if is_clob then fail else
      tdo r <- read_hex_escape_seq 8 0;
      (* r < 0 (bit 31 of the int32) || r > MaxRune || surrogate *)
      if (1114111 <? r) || is_surrogate r then fail else ret r
    else if c =? 117 then                                                          (* u *)
      if is_clob then fail else
      tdo r <- read_hex_escape_seq 4 0;
      if is_surrogate r then read_surrogate_pair r else ret r
    else if c =? 120 then read_hex_escape_seq 2 0                                  (* x *)
    else fail
  end.
(* processBackslashInString / processBackslashInClob: the bytes to append *)
Definition process_backslash (is_clob : bool) : M (list N) :=
  tdo c <- t_peek;
  if c =? c_nl then tdo _ <- t_read; ret []
  else tdo r <- read_escaped_char is_clob;
       ret (if is_clob then [byte_of r] else utf8_of_rune r).

(* ---- number readers ------------------------------------------------------------------------------------ *)
(* accumulators are reversed byte lists *)
Fixpoint read_radix_digits (fuel : nat) (valid : Z -> bool) (w : list N) : M (Z * list N) :=
  match fuel with
  | O => nofuel
  | S f =>
    tdo c <- t_read;
    if c =? c_under then
      tdo nx <- t_peek;
      if negb (valid nx) then fail else read_radix_digits f valid w
    else if negb (valid c) then ret (c, w)
    else read_radix_digits f valid (byte_of c :: w)
  end.
Definition read_digits (c : Z) (w : list N) : M (Z * list N) :=
  if negb (is_digit c) then ret (c, w)
  else with_fuel (fun f => read_radix_digits f is_digit (byte_of c :: w)).
(* readPlainDigits: digits without '_' separators (exponents, fractional seconds) *)
Fixpoint read_plain_digits_loop (fuel : nat) (c : Z) (w : list N) : M (Z * list N) :=
  match fuel with
  | O => nofuel
  | S f => if is_digit c then tdo c2 <- t_read; read_plain_digits_loop f c2 (byte_of c :: w)
           else ret (c, w)
  end.
Definition read_plain_digits (c : Z) (w : list N) : M (Z * list N) :=
  with_fuel (fun f => read_plain_digits_loop f c w).
Definition read_exponent (w : list N) : M (Z * list N) :=
  tdo c <- t_read;
  if (c =? c_plus) || (c =? c_minus) then
    tdo c2 <- t_read; read_plain_digits c2 (byte_of c :: w)
  else read_plain_digits c w.

Inductive numkind := NKInt | NKFloat | NKDecimal.
(* ReadNumber *)
Definition t_read_number : M (list N * numkind) :=
  tdo c <- t_read;
  tdo '(c, w) <- (if c =? c_minus then tdo c2 <- t_read; ret (c2, [45%N]) else ret (c, []));
  let first := c in
  let oldlen := length w in
  tdo '(c, w) <- read_digits c w;
  if (first =? c_0) && (1 <? length w - oldlen)%nat then fail else
  tdo '(c, w, kd) <-
    (if c =? c_dot then
       tdo c2 <- t_read;
       tdo '(c3, w3) <- read_digits c2 (46%N :: w);
       ret (c3, w3, NKDecimal)
     else ret (c, w, NKInt));
  tdo '(c, w, kd) <-
    (if (c =? 101) || (c =? 69) then
       tdo '(c2, w2) <- read_exponent (byte_of c :: w); ret (c2, w2, NKFloat)
     else if (c =? 100) || (c =? 68) then
       tdo '(c2, w2) <- read_exponent (byte_of c :: w); ret (c2, w2, NKDecimal)
     else ret (c, w, kd));
  tdo ok <- t_is_stop_char c;
  if negb ok then fail else
  tdo _ <- t_unread c;
  ret (rev w, kd).

(* readRadix *)
Definition read_radix (is_marker valid : Z -> bool) : M (list N) :=
  tdo c <- t_read;
  tdo '(c, w) <- (if c =? c_minus then tdo c2 <- t_read; ret (c2, [45%N]) else ret (c, []));
  if negb (c =? c_0) then fail else
  let w := 48%N :: w in
  tdo c <- t_read;
  if negb (is_marker c) then fail else
  let w := byte_of c :: w in
  (* `nextChar, err2 := t.peek(); if err2 != nil { return ``, err }`: err is nil at this point,
     so a failing peek makes readRadix SUCCEED with the empty string *)
  fun t =>
    match t_peek t with
    | Err => Ok ([], t)
    | Panic => Panic
    | OutOfFuel => OutOfFuel
    | Ok (nx, t1) =>
      (if nx =? c_under then fail else
       tdo '(c, w) <- with_fuel (fun f => read_radix_digits f valid w);
       tdo ok <- t_is_stop_char c;
       if negb ok then fail else
       tdo _ <- t_unread c;
       ret (rev w)) t1
    end.
Definition read_binary : M (list N) := read_radix is_b is_bin_digit.
Definition read_hex : M (list N) := read_radix is_x is_hex_digit.

(* ---- timestamps ------------------------------------------------------------------------------------------ *)
Fixpoint read_timestamp_digits (n : nat) (w : list N) : M (Z * list N) :=
  match n with
  | O => tdo c <- t_read; ret (c, w)
  | S n' => tdo c <- t_read;
            if negb (is_digit c) then fail else read_timestamp_digits n' (byte_of c :: w)
  end.
Definition read_timestamp_offset (c : Z) (w : list N) : M (Z * list N) :=
  if negb ((c =? c_minus) || (c =? c_plus)) then ret (c, w) else
  tdo '(c2, w) <- read_timestamp_digits 2 (byte_of c :: w);
  if negb (c2 =? c_colon) then fail else
  read_timestamp_digits 2 (58%N :: w).
Definition read_timestamp_offset_or_z (c : Z) (w : list N) : M (Z * list N) :=
  if (c =? c_minus) || (c =? c_plus) then read_timestamp_offset c w
  else if (c =? 122) || (c =? 90) then tdo c2 <- t_read; ret (c2, byte_of c :: w)
  else fail.
Definition read_timestamp_finish (c : Z) (w : list N) : M (list N) :=
  tdo ok <- t_is_stop_char c;
  if negb ok then fail else
  tdo _ <- t_unread c; ret (rev w).
Definition read_timestamp : M (list N) :=
  tdo '(c, w) <- read_timestamp_digits 4 [];
  if c =? c_T then tdo c2 <- t_read; read_timestamp_finish c2 (84%N :: w) else   (* yyyyT *)
  if negb (c =? c_minus) then fail else
  tdo '(c, w) <- read_timestamp_digits 2 (45%N :: w);
  if c =? c_T then tdo c2 <- t_read; read_timestamp_finish c2 (84%N :: w) else   (* yyyy-mmT *)
  if negb (c =? c_minus) then fail else
  tdo '(c, w) <- read_timestamp_digits 2 (45%N :: w);
  if negb (c =? c_T) then read_timestamp_finish c w else                         (* yyyy-mm-dd *)
  let w := 84%N :: w in
  tdo c <- t_read;
  if negb (is_digit c) then                                                      (* yyyy-mm-ddT(+hh:mm)? *)
    tdo '(c, w) <- read_timestamp_offset c w; read_timestamp_finish c w
  else
  tdo '(c, w) <- read_timestamp_digits 1 (byte_of c :: w);
  if negb (c =? c_colon) then fail else
  tdo '(c, w) <- read_timestamp_digits 2 (58%N :: w);
  if negb (c =? c_colon) then                                                    (* yyyy-mm-ddThh:mmZ *)
    tdo '(c, w) <- read_timestamp_offset_or_z c w; read_timestamp_finish c w
  else
  tdo '(c, w) <- read_timestamp_digits 2 (58%N :: w);
  if negb (c =? c_dot) then                                                      (* yyyy-mm-ddThh:mm:ssZ *)
    tdo '(c, w) <- read_timestamp_offset_or_z c w; read_timestamp_finish c w
  else
  let w := 46%N :: w in
  tdo c <- t_read;
  tdo '(c, w) <- (if is_digit c then read_plain_digits c w else ret (c, w));
  tdo '(c, w) <- read_timestamp_offset_or_z c w;
  read_timestamp_finish c w.

(* ---- symbols and strings ------------------------------------------------------------------------------------ *)
Fixpoint read_while (fuel : nat) (p : Z -> bool) (w : list N) : M (list N) :=
  match fuel with
  | O => nofuel
  | S f => tdo c <- t_peek;
           if p c then tdo _ <- t_read; read_while f p (byte_of c :: w)
           else ret (rev w)
  end.
Definition read_symbol : M (list N) := with_fuel (fun f => read_while f is_identifier_part []).
(* readOperator: a comment ends the operator (`+//` is `+` and a comment) *)
Fixpoint read_operator_loop (fuel : nat) (w : list N) : M (list N) :=
  match fuel with
  | O => nofuel
  | S f =>
    tdo c <- t_peek;
    if is_operator_char c then
      tdo stop <- (if c =? c_slash then
                     tdo '(cs, _) <- t_peekN 2;
                     ret ((length cs =? 2)%nat && ((znth cs 1 =? c_slash) || (znth cs 1 =? c_star)))
                   else ret false);
      if stop then ret (rev w)
      else tdo _ <- t_read; read_operator_loop f (byte_of c :: w)
    else ret (rev w)
  end.
Definition read_operator : M (list N) := with_fuel (fun f => read_operator_loop f []).

(* checkUTF8: the text as read from the input must be valid UTF-8 *)
Definition check_utf8 (v : list N) : M (list N) := if utf8_valid v then ret v else fail.

Fixpoint read_quoted_symbol_loop (fuel : nat) (w : list N) : M (list N) :=
  match fuel with
  | O => nofuel
  | S f =>
    tdo c <- t_read;
    if is_prohibited_control_char c then fail
    else if (c =? -1) || (c =? c_nl) then fail
    else if c =? c_quote then check_utf8 (rev w)
    else if c =? c_bslash then
      tdo c2 <- t_peek;
      if c2 =? c_nl then tdo _ <- t_read; read_quoted_symbol_loop f w
      else tdo r <- read_escaped_char false; read_quoted_symbol_loop f (rev (utf8_of_rune r) ++ w)
    else read_quoted_symbol_loop f (byte_of c :: w)
  end.
Definition read_quoted_symbol : M (list N) := with_fuel (fun f => read_quoted_symbol_loop f []).

Fixpoint read_string_loop (fuel : nat) (w : list N) : M (list N) :=
  match fuel with
  | O => nofuel
  | S f =>
    tdo c <- t_read;
    if (c =? -1) || (c =? c_nl) || is_prohibited_control_char c then fail
    else if c =? c_dquote then check_utf8 (rev w)
    else if c =? c_bslash then
      tdo bs <- process_backslash false; read_string_loop f (rev bs ++ w)
    else read_string_loop f (byte_of c :: w)
  end.
Definition read_string : M (list N) := with_fuel (fun f => read_string_loop f []).

Fixpoint read_clob_loop (fuel : nat) (w : list N) : M (list N) :=
  match fuel with
  | O => nofuel
  | S f =>
    tdo c <- t_read;
    if (c =? -1) || (c =? c_nl) || is_prohibited_control_char c || negb (is_ascii c) then fail
    else if c =? c_dquote then ret (rev w)
    else if c =? c_bslash then
      tdo bs <- process_backslash true; read_clob_loop f (rev bs ++ w)
    else read_clob_loop f (byte_of c :: w)
  end.
Definition read_clob : M (list N) := with_fuel (fun f => read_clob_loop f []).

(* [w]: the finished segments, [seg]: the current ''' segment (ret[segStart:]), both reversed *)
Fixpoint read_long_string_loop (fuel : nat) (w seg : list N) : M (list N) :=
  match fuel with
  | O => nofuel
  | S f =>
    tdo c <- t_read;
    if (c =? -1) || is_prohibited_control_char c then fail
    else if c =? c_quote then
      tdo '(is_end, consumed) <- t_skip_end_of_long_string HSkipComments;
      if consumed then
        (* the end of a segment: each segment is UTF-8 text by itself *)
        if negb (utf8_valid (rev seg)) then fail
        else if is_end then ret (rev (seg ++ w))
        else read_long_string_loop f (seg ++ w) []
      else if is_end then ret (rev (seg ++ w))          (* not reachable: the end is always consumed *)
      else read_long_string_loop f w (byte_of c :: seg)
    else if c =? c_bslash then
      tdo bs <- process_backslash false; read_long_string_loop f w (rev bs ++ seg)
    else read_long_string_loop f w (byte_of c :: seg)
  end.
Definition read_long_string : M (list N) := with_fuel (fun f => read_long_string_loop f [] []).

Fixpoint read_long_clob_loop (fuel : nat) (w : list N) : M (list N) :=
  match fuel with
  | O => nofuel
  | S f =>
    tdo c <- t_read;
    if (c =? -1) || is_prohibited_control_char c || negb (is_ascii c) then fail
    else if c =? c_quote then
      tdo '(is_end, consumed) <- t_skip_end_of_long_string HEnsureNoComments;
      if is_end then ret (rev w)
      else if negb consumed then read_long_clob_loop f (byte_of c :: w)
      else read_long_clob_loop f w
    else if c =? c_bslash then
      tdo bs <- process_backslash true; read_long_clob_loop f (rev bs ++ w)
    else read_long_clob_loop f (byte_of c :: w)
  end.
Definition read_long_clob : M (list N) := with_fuel (fun f => read_long_clob_loop f []).

(* ---- lobs --------------------------------------------------------------------------------------------------- *)
Definition finish (t : tstate) : res (unit * tstate) := Ok (tt, set_unfinished t false).

Fixpoint read_blob_loop (fuel : nat) (w : list N) : M (list N) :=
  match fuel with
  | O => nofuel
  | S f =>
    tdo '(c, _) <- t_skip_lob_whitespace;
    if c =? -1 then fail
    else if c =? c_rbrace then ret (rev w)
    else read_blob_loop f (byte_of c :: w)
  end.
(* ReadBlob: the base64 text without whitespace *)
Definition t_read_blob : M (list N) :=
  tdo w <- with_fuel (fun f => read_blob_loop f []);
  tdo c <- t_read;
  if negb (c =? c_rbrace) then fail else
  tdo _ <- finish; ret w.
Definition lob_end : M unit :=
  tdo '(c, _) <- t_skip_lob_whitespace;
  if negb (c =? c_rbrace) then fail else
  tdo c2 <- t_read;
  if negb (c2 =? c_rbrace) then fail else finish.
Definition t_read_short_clob : M (list N) := tdo v <- read_clob; tdo _ <- lob_end; ret v.
Definition t_read_long_clob : M (list N) := tdo v <- read_long_clob; tdo _ <- lob_end; ret v.

(* ---- ReadValue ------------------------------------------------------------------------------------------------ *)
Definition t_read_value (tok : N) : M (list N) :=
  tdo str <-
    (if (tok =? tokenSymbol)%N then read_symbol
     else if (tok =? tokenSymbolQuoted)%N then read_quoted_symbol
     else if (tok =? tokenSymbolOperator)%N || (tok =? tokenDot)%N then read_operator
     else if (tok =? tokenString)%N then read_string
     else if (tok =? tokenLongString)%N then read_long_string
     else if (tok =? tokenBinary)%N then read_binary
     else if (tok =? tokenHex)%N then read_hex
     else if (tok =? tokenTimestamp)%N then read_timestamp
     else mpanic);                                   (* panic(`unsupported token type`) *)
  tdo _ <- finish; ret str.

(* ---- Next and FinishValue, over skipValue (skipper.go; tied in Skipper.v) ------------------------------------ *)
Definition t_ok (tok : N) (more : bool) : M unit := fun t => Ok (tt, set_tok t tok more).

Section WithSkipValue.
Variable skip_value : M Z.

Definition t_next_with : M unit :=
  tdo t <- get;
  tdo c <- (if t_unfinished t then skip_value else tdo '(c, _) <- t_skip_whitespace; ret c);
  if c =? -1 then t_ok tokenEOF true
  else if c =? c_colon then
    tdo c2 <- t_peek;
    if c2 =? c_colon then tdo _ <- t_read; t_ok tokenDoubleColon false
    else t_ok tokenColon false
  else if c =? c_lbrace then
    tdo c2 <- t_peek;
    if c2 =? c_lbrace then tdo _ <- t_read; t_ok tokenOpenDoubleBrace true
    else t_ok tokenOpenBrace true
  else if c =? c_rbrace then t_ok tokenCloseBrace false
  else if c =? c_lbracket then t_ok tokenOpenBracket true
  else if c =? c_rbracket then t_ok tokenCloseBracket false
  else if c =? c_lparen then t_ok tokenOpenParen true
  else if c =? c_rparen then t_ok tokenCloseParen false
  else if c =? c_comma then t_ok tokenComma false
  else if c =? c_dot then
    tdo c2 <- t_peek;
    if is_operator_char c2 then tdo _ <- t_unread c; t_ok tokenSymbolOperator true
    else
      tdo _ <- t_unread c;             (* the '.' is read back by readOperator, whatever follows it *)
      t_ok tokenDot false
  else if c =? c_quote then
    tdo ok <- t_is_triple_quote;
    if ok then t_ok tokenLongString true else t_ok tokenSymbolQuoted true
  else if c =? c_plus then
    tdo ok <- t_is_inf c;
    if ok then t_ok tokenFloatInf false
    else tdo _ <- t_unread c; t_ok tokenSymbolOperator true
  else if c =? c_minus then
    tdo c2 <- t_peek;
    if is_digit c2 then
      tdo _ <- t_read;
      tdo k <- t_scan_numeric c2;
      if (k =? tokenTimestamp)%N then fail        (* no negative timestamps *)
      else tdo _ <- t_unread c2; tdo _ <- t_unread c; t_ok k true
    else
      tdo ok <- t_is_inf c;
      if ok then t_ok tokenFloatMinusInf false
      else tdo _ <- t_unread c; t_ok tokenSymbolOperator true
  else if is_operator_char c then tdo _ <- t_unread c; t_ok tokenSymbolOperator true
  else if c =? c_dquote then t_ok tokenString true
  else if is_identifier_start c then tdo _ <- t_unread c; t_ok tokenSymbol true
  else if is_digit c then
    tdo k <- t_scan_numeric c;
    tdo _ <- t_unread c; t_ok k true
  else fail.

(* FinishValue: true if it had to skip *)
Definition t_finish_value_with : M bool :=
  tdo t <- get;
  if negb (t_unfinished t) then ret false else
  tdo c <- skip_value;
  tdo _ <- t_unread c;
  tdo _ <- finish;
  ret true.
End WithSkipValue.

Definition t_set_finished : M unit := finish.
