(* SpellLong.v — C02, stage 4: long strings and long clobs.

   [lbody w text]: the bytes [w] of one '''segment''' (between the triple quotes) spell [text].
   A segment body is a sequence of
     - raw bytes (as in a short string, and the double quote),
     - raw newlines LF, CR, CR LF, each denoting LF (a CR that is followed by LF is the
       first half of CR LF),
     - one or two quotes, provided something other than a quote follows inside the body
       (three quotes in a row would close the segment; a body cannot end in a raw quote),
     - escapes and line continuations as in a short string.
   [lsegs w texts]: the whole token behind the opening ''': body ''' ws ''' body ''' ... body '''
   where ws is any whitespace/comment run ([ws_run]); the value is the concatenation.
   [lcbody], [lcsegs]: the same for clobs inside {{ }}: 7-bit raw bytes, clob escapes, and only
   plain whitespace between the segments.
   Written from the Ion text grammar, independently of the tokenizer.

   Theorems: readLongString / readLongClob, started behind the opening ''' of ANY such spelling,
   answer the concatenated text (each segment's text being valid UTF-8 for a string) and leave
   the stream as the Go code does: the whitespace behind the last segment is consumed too and
   the character after it is pushed back ([long_end]). *)
From Coq Require Import String List NArith ZArith Bool Lia ZifyBool ZifyN ZifyNat.
From IonV Require Import Base.Wire Base.Utf8 Text.Tokenizer Text.Skipper Text.SpellBase Text.SpellWs
  Text.SpellEsc Text.SpellStr.
From IonV Require Text.SpecText.
Import ListNotations.
Open Scope Z_scope.

(* ---- the relations ---------------------------------------------------------------------------------------- *)
(* raw bytes of a long string body; LF and CR are the newline items below *)
Definition lraw_char (c : N) : Prop :=
  (c <> 39 /\ c <> 92 /\ c <> 10 /\ c <> 13 /\ c < 256 /\ (32 <= c \/ str_ws c))%N.
(* not empty and not beginning with a quote *)
Definition nq (w : list N) : Prop := match w with [] => False | c :: _ => c <> 39%N end.
(* a CR that stands alone is not followed by LF *)
Definition nl_ok (nl w : list N) : Prop := nl = [13%N] -> hd 0%N w <> 10%N.
Definition q3 : list N := [39; 39; 39]%N.

Inductive lbody : list N -> list N -> Prop :=
| lb_nil : lbody [] []
| lb_raw c w t : lraw_char c -> lbody w t -> lbody (c :: w) (c :: t)
| lb_nl nl w t : line_cont nl -> nl_ok nl w -> lbody w t -> lbody (nl ++ w) (10%N :: t)
| lb_q w t : nq w -> lbody w t -> lbody (39%N :: w) (39%N :: t)
| lb_qq w t : nq w -> lbody w t -> lbody (39%N :: 39%N :: w) (39%N :: 39%N :: t)
| lb_esc e cp w t : esc_spells e cp -> lbody w t ->
                    lbody (92%N :: e ++ w) (SpecText.utf8_enc (Z.to_N cp) ++ t)
| lb_cont nl w t : line_cont nl -> nl_ok nl w -> lbody w t -> lbody (92%N :: nl ++ w) t.

Inductive lsegs : list N -> list (list N) -> Prop :=
| ls_last w t : lbody w t -> lsegs (w ++ q3) [t]
| ls_more w t ws rest ts : lbody w t -> ws_run ws -> lsegs rest ts ->
                           lsegs (w ++ q3 ++ ws ++ q3 ++ rest) (t :: ts).

(* clobs *)
Definition lclob_raw (c : N) : Prop := (c <> 39 /\ c <> 92 /\ (32 <= c <= 127 \/ str_ws c))%N.
Inductive lcbody : list N -> list N -> Prop :=
| lcb_nil : lcbody [] []
| lcb_raw c w t : lclob_raw c -> lcbody w t -> lcbody (c :: w) (c :: t)
| lcb_nl nl w t : line_cont nl -> nl_ok nl w -> lcbody w t -> lcbody (nl ++ w) (10%N :: t)
| lcb_q w t : nq w -> lcbody w t -> lcbody (39%N :: w) (39%N :: t)
| lcb_qq w t : nq w -> lcbody w t -> lcbody (39%N :: 39%N :: w) (39%N :: 39%N :: t)
| lcb_esc e cp w t : esc_spells_clob e cp -> lcbody w t -> lcbody (92%N :: e ++ w) (Z.to_N cp :: t)
| lcb_cont nl w t : line_cont nl -> nl_ok nl w -> lcbody w t -> lcbody (92%N :: nl ++ w) t.
Inductive lcsegs : list N -> list (list N) -> Prop :=
| lcs_last w t : lcbody w t -> lcsegs (w ++ q3) [t]
| lcs_more w t ws rest ts : lcbody w t -> ws_plain ws -> lcsegs rest ts ->
                            lcsegs (w ++ q3 ++ ws ++ q3 ++ rest) (t :: ts).

(* ---- peekN 2 and IsTripleQuote on any stream ------------------------------------------------------------------ *)
(* the answer of peekN(2) and the stream it leaves (an end of input it met is pushed back as -1) *)
Definition peek2 (r : list Z) : (list Z * bool) * list Z :=
  let c1 := shead r in
  if c1 =? -1 then (([], true), -1 :: stail r)
  else let c2 := shead (stail r) in
       if c2 =? -1 then (([c1], true), c1 :: -1 :: stail (stail r))
       else (([c1; c2], false), c1 :: c2 :: stail (stail r)).
Lemma run_peek2 r : run (t_peekN 2) r (fst (peek2 r)) (snd (peek2 r)).
Proof.
  unfold t_peekN, peek2. cbn [peekN_loop]. destruct (shead r =? -1) eqn:E1; cbn [fst snd].
  - eapply run_bind; [eapply run_bind; [apply run_read|]; rewrite E1; apply run_ret|]. cbn [rev].
    eapply run_bind; [apply run_unread|]. cbn [unread_all]. eapply run_bind; [apply run_ret|]. apply run_ret.
  - destruct (shead (stail r) =? -1) eqn:E2; cbn [fst snd].
    + eapply run_bind; [eapply run_bind; [apply run_read|]; rewrite E1;
                        eapply run_bind; [apply run_read|]; rewrite E2; apply run_ret|]. cbn [rev app].
      eapply run_bind; [apply run_unread|]. cbn [unread_all].
      eapply run_bind; [eapply run_bind; [apply run_unread|apply run_ret]|]. apply run_ret.
    + eapply run_bind; [eapply run_bind; [apply run_read|]; rewrite E1;
                        eapply run_bind; [apply run_read|]; rewrite E2; apply run_ret|]. cbn [rev app].
      eapply run_bind; [apply run_ret|]. cbn [unread_all].
      eapply run_bind; [eapply run_bind; [apply run_unread|eapply run_bind; [apply run_unread|apply run_ret]]|].
      apply run_ret.
Qed.
Lemma peek2_two a b r : a <> -1 -> b <> -1 -> peek2 (a :: b :: r) = (([a; b], false), a :: b :: r).
Proof.
  intros Ha Hb. unfold peek2. cbn [shead stail].
  destruct (Z.eqb_spec a (-1)); [contradiction|]. destruct (Z.eqb_spec b (-1)); [contradiction|reflexivity].
Qed.

(* the stream begins with two quotes *)
Definition triple (r : list Z) : bool := (shead r =? 39) && (shead (stail r) =? 39).
Lemma run_is_triple_quote r :
  run t_is_triple_quote r (triple r) (if triple r then stail (stail r) else snd (peek2 r)).
Proof.
  unfold t_is_triple_quote. eapply run_bind; [apply run_peek2|]. unfold peek2, triple.
  destruct (Z.eqb_spec (shead r) (-1)) as [E1|E1]; cbn [fst snd].
  - rewrite E1. cbn. apply run_ret.
  - destruct (Z.eqb_spec (shead (stail r)) (-1)) as [E2|E2]; cbn [fst snd].
    + rewrite E2, andb_false_r. apply run_ret.
    + cbn [znth nth]. unfold c_quote.
      destruct ((shead r =? 39) && (shead (stail r) =? 39)); [|apply run_ret].
      eapply run_bind; [|apply run_ret].
      apply (run_skipN 2 [shead r; shead (stail r)] (stail (stail r))); [reflexivity|].
      constructor; [exact E1|]. constructor; [exact E2|constructor].
Qed.

(* ---- skipEndOfLongString ------------------------------------------------------------------------------------------ *)
(* behind a quote that is not followed by two more: nothing happens *)
Lemma run_skip_end_not h a b r :
  0 <= a -> 0 <= b -> (a =? 39) && (b =? 39) = false ->
  run (t_skip_end_of_long_string h) (a :: b :: r) (false, false) (a :: b :: r).
Proof.
  intros Ha Hb Hq. unfold t_skip_end_of_long_string.
  eapply run_bind; [apply (run_peekN 2 [a; b] r); [reflexivity|repeat constructor; lia]|].
  cbn [length znth nth Nat.ltb Nat.leb orb]. unfold c_quote.
  replace (negb (a =? 39) || negb (b =? 39)) with true by (destruct (a =? 39), (b =? 39); auto; discriminate).
  apply run_ret.
Qed.

(* the stream begins with three quotes *)
Definition starts3 (s : list Z) : bool := (shead s =? 39) && triple (stail s).
(* behind the closing quotes and the whitespace: the next character is inspected and pushed back;
   [after] is the stream behind that character (a slash has been checked with a look-ahead) *)
Definition long_end_with (after : list Z) (s : list Z) : list Z :=
  if shead s =? 39 then 39 :: snd (peek2 (stail s)) else shead s :: after.
Definition long_end (s : list Z) : list Z := long_end_with (after_stop s) s.
Definition long_end_lob (s : list Z) : list Z := long_end_with (stail s) s.

(* behind the first of three quotes: [ws] is what the whitespace skipper of handler [h] consumes *)
Lemma run_skip_end_gen h ws s sk after :
  run (t_skip_whitespace_h h) (zs ws ++ s) (shead s, sk) after ->
  (shead s = 39 -> after = stail s) ->
  run (t_skip_end_of_long_string h) (39 :: 39 :: zs ws ++ s) (negb (starts3 s), true)
      (if starts3 s then stail (stail (stail s)) else long_end_with after s).
Proof.
  intros Hws Hafter. unfold t_skip_end_of_long_string.
  eapply run_bind; [apply (run_peekN 2 [39; 39] (zs ws ++ s)); [reflexivity|repeat constructor; lia]|].
  cbn [length znth nth Nat.ltb Nat.leb orb]. change (negb (39 =? c_quote) || negb (39 =? c_quote)) with false. cbv iota.
  eapply run_bind; [apply (run_skipN 2 [39; 39] (zs ws ++ s)); [reflexivity|repeat constructor; lia]|].
  eapply run_bind; [exact Hws|]. cbv beta iota. unfold starts3, long_end_with, c_quote.
  destruct (Z.eqb_spec (shead s) 39) as [E|E].
  - rewrite (Hafter E). cbn [andb]. eapply run_bind; [apply run_is_triple_quote|].
    destruct (triple (stail s)); cbn [negb].
    + apply run_ret.
    + eapply run_bind; [apply run_unread|]. rewrite E. apply run_ret.
  - cbn [andb negb]. eapply run_bind; [apply run_ret|]. cbv iota.
    eapply run_bind; [apply run_unread|]. apply run_ret.
Qed.
Lemma run_skip_end_str ws s :
  ws_run ws -> no_cr ws -> ws_stop s = true ->
  run (t_skip_end_of_long_string HSkipComments) (39 :: 39 :: zs ws ++ s) (negb (starts3 s), true)
      (if starts3 s then stail (stail (stail s)) else long_end s).
Proof.
  intros Hw Hcr Hs. apply (run_skip_end_gen HSkipComments ws s (nonempty ws) (after_stop s)).
  - exact (run_t_skip_whitespace ws s Hw Hcr Hs).
  - intros E. unfold after_stop. rewrite E. reflexivity.
Qed.
(* inside {{ }}: plain whitespace, and the next character is neither whitespace nor a slash *)
Definition lob_stop (s : list Z) : bool := negb (is_whitespace (shead s)) && negb (shead s =? c_slash).
Lemma run_skip_end_lob ws s :
  ws_plain ws -> lob_stop s = true ->
  run (t_skip_end_of_long_string HEnsureNoComments) (39 :: 39 :: zs ws ++ s) (negb (starts3 s), true)
      (if starts3 s then stail (stail (stail s)) else long_end_lob s).
Proof.
  intros Hw Hs. apply (run_skip_end_gen HEnsureNoComments ws s (nonempty ws) (stail s)); [|reflexivity].
  unfold lob_stop in Hs. apply andb_true_iff in Hs as [Hs1 Hs2]. apply negb_true_iff in Hs1, Hs2.
  unfold t_skip_whitespace_h. apply run_with_fuel. intros f Hf.
  rewrite nne_app, nne_zs in Hf. apply run_skip_lob_ws_k; auto; [lia|]. intros f1 Hf1.
  destruct f1 as [|f1]; [lia|].
  cbn [skip_whitespace_with]. eapply run_bind; [apply run_read|]. rewrite Hs1, Hs2. apply run_ret.
Qed.

(* ---- character facts ------------------------------------------------------------------------------------------------ *)
Lemma lraw_char_facts c : lraw_char c ->
  (Z.of_N c =? -1) = false /\ is_prohibited_control_char (Z.of_N c) = false /\
  (Z.of_N c =? c_bslash) = false /\ (Z.of_N c =? c_quote) = false /\ byte_of (Z.of_N c) = c.
Proof.
  intros (Hq & Hb & Hn & Hr & H256 & Hc). unfold c_quote, c_bslash.
  repeat split; try lia; [apply ctl_ok; assumption|apply byte_of_N; assumption].
Qed.
Lemma lclob_raw_facts c : lclob_raw c ->
  (Z.of_N c =? -1) = false /\ is_prohibited_control_char (Z.of_N c) = false /\ is_ascii (Z.of_N c) = true /\
  (Z.of_N c =? c_bslash) = false /\ (Z.of_N c =? c_quote) = false /\ byte_of (Z.of_N c) = c.
Proof.
  intros (Hq & Hb & Hc). unfold c_quote, c_bslash, is_ascii.
  assert (H256 : (c < 256)%N) by (unfold str_ws in Hc; lia).
  assert (Hc' : (32 <= c \/ str_ws c)%N) by (destruct Hc as [Hc|Hc]; [left; lia|right; exact Hc]).
  repeat split; try (unfold str_ws in Hc; lia); [apply ctl_ok; assumption|apply byte_of_N; assumption].
Qed.
(* the second character behind a body byte exists: the closing quotes follow *)
Lemma zs_tail_cons w x r : 0 <= x -> exists b r', zs w ++ x :: r = b :: r' /\ 0 <= b.
Proof.
  intros Hx. destruct w as [|c w]; cbn [zs map app].
  - exists x, r. auto.
  - exists (Z.of_N c), (map Z.of_N w ++ x :: r). split; [reflexivity|lia].
Qed.

(* ---- readLongString: one raw quote -------------------------------------------------------------------------------------- *)
Lemma run_long_quote f acc seg a b r (x : list N) s' :
  0 <= a -> 0 <= b -> (a =? 39) && (b =? 39) = false ->
  run (read_long_string_loop f acc (39%N :: seg)) (a :: b :: r) x s' ->
  run (read_long_string_loop (S f) acc seg) (39 :: a :: b :: r) x s'.
Proof.
  intros Ha Hb Hq Hk. cbn [read_long_string_loop]. eapply run_bind; [apply run_read_cons|].
  change ((39 =? -1) || is_prohibited_control_char 39) with false. change (39 =? c_quote) with true. cbv iota.
  eapply run_bind; [apply (run_skip_end_not HSkipComments a b r Ha Hb Hq)|]. cbv iota. exact Hk.
Qed.

(* the body of a segment, continuation form *)
Lemma run_long_body : forall w t, lbody w t -> forall f acc seg s (x : list N) s',
  no_cr w -> (length w <= f)%nat ->
  (forall f', (f - length w <= f')%nat ->
     run (read_long_string_loop f' acc (rev t ++ seg)) (39 :: 39 :: 39 :: s) x s') ->
  run (read_long_string_loop f acc seg) (zs w ++ 39 :: 39 :: 39 :: s) x s'.
Proof.
  induction 1 as [|c w t Hc Hw IH|nl w t Hn Hok Hw IH|w t Hq Hw IH|w t Hq Hw IH|e cp w t He Hw IH|nl w t Hn Hok Hw IH];
    intros f acc seg s x s' Hcr Hf Hk.
  - cbn [zs map app rev length] in *. apply Hk. lia.
  - destruct f as [|f]; [cbn [length] in Hf; lia|]. cbn [read_long_string_loop zs map app].
    eapply run_bind; [apply run_read_cons|].
    destruct (lraw_char_facts c Hc) as (H1 & H2 & H3 & H4 & H5). rewrite H1, H2, H4, H3, H5. cbn [orb].
    apply no_cr_cons in Hcr as [_ Hcr]. apply IH; auto; [cbn [length] in Hf; lia|].
    intros f' Hf'. cbn [rev] in Hk. rewrite <- app_assoc in Hk. apply Hk. cbn [length]. lia.
  - apply no_cr_app in Hcr as [Hcn Hcr]. rewrite (line_cont_no_cr nl Hn Hcn) in *.
    destruct f as [|f]; [cbn [length app] in Hf; lia|]. cbn [read_long_string_loop zs map app].
    eapply run_bind; [apply run_read_cons|].
    change ((Z.of_N 10 =? -1) || is_prohibited_control_char (Z.of_N 10)) with false.
    change (Z.of_N 10 =? c_quote) with false. change (Z.of_N 10 =? c_bslash) with false. cbv iota.
    change (byte_of (Z.of_N 10)) with 10%N.
    apply IH; auto; [cbn [length app] in Hf; lia|].
    intros f' Hf'. cbn [rev] in Hk. rewrite <- app_assoc in Hk. apply Hk. cbn [length app]. lia.
  - destruct w as [|c1 w']; [contradiction|]. cbn [nq] in Hq.
    destruct f as [|f]; [cbn [length] in Hf; lia|].
    destruct (zs_tail_cons w' 39 (39 :: 39 :: s) ltac:(lia)) as (b & r' & E & Hb).
    apply no_cr_cons in Hcr as [_ Hcr].
    assert (Hgoal : run (read_long_string_loop f acc (39%N :: seg)) (zs (c1 :: w') ++ 39 :: 39 :: 39 :: s) x s').
    { apply IH; auto; [cbn [length] in Hf |- *; lia|].
      intros f' Hf'. cbn [rev] in Hk. rewrite <- app_assoc in Hk. apply Hk. cbn [length] in Hf' |- *. lia. }
    cbn [zs map app] in Hgoal |- *. unfold zs in E. rewrite E in Hgoal |- *.
    apply run_long_quote; auto; [lia|]. replace (Z.of_N c1 =? 39) with false by lia. reflexivity.
  - destruct w as [|c1 w']; [contradiction|]. cbn [nq] in Hq.
    destruct f as [|[|f]]; try (cbn [length] in Hf; lia).
    destruct (zs_tail_cons w' 39 (39 :: 39 :: s) ltac:(lia)) as (b & r' & E & Hb).
    apply no_cr_cons in Hcr as [_ Hcr]. apply no_cr_cons in Hcr as [_ Hcr].
    assert (Hgoal : run (read_long_string_loop f acc (39%N :: 39%N :: seg)) (zs (c1 :: w') ++ 39 :: 39 :: 39 :: s) x s').
    { apply IH; auto; [cbn [length] in Hf |- *; lia|].
      intros f' Hf'. cbn [rev] in Hk. rewrite <- !app_assoc in Hk. apply Hk. cbn [length] in Hf' |- *. lia. }
    cbn [zs map app] in Hgoal |- *. unfold zs in E. rewrite E in Hgoal |- *.
    apply run_long_quote; [lia|lia|replace (Z.of_N c1 =? 39) with false by lia; apply andb_false_r|].
    apply run_long_quote; auto; [lia|]. replace (Z.of_N c1 =? 39) with false by lia. reflexivity.
  - destruct f as [|f]; [cbn [length] in Hf; lia|]. cbn [read_long_string_loop zs map app].
    rewrite zs_app, <- app_assoc. eapply run_bind; [apply run_read_cons|].
    change ((Z.of_N 92 =? -1) || is_prohibited_control_char (Z.of_N 92)) with false.
    change (Z.of_N 92 =? c_quote) with false. change (Z.of_N 92 =? c_bslash) with true. cbv iota.
    eapply run_bind; [apply (run_process_backslash e cp _ He)|].
    rewrite (esc_spells_enc e cp He).
    apply no_cr_cons in Hcr as [_ Hcr]. apply no_cr_app in Hcr as [_ Hcr].
    cbn [length] in Hf, Hk. rewrite app_length in Hf, Hk.
    apply IH; auto; [lia|].
    intros f' Hf'. rewrite rev_app_distr, <- app_assoc in Hk. apply Hk. lia.
  - apply no_cr_cons in Hcr as [_ Hcr]. apply no_cr_app in Hcr as [Hcn Hcr].
    rewrite (line_cont_no_cr nl Hn Hcn) in *.
    destruct f as [|f]; [cbn [length] in Hf; lia|]. cbn [read_long_string_loop zs map app].
    eapply run_bind; [apply run_read_cons|].
    change ((Z.of_N 92 =? -1) || is_prohibited_control_char (Z.of_N 92)) with false.
    change (Z.of_N 92 =? c_quote) with false. change (Z.of_N 92 =? c_bslash) with true. cbv iota.
    eapply run_bind; [apply run_process_backslash_nl|]. cbn [rev app].
    apply IH; auto; [cbn [length app] in Hf; lia|].
    intros f' Hf'. apply Hk. cbn [length app]. lia.
Qed.

(* ---- readLongString: the segments ------------------------------------------------------------------------------------------ *)
Definition valid_segs (ts : list (list N)) : Prop := Forall (fun t => utf8_valid t = true) ts.

Lemma run_long_segs : forall w ts, lsegs w ts -> forall f acc ws s,
  no_cr w -> valid_segs ts -> ws_run ws -> no_cr ws -> ws_stop s = true -> starts3 s = false ->
  (length w <= f)%nat ->
  run (read_long_string_loop f acc []) (zs w ++ zs ws ++ s) (rev acc ++ concat ts) (long_end s).
Proof.
  induction 1 as [w t Hb|w t ws0 rest ts Hb Hws0 Hrest IH]; intros f acc ws s Hcr Hv Hws Hcrw Hs H3 Hf.
  - inversion Hv as [|? ? Hvt _]; subst. apply no_cr_app in Hcr as [Hcr _].
    unfold q3 in *. rewrite zs_app, <- app_assoc. cbn [zs map app].
    rewrite app_length in Hf. cbn [length] in Hf.
    apply run_long_body with (t := t); auto; [lia|]. intros f' Hf'. rewrite app_nil_r.
    destruct f' as [|f']; [lia|]. cbn [read_long_string_loop].
    eapply run_bind; [apply run_read_cons|].
    change ((39 =? -1) || is_prohibited_control_char 39) with false. change (39 =? c_quote) with true. cbv iota.
    eapply run_bind; [apply (run_skip_end_str ws s Hws Hcrw Hs)|]. rewrite H3. cbn [negb]. cbv iota.
    rewrite rev_involutive, Hvt. cbn [negb]. cbv iota.
    cbn [concat]. rewrite app_nil_r, rev_app_distr, rev_involutive. apply run_ret.
  - inversion Hv as [|? ? Hvt Hvts]; subst.
    apply no_cr_app in Hcr as [Hcr Hcr2]. apply no_cr_app in Hcr2 as [_ Hcr2].
    apply no_cr_app in Hcr2 as [Hcr0 Hcr2]. apply no_cr_app in Hcr2 as [_ Hcr2].
    rewrite !app_length in Hf. unfold q3 in *. cbn [length] in Hf.
    rewrite !zs_app, <- !app_assoc. cbn [zs map app].
    apply run_long_body with (t := t); auto; [lia|]. intros f' Hf'. rewrite app_nil_r.
    destruct f' as [|f']; [lia|]. cbn [read_long_string_loop].
    eapply run_bind; [apply run_read_cons|].
    change ((39 =? -1) || is_prohibited_control_char 39) with false. change (39 =? c_quote) with true. cbv iota.
    eapply run_bind; [apply (run_skip_end_str ws0 (39 :: 39 :: 39 :: zs rest ++ zs ws ++ s) Hws0 Hcr0 eq_refl)|].
    change (starts3 (39 :: 39 :: 39 :: zs rest ++ zs ws ++ s)) with true. cbn [negb stail]. cbv iota.
    rewrite rev_involutive, Hvt. cbn [negb]. cbv iota.
    eapply run_eq; [apply (IH f' (rev t ++ acc) ws s)| |reflexivity]; auto; [lia|].
    cbn [concat]. rewrite rev_app_distr, rev_involutive, <- app_assoc. reflexivity.
Qed.

Theorem run_read_long_string w ts ws s :
  lsegs w ts -> no_cr w -> valid_segs ts -> ws_run ws -> no_cr ws -> ws_stop s = true -> starts3 s = false ->
  run read_long_string (zs w ++ zs ws ++ s) (concat ts) (long_end s).
Proof.
  intros Hw Hcr Hv Hws Hcrw Hs H3. unfold read_long_string. apply run_with_fuel. intros f Hf.
  rewrite nne_app, nne_zs in Hf.
  apply (run_long_segs w ts Hw f [] ws s); auto. lia.
Qed.

(* ---- readLongClob ---------------------------------------------------------------------------------------------------------- *)
Lemma run_long_clob_quote f acc a b r (x : list N) s' :
  0 <= a -> 0 <= b -> (a =? 39) && (b =? 39) = false ->
  run (read_long_clob_loop f (39%N :: acc)) (a :: b :: r) x s' ->
  run (read_long_clob_loop (S f) acc) (39 :: a :: b :: r) x s'.
Proof.
  intros Ha Hb Hq Hk. cbn [read_long_clob_loop]. eapply run_bind; [apply run_read_cons|].
  change ((39 =? -1) || is_prohibited_control_char 39 || negb (is_ascii 39)) with false.
  change (39 =? c_quote) with true. cbv iota.
  eapply run_bind; [apply (run_skip_end_not HEnsureNoComments a b r Ha Hb Hq)|]. cbv iota. cbn [negb]. cbv iota. exact Hk.
Qed.

Lemma run_long_clob_body : forall w t, lcbody w t -> forall f acc s (x : list N) s',
  no_cr w -> (length w <= f)%nat ->
  (forall f', (f - length w <= f')%nat ->
     run (read_long_clob_loop f' (rev t ++ acc)) (39 :: 39 :: 39 :: s) x s') ->
  run (read_long_clob_loop f acc) (zs w ++ 39 :: 39 :: 39 :: s) x s'.
Proof.
  induction 1 as [|c w t Hc Hw IH|nl w t Hn Hok Hw IH|w t Hq Hw IH|w t Hq Hw IH|e cp w t He Hw IH|nl w t Hn Hok Hw IH];
    intros f acc s x s' Hcr Hf Hk.
  - cbn [zs map app rev length] in *. apply Hk. lia.
  - destruct f as [|f]; [cbn [length] in Hf; lia|]. cbn [read_long_clob_loop zs map app].
    eapply run_bind; [apply run_read_cons|].
    destruct (lclob_raw_facts c Hc) as (H1 & H2 & H3 & H4 & H5 & H6). rewrite H1, H2, H3, H5, H4, H6. cbn [orb negb].
    apply no_cr_cons in Hcr as [_ Hcr]. apply IH; auto; [cbn [length] in Hf; lia|].
    intros f' Hf'. cbn [rev] in Hk. rewrite <- app_assoc in Hk. apply Hk. cbn [length]. lia.
  - apply no_cr_app in Hcr as [Hcn Hcr]. rewrite (line_cont_no_cr nl Hn Hcn) in *.
    destruct f as [|f]; [cbn [length app] in Hf; lia|]. cbn [read_long_clob_loop zs map app].
    eapply run_bind; [apply run_read_cons|].
    change ((Z.of_N 10 =? -1) || is_prohibited_control_char (Z.of_N 10) || negb (is_ascii (Z.of_N 10))) with false.
    change (Z.of_N 10 =? c_quote) with false. change (Z.of_N 10 =? c_bslash) with false. cbv iota.
    change (byte_of (Z.of_N 10)) with 10%N.
    apply IH; auto; [cbn [length app] in Hf; lia|].
    intros f' Hf'. cbn [rev] in Hk. rewrite <- app_assoc in Hk. apply Hk. cbn [length app]. lia.
  - destruct w as [|c1 w']; [contradiction|]. cbn [nq] in Hq.
    destruct f as [|f]; [cbn [length] in Hf; lia|].
    destruct (zs_tail_cons w' 39 (39 :: 39 :: s) ltac:(lia)) as (b & r' & E & Hb).
    apply no_cr_cons in Hcr as [_ Hcr].
    assert (Hgoal : run (read_long_clob_loop f (39%N :: acc)) (zs (c1 :: w') ++ 39 :: 39 :: 39 :: s) x s').
    { apply IH; auto; [cbn [length] in Hf |- *; lia|].
      intros f' Hf'. cbn [rev] in Hk. rewrite <- app_assoc in Hk. apply Hk. cbn [length] in Hf' |- *. lia. }
    cbn [zs map app] in Hgoal |- *. unfold zs in E. rewrite E in Hgoal |- *.
    apply run_long_clob_quote; auto; [lia|]. replace (Z.of_N c1 =? 39) with false by lia. reflexivity.
  - destruct w as [|c1 w']; [contradiction|]. cbn [nq] in Hq.
    destruct f as [|[|f]]; try (cbn [length] in Hf; lia).
    destruct (zs_tail_cons w' 39 (39 :: 39 :: s) ltac:(lia)) as (b & r' & E & Hb).
    apply no_cr_cons in Hcr as [_ Hcr]. apply no_cr_cons in Hcr as [_ Hcr].
    assert (Hgoal : run (read_long_clob_loop f (39%N :: 39%N :: acc)) (zs (c1 :: w') ++ 39 :: 39 :: 39 :: s) x s').
    { apply IH; auto; [cbn [length] in Hf |- *; lia|].
      intros f' Hf'. cbn [rev] in Hk. rewrite <- !app_assoc in Hk. apply Hk. cbn [length] in Hf' |- *. lia. }
    cbn [zs map app] in Hgoal |- *. unfold zs in E. rewrite E in Hgoal |- *.
    apply run_long_clob_quote; [lia|lia|replace (Z.of_N c1 =? 39) with false by lia; apply andb_false_r|].
    apply run_long_clob_quote; auto; [lia|]. replace (Z.of_N c1 =? 39) with false by lia. reflexivity.
  - destruct f as [|f]; [cbn [length] in Hf; lia|]. cbn [read_long_clob_loop zs map app].
    rewrite zs_app, <- app_assoc. eapply run_bind; [apply run_read_cons|].
    change ((Z.of_N 92 =? -1) || is_prohibited_control_char (Z.of_N 92) || negb (is_ascii (Z.of_N 92))) with false.
    change (Z.of_N 92 =? c_quote) with false. change (Z.of_N 92 =? c_bslash) with true. cbv iota.
    eapply run_bind; [apply (run_process_backslash_clob e cp _ He)|].
    apply no_cr_cons in Hcr as [_ Hcr]. apply no_cr_app in Hcr as [_ Hcr].
    cbn [length] in Hf, Hk. rewrite app_length in Hf, Hk.
    apply IH; auto; [lia|].
    intros f' Hf'. cbn [rev app] in Hk |- *. rewrite <- app_assoc in Hk. apply Hk. lia.
  - apply no_cr_cons in Hcr as [_ Hcr]. apply no_cr_app in Hcr as [Hcn Hcr].
    rewrite (line_cont_no_cr nl Hn Hcn) in *.
    destruct f as [|f]; [cbn [length] in Hf; lia|]. cbn [read_long_clob_loop zs map app].
    eapply run_bind; [apply run_read_cons|].
    change ((Z.of_N 92 =? -1) || is_prohibited_control_char (Z.of_N 92) || negb (is_ascii (Z.of_N 92))) with false.
    change (Z.of_N 92 =? c_quote) with false. change (Z.of_N 92 =? c_bslash) with true. cbv iota.
    eapply run_bind; [apply run_process_backslash_nl|]. cbn [rev app].
    apply IH; auto; [cbn [length app] in Hf; lia|].
    intros f' Hf'. apply Hk. cbn [length app]. lia.
Qed.

Lemma run_long_clob_segs : forall w ts, lcsegs w ts -> forall f acc ws s,
  no_cr w -> ws_plain ws -> lob_stop s = true -> starts3 s = false ->
  (length w <= f)%nat ->
  run (read_long_clob_loop f acc) (zs w ++ zs ws ++ s) (rev acc ++ concat ts) (long_end_lob s).
Proof.
  induction 1 as [w t Hb|w t ws0 rest ts Hb Hws0 Hrest IH]; intros f acc ws s Hcr Hws Hs H3 Hf.
  - apply no_cr_app in Hcr as [Hcr _].
    unfold q3 in *. rewrite zs_app, <- app_assoc. cbn [zs map app].
    rewrite app_length in Hf. cbn [length] in Hf.
    apply run_long_clob_body with (t := t); auto; [lia|]. intros f' Hf'.
    destruct f' as [|f']; [lia|]. cbn [read_long_clob_loop].
    eapply run_bind; [apply run_read_cons|].
    change ((39 =? -1) || is_prohibited_control_char 39 || negb (is_ascii 39)) with false.
    change (39 =? c_quote) with true. cbv iota.
    eapply run_bind; [apply (run_skip_end_lob ws s Hws Hs)|]. rewrite H3. cbn [negb]. cbv iota.
    cbn [concat]. rewrite app_nil_r, rev_app_distr, rev_involutive. apply run_ret.
  - apply no_cr_app in Hcr as [Hcr Hcr2]. apply no_cr_app in Hcr2 as [_ Hcr2].
    apply no_cr_app in Hcr2 as [Hcr0 Hcr2]. apply no_cr_app in Hcr2 as [_ Hcr2].
    unfold q3 in *. rewrite !app_length in Hf. cbn [length] in Hf.
    rewrite !zs_app, <- !app_assoc. cbn [zs map app].
    apply run_long_clob_body with (t := t); auto; [lia|]. intros f' Hf'.
    destruct f' as [|f']; [lia|]. cbn [read_long_clob_loop].
    eapply run_bind; [apply run_read_cons|].
    change ((39 =? -1) || is_prohibited_control_char 39 || negb (is_ascii 39)) with false.
    change (39 =? c_quote) with true. cbv iota.
    eapply run_bind; [apply (run_skip_end_lob ws0 (39 :: 39 :: 39 :: zs rest ++ zs ws ++ s) Hws0 eq_refl)|].
    change (starts3 (39 :: 39 :: 39 :: zs rest ++ zs ws ++ s)) with true. cbn [negb stail]. cbv iota.
    eapply run_eq; [apply (IH f' (rev t ++ acc) ws s)| |reflexivity]; auto; [lia|].
    cbn [concat]. rewrite rev_app_distr, rev_involutive, <- app_assoc. reflexivity.
Qed.

Theorem run_read_long_clob w ts ws s :
  lcsegs w ts -> no_cr w -> ws_plain ws -> lob_stop s = true -> starts3 s = false ->
  run read_long_clob (zs w ++ zs ws ++ s) (concat ts) (long_end_lob s).
Proof.
  intros Hw Hcr Hws Hs H3. unfold read_long_clob. apply run_with_fuel. intros f Hf.
  rewrite nne_app, nne_zs in Hf.
  apply (run_long_clob_segs w ts Hw f [] ws s); auto. lia.
Qed.

(* ---- the relations are closed under newline normalisation ------------------------------------------------------------------ *)
Lemma norm_nl_ok nl w : line_cont nl -> nl_ok nl w -> norm (nl ++ w) = 10%N :: norm w.
Proof.
  intros [ | | ] Hok; cbn [app].
  - apply norm_cons_nocr. discriminate.
  - specialize (Hok eq_refl). apply (norm_line_cont [13%N] w lc_cr Hok).
  - reflexivity.
Qed.
Lemma nq_norm w : nq w -> nq (norm w).
Proof.
  destruct w as [|c r]; [contradiction|]. cbn [nq norm]. intros Hc.
  destruct (c =? 13)%N; [discriminate|exact Hc].
Qed.
Lemma nl_ok_lf w : nl_ok [10%N] w.
Proof. intros H. discriminate H. Qed.

Lemma lbody_norm w t : lbody w t -> lbody (norm w) t.
Proof.
  induction 1 as [|c w t Hc Hw IH|nl w t Hn Hok Hw IH|w t Hq Hw IH|w t Hq Hw IH|e cp w t He Hw IH|nl w t Hn Hok Hw IH].
  - constructor.
  - rewrite norm_cons_nocr by (destruct Hc as (_ & _ & _ & Hc & _); exact Hc). apply lb_raw; assumption.
  - rewrite (norm_nl_ok nl w Hn Hok). apply (lb_nl [10%N]); [constructor|apply nl_ok_lf|assumption].
  - rewrite norm_cons_nocr by discriminate. apply lb_q; [apply nq_norm|]; assumption.
  - rewrite !norm_cons_nocr by discriminate. apply lb_qq; [apply nq_norm|]; assumption.
  - rewrite norm_cons_nocr by discriminate. rewrite (norm_app_nocr e w (esc_spells_no_cr e cp He)).
    apply lb_esc; assumption.
  - rewrite norm_cons_nocr by discriminate. rewrite (norm_nl_ok nl w Hn Hok).
    apply (lb_cont [10%N]); [constructor|apply nl_ok_lf|assumption].
Qed.
Lemma lcbody_norm w t : lcbody w t -> lcbody (norm w) t.
Proof.
  induction 1 as [|c w t Hc Hw IH|nl w t Hn Hok Hw IH|w t Hq Hw IH|w t Hq Hw IH|e cp w t He Hw IH|nl w t Hn Hok Hw IH].
  - constructor.
  - rewrite norm_cons_nocr by (destruct Hc as (_ & _ & Hc); unfold str_ws in Hc; lia). apply lcb_raw; assumption.
  - rewrite (norm_nl_ok nl w Hn Hok). apply (lcb_nl [10%N]); [constructor|apply nl_ok_lf|assumption].
  - rewrite norm_cons_nocr by discriminate. apply lcb_q; [apply nq_norm|]; assumption.
  - rewrite !norm_cons_nocr by discriminate. apply lcb_qq; [apply nq_norm|]; assumption.
  - rewrite norm_cons_nocr by discriminate.
    rewrite (norm_app_nocr e w (esc_spells_no_cr e cp (esc_clob_text e cp He))). apply lcb_esc; assumption.
  - rewrite norm_cons_nocr by discriminate. rewrite (norm_nl_ok nl w Hn Hok).
    apply (lcb_cont [10%N]); [constructor|apply nl_ok_lf|assumption].
Qed.

Lemma no_cr_q3 : no_cr q3.
Proof. repeat constructor; discriminate. Qed.
Lemma norm_body_q3 w r : norm (w ++ q3 ++ r) = norm w ++ q3 ++ norm r.
Proof. rewrite norm_app by (right; cbn; lia). now rewrite (norm_app_nocr q3 r no_cr_q3). Qed.

Lemma lsegs_norm w ts : lsegs w ts -> lsegs (norm w) ts.
Proof.
  induction 1 as [w t Hb|w t ws rest ts Hb Hws Hrest IH].
  - replace (w ++ q3) with (w ++ q3 ++ []) by now rewrite app_nil_r.
    rewrite norm_body_q3. cbn [norm]. rewrite app_nil_r. apply ls_last. apply lbody_norm. exact Hb.
  - rewrite norm_body_q3, norm_body_q3. apply ls_more; [apply lbody_norm; exact Hb| |exact IH].
    apply (ws_norm _ ws eq_refl Hws).
Qed.
Lemma lcsegs_norm w ts : lcsegs w ts -> lcsegs (norm w) ts.
Proof.
  induction 1 as [w t Hb|w t ws rest ts Hb Hws Hrest IH].
  - replace (w ++ q3) with (w ++ q3 ++ []) by now rewrite app_nil_r.
    rewrite norm_body_q3. cbn [norm]. rewrite app_nil_r. apply lcs_last. apply lcbody_norm. exact Hb.
  - rewrite norm_body_q3, norm_body_q3. apply lcs_more; [apply lcbody_norm; exact Hb| |exact IH].
    apply (ws_plain_norm _ ws eq_refl Hws).
Qed.
(* a token ends with a quote *)
Lemma lsegs_last w ts : lsegs w ts -> exists w', w = w' ++ [39%N].
Proof.
  induction 1 as [w t Hb|w t ws rest ts Hb Hws Hrest (r' & ->)].
  - exists (w ++ [39; 39]%N). rewrite <- app_assoc. reflexivity.
  - exists (w ++ q3 ++ ws ++ q3 ++ r'). rewrite <- !app_assoc. reflexivity.
Qed.
Lemma lcsegs_last w ts : lcsegs w ts -> exists w', w = w' ++ [39%N].
Proof.
  induction 1 as [w t Hb|w t ws rest ts Hb Hws Hrest (r' & ->)].
  - exists (w ++ [39; 39]%N). rewrite <- app_assoc. reflexivity.
  - exists (w ++ q3 ++ ws ++ q3 ++ r'). rewrite <- !app_assoc. reflexivity.
Qed.

(* ---- on a concrete input ------------------------------------------------------------------------------------------------------ *)
Lemma stream_long t w ws rest :
  t_buf t = [] -> t_in t = w ++ ws ++ rest -> (exists w', w = w' ++ [39%N]) -> hd 0%N rest <> 10%N ->
  stream t = zs (norm w) ++ zs (norm ws) ++ zs (norm rest).
Proof.
  intros Hb Hin (w' & ->) Hr. rewrite (stream_in t Hb), Hin.
  rewrite norm_app by (left; rewrite last_last; discriminate).
  rewrite (norm_app ws rest) by (right; exact Hr). now rewrite !zs_app.
Qed.
Lemma lob_stop_hd rest : lob_stop (zs (norm rest)) = true -> hd 0%N rest <> 10%N.
Proof.
  destruct rest as [|c r]; [cbn; lia|]. cbn [hd norm]. intros H ->. discriminate H.
Qed.

Theorem read_long_string_spelling w ts ws rest t :
  lsegs w ts -> valid_segs ts -> ws_run ws ->
  ws_stop (zs (norm rest)) = true -> starts3 (zs (norm rest)) = false ->
  t_ioerr t = false -> t_buf t = [] -> t_in t = w ++ ws ++ rest ->
  exists t', read_long_string t = Ok (concat ts, t') /\
             stream t' = long_end (zs (norm rest)) /\ t_ioerr t' = false /\
             t_token t' = t_token t /\ t_unfinished t' = t_unfinished t.
Proof.
  intros Hw Hv Hws Hs H3 Hi Hb Hin.
  pose proof (run_read_long_string (norm w) ts (norm ws) (zs (norm rest)) (lsegs_norm _ _ Hw) (norm_no_cr w) Hv
                (ws_norm _ ws eq_refl Hws) (norm_no_cr ws) Hs H3) as R.
  destruct (run_apply _ _ _ _ t R Hi) as (t' & E & Hi' & Hs' & Hk & Hu').
  - apply stream_long; auto; [eapply lsegs_last; exact Hw|apply ws_stop_hd; exact Hs].
  - exists t'. auto.
Qed.
Theorem read_long_clob_spelling w ts ws rest t :
  lcsegs w ts -> ws_plain ws ->
  lob_stop (zs (norm rest)) = true -> starts3 (zs (norm rest)) = false ->
  t_ioerr t = false -> t_buf t = [] -> t_in t = w ++ ws ++ rest ->
  exists t', read_long_clob t = Ok (concat ts, t') /\
             stream t' = long_end_lob (zs (norm rest)) /\ t_ioerr t' = false /\
             t_token t' = t_token t /\ t_unfinished t' = t_unfinished t.
Proof.
  intros Hw Hws Hs H3 Hi Hb Hin.
  pose proof (run_read_long_clob (norm w) ts (norm ws) (zs (norm rest)) (lcsegs_norm _ _ Hw) (norm_no_cr w)
                (ws_plain_norm _ ws eq_refl Hws) Hs H3) as R.
  destruct (run_apply _ _ _ _ t R Hi) as (t' & E & Hi' & Hs' & Hk & Hu').
  - apply stream_long; auto; [eapply lcsegs_last; exact Hw|apply lob_stop_hd; exact Hs].
  - exists t'. auto.
Qed.

(* what [long_end] is in the usual cases: the next character is pushed back in front of what follows it *)
Lemma long_end_other c r : c <> 39 -> c <> c_slash -> long_end (c :: r) = c :: r.
Proof.
  intros H1 H2. unfold long_end, long_end_with, after_stop. cbn [shead stail].
  destruct (Z.eqb_spec c 39); [contradiction|]. destruct (Z.eqb_spec c c_slash); [contradiction|reflexivity].
Qed.
Lemma long_end_quote a b r : a <> -1 -> b <> -1 -> long_end (39 :: a :: b :: r) = 39 :: a :: b :: r.
Proof.
  intros Ha Hb. unfold long_end, long_end_with. cbn [shead stail]. change (39 =? 39) with true. cbv iota.
  now rewrite (peek2_two a b r Ha Hb).
Qed.
Lemma long_end_lob_other c r : c <> 39 -> long_end_lob (c :: r) = c :: r.
Proof.
  intros H1. unfold long_end_lob, long_end_with. cbn [shead stail].
  destruct (Z.eqb_spec c 39); [contradiction|reflexivity].
Qed.

(* ---- examples: the hypotheses are satisfiable, and the specification decoder agrees ------------------------------------------ *)
(* segment 1: raw bytes with both kinds of quotes (one and two in a row), the three raw newlines, an escaped quote
   at the end of the body, a continuation with CR LF, raw UTF-8; then whitespace with both comment forms;
   segment 2: an escape, two quotes in a row, a continuation with a lone CR *)
Definition long_ex_b1 : list N :=
  s "a""'b''c" ++ [10; 13; 13; 10]%N ++ [195; 169]%N ++ [92; 13; 10]%N ++ s "\x41\'".
Definition long_ex_t1 : list N := s "a""'b''c" ++ [10; 10; 10]%N ++ [195; 169]%N ++ s "A'".
Definition long_ex_ws : list N := s " /* ''' */ // ''' c" ++ [13; 10; 9]%N.
Definition long_ex_b2 : list N := s "\" ++ s "u20AC''z\" ++ [13%N] ++ s "!".
Definition long_ex_t2 : list N := [226; 130; 172]%N ++ s "''z!".
Definition long_ex_w : list N := long_ex_b1 ++ q3 ++ long_ex_ws ++ q3 ++ (long_ex_b2 ++ q3).

Ltac l_raw := apply lb_raw; [unfold lraw_char, str_ws; lia|].
Ltac l_nl nl := apply (lb_nl nl); [constructor|unfold nl_ok; cbn; intros Hnl; try discriminate Hnl; lia|].
Ltac l_cont nl := apply (lb_cont nl); [constructor|unfold nl_ok; cbn; intros Hnl; try discriminate Hnl; lia|].

Example long_ex_b1_ok : lbody long_ex_b1 long_ex_t1.
Proof.
  vm_compute. do 2 l_raw. apply lb_q; [cbn; lia|]. l_raw. apply lb_qq; [cbn; lia|]. l_raw.
  l_nl [10%N]. l_nl [13%N]. l_nl [13; 10]%N. do 2 l_raw. l_cont [13; 10]%N.
  apply (lb_esc (s "x41") 65); [apply (es_x (s "41") 65%N); split; reflexivity|].
  apply (lb_esc [39%N] 39); [apply es_one; cbn; tauto|]. constructor.
Qed.
Example long_ex_b2_ok : lbody long_ex_b2 long_ex_t2.
Proof.
  vm_compute.
  apply (lb_esc (s "u20AC") 8364); [apply (es_u (s "20AC") 8364%N); [split; reflexivity|unfold surrogate; lia]|].
  apply lb_qq; [cbn; lia|]. l_raw. l_cont [13%N]. l_raw. constructor.
Qed.
Example long_ex_ws_ok : ws_run long_ex_ws.
Proof.
  unfold long_ex_ws. cbn. apply ws_ch; [reflexivity|].
  apply (ws_block (s " ''' ")); [reflexivity|]. apply ws_ch; [reflexivity|].
  apply (ws_line (s " ''' c") 13%N); [repeat constructor; discriminate|now right|].
  do 2 (apply ws_ch; [reflexivity|]). constructor.
Qed.
Example long_ex_ok : lsegs long_ex_w [long_ex_t1; long_ex_t2].
Proof.
  unfold long_ex_w. apply ls_more; [exact long_ex_b1_ok|exact long_ex_ws_ok|]. apply ls_last. exact long_ex_b2_ok.
Qed.
Example long_ex_valid : valid_segs [long_ex_t1; long_ex_t2].
Proof. repeat constructor. Qed.
Example long_ex_spec :
  SpecText.p_long_seq 200 false (long_ex_w ++ s " ,1") [] = Some (long_ex_t1 ++ long_ex_t2, s " ,1").
Proof. vm_compute. reflexivity. Qed.
(* the model: the blank behind the token is consumed and the comma pushed back *)
Example long_ex_model :
  read_long_string (t_init (long_ex_w ++ s " ,1") false)
  = Ok (long_ex_t1 ++ long_ex_t2, set_buf (t_init (s "1") false) [44]).
Proof. vm_compute. reflexivity. Qed.
Example long_ex_thm : exists t',
  read_long_string (t_init (long_ex_w ++ s " ,1") false) = Ok (long_ex_t1 ++ long_ex_t2, t') /\ stream t' = zs (s ",1").
Proof.
  destruct (read_long_string_spelling long_ex_w _ (s " ") (s ",1") (t_init (long_ex_w ++ s " " ++ s ",1") false)
              long_ex_ok long_ex_valid ltac:(repeat constructor) eq_refl eq_refl eq_refl eq_refl eq_refl)
    as (t' & E & Hs & _).
  exists t'. split; [|exact Hs]. cbn [concat] in E. rewrite app_nil_r in E. exact E.
Qed.

(* the stream behind the token in the delicate cases, model against [long_end]: one quote (a quoted symbol follows),
   two quotes and the end, one quote and the end, the end, a slash that starts no comment, a slash at the end *)
Definition long_after (rest : list N) : option (list N * list Z) :=
  match read_long_string (t_init (s "ab'''" ++ rest) false) with Ok (v, t') => Some (v, stream t') | _ => None end.
Example long_end_ex :
  Forall (fun rest => long_after rest = Some (s "ab", long_end (zs rest)))
         [s "'q'"; s "''"; s "'"; []; s "/x"; s "/"; s "' '"; s "''x"].
Proof. repeat constructor. Qed.

(* clob: 7-bit raw bytes, quotes, newlines, clob escapes; plain whitespace between the segments *)
Definition lclob_ex_b1 : list N := s "a""'b''c~" ++ [10; 13; 13; 10; 127]%N ++ [92; 13; 10]%N ++ s "\xfE\'".
Definition lclob_ex_t1 : list N := s "a""'b''c~" ++ [10; 10; 10; 127]%N ++ [254; 39]%N.
Definition lclob_ex_ws : list N := s " " ++ [13; 10; 9; 11; 12]%N.
Definition lclob_ex_b2 : list N := s "''z\" ++ [13%N] ++ s "\0".
Definition lclob_ex_t2 : list N := s "''z" ++ [0%N].
Definition lclob_ex_w : list N := lclob_ex_b1 ++ q3 ++ lclob_ex_ws ++ q3 ++ (lclob_ex_b2 ++ q3).
Ltac lc_raw := apply lcb_raw; [unfold lclob_raw, str_ws; lia|].
Example lclob_ex_ok : lcsegs lclob_ex_w [lclob_ex_t1; lclob_ex_t2].
Proof.
  unfold lclob_ex_w. apply lcs_more.
  - vm_compute. do 2 lc_raw. apply lcb_q; [cbn; lia|]. lc_raw. apply lcb_qq; [cbn; lia|]. do 2 lc_raw.
    apply (lcb_nl [10%N]); [constructor|intros Hnl; discriminate Hnl|].
    apply (lcb_nl [13%N]); [constructor|intros _; cbn; lia|].
    apply (lcb_nl [13; 10]%N); [constructor|intros Hnl; discriminate Hnl|]. lc_raw.
    apply (lcb_cont [13; 10]%N); [constructor|intros Hnl; discriminate Hnl|].
    apply (lcb_esc (s "xfE") 254); [exact esc_ex_x|].
    apply (lcb_esc [39%N] 39); [apply esc_one; cbn; tauto|]. constructor.
  - unfold lclob_ex_ws. cbn. repeat (apply wsp_ch; [reflexivity|]). constructor.
  - apply lcs_last. vm_compute. apply lcb_qq; [cbn; lia|]. lc_raw.
    apply (lcb_cont [13%N]); [constructor|intros _; cbn; lia|].
    apply (lcb_esc [48%N] 0); [apply esc_one; cbn; tauto|]. constructor.
Qed.
Example lclob_ex_spec :
  SpecText.p_long_seq 200 true (lclob_ex_w ++ s " }}") [] = Some (lclob_ex_t1 ++ lclob_ex_t2, s " }}").
Proof. vm_compute. reflexivity. Qed.
Example lclob_ex_model :
  read_long_clob (t_init (lclob_ex_w ++ s " }}") false)
  = Ok (lclob_ex_t1 ++ lclob_ex_t2, set_buf (t_init (s "}") false) [125]).
Proof. vm_compute. reflexivity. Qed.
Example lclob_ex_thm : exists t',
  read_long_clob (t_init (lclob_ex_w ++ s " }}") false) = Ok (lclob_ex_t1 ++ lclob_ex_t2, t') /\ stream t' = zs (s "}}").
Proof.
  destruct (read_long_clob_spelling lclob_ex_w _ (s " ") (s "}}") (t_init (lclob_ex_w ++ s " " ++ s "}}") false)
              lclob_ex_ok ltac:(repeat constructor) eq_refl eq_refl eq_refl eq_refl eq_refl)
    as (t' & E & Hs & _).
  exists t'. split; [|exact Hs]. cbn [concat] in E. rewrite app_nil_r in E. exact E.
Qed.
(* what the grammar excludes is refused: a comment between clob segments (the specification ends the value at the
   first segment, and the enclosing {{ }} then fails on the comment), a NUL, a byte above 127 in a clob *)
Example long_ex_bad :
  SpecText.p_long_seq 100 true (s "a''' /**/ '''b''' }}") [] = Some (s "a", s " /**/ '''b''' }}") /\
  read_long_clob (t_init (s "a''' /**/ '''b''' }}") false) = Err /\
  SpecText.p_long_seq 100 false ([97; 0; 39; 39; 39]%N) [] = None /\ read_long_string (t_init [97; 0; 39; 39; 39]%N false) = Err /\
  SpecText.p_long_seq 100 true ([97; 200; 39; 39; 39]%N) [] = None /\ read_long_clob (t_init [97; 200; 39; 39; 39]%N false) = Err.
Proof. vm_compute. auto 10. Qed.
