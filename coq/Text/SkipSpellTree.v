(* SkipSpellTree.v — C08 for text, stage 2: the skipper's loop over every spelling of a value tree.

   [skip_tree]: for every value spelled by [tspell2] (scalars of all kinds with annotations, containers of any
   nesting with any spelling of the members) the loop of skipContainerHelper consumes exactly the spelling, with the
   closer and the stack of pending closers unchanged; for every member sequence spelled by [cseq2] — the rest of a
   container from ANY member boundary up to and including the closing bracket — the loop consumes it and pops.
   [settled_container]: hence FinishValue (which is what Next and StepOut call) on a container that was not entered
   leaves the tokenizer in front of what follows the container: the container is [settled] in the sense of
   SpellStream.v, the very notion the traversal theorems of C02 use for "the reader stands in front of the rest". *)
From Coq Require Import String List NArith ZArith Bool Lia ZifyBool ZifyN ZifyNat.
From IonV Require Import Base.Wire Base.Utf8 Data.Ion Bin.Bits Bin.BitStream Bin.BinReader Num.Float Text.Tokenizer Text.Skipper
  Text.TextReader Text.TextNum Text.SpellBase Text.SpellWs Text.SpellNum Text.SpellTok Text.SpellRead
  Text.SpellEsc Text.SpellStr Text.SpellLong Text.SpellIdent Text.SpellSym Text.SpellTs Text.SpellBlob
  Text.SpellVal Text.SpellSymVal Text.SpellOp Text.SpellStream Text.SpellCont Text.SpellTree
  Text.SpellEofc Text.SpellOp2 Text.SpellStream2 Text.SpellIvm Text.SpellTree2 Text.SkipSpell.
Import ListNotations.
Open Scope Z_scope.

(* ---- literals made of characters the loop merely consumes ------------------------------------------------------------ *)
Ltac pc := split; [unfold is_whitespace, zmem; cbn [existsb]; lia|lia].
Ltac fpc := repeat (apply Forall_cons; [pc|]); try apply Forall_nil.
Lemma id_part_pchar c : id_part c -> pchar c.
Proof. unfold id_part, id_start, letter, digit. intros H. pc. Qed.
Lemma ident_pchar id : ident_chars id -> Forall pchar id.
Proof. intros H. apply ident_chars_parts in H. eapply Forall_impl; [|exact H]. apply id_part_pchar. Qed.
Lemma hexb_pchar c : is_hex_b c = true -> pchar c.
Proof. unfold is_hex_b, is_dec_b. intros H. pc. Qed.
Lemma decb_hexb c : is_dec_b c = true -> is_hex_b c = true.
Proof. unfold is_hex_b. intros ->. reflexivity. Qed.
Lemma binb_hexb c : is_bin_b c = true -> is_hex_b c = true.
Proof. unfold is_hex_b, is_bin_b, is_dec_b. lia. Qed.
Lemma us_tail_pchar isd w p : (forall c, isd c = true -> is_hex_b c = true) -> us_tail isd w p -> Forall pchar w.
Proof.
  intros Hd. induction 1 as [|c w p Hc Ht IH|c w p Hc Ht IH].
  - constructor.
  - constructor; [apply hexb_pchar; auto|exact IH].
  - constructor; [pc|exact IH].
Qed.
Lemma us_digits_pchar isd w p : (forall c, isd c = true -> is_hex_b c = true) -> us_digits isd w p -> Forall pchar w.
Proof.
  intros Hd [c w' p' Hc Ht]. constructor; [apply hexb_pchar; auto|eapply us_tail_pchar; eauto].
Qed.
Lemma sign_pchar neg : Forall pchar (sign_bytes neg).
Proof. destruct neg; cbn [sign_bytes]; [constructor; [pc|constructor]|constructor]. Qed.
Lemma num_text_pchar n : num_wf n -> Forall pchar (num_text n).
Proof.
  intros (Hi & _ & Hf & He). unfold num_text. apply Forall_app. split; [apply sign_pchar|].
  apply Forall_app. split; [eapply us_digits_pchar; [|exact Hi]; apply decb_hexb|].
  apply Forall_app. split.
  - destruct (n_dot n); [|constructor]. constructor; [pc|]. destruct Hf as [[-> _]|Hf]; [constructor|].
    eapply us_digits_pchar; [|exact Hf]; apply decb_hexb.
  - unfold exp_wf, exp_text in *. destruct (n_exp n) as [[[m sg] ed]|]; [|constructor].
    destruct He as (Hm & Hs & _ & Hed). constructor; [pc|]. apply Forall_app. split.
    + destruct Hs as [->|[->| ->]]; fpc.
    + eapply Forall_impl; [|exact Hed]. intros c Hc. apply hexb_pchar. now apply decb_hexb.
Qed.
Lemma d2_pchar n : w2 n = true -> Forall pchar (d2 n).
Proof. unfold w2, d2. intros H. fpc. Qed.
Lemma d4_pchar y : (y <? 10000)%N = true -> Forall pchar (d4 y).
Proof. intros H. unfold d4. apply Forall_app. split; apply d2_pchar; unfold w2; lia. Qed.
Lemma digs_pchar fd : frac_ok fd = true -> Forall pchar (digs fd).
Proof.
  unfold frac_ok, digs. intros H. assert (H' : forallb (fun d => (d <=? 9)%N) fd = true) by (destruct fd; [discriminate|exact H]).
  clear H. induction fd as [|d fd IH]; cbn [map]; [constructor|]. cbn [forallb] in H'. apply andb_true_iff in H' as [H1 H2].
  constructor; [pc|auto].
Qed.
Lemma off_pchar o : off_fits o = true -> Forall pchar (off_text o).
Proof.
  destruct o as [|hh mm|hh mm]; cbn [off_fits off_text]; intros H.
  - fpc.
  - apply andb_true_iff in H as [H1 H2]. constructor; [pc|]. apply Forall_app. split; [now apply d2_pchar|].
    constructor; [pc|now apply d2_pchar].
  - apply andb_true_iff in H as [H1 H2]. constructor; [pc|]. apply Forall_app. split; [now apply d2_pchar|].
    constructor; [pc|now apply d2_pchar].
Qed.
Lemma pchar_T : pchar 84%N. Proof. pc. Qed.
Lemma pchar_minus : pchar 45%N. Proof. pc. Qed.
Lemma pchar_colon : pchar 58%N. Proof. pc. Qed.
Lemma pchar_dot : pchar 46%N. Proof. pc. Qed.
Lemma pchar_comma : pchar 44%N. Proof. pc. Qed.
Lemma date_pchar y mo d : (y <? 10000)%N = true -> w2 mo = true -> w2 d = true -> Forall pchar (date_text y mo d).
Proof.
  intros Hy Hm Hd. unfold date_text. apply Forall_app. split; [now apply d4_pchar|]. constructor; [exact pchar_minus|].
  apply Forall_app. split; [now apply d2_pchar|]. constructor; [exact pchar_minus|now apply d2_pchar].
Qed.
Ltac ands H := repeat match type of H with (_ && _ = true) => let H2 := fresh H in apply andb_true_iff in H as [H H2] end.
Lemma ts_text_pchar sh : ts_fits sh = true -> Forall pchar (ts_text sh).
Proof.
  destruct sh as [y|y mo|y mo d t|y mo d h mi o|y mo d h mi sec o|y mo d h mi sec fd o]; cbn [ts_fits ts_text]; intros H; ands H.
  - apply Forall_app. split; [now apply d4_pchar|fpc].
  - apply Forall_app. split; [now apply d4_pchar|]. constructor; [exact pchar_minus|].
    apply Forall_app. split; [now apply d2_pchar|fpc].
  - apply Forall_app. split; [now apply date_pchar|]. destruct t; fpc.
  - apply Forall_app. split; [now apply date_pchar|]. constructor; [exact pchar_T|].
    apply Forall_app. split; [now apply d2_pchar|]. constructor; [exact pchar_colon|].
    apply Forall_app. split; [now apply d2_pchar|now apply off_pchar].
  - apply Forall_app. split; [now apply date_pchar|]. constructor; [exact pchar_T|].
    apply Forall_app. split; [now apply d2_pchar|]. constructor; [exact pchar_colon|].
    apply Forall_app. split; [now apply d2_pchar|]. constructor; [exact pchar_colon|].
    apply Forall_app. split; [now apply d2_pchar|now apply off_pchar].
  - apply Forall_app. split; [now apply date_pchar|]. constructor; [exact pchar_T|].
    apply Forall_app. split; [now apply d2_pchar|]. constructor; [exact pchar_colon|].
    apply Forall_app. split; [now apply d2_pchar|]. constructor; [exact pchar_colon|].
    apply Forall_app. split; [now apply d2_pchar|]. constructor; [exact pchar_dot|].
    apply Forall_app. split; [now apply digs_pchar|now apply off_pchar].
Qed.

(* ---- brackets -------------------------------------------------------------------------------------------------------------- *)
Lemma K_close f top terms c T Tout : top = Z.of_N c -> closer top ->
  Kpop f terms T Tout -> K (S f) top terms (c :: T) Tout.
Proof.
  intros Etop Ht HK. assert (Hc : (c = 41 \/ c = 93 \/ c = 125)%N) by (unfold closer in Ht; lia).
  apply K_round; [apply ws_stop_plain; [|lia]; destruct Hc as [->|[->| ->]]; reflexivity|].
  intros S2 He2. pose proof (ends_after_stop _ _ _ He2) as He3.
  unfold sk_body. replace (Z.of_N c =? -1) with false by lia. rewrite <- Etop, Z.eqb_refl.
  destruct terms as [|t1 rest]; cbn [Kpop] in HK.
  - subst Tout. exists (after_stop S2). split; [apply run_ret|exact He3].
  - apply (HK [] (after_stop S2)); [constructor|constructor|exact He3].
Qed.
Lemma K_open f top terms ob cl T Tout : closer top -> (ob = 91%N /\ cl = 93) \/ (ob = 40%N /\ cl = 41) ->
  K f cl (top :: terms) T Tout -> K (S f) top terms (ob :: T) Tout.
Proof.
  intros Ht Hob HK. apply K_round; [apply ws_stop_plain; [|lia]; destruct Hob as [[-> _]|[-> _]]; reflexivity|].
  intros S2 He2. pose proof (ends_after_stop _ _ _ He2) as He3.
  destruct (HK [] (after_stop S2)) as (S' & R & He'); [constructor|constructor|exact He3|].
  exists S'. split; [|exact He']. unfold sk_body, closer in *.
  destruct Hob as [[-> ->]|[-> ->]].
  - replace (Z.of_N 91 =? top) with false by lia. exact R.
  - replace (Z.of_N 40 =? top) with false by lia. exact R.
Qed.
Lemma K_brace_push f top terms T Tout : closer top ->
  T <> [] -> shead (zs T) <> 123 -> shead (zs T) <> 125 ->
  K f 125 (top :: terms) T Tout -> K (S f) top terms (123%N :: T) Tout.
Proof.
  intros Ht Hne H1 H2 HK. apply K_round; [apply ws_stop_plain; [reflexivity|discriminate]|].
  intros S2 He2. pose proof (ends_after_stop _ _ _ He2) as He3.
  destruct (HK [] (after_stop S2)) as (S' & R & He'); [constructor|constructor|exact He3|].
  exists S'. split; [|exact He']. unfold sk_body, closer in *.
  replace (Z.of_N 123 =? top) with false by lia. change (Z.of_N 123 =? -1) with false.
  change (Z.of_N 123 =? c_dquote) with false. change (Z.of_N 123 =? c_quote) with false.
  change (Z.of_N 123 =? c_lparen) with false. change (Z.of_N 123 =? c_lbracket) with false.
  change (Z.of_N 123 =? c_lbrace) with true. cbv iota.
  destruct T as [|c0 T']; [contradiction|]. destruct (ends_cons _ _ _ He3) as [E3 _].
  rewrite E3 in R |- *. eapply run_bind; [apply run_peek_cons|]. cbn [zs map shead] in H1, H2. unfold c_lbrace, c_rbrace.
  replace (Z.of_N c0 =? 123) with false by lia. replace (Z.of_N c0 =? 125) with false by lia. exact R.
Qed.
Lemma K_brace_empty f top terms T Tout : closer top ->
  K f top terms T Tout -> K (S f) top terms (123%N :: 125%N :: T) Tout.
Proof.
  intros Ht HK. apply K_round; [apply ws_stop_plain; [reflexivity|discriminate]|].
  intros S2 He2. pose proof (ends_after_stop _ _ _ He2) as He3. destruct (ends_cons _ _ _ He3) as [E3 He4].
  destruct (HK [] (stail (after_stop S2))) as (S' & R & He'); [constructor|constructor|exact He4|].
  exists S'. split; [|exact He']. unfold sk_body, closer in *.
  replace (Z.of_N 123 =? top) with false by lia. change (Z.of_N 123 =? -1) with false.
  change (Z.of_N 123 =? c_dquote) with false. change (Z.of_N 123 =? c_quote) with false.
  change (Z.of_N 123 =? c_lparen) with false. change (Z.of_N 123 =? c_lbracket) with false.
  change (Z.of_N 123 =? c_lbrace) with true. cbv iota.
  rewrite E3. eapply run_bind; [apply run_peek_cons|].
  change (Z.of_N 125 =? c_lbrace) with false. change (Z.of_N 125 =? c_rbrace) with true. cbv iota.
  eapply run_bind; [apply run_read_cons|]. exact R.
Qed.

(* the shape of the lemmas below: [n] rounds consume [lit] *)
Definition consumes (lit : list N) (T : list N) : Prop :=
  exists n, (n <= length lit)%nat /\
  forall f top terms Tout, closer top -> K f top terms T Tout -> K (n + f) top terms (lit ++ T) Tout.
Lemma consumes_nil T : consumes [] T.
Proof. exists O. split; [cbn; lia|]. intros f top terms Tout _ HK. exact HK. Qed.
Lemma consumes_app a b T : consumes a (b ++ T) -> consumes b T -> consumes (a ++ b) T.
Proof.
  intros (n1 & H1 & K1) (n2 & H2 & K2). exists (n1 + n2)%nat. split; [rewrite app_length; lia|].
  intros f top terms Tout Ht HK. rewrite <- app_assoc, <- Nat.add_assoc. apply K1; auto.
Qed.
Lemma consumes_plain lit T : Forall pchar lit -> consumes lit T.
Proof. intros Hl. exists (length lit). split; [lia|]. intros f top terms Tout Ht HK. now apply K_plain. Qed.
Lemma consumes_ws w T : ws_run w -> no_cr w -> consumes w T.
Proof. intros Hw Hc. exists O. split; [lia|]. intros f top terms Tout Ht HK. now apply K_ws. Qed.
Lemma consumes_one lit T :
  (forall f top terms Tout, closer top -> K f top terms T Tout -> K (S f) top terms (lit ++ T) Tout) ->
  lit <> [] -> consumes lit T.
Proof.
  intros H Hne. exists 1%nat. split; [destruct lit; [contradiction|cbn [length]; lia]|]. exact H.
Qed.

Section Tree.
Variable pd : list N -> res dec.
Variable pt : list N -> res (list N).
Variable lst : rlst.

(* ---- scalar literals ------------------------------------------------------------------------------------------------------------ *)
Lemma op_follow T : is_operator_char (shead (zs T)) = false -> shead (zs T) <> 47 /\ shead (zs T) <> 42.
Proof. unfold is_operator_char, zmem. cbn [existsb]. lia. Qed.

Lemma item_consumes ctx ann lit fol ty v :
  item_spells2 pd pt lst ctx ann lit fol ty v ->
  forall wn T, fol wn T -> ws_run wn -> no_cr lit -> no_cr wn -> ws_stop (zs T) = true ->
  consumes (lit ++ wn) T.
Proof.
  intros Hit wn T Hfol Hwn Hcl Hcn Hst.
  assert (Hgen : consumes lit (wn ++ T) -> consumes (lit ++ wn) T).
  { intros H. apply consumes_app; [exact H|now apply consumes_ws]. }
  assert (Hops : forall l, op_chars l -> no_comment_start l = true ->
                 (last l 0%N = 47%N -> shead (zs (wn ++ T)) <> 47 /\ shead (zs (wn ++ T)) <> 42) -> consumes l (wn ++ T)).
  { intros l Hop Hnc Hlast. exists (length l). split; [lia|]. intros f top terms Tout Ht HK.
    apply K_ops; auto. destruct Hop as [c0 r0 Hc0 Hr0]. now constructor. }
  destruct Hit as [lit fol ty v Hit|r ctxr Ectx Hop Hnc|c r ctxr Ectx Hop Hnc].
  destruct Hit as [n ty v Hwf Hv|hex neg m dw p Hd|sh fields Hf Hpt|neg|body text Hb Hu|body ts Hb Hv|bw chars bytes Hbw Hb
                  |ws0 body bytes ws1 H0 Hb H1|ws0 body ts ws1 H0 Hb H1|id k Hid Hkw Hivm Hk|id ty v Hkv| |tn ty Hty Hmk
                  |body text Hb Hu|c r ctxr Ectx Hop Hnc Hc47].
  - apply Hgen, consumes_plain, num_text_pchar, Hwf.
  - apply Hgen, consumes_plain. apply Forall_app. split; [apply sign_pchar|]. constructor; [pc|].
    destruct hex; destruct Hd as [Hm Hd]; (constructor; [pc|]).
    + eapply us_digits_pchar; [|exact Hd]; auto.
    + eapply us_digits_pchar; [|exact Hd]; apply binb_hexb.
  - apply Hgen, consumes_plain, ts_text_pchar, Hf.
  - apply Hgen, consumes_plain. destruct neg; fpc.
  - (* short string *)
    apply Hgen. apply no_cr_cons in Hcl as [_ Hcl]. apply no_cr_app in Hcl as [Hcb _].
    apply consumes_one; [|discriminate]. intros f top terms Tout Ht HK. cbn [app]. rewrite <- app_assoc. cbn [app].
    apply K_string; auto. apply (qbody_qsk 34 (or_introl eq_refl) body text Hb Hcb).
  - (* long string: it takes the whitespace behind it along *)
    apply no_cr_cons in Hcl as [_ Hcl]. apply no_cr_cons in Hcl as [_ Hcl]. apply no_cr_cons in Hcl as [_ Hcb].
    apply consumes_one; [|discriminate]. intros f top terms Tout Ht HK. rewrite <- app_assoc. cbn [app].
    apply K_long; auto. eapply lsegs_gsegs; eauto.
  - (* blob *)
    apply Hgen. apply consumes_one; [|discriminate]. intros f top terms Tout Ht HK. cbn [app]. rewrite <- app_assoc.
    replace (bw ++ [125%N; 125%N] ++ wn ++ T) with ((bw ++ [125%N; 125%N]) ++ (wn ++ T)) by (now rewrite <- app_assoc).
    apply K_lob; auto. intros s0. rewrite zs_app, <- app_assoc. cbn [zs map app].
    destruct (b64_text_hd _ _ Hb) as [H34 H39]. now apply (run_skip_blob_helper_blob bw chars).
  - (* short clob *)
    apply Hgen. apply consumes_one; [|discriminate]. intros f top terms Tout Ht HK. cbn [app].
    assert (Hcb : no_cr body).
    { apply no_cr_cons in Hcl as [_ Hcl]. apply no_cr_cons in Hcl as [_ Hcl]. apply no_cr_app in Hcl as [_ Hcl].
      apply no_cr_cons in Hcl as [_ Hcl]. now apply no_cr_app in Hcl as [Hcl _]. }
    replace ((ws0 ++ 34%N :: body ++ 34%N :: ws1 ++ [125%N; 125%N]) ++ wn ++ T)
      with ((ws0 ++ 34%N :: body ++ 34%N :: ws1 ++ [125%N; 125%N]) ++ (wn ++ T)) by reflexivity.
    apply K_lob; auto. intros s0. rewrite !zs_app, <- !app_assoc. cbn [zs map app]. rewrite !zs_app, <- !app_assoc. cbn [zs map app].
    rewrite !zs_app, <- !app_assoc. cbn [zs map app].
    apply run_skip_blob_helper_clob; auto. now apply (cbody_qsk body bytes).
  - (* long clob *)
    apply Hgen. apply consumes_one; [|discriminate]. intros f top terms Tout Ht HK. cbn [app].
    assert (Hcb : no_cr body /\ no_cr ws1).
    { apply no_cr_cons in Hcl as [_ Hcl]. apply no_cr_cons in Hcl as [_ Hcl]. apply no_cr_app in Hcl as [_ Hcl].
      apply no_cr_cons in Hcl as [_ Hcl]. apply no_cr_cons in Hcl as [_ Hcl]. apply no_cr_cons in Hcl as [_ Hcl].
      apply no_cr_app in Hcl as [Hc1 Hcl]. apply no_cr_app in Hcl as [Hc2 _]. auto. }
    destruct Hcb as [Hcb Hc1].
    replace ((ws0 ++ 39%N :: 39%N :: 39%N :: body ++ ws1 ++ [125%N; 125%N]) ++ wn ++ T)
      with ((ws0 ++ 39%N :: 39%N :: 39%N :: body ++ ws1 ++ [125%N; 125%N]) ++ (wn ++ T)) by reflexivity.
    apply K_lob; auto. intros s0. rewrite !zs_app, <- !app_assoc. cbn [zs map app]. rewrite !zs_app, <- !app_assoc. cbn [zs map app].
    apply run_skip_blob_helper_lclob; auto. eapply lcsegs_gsegs; eauto.
  - apply Hgen, consumes_plain, ident_pchar, Hid.
  - apply Hgen, consumes_plain, ident_pchar. exact (proj1 (keyword_ident id ty v Hkv)).
  - apply Hgen, consumes_plain, ident_pchar, null_ident.
  - apply Hgen, consumes_plain. apply Forall_app. split; [apply ident_pchar, null_ident|].
    constructor; [exact pchar_dot|]. apply ident_pchar. exact (null_type_ident tn ty Hty).
  - (* quoted symbol *)
    apply Hgen. apply no_cr_cons in Hcl as [_ Hcl]. apply no_cr_app in Hcl as [Hcb _].
    apply consumes_one; [|discriminate]. intros f top terms Tout Ht HK. cbn [app]. rewrite <- app_assoc. cbn [app].
    apply K_qsym; auto. apply (qbody_qsk 39 (or_intror eq_refl) body text Hb Hcb).
  - (* operator *)
    apply Hgen, Hops; auto. intros _. destruct Hfol as (_ & Hf & _). now apply op_follow.
  - apply Hgen, Hops; auto. intros _. destruct Hfol as (_ & Hf & _). now apply op_follow.
  - apply Hgen, Hops; auto. intros Hl. destruct Hfol as [_ Hf]. contradiction.
Qed.

(* ---- annotations ---------------------------------------------------------------------------------------------------------------- *)
Lemma consumes_qsym body text T : qbody 39 body text -> no_cr body -> (body = [] -> shead (zs T) <> 39) ->
  consumes (39%N :: body ++ [39%N]) T.
Proof.
  intros Hb Hcb Hq. apply consumes_one; [|discriminate]. intros f top terms Tout Ht HK. cbn [app]. rewrite <- app_assoc. cbn [app].
  apply K_qsym; auto. apply (qbody_qsk 39 (or_intror eq_refl) body text Hb Hcb).
Qed.
Lemma consumes_dcolon T : consumes [58%N; 58%N] T.
Proof. apply consumes_plain. fpc. Qed.
Lemma ws_colon_not_quote wn1 X : ws_run wn1 -> shead (zs (wn1 ++ 58%N :: X)) <> 39.
Proof.
  intros Hw. rewrite zs_app.
  inversion Hw as [|c w' Hc Hw'|body nl w' Hb Hn Hw'|body w' Hb Hw']; subst; cbn [zs map app shead]; try lia.
  unfold ws_byte in Hc. lia.
Qed.

Lemma aval_consumes ctx ann text fol anns ty v :
  aval_spells2 pd pt lst ctx ann text fol anns ty v ->
  forall wn T, fol wn T -> ws_run wn -> no_cr text -> no_cr wn -> ws_stop (zs T) = true ->
  consumes (text ++ wn) T.
Proof.
  induction 1 as [ann lit fol ty v Hit|ann id k wn1 wn2 rest fol anns ty v Hid Hkw Hk Hw1 Hw2 Hav IH
                 |ann body txt wn1 wn2 rest fol anns ty v Hb Hu Hw1 Hw2 Hav IH]; intros wn T Hfol Hwn Hcl Hcn Hst.
  - eapply item_consumes; eauto.
  - apply no_cr_app in Hcl as [Hc1 Hcl]. apply no_cr_app in Hcl as [Hc2 Hcl]. apply no_cr_app in Hcl as [_ Hcl].
    apply no_cr_app in Hcl as [Hc3 Hc4].
    rewrite <- !app_assoc.
    apply consumes_app; [apply consumes_plain, ident_pchar, Hid|].
    apply consumes_app; [now apply consumes_ws|].
    apply consumes_app; [apply consumes_dcolon|].
    apply consumes_app; [now apply consumes_ws|]. now apply IH.
  - apply no_cr_cons in Hcl as [_ Hcl]. apply no_cr_app in Hcl as [Hc0 Hcl]. apply no_cr_app in Hcl as [_ Hcl].
    apply no_cr_app in Hcl as [Hc2 Hcl]. apply no_cr_app in Hcl as [_ Hcl]. apply no_cr_app in Hcl as [Hc3 Hc4].
    replace ((39%N :: body ++ [39%N] ++ wn1 ++ [58%N; 58%N] ++ wn2 ++ rest) ++ wn)
      with ((39%N :: body ++ [39%N]) ++ wn1 ++ [58%N; 58%N] ++ wn2 ++ rest ++ wn)
      by list_norm.
    apply consumes_app.
    { apply (consumes_qsym body txt); auto. intros _. rewrite <- !app_assoc. cbn [app]. now apply ws_colon_not_quote. }
    apply consumes_app; [now apply consumes_ws|].
    apply consumes_app; [apply consumes_dcolon|].
    apply consumes_app; [now apply consumes_ws|]. now apply IH.
Qed.

Lemma aopen_consumes ctx ann otext anns tok :
  aopen_spells lst ctx ann otext anns tok -> no_cr otext ->
  (tok = tokenOpenBracket \/ tok = tokenOpenParen \/ tok = tokenOpenBrace) /\
  exists pre, otext = pre ++ [open_byte tok] /\ forall T, consumes pre T.
Proof.
  induction 1 as [ann tok Hok|ann id k wn1 wn2 rest anns tok Hid Hkw Hk Hw1 Hw2 Hao IH
                 |ann body txt wn1 wn2 rest anns tok Hb Hu Hw1 Hw2 Hao IH]; intros Hcl.
  - split; [destruct Hok as [H|[H|[H _]]]; auto|]. exists []. split; [reflexivity|]. intros T. apply consumes_nil.
  - apply no_cr_app in Hcl as [Hc1 Hcl]. apply no_cr_app in Hcl as [Hc2 Hcl]. apply no_cr_app in Hcl as [_ Hcl].
    apply no_cr_app in Hcl as [Hc3 Hc4]. destruct (IH Hc4) as (Htok & pre & -> & Hpre). split; [exact Htok|].
    exists (id ++ wn1 ++ [58%N; 58%N] ++ wn2 ++ pre). split; [now rewrite <- !app_assoc|]. intros T.
    apply consumes_app; [apply consumes_plain, ident_pchar, Hid|].
    apply consumes_app; [now apply consumes_ws|].
    apply consumes_app; [apply consumes_dcolon|].
    apply consumes_app; [now apply consumes_ws|]. apply Hpre.
  - apply no_cr_cons in Hcl as [_ Hcl]. apply no_cr_app in Hcl as [Hc0 Hcl]. apply no_cr_app in Hcl as [_ Hcl].
    apply no_cr_app in Hcl as [Hc2 Hcl]. apply no_cr_app in Hcl as [_ Hcl]. apply no_cr_app in Hcl as [Hc3 Hc4].
    destruct (IH Hc4) as (Htok & pre & -> & Hpre). split; [exact Htok|].
    exists ((39%N :: body ++ [39%N]) ++ wn1 ++ [58%N; 58%N] ++ wn2 ++ pre). split; [list_norm|]. intros T.
    apply consumes_app.
    { apply (consumes_qsym body txt); auto. intros _. rewrite <- !app_assoc. cbn [app]. now apply ws_colon_not_quote. }
    apply consumes_app; [now apply consumes_ws|].
    apply consumes_app; [apply consumes_dcolon|].
    apply consumes_app; [now apply consumes_ws|]. apply Hpre.
Qed.

(* ---- field names, separators, closing brackets ---------------------------------------------------------------------------------- *)
Lemma fname_consumes nm k : fname_spells2 lst nm k -> no_cr nm ->
  (exists c r, nm = c :: r /\ c <> 123%N /\ c <> 125%N) /\
  forall wn1 T, ws_run wn1 -> no_cr wn1 -> consumes (nm ++ wn1) (58%N :: T).
Proof.
  intros Hnm Hcl. destruct Hnm as [nm k Hnm|body ts Hb Hv].
  destruct Hnm as [id k Hid Hkw Hk|body text Hb Hu|body text Hb Hu].
  - split.
    + destruct Hid as [c r Hc Hr]. exists c, r. split; [reflexivity|]. unfold id_start, letter in Hc. lia.
    + intros wn1 T Hw1 Hc1. apply consumes_app; [apply consumes_plain, ident_pchar, Hid|now apply consumes_ws].
  - split; [eexists _, _; split; [reflexivity|split; discriminate]|].
    apply no_cr_cons in Hcl as [_ Hcl]. apply no_cr_app in Hcl as [Hcb _].
    intros wn1 T Hw1 Hc1. apply consumes_app; [|now apply consumes_ws].
    apply (consumes_qsym body text); auto. intros _. now apply ws_colon_not_quote.
  - split; [eexists _, _; split; [reflexivity|split; discriminate]|].
    apply no_cr_cons in Hcl as [_ Hcl]. apply no_cr_app in Hcl as [Hcb _].
    intros wn1 T Hw1 Hc1. apply consumes_app; [|now apply consumes_ws].
    apply consumes_one; [|discriminate]. intros f top terms Tout Ht HK. cbn [app]. rewrite <- app_assoc. cbn [app].
    apply K_string; auto. apply (qbody_qsk 34 (or_introl eq_refl) body text Hb Hcb).
  - split; [eexists _, _; split; [reflexivity|split; discriminate]|].
    apply no_cr_cons in Hcl as [_ Hcl]. apply no_cr_cons in Hcl as [_ Hcl]. apply no_cr_cons in Hcl as [_ Hcb].
    intros wn1 T Hw1 Hc1. apply consumes_one; [|discriminate]. intros f top terms Tout Ht HK. rewrite <- app_assoc. cbn [app].
    apply K_long; auto. eapply lsegs_gsegs; eauto.
Qed.
Lemma consumes_colon T : consumes [58%N] T.
Proof. apply consumes_plain. fpc. Qed.
Lemma consumes_comma T : consumes [44%N] T.
Proof. apply consumes_plain. fpc. Qed.
Lemma sep_consumes ctx st pre fld n : sep_spells2 lst ctx st pre fld n -> no_cr pre -> forall T, consumes pre T.
Proof.
  intros Hsep Hcl T. destruct Hsep as [ctx|ctx|ctx nm k wn1 Hnm Hw1|ctx w nm k wn1 Hw Hnm Hw1].
  - apply consumes_nil.
  - apply consumes_comma.
  - apply no_cr_app in Hcl as [Hc1 Hcl]. apply no_cr_app in Hcl as [Hc2 _]. rewrite app_assoc.
    apply consumes_app; [|apply consumes_colon]. cbn [app]. now apply (proj2 (fname_consumes nm k Hnm Hc1)).
  - apply no_cr_cons in Hcl as [_ Hcl]. apply no_cr_app in Hcl as [Hc0 Hcl]. apply no_cr_app in Hcl as [Hc1 Hcl].
    apply no_cr_app in Hcl as [Hc2 _].
    change (44%N :: w ++ nm ++ wn1 ++ [58%N]) with ([44%N] ++ w ++ nm ++ wn1 ++ [58%N]).
    apply consumes_app; [apply consumes_comma|]. apply consumes_app; [now apply consumes_ws|]. rewrite app_assoc.
    apply consumes_app; [|apply consumes_colon]. cbn [app]. now apply (proj2 (fname_consumes nm k Hnm Hc1)).
Qed.
Lemma close_consumes ctx st pre tok n c ctx' : close_spells ctx st pre tok n -> ctx = c :: ctx' -> no_cr pre ->
  exists pre0 cb, pre = pre0 ++ [cb] /\ term_of c = Z.of_N cb /\ forall T, consumes pre0 T.
Proof.
  intros Hcl Ectx Hcr.
  destruct Hcl as [ctx0|ctx0|ctx0 w Hw|ctx0|ctx0|ctx0|ctx0 w Hw]; injection Ectx as <- _.
  - exists [], 93%N. split; [reflexivity|]. split; [reflexivity|]. intros T; apply consumes_nil.
  - exists [], 93%N. split; [reflexivity|]. split; [reflexivity|]. intros T; apply consumes_nil.
  - exists (44%N :: w), 93%N. split; [reflexivity|]. split; [reflexivity|]. intros T.
    apply no_cr_cons in Hcr as [_ Hcr]. apply no_cr_app in Hcr as [Hcw _].
    change (44%N :: w) with ([44%N] ++ w). apply consumes_app; [apply consumes_comma|now apply consumes_ws].
  - exists [], 41%N. split; [reflexivity|]. split; [reflexivity|]. intros T; apply consumes_nil.
  - exists [], 125%N. split; [reflexivity|]. split; [reflexivity|]. intros T; apply consumes_nil.
  - exists [], 125%N. split; [reflexivity|]. split; [reflexivity|]. intros T; apply consumes_nil.
  - exists (44%N :: w), 125%N. split; [reflexivity|]. split; [reflexivity|]. intros T.
    apply no_cr_cons in Hcr as [_ Hcr]. apply no_cr_app in Hcr as [Hcw _].
    change (44%N :: w) with ([44%N] ++ w). apply consumes_app; [apply consumes_comma|now apply consumes_ws].
Qed.
Lemma closer_term c : closer (term_of c).
Proof. unfold closer. destruct c; cbn; auto. Qed.

(* the body of a struct begins with the closing brace or with a field name *)
Lemma struct_body_first ctx body items :
  cseq2 pd pt lst (CStruct :: ctx) trsBeforeFieldName body items -> no_cr body ->
  body = [125%N] \/ exists c r, body = c :: r /\ c <> 123%N /\ c <> 125%N.
Proof.
  intros Hcs Hcr. inversion Hcs as [ctx0 st pre tok n Hcl|ctx0 st pre fld n wb text fol tv wn rest items0 Hsep]; subst.
  - inversion Hcl; subst. now left.
  - right. inversion Hsep as [| |ctx1 nm k wn1 Hnm Hw1|]; subst.
    apply no_cr_app in Hcr as [Hcr _]. apply no_cr_app in Hcr as [Hcr _].
    destruct (proj1 (fname_consumes nm k Hnm Hcr)) as (c & r & -> & Hx1 & Hx2).
    exists c. eexists. split; [cbn [app]; reflexivity|auto].
Qed.

(* ---- value trees ------------------------------------------------------------------------------------------------------------------ *)
Definition PV (ctx : list ctype) (text : list N) (fol : list N -> list N -> Prop) (tv : tval) : Prop :=
  forall wn T, fol wn T -> ws_run wn -> no_cr (text ++ wn) -> ws_stop (zs T) = true -> consumes (text ++ wn) T.
Definition PS (ctx : list ctype) (st : N) (text : list N) (items : list (option tok * tval)) : Prop :=
  forall c ctx', ctx = c :: ctx' -> no_cr text -> forall outer,
  exists n, (n <= length text)%nat /\
  forall f terms Tout, Kpop f terms outer Tout -> K (n + f) (term_of c) terms (text ++ outer) Tout.

Theorem skip_tree :
  (forall ctx text fol tv, tspell2 pd pt lst ctx text fol tv -> PV ctx text fol tv) /\
  (forall ctx st text items, cseq2 pd pt lst ctx st text items -> PS ctx st text items).
Proof.
  apply tspell2_cseq2_ind.
  - (* a scalar *)
    intros ctx text fol anns ty v Hav wn T Hfol Hwn Hcr Hst. apply no_cr_app in Hcr as [Hct Hcn].
    eapply aval_consumes; eauto.
  - (* a container *)
    intros ctx otext anns tok w0 body items Hao Hw0 Hb123 Hcs IH wn T _ Hwn Hcr Hst.
    apply no_cr_app in Hcr as [Hct Hcn]. apply no_cr_app in Hct as [Hco Hct]. apply no_cr_app in Hct as [Hcw0 Hcb].
    destruct (aopen_consumes ctx [] otext anns tok Hao Hco) as (Htok & pre & -> & Hpre).
    destruct (IH (open_ctype tok) ctx eq_refl Hcb (wn ++ T)) as (n2 & Hn2 & HK2).
    rewrite <- !app_assoc. apply consumes_app; [apply Hpre|]. cbn [app].
    assert (Hpush : forall cl f top terms Tout, closer top -> term_of (open_ctype tok) = cl ->
              K f top terms T Tout -> K (n2 + f) cl (top :: terms) (w0 ++ body ++ wn ++ T) Tout).
    { intros cl f top terms Tout Ht <- HK. apply K_ws; auto. apply HK2. cbn [Kpop]. now apply K_ws. }
    assert (Hshape : forall ob, (ob :: w0 ++ body ++ wn) ++ T = ob :: w0 ++ body ++ wn ++ T) by (intros; list_norm).
    destruct Htok as [->|[->| ->]].
    + exists (S n2). split; [cbn [length]; rewrite !app_length; lia|]. intros f top terms Tout Ht HK.
      rewrite Hshape. cbn [Nat.add]. change (open_byte tokenOpenBracket) with 91%N. apply (K_open _ top terms 91%N 93); auto.
    + exists (S n2). split; [cbn [length]; rewrite !app_length; lia|]. intros f top terms Tout Ht HK.
      rewrite Hshape. cbn [Nat.add]. change (open_byte tokenOpenParen) with 40%N. apply (K_open _ top terms 40%N 41); auto.
    + change (open_byte tokenOpenBrace) with 123%N.
      destruct (struct_body_first ctx body items Hcs Hcb) as [Eb|(c1 & r1 & Eb & H1 & H2)].
      * destruct w0 as [|cw w0'].
        -- subst body. exists 1%nat. split; [cbn [length]; lia|]. intros f top terms Tout Ht HK.
           rewrite Hshape. cbn [app Nat.add]. apply K_brace_empty; auto. now apply K_ws.
        -- exists (S n2). split; [cbn [length]; rewrite !app_length; cbn [length]; lia|]. intros f top terms Tout Ht HK.
           rewrite Hshape. cbn [Nat.add].
           apply K_brace_push; auto; [discriminate| |].
           ++ specialize (Hb123 eq_refl). cbn [app hd zs map shead] in *. lia.
           ++ cbn [app zs map shead]. inversion Hw0; subst; [|lia|lia]. unfold ws_byte in *. lia.
      * exists (S n2). split; [cbn [length]; rewrite !app_length; lia|]. intros f top terms Tout Ht HK.
        rewrite Hshape. cbn [Nat.add].
        apply K_brace_push; auto.
        -- subst body. destruct w0; discriminate.
        -- specialize (Hb123 eq_refl). subst body. destruct w0 as [|cw w0']; cbn [app hd zs map shead] in *; lia.
        -- subst body. destruct w0 as [|cw w0']; cbn [app zs map shead]; [lia|].
           inversion Hw0; subst; [|lia|lia]. unfold ws_byte in *. lia.
  - (* the closing bracket *)
    intros ctx st pre tok n Hcl c ctx' Ectx Hcr outer.
    destruct (close_consumes ctx st pre tok n c ctx' Hcl Ectx Hcr) as (pre0 & cb & -> & Eterm & Hpre0).
    destruct (Hpre0 (cb :: outer)) as (n0 & Hn0 & HK0). exists (n0 + 1)%nat. split; [rewrite app_length; cbn [length]; lia|].
    intros f terms Tout HK. rewrite <- app_assoc, <- Nat.add_assoc. cbn [app Nat.add].
    apply HK0; [apply closer_term|]. apply K_close; auto. apply closer_term.
  - (* a member, then the rest *)
    intros ctx st pre fld n wb text fol tv wn rest items Hsep Hwb Hpw Htv IHv Hwn Hfol Hcs IHs c ctx' Ectx Hcr outer.
    destruct (cseq_first2 pd pt lst _ _ _ _ Hcs) as [_ Hro]. destruct (Hro outer) as [_ Hstop].
    assert (Hcr' := Hcr). apply no_cr_app in Hcr' as [Hcp Hcr']. apply no_cr_app in Hcr' as [Hcb Hcr'].
    apply no_cr_app in Hcr' as [Hct Hcr']. apply no_cr_app in Hcr' as [Hcn Hcrest].
    destruct (IHs c ctx' Ectx Hcrest outer) as (n3 & Hn3 & HK3).
    destruct (IHv wn (rest ++ outer) (Hfol outer) Hwn ltac:(apply no_cr_app; auto) Hstop) as (n2 & Hn2 & HK2).
    destruct (sep_consumes ctx st pre fld n Hsep Hcp (wb ++ (text ++ wn) ++ rest ++ outer)) as (n1 & Hn1 & HK1).
    exists (n1 + (n2 + n3))%nat. split; [rewrite !app_length in *; lia|].
    intros f terms Tout HK.
    replace ((pre ++ wb ++ text ++ wn ++ rest) ++ outer) with (pre ++ wb ++ (text ++ wn) ++ rest ++ outer)
      by (now rewrite <- !app_assoc).
    rewrite <- !Nat.add_assoc. apply HK1; [apply closer_term|]. apply K_ws; auto.
    apply HK2; [apply closer_term|]. now apply HK3.
Qed.

(* ---- FinishValue on a container that was not entered ------------------------------------------------------------------------ *)
Definition open_tok (c : ctype) : N :=
  match c with CList => tokenOpenBracket | CSexp => tokenOpenParen | CStruct => tokenOpenBrace end.

(* skipContainerHelper from any member boundary: exactly the rest of the container, closing bracket included *)
Lemma run_skip_container_helper ctx c st body items w0 outer S :
  cseq2 pd pt lst (c :: ctx) st body items -> ws_run w0 -> no_cr (w0 ++ body) -> ends S (w0 ++ body ++ outer) ->
  exists S', run (t_skip_container_helper (term_of c)) S tt S' /\ ends S' outer.
Proof.
  intros Hcs Hw0 Hcr He. apply no_cr_app in Hcr as [Hc0 Hcb].
  destruct (proj2 skip_tree _ _ _ _ Hcs c ctx eq_refl Hcb outer) as (n & Hn & HK).
  destruct (HK O [] outer eq_refl w0 S Hw0 Hc0 He) as (S' & R & He').
  exists S'. split; [|exact He']. unfold t_skip_container_helper, skip_container_helper.
  apply run_with_fuel. intros f Hf. apply (run_loop_mono (n + 0) f); [|exact R].
  rewrite (nne_ends _ _ He), !app_length in Hf. lia.
Qed.

(* the character behind the container is read, whitespace behind it is skipped, and the last character read is
   pushed back *)
Lemma skip_value_tail wn rest S2 k ctx :
  ws_run wn -> no_cr wn -> ends S2 (wn ++ rest) -> rest_ok ctx rest ->
  exists c S3, runK (tdo c <- (if is_whitespace (shead S2) then tdo '(c2, _) <- t_skip_whitespace; ret c2 else ret (shead S2));
                     tdo _ <- finish; ret c) (stail S2, k, true) c (S3, k, false) /\
    ((exists w1, ws_run w1 /\ no_cr w1 /\ ends (c :: S3) (w1 ++ rest) /\ (length w1 <= length wn)%nat) \/
     (rest_eofc rest /\ ends (c :: S3) [])).
Proof.
  intros Hwn Hcn He Hrok.
  assert (Hnws : wn = [] -> is_whitespace (shead S2) = false).
  { intros ->. cbn [app] in He. rewrite (ends_shead _ _ He). destruct Hrok as [[Hs _]|[_ (body & -> & _)]].
    - now apply ws_stop_not_ws.
    - reflexivity. }
  destruct (is_whitespace (shead S2)) eqn:Hws.
  - (* the run begins with a whitespace character: the whole run is skipped *)
    destruct wn as [|c0 wtail]; [specialize (Hnws eq_refl); discriminate|]. cbn [app] in He.
    pose proof (ends_shead_cons _ _ _ He) as Hc0. pose proof (ends_stail_cons _ _ _ He) as He1.
    assert (Hwt : ws_run wtail) by (apply (ws_run_head_ws c0 wtail Hwn); now rewrite <- Hc0).
    apply no_cr_cons in Hcn as [_ Hct].
    destruct (ends_split _ _ _ He1) as (S4 & E4 & He4).
    destruct Hrok as [[Hs Hd]|[_ Hre]].
    + assert (Hs4 : ws_stop S4 = true) by (rewrite (ends_ws_stop _ _ He4); exact Hs).
      exists (shead S4), (after_stop S4). split.
      * eapply runK_bind.
        { eapply runK_bind; [apply run_runK; rewrite E4; apply (run_t_skip_whitespace wtail S4 Hwt Hct Hs4)|].
          cbv beta iota. apply runK_ret. }
        eapply runK_bind; [apply runK_finish|]. apply runK_ret.
      * left. exists []. split; [constructor|]. split; [constructor|]. split; [now apply ends_head_after_stop|cbn [length]; lia].
    + destruct Hre as (body & -> & Hb). destruct He4 as (e & Hee & ->).
      exists (-1), (stail (stail e)). split.
      * eapply runK_bind.
        { eapply runK_bind; [apply run_runK; rewrite E4|].
          - replace (zs wtail ++ zs (47 :: 47 :: body)%N ++ e) with (zs (wtail ++ 47 :: 47 :: body)%N ++ e)
              by (now rewrite zs_app, <- app_assoc).
            apply (run_t_skip_whitespace_eof_comment wtail body e Hwt Hct Hb Hee).
          - cbv beta iota. apply runK_ret. }
        eapply runK_bind; [apply runK_finish|]. apply runK_ret.
      * right. split; [now exists body|]. exact (ends_eofT e Hee).
  - (* the character behind the container is not whitespace: it alone is read, and pushed back *)
    exists (shead S2), (stail S2). split.
    + eapply runK_bind; [apply runK_ret|]. eapply runK_bind; [apply runK_finish|]. apply runK_ret.
    + left. exists wn. split; [exact Hwn|]. split; [exact Hcn|]. split; [now apply ends_unread_shead|lia].
Qed.

Lemma settled_container ctx c st body items w0 wn rest S :
  cseq2 pd pt lst (c :: ctx) st body items -> ws_run w0 -> ws_run wn -> no_cr (w0 ++ body ++ wn) ->
  ends S (w0 ++ body ++ wn ++ rest) -> rest_ok ctx rest ->
  settled_w S (open_tok c) true rest.
Proof.
  intros Hcs Hw0 Hwn Hcr He Hrok.
  assert (Hcr' := Hcr). rewrite app_assoc in Hcr'. apply no_cr_app in Hcr' as [Hcwb Hcn].
  destruct (run_skip_container_helper ctx c st body items w0 (wn ++ rest) S Hcs Hw0 Hcwb He) as (S2 & R2 & He2).
  destruct (skip_value_tail wn rest S2 (open_tok c) ctx Hwn Hcn He2 Hrok) as (ch & S3 & R3 & Hcases).
  assert (Rf : runK t_finish_value (S, open_tok c, true) true (ch :: S3, open_tok c, false)).
  { unfold t_finish_value, t_finish_value_with. apply runK_get_bind. intros t Ha Hi.
    assert (Hu : t_unfinished t = true) by (unfold abs in Ha; now injection Ha). rewrite Hu. cbn [negb]. clear t Ha Hi Hu.
    eapply runK_bind with (a := ch) (x1 := (S3, open_tok c, false)).
    - unfold t_skip_value. apply runK_get_bind. intros t Ha Hi.
      assert (Hk : t_token t = open_tok c) by (unfold abs in Ha; now injection Ha). rewrite Hk. clear t Ha Hi Hk.
      assert (Hsk : runK (skip_container (term_of c)) (S, open_tok c, true) (shead S2) (stail S2, open_tok c, true)).
      { unfold skip_container. eapply runK_bind; [apply run_runK, R2|]. apply run_runK, run_read. }
      (* the dispatch on the token *)
      assert (Hd : forall (m : M Z),
                 (if (open_tok c =? tokenNumber)%N then skip_number
                  else if (open_tok c =? tokenBinary)%N then skip_binary
                  else if (open_tok c =? tokenHex)%N then skip_hex
                  else if (open_tok c =? tokenTimestamp)%N then skip_timestamp
                  else if (open_tok c =? tokenSymbol)%N then skip_symbol
                  else if (open_tok c =? tokenSymbolQuoted)%N then skip_symbol_quoted
                  else if (open_tok c =? tokenSymbolOperator)%N then skip_symbol_operator
                  else if (open_tok c =? tokenString)%N then skip_string
                  else if (open_tok c =? tokenLongString)%N then skip_long_string
                  else if (open_tok c =? tokenOpenDoubleBrace)%N then skip_blob
                  else if (open_tok c =? tokenOpenBrace)%N then skip_container c_rbrace
                  else if (open_tok c =? tokenOpenParen)%N then skip_container c_rparen
                  else if (open_tok c =? tokenOpenBracket)%N then skip_container c_rbracket
                  else m) = skip_container (term_of c)) by (intros m; destruct c; reflexivity).
      rewrite Hd. clear Hd.
      eapply runK_bind; [exact Hsk|]. exact R3.
    - eapply runK_bind; [apply run_runK, run_unread|]. eapply runK_bind; [apply runK_finish|]. apply runK_ret. }
  pose proof (nne_ends _ _ He) as Hnne.
  destruct Hcases as [(w1 & Hw1 & Hc1 & He1 & Hl1)|[Hre He1]].
  - left. exists (ch :: S3), w1. split; [exact Rf|]. split; [exact Hw1|]. split; [exact Hc1|]. split; [exact He1|].
    rewrite Hnne, !app_length. lia.
  - right. split; [exact Hre|]. exists (ch :: S3), []. split; [exact Rf|]. split; [constructor|]. split; [constructor|].
    split; [exact He1|]. cbn [app length]. lia.
Qed.
End Tree.
