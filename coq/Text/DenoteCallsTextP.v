(* DenoteCallsTextP.v — C12, text Writer: ANY call sequence.  The lock-step invariant between the text Writer
   model (Text/TextWriter.v, compact mode, a sink that never fails) and the denotation machine of
   Bin/DenoteCalls.v: the bytes written so far are the canonical text ([wt] of Text/WriteSpell.v) of the
   finished top-level values plus, for every open container, separator / field name / annotations / opening
   bracket and the text of its finished members.
   The text Writer records every usage error in w.err (sticky) except a Finish inside a container, so when the
   final Finish returns nil every other call returned nil.
   One difference with the canonical text: WriteNull() and WriteNullType(NoType) spell the untyped null `null`,
   the canonical calls of the forest (WriteNullType(NullType)) spell it `null.null`; the byte-level statement
   ([strict] = true) therefore excludes these two calls ([plain_call]); the denotation statement does not. *)
From Coq Require Import String List NArith ZArith Bool Lia ZifyBool ZifyN ZifyNat.
From IonV Require Import Base.Wire Base.Utf8 Data.Ion Num.Float Bin.BinWriter Bin.RoundTripBinS Bin.DenoteCalls
  Text.TextOut Text.TextWriter Text.TextWriterP Text.TextRoundtrip Text.WriteSpell Text.WriteSpellOut.
Import ListNotations.
Open Scope N_scope.

Definition plain_call (c : wcall) : Prop := c <> CNull /\ c <> CNullType 0.

Definition kind_of (o : opened) : N :=
  match o with OList _ => ctxList | OSexp _ => ctxSexp | OStruct _ => ctxStruct end.
Definition ctxs (stk : list frame) : list N := map (fun fr => kind_of (fr_open fr)) stk.
Definition nonempty {A} (l : list A) : bool := match l with [] => false | _ => true end.
Definition open_char (o : opened) : N := match o with OList _ => 91 | OSexp _ => 40 | OStruct _ => 123 end.
Definition close_char (o : opened) : N := match o with OList _ => 93 | OSexp _ => 41 | OStruct _ => 125 end.
Definition open_ns (o : opened) : bool :=
  match o with OList l => nonempty l | OSexp l => nonempty l | OStruct fs => nonempty fs end.
Definition ftok (f : option symv) : option tok := option_map tok_of_sym f.

Section Text.
Variable F : formats.

Definition members_text (o : opened) : list N :=
  match o with
  | OList l => items [44] false (map (wt F []) l)
  | OSexp l => items [32] false (map (wt F []) l)
  | OStruct fs => items [44] false (map (fun '(n, x) => wsym n ++ [58] ++ wt F [] x) fs)
  end.
Definition top_text (q : bool) (fl dn : list value) : list N :=
  wt_stream F q fl ++ items [10] (q && nonempty fl) (map (wt F []) dn).
Definition top_ns (q : bool) (fl dn : list value) : bool := (q && nonempty fl) || nonempty dn.
Definition ns_of (q : bool) (fl dn : list value) (stk : list frame) : bool :=
  match stk with [] => top_ns q fl dn | fr :: _ => open_ns (fr_open fr) end.
Fixpoint stack_text (q : bool) (fl dn : list value) (stk : list frame) : list N :=
  match stk with
  | [] => top_text q fl dn
  | fr :: rest =>
    stack_text q fl dn rest ++ sep_bytes (ctxs rest) (ns_of q fl dn rest) ++
    field_bytes (ctxs rest) (ftok (fr_field fr)) ++ ann_bytes (fr_annots fr) ++
    [open_char (fr_open fr)] ++ members_text (fr_open fr)
  end.
Fixpoint stack_ok (stk : list frame) : Prop :=
  match stk with [] => True | fr :: rest => place_ok rest (fr_field fr) = true /\ stack_ok rest end.

(* ---- lists ---------------------------------------------------------------------------------------------- *)
Lemma items_app sep ns l1 l2 : items sep ns (l1 ++ l2) = items sep ns l1 ++ items sep (ns || nonempty l1) l2.
Proof.
  revert ns. induction l1 as [|x r IH]; intros ns; cbn [items app nonempty].
  - now rewrite orb_false_r.
  - rewrite IH. rewrite orb_true_r. cbn [orb]. destruct r; app_norm.
Qed.
Lemma items_one sep ns x : items sep ns [x] = (if ns then sep else []) ++ x.
Proof. cbn [items]. now rewrite app_nil_r. Qed.
Lemma nonempty_app {A} (l1 l2 : list A) : nonempty (l1 ++ l2) = nonempty l1 || nonempty l2.
Proof. destruct l1; reflexivity. Qed.
Lemma nonempty_map {A B} (f : A -> B) l : nonempty (map f l) = nonempty l.
Proof. destruct l; reflexivity. Qed.
Lemma items_true_cons sep x r : items sep true (x :: r) = sep ++ items sep false (x :: r).
Proof. reflexivity. Qed.

(* ---- a complete value arrives ---------------------------------------------------------------------------- *)
Lemma push_text q fl dn stk fld v : place_ok stk fld = true ->
  exists ds', push_value fl dn stk fld v = Some ds' /\ ds_flushed ds' = fl /\
    ctxs (ds_stack ds') = ctxs stk /\ ds_field ds' = None /\ ds_annots ds' = [] /\
    ns_of q fl (ds_done ds') (ds_stack ds') = true /\
    (stack_ok stk -> stack_ok (ds_stack ds')) /\
    (ds_stack ds' = [] -> nonempty (ds_done ds') = true) /\
    stack_text q fl (ds_done ds') (ds_stack ds') =
      stack_text q fl dn stk ++ sep_bytes (ctxs stk) (ns_of q fl dn stk) ++ field_bytes (ctxs stk) (ftok fld) ++ wt F [] v.
Proof.
  intros Hp. destruct stk as [|fr rest].
  - destruct fld; [discriminate|]. cbn [push_value]. eexists. split; [reflexivity|].
    cbn [ds_flushed ds_done ds_stack ds_field ds_annots ctxs map ns_of stack_text].
    repeat split; auto.
    + unfold top_ns. rewrite nonempty_app. cbn. now rewrite !orb_true_r.
    + intros _. rewrite nonempty_app. cbn. now rewrite orb_true_r.
    + unfold top_text. rewrite map_app, items_app. cbn [map]. rewrite items_one, nonempty_map.
      unfold sep_bytes, field_bytes, top_ns. cbn [top_of ftok option_map].
      change (0 =? ctxStruct) with false. cbn iota. change (sep_of 0) with [10]. app_norm.
  - cbn [place_ok] in Hp. cbn [push_value].
    destruct (fr_open fr) as [l|l|fs] eqn:Eo; destruct fld as [n|]; try discriminate; cbn [add_open].
    + eexists. split; [reflexivity|].
      cbn [ds_flushed ds_done ds_stack ds_field ds_annots ctxs map ns_of stack_text fr_open fr_field fr_annots kind_of].
      rewrite Eo. cbn [kind_of open_ns open_char members_text].
      repeat split; auto.
      all: try (intros; discriminate). all: try (cbn [stack_ok fr_field] in *; tauto).
      * rewrite nonempty_app. cbn. now rewrite orb_true_r.
      * rewrite map_app, items_app. cbn [map orb]. rewrite items_one, nonempty_map.
        unfold sep_bytes, field_bytes. cbn [top_of]. change (ctxList =? ctxStruct) with false. cbn iota.
        change (sep_of ctxList) with [44]. fold (ctxs rest). app_norm.
    + eexists. split; [reflexivity|].
      cbn [ds_flushed ds_done ds_stack ds_field ds_annots ctxs map ns_of stack_text fr_open fr_field fr_annots kind_of].
      rewrite Eo. cbn [kind_of open_ns open_char members_text].
      repeat split; auto.
      all: try (intros; discriminate). all: try (cbn [stack_ok fr_field] in *; tauto).
      * rewrite nonempty_app. cbn. now rewrite orb_true_r.
      * rewrite map_app, items_app. cbn [map orb]. rewrite items_one, nonempty_map.
        unfold sep_bytes, field_bytes. cbn [top_of]. change (ctxSexp =? ctxStruct) with false. cbn iota.
        change (sep_of ctxSexp) with [32]. fold (ctxs rest). app_norm.
    + eexists. split; [reflexivity|].
      cbn [ds_flushed ds_done ds_stack ds_field ds_annots ctxs map ns_of stack_text fr_open fr_field fr_annots kind_of].
      rewrite Eo. cbn [kind_of open_ns open_char members_text].
      repeat split; auto.
      all: try (intros; discriminate). all: try (cbn [stack_ok fr_field] in *; tauto).
      * rewrite nonempty_app. cbn. now rewrite orb_true_r.
      * rewrite map_app, items_app. cbn [map orb]. rewrite items_one, nonempty_map.
        unfold sep_bytes, field_bytes. cbn [top_of ftok option_map]. change (ctxStruct =? ctxStruct) with true. cbn iota.
        change (sep_of ctxStruct) with [44]. fold (ctxs rest). unfold wsym. app_norm.
Qed.

Lemma place_ok_iff stk fld :
  (top_of (ctxs stk) = ctxStruct -> fld <> None) -> (fld <> None -> top_of (ctxs stk) = ctxStruct) ->
  place_ok stk fld = true.
Proof.
  intros H1 H2. destruct stk as [|fr r]; cbn [place_ok ctxs map top_of] in *.
  - destruct fld; [|reflexivity]. discriminate H2. discriminate.
  - destruct (fr_open fr); cbn [kind_of] in *; destruct fld; try reflexivity.
    + discriminate H2. discriminate.
    + discriminate H2. discriminate.
    + exfalso. now apply H1.
Qed.

(* ---- the invariant ------------------------------------------------------------------------------------------ *)
Definition Inv (strict q : bool) (w : twstate) (ds : dstate) : Prop :=
  exists ec es i wl,
    sk_budget (tw_out w) = None /\
    tw_p w = mkp (ctxs (ds_stack ds)) (ftok (ds_field ds)) (map tok_of_sym (ds_annots ds))
                 (ns_of q (ds_flushed ds) (ds_done ds) (ds_stack ds)) ec es i wl q /\
    (strict = true -> sink_bytes (tw_out w) = stack_text q (ds_flushed ds) (ds_done ds) (ds_stack ds)) /\
    stack_ok (ds_stack ds) /\
    Forall wok (map tok_of_sym (ds_annots ds)) /\
    (forall n, ds_field ds = Some n -> top_of (ctxs (ds_stack ds)) = ctxStruct /\ wok (tok_of_sym n)) /\
    (ds_stack ds = [] -> q = false -> es = negb (nonempty (ds_done ds))).

Lemma inv_init strict q : Inv strict q (new_text_writer None false q) d_init.
Proof.
  exists false, true, 0%Z, false. cbn. repeat split; auto.
  all: try (intros; discriminate).
  destruct q; reflexivity.
Qed.

(* ---- failing actions ------------------------------------------------------------------------------------------ *)
Definition fails (a : act) (p : pstate) : Prop := forall w out, st w out p -> exists w', a w = (w', false).
Lemma fails_seq_l a b p : fails a p -> fails (a ;; b) p.
Proof. intros H w out Hs. destruct (H w out Hs) as (w' & E). unfold andthen. rewrite E. eauto. Qed.
Lemma fails_seq_r a b p bs p' : runs a p bs p' -> fails b p' -> fails (a ;; b) p.
Proof.
  intros H1 H2 w out Hs. destruct (H1 w out Hs) as (w1 & E1 & Hs1). destruct (H2 w1 _ Hs1) as (w2 & E2).
  unfold andthen. rewrite E1, E2. eauto.
Qed.
Lemma fails_on {A} (g : pstate -> A) (k : A -> act) p : fails (k (g p)) p -> fails (on g k) p.
Proof. intros H w out Hs. unfold on. pose proof Hs as (_ & _ & Hp). rewrite Hp. apply (H w out Hs). Qed.
Lemma fails_fail p : fails fail p.
Proof. intros w out _. exists w. reflexivity. Qed.

Lemma begin_value_fails c a ns ec es i wl q : top_of c = ctxStruct ->
  fails begin_value (mkp c None a ns ec es i wl q).
Proof.
  intros Hc. unfold begin_value. apply fails_on. cbn [mkp p_field p_annots].
  eapply fails_seq_r; [apply runs_upd|]. cbn [p_clear p_set_field p_set_annots mkp p_ctx p_err p_field p_annots
      p_needs_sep p_empty_cont p_empty_stream p_indent p_wrote_lst p_pretty p_quiet].
  eapply fails_seq_r.
  { apply runs_on. cbn [p_wrote_lst].
    instantiate (2 := []). instantiate (1 := mkp c None [] ns ec es i true q).
    destruct wl; [apply runs_ret|].
    eapply runs_eq; [eapply runs_seq; [apply runs_upd|apply runs_ret]|reflexivity|reflexivity]. }
  eapply fails_seq_r.
  { apply runs_on. cbn [mkp p_needs_sep]. instantiate (2 := sep_bytes c ns). instantiate (1 := mkp c None [] ns ec es i true q).
    unfold sep_bytes. destruct ns; [|apply runs_ret].
    unfold write_separator. apply runs_on. unfold p_peek, sep_of, top_of. cbn [mkp p_ctx p_pretty].
    destruct c as [|t c']; [apply runs_raw|].
    destruct ((t =? ctxStruct) || (t =? ctxList)); [apply runs_raw|]. destruct (t =? ctxSexp); apply runs_raw. }
  eapply fails_seq_r.
  { apply runs_on. cbn [mkp p_empty_cont p_pretty]. rewrite andb_false_r. apply runs_ret. }
  eapply fails_seq_r.
  { apply runs_on. cbn [mkp p_pretty]. apply runs_ret. }
  apply fails_seq_l. apply fails_on. unfold p_in_struct, p_peek. cbn [mkp p_ctx]. fold (top_of c). rewrite Hc.
  change (ctxStruct =? ctxStruct) with true. cbn iota.
  eapply fails_seq_r; [apply runs_upd|].
  cbn [p_set_field mkp p_ctx p_err p_field p_annots p_needs_sep p_empty_cont p_empty_stream p_indent p_wrote_lst p_pretty p_quiet].
  unfold write_field_name. apply fails_on. cbn [p_field mkp]. apply fails_fail.
Qed.

Lemma recorded_fails body rest c a ns ec es i wl q w out :
  fails body (mkp c None a ns ec es i wl q) -> st w out (mkp c None a ns ec es i wl q) ->
  exists w', recorded (body ;; rest) w = (w', false) /\ tw_err w' = true.
Proof.
  intros Hf Hs. destruct (fails_seq_l body rest _ Hf w out Hs) as (w' & E).
  unfold recorded, tw_err. pose proof Hs as (_ & _ & Hp). rewrite Hp. cbn [mkp p_err]. rewrite E.
  eexists. split; [reflexivity|]. reflexivity.
Qed.

Lemma tw_err_st w out c f a ns ec es i wl q : st w out (mkp c f a ns ec es i wl q) -> tw_err w = false.
Proof. intros (_ & _ & Hp). unfold tw_err. now rewrite Hp. Qed.

Lemma inv_st strict q w ds : Inv strict q w ds -> exists ec es i wl,
  st w (sink_bytes (tw_out w)) (mkp (ctxs (ds_stack ds)) (ftok (ds_field ds)) (map tok_of_sym (ds_annots ds))
                 (ns_of q (ds_flushed ds) (ds_done ds) (ds_stack ds)) ec es i wl q).
Proof. intros (ec & es & i & wl & Hb & Hp & _). exists ec, es, i, wl. repeat split; auto. Qed.

(* is the pending field name what the context asks for? *)
Lemma field_dec strict q w ds : Inv strict q w ds ->
  (field_ok (ctxs (ds_stack ds)) (ftok (ds_field ds)) /\ place_ok (ds_stack ds) (ds_field ds) = true) \/
  (top_of (ctxs (ds_stack ds)) = ctxStruct /\ ds_field ds = None).
Proof.
  intros (ec & es & i & wl & Hb & Hp & Ht & Hso & Ha & Hf & Hes).
  destruct (ds_field ds) as [n|] eqn:En.
  - left. destruct (Hf n eq_refl) as (H1 & H2). split.
    + intros _. exists (tok_of_sym n). split; [reflexivity|exact H2].
    + apply place_ok_iff; [discriminate|auto].
  - destruct (N.eq_dec (top_of (ctxs (ds_stack ds))) ctxStruct) as [E|E].
    + right. auto.
    + left. split; [intros E'; contradiction|]. apply place_ok_iff; [intros E'; contradiction|intros E'; contradiction].
Qed.

(* ---- scalars ------------------------------------------------------------------------------------------------ *)
Lemma scalar_step strict q w ds fn bs v w' ok :
  Inv strict q w ds -> (forall p, runs fn p bs p) ->
  write_value_act fn w = (w', ok) -> tw_err w' = false ->
  (strict = true -> forall pa, wt F [] (attach pa v) = ann_bytes pa ++ bs) ->
  ok = true /\ exists ds', d_scalar ds v = Some ds' /\ Inv strict q w' ds'.
Proof.
  intros HI Hfn E Herr Hwt. pose proof (field_dec _ _ _ _ HI) as Hd.
  destruct HI as (ec & es & i & wl & Hb & Hp & Ht & Hso & Ha & Hf & Hes).
  assert (Hs : st w (sink_bytes (tw_out w)) (mkp (ctxs (ds_stack ds)) (ftok (ds_field ds)) (map tok_of_sym (ds_annots ds))
                 (ns_of q (ds_flushed ds) (ds_done ds) (ds_stack ds)) ec es i wl q)) by (repeat split; auto).
  destruct Hd as [(Hfo & Hpo)|(Htop & Hnone)].
  - destruct (runs_write_value_act fn bs _ _ _ _ ec es i wl q Hfo Ha Hfn w _ Hs) as (w1 & E1 & Hb1 & Ho1 & Hp1).
    rewrite E1 in E. injection E as <- <-. split; [reflexivity|].
    unfold d_scalar.
    destruct (push_text q (ds_flushed ds) (ds_done ds) (ds_stack ds) (ds_field ds) (attach (ds_annots ds) v) Hpo)
      as (ds' & Epv & Hfl & Hcx & Hfd & Han & Hns & Hsk & Hne & Htx).
    exists ds'. split; [exact Epv|].
    exists false, false, i, true. rewrite Hfl, Hcx, Hfd, Han, Hns. cbn [ftok option_map map].
    repeat split; auto.
    all: try (intros; discriminate).
    + intros Hst. rewrite Ho1, Htx, (Ht Hst), (Hwt Hst), tann_map. app_norm.
    + intros Hk _. now rewrite (Hne Hk).
  - exfalso. rewrite Hnone in Hs. cbn [ftok option_map] in Hs.
    destruct (recorded_fails begin_value (fn ;; end_value) _ _ _ _ _ _ _ _ w _ (begin_value_fails _ _ _ _ _ _ _ _ Htop) Hs)
      as (w1 & E1 & Herr1).
    unfold write_value_act in E. rewrite E1 in E. injection E as <- <-. congruence.
Qed.

Lemma wt_attach_scalar pa v : is_scalar v -> wt F [] (attach pa v) = ann_bytes pa ++ scalar_bytes F v.
Proof.
  intros Hs. destruct pa as [|y r]; cbn [attach].
  - now apply wt_scalar.
  - cbn [wt app]. now apply wt_scalar.
Qed.

(* ---- containers ------------------------------------------------------------------------------------------------ *)
Lemma begin_step strict q w ds call t c0 o w' ok :
  Inv strict q w ds ->
  (forall w, tw_step F w call = Ok (begin_container t c0 w)) ->
  kind_of o = t -> open_char o = c0 -> open_ns o = false -> members_text o = [] ->
  tw_step F w call = Ok (w', ok) -> tw_err w' = false ->
  ok = true /\ exists ds', d_begin ds o = Some ds' /\ Inv strict q w' ds'.
Proof.
  intros HI Hcall Hk Hc Hn Hm E Herr. pose proof (field_dec _ _ _ _ HI) as Hd.
  destruct HI as (ec & es & i & wl & Hb & Hp & Ht & Hso & Ha & Hf & Hes).
  assert (Hs : st w (sink_bytes (tw_out w)) (mkp (ctxs (ds_stack ds)) (ftok (ds_field ds)) (map tok_of_sym (ds_annots ds))
                 (ns_of q (ds_flushed ds) (ds_done ds) (ds_stack ds)) ec es i wl q)) by (repeat split; auto).
  destruct Hd as [(Hfo & Hpo)|(Htop & Hnone)].
  - destruct (steps_begin F call t c0 _ _ _ _ ec es i wl q eq_refl Hcall Hfo Ha w _ Hs) as (w1 & E1 & Hb1 & Ho1 & Hp1).
    rewrite E1 in E. injection E as <- <-. split; [reflexivity|].
    unfold d_begin. rewrite Hpo. eexists. split; [reflexivity|].
    exists true, es, (i + 1)%Z, true.
    cbn [ds_flushed ds_done ds_stack ds_field ds_annots ctxs map ns_of stack_text fr_open fr_field fr_annots ftok option_map].
    rewrite Hk, Hc, Hn, Hm. fold (ctxs (ds_stack ds)).
    repeat split; auto.
    all: try (intros; discriminate).
    + intros Hst. rewrite Ho1, (Ht Hst), tann_map. app_norm.
  - exfalso. rewrite Hnone in Hs. cbn [ftok option_map] in Hs.
    rewrite Hcall in E. unfold begin_container in E.
    match type of E with Ok (recorded (begin_value ;; ?r) w) = _ =>
      destruct (recorded_fails begin_value r _ _ _ _ _ _ _ _ w _ (begin_value_fails _ _ _ _ _ _ _ _ Htop) Hs) as (w1 & E1 & Herr1) end.
    rewrite E1 in E. injection E as <- <-. congruence.
Qed.

Lemma steps_end_any call t c0 c f a ns ec es i wl q :
  (forall w, tw_step F w call = end_container w t c0) ->
  steps F call (mkp (t :: c) f a ns ec es i wl q) [c0] (mkp c None [] true false false (i - 1) wl q).
Proof.
  intros Hcall w out Hst. rewrite Hcall. unfold end_container, tw_err, p_peek.
  pose proof Hst as (Hb & Ho & Hp). rewrite Hp. cbn [mkp p_err p_ctx]. rewrite N.eqb_refl. cbn [negb].
  assert (R : runs (recorded (end_body c c0)) (mkp (t :: c) f a ns ec es i wl q) [c0] (mkp c None [] true false false (i - 1) wl q)).
  { apply runs_recorded. unfold end_body.
    eapply runs_eq; [eapply runs_seq; [apply runs_upd|eapply runs_seq;
      [apply runs_on; cbn [mkp p_set_indent p_empty_cont p_pretty]; rewrite andb_false_r; apply runs_ret
      |eapply runs_seq; [apply runs_raw|apply runs_upd]]]|app_norm|reflexivity]. }
  destruct (R w out Hst) as (w' & E & Hs'). exists w'. now rewrite E.
Qed.

Lemma wt_attach_list pa l : wt F [] (attach pa (VList l)) = ann_bytes pa ++ [91] ++ items [44] false (map (wt F []) l) ++ [93].
Proof. destruct pa; reflexivity. Qed.
Lemma wt_attach_sexp pa l : wt F [] (attach pa (VSexp l)) = ann_bytes pa ++ [40] ++ items [32] false (map (wt F []) l) ++ [41].
Proof. destruct pa; reflexivity. Qed.
Lemma wt_attach_struct pa fs : wt F [] (attach pa (VStruct fs)) =
  ann_bytes pa ++ [123] ++ items [44] false (map (fun '(n, x) => wsym n ++ [58] ++ wt F [] x) fs) ++ [125].
Proof. destruct pa; reflexivity. Qed.

Lemma end_step strict q w ds call t c0 w' ok :
  Inv strict q w ds ->
  (forall w, tw_step F w call = end_container w t c0) ->
  (forall o, kind_of o = t -> close_char o = c0 /\ exists v, close o call = Some v /\
     forall pa, wt F [] (attach pa v) = ann_bytes pa ++ [open_char o] ++ members_text o ++ [c0]) ->
  (forall o, kind_of o <> t -> close o call = None) -> t <> 0 ->
  tw_step F w call = Ok (w', ok) -> tw_err w' = false ->
  ok = true /\ exists ds', d_end ds call = Some ds' /\ Inv strict q w' ds'.
Proof.
  intros HI Hcall Hcl Hncl Ht0 E Herr.
  destruct HI as (ec & es & i & wl & Hb & Hp & Ht & Hso & Ha & Hf & Hes).
  assert (Hs : st w (sink_bytes (tw_out w)) (mkp (ctxs (ds_stack ds)) (ftok (ds_field ds)) (map tok_of_sym (ds_annots ds))
                 (ns_of q (ds_flushed ds) (ds_done ds) (ds_stack ds)) ec es i wl q)) by (repeat split; auto).
  destruct (N.eq_dec (top_of (ctxs (ds_stack ds))) t) as [Et|Et].
  - destruct (ds_stack ds) as [|fr rest] eqn:Estk; [cbn in Et; congruence|].
    cbn [ctxs map top_of] in Et. cbn [ctxs map] in Hs. fold (ctxs rest) in Hs. rewrite Et in Hs.
    destruct (steps_end_any call t c0 _ _ _ _ ec es i wl q Hcall w _ Hs) as (w1 & E1 & Hb1 & Ho1 & Hp1).
    rewrite E1 in E. injection E as <- <-. split; [reflexivity|].
    destruct (Hcl _ Et) as (Hcc & v & Ecl & Hwt).
    unfold d_end. rewrite Estk, Ecl.
    cbn [stack_ok] in Hso. destruct Hso as (Hpo & Hso').
    destruct (push_text q (ds_flushed ds) (ds_done ds) rest (fr_field fr) (attach (fr_annots fr) v) Hpo)
      as (ds' & Epv & Hfl & Hcx & Hfd & Han & Hns & Hsk & Hne & Htx).
    exists ds'. split; [exact Epv|].
    exists false, false, (i - 1)%Z, wl. rewrite Hfl, Hcx, Hfd, Han, Hns. cbn [ftok option_map map].
    repeat split; auto.
    all: try (intros; discriminate).
    + intros Hst. rewrite Ho1, Htx, (Ht Hst), Hwt. cbn [stack_text]. app_norm.
    + intros Hk _. now rewrite (Hne Hk).
  - exfalso. rewrite Hcall in E. unfold end_container in E. rewrite (tw_err_st _ _ _ _ _ _ _ _ _ _ _ Hs) in E.
    pose proof Hs as (_ & _ & Hp'). unfold p_peek in E. rewrite Hp' in E. cbn [mkp p_ctx] in E.
    fold (top_of (ctxs (ds_stack ds))) in E.
    destruct (N.eqb_spec (top_of (ctxs (ds_stack ds))) t) as [E'|_]; [contradiction|]. cbn [negb] in E.
    unfold record_error in E. injection E as <- <-. unfold tw_err in Herr. cbn in Herr. discriminate.
Qed.

(* ---- tokens ------------------------------------------------------------------------------------------------ *)
Lemma tok_ok_eq t : tok_ok t -> tok_of_sym (sym_of_tok t) = t /\ wok t.
Proof.
  intros (x & -> & Hx). split; [reflexivity|]. unfold wok, write_symbol. cbn [tok_text tk_text].
  destruct (symbol_identifier x); discriminate.
Qed.
Lemma toks_ok_eq ts : Forall tok_ok ts -> map tok_of_sym (map sym_of_tok ts) = ts /\ Forall wok ts.
Proof.
  induction 1 as [|t r Ht Hr (IH1 & IH2)]; [split; [reflexivity|constructor]|].
  destruct (tok_ok_eq t Ht) as (E1 & E2). cbn [map]. rewrite E1, IH1. split; [reflexivity|now constructor].
Qed.
Lemma text_null_ok t : t < 14 -> text_null t = Ok (nth (N.to_nat t) text_nulls []).
Proof.
  intros Ht. unfold text_null. destruct (nth_error text_nulls (N.to_nat t)) eqn:E.
  - f_equal. symmetry. now apply nth_error_nth.
  - apply nth_error_None in E. cbn [length text_nulls] in E. lia.
Qed.

(* ---- Finish at top level ------------------------------------------------------------------------------------- *)
Lemma wt_stream_q l : wt_stream F true l = items [10] false (map (wt F []) l).
Proof. unfold wt_stream. destruct l; now rewrite app_nil_r. Qed.
Lemma finish_text_q fl dn : top_text true fl dn = top_text true (fl ++ dn) [].
Proof.
  unfold top_text. rewrite !wt_stream_q, map_app, items_app, nonempty_map. cbn [andb orb map items]. now rewrite app_nil_r.
Qed.
Lemma finish_ns_q fl dn : top_ns true fl dn = top_ns true (fl ++ dn) [].
Proof. unfold top_ns. rewrite nonempty_app. cbn [andb nonempty]. now rewrite orb_false_r. Qed.
Lemma finish_text_nq fl v r : top_text false fl (v :: r) ++ [10] = top_text false (fl ++ v :: r) [].
Proof.
  unfold top_text, wt_stream. cbn [andb map items]. rewrite app_nil_r. destruct fl as [|a l].
  - cbn [app map items]. app_norm.
  - rewrite map_app, items_app. cbn [app map nonempty orb items]. app_norm. now rewrite <- app_assoc.
Qed.

(* ---- one call ---------------------------------------------------------------------------------------------- *)
Lemma scalar_case strict q w ds c fn bs v w' ok :
  Inv strict q w ds -> (forall p, runs fn p bs p) ->
  Ok (write_value_act fn w) = Ok (w', ok) -> tw_err w' = false ->
  dstep ds c = d_scalar ds v -> c <> CFinish -> is_scalar v ->
  (strict = true -> scalar_bytes F v = bs) ->
  exists ds', (if ok then dstep ds c else Some ds) = Some ds' /\ Inv strict q w' ds' /\
     (c = CFinish -> ok = true -> ds_stack ds' = [] /\ ds_done ds' = []).
Proof.
  intros HI Hfn E Herr Hd Hc Hs Hb. injection E as E.
  destruct (scalar_step strict q w ds fn bs v w' ok HI Hfn E Herr) as (-> & ds' & Ed & HI').
  - intros Hst pa. rewrite (wt_attach_scalar pa v Hs), (Hb Hst). reflexivity.
  - exists ds'. rewrite Hd. split; [exact Ed|]. split; [exact HI'|]. intros Hc'. contradiction.
Qed.

Lemma record_error_contra w w' ok : Ok (record_error w) = Ok (w', ok) -> tw_err w' = false -> False.
Proof. unfold record_error. intros E H. injection E as <- <-. unfold tw_err in H. cbn in H. discriminate. Qed.

Lemma nan_canonical : f64_is_nan canonical_nan64 = true.
Proof. vm_compute. reflexivity. Qed.

Lemma step strict q w ds c w' ok :
  Inv strict q w ds -> call_ok c -> (strict = true -> plain_call c) ->
  tw_step F w c = Ok (w', ok) -> tw_err w' = false ->
  exists ds', (if ok then dstep ds c else Some ds) = Some ds' /\ Inv strict q w' ds' /\
     (c = CFinish -> ok = true -> ds_stack ds' = [] /\ ds_done ds' = []).
Proof.
  intros HI Hc Hpl E Herr.
  assert (He : tw_err w = false).
  { destruct (inv_st _ _ _ _ HI) as (ec & es & i & wl & Hs). eapply tw_err_st, Hs. }
  destruct c; cbn [tw_step] in E; rewrite ?He in E.
  - (* FieldName *)
    destruct HI as (ec & es & i & wl & Hb & Hp & Ht & Hso & Ha & Hf & Hes).
    destruct (tok_ok_eq t Hc) as (Et & Hwt).
    unfold p_in_struct, p_peek in E. rewrite Hp in E. cbn [mkp p_ctx] in E.
    cbn [dstep].
    destruct (ds_stack ds) as [|fr rest] eqn:Estk; cbn [ctxs map] in E.
    { unfold ctxStruct in E; cbn [negb N.eqb Pos.eqb] in E. exfalso. eapply record_error_contra; eauto. }
    destruct (fr_open fr) eqn:Eo; cbn [kind_of] in E; unfold ctxStruct, ctxList, ctxSexp in E; cbn [negb N.eqb Pos.eqb] in E.
    1,2: exfalso; eapply record_error_contra; eauto.
    unfold upd in E. injection E as <- <-.
    eexists. split; [reflexivity|]. split; [|discriminate].
    exists ec, es, i, wl. cbn [set_dpending ds_flushed ds_done ds_stack ds_field ds_annots tw_out set_p tw_p ftok option_map].
    rewrite Estk, Et, Hp. cbn [ctxs map]. rewrite Eo. cbn [kind_of].
    repeat split; auto.
    all: try (intros; discriminate). all: try reflexivity.
    all: try (match goal with H : Some _ = Some _ |- _ => injection H as <-; rewrite Et; exact Hwt end).
    all: try (cbn [stack_ok] in Hso; tauto).
  - (* Annotation *)
    destruct HI as (ec & es & i & wl & Hb & Hp & Ht & Hso & Ha & Hf & Hes).
    destruct (tok_ok_eq t Hc) as (Et & Hwt).
    unfold upd in E. injection E as <- <-. cbn [dstep].
    eexists. split; [reflexivity|]. split; [|discriminate].
    exists ec, es, i, wl. cbn [set_dpending ds_flushed ds_done ds_stack ds_field ds_annots tw_out set_p tw_p].
    rewrite map_app. cbn [map]. rewrite Et, Hp.
    repeat split; auto.
    + apply Forall_app. split; [exact Ha|]. constructor; [exact Hwt|constructor].
    + apply (Hf n H).
    + apply (Hf n H).
  - (* Annotations *)
    destruct HI as (ec & es & i & wl & Hb & Hp & Ht & Hso & Ha & Hf & Hes).
    destruct (toks_ok_eq ts Hc) as (Et & Hwt).
    unfold upd in E. injection E as <- <-. cbn [dstep].
    eexists. split; [reflexivity|]. split; [|discriminate].
    exists ec, es, i, wl. cbn [set_dpending ds_flushed ds_done ds_stack ds_field ds_annots tw_out set_p tw_p].
    rewrite map_app. rewrite Et, Hp.
    repeat split; auto.
    + apply Forall_app. split; [exact Ha|exact Hwt].
    + apply (Hf n H).
    + apply (Hf n H).
  - (* Null *)
    rewrite (text_null_ok 0) in E by lia. cbn [bind] in E.
    eapply (scalar_case strict q w ds CNull (raws _) _ (VNull TNull)); [exact HI|intros p; apply runs_raws|exact E|exact Herr|reflexivity|discriminate|exact I|].
    intros Hst. destruct (Hpl Hst) as (H1 & _). now elim H1.
  - (* NullType *)
    destruct (14 <=? t) eqn:E14; [exfalso; eapply record_error_contra; eauto|].
    rewrite (text_null_ok t) in E by lia. cbn [bind] in E.
    eapply (scalar_case strict q w ds (CNullType t) (raws _) _ (VNull (if t =? 0 then TNull else t)));
      [exact HI|intros p; apply runs_raws|exact E|exact Herr| |discriminate|exact I|].
    + cbn [dstep scalar_of_call]. rewrite E14. reflexivity.
    + intros Hst. destruct (Hpl Hst) as (_ & H2). destruct (N.eqb_spec t 0) as [->|Hn]; [now elim H2|].
      cbn [scalar_bytes concat]. now rewrite app_nil_r.
  - (* Bool *)
    eapply (scalar_case strict q w ds (CBool b) (raws _) _ (VBool b)); [exact HI|intros p; apply runs_raws|exact E|exact Herr|reflexivity|discriminate|exact I|].
    intros _. cbn [scalar_bytes concat]. now rewrite app_nil_r.
  - (* Int *)
    eapply (scalar_case strict q w ds (CInt z) (raws _) _ (VInt z)); [exact HI|intros p; apply runs_raws|exact E|exact Herr|reflexivity|discriminate|exact I|].
    intros _. cbn [scalar_bytes concat]. now rewrite app_nil_r.
  - (* Uint *)
    eapply (scalar_case strict q w ds (CUint n) (raws _) _ (VInt (Z.of_N n))); [exact HI|intros p; apply runs_raws|exact E|exact Herr|reflexivity|discriminate|exact I|].
    intros _. cbn [scalar_bytes concat]. rewrite app_nil_r. destruct n; reflexivity.
  - (* BigInt *)
    destruct z as [z|]; [|exfalso; eapply record_error_contra; eauto].
    eapply (scalar_case strict q w ds (CBigInt (Some z)) (raws _) _ (VInt z)); [exact HI|intros p; apply runs_raws|exact E|exact Herr|reflexivity|discriminate|exact I|].
    intros _. cbn [scalar_bytes concat]. now rewrite app_nil_r.
  - (* Float *)
    eapply (scalar_case strict q w ds (CFloat bits) (raws _) _ (VFloat (if f64_is_nan bits then canonical_nan64 else bits)));
      [exact HI|intros p; apply runs_raws|exact E|exact Herr|reflexivity|discriminate|exact I|].
    intros _. cbn [scalar_bytes concat]. rewrite app_nil_r. destruct (f64_is_nan bits) eqn:En; [|reflexivity].
    unfold format_float. now rewrite En, nan_canonical.
  - (* Decimal *)
    destruct d as [d|]; [|exfalso; eapply record_error_contra; eauto].
    eapply (scalar_case strict q w ds (CDecimal (Some d)) (raws _) _ (VDecimal d)); [exact HI|intros p; apply runs_raws|exact E|exact Herr|reflexivity|discriminate|exact I|].
    intros _. cbn [scalar_bytes concat]. now rewrite app_nil_r.
  - (* Timestamp *)
    cbn [call_ok] in Hc.
    eapply (scalar_case strict q w ds (CTimestamp len body) (raws _) _ (VTimestamp body)); [exact HI|intros p; apply runs_raws|exact E|exact Herr|reflexivity|discriminate|exact I|].
    intros _. cbn [scalar_bytes concat]. rewrite app_nil_r. unfold ts_lit. now rewrite Hc.
  - (* Symbol *)
    destruct (tok_ok_eq t Hc) as (Et & Hwt).
    eapply (scalar_case strict q w ds (CSymbol t) (sym_act t) (sym_bytes t) (VSymbol (sym_of_tok t)));
      [exact HI|intros p; apply runs_sym_act, Hwt|exact E|exact Herr|reflexivity|discriminate|exact I|].
    intros _. cbn [scalar_bytes]. unfold wsym. now rewrite Et.
  - (* SymbolFromString *)
    cbn [call_ok] in Hc. destruct Hc as (_ & Hsi).
    eapply (scalar_case strict q w ds (CSymbolFromString t) (raws _) _ (VSymbol (SymText t)));
      [exact HI|intros p; apply runs_raws|exact E|exact Herr|reflexivity|discriminate|exact I|].
    intros _. cbn [scalar_bytes]. unfold wsym, sym_bytes, write_symbol. cbn [tok_of_sym tok_text tk_text]. now rewrite Hsi.
  - (* String *)
    eapply (scalar_case strict q w ds (CString t) (raws _) _ (VString t)); [exact HI|intros p; apply runs_raws|exact E|exact Herr|reflexivity|discriminate|exact I|].
    intros _. cbn [scalar_bytes]. rewrite !concat_app. cbn [concat app]. reflexivity.
  - (* Clob *)
    eapply (scalar_case strict q w ds (CClob b) (raws _) _ (VClob b)); [exact HI|intros p; apply runs_raws|exact E|exact Herr|reflexivity|discriminate|exact I|].
    intros _. cbn [scalar_bytes]. rewrite !concat_app. cbn [concat app]. reflexivity.
  - (* Blob *)
    eapply (scalar_case strict q w ds (CBlob b) (raws _) _ (VBlob b)); [exact HI|intros p; apply runs_raws|exact E|exact Herr|reflexivity|discriminate|exact I|].
    intros _. cbn [scalar_bytes]. rewrite !concat_app. cbn [concat app]. reflexivity.
  - (* BeginList *)
    destruct (begin_step strict q w ds CBeginList ctxList 91 (OList []) w' ok HI (fun _ => eq_refl) eq_refl eq_refl eq_refl eq_refl E Herr)
      as (-> & ds' & Ed & HI').
    exists ds'. cbn [dstep]. split; [exact Ed|split; [exact HI'|discriminate]].
  - (* EndList *)
    destruct (end_step strict q w ds CEndList ctxList 93 w' ok HI (fun _ => eq_refl)) as (-> & ds' & Ed & HI'); try assumption.
    + intros o Ho. destruct o; try discriminate Ho. split; [reflexivity|]. eexists. split; [reflexivity|].
      intros pa. rewrite wt_attach_list. reflexivity.
    + intros o Ho. destruct o; try reflexivity. now elim Ho.
    + discriminate.
    + exists ds'. cbn [dstep]. split; [exact Ed|split; [exact HI'|discriminate]].
  - (* BeginSexp *)
    destruct (begin_step strict q w ds CBeginSexp ctxSexp 40 (OSexp []) w' ok HI (fun _ => eq_refl) eq_refl eq_refl eq_refl eq_refl E Herr)
      as (-> & ds' & Ed & HI').
    exists ds'. cbn [dstep]. split; [exact Ed|split; [exact HI'|discriminate]].
  - (* EndSexp *)
    destruct (end_step strict q w ds CEndSexp ctxSexp 41 w' ok HI (fun _ => eq_refl)) as (-> & ds' & Ed & HI'); try assumption.
    + intros o Ho. destruct o; try discriminate Ho. split; [reflexivity|]. eexists. split; [reflexivity|].
      intros pa. rewrite wt_attach_sexp. reflexivity.
    + intros o Ho. destruct o; try reflexivity. now elim Ho.
    + discriminate.
    + exists ds'. cbn [dstep]. split; [exact Ed|split; [exact HI'|discriminate]].
  - (* BeginStruct *)
    destruct (begin_step strict q w ds CBeginStruct ctxStruct 123 (OStruct []) w' ok HI (fun _ => eq_refl) eq_refl eq_refl eq_refl eq_refl E Herr)
      as (-> & ds' & Ed & HI').
    exists ds'. cbn [dstep]. split; [exact Ed|split; [exact HI'|discriminate]].
  - (* EndStruct *)
    destruct (end_step strict q w ds CEndStruct ctxStruct 125 w' ok HI (fun _ => eq_refl)) as (-> & ds' & Ed & HI'); try assumption.
    + intros o Ho. destruct o; try discriminate Ho. split; [reflexivity|]. eexists. split; [reflexivity|].
      intros pa. rewrite wt_attach_struct. reflexivity.
    + intros o Ho. destruct o; try reflexivity. now elim Ho.
    + discriminate.
    + exists ds'. cbn [dstep]. split; [exact Ed|split; [exact HI'|discriminate]].
  - (* Finish *)
    pose proof HI as (ec & es & i & wl & Hb & Hp & Ht & Hso & Ha & Hf & Hes).
    unfold finish in E. rewrite He in E. unfold p_peek in E. rewrite Hp in E. cbn [mkp p_ctx p_empty_stream p_quiet] in E.
    destruct (ds_stack ds) as [|fr rest] eqn:Estk; cbn [ctxs map] in E.
    + change (negb (0 =? 0)) with false in E. cbn iota in E. cbn [dstep]. rewrite Estk.
      exists {| ds_flushed := ds_flushed ds ++ ds_done ds; ds_done := []; ds_stack := []; ds_field := None; ds_annots := [] |}.
      split; [|split; [|intros _ _; split; reflexivity]].
      * destruct (negb es && negb q); [|unfold upd in E; injection E as <- <-; reflexivity].
        destruct (raw [10] w) as [w1 ok1]. destruct ok1; cbn [negb] in E.
        -- unfold upd in E. injection E as <- <-. reflexivity.
        -- exfalso. eapply record_error_contra; eauto.
      * cbn [ds_flushed ds_done ds_stack ds_field ds_annots]. cbn [ns_of ctxs map stack_text] in *.
        destruct q.
        -- rewrite andb_false_r in E. unfold upd in E. injection E as <- <-.
           exists ec, es, i, wl. cbn [ds_flushed ds_done ds_stack ds_field ds_annots tw_out set_p tw_p ftok option_map map ctxs ns_of stack_text].
           rewrite Hp. rewrite <- finish_ns_q, <- finish_text_q.
           repeat split; auto; try (intros; discriminate).
        -- rewrite (Hes eq_refl eq_refl) in E. destruct (ds_done ds) as [|v r] eqn:Edn; cbn [nonempty negb andb] in E.
           ++ unfold upd in E. injection E as <- <-.
              exists ec, es, i, wl. cbn [ds_flushed ds_done ds_stack ds_field ds_annots tw_out set_p tw_p ftok option_map map ctxs ns_of stack_text].
              rewrite Hp, app_nil_r.
              repeat split; auto; try (intros; discriminate).
           ++ unfold raw, sink_write in E. rewrite Hb in E. cbn [negb] in E. unfold upd in E. injection E as <- <-.
              exists ec, true, i, wl. cbn [ds_flushed ds_done ds_stack ds_field ds_annots tw_out set_out set_p tw_p ftok option_map map ctxs ns_of stack_text sk_budget].
              rewrite Hp, <- finish_text_nq.
              repeat split; auto; try (intros; discriminate).
              intros Hst. unfold sink_bytes. cbn [sk_writes]. rewrite concat_app. fold (sink_bytes (tw_out w)). rewrite (Ht Hst).
              cbn [concat app]. reflexivity.
    + assert (Hk : negb (kind_of (fr_open fr) =? 0) = true) by (destruct (fr_open fr); reflexivity).
      rewrite Hk in E. injection E as <- <-. exists ds. split; [reflexivity|]. split; [exact HI|]. intros _ H. discriminate.
Qed.

(* ---- whole sequences ------------------------------------------------------------------------------------------ *)
Lemma drive_sticky cs : forall w w' oks, tw_err w = true -> tw_drive F w cs = Ok (w', oks) -> tw_err w' = true.
Proof.
  induction cs as [|c r IH]; intros w w' oks He E; cbn [tw_drive] in E.
  - injection E as <- <-. exact He.
  - rewrite (TextWriterP.tw_sticky_step F w c He) in E. cbn [bind] in E.
    destruct (tw_drive F w r) as [[w2 o2]| | |] eqn:Er; try discriminate. cbn [bind] in E. injection E as <- <-.
    eapply IH; eauto.
Qed.

Lemma finish_true_noerr w w' : finish w = (w', true) -> tw_err w' = false.
Proof.
  unfold finish. destruct (tw_err w) eqn:He; [discriminate|].
  destruct (negb (p_peek (tw_p w) =? 0)); [discriminate|].
  destruct (negb (p_empty_stream (tw_p w)) && negb (p_quiet (tw_p w))).
  - destruct (raw [10] w) as [w1 ok1] eqn:Er. destruct ok1; cbn [negb]; [|discriminate].
    unfold upd. intros E. injection E as <-. unfold tw_err. cbn.
    unfold raw in Er. destruct (sink_write (tw_out w) [10]). injection Er as <- _. exact He.
  - unfold upd. intros E. injection E as <-. exact He.
Qed.

Lemma final_noerr cs : forall w w' oks, tw_drive F w cs = Ok (w', oks) -> final_finish_ok cs oks -> tw_err w' = false.
Proof.
  induction cs as [|c r IH]; intros w w' oks E Hf; [destruct oks; contradiction|].
  cbn [tw_drive] in E. destruct (tw_step F w c) as [[w1 ok]| | |] eqn:Es; try discriminate. cbn [bind] in E.
  destruct (tw_drive F w1 r) as [[w2 o2]| | |] eqn:Er; try discriminate. cbn [bind] in E. injection E as <- <-.
  destruct r as [|c2 r2].
  - cbn [tw_drive] in Er. injection Er as <- <-. cbn [final_finish_ok] in Hf.
    destruct c; try contradiction. destruct ok; try contradiction.
    cbn [tw_step] in Es. injection Es as Es. eapply finish_true_noerr, Es.
  - eapply IH; [exact Er|]. destruct c; exact Hf.
Qed.

Lemma run strict q cs : forall w ds w' oks,
  Inv strict q w ds -> Forall call_ok cs -> (strict = true -> Forall plain_call cs) ->
  tw_drive F w cs = Ok (w', oks) -> tw_err w' = false ->
  exists ds', denote_from ds cs oks = Some ds' /\ Inv strict q w' ds' /\
    (final_finish_ok cs oks -> ds_stack ds' = [] /\ ds_done ds' = []).
Proof.
  induction cs as [|c r IH]; intros w ds w' oks HI Hc Hpl E Herr; cbn [tw_drive] in E.
  - injection E as <- <-. exists ds. split; [reflexivity|]. split; [exact HI|]. intros [].
  - destruct (tw_step F w c) as [[w1 ok]| | |] eqn:Es; try discriminate. cbn [bind] in E.
    destruct (tw_drive F w1 r) as [[w2 o2]| | |] eqn:Er; try discriminate. cbn [bind] in E. injection E as <- <-.
    assert (He1 : tw_err w1 = false).
    { destruct (tw_err w1) eqn:H1; [|reflexivity]. rewrite (drive_sticky r _ _ _ H1 Er) in Herr. discriminate. }
    inversion Hc as [|? ? Hc1 Hc2]; subst.
    destruct (step strict q w ds c w1 ok HI Hc1) as (ds1 & Ed1 & HI1 & Hfin1); [|exact Es|exact He1|].
    { intros Hst. pose proof (Hpl Hst) as Hp. now inversion Hp. }
    destruct (IH w1 ds1 w2 o2 HI1 Hc2) as (ds2 & Ed2 & HI2 & Hfin2); [|exact Er|exact Herr|].
    { intros Hst. pose proof (Hpl Hst) as Hp. now inversion Hp. }
    exists ds2. split; [|split; [exact HI2|]].
    + cbn [denote_from]. destruct ok.
      * rewrite Ed1. exact Ed2.
      * injection Ed1 as <-. exact Ed2.
    + destruct r as [|c2 r2].
      * cbn [tw_drive] in Er. injection Er as <- <-. cbn [denote_from] in Ed2. injection Ed2 as <-.
        cbn [final_finish_ok]. intros Hf. destruct c; try contradiction. destruct ok; try contradiction.
        apply Hfin1; reflexivity.
      * intros Hf. apply Hfin2. destruct c; exact Hf.
Qed.

(* ---- the theorems ------------------------------------------------------------------------------------------------ *)
(* every sequence: the successful calls denote a forest, and every call other than a Finish inside a container
   returned nil *)
Theorem denote_text_defined quiet cs w oks : Forall call_ok cs ->
  tw_drive F (new_text_writer None false quiet) cs = Ok (w, oks) -> final_finish_ok cs oks ->
  exists vs, denote cs oks = Some vs /\ denote_flushed cs oks = Some vs.
Proof.
  intros Hc E Hf.
  destruct (run false quiet cs _ _ _ _ (inv_init false quiet) Hc (fun H => False_ind _ (Bool.diff_false_true H)) E (final_noerr _ _ _ _ E Hf))
    as (ds' & Ed & HI & Hfin).
  destruct (Hfin Hf) as (Hs & Hd). exists (ds_flushed ds'). unfold denote, denote_flushed. rewrite Ed, Hs, Hd.
  cbn [option_map]. now rewrite app_nil_r.
Qed.

(* sequences without WriteNull() / WriteNullType(NoType): the bytes are the canonical text of the denoted forest *)
Theorem denote_text_sound quiet cs w oks : Forall call_ok cs -> Forall plain_call cs ->
  tw_drive F (new_text_writer None false quiet) cs = Ok (w, oks) -> final_finish_ok cs oks ->
  exists vs, denote cs oks = Some vs /\ sink_bytes (tw_out w) = wt_stream F quiet vs.
Proof.
  intros Hc Hpl E Hf.
  destruct (run true quiet cs _ _ _ _ (inv_init true quiet) Hc (fun _ => Hpl) E (final_noerr _ _ _ _ E Hf))
    as (ds' & Ed & HI & Hfin).
  destruct (Hfin Hf) as (Hs & Hd). exists (ds_flushed ds'). unfold denote. rewrite Ed, Hs, Hd. split.
  - now rewrite app_nil_r.
  - destruct HI as (ec & es & i & wl & Hb & Hp & Ht & _). rewrite (Ht eq_refl), Hs, Hd. cbn [stack_text].
    unfold top_text. cbn [map items]. now rewrite app_nil_r.
Qed.

(* "checking only the final Finish is enough": a call that returned an error and is not a Finish poisons the writer *)
Theorem text_final_finish_enough cs : forall w w' oks,
  tw_drive F w cs = Ok (w', oks) -> tw_err w' = false ->
  Forall2 (fun c ok => c <> CFinish -> ok = true) cs oks.
Proof.
  induction cs as [|c r IH]; intros w w' oks E Herr; cbn [tw_drive] in E.
  - injection E as <- <-. constructor.
  - destruct (tw_step F w c) as [[w1 ok]| | |] eqn:Es; try discriminate. cbn [bind] in E.
    destruct (tw_drive F w1 r) as [[w2 o2]| | |] eqn:Er; try discriminate. cbn [bind] in E. injection E as <- <-.
    assert (He1 : tw_err w1 = false).
    { destruct (tw_err w1) eqn:H1; [|reflexivity]. rewrite (drive_sticky r _ _ _ H1 Er) in Herr. discriminate. }
    constructor; [|eapply IH; eauto].
    intros Hc. destruct ok; [reflexivity|]. rewrite (TextWriterP.tw_records_error F w w1 c Hc Es) in He1. discriminate.
Qed.

(* the invariant, for any prefix that leaves no recorded error *)
Theorem text_lockstep strict quiet cs w oks : Forall call_ok cs -> (strict = true -> Forall plain_call cs) ->
  tw_drive F (new_text_writer None false quiet) cs = Ok (w, oks) -> tw_err w = false ->
  exists ds, denote_from d_init cs oks = Some ds /\ Inv strict quiet w ds.
Proof.
  intros Hc Hpl E Herr. destruct (run strict quiet cs _ _ _ _ (inv_init strict quiet) Hc Hpl E Herr) as (ds' & Ed & HI & _).
  exists ds'. auto.
Qed.
End Text.
