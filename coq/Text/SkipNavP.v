(* SkipNavP.v — C08 for text, stage 4: every navigation plan over every spelling of a stream observes exactly the
   projection of the plain full traversal's trace.

   [nav_tree]: by induction on the spelling of a value tree / of the rest of a container, the program [prog tv p] of a
   plan [p] run by the reader model ([x_run], the function behind the `trd` command of the correspondence check)
   answers [etr fld tv p] and leaves the reader settled in front of what follows — whether the plan skipped the
   value, read it, or left a container after some of its members.
   [nav_stream]: the same for a whole top-level stream spelled by [tops_spell2]. *)
From Coq Require Import String List NArith ZArith Bool Lia ZifyBool ZifyN ZifyNat.
From IonV Require Import Base.Wire Base.Utf8 Data.Ion Bin.Bits Bin.BitStream Bin.BinReader Num.Float Text.Tokenizer Text.Skipper
  Text.TextReader Text.TextNum Text.SpellBase Text.SpellWs Text.SpellNum Text.SpellTok Text.SpellRead
  Text.SpellEsc Text.SpellStr Text.SpellLong Text.SpellIdent Text.SpellSym Text.SpellTs Text.SpellBlob
  Text.SpellVal Text.SpellSymVal Text.SpellOp Text.SpellStream Text.SpellCont Text.SpellTree
  Text.SpellEofc Text.SpellOp2 Text.SpellStream2 Text.SpellIvm Text.SpellTree2 Text.SkipSpell Text.SkipSpellTree
  Text.SkipSpellNav Text.SkipNav.
Import ListNotations.
Open Scope Z_scope.

Section NavP.
Variable pd : list N -> res dec.
Variable pt : list N -> res (list N).
Variable lst : rlst.
Notation BTA := trsBeforeTypeAnnotations.
Notation api := (x_next_inner pd pt).

(* [steps x p tr x']: the calls [p] from state [x] return, answer [tr] and lead to [x'] *)
Definition steps (x : xstate) (p : list rop) (tr : list (list N)) (x' : xstate) : Prop :=
  forall p2 acc, x_run pd pt x (p ++ p2) acc = x_run pd pt x' p2 (rev tr ++ acc).
Lemma steps_nil x : steps x [] [] x.
Proof. intros p2 acc. reflexivity. Qed.
Lemma steps_app x p1 t1 x1 p2 t2 x2 : steps x p1 t1 x1 -> steps x1 p2 t2 x2 -> steps x (p1 ++ p2) (t1 ++ t2) x2.
Proof. intros H1 H2 p3 acc. rewrite <- app_assoc, H1, H2, rev_app_distr, <- app_assoc. reflexivity. Qed.
Lemma steps_op x o t x' : x_op_res pd pt x o = (x', Ok t) -> steps x [o] [t] x'.
Proof. intros E p2 acc. cbn [app x_run]. rewrite E. reflexivity. Qed.
Lemma steps_run x p tr x' : steps x p tr x' -> x_run pd pt x p [] = (x', tr).
Proof. intros H. specialize (H [] []). rewrite !app_nil_r in H. rewrite H. cbn [x_run]. now rewrite rev_involutive. Qed.

Lemma x_op_res_next x x' b : x_next pd pt x = (x', Ok b) -> x_op_res pd pt x ONext = (x', Ok [if b then 84 else 70]%N).
Proof. intros E. unfold x_op_res. rewrite E. reflexivity. Qed.
(* Next has delivered a value: the four header calls *)
Lemma steps_head x x1 :
  x_next pd pt x = (x1, Ok true) -> x_err x1 = false ->
  steps x head_ops (tr_head (x_field x1) (x_annots x1) (x_type x1) (x_is_null x1)) x1.
Proof.
  intros E He p2 acc. unfold head_ops. cbn [app x_run]. rewrite (x_op_res_next x x1 true E).
  cbn [x_run]. unfold x_op_res at 1. rewrite He. cbn [x_run]. unfold x_op_res at 1. rewrite He.
  cbn [x_run]. unfold x_op_res at 1. cbn [x_run]. unfold x_op_res at 1. reflexivity.
Qed.
(* the accessor of a non-null scalar *)
Lemma acc_op x ty v tok :
  x_err x = false -> x_type x = ty -> x_value x = v -> acc_token ty v = Some tok ->
  exists o, acc_ops ty v = [o] /\ x_op_res pd pt x o = (x, Ok tok).
Proof.
  intros He Hty Hv Ha. unfold x_op_res, acc_ops, accessor_of. rewrite He, Hty, Hv. clear Hty.
  destruct v; cbn [acc_token] in Ha; try discriminate.
  - destruct (N.eqb_spec ty TBool); [|discriminate]. subst ty. injection Ha as <-. eexists; split; reflexivity.
  - destruct (N.eqb_spec ty TInt); [|discriminate]. subst ty. injection Ha as <-. eexists; split; reflexivity.
  - destruct (N.eqb_spec ty TFloat); [|discriminate]. subst ty. injection Ha as <-. eexists; split; reflexivity.
  - destruct (N.eqb_spec ty TFloat); [|discriminate]. subst ty. injection Ha as <-. eexists; split; reflexivity.
  - destruct (N.eqb_spec ty TDecimal); [|discriminate]. subst ty. injection Ha as <-. eexists; split; reflexivity.
  - destruct (N.eqb_spec ty TTimestamp); [|discriminate]. subst ty. injection Ha as <-. eexists; split; reflexivity.
  - destruct (N.eqb_spec ty TSymbol); [|discriminate]. subst ty. injection Ha as <-. eexists; split; reflexivity.
  - destruct (N.eqb_spec ty TString); [|discriminate]. subst ty. injection Ha as <-. eexists; split; reflexivity.
  - destruct (N.eqb_spec ty TBlob) as [->|Hb].
    + injection Ha as <-. eexists; split; reflexivity.
    + destruct (N.eqb_spec ty TClob) as [->|Hc]; [|discriminate]. injection Ha as <-. eexists; split; reflexivity.
Qed.

Lemma prog_enter anns ty items ps fin :
  prog (TCont anns ty items) (PEnter ps fin) =
  head_ops ++ [OStepIn] ++ progs items ps ++ (if fin then [ONext] else []) ++ [OStepOut].
Proof. reflexivity. Qed.
Lemma etr_enter fld anns ty items ps fin :
  etr fld (TCont anns ty items) (PEnter ps fin) =
  tr_head fld anns ty false ++ [s "ok"%string] ++ etrs items ps ++ (if fin then [[70%N]] else []) ++ [s "ok"%string].
Proof. reflexivity. Qed.
Lemma plan_ok_enter anns ty items ps fin : plan_ok (TCont anns ty items) (PEnter ps fin) = plans_ok items ps fin.
Proof. reflexivity. Qed.
Lemma plans_ok_stop it its fin : plans_ok (it :: its) [] fin = (fin = false).
Proof. reflexivity. Qed.
Lemma plans_ok_cons f t its q qs fin : plans_ok ((f, t) :: its) (q :: qs) fin = (plan_ok t q /\ plans_ok its qs fin).
Proof. reflexivity. Qed.
Lemma plans_ok_over q qs fin : plans_ok [] (q :: qs) fin = False.
Proof. reflexivity. Qed.

Definition Q_val (ctx : list ctype) (text : list N) (fol : list N -> list N -> Prop) (tv : tval) : Prop :=
  forall p, plan_ok tv p ->
  forall pre st fld n wb, sep_spells2 lst ctx st pre fld n -> ws_run wb -> (pre = [] -> wb = []) ->
  forall x wn rest,
  nextable pd pt lst x st ctx (pre ++ wb ++ text ++ wn ++ rest) -> no_cr (pre ++ wb ++ text ++ wn) -> ws_run wn -> fol wn rest ->
  rest_ok ctx rest ->
  exists x' S' k' u' st' fld' ann' ty' v',
    steps x (prog tv p) (etr fld tv p) x' /\
    xok x' /\ xabs x' = mkax S' k' u' st' ctx false false lst fld' ann' ty' v' /\ st' <> trsDone /\
    loop_state u' st' ctx = after_value_state ctx /\ settled_w S' k' u' rest.
Definition Q_seq (ctx : list ctype) (st : N) (text : list N) (items : list (option tok * tval)) : Prop :=
  forall ps fin, plans_ok items ps fin ->
  forall c ctx', ctx = c :: ctx' ->
  forall x S0 k u st0 fld0 ann0 ty0 v0 outer,
  xok x -> xabs x = mkax S0 k u st0 ctx false false lst fld0 ann0 ty0 v0 -> st0 <> trsDone -> loop_state u st0 ctx = st ->
  settled S0 k u (text ++ outer) -> no_cr text ->
  exists x' S' k',
    steps x (progs items ps ++ (if fin then [ONext] else []) ++ [OStepOut])
            (etrs items ps ++ (if fin then [[70%N]] else []) ++ [s "ok"%string]) x' /\
    xok x' /\ xabs x' = mkax S' k' false (after_value_state ctx') ctx' false false lst None [] 0%N XNil /\ ends S' outer.

Lemma avs_not_done ctx : after_value_state ctx <> trsDone.
Proof. unfold after_value_state. destruct ctx as [|[| |] ?]; discriminate. Qed.

Theorem nav_tree :
  (forall ctx text fol tv, tspell2 pd pt lst ctx text fol tv -> Q_val ctx text fol tv) /\
  (forall ctx st text items, cseq2 pd pt lst ctx st text items -> Q_seq ctx st text items).
Proof.
  apply tspell2_cseq2_ind.
  - (* a scalar *)
    intros ctx text fol anns ty v Hav p _ pre st fld n wb Hsep Hwb Hpw x wn rest Hnx Hcr Hwn Hfol Hrok.
    destruct (next_scalar pd pt lst ctx text fol anns ty v Hav pre st fld n wb Hsep Hwb Hpw x wn rest Hnx Hcr Hwn Hfol Hrok)
      as (x1 & S' & k' & u' & E & Hi1 & Ha1 & Hset1).
    xfields Ha1.
    exists x1, S', k', u', (after_value_state ctx), fld, anns, ty, v.
    split; [|split; [exact Hi1|split; [exact Ha1|split; [apply avs_not_done|split; [destruct u'; reflexivity|exact Hset1]]]]].
    pose proof (steps_head x x1 E Ferr) as Hh. rewrite Ffield, Fannots, Ftype in Hh.
    cbn [prog etr tr_tval].
    destruct (aval_value2 pd pt lst ctx [] text fol anns ty v Hav) as [[-> Hty]|[t Ht]].
    + assert (Hnn : x_is_null x1 = true).
      { unfold x_is_null. rewrite Fvalue, Ftype. destruct (N.eqb_spec ty 0); [contradiction|reflexivity]. }
      rewrite Hnn in Hh. cbn [acc_ops]. rewrite app_nil_r. exact Hh.
    + assert (Hnn : x_is_null x1 = false).
      { unfold x_is_null. rewrite Fvalue. destruct v; cbn in Ht; try discriminate; now rewrite andb_false_r. }
      rewrite Hnn in Hh. destruct (acc_op x1 ty v t Ferr Ftype Fvalue Ht) as (o & Eo & Ro). rewrite Eo, Ht.
      replace (match v with XNil => tr_head fld anns ty true | _ => tr_head fld anns ty false ++ [t] end)
        with (tr_head fld anns ty false ++ [t]) by (destruct v; try reflexivity; discriminate Ht).
      eapply steps_app; [exact Hh|]. now apply steps_op.
  - (* a container *)
    intros ctx otext anns tok w0 body items Hao Hw0 Hb123 Hcs IHseq p Hpok pre st fld n wb Hsep Hwb Hpw x
           wn rest Hnx Hcr Hwn Hfol Hrok.
    destruct (next_container pd pt lst ctx otext anns tok w0 body items Hao Hw0 Hb123 Hcs
                pre st fld n wb Hsep Hwb Hpw x wn rest Hnx Hcr Hwn)
      as (x1 & r & E & Hi1 & Ha1 & Her).
    xfields Ha1.
    assert (Hcr' := Hcr). apply no_cr_app in Hcr' as [Hcp Hcr']. apply no_cr_app in Hcr' as [Hcb Hcr'].
    apply no_cr_app in Hcr' as [Hct Hcn]. apply no_cr_app in Hct as [Hco Hct]. apply no_cr_app in Hct as [Hcw0 Hcbody].
    pose proof (steps_head x x1 E Ferr) as Hh. rewrite Ffield, Fannots, Ftype in Hh.
    assert (Hnn : x_is_null x1 = false) by (unfold x_is_null; rewrite Fvalue; now rewrite andb_false_r).
    rewrite Hnn in Hh.
    destruct p as [|ps fin].
    + (* not entered: the skipper will run at the next call *)
      exists x1, r, tok, true, trsBeforeContainer, fld, anns, (open_type tok), XContainer.
      split; [exact Hh|]. split; [exact Hi1|]. split; [exact Ha1|]. split; [discriminate|]. split; [reflexivity|].
      apply (skip_value pd pt lst ctx otext anns tok w0 body items Hao Hw0 Hcs r wn rest Hwn); auto.
      apply no_cr_app. split; [exact Hcw0|]. apply no_cr_app. auto.
    + (* entered *)
      rewrite plan_ok_enter in Hpok. rewrite prog_enter, etr_enter.
      assert (Hty : open_type tok = TList \/ open_type tok = TSexp \/ open_type tok = TStruct).
      { unfold open_type. destruct (tok =? tokenOpenBracket)%N; [now left|]. destruct (tok =? tokenOpenParen)%N; [right; now left|right; now right]. }
      destruct (rrun_step_in r tok true ctx lst fld anns (open_type tok) Hty x1 Hi1 Ha1) as (x2 & Es & Hi2 & Ha2).
      pose proof (aopen_tok lst _ _ _ _ _ Hao) as Htokc.
      assert (Hctx : ctype_of (open_type tok) = open_ctype tok /\
                     (match open_ctype tok with CStruct => trsBeforeFieldName | _ => BTA end) = first_state tok).
      { destruct Htokc as [->|[->| ->]]; split; reflexivity. }
      destruct Hctx as [Hc1 Hc2]. rewrite Hc1, Hc2 in Ha2.
      destruct (IHseq ps fin Hpok (open_ctype tok) ctx eq_refl x2 r tok false (first_state tok) None [] 0%N XNil (wn ++ rest)
                  Hi2 Ha2) as (x3 & S3 & k3 & Hst3 & Hi3 & Ha3 & He3).
      { unfold first_state, trsBeforeFieldName, BTA. destruct (tok =? tokenOpenBrace)%N; discriminate. }
      { reflexivity. }
      { apply (settled_false _ _ _ w0); auto. }
      { exact Hcbody. }
      exists x3, S3, k3, false, (after_value_state ctx), None, [], 0%N, XNil.
      split; [|split; [exact Hi3|split; [exact Ha3|split; [apply avs_not_done|split; [reflexivity|]]]]].
      * eapply steps_app; [exact Hh|]. apply (steps_app x1 [OStepIn] [s "ok"%string] x2); [|exact Hst3].
        apply steps_op. unfold x_op_res. rewrite Es. reflexivity.
      * left. apply (settled_false _ _ rest wn); auto.
  - (* the closing bracket *)
    intros ctx st pre tok n Hcl ps fin Hpok c ctx' Ectx x S0 k u st0 fld0 ann0 ty0 v0 outer Hi Ha Hnd0 Hq Hset Hcr.
    destruct ps as [|q ps']; [|rewrite plans_ok_over in Hpok; contradiction]. cbn [progs etrs app].
    destruct fin.
    + (* one more Next, which reports the end, then StepOut *)
      destruct (close_facts pd pt _ _ _ _ _ Hcl) as (Hn & Hnd & _).
      destruct (x_next_at_rest pd pt lst x S0 k u st0 ctx fld0 ann0 ty0 v0 (pre ++ outer) false
                  (fun X2 => exists S2 st', X2 = mkax S2 tok false st' ctx true false lst None [] 0%N XNil /\ ends S2 outer)
                  Hi Ha Hnd0 Hset) as (x1 & E & Hi1 & HP).
      { intros S1 w1 kk fuel Hw1 Hcr1 He1 Hlen. rewrite Hq.
        destruct (ends_split S1 _ _ He1) as (Sa & -> & Hea). destruct (ends_split Sa _ _ Hea) as (S2 & -> & He2).
        rewrite !app_length in Hlen.
        destruct (close_loop pd pt lst ctx st pre tok n Hcl w1 S2 k (kk - n) fuel Hw1) as (st' & R).
        { apply no_cr_app. auto. }
        exists (mkax S2 tok false st' ctx true false lst None [] 0%N XNil). split; [|eauto].
        replace (S kk) with (n + S (kk - n))%nat by lia. exact R. }
      destruct HP as (S2 & st' & Ha1 & He2). subst ctx.
      destruct (rrun_step_out S2 tok st' c ctx' lst None [] 0%N XNil x1 Hi1 Ha1) as (x2 & Es & Hi2 & Ha2).
      exists x2, S2, tok. split; [|auto].
      apply (steps_app x [ONext] [[70%N]] x1 [OStepOut] [s "ok"%string] x2).
      * apply steps_op. exact (x_op_res_next x x1 false E).
      * apply steps_op. unfold x_op_res. rewrite Es. reflexivity.
    + (* StepOut at once: the skipper runs over the closing bracket *)
      subst ctx.
      destruct (step_out_early pd pt lst c ctx' st pre [] (cs2_close pd pt lst _ _ _ _ _ Hcl)
                  x S0 k u st0 fld0 ann0 ty0 v0 outer Hi Ha Hset Hcr) as (x' & S' & k' & Es & Hi' & Ha' & He').
      exists x', S', k'. split; [|auto]. apply steps_op. unfold x_op_res. rewrite Es. reflexivity.
  - (* a member, then the rest *)
    intros ctx st pre fld n wb text fol tv wn rest items Hsep Hwb Hpw Htv IHv Hwn Hfol Hcs IHs
           ps fin Hpok c ctx' Ectx x S0 k u st0 fld0 ann0 ty0 v0 outer Hi Ha Hnd0 Hq Hset Hcr.
    destruct ps as [|q ps'].
    + (* StepOut in front of this member *)
      rewrite plans_ok_stop in Hpok. subst fin. cbn [progs etrs app]. subst ctx.
      destruct (step_out_early pd pt lst c ctx' st _ _
                  (cs2_item pd pt lst _ _ _ _ _ _ _ _ _ _ _ _ Hsep Hwb Hpw Htv Hwn Hfol Hcs)
                  x S0 k u st0 fld0 ann0 ty0 v0 outer Hi Ha Hset Hcr) as (x' & S' & k' & Es & Hi' & Ha' & He').
      exists x', S', k'. split; [|auto]. apply steps_op. unfold x_op_res. rewrite Es. reflexivity.
    + rewrite plans_ok_cons in Hpok. destruct Hpok as [Hq1 Hq2]. cbn [progs etrs].
      destruct (cseq_first2 pd pt lst _ _ _ _ Hcs) as [_ Hro]. specialize (Hro outer).
      assert (Hcr' := Hcr). apply no_cr_app in Hcr' as [Hcp Hcr']. apply no_cr_app in Hcr' as [Hcb Hcr'].
      apply no_cr_app in Hcr' as [Hct Hcr']. apply no_cr_app in Hcr' as [Hcn Hcrest].
      destruct (IHv q Hq1 pre st fld n wb Hsep Hwb Hpw x wn (rest ++ outer))
        as (x1 & S1 & k1 & u1 & st1 & fld1 & ann1 & ty1 & v1 & Hst1 & Hi1 & Ha1 & Hnd1 & Hq1' & Hset1).
      { rewrite <- !app_assoc in Hset. rewrite <- Hq.
        apply (nextable_at_rest pd pt lst x S0 k u st0 ctx fld0 ann0 ty0 v0); auto. }
      { repeat (apply no_cr_app; split); auto. }
      { exact Hwn. }
      { apply Hfol. }
      { now apply startok_rest_ok. }
      apply (settled_w_startok _ _ _ _ Hro) in Hset1.
      destruct (IHs ps' fin Hq2 c ctx' Ectx x1 S1 k1 u1 st1 fld1 ann1 ty1 v1 outer Hi1 Ha1 Hnd1 Hq1' Hset1 Hcrest)
        as (x2 & S2 & k2 & Hst2 & Hi2 & Ha2 & He2).
      exists x2, S2, k2. split; [|auto]. rewrite <- !app_assoc. eapply steps_app; [exact Hst1|]. exact Hst2.
Qed.

(* ---- top-level streams ------------------------------------------------------------------------------------------------------------ *)
Lemma topready_at_rest x S' k' u' st' fld ann ty v rest :
  xok x -> xabs x = mkax S' k' u' st' [] false false lst fld ann ty v -> st' <> trsDone ->
  loop_state u' st' [] = BTA -> settled_w S' k' u' rest -> topready pd pt lst x rest.
Proof.
  intros Hi Ha Hnd Hq [Hset|[He Hset]]; [left|right; split; [exact He|]]; rewrite <- Hq;
    apply (nextable_at_rest pd pt lst x S' k' u' st' [] fld ann ty v); auto.
Qed.

Lemma nav_tops : forall text tvs, tops_spell2 pd pt lst text tvs -> no_cr text -> lst = LSys ->
  forall qs, top_ok tvs qs -> forall x, topready pd pt lst x text ->
  exists x', steps x (top_prog tvs qs) (top_etr tvs qs) x' /\
             (length qs = length tvs -> exists x'', x_next pd pt x' = (x'', Ok false)).
Proof.
  induction 1 as [|body Hb|text fol tv wn rest tvs Htv Hwn Hfol Hvs IH|wn rest tvs Hwn Hfi Hst Hvs IH];
    intros Hcr Hl qs Hok x Hrd.
  - destruct qs as [|q qs]; [|contradiction]. exists x. split; [apply steps_nil|]. intros _.
    assert (Hnx : nextable pd pt lst x BTA [] []) by (destruct Hrd as [H|[_ H]]; exact H).
    destruct (top_eof_n pd pt lst x Hnx) as (x' & E & _). eauto.
  - destruct qs as [|q qs]; [|contradiction]. exists x. split; [apply steps_nil|]. intros _.
    destruct Hrd as [Hnx|[_ Hnx]].
    + destruct (top_eof_eofc_n pd pt lst x body Hb Hnx) as (x' & E & _). eauto.
    + destruct (top_eof_n pd pt lst x Hnx) as (x' & E & _). eauto.
  - destruct qs as [|q qs]; [exists x; split; [apply steps_nil|discriminate]|].
    cbn [top_ok] in Hok. destruct Hok as [Hq1 Hq2]. cbn [top_prog top_etr].
    destruct (vals_no_cr_split _ _ _ Hcr) as [Hcr1 Hcr2].
    pose proof (tops_first2 pd pt lst rest tvs Hvs) as Hrok.
    destruct (tspell_first2 pd pt lst [] text fol tv Htv) as [_ Hst]. specialize (Hst wn rest Hfol).
    assert (Hnx : nextable pd pt lst x BTA [] (text ++ wn ++ rest)).
    { destruct Hrd as [H|[H _]]; [exact H|]. now apply startok_not_eofc in H. }
    destruct (proj1 nav_tree [] text fol tv Htv q Hq1 [] BTA None 0%nat [] (sep2_none lst []) ws_nil (fun _ => eq_refl)
                x wn rest Hnx Hcr1 Hwn Hfol Hrok)
      as (x1 & S' & k' & u' & st' & fld' & ann' & ty' & v' & Hst1 & Hi1 & Ha1 & Hnd1 & Hq1' & Hset1).
    destruct (IH Hcr2 Hl qs Hq2 x1 (topready_at_rest x1 S' k' u' st' fld' ann' ty' v' rest Hi1 Ha1 Hnd1 Hq1' Hset1))
      as (x' & Hst' & Hend).
    exists x'. split; [eapply steps_app; eauto|]. cbn [length]. intros Hlen. apply Hend. lia.
  - apply no_cr_app in Hcr as [_ Hcr]. apply no_cr_app in Hcr as [Hcrn Hcr2].
    assert (Hnx : nextable pd pt lst x BTA [] (ivm_text ++ wn ++ rest)).
    { destruct Hrd as [H|[H _]]; [exact H|]. now apply (startok_not_eofc _ (ivm_startok (wn ++ rest))) in H. }
    assert (Hdc : dcolon (zs rest) = false).
    { destruct (tops_first2 pd pt lst rest tvs Hvs) as [[_ H]|[_ (body & -> & _)]]; [exact H|discriminate Hst]. }
    apply (IH Hcr2 Hl qs Hok x). left. now apply (nextable_ivm pd pt lst x wn rest).
Qed.

Lemma nav_init inp w0 text tvs qs :
  norm inp = w0 ++ text -> ws_run w0 -> tops_spell2 pd pt lst text tvs -> lst = LSys -> top_ok tvs qs ->
  exists x', steps (x_init inp false) (top_prog tvs qs) (top_etr tvs qs) x' /\
             (length qs = length tvs -> exists x'', x_next pd pt x' = (x'', Ok false)).
Proof.
  intros Hn Hw0 Hvs Hl Hok.
  pose proof (norm_no_cr inp) as Hcr. rewrite Hn in Hcr. apply no_cr_app in Hcr as [Hcr0 Hcrt].
  assert (Hi : xok (x_init inp false)) by reflexivity.
  assert (Ha : xabs (x_init inp false)
               = mkax (zs (norm inp)) tokenError false BTA [] false false lst None [] 0%N XNil) by (rewrite Hl; reflexivity).
  assert (Hset : settled_w (zs (norm inp)) tokenError false text).
  { left. apply (settled_false _ _ text w0); auto. rewrite Hn. exists []. split; [constructor|now rewrite app_nil_r]. }
  exact (nav_tops text tvs Hvs Hcrt Hl qs Hok (x_init inp false) (topready_settled pd pt lst _ _ _ _ _ _ _ _ _ Hi Ha Hset)).
Qed.

Theorem nav_stream inp w0 text tvs qs :
  norm inp = w0 ++ text -> ws_run w0 -> tops_spell2 pd pt lst text tvs -> lst = LSys -> top_ok tvs qs ->
  snd (x_run pd pt (x_init inp false) (top_prog tvs qs) []) = top_etr tvs qs.
Proof.
  intros Hn Hw0 Hvs Hl Hok. destruct (nav_init inp w0 text tvs qs Hn Hw0 Hvs Hl Hok) as (x' & Hst & _).
  rewrite (steps_run _ _ _ _ Hst). reflexivity.
Qed.
(* a plan for every top-level value, and one more Next: it reports the end of the stream *)
Theorem nav_stream_end inp w0 text tvs qs :
  norm inp = w0 ++ text -> ws_run w0 -> tops_spell2 pd pt lst text tvs -> lst = LSys -> top_ok tvs qs ->
  length qs = length tvs ->
  snd (x_run pd pt (x_init inp false) (top_prog tvs qs ++ [ONext]) []) = top_etr tvs qs ++ [[70%N]].
Proof.
  intros Hn Hw0 Hvs Hl Hok Hlen. destruct (nav_init inp w0 text tvs qs Hn Hw0 Hvs Hl Hok) as (x' & Hst & Hend).
  destruct (Hend Hlen) as (x'' & E).
  rewrite (steps_run _ _ _ x'' (steps_app _ _ _ _ [ONext] [[70%N]] x'' Hst (steps_op _ _ _ _ (x_op_res_next x' x'' false E)))).
  reflexivity.
Qed.
End NavP.

Theorem nav_stream_text inp w0 text tvs qs :
  norm inp = w0 ++ text -> ws_run w0 -> tops_spell2 parse_decimal_text parse_ts_text LSys text tvs -> top_ok tvs qs ->
  snd (x_run parse_decimal_text parse_ts_text (x_init inp false) (top_prog tvs qs) []) = top_etr tvs qs.
Proof. intros Hn Hw Hv Hok. exact (nav_stream parse_decimal_text parse_ts_text LSys inp w0 text tvs qs Hn Hw Hv eq_refl Hok). Qed.
Theorem nav_stream_end_text inp w0 text tvs qs :
  norm inp = w0 ++ text -> ws_run w0 -> tops_spell2 parse_decimal_text parse_ts_text LSys text tvs -> top_ok tvs qs ->
  length qs = length tvs ->
  snd (x_run parse_decimal_text parse_ts_text (x_init inp false) (top_prog tvs qs ++ [ONext]) []) = top_etr tvs qs ++ [[70%N]].
Proof. intros Hn Hw Hv Hok Hl. exact (nav_stream_end parse_decimal_text parse_ts_text LSys inp w0 text tvs qs Hn Hw Hv eq_refl Hok Hl). Qed.

(* the plan of the plain full traversal projects nothing away *)
Lemma etr_full : forall tv fld, etr fld tv (full_plan tv) = tr_tval fld tv.
Proof.
  fix IH 1. intros [anns ty v|anns ty items] fld.
  - reflexivity.
  - cbn [full_plan]. rewrite etr_enter. cbn [tr_tval].
    assert (H : etrs items (map (fun it => full_plan (snd it)) items) = flat_map (fun '(f, x) => tr_tval f x) items).
    { induction items as [|[f t] its IHits]; [reflexivity|]. cbn [map etrs flat_map snd]. rewrite IH, IHits. reflexivity. }
    rewrite H. reflexivity.
Qed.
Lemma plan_ok_full : forall tv, plan_ok tv (full_plan tv).
Proof.
  fix IH 1. intros [anns ty v|anns ty items].
  - exact I.
  - cbn [full_plan]. rewrite plan_ok_enter.
    induction items as [|[f t] its IHits]; [exact I|]. cbn [map snd]. rewrite plans_ok_cons. split; [apply IH|exact IHits].
Qed.

(* ---- (4) calls the reader refuses leave its state alone ------------------------------------------------------------------------ *)
Lemma step_in_refused x : x_state x <> trsBeforeContainer -> x_step_in x = (x, Ok false).
Proof.
  intros H. unfold x_step_in. destruct (x_err x); [reflexivity|].
  destruct (N.eqb_spec (x_state x) trsBeforeContainer); [contradiction|reflexivity].
Qed.
Lemma step_out_refused x : x_ctx x = [] -> x_step_out x = (x, Ok false).
Proof. intros H. unfold x_step_out. destruct (x_err x); [reflexivity|]. rewrite H. reflexivity. Qed.
Lemma accessor_keeps_state pd pt x o : o <> ONext -> o <> OStepIn -> o <> OStepOut -> fst (x_op_res pd pt x o) = x.
Proof.
  intros H1 H2 H3. destruct o; try (now elim H1); try (now elim H2); try (now elim H3); unfold x_op_res;
    repeat match goal with |- context [if ?b then _ else _] => destruct b end; try reflexivity;
    destruct (x_value x); try reflexivity;
    repeat match goal with |- context [if ?b then _ else _] => destruct b end; reflexivity.
Qed.
