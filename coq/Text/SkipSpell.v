(* SkipSpell.v — C08 for text, stage 1: the skipper's second grammar (ion/skipper.go, Text/Skipper.v) over the
   spelling relations of C02.

   [skip_container_loop] looks at one character per round: whitespace and comments are skipped, a quote starts
   a string / quoted symbol / long string that is skipped by its own helper, `{{` starts a lob, an opening bracket
   pushes its closer, the current closer pops, and EVERY OTHER character is simply consumed.  So the loop never
   looks at numbers, timestamps, identifiers, operators, colons or commas as tokens.  This file proves, for the
   character classes and literal spellings of Text/Spell*.v, that the loop (resp. the helper) consumes exactly the
   spelling:
     [K f top terms T Tout]  "from any stream that spells a whitespace run and then T, the loop with fuel f, closer
                              top and pending closers terms succeeds and leaves a stream that spells Tout".
   Lemmas have the continuation form  K f .. T Tout -> K (n + f) .. (lit ++ T) Tout. *)
From Coq Require Import String List NArith ZArith Bool Lia ZifyBool ZifyN ZifyNat.
From IonV Require Import Base.Wire Base.Utf8 Data.Ion Text.Tokenizer Text.Skipper
  Text.SpellBase Text.SpellWs Text.SpellNum Text.SpellTok Text.SpellRead
  Text.SpellEsc Text.SpellStr Text.SpellLong Text.SpellIdent Text.SpellSym Text.SpellTs Text.SpellBlob
  Text.SpellVal Text.SpellSymVal Text.SpellStream.
Import ListNotations.
Open Scope Z_scope.

(* ---- one round of the loop, as a function of the character the whitespace skipper stopped on ------------------ *)
Definition sk_body (f : nat) (top : Z) (terms : list Z) (c : Z) : M unit :=
  if c =? -1 then fail
  else if c =? top then
    match terms with
    | [] => ret tt
    | t1 :: rest => skip_container_loop f t1 rest
    end
  else if c =? c_dquote then tdo _ <- skip_string_helper; skip_container_loop f top terms
  else if c =? c_quote then
    tdo ok <- t_is_triple_quote;
    tdo _ <- (if ok then skip_long_string_helper HSkipComments else skip_symbol_quoted_helper);
    skip_container_loop f top terms
  else if c =? c_lparen then skip_container_loop f c_rparen (top :: terms)
  else if c =? c_lbracket then skip_container_loop f c_rbracket (top :: terms)
  else if c =? c_lbrace then
    tdo c2 <- t_peek;
    if c2 =? c_lbrace then tdo _ <- t_read; tdo _ <- skip_blob_helper; skip_container_loop f top terms
    else if c2 =? c_rbrace then tdo _ <- t_read; skip_container_loop f top terms
    else skip_container_loop f c_rbrace (top :: terms)
  else skip_container_loop f top terms.
Lemma loop_unfold f top terms :
  skip_container_loop (S f) top terms = (tdo '(c, _) <- t_skip_whitespace; sk_body f top terms c).
Proof. reflexivity. Qed.

Definition closer (top : Z) : Prop := top = 41 \/ top = 93 \/ top = 125.

Definition K (f : nat) (top : Z) (terms : list Z) (T Tout : list N) : Prop :=
  forall w S, ws_run w -> no_cr w -> ends S (w ++ T) ->
  exists S', run (skip_container_loop f top terms) S tt S' /\ ends S' Tout.
(* what the loop does when it meets its closer *)
Definition Kpop (f : nat) (terms : list Z) (T Tout : list N) : Prop :=
  match terms with
  | [] => T = Tout
  | t1 :: rest => K f t1 rest T Tout
  end.

Lemma ends_split S1 a b : ends S1 (a ++ b) -> exists S2, S1 = zs a ++ S2 /\ ends S2 b.
Proof. exact (ends_app S1 a b). Qed.

(* whitespace in front is absorbed *)
Lemma K_ws f top terms wn T Tout : ws_run wn -> no_cr wn -> K f top terms T Tout -> K f top terms (wn ++ T) Tout.
Proof.
  intros Hwn Hcn HK w S Hw Hcr He. rewrite app_assoc in He. apply (HK (w ++ wn) S); auto.
  - now apply ws_run_app.
  - apply no_cr_app. auto.
Qed.

(* one round on a character that stops the whitespace skipper *)
Lemma K_round f top terms c T Tout :
  ws_stop (zs (c :: T)) = true ->
  (forall S2, ends S2 (c :: T) ->
     exists S', run (sk_body f top terms (Z.of_N c)) (after_stop S2) tt S' /\ ends S' Tout) ->
  K (S f) top terms (c :: T) Tout.
Proof.
  intros Hstop Hbody w S Hw Hcr He. destruct (ends_split S _ _ He) as (S2 & -> & He2).
  assert (Hs2 : ws_stop S2 = true) by (rewrite (ends_ws_stop _ _ He2); exact Hstop).
  destruct (Hbody S2 He2) as (S' & R & He'). exists S'. split; [|exact He'].
  rewrite loop_unfold. eapply run_bind; [apply (run_t_skip_whitespace w S2 Hw Hcr Hs2)|].
  cbv beta iota. rewrite (ends_shead_cons _ _ _ He2). exact R.
Qed.

(* a character the loop merely consumes *)
Definition pchar (c : N) : Prop :=
  is_whitespace (Z.of_N c) = false /\
  (c <> 34 /\ c <> 39 /\ c <> 40 /\ c <> 41 /\ c <> 47 /\ c <> 91 /\ c <> 93 /\ c <> 123 /\ c <> 125)%N.
Lemma sk_body_plain f top terms c : closer top ->
  (c <> 34 /\ c <> 39 /\ c <> 40 /\ c <> 41 /\ c <> 91 /\ c <> 93 /\ c <> 123 /\ c <> 125)%N ->
  sk_body f top terms (Z.of_N c) = skip_container_loop f top terms.
Proof.
  intros Ht Hc. unfold sk_body, c_dquote, c_quote, c_lparen, c_lbracket, c_lbrace.
  replace (Z.of_N c =? -1) with false by lia.
  replace (Z.of_N c =? top) with false by (unfold closer in Ht; lia).
  replace (Z.of_N c =? 34) with false by lia. replace (Z.of_N c =? 39) with false by lia.
  replace (Z.of_N c =? 40) with false by lia. replace (Z.of_N c =? 91) with false by lia.
  replace (Z.of_N c =? 123) with false by lia. reflexivity.
Qed.
Lemma ws_stop_plain c T : is_whitespace (Z.of_N c) = false -> c <> 47%N -> ws_stop (zs (c :: T)) = true.
Proof.
  intros Hw Hc. unfold ws_stop. cbn [zs map shead]. rewrite Hw. cbn [negb andb].
  replace (Z.of_N c =? c_slash) with false by (unfold c_slash; lia). reflexivity.
Qed.
Lemma K_pchar f top terms c T Tout : closer top -> pchar c ->
  K f top terms T Tout -> K (S f) top terms (c :: T) Tout.
Proof.
  intros Ht [Hw Hc] HK. apply K_round; [apply ws_stop_plain; [exact Hw|lia]|].
  intros S2 He2. rewrite sk_body_plain; [|exact Ht|lia].
  apply (HK [] (after_stop S2)); [constructor|constructor|]. cbn [app]. exact (ends_after_stop _ _ _ He2).
Qed.
Lemma K_plain f top terms lit T Tout : closer top -> Forall pchar lit ->
  K f top terms T Tout -> K (length lit + f) top terms (lit ++ T) Tout.
Proof.
  intros Ht Hl HK. induction Hl as [|c l Hc Hl IH]; [exact HK|]. cbn [length app Nat.add]. now apply K_pchar.
Qed.

(* a slash that opens no comment *)
Lemma K_slash f top terms T Tout : closer top ->
  shead (zs T) <> 47 -> shead (zs T) <> 42 ->
  K f top terms T Tout -> K (S f) top terms (47%N :: T) Tout.
Proof.
  intros Ht H1 H2 HK. apply K_round.
  - unfold ws_stop. cbn [zs map shead stail]. unfold c_slash, c_star. cbn [is_whitespace zmem existsb Z.eqb orb negb andb].
    fold (zs T). replace (shead (zs T) =? 47) with false by lia. replace (shead (zs T) =? 42) with false by lia. reflexivity.
  - intros S2 He2. rewrite sk_body_plain; [|exact Ht|lia].
    apply (HK [] (after_stop S2)); [constructor|constructor|]. cbn [app]. exact (ends_after_stop _ _ _ He2).
Qed.

(* operator characters *)
Lemma op_char_cases c : op_char c -> c = 47%N \/ pchar c.
Proof.
  unfold op_char. cbn [In]. intros H.
  repeat (destruct H as [H|H]; [subst c; first [left; reflexivity|right; split; [reflexivity|lia]]|]). contradiction.
Qed.
Lemma K_ops f top terms : closer top -> forall l T Tout,
  Forall op_char l -> no_comment_start l = true ->
  (last l 0%N = 47%N -> shead (zs T) <> 47 /\ shead (zs T) <> 42) ->
  K f top terms T Tout -> K (length l + f) top terms (l ++ T) Tout.
Proof.
  intros Ht l. induction l as [|c l IH]; intros T Tout Hl Hnc Hlast HK; [exact HK|].
  inversion Hl as [|? ? Hc Hl']; subst. cbn [no_comment_start] in Hnc. apply andb_true_iff in Hnc as [Hn1 Hn2].
  cbn [length app Nat.add].
  assert (HK' : K (length l + f) top terms (l ++ T) Tout).
  { apply IH; auto. intros Hl47. apply Hlast. destruct l; [discriminate Hl47|exact Hl47]. }
  destruct (op_char_cases c Hc) as [->|Hp]; [|now apply K_pchar].
  destruct l as [|c2 l2].
  - cbn [app] in *. destruct (Hlast eq_refl) as [H1 H2]. now apply K_slash.
  - cbn [app zs map shead] in *. change (47 =? 47)%N with true in Hn1. cbn [andb] in Hn1.
    apply K_slash; auto; cbn [zs map shead]; lia.
Qed.

(* ---- short strings, quoted symbols, short clob text: skipStringHelper / skipSymbolQuotedHelper -------------------- *)
(* what the helper can cross: any character but the quote, a backslash and a newline; a backslash and any character *)
Inductive qsk (q : N) : list N -> Prop :=
| qsk_nil : qsk q []
| qsk_raw c w : c <> q -> c <> 92%N -> c <> 10%N -> qsk q w -> qsk q (c :: w)
| qsk_esc c w : qsk q w -> qsk q (92%N :: c :: w).

Lemma run_skip_quoted q : (q = 34 \/ q = 39)%N -> forall w, qsk q w -> forall f s, (length w < f)%nat ->
  run (skip_quoted_helper f (Z.of_N q)) (zs w ++ Z.of_N q :: s) tt s.
Proof.
  intros Hq. induction 1 as [|c w H1 H2 H3 Hw IH|c w Hw IH]; intros f s Hf;
    (destruct f as [|f]; [cbn [length] in Hf; lia|]); cbn [skip_quoted_helper zs map app].
  - eapply run_bind; [apply run_read_cons|]. unfold c_nl.
    replace ((Z.of_N q =? -1) || (Z.of_N q =? 10)) with false by lia. rewrite Z.eqb_refl. apply run_ret.
  - eapply run_bind; [apply run_read_cons|]. unfold c_nl, c_bslash.
    replace ((Z.of_N c =? -1) || (Z.of_N c =? 10)) with false by lia.
    replace (Z.of_N c =? Z.of_N q) with false by lia. replace (Z.of_N c =? 92) with false by lia.
    apply IH. cbn [length] in Hf. lia.
  - eapply run_bind; [apply run_read_cons|]. unfold c_nl, c_bslash.
    change ((Z.of_N 92 =? -1) || (Z.of_N 92 =? 10)) with false.
    replace (Z.of_N 92 =? Z.of_N q) with false by lia. change (Z.of_N 92 =? 92) with true. cbv iota.
    eapply run_bind; [apply run_read_cons|]. apply IH. cbn [length] in Hf. lia.
Qed.

Lemma qsk_app_raw q h w : Forall (fun c => c <> q /\ c <> 92%N /\ c <> 10%N) h -> qsk q w -> qsk q (h ++ w).
Proof. induction 1 as [|c h (H1 & H2 & H3) Hh IH]; intros Hw; cbn [app]; [exact Hw|]. apply qsk_raw; auto. Qed.
Lemma hexval_raw q c d : (q = 34 \/ q = 39)%N -> hexval c = Some d -> c <> q /\ c <> 92%N /\ c <> 10%N.
Proof.
  unfold hexval. intros Hq H.
  destruct ((48 <=? c)%N && (c <=? 57)%N) eqn:E1; [lia|].
  destruct ((97 <=? c)%N && (c <=? 102)%N) eqn:E2; [lia|].
  destruct ((65 <=? c)%N && (c <=? 70)%N) eqn:E3; [lia|discriminate].
Qed.
Lemma hex_acc_raw q : (q = 34 \/ q = 39)%N -> forall l acc v, hex_acc acc l = Some v ->
  Forall (fun c => c <> q /\ c <> 92%N /\ c <> 10%N) l.
Proof.
  intros Hq. induction l as [|c l IH]; intros acc v H; cbn [hex_acc] in H; [constructor|].
  destruct (hexval c) as [d|] eqn:Ed; [|discriminate]. constructor; [eapply hexval_raw; eauto|eapply IH; exact H].
Qed.
Lemma hex_digits_raw q k l v : (q = 34 \/ q = 39)%N -> hex_digits k l v ->
  Forall (fun c => c <> q /\ c <> 92%N /\ c <> 10%N) l.
Proof. intros Hq [_ Hv]. eapply hex_acc_raw; eauto. Qed.
Lemma esc_qsk q e cp w : (q = 34 \/ q = 39)%N -> esc_spells e cp -> qsk q w -> qsk q (92%N :: e ++ w).
Proof.
  intros Hq He Hw.
  destruct He as [c cp Hc|h v Hh|h v Hh Hs|h1 hi h2 lo Hh1 Hhi Hh2 Hlo|h v Hh Hv Hs]; cbn [app].
  - now apply qsk_esc.
  - apply qsk_esc. apply qsk_app_raw; [eapply hex_digits_raw; eauto|exact Hw].
  - apply qsk_esc. apply qsk_app_raw; [eapply hex_digits_raw; eauto|exact Hw].
  - apply qsk_esc. rewrite <- app_assoc. apply qsk_app_raw; [eapply hex_digits_raw; eauto|]. cbn [app].
    apply qsk_esc. apply qsk_app_raw; [eapply hex_digits_raw; eauto|exact Hw].
  - apply qsk_esc. apply qsk_app_raw; [eapply hex_digits_raw; eauto|exact Hw].
Qed.
Lemma qbody_qsk q : (q = 34 \/ q = 39)%N -> forall w t, qbody q w t -> no_cr w -> qsk q w.
Proof.
  intros Hq. induction 1 as [|c w t Hc Hw IH|e cp w t He Hw IH|nl w t Hn Hw IH]; intros Hcr.
  - constructor.
  - apply no_cr_cons in Hcr as [_ Hcr]. destruct Hc as (H1 & H2 & H3 & _). apply qsk_raw; auto.
  - apply no_cr_cons in Hcr as [_ Hcr]. apply no_cr_app in Hcr as [_ Hcr]. apply (esc_qsk q e cp); auto.
  - apply no_cr_cons in Hcr as [_ Hcr]. apply no_cr_app in Hcr as [Hcn Hcr].
    rewrite (line_cont_no_cr nl Hn Hcn). cbn [app]. apply qsk_esc. auto.
Qed.
Lemma cbody_qsk : forall w t, cbody w t -> no_cr w -> qsk 34 w.
Proof.
  induction 1 as [|c w t Hc Hw IH|e cp w t He Hw IH|nl w t Hn Hw IH]; intros Hcr.
  - constructor.
  - apply no_cr_cons in Hcr as [_ Hcr]. destruct Hc as (H1 & H2 & H3). apply qsk_raw; auto. unfold str_ws in H3. lia.
  - apply no_cr_cons in Hcr as [_ Hcr]. apply no_cr_app in Hcr as [_ Hcr]. apply (esc_qsk 34 e cp); auto.
    now apply esc_clob_text.
  - apply no_cr_cons in Hcr as [_ Hcr]. apply no_cr_app in Hcr as [Hcn Hcr].
    rewrite (line_cont_no_cr nl Hn Hcn). cbn [app]. apply qsk_esc. auto.
Qed.

Lemma run_skip_string_helper w s : qsk 34 w -> run skip_string_helper (zs w ++ 34 :: s) tt s.
Proof.
  intros Hw. unfold skip_string_helper. apply run_with_fuel. intros f Hf. rewrite nne_app, nne_zs in Hf.
  apply (run_skip_quoted 34 (or_introl eq_refl) w Hw f s). lia.
Qed.
Lemma run_skip_symbol_quoted_helper w s : qsk 39 w -> run skip_symbol_quoted_helper (zs w ++ 39 :: s) tt s.
Proof.
  intros Hw. unfold skip_symbol_quoted_helper. apply run_with_fuel. intros f Hf. rewrite nne_app, nne_zs in Hf.
  apply (run_skip_quoted 39 (or_intror eq_refl) w Hw f s). lia.
Qed.

(* a short string in the loop *)
Lemma K_string f top terms body T Tout : closer top -> qsk 34 body ->
  K f top terms T Tout -> K (S f) top terms (34%N :: body ++ 34%N :: T) Tout.
Proof.
  intros Ht Hb HK. apply K_round; [apply ws_stop_plain; [reflexivity|discriminate]|].
  intros S2 He2. apply ends_stail_cons in He2 as He3.
  unfold after_stop. rewrite (ends_shead_cons _ _ _ He2). change (Z.of_N 34 =? c_slash) with false. cbv iota.
  destruct (ends_split _ _ _ He3) as (S3 & E3 & He4). rewrite E3.
  destruct (ends_cons _ _ _ He4) as [E4 He5]. rewrite E4.
  destruct (HK [] (stail S3)) as (S' & R & He'); [constructor|constructor|exact He5|].
  exists S'. split; [|exact He'].
  unfold sk_body. unfold closer in Ht. replace (Z.of_N 34 =? -1) with false by reflexivity.
  replace (Z.of_N 34 =? top) with false by lia. change (Z.of_N 34 =? c_dquote) with true. cbv iota.
  eapply run_bind; [apply (run_skip_string_helper body (stail S3) Hb)|]. exact R.
Qed.
(* a quoted symbol in the loop; an empty one must not be followed by a quote *)
Lemma K_qsym f top terms body T Tout : closer top -> qsk 39 body ->
  (body = [] -> shead (zs T) <> 39) ->
  K f top terms T Tout -> K (S f) top terms (39%N :: body ++ 39%N :: T) Tout.
Proof.
  intros Ht Hb Hq HK. apply K_round; [apply ws_stop_plain; [reflexivity|discriminate]|].
  intros S2 He2. apply ends_stail_cons in He2 as He3.
  unfold after_stop. rewrite (ends_shead_cons _ _ _ He2). change (Z.of_N 39 =? c_slash) with false. cbv iota.
  destruct (ends_split _ _ _ He3) as (S3 & E3 & He4). rewrite E3.
  destruct (ends_cons _ _ _ He4) as [E4 He5]. rewrite E4. set (S4 := stail S3) in *.
  assert (Htr : triple (zs body ++ Z.of_N 39 :: S4) = false).
  { unfold triple. destruct Hb as [|c w H1 H2 H3 Hw|c w Hw]; cbn [zs map app shead stail].
    - rewrite (ends_shead _ _ He5). specialize (Hq eq_refl). change (Z.of_N 39) with 39.
      replace (shead (zs T) =? 39) with false by lia. apply andb_false_r.
    - replace (Z.of_N c =? 39) with false by lia. reflexivity.
    - reflexivity. }
  set (S5 := pks (2 - length (body ++ [39%N])) S4).
  assert (He6 : ends S5 T) by (apply pks_ends; exact He5).
  destruct (HK [] S5) as (S' & R & He'); [constructor|constructor|exact He6|].
  exists S'. split; [|exact He'].
  unfold sk_body. unfold closer in Ht. replace (Z.of_N 39 =? -1) with false by reflexivity.
  replace (Z.of_N 39 =? top) with false by lia. change (Z.of_N 39 =? c_dquote) with false.
  change (Z.of_N 39 =? c_quote) with true. cbv iota.
  eapply run_bind; [apply run_is_triple_quote|]. rewrite Htr. cbv iota.
  rewrite peek2_pks.
  replace (zs body ++ Z.of_N 39 :: S4) with (zs (body ++ [39%N]) ++ S4) by (rewrite zs_app, <- app_assoc; reflexivity).
  rewrite pks_zs_app. fold S5. rewrite zs_app, <- app_assoc. cbn [zs map app].
  eapply run_bind; [apply (run_skip_symbol_quoted_helper body S5 Hb)|]. exact R.
Qed.

(* ---- long strings and long clob text: skipLongStringHelper ------------------------------------------------------------ *)
(* what the helper can cross inside one segment: anything but a quote and a backslash; a backslash and any
   character; one or two quotes followed by something else *)
Inductive lsk : list N -> Prop :=
| lsk_nil : lsk []
| lsk_raw c w : c <> 39%N -> c <> 92%N -> lsk w -> lsk (c :: w)
| lsk_q w : nq w -> lsk w -> lsk (39%N :: w)
| lsk_qq w : nq w -> lsk w -> lsk (39%N :: 39%N :: w)
| lsk_esc c w : lsk w -> lsk (92%N :: c :: w).
(* segments separated by runs of [WS] *)
Inductive gsegs (WS : list N -> Prop) : list N -> Prop :=
| gs_last w : lsk w -> gsegs WS (w ++ q3)
| gs_more w ws rest : lsk w -> WS ws -> gsegs WS rest -> gsegs WS (w ++ q3 ++ ws ++ q3 ++ rest).

Lemma run_skip_long_quote f h a b r (x : unit) s' :
  0 <= a -> 0 <= b -> (a =? 39) && (b =? 39) = false ->
  run (skip_long_string_loop f h) (a :: b :: r) x s' ->
  run (skip_long_string_loop (S f) h) (39 :: a :: b :: r) x s'.
Proof.
  intros Ha Hb Hq Hk. cbn [skip_long_string_loop]. eapply run_bind; [apply run_read_cons|].
  change (39 =? -1) with false. change (39 =? c_quote) with true. cbv iota.
  eapply run_bind; [apply (run_skip_end_not h a b r Ha Hb Hq)|]. cbv iota. exact Hk.
Qed.
Lemma run_skip_long_body h : forall w, lsk w -> forall f s (x : unit) s',
  (length w <= f)%nat ->
  (forall f', (f - length w <= f')%nat -> run (skip_long_string_loop f' h) (39 :: 39 :: 39 :: s) x s') ->
  run (skip_long_string_loop f h) (zs w ++ 39 :: 39 :: 39 :: s) x s'.
Proof.
  induction 1 as [|c w H1 H2 Hw IH|w Hq Hw IH|w Hq Hw IH|c w Hw IH]; intros f s x s' Hf Hk.
  - cbn [zs map app length] in *. apply Hk. lia.
  - destruct f as [|f]; [cbn [length] in Hf; lia|]. cbn [skip_long_string_loop zs map app].
    eapply run_bind; [apply run_read_cons|]. unfold c_quote, c_bslash.
    replace (Z.of_N c =? -1) with false by lia. replace (Z.of_N c =? 39) with false by lia.
    replace (Z.of_N c =? 92) with false by lia.
    apply IH; [cbn [length] in Hf; lia|]. intros f' Hf'. apply Hk. cbn [length]. lia.
  - destruct w as [|c1 w']; [contradiction|]. cbn [nq] in Hq.
    destruct f as [|f]; [cbn [length] in Hf; lia|].
    destruct (zs_tail_cons w' 39 (39 :: 39 :: s) ltac:(lia)) as (b & r' & E & Hb).
    assert (Hgoal : run (skip_long_string_loop f h) (zs (c1 :: w') ++ 39 :: 39 :: 39 :: s) x s').
    { apply IH; [cbn [length] in Hf |- *; lia|]. intros f' Hf'. apply Hk. cbn [length] in Hf' |- *. lia. }
    cbn [zs map app] in Hgoal |- *. unfold zs in E. rewrite E in Hgoal |- *.
    apply run_skip_long_quote; auto; [lia|]. replace (Z.of_N c1 =? 39) with false by lia. reflexivity.
  - destruct w as [|c1 w']; [contradiction|]. cbn [nq] in Hq.
    destruct f as [|[|f]]; try (cbn [length] in Hf; lia).
    destruct (zs_tail_cons w' 39 (39 :: 39 :: s) ltac:(lia)) as (b & r' & E & Hb).
    assert (Hgoal : run (skip_long_string_loop f h) (zs (c1 :: w') ++ 39 :: 39 :: 39 :: s) x s').
    { apply IH; [cbn [length] in Hf |- *; lia|]. intros f' Hf'. apply Hk. cbn [length] in Hf' |- *. lia. }
    cbn [zs map app] in Hgoal |- *. unfold zs in E. rewrite E in Hgoal |- *.
    apply run_skip_long_quote; [lia|lia|replace (Z.of_N c1 =? 39) with false by lia; apply andb_false_r|].
    apply run_skip_long_quote; auto; [lia|]. replace (Z.of_N c1 =? 39) with false by lia. reflexivity.
  - destruct f as [|f]; [cbn [length] in Hf; lia|]. cbn [skip_long_string_loop zs map app].
    eapply run_bind; [apply run_read_cons|].
    change (Z.of_N 92 =? -1) with false. change (Z.of_N 92 =? c_quote) with false.
    change (Z.of_N 92 =? c_bslash) with true. cbv iota.
    eapply run_bind; [apply run_read_cons|].
    apply IH; [cbn [length] in Hf; lia|]. intros f' Hf'. apply Hk. cbn [length]. lia.
Qed.

Section Segs.
Variable h : handler.
Variable WS : list N -> Prop.
Variable STOP : list Z -> bool.
Variable LE : list Z -> list Z.
Hypothesis Hend : forall ws s, WS ws -> no_cr ws -> STOP s = true ->
  run (t_skip_end_of_long_string h) (39 :: 39 :: zs ws ++ s) (negb (starts3 s), true)
      (if starts3 s then stail (stail (stail s)) else LE s).
Hypothesis STOP3 : forall s, starts3 s = true -> STOP s = true.

Lemma run_skip_long_segs : forall w, gsegs WS w -> forall f ws s,
  no_cr w -> WS ws -> no_cr ws -> STOP s = true -> starts3 s = false -> (length w <= f)%nat ->
  run (skip_long_string_loop f h) (zs w ++ zs ws ++ s) tt (LE s).
Proof.
  induction 1 as [w Hb|w ws0 rest Hb Hws0 Hrest IH]; intros f ws s Hcr Hws Hcrw Hs H3 Hf.
  - apply no_cr_app in Hcr as [Hcr _].
    unfold q3 in *. rewrite zs_app, <- app_assoc. cbn [zs map app].
    rewrite app_length in Hf. cbn [length] in Hf.
    apply run_skip_long_body; auto; [lia|]. intros f' Hf'.
    destruct f' as [|f']; [lia|]. cbn [skip_long_string_loop].
    eapply run_bind; [apply run_read_cons|].
    change (39 =? -1) with false. change (39 =? c_quote) with true. cbv iota.
    eapply run_bind; [apply (Hend ws s Hws Hcrw Hs)|]. rewrite H3. cbn [negb]. cbv iota. apply run_ret.
  - apply no_cr_app in Hcr as [Hcr Hcr2]. apply no_cr_app in Hcr2 as [_ Hcr2].
    apply no_cr_app in Hcr2 as [Hcr0 Hcr2]. apply no_cr_app in Hcr2 as [_ Hcr2].
    rewrite !app_length in Hf. unfold q3 in *. cbn [length] in Hf.
    rewrite !zs_app, <- !app_assoc. cbn [zs map app].
    apply run_skip_long_body; auto; [lia|]. intros f' Hf'.
    destruct f' as [|f']; [lia|]. cbn [skip_long_string_loop].
    eapply run_bind; [apply run_read_cons|].
    change (39 =? -1) with false. change (39 =? c_quote) with true. cbv iota.
    eapply run_bind; [apply (Hend ws0 (39 :: 39 :: 39 :: zs rest ++ zs ws ++ s) Hws0 Hcr0); apply STOP3; reflexivity|].
    change (starts3 (39 :: 39 :: 39 :: zs rest ++ zs ws ++ s)) with true. cbn [negb stail]. cbv iota.
    apply IH; auto. lia.
Qed.
End Segs.

Lemma lsk_app_raw h w : Forall (fun c => c <> 39%N /\ c <> 92%N /\ c <> 10%N) h -> lsk w -> lsk (h ++ w).
Proof. induction 1 as [|c h' (H1 & H2 & H3) Hh IH]; intros Hw; cbn [app]; [exact Hw|]. apply lsk_raw; auto. Qed.
Lemma esc_lsk e cp w : esc_spells e cp -> lsk w -> lsk (92%N :: e ++ w).
Proof.
  intros He Hw. assert (Hq : (39 = 34 \/ 39 = 39)%N) by now right.
  destruct He as [c cp Hc|h v Hh|h v Hh Hs|h1 hi h2 lo Hh1 Hhi Hh2 Hlo|h v Hh Hv Hs]; cbn [app].
  - now apply lsk_esc.
  - apply lsk_esc. apply lsk_app_raw; [eapply hex_digits_raw; eauto|exact Hw].
  - apply lsk_esc. apply lsk_app_raw; [eapply hex_digits_raw; eauto|exact Hw].
  - apply lsk_esc. rewrite <- app_assoc. apply lsk_app_raw; [eapply hex_digits_raw; eauto|]. cbn [app].
    apply lsk_esc. apply lsk_app_raw; [eapply hex_digits_raw; eauto|exact Hw].
  - apply lsk_esc. apply lsk_app_raw; [eapply hex_digits_raw; eauto|exact Hw].
Qed.
Lemma lbody_lsk : forall w t, lbody w t -> no_cr w -> lsk w.
Proof.
  induction 1 as [|c w t Hc Hw IH|nl w t Hn Hok Hw IH|w t Hq Hw IH|w t Hq Hw IH|e cp w t He Hw IH|nl w t Hn Hok Hw IH];
    intros Hcr.
  - constructor.
  - apply no_cr_cons in Hcr as [_ Hcr]. destruct Hc as (H1 & H2 & _). apply lsk_raw; auto.
  - apply no_cr_app in Hcr as [Hcn Hcr]. rewrite (line_cont_no_cr nl Hn Hcn). cbn [app].
    apply lsk_raw; [discriminate|discriminate|auto].
  - apply no_cr_cons in Hcr as [_ Hcr]. apply lsk_q; auto.
  - apply no_cr_cons in Hcr as [_ Hcr]. apply no_cr_cons in Hcr as [_ Hcr]. apply lsk_qq; auto.
  - apply no_cr_cons in Hcr as [_ Hcr]. apply no_cr_app in Hcr as [_ Hcr]. apply (esc_lsk e cp); auto.
  - apply no_cr_cons in Hcr as [_ Hcr]. apply no_cr_app in Hcr as [Hcn Hcr].
    rewrite (line_cont_no_cr nl Hn Hcn). cbn [app]. apply lsk_esc. auto.
Qed.
Lemma lcbody_lsk : forall w t, lcbody w t -> no_cr w -> lsk w.
Proof.
  induction 1 as [|c w t Hc Hw IH|nl w t Hn Hok Hw IH|w t Hq Hw IH|w t Hq Hw IH|e cp w t He Hw IH|nl w t Hn Hok Hw IH];
    intros Hcr.
  - constructor.
  - apply no_cr_cons in Hcr as [_ Hcr]. destruct Hc as (H1 & H2 & _). apply lsk_raw; auto.
  - apply no_cr_app in Hcr as [Hcn Hcr]. rewrite (line_cont_no_cr nl Hn Hcn). cbn [app].
    apply lsk_raw; [discriminate|discriminate|auto].
  - apply no_cr_cons in Hcr as [_ Hcr]. apply lsk_q; auto.
  - apply no_cr_cons in Hcr as [_ Hcr]. apply no_cr_cons in Hcr as [_ Hcr]. apply lsk_qq; auto.
  - apply no_cr_cons in Hcr as [_ Hcr]. apply no_cr_app in Hcr as [_ Hcr]. apply (esc_lsk e cp); auto.
    now apply esc_clob_text.
  - apply no_cr_cons in Hcr as [_ Hcr]. apply no_cr_app in Hcr as [Hcn Hcr].
    rewrite (line_cont_no_cr nl Hn Hcn). cbn [app]. apply lsk_esc. auto.
Qed.
Lemma lsegs_gsegs : forall w ts, lsegs w ts -> no_cr w -> gsegs ws_run w.
Proof.
  induction 1 as [w t Hb|w t ws rest ts Hb Hws Hrest IH]; intros Hcr.
  - apply no_cr_app in Hcr as [Hcr _]. apply gs_last. eapply lbody_lsk; eauto.
  - apply no_cr_app in Hcr as [Hcr Hcr2]. apply no_cr_app in Hcr2 as [_ Hcr2].
    apply no_cr_app in Hcr2 as [_ Hcr2]. apply no_cr_app in Hcr2 as [_ Hcr2].
    apply gs_more; auto. eapply lbody_lsk; eauto.
Qed.
Lemma lcsegs_gsegs : forall w ts, lcsegs w ts -> no_cr w -> gsegs ws_plain w.
Proof.
  induction 1 as [w t Hb|w t ws rest ts Hb Hws Hrest IH]; intros Hcr.
  - apply no_cr_app in Hcr as [Hcr _]. apply gs_last. eapply lcbody_lsk; eauto.
  - apply no_cr_app in Hcr as [Hcr Hcr2]. apply no_cr_app in Hcr2 as [_ Hcr2].
    apply no_cr_app in Hcr2 as [_ Hcr2]. apply no_cr_app in Hcr2 as [_ Hcr2].
    apply gs_more; auto. eapply lcbody_lsk; eauto.
Qed.

Lemma starts3_ws_stop s : starts3 s = true -> ws_stop s = true.
Proof.
  unfold starts3, ws_stop. intros H. apply andb_true_iff in H as [H _]. assert (E : shead s = 39) by lia. rewrite E. reflexivity.
Qed.
Lemma starts3_lob_stop s : starts3 s = true -> lob_stop s = true.
Proof.
  unfold starts3, lob_stop. intros H. apply andb_true_iff in H as [H _]. assert (E : shead s = 39) by lia. rewrite E. reflexivity.
Qed.
(* skipLongStringHelper, comments skipped between the segments: behind the opening ''' of any long string *)
Lemma run_skip_long_string_helper w ws s :
  gsegs ws_run w -> no_cr w -> ws_run ws -> no_cr ws -> ws_stop s = true -> starts3 s = false ->
  run (skip_long_string_helper HSkipComments) (zs w ++ zs ws ++ s) tt (long_end s).
Proof.
  intros Hw Hcr Hws Hcrw Hs H3. unfold skip_long_string_helper. apply run_with_fuel. intros f Hf.
  rewrite nne_app, nne_zs in Hf.
  apply (run_skip_long_segs HSkipComments ws_run ws_stop long_end run_skip_end_str starts3_ws_stop w Hw f ws s); auto. lia.
Qed.
(* inside {{ }}: only plain whitespace between the segments *)
Lemma run_skip_long_clob_helper w ws s :
  gsegs ws_plain w -> no_cr w -> ws_plain ws -> no_cr ws -> lob_stop s = true -> starts3 s = false ->
  run (skip_long_string_helper HEnsureNoComments) (zs w ++ zs ws ++ s) tt (long_end_lob s).
Proof.
  intros Hw Hcr Hws Hcrw Hs H3. unfold skip_long_string_helper. apply run_with_fuel. intros f Hf.
  rewrite nne_app, nne_zs in Hf.
  apply (run_skip_long_segs HEnsureNoComments ws_plain lob_stop long_end_lob
           (fun ws' s' Hw' _ Hs' => run_skip_end_lob ws' s' Hw' Hs') starts3_lob_stop w Hw f ws s); auto. lia.
Qed.

(* a long string in the loop: the whitespace behind the last segment is consumed with it *)
Lemma ends_long_end S T : ends S T -> ends (long_end S) T.
Proof.
  intros He. unfold long_end, long_end_with. destruct (shead S =? 39) eqn:E.
  - destruct T as [|c r]; [rewrite (ends_shead_nil _ He) in E; discriminate|].
    pose proof (ends_shead_cons _ _ _ He) as Hc. assert (c = 39%N) by lia. subst c.
    rewrite peek2_pks. apply (ends_unread _ 39%N). apply pks_ends. exact (ends_stail_cons _ _ _ He).
  - now apply ends_head_after_stop.
Qed.
Lemma K_long f top terms body wn T Tout : closer top ->
  gsegs ws_run body -> no_cr body -> ws_run wn -> no_cr wn -> ws_stop (zs T) = true -> starts3 (zs T) = false ->
  K f top terms T Tout -> K (S f) top terms (39%N :: 39%N :: 39%N :: body ++ wn ++ T) Tout.
Proof.
  intros Ht Hb Hcb Hwn Hcn Hst H3 HK. apply K_round; [apply ws_stop_plain; [reflexivity|discriminate]|].
  intros S2 He2. apply ends_stail_cons in He2 as He3.
  unfold after_stop. rewrite (ends_shead_cons _ _ _ He2). change (Z.of_N 39 =? c_slash) with false. cbv iota.
  destruct (ends_cons _ _ _ He3) as [E3 He4]. destruct (ends_cons _ _ _ He4) as [E4 He5].
  destruct (ends_split _ _ _ He5) as (S5 & E5 & He6). destruct (ends_split _ _ _ He6) as (S6 & E6 & He7).
  rewrite E3, E4, E5, E6.
  assert (Hs6 : ws_stop S6 = true) by (rewrite (ends_ws_stop _ _ He7); exact Hst).
  assert (H36 : starts3 S6 = false) by (rewrite (ends_starts3 _ _ He7); exact H3).
  destruct (HK [] (long_end S6)) as (S' & R & He'); [constructor|constructor|now apply ends_long_end|].
  exists S'. split; [|exact He'].
  unfold sk_body. unfold closer in Ht. replace (Z.of_N 39 =? -1) with false by reflexivity.
  replace (Z.of_N 39 =? top) with false by lia. change (Z.of_N 39 =? c_dquote) with false.
  change (Z.of_N 39 =? c_quote) with true. cbv iota.
  eapply run_bind; [apply run_is_triple_quote|].
  change (triple (Z.of_N 39 :: Z.of_N 39 :: zs body ++ zs wn ++ S6)) with true. cbv iota. cbn [stail].
  eapply run_bind; [apply (run_skip_long_string_helper body wn S6); auto|]. exact R.
Qed.

(* ---- lobs: skipBlobHelper ---------------------------------------------------------------------------------------------------- *)
Lemma run_skip_blob_loop : forall w chars, interleaved w chars -> forall f c0 s,
  (length chars + 1 < f)%nat -> c0 <> 125 ->
  run (skip_blob_loop f c0) (zs w ++ 125 :: s) tt s.
Proof.
  induction 1 as [ws Hws|ws c w chars Hws Hc Hw IH]; intros f c0 s Hf Hc0;
    (destruct f as [|[|f]]; try (cbn [length] in Hf; lia)); cbn [skip_blob_loop]; unfold c_rbrace;
    replace (c0 =? 125) with false by lia.
  - eapply run_bind; [apply (run_t_skip_lob_whitespace ws (125 :: s) Hws); reflexivity|].
    cbn [shead stail]. cbv beta iota. change (125 =? -1) with false. change (125 =? 125) with true. cbv iota. apply run_ret.
  - rewrite zs_app, <- app_assoc. cbn [zs map app].
    eapply run_bind; [apply (run_t_skip_lob_whitespace ws (Z.of_N c :: map Z.of_N w ++ 125 :: s) Hws);
                      cbn [shead]; apply blob_byte_not_ws; exact Hc|].
    cbn [shead stail]. cbv beta iota. destruct Hc as (Hc1 & Hc2 & Hc3).
    replace (Z.of_N c =? -1) with false by lia.
    apply (IH (S f) (Z.of_N c) s); [cbn [length] in Hf; lia|lia].
Qed.
Lemma b64_char_not_quote c v : b64_char c v -> c <> 34%N /\ c <> 39%N.
Proof.
  unfold b64_char, SpecText.b64val, SpecText.is_digit, SpecText.in_rng. intros H.
  repeat match type of H with (if ?b then _ else _) = _ => destruct b eqn:? end;
    inversion H; subst; lia.
Qed.
Lemma b64_text_hd chars bytes : b64_text chars bytes -> hd 0%N chars <> 34%N /\ hd 0%N chars <> 39%N.
Proof.
  destruct 1 as [|a b c d x y z v r bs Ha Hb Hc Hd Hr|a b x y Ha Hb|a b c x y z Ha Hb Hc]; cbn [hd];
    [split; discriminate| | |]; eapply b64_char_not_quote; eauto.
Qed.
Lemma run_expect_rbrace s : run (t_expect (fun c => c =? c_rbrace)) (125 :: s) tt s.
Proof. exact (run_expect _ (125 :: s) eq_refl). Qed.
(* a blob *)
Lemma run_skip_blob_helper_blob bw chars s :
  interleaved bw chars -> hd 0%N chars <> 34%N -> hd 0%N chars <> 39%N ->
  run skip_blob_helper (zs bw ++ 125 :: 125 :: s) tt s.
Proof.
  intros Hi H34 H39. unfold skip_blob_helper. destruct Hi as [ws Hws|ws c w chars Hws Hc Hw].
  - eapply run_bind; [apply (run_t_skip_lob_whitespace ws (125 :: 125 :: s) Hws); reflexivity|].
    cbn [shead stail]. cbv beta iota. change (125 =? c_dquote) with false. change (125 =? c_quote) with false. cbv iota.
    eapply run_bind; [apply run_ret|].
    eapply run_bind; [apply run_with_fuel; intros f Hf; destruct f as [|f]; [lia|]; cbn [skip_blob_loop];
                      change (125 =? c_rbrace) with true; apply run_ret|].
    apply run_expect_rbrace.
  - cbn [hd] in H34, H39. rewrite zs_app, <- app_assoc. cbn [zs map app].
    eapply run_bind; [apply (run_t_skip_lob_whitespace ws (Z.of_N c :: map Z.of_N w ++ 125 :: 125 :: s) Hws);
                      cbn [shead]; apply blob_byte_not_ws; exact Hc|].
    cbn [shead stail]. cbv beta iota. unfold c_dquote, c_quote.
    replace (Z.of_N c =? 34) with false by lia. replace (Z.of_N c =? 39) with false by lia.
    eapply run_bind; [apply run_ret|]. destruct Hc as (Hc1 & Hc2 & Hc3).
    eapply run_bind; [apply run_with_fuel; intros f Hf; apply (run_skip_blob_loop w chars Hw f (Z.of_N c) (125 :: s)); [|lia]|].
    + rewrite nne_app in Hf. fold (zs w) in Hf. rewrite nne_zs in Hf. pose proof (interleaved_length _ _ Hw). lia.
    + apply run_expect_rbrace.
Qed.
(* a clob with short-string text: the text is crossed by skipStringHelper, so a closing brace and an escaped double quote inside are harmless *)
Lemma run_skip_blob_helper_clob ws0 body ws1 s :
  ws_plain ws0 -> qsk 34 body -> ws_plain ws1 ->
  run skip_blob_helper (zs ws0 ++ 34 :: zs body ++ 34 :: zs ws1 ++ 125 :: 125 :: s) tt s.
Proof.
  intros H0 Hb H1. unfold skip_blob_helper.
  eapply run_bind; [apply (run_t_skip_lob_whitespace ws0 _ H0); reflexivity|].
  cbn [shead stail]. cbv beta iota. change (34 =? c_dquote) with true. cbv iota.
  eapply run_bind.
  { eapply run_bind; [apply (run_skip_string_helper body _ Hb)|].
    eapply run_bind; [apply (run_t_skip_lob_whitespace ws1 (125 :: 125 :: s) H1); reflexivity|]. cbv beta iota. apply run_ret. }
  cbn [shead stail].
  eapply run_bind; [apply run_with_fuel; intros f Hf; destruct f as [|f]; [lia|]; cbn [skip_blob_loop];
                    change (125 =? c_rbrace) with true; apply run_ret|].
  apply run_expect_rbrace.
Qed.
(* a clob with long-string text *)
Lemma run_skip_blob_helper_lclob ws0 body ws1 s :
  ws_plain ws0 -> gsegs ws_plain body -> no_cr body -> ws_plain ws1 -> no_cr ws1 ->
  run skip_blob_helper (zs ws0 ++ 39 :: 39 :: 39 :: zs body ++ zs ws1 ++ 125 :: 125 :: s) tt s.
Proof.
  intros H0 Hb Hcb H1 Hc1. unfold skip_blob_helper.
  eapply run_bind; [apply (run_t_skip_lob_whitespace ws0 _ H0); reflexivity|].
  cbn [shead stail]. cbv beta iota. change (39 =? c_dquote) with false. change (39 =? c_quote) with true. cbv iota.
  eapply run_bind.
  { eapply run_bind; [apply run_is_triple_quote|].
    change (triple (39 :: 39 :: zs body ++ zs ws1 ++ 125 :: 125 :: s)) with true. cbv iota. cbn [negb stail].
    eapply run_bind; [apply (run_skip_long_clob_helper body ws1 (125 :: 125 :: s)); auto|].
    change (long_end_lob (125 :: 125 :: s)) with (125 :: 125 :: s).
    eapply run_bind; [apply (run_t_skip_lob_whitespace [] (125 :: 125 :: s)); [constructor|reflexivity]|].
    cbv beta iota. apply run_ret. }
  cbn [shead stail].
  eapply run_bind; [apply run_with_fuel; intros f Hf; destruct f as [|f]; [lia|]; cbn [skip_blob_loop];
                    change (125 =? c_rbrace) with true; apply run_ret|].
  apply run_expect_rbrace.
Qed.

(* a lob in the loop *)
Lemma K_lob f top terms inner T Tout : closer top ->
  (forall s, run skip_blob_helper (zs inner ++ s) tt s) ->
  K f top terms T Tout -> K (S f) top terms (123%N :: 123%N :: inner ++ T) Tout.
Proof.
  intros Ht Hlob HK. apply K_round; [apply ws_stop_plain; [reflexivity|discriminate]|].
  intros S2 He2. apply ends_stail_cons in He2 as He3.
  unfold after_stop. rewrite (ends_shead_cons _ _ _ He2). change (Z.of_N 123 =? c_slash) with false. cbv iota.
  destruct (ends_cons _ _ _ He3) as [E3 He4]. destruct (ends_split _ _ _ He4) as (S5 & E5 & He6).
  rewrite E3, E5.
  destruct (HK [] S5) as (S' & R & He'); [constructor|constructor|exact He6|].
  exists S'. split; [|exact He'].
  unfold sk_body. unfold closer in Ht. replace (Z.of_N 123 =? -1) with false by reflexivity.
  replace (Z.of_N 123 =? top) with false by lia. change (Z.of_N 123 =? c_dquote) with false.
  change (Z.of_N 123 =? c_quote) with false. change (Z.of_N 123 =? c_lparen) with false.
  change (Z.of_N 123 =? c_lbracket) with false. change (Z.of_N 123 =? c_lbrace) with true. cbv iota.
  eapply run_bind; [apply run_peek_cons|]. change (Z.of_N 123 =? c_lbrace) with true. cbv iota.
  eapply run_bind; [apply run_read_cons|]. eapply run_bind; [apply Hlob|]. exact R.
Qed.

(* ---- more fuel does not change the answer of the loop ------------------------------------------------------------------------ *)
Lemma loop_mono : forall f top terms t r,
  skip_container_loop f top terms t = Ok r -> skip_container_loop (S f) top terms t = Ok r.
Proof.
  induction f as [|f IH]; intros top terms t r H; [discriminate H|].
  rewrite loop_unfold in H. rewrite (loop_unfold (S f)). unfold mbind in *.
  destruct (t_skip_whitespace t) as [[[c b] t1]| | |]; try discriminate H.
  unfold sk_body in *.
  destruct (c =? -1); [exact H|].
  destruct (c =? top). { destruct terms; [exact H|apply IH; exact H]. }
  destruct (c =? c_dquote).
  { unfold mbind in *. destruct (skip_string_helper t1) as [[u t2]| | |]; try discriminate H. apply IH; exact H. }
  destruct (c =? c_quote).
  { unfold mbind in *. destruct (t_is_triple_quote t1) as [[ok t2]| | |]; try discriminate H.
    destruct ((if ok then skip_long_string_helper HSkipComments else skip_symbol_quoted_helper) t2) as [[u t3]| | |];
      try discriminate H. apply IH; exact H. }
  destruct (c =? c_lparen); [apply IH; exact H|]. destruct (c =? c_lbracket); [apply IH; exact H|].
  destruct (c =? c_lbrace); [|apply IH; exact H].
  unfold mbind in *. destruct (t_peek t1) as [[c2 t2]| | |]; try discriminate H.
  destruct (c2 =? c_lbrace).
  { destruct (t_read t2) as [[x t3]| | |]; try discriminate H.
    destruct (skip_blob_helper t3) as [[u t4]| | |]; try discriminate H. apply IH; exact H. }
  destruct (c2 =? c_rbrace).
  { destruct (t_read t2) as [[x t3]| | |]; try discriminate H. apply IH; exact H. }
  apply IH; exact H.
Qed.
Lemma run_loop_mono f f' top terms S a S' :
  (f <= f')%nat -> run (skip_container_loop f top terms) S a S' -> run (skip_container_loop f' top terms) S a S'.
Proof.
  intros Hf R. induction Hf as [|f' Hf IH]; [exact R|].
  intros k u t Hi Ha. destruct (IH k u t Hi Ha) as (t' & E & Ht'). exists t'. split; [|exact Ht']. now apply loop_mono.
Qed.

(* ---- the helpers over the spelling relations of C02, stated directly ------------------------------------------------------------ *)
Lemma skip_string_spelling body text s :
  qbody 34 body text -> no_cr body -> run skip_string_helper (zs body ++ 34 :: s) tt s.
Proof. intros Hb Hc. apply run_skip_string_helper. exact (qbody_qsk 34 (or_introl eq_refl) body text Hb Hc). Qed.
Lemma skip_symbol_quoted_spelling body text s :
  qbody 39 body text -> no_cr body -> run skip_symbol_quoted_helper (zs body ++ 39 :: s) tt s.
Proof. intros Hb Hc. apply run_skip_symbol_quoted_helper. exact (qbody_qsk 39 (or_intror eq_refl) body text Hb Hc). Qed.
Lemma skip_long_string_spelling body ts ws s :
  lsegs body ts -> no_cr body -> ws_run ws -> no_cr ws -> ws_stop s = true -> starts3 s = false ->
  run (skip_long_string_helper HSkipComments) (zs body ++ zs ws ++ s) tt (long_end s).
Proof. intros Hb Hc. apply run_skip_long_string_helper; auto. eapply lsegs_gsegs; eauto. Qed.
Lemma skip_blob_spelling bw chars bytes s :
  interleaved bw chars -> b64_text chars bytes -> run skip_blob_helper (zs bw ++ 125 :: 125 :: s) tt s.
Proof. intros Hi Hb. destruct (b64_text_hd _ _ Hb) as [H1 H2]. now apply (run_skip_blob_helper_blob bw chars). Qed.
Lemma skip_clob_spelling ws0 body bytes ws1 s :
  ws_plain ws0 -> cbody body bytes -> no_cr body -> ws_plain ws1 ->
  run skip_blob_helper (zs ws0 ++ 34 :: zs body ++ 34 :: zs ws1 ++ 125 :: 125 :: s) tt s.
Proof. intros H0 Hb Hc H1. apply run_skip_blob_helper_clob; auto. now apply (cbody_qsk body bytes). Qed.
Lemma skip_long_clob_spelling ws0 body ts ws1 s :
  ws_plain ws0 -> lcsegs body ts -> no_cr body -> ws_plain ws1 -> no_cr ws1 ->
  run skip_blob_helper (zs ws0 ++ 39 :: 39 :: 39 :: zs body ++ zs ws1 ++ 125 :: 125 :: s) tt s.
Proof. intros H0 Hb Hc H1 Hc1. apply run_skip_blob_helper_lclob; auto. eapply lcsegs_gsegs; eauto. Qed.
