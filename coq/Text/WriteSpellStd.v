(* WriteSpellStd.v — C01, text half: the write-then-read theorems of Text/WriteSpellStream.v (compact) and
   Text/WriteSpellPrettyTree.v (pretty) with the [formats] oracle instantiated by the MODELS of Decimal.String and
   Timestamp.String, so that the only text that remains an input is strconv.FormatFloat's (not modelled).

   [std_fmt ff]   fmt_float := ff (the oracle for strconv.FormatFloat(v,'e',-1,64)),
                  fmt_dec   := fmt_dec_go  = dec_format (new_decimal coef exp negzero)  (Num/Decimal.v: NewDecimal, String),
                  fmt_ts    := fmt_ts_std  = ts_format of the timestamp ReadTimestamp finds in the body (Num/Timestamp.v).
   [wf_value_std ff] is [wf_value] (Text/WriteSpell.v) with the two hypotheses on the oracle replaced by conditions on
   the VALUES:
     decimal:   [dec_std_ok d]: the exponent is an int32 and the negative-zero flag stands only on coefficient 0 — these
                are exactly the values an ion.Decimal can hold (NewDecimal takes an int32 exponent and stores
                negZero && n.Sign() == 0), so nothing that exists in Go is excluded (Text/WriteSpellDec.v);
     timestamp: the body is [ts_body t] of a well-formed timestamp ([wf_ts], the quantifier of C15: local year 1..9999, a
                precision, offset a whole number of minutes within a day, kind/offset agreeing, 0..9 fraction digits).
   The float clause is unchanged: nan / inf need nothing, and a finite float needs [float_fmt_ok]: the text after
   formatFloat's exponent repair is a float literal of the grammar (zero and minus zero satisfy it for every ff,
   [float_zero_ok]). *)
From Coq Require Import String List NArith ZArith Bool Lia.
From IonV Require Import Base.Wire Base.Utf8 Data.Ion Num.Float Num.Timestamp Bin.BinWriter Bin.BitStream Bin.BinReader Bin.RoundTripBinS
  Text.TextOut Text.TextWriter Text.TextRoundtrip Text.Tokenizer Text.TextReader Text.TextNum Text.SpellNum Text.SpellTree
  Text.WriteSpell Text.WriteSpellOut Text.WriteSpellScalar Text.WriteSpellTree Text.WriteSpellStream
  Text.WriteSpellTsDef Text.WriteSpellTs Text.WriteSpellDec
  Text.WriteSpellPretty Text.WriteSpellPrettyOut Text.WriteSpellPrettyTree.
Import ListNotations.
Open Scope N_scope.

Definition std_fmt (ff : N -> list N) : formats :=
  {| fmt_float := ff; fmt_dec := fmt_dec_go; fmt_ts := fmt_ts_std |}.

Section Std.
Variable ff : N -> list N.

(* the one remaining hypothesis on an oracle: the float text is a float literal of the grammar *)
Definition float_text_ok (bits : N) : Prop :=
  exists n, plain_num n /\ num_kind n = NKFloat /\ format_float ff bits = num_text n.

Definition wf_scalar_std (v : value) : Prop :=
  match v with
  | VNull t => 1 <= t <= 13
  | VFloat b => f64_is_nan b = true \/ f64_is_inf b = true \/ float_text_ok b
  | VDecimal d => dec_std_ok d
  | VTimestamp body => exists t, wf_ts t /\ body = ts_body t
  | VSymbol y => wf_sym y
  | VString t => bytes_ok t /\ utf8_valid t = true
  | VClob b => bytes_ok b
  | VBlob b => bytes_ok b
  | _ => True
  end.
Fixpoint wf_value_std (v : value) : Prop :=
  match v with
  | VAnn a x => Forall wf_sym a /\ wf_value_std x
  | VList l => (fix go (l : list value) : Prop := match l with [] => True | x :: r => wf_value_std x /\ go r end) l
  | VSexp l => (fix go (l : list value) : Prop := match l with [] => True | x :: r => wf_value_std x /\ go r end) l
  | VStruct fs => (fix go (l : list (symv * value)) : Prop :=
                     match l with [] => True | (n, x) :: r => wf_sym n /\ wf_value_std x /\ go r end) fs
  | _ => wf_scalar_std v
  end.
Definition wf_top_std (v : value) : Prop := wf_value_std v /\ top_ok_ann [] v.

Lemma wf_scalar_of_std v : is_scalar v -> wf_scalar_std v -> wf_scalar (std_fmt ff) v.
Proof.
  destruct v; try contradiction; intros _ H; cbn [wf_scalar wf_scalar_std] in *; try exact H.
  - apply dec_format_go_fmt_ok; [reflexivity|exact H].
  - destruct H as (t & W & ->). apply ts_fmt_ok_std; [reflexivity|exact W].
Qed.

Lemma wf_value_of_std v : wf_value_std v -> wf_value (std_fmt ff) v.
Proof.
  induction v as [v Hsc|l IH|l IH|fs IH|a0 x IH] using value_ind'.
  - intros H. assert (Hs : wf_scalar_std v) by (destruct v; try contradiction; exact H).
    pose proof (wf_scalar_of_std v Hsc Hs) as Hw. destruct v; try contradiction; exact Hw.
  - induction IH as [|x r Hx Hr IHr]; intros H; [exact I|]. destruct H as [H1 H2]. split; [apply Hx, H1|apply IHr, H2].
  - induction IH as [|x r Hx Hr IHr]; intros H; [exact I|]. destruct H as [H1 H2]. split; [apply Hx, H1|apply IHr, H2].
  - induction IH as [|[n x] r Hx Hr IHr]; intros H; [exact I|]. destruct H as (Hn & H1 & H2).
    split; [exact Hn|]. split; [apply Hx, H1|apply IHr, H2].
  - intros [Ha Hx]. split; [exact Ha|apply IH, Hx].
Qed.
Lemma wf_top_of_std vs : Forall wf_top_std vs -> Forall (wf_top (std_fmt ff)) vs.
Proof. intros H. eapply Forall_impl; [|exact H]. intros v [Hv Ht]. split; [apply wf_value_of_std, Hv|exact Ht]. Qed.

(* compact mode *)
Theorem write_then_read_std quiet vs : Forall wf_top_std vs ->
  exists w oks, tw_drive (std_fmt ff) (new_text_writer None false quiet) (calls_of_stream vs) = Ok (w, oks) /\
                forallb (fun b => b) oks = true /\
                sink_bytes (tw_out w) = wt_stream (std_fmt ff) quiet vs /\
                tops_spell PD PT LSys (sink_bytes (tw_out w)) (tvs (std_fmt ff) vs) /\
                x_traverse PD PT (sink_bytes (tw_out w)) false = ttrace (tvs (std_fmt ff) vs).
Proof. intros H. apply write_then_read, wf_top_of_std, H. Qed.

(* pretty mode *)
Theorem write_then_read_pretty_std quiet vs : Forall wf_top_std vs ->
  exists w oks, tw_drive (std_fmt ff) (new_text_writer None true quiet) (calls_of_stream vs) = Ok (w, oks) /\
                forallb (fun b => b) oks = true /\
                sink_bytes (tw_out w) = wtp_stream (std_fmt ff) quiet vs /\
                tops_spell PD PT LSys (sink_bytes (tw_out w)) (tvs (std_fmt ff) vs) /\
                x_traverse PD PT (sink_bytes (tw_out w)) false = ttrace (tvs (std_fmt ff) vs).
Proof. intros H. apply write_then_read_pretty, wf_top_of_std, H. Qed.

(* what the reader presents for the two instantiated kinds: the decimal itself, and the timestamp's own fields *)
Theorem std_reads_decimal d : scalar_xv (std_fmt ff) (VDecimal d) = XDecimal d.
Proof. reflexivity. Qed.
Theorem std_reads_timestamp t : wf_ts t ->
  scalar_bytes (std_fmt ff) (VTimestamp (ts_body t)) = ts_format t /\
  scalar_xv (std_fmt ff) (VTimestamp (ts_body t)) = XTimestamp (show_tuple (Timestamp.ts_fields t)).
Proof.
  intros W. destruct (ts_lit_std (std_fmt ff) t eq_refl W) as [E1 E2]. cbn [scalar_bytes scalar_xv].
  split; [exact E1|]. now rewrite E1, E2.
Qed.
End Std.
