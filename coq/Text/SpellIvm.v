(* SpellIvm.v — C02, stage 8i: the bare version marker `$ion_1_0` at the top level, not followed by `::`.
   One round of the loop of Next consumes it, sets the symbol context to the system table, and goes on. *)
From Coq Require Import String List NArith ZArith Bool Lia ZifyBool ZifyN ZifyNat.
From IonV Require Import Base.Wire Base.Utf8 Data.Ion Bin.Bits Bin.BitStream Bin.BinReader Num.Float Text.Tokenizer Text.Skipper
  Text.TextReader Text.TextNum Text.SpellBase Text.SpellWs Text.SpellNum Text.SpellTok Text.SpellRead
  Text.SpellEsc Text.SpellStr Text.SpellLong Text.SpellIdent Text.SpellSym Text.SpellVal Text.SpellSymVal.
Import ListNotations.
Open Scope Z_scope.

Definition ivm_text : list N := s "$ion_1_0"%string.
Lemma ivm_ident : ident_chars ivm_text.
Proof.
  constructor; [unfold id_start, letter; cbn; lia|].
  repeat (apply Forall_cons; [unfold id_part, id_start, letter, digit; cbn; lia|]); apply Forall_nil.
Qed.

Section Values.
Variable pd : list N -> res dec.
Variable pt : list N -> res (list N).
Variable api : xstate -> xstate * res bool.
Notation BTA := trsBeforeTypeAnnotations.

Lemma ivm_step w wn S2 k0 lst fld ty0 v0 kk fuel b X' :
  ws_run w -> no_cr w -> ws_run wn -> no_cr wn -> ws_stop S2 = true -> dcolon S2 = false ->
  is_identifier_part (shead (zs wn ++ S2)) = false ->
  rrun (x_next_loop pd pt api kk fuel) (mkax (sym_rest wn S2) tokenSymbol false BTA [] false false LSys fld [] ty0 v0) b X' ->
  rrun (x_next_loop pd pt api (S kk) fuel)
       (mkax (zs w ++ zs ivm_text ++ zs wn ++ S2) k0 false BTA [] false false lst fld [] ty0 v0) b X'.
Proof.
  intros Hw Hcr Hwn Hcrn Hs2 Hdc Hnp Hrest x Hi Ha.
  pose proof ivm_ident as Hid.
  set (s1 := zs wn ++ S2) in *.
  destruct (ident_first ivm_text s1 Hid) as (c & r0 & Eid & Hc & Est).
  destruct (ident_start_stop (Z.of_N c) (zs r0 ++ s1) Hc) as [Hst Has].
  destruct (loop_sym pd pt api w (zs ivm_text ++ s1) k0 tokenSymbol true (zs ivm_text ++ s1) [] lst fld [] ty0 v0 false
              (mkax (sym_rest wn S2) tokenSymbol false BTA [] false false LSys fld [] ty0 v0)
              kk fuel Hw Hcr) with (x := x) as (x2 & Hi2 & Ha2 & E); auto.
  - rewrite Est. cbn [shead]. rewrite Has, (dispatch_ident _ Hc).
    eapply runK_bind; [apply run_runK, run_unread|]. apply runK_t_ok.
  - apply rrun_rget_bind. intros y Hy Hay. xfields Hay. unfold sym_branch.
    eapply rrun_bind; [apply rrun_lift; cbn [a_s a_k a_u]; apply (run_read_value_symbol ivm_text s1 _ _ Hid Hnp)|].
    unfold ax_tok. cbn [a_s a_k a_u a_state a_ctx a_eof a_err a_lst a_field a_annots a_type a_value].
    unfold s1. rewrite spush_app.
    eapply rrun_bind.
    { apply rrun_lift_run. cbn [a_s].
      apply (run_skip_double_colon_no wn (if nonempty wn then S2 else spush S2) Hwn Hcrn).
      - destruct (nonempty wn); [exact Hs2|now rewrite ws_stop_spush].
      - destruct (nonempty wn); [exact Hdc|now rewrite dcolon_spush]. }
    cbv beta iota. unfold ax_tok. cbn [a_s a_k a_u a_state a_ctx a_eof a_err a_lst a_field a_annots a_type a_value].
    fold (sym_rest wn S2).
    assert (Hiv : (tokenSymbol =? tokenSymbol)%N && list_eqb ivm_text (s "$ion_1_0"%string) && x_at_top y
                  && match x_annots y with [] => true | _ :: _ => false end = true).
    { unfold x_at_top. rewrite Fctx, Fannots. reflexivity. }
    rewrite Hiv.
    eapply rrun_bind; [|apply rrun_ret].
    apply rrun_rmod. intros z' Haz'. xfields Haz'. split; [|reflexivity].
    unfold xabs. cbn [x_tok x_state x_ctx x_eof x_err x_lst x_field x_annots x_type x_value xs_lst].
    rewrite Fs0, Fk0, Fu0, Fst0, Fctx0, Feof0, Ferr0, Ffield0, Fannots0, Ftype0, Fvalue0. reflexivity.
  - rewrite E. exact (Hrest x2 Hi2 Ha2).
Qed.
End Values.
