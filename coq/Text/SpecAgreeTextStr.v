(* SpecAgreeTextStr.v — C04, text half: the SPECIFICATION decoder (Text/SpecText.v) on quoted text.

   [ubody q w text]: the body [w] of a short string (q = 34) or quoted symbol (q = 39) spells [text]; as [qbody]
   of Text/SpellStr.v, but the raw bytes above 127 come as whole well-formed UTF-8 sequences (which is how the
   specification reads them: [SpecText.utf8_seq]).  Theorems:
   - [p_quoted_ubody]: SpecText.p_quoted accepts every such body followed by the closing quote and answers the
     text (raw bytes, every escape of [esc_spells] incl. surrogate pairs, line continuations);
   - [p_quoted_cbody]: the same for clob text ([cbody] of SpellStr.v, all of it);
   - [esc_q_ubody]: what the text Writer model emits for a string / quoted symbol whose text is valid UTF-8 is
     such a body; [p_lob_clob], [p_lob_blob]: the `{{...}}` forms. *)
From Coq Require Import String List NArith ZArith Bool Lia ZifyBool ZifyN ZifyNat.
From IonV Require Import Base.Wire Base.Utf8 Data.Ion Text.Tokenizer Text.TokenizerNP Text.SpellBase Text.SpellWs Text.SpellEsc
  Text.SpellStr Text.SpellBlob Text.TextOut Text.WriteSpell Text.WriteSpellScalar.
From IonV Require Text.SpecText.
Import ListNotations.
Open Scope N_scope.

Inductive ubody (q : N) : list N -> list N -> Prop :=
| ub_nil : ubody q [] []
| ub_raw c w t : c < 128 -> raw_char q c -> ubody q w t -> ubody q (c :: w) (c :: t)
| ub_seq c bs w t : 128 <= c -> (forall X, SpecText.utf8_seq (c :: bs ++ X) = Some (c :: bs, X)) ->
                    ubody q w t -> ubody q (c :: bs ++ w) (c :: bs ++ t)
| ub_esc e cp w t : esc_spells e cp -> ubody q w t -> ubody q (92 :: e ++ w) (SpecText.utf8_enc (Z.to_N cp) ++ t)
| ub_cont nl w t : line_cont nl -> ubody q w t -> ubody q (92 :: nl ++ w) t.

Lemma ubody_head_not_lf q w t rest : q <> 10 -> ubody q w t -> hd 0 (w ++ q :: rest) <> 10.
Proof.
  intros Hq H. destruct H as [|c w t Hc Hr _|c bs w t Hc _ _|e cp w t _ _|nl w t _ _]; cbn [app hd]; try lia.
  destruct Hr as (_ & _ & H10 & _). exact H10.
Qed.

Lemma rev_rev_append (a acc : list N) : rev (rev_append a acc) = rev acc ++ a.
Proof. rewrite rev_append_rev, rev_app_distr, rev_involutive. reflexivity. Qed.

Lemma cont_escape (lob : bool) nl r : line_cont nl -> hd 0 r <> 10 ->
  SpecText.p_escape lob (nl ++ r) = Some (SpecText.ENothing, r).
Proof.
  intros [ | | ] Hr; cbn [app]; try reflexivity. unfold SpecText.p_escape. cbn.
  destruct r as [|c r']; [reflexivity|]. cbn [hd] in Hr.
  destruct c as [|p]; [reflexivity|]. do 4 (try (destruct p as [p|p|]; try reflexivity)). contradiction.
Qed.

Theorem p_quoted_ubody q w t : ubody q w t -> q < 128 -> q <> 92 -> q <> 10 -> forall k acc rest,
  (length w < k)%nat ->
  SpecText.p_quoted k q false (w ++ q :: rest) acc = Some (rev acc ++ t, rest).
Proof.
  intros H Hq Hq92 Hq10.
  induction H as [|c w t Hc Hr Hw IH|c bs w t Hc Hs Hw IH|e cp w t He Hw IH|nl w t Hn Hw IH]; intros k acc rest Hk;
    (destruct k as [|k]; [lia|]); cbn [app SpecText.p_quoted].
  - rewrite N.eqb_refl, app_nil_r. reflexivity.
  - destruct Hr as (H1 & H2 & H3 & H4 & H5 & H6).
    replace (c =? q) with false by lia. replace (c =? 92) with false by lia. replace (c <? 128) with true by lia.
    replace (SpecText.raw_ok c) with true by (unfold SpecText.raw_ok; unfold str_ws in H6; lia).
    rewrite IH by (cbn [length] in Hk; lia). cbn [rev]. now rewrite <- app_assoc.
  - replace (c =? q) with false by lia. replace (c =? 92) with false by lia. replace (c <? 128) with false by lia.
    rewrite <- app_assoc. rewrite Hs. rewrite IH by (cbn [length] in Hk; rewrite app_length in Hk; lia).
    rewrite rev_rev_append. rewrite <- app_assoc. reflexivity.
  - replace (92 =? q) with false by lia. change (92 =? 92) with true. cbv iota.
    rewrite <- app_assoc. rewrite (p_escape_spells false e cp _ He).
    rewrite IH by (cbn [length] in Hk; rewrite app_length in Hk; lia).
    rewrite rev_rev_append. now rewrite <- app_assoc.
  - replace (92 =? q) with false by lia. change (92 =? 92) with true. cbv iota.
    rewrite <- app_assoc. rewrite (cont_escape false nl _ Hn (ubody_head_not_lf q w t rest Hq10 Hw)).
    apply IH. cbn [length] in Hk. rewrite app_length in Hk. lia.
Qed.

(* ---- clob text ------------------------------------------------------------------------------------------------- *)
Lemma cbody_head_not_lf w t rest : cbody w t -> hd 0 (w ++ 34 :: rest) <> 10.
Proof.
  intros H. destruct H as [|c w t Hr _|e cp w t _ _|nl w t _ _]; cbn [app hd]; try lia.
  destruct Hr as (_ & _ & H). unfold str_ws in H. lia.
Qed.
Theorem p_quoted_cbody w t : cbody w t -> forall k acc rest, (length w < k)%nat ->
  SpecText.p_quoted k 34 true (w ++ 34 :: rest) acc = Some (rev acc ++ t, rest).
Proof.
  induction 1 as [|c w t Hr Hw IH|e cp w t He Hw IH|nl w t Hn Hw IH]; intros k acc rest Hk;
    (destruct k as [|k]; [lia|]); cbn [app SpecText.p_quoted].
  - change (34 =? 34) with true. cbv iota. now rewrite app_nil_r.
  - destruct Hr as (H1 & H2 & H3). unfold str_ws in H3.
    replace (c =? 34) with false by lia. replace (c =? 92) with false by lia. replace (c <? 128) with true by lia.
    replace (SpecText.raw_ok c) with true by (unfold SpecText.raw_ok; lia).
    rewrite IH by (cbn [length] in Hk; lia). cbn [rev]. now rewrite <- app_assoc.
  - change (92 =? 34) with false. change (92 =? 92) with true. cbv iota.
    rewrite <- app_assoc. rewrite (p_escape_spells true e cp _ He).
    rewrite IH by (cbn [length] in Hk; rewrite app_length in Hk; lia).
    cbn [rev_append rev]. now rewrite <- app_assoc.
  - change (92 =? 34) with false. change (92 =? 92) with true. cbv iota.
    rewrite <- app_assoc. rewrite (cont_escape true nl _ Hn (cbody_head_not_lf w t rest Hw)).
    apply IH. cbn [length] in Hk. rewrite app_length in Hk. lia.
Qed.

(* ---- valid UTF-8 splits into ASCII bytes and well-formed sequences ---------------------------------------------- *)
Lemma fuel_suffix (r r' : list N) : (length r' <= length r)%nat -> utf8_valid_fuel (length r) r' = utf8_valid r'.
Proof. intros H. now apply utf8_valid_fuel_eq. Qed.

Ltac seq_fin := intros X; cbn [app];
  repeat match goal with |- context [if ?b then _ else _] =>
           first [replace b with true by lia | replace b with false by lia] end; reflexivity.
Lemma utf8_valid_head c r : utf8_valid (c :: r) = true ->
  (c < 128 /\ utf8_valid r = true) \/
  (128 <= c /\ exists bs r', r = bs ++ r' /\ Forall (fun x => 128 <= x) bs /\ utf8_valid r' = true /\
                             forall X, SpecText.utf8_seq (c :: bs ++ X) = Some (c :: bs, X)).
Proof.
  unfold utf8_valid at 1. cbn [length]. rewrite utf8_step. unfold utf8_body, in_range, cont.
  destruct (N.ltb_spec c 128) as [Hlt|Hge]; [intros H; left; split; [exact Hlt|exact H]|].
  intros H. right. split; [exact Hge|].
  unfold SpecText.utf8_seq, SpecText.is_cont, SpecText.in_rng.
  destruct ((194 <=? c) && (c <=? 223)) eqn:E2.
  { destruct r as [|c1 r']; [discriminate|]. apply andb_true_iff in H as [H1 H2].
    rewrite fuel_suffix in H2 by (cbn [length]; lia).
    exists [c1], r'. split; [reflexivity|]. split; [constructor; [lia|constructor]|]. split; [exact H2|].
    seq_fin. }
  destruct (c =? 224) eqn:E3a.
  { destruct r as [|c1 [|c2 r']]; try discriminate. apply andb_true_iff in H as [H1 H2]. apply andb_true_iff in H1 as [H0 H1].
    rewrite fuel_suffix in H2 by (cbn [length]; lia).
    exists [c1; c2], r'. split; [reflexivity|]. split; [repeat constructor; lia|]. split; [exact H2|].
    seq_fin. }
  destruct (((225 <=? c) && (c <=? 236)) || ((238 <=? c) && (c <=? 239))) eqn:E3b.
  { destruct r as [|c1 [|c2 r']]; try discriminate. apply andb_true_iff in H as [H1 H2]. apply andb_true_iff in H1 as [H0 H1].
    rewrite fuel_suffix in H2 by (cbn [length]; lia).
    exists [c1; c2], r'. split; [reflexivity|]. split; [repeat constructor; lia|]. split; [exact H2|].
    seq_fin. }
  destruct (c =? 237) eqn:E3c.
  { destruct r as [|c1 [|c2 r']]; try discriminate. apply andb_true_iff in H as [H1 H2]. apply andb_true_iff in H1 as [H0 H1].
    rewrite fuel_suffix in H2 by (cbn [length]; lia).
    exists [c1; c2], r'. split; [reflexivity|]. split; [repeat constructor; lia|]. split; [exact H2|].
    seq_fin. }
  assert (E3 : (224 <=? c) && (c <=? 239) = false) by lia.
  destruct (c =? 240) eqn:E4a.
  { destruct r as [|c1 [|c2 [|c3 r']]]; try discriminate. apply andb_true_iff in H as [H1 H2].
    apply andb_true_iff in H1 as [H0 H1]. apply andb_true_iff in H0 as [H00 H01].
    rewrite fuel_suffix in H2 by (cbn [length]; lia).
    exists [c1; c2; c3], r'. split; [reflexivity|]. split; [repeat constructor; lia|]. split; [exact H2|].
    seq_fin. }
  destruct ((241 <=? c) && (c <=? 243)) eqn:E4b.
  { destruct r as [|c1 [|c2 [|c3 r']]]; try discriminate. apply andb_true_iff in H as [H1 H2].
    apply andb_true_iff in H1 as [H0 H1]. apply andb_true_iff in H0 as [H00 H01].
    rewrite fuel_suffix in H2 by (cbn [length]; lia).
    exists [c1; c2; c3], r'. split; [reflexivity|]. split; [repeat constructor; lia|]. split; [exact H2|].
    seq_fin. }
  destruct (c =? 244) eqn:E4c; [|discriminate].
  destruct r as [|c1 [|c2 [|c3 r']]]; try discriminate. apply andb_true_iff in H as [H1 H2].
  apply andb_true_iff in H1 as [H0 H1]. apply andb_true_iff in H0 as [H00 H01].
  rewrite fuel_suffix in H2 by (cbn [length]; lia).
  exists [c1; c2; c3], r'. split; [reflexivity|]. split; [repeat constructor; lia|]. split; [exact H2|].
  seq_fin.
Qed.

(* ---- what the Writer emits -------------------------------------------------------------------------------------- *)
Lemma esc_q_high q l r : q < 128 -> Forall (fun x => 128 <= x) l ->
  concat (map (esc_q q) (l ++ r)) = l ++ concat (map (esc_q q) r).
Proof.
  intros Hq. induction 1 as [|c l Hc Hl IH]; [reflexivity|]. cbn [app map concat]. rewrite IH.
  unfold esc_q. replace ((c <? 32) || (c =? 92) || (c =? q)) with false by lia. reflexivity.
Qed.

Lemma esc_q_ubody q : q < 128 -> forall n t, (length t <= n)%nat -> bytes_ok t -> utf8_valid t = true ->
  ubody q (concat (map (esc_q q) t)) t.
Proof.
  intros Hq. induction n as [|n IH]; intros t Hn Hb Hu.
  - destruct t; [constructor|cbn [length] in Hn; lia].
  - destruct t as [|c r]; [constructor|]. inversion Hb as [|? ? Hc Hbr]; subst.
    destruct (utf8_valid_head c r Hu) as [[Hlt Hur]|(Hge & bs & r' & -> & Hbs & Hur & Hseq)].
    + cbn [map concat]. cbn [length] in Hn. specialize (IH r ltac:(lia) Hbr Hur).
      unfold esc_q at 1. destruct ((c <? 32) || (c =? 92) || (c =? q)) eqn:E.
      * destruct (escaped_char_spells c Hc) as (e & -> & He). cbn [app].
        replace (c :: r) with (SpecText.utf8_enc (Z.to_N (Z.of_N c)) ++ r).
        -- apply ub_esc; [now apply esc_clob_text|exact IH].
        -- rewrite N2Z.id. unfold SpecText.utf8_enc. replace (c <? 128) with true by lia. reflexivity.
      * cbn [app]. apply ub_raw; [exact Hlt| |exact IH]. unfold raw_char, str_ws. lia.
    + change (c :: bs ++ r') with ((c :: bs) ++ r') at 1. rewrite (esc_q_high q (c :: bs) r' Hq) by (constructor; assumption).
      cbn [app]. apply ub_seq; [exact Hge|exact Hseq|]. apply IH.
      * cbn [length] in Hn. rewrite app_length in Hn. lia.
      * apply Forall_app in Hbr. tauto.
      * exact Hur.
Qed.

Lemma string_ubody t : bytes_ok t -> utf8_valid t = true -> ubody 34 (concat (escaped_string t)) t.
Proof. intros Hb Hu. apply (esc_q_ubody 34 ltac:(lia) (length t) t (le_n _) Hb Hu). Qed.
Lemma symbol_ubody t : bytes_ok t -> utf8_valid t = true -> ubody 39 (concat (escaped_symbol t)) t.
Proof. intros Hb Hu. apply (esc_q_ubody 39 ltac:(lia) (length t) t (le_n _) Hb Hu). Qed.

(* ---- {{ ... }} --------------------------------------------------------------------------------------------------- *)
Lemma p_lob_clob w t k rest : cbody w t -> (length w < k)%nat ->
  SpecText.p_lob k (34 :: w ++ 34 :: 125 :: 125 :: rest) = Some (VClob t, rest).
Proof.
  intros H Hk. unfold SpecText.p_lob. cbn [SpecText.skip_sp]. change (SpecText.is_ws 34) with false. cbv iota.
  rewrite (p_quoted_cbody w t H k [] (125 :: 125 :: rest) Hk). cbn [rev app SpecText.skip_sp].
  change (SpecText.is_ws 125) with false. cbv iota. reflexivity.
Qed.

Lemma p_lob_blob chars bytes k rest : Forall blob_byte chars -> b64_text chars bytes ->
  SpecText.p_lob k (chars ++ 125 :: 125 :: rest) = Some (VBlob bytes, rest).
Proof.
  intros Hc Hb. pose proof (spec_blob_spelling chars chars bytes rest (interleaved_self chars Hc) Hb) as Hp.
  unfold SpecText.p_lob.
  assert (Hh : exists c r, chars ++ 125 :: 125 :: rest = c :: r /\ SpecText.is_ws c = false /\ c <> 34 /\ c <> 39).
  { destruct Hc as [|c r (Hw & H125 & H256) _]; cbn [app].
    - eexists _, _. split; [reflexivity|]. repeat split; (reflexivity || discriminate).
    - eexists _, _. split; [reflexivity|]. unfold ws_byte in Hw. unfold SpecText.is_ws, SpecText.in_rng.
      (* the base64 alphabet has no quote: from b64_text *)
      assert (Hq : c <> 34 /\ c <> 39).
      { assert (H1 : exists v, SpellBlob.b64_char c v) by (inversion Hb; subst; eauto).
        destruct H1 as (v & H1). unfold SpellBlob.b64_char in H1.
        split; intros ->; cbv in H1; discriminate H1. }
      repeat split; try tauto. lia. }
  destruct Hh as (c & r & E & Hws & H34 & H39). rewrite E in *. cbn [SpecText.skip_sp]. rewrite Hws.
  rewrite <- Hp. destruct c as [|p]; [reflexivity|]. do 6 (try (destruct p as [p|p|]; try reflexivity)); contradiction.
Qed.
