(* SpellTok.v — C02, stage 8a: tokenizer.Next on the first character of every kind of token.

   [ends S r]: the stream S presents the (normalised) text r and then the end of the input
   (any number of pushed-back end marks).
   [next_dispatch c]: the part of tokenizer.Next after the first character c has been found.
   Lemmas: Next started on a whitespace run followed by the first character of a token sets the
   token kind the grammar gives to that character (with the look-aheads for numbers, `'''`,
   `{{`, `::`, +inf/-inf) and leaves the stream where the value readers expect it. *)
From Coq Require Import String List NArith ZArith Bool Lia ZifyBool ZifyN ZifyNat.
From IonV Require Import Base.Wire Base.Utf8 Text.Tokenizer Text.Skipper Text.SpellBase Text.SpellWs Text.SpellNum.
Import ListNotations.
Open Scope Z_scope.

(* ---- streams that end ------------------------------------------------------------------------------------ *)
Definition ends (S : list Z) (r : list N) : Prop := exists e, all_eof e /\ S = zs r ++ e.
Lemma ends_nil_eof S : ends S [] -> all_eof S.
Proof. intros (e & He & ->). exact He. Qed.
Lemma ends_cons S c r : ends S (c :: r) -> S = Z.of_N c :: stail S /\ ends (stail S) r.
Proof. intros (e & He & ->). cbn [zs map app stail]. split; [reflexivity|]. exists e. auto. Qed.
Lemma ends_app S a r : ends S (a ++ r) -> exists S', S = zs a ++ S' /\ ends S' r.
Proof. intros (e & He & ->). rewrite zs_app, <- app_assoc. exists (zs r ++ e). split; [reflexivity|]. exists e. auto. Qed.
Lemma ends_intro a S r : ends S r -> ends (zs a ++ S) (a ++ r).
Proof. intros (e & He & ->). exists e. split; [exact He|]. now rewrite zs_app, <- app_assoc. Qed.
Lemma all_eof_app a b : all_eof a -> all_eof b -> all_eof (a ++ b).
Proof. intros Ha Hb. apply Forall_app. auto. Qed.
Lemma ends_spush S r : ends S r -> ends (spush S) r.
Proof.
  intros (e & He & ->). destruct r as [|c r]; cbn [zs map app].
  - destruct e as [|x e]; cbn [spush shead stail].
    + exists [-1]. split; [repeat constructor|reflexivity].
    + exists (x :: e). auto.
  - exists e. auto.
Qed.
Lemma ends_shead_nil S : ends S [] -> shead S = -1.
Proof. intros H. apply all_eof_shead. now apply ends_nil_eof. Qed.
Lemma ends_shead_cons S c r : ends S (c :: r) -> shead S = Z.of_N c.
Proof. intros (e & He & ->). reflexivity. Qed.
Lemma ends_stail_nil S : ends S [] -> ends (stail S) [].
Proof. intros H. exists (stail S). split; [|reflexivity]. apply all_eof_stail. now apply ends_nil_eof. Qed.
Lemma ends_stail_cons S c r : ends S (c :: r) -> ends (stail S) r.
Proof. intros H. now destruct (ends_cons _ _ _ H). Qed.
Lemma ends_unread_eof S : ends S [] -> ends (-1 :: S) [].
Proof. intros H. exists (-1 :: S). split; [|reflexivity]. constructor; [reflexivity|]. now apply ends_nil_eof. Qed.
Lemma ends_unread S c r : ends S r -> ends (Z.of_N c :: S) (c :: r).
Proof. intros (e & He & ->). exists e. auto. Qed.
(* pushing back what was read *)
Lemma ends_unread_shead S r : ends S r -> ends (shead S :: stail S) r.
Proof. intros H. exact (ends_spush S r H). Qed.
Lemma ends_unterm S r : ends S r -> ends (unterm S) r.
Proof.
  intros H. unfold unterm. destruct (shead S =? c_slash) eqn:E; [|exact (ends_spush S r H)].
  destruct r as [|c r].
  - rewrite (ends_shead_nil S H) in E. discriminate E.
  - pose proof (ends_shead_cons S c r H) as Hc. rewrite Hc.
    apply ends_unread. apply ends_spush. exact (ends_stail_cons S c r H).
Qed.
Lemma ends_after_stop S c r : ends S (c :: r) -> ends (after_stop S) r.
Proof.
  intros H. unfold after_stop. destruct (shead S =? c_slash); [apply ends_spush|]; exact (ends_stail_cons S c r H).
Qed.
Lemma ends_after_stop_nil S : ends S [] -> ends (after_stop S) [].
Proof.
  intros H. unfold after_stop. rewrite (ends_shead_nil S H). change (-1 =? c_slash) with false. cbv iota.
  now apply ends_stail_nil.
Qed.

(* ---- token-changing primitives ------------------------------------------------------------------------------- *)
Lemma runK_t_ok tok more s k u : runK (t_ok tok more) (s, k, u) tt (s, tok, more).
Proof.
  intros t Hi Ha. unfold t_ok. exists (set_tok t tok more). split; [reflexivity|]. split; [exact Hi|].
  unfold abs in *. injection Ha as Hs _ _. change (stream (set_tok t tok more)) with (stream t). now rewrite Hs.
Qed.
Lemma runK_finish s k u : runK finish (s, k, u) tt (s, k, false).
Proof.
  intros t Hi Ha. unfold finish. exists (set_unfinished t false). split; [reflexivity|]. split; [exact Hi|].
  unfold abs in *. injection Ha as Hs Hk _. change (stream (set_unfinished t false)) with (stream t).
  change (t_token (set_unfinished t false)) with (t_token t). now rewrite Hs, Hk.
Qed.
Lemma runK_get_bind {A} (f : tstate -> M A) s k u a x' :
  (forall t, abs t = (s, k, u) -> t_ioerr t = false -> runK (f t) (s, k, u) a x') ->
  runK (mbind get f) (s, k, u) a x'.
Proof. intros H t Hi Ha. unfold mbind, get. exact (H t Ha Hi t Hi Ha). Qed.

(* ---- peekN on any stream ---------------------------------------------------------------------------------------- *)
(* what peekN n answers on stream s: the characters before the end, and whether the end was met *)
Fixpoint pk (n : nat) (s : list Z) : list Z * bool :=
  match n with
  | O => ([], false)
  | S n' => match s with
            | [] => ([], true)
            | c :: r => if c =? -1 then ([], true) else let '(cs, e) := pk n' r in (c :: cs, e)
            end
  end.
(* the stream afterwards: an end mark is pushed back where the end was met *)
Fixpoint pks (n : nat) (s : list Z) : list Z :=
  match n with
  | O => s
  | S n' => match s with
            | [] => [-1]
            | c :: r => if c =? -1 then s else c :: pks n' r
            end
  end.
Lemma run_peekN_loop_pk : forall n acc s,
  run (peekN_loop n acc) s (rev acc ++ fst (pk n s), snd (pk n s))
      (if snd (pk n s) then stail (skipn (length (fst (pk n s))) s) else skipn (length (fst (pk n s))) s).
Proof.
  induction n as [|n IH]; intros acc s; cbn [peekN_loop pk].
  - cbn [fst snd length skipn]. rewrite app_nil_r. apply run_ret.
  - destruct s as [|c r].
    + cbn [fst snd length skipn stail]. eapply run_bind; [apply run_read|]. cbn [shead]. cbn. rewrite app_nil_r. apply run_ret.
    + eapply run_bind; [apply run_read_cons|]. destruct (c =? -1) eqn:E.
      * cbn [fst snd length skipn stail]. rewrite app_nil_r. apply run_ret.
      * destruct (pk n r) as [cs e] eqn:Ep. cbn [fst snd length skipn].
        specialize (IH (c :: acc) r). rewrite Ep in IH. cbn [fst snd] in IH.
        eapply run_eq; [exact IH|f_equal|reflexivity]. cbn [rev]. now rewrite <- app_assoc.
Qed.
Lemma pk_pks : forall n s,
  pks n s = fst (pk n s) ++ (if snd (pk n s) then -1 :: stail (skipn (length (fst (pk n s))) s)
                             else skipn (length (fst (pk n s))) s).
Proof.
  induction n as [|n IH]; intros s; cbn [pk pks]; [reflexivity|].
  destruct s as [|c r]; [reflexivity|]. destruct (c =? -1) eqn:E.
  - cbn [fst snd length skipn app stail]. f_equal. lia.
  - destruct (pk n r) as [cs e] eqn:Ep. cbn [fst snd length skipn app]. f_equal.
    rewrite IH, Ep. reflexivity.
Qed.
Lemma run_peekN_pk n s : run (t_peekN n) s (pk n s) (pks n s).
Proof.
  unfold t_peekN. eapply run_bind; [apply (run_peekN_loop_pk n [] s)|]. cbn [rev app].
  rewrite pk_pks. destruct (pk n s) as [cs e]. cbn [fst snd]. destruct e.
  - eapply run_bind; [apply run_unread|].
    eapply run_bind; [apply run_unread_all|]. rewrite rev_involutive. apply run_ret.
  - eapply run_bind; [apply run_ret|].
    eapply run_bind; [apply run_unread_all|]. rewrite rev_involutive. apply run_ret.
Qed.
Lemma pks_ends : forall n S r, ends S r -> ends (pks n S) r.
Proof.
  induction n as [|n IH]; intros S r H; cbn [pks]; [exact H|].
  destruct S as [|c S'].
  - destruct H as (e & He & E). destruct r; [|destruct e; discriminate E]. exists [-1]. split; [repeat constructor|reflexivity].
  - destruct (c =? -1) eqn:E; [exact H|]. destruct r as [|c0 r].
    + pose proof (ends_shead_nil _ H) as Hh. cbn [shead] in Hh. lia.
    + destruct (ends_cons _ _ _ H) as [E1 E2]. cbn [stail] in *. injection E1 as ->.
      apply ends_unread. apply IH. exact E2.
Qed.
(* the look-ahead on a text *)
Lemma pk_zs_cons n c r e : pk (S n) (zs (c :: r) ++ e) = (Z.of_N c :: fst (pk n (zs r ++ e)), snd (pk n (zs r ++ e))).
Proof.
  cbn [pk zs map app]. destruct (Z.eqb_spec (Z.of_N c) (-1)); [lia|]. unfold zs. destruct (pk n (map Z.of_N r ++ e)); reflexivity.
Qed.
Lemma pk_eof n e : all_eof e -> pk (S n) e = ([], true).
Proof. intros H. destruct H as [|x e Hx He]; [reflexivity|]. cbn [pk]. rewrite Hx. reflexivity. Qed.

(* ---- the dispatch of Next, named ---------------------------------------------------------------------------------- *)
Definition next_dispatch (c : Z) : M unit :=
  if c =? -1 then t_ok tokenEOF true
  else if c =? c_colon then
    tdo c2 <- t_peek;
    if c2 =? c_colon then tdo _ <- t_read; t_ok tokenDoubleColon false
    else t_ok tokenColon false
  else if c =? c_lbrace then
    tdo c2 <- t_peek;
    if c2 =? c_lbrace then tdo _ <- t_read; t_ok tokenOpenDoubleBrace true
    else t_ok tokenOpenBrace true
  else if c =? c_rbrace then t_ok tokenCloseBrace false
  else if c =? c_lbracket then t_ok tokenOpenBracket true
  else if c =? c_rbracket then t_ok tokenCloseBracket false
  else if c =? c_lparen then t_ok tokenOpenParen true
  else if c =? c_rparen then t_ok tokenCloseParen false
  else if c =? c_comma then t_ok tokenComma false
  else if c =? c_dot then
    tdo c2 <- t_peek;
    if is_operator_char c2 then tdo _ <- t_unread c; t_ok tokenSymbolOperator true
    else
      tdo _ <- t_unread c;
      t_ok tokenDot false
  else if c =? c_quote then
    tdo ok <- t_is_triple_quote;
    if ok then t_ok tokenLongString true else t_ok tokenSymbolQuoted true
  else if c =? c_plus then
    tdo ok <- t_is_inf c;
    if ok then t_ok tokenFloatInf false
    else tdo _ <- t_unread c; t_ok tokenSymbolOperator true
  else if c =? c_minus then
    tdo c2 <- t_peek;
    if is_digit c2 then
      tdo _ <- t_read;
      tdo k <- t_scan_numeric c2;
      if (k =? tokenTimestamp)%N then fail
      else tdo _ <- t_unread c2; tdo _ <- t_unread c; t_ok k true
    else
      tdo ok <- t_is_inf c;
      if ok then t_ok tokenFloatMinusInf false
      else tdo _ <- t_unread c; t_ok tokenSymbolOperator true
  else if is_operator_char c then tdo _ <- t_unread c; t_ok tokenSymbolOperator true
  else if c =? c_dquote then t_ok tokenString true
  else if is_identifier_start c then tdo _ <- t_unread c; t_ok tokenSymbol true
  else if is_digit c then
    tdo k <- t_scan_numeric c;
    tdo _ <- t_unread c; t_ok k true
  else fail.

(* Next when the previous value was finished: whitespace, then the dispatch *)
Lemma runK_t_next w S k x' :
  ws_run w -> no_cr w -> ws_stop S = true ->
  runK (next_dispatch (shead S)) (after_stop S, k, false) tt x' ->
  runK t_next (zs w ++ S, k, false) tt x'.
Proof.
  intros Hw Hcr Hs Hd. unfold t_next, t_next_with. apply runK_get_bind. intros t Ha Hi.
  assert (Hu : t_unfinished t = false) by (unfold abs in Ha; now injection Ha).
  rewrite Hu. eapply runK_bind.
  - eapply runK_bind; [apply run_runK, (run_t_skip_whitespace w S Hw Hcr Hs)|]. cbv beta iota. apply runK_ret.
  - exact Hd.
Qed.

(* ---- scanForNumericType as a function of the look-ahead ------------------------------------------------------------- *)
Definition scan_kind (c : Z) (s : list Z) : N :=
  let cs := fst (pk 4 s) in
  let n := length cs in
  if (c =? c_0) && (0 <? n)%nat && is_b (znth cs 0) then tokenBinary
  else if (c =? c_0) && (0 <? n)%nat && is_x (znth cs 0) then tokenHex
  else if (4 <=? n)%nat && is_digit (znth cs 0) && is_digit (znth cs 1) && is_digit (znth cs 2)
          && ((znth cs 3 =? c_minus) || (znth cs 3 =? c_T)) then tokenTimestamp
  else tokenNumber.
Lemma run_scan_numeric c s : is_digit c = true -> run (t_scan_numeric c) s (scan_kind c s) (pks 4 s).
Proof.
  intros Hc. unfold t_scan_numeric. rewrite Hc. cbn [negb].
  eapply run_bind; [apply run_peekN_pk|]. unfold scan_kind. destruct (pk 4 s) as [cs e]. cbv beta iota. cbn [fst].
  destruct ((c =? c_0) && (0 <? length cs)%nat && is_b (znth cs 0)); [apply run_ret|].
  destruct ((c =? c_0) && (0 <? length cs)%nat && is_x (znth cs 0)); [apply run_ret|].
  destruct ((4 <=? length cs)%nat && is_digit (znth cs 0) && is_digit (znth cs 1) && is_digit (znth cs 2)
            && ((znth cs 3 =? c_minus) || (znth cs 3 =? c_T))); apply run_ret.
Qed.

Lemma pk_nth : forall n s i, (i < length (fst (pk n s)))%nat -> nth i (fst (pk n s)) 0 = nth i s 0.
Proof.
  induction n as [|n IH]; intros s i Hi; cbn [pk] in *; [cbn in Hi; lia|].
  destruct s as [|c r]; [cbn in Hi; lia|]. destruct (c =? -1); [cbn in Hi; lia|].
  destruct (pk n r) as [cs e] eqn:Ep. cbn [fst length] in *. destruct i as [|i]; [reflexivity|].
  cbn [nth]. specialize (IH r i). rewrite Ep in IH. apply IH. cbn [fst]. lia.
Qed.
Lemma pk_length_le n s : (length (fst (pk n s)) <= length s)%nat.
Proof.
  revert s. induction n as [|n IH]; intros s; cbn [pk]; [cbn; lia|].
  destruct s as [|c r]; [cbn; lia|]. destruct (c =? -1); [cbn; lia|].
  specialize (IH r). destruct (pk n r) as [cs e]. cbn [fst length] in *. lia.
Qed.

(* in a digit run with underscores that is followed by something that is neither a digit, '-' nor 'T',
   the first character that is not a digit is neither '-' nor 'T' *)
Definition no_ts_mark (s : list Z) : Prop :=
  forall k, (forall i, (i < k)%nat -> is_digit (nth i s 0) = true) -> nth k s 0 <> c_minus /\ nth k s 0 <> c_T.
Lemma no_ts_mark_base s :
  is_digit (shead s) = false -> shead s <> c_minus -> shead s <> c_T -> no_ts_mark s.
Proof.
  intros H1 H2 H3 k Hk. destruct k as [|k].
  - destruct s; cbn [nth shead] in *; [unfold c_minus, c_T; lia|auto].
  - specialize (Hk O ltac:(lia)). destruct s; cbn [nth shead] in *; [discriminate Hk|congruence].
Qed.
Lemma no_ts_mark_tail w p SS : us_tail is_dec_b w p -> no_ts_mark SS -> no_ts_mark (zs w ++ SS).
Proof.
  induction 1 as [|c w p Hc Ht IH|c w p Hc Ht IH]; intros HS; cbn [zs map app].
  - exact HS.
  - intros k Hk. destruct k as [|k].
    + cbn [nth]. unfold is_dec_b in Hc. unfold c_minus, c_T. lia.
    + cbn [nth]. apply (IH HS). intros i Hi. apply (Hk (S i)). lia.
  - intros k Hk. destruct k as [|k].
    + cbn [nth]. unfold c_minus, c_T. lia.
    + specialize (Hk O ltac:(lia)). cbn [nth] in Hk. discriminate Hk.
Qed.
Lemma scan_kind_not_ts (s : list Z) : no_ts_mark s ->
  (4 <=? length (fst (pk 4 s)))%nat && is_digit (znth (fst (pk 4 s)) 0) && is_digit (znth (fst (pk 4 s)) 1)
    && is_digit (znth (fst (pk 4 s)) 2) && ((znth (fst (pk 4 s)) 3 =? c_minus) || (znth (fst (pk 4 s)) 3 =? c_T)) = false.
Proof.
  intros H. destruct (4 <=? length (fst (pk 4 s)))%nat eqn:E; [|reflexivity]. apply Nat.leb_le in E.
  unfold znth. rewrite !pk_nth by lia. cbn [andb].
  destruct (is_digit (nth 0 s 0)) eqn:D0; [|reflexivity].
  destruct (is_digit (nth 1 s 0)) eqn:D1; [|reflexivity].
  destruct (is_digit (nth 2 s 0)) eqn:D2; [|reflexivity]. cbn [andb].
  destruct (H 3%nat) as [H1 H2]; [|lia].
  intros i Hi. destruct i as [|[|[|i]]]; auto; lia.
Qed.

(* the first characters after the integer part of a decimal-radix literal *)
Lemma num_rest_head n s : num_wf n -> terminated s = true ->
  let S1 := zs ((if n_dot n then 46%N :: n_fw n else []) ++ exp_text (n_exp n)) ++ s in
  is_digit (shead S1) = false /\ shead S1 <> c_minus /\ shead S1 <> c_T /\
  is_b (shead S1) = false /\ is_x (shead S1) = false.
Proof.
  intros (_ & _ & _ & He) Hs. destruct (terminated_head s Hs) as (T1 & T2 & T3 & T4 & T5 & T6 & T7 & T8).
  destruct (n_dot n); cbn [app zs map shead].
  - unfold is_digit, c_minus, c_T, is_b, is_x. lia.
  - destruct (n_exp n) as [[[m sg] ed]|]; cbn [exp_text app zs map shead].
    + destruct He as (Hm & _). unfold is_digit, c_minus, c_T, is_b, is_x. lia.
    + unfold terminated in Hs. destruct (stops_cases _ _ Hs) as [H|H].
      * apply stop_char_cases in H. unfold is_digit, c_minus, c_T, is_b, is_x. lia.
      * rewrite H. repeat split; (reflexivity || discriminate).
Qed.

Lemma us_tail_nil_gen w p : us_tail is_dec_b w p -> p = [] -> w = [].
Proof.
  induction 1 as [|c w p Hc Ht IH|c w p Hc Ht IH]; intros Hp; [reflexivity|discriminate|].
  specialize (IH Hp). discriminate IH.
Qed.
Lemma us_tail_nil_inv w : us_tail is_dec_b w [] -> w = [].
Proof. intros H. exact (us_tail_nil_gen w [] H eq_refl). Qed.

(* a decimal-radix literal is scanned as tokenNumber *)
Lemma scan_kind_number n c0 iw' ip' s :
  num_wf n -> n_iw n = c0 :: iw' -> n_ip n = c0 :: ip' -> us_tail is_dec_b iw' ip' -> terminated s = true ->
  scan_kind (Z.of_N c0)
    (zs (iw' ++ (if n_dot n then 46%N :: n_fw n else []) ++ exp_text (n_exp n)) ++ s) = tokenNumber.
Proof.
  intros Hwf Hiw Hip Ht Hs. pose proof (num_rest_head n s Hwf Hs) as HS1. cbv zeta in HS1.
  destruct HS1 as (R1 & R2 & R3 & R4 & R5).
  set (S1 := zs ((if n_dot n then 46%N :: n_fw n else []) ++ exp_text (n_exp n)) ++ s) in *.
  assert (E : zs (iw' ++ (if n_dot n then 46%N :: n_fw n else []) ++ exp_text (n_exp n)) ++ s = zs iw' ++ S1).
  { unfold S1. now rewrite !zs_app, <- !app_assoc. }
  rewrite E. unfold scan_kind.
  assert (Hnts : no_ts_mark (zs iw' ++ S1)) by (apply (no_ts_mark_tail iw' ip' S1 Ht), no_ts_mark_base; auto).
  rewrite (scan_kind_not_ts _ Hnts).
  (* a leading zero stands alone *)
  destruct (Z.eqb_spec (Z.of_N c0) c_0) as [E0|E0]; [|reflexivity]. cbn [andb].
  destruct Hwf as (_ & Hl & _). rewrite Hip in Hl. assert (c0 = 48%N) by (unfold c_0 in E0; lia). subst c0.
  destruct Hl as [Hl|Hl]; [|cbn [hd] in Hl; congruence]. injection Hl as ->.
  rewrite (us_tail_nil_inv iw' Ht). cbn [zs map app].
  destruct (0 <? length (fst (pk 4 S1)))%nat eqn:L; [|reflexivity]. apply Nat.ltb_lt in L. cbn [andb].
  unfold znth. rewrite pk_nth by exact L.
  assert (Hh : nth 0 S1 0 = shead S1 \/ S1 = []) by (destruct S1; [right|left]; reflexivity).
  destruct Hh as [Hh|Hh]; [rewrite Hh, R4, R5; reflexivity|]. rewrite Hh in L. cbn in L. lia.
Qed.

(* ---- Next on the first character of a number ---------------------------------------------------------------------- *)
Lemma dispatch_digit c : is_digit c = true ->
  next_dispatch c = (tdo k <- t_scan_numeric c; tdo _ <- t_unread c; t_ok k true).
Proof.
  intros H. unfold next_dispatch, is_digit in *.
  replace (c =? -1) with false by lia. replace (c =? c_colon) with false by (unfold c_colon; lia).
  replace (c =? c_lbrace) with false by (unfold c_lbrace; lia). replace (c =? c_rbrace) with false by (unfold c_rbrace; lia).
  replace (c =? c_lbracket) with false by (unfold c_lbracket; lia). replace (c =? c_rbracket) with false by (unfold c_rbracket; lia).
  replace (c =? c_lparen) with false by (unfold c_lparen; lia). replace (c =? c_rparen) with false by (unfold c_rparen; lia).
  replace (c =? c_comma) with false by (unfold c_comma; lia). replace (c =? c_dot) with false by (unfold c_dot; lia).
  replace (c =? c_quote) with false by (unfold c_quote; lia). replace (c =? c_plus) with false by (unfold c_plus; lia).
  replace (c =? c_minus) with false by (unfold c_minus; lia).
  replace (is_operator_char c) with false by (unfold is_operator_char, zmem; cbn [existsb]; lia).
  replace (c =? c_dquote) with false by (unfold c_dquote; lia).
  replace (is_identifier_start c) with false by (unfold is_identifier_start; lia).
  replace ((48 <=? c) && (c <=? 57)) with true by lia. reflexivity.
Qed.

(* the dispatch on a number that begins with the digit c (rest: what follows c), or with '-' and that digit *)
Lemma runK_dispatch_number (neg : bool) c rest k0 u0 kind :
  is_digit c = true -> scan_kind c rest = kind -> (neg = true -> kind <> tokenTimestamp) ->
  runK (next_dispatch (if neg then c_minus else c)) ((if neg then c :: rest else rest), k0, u0) tt
       ((if neg then [c_minus] else []) ++ c :: pks 4 rest, kind, true).
Proof.
  intros Hc Hk Hts. destruct neg; cbn [app].
  - unfold next_dispatch. change (c_minus =? -1) with false. change (c_minus =? c_colon) with false.
    change (c_minus =? c_lbrace) with false. change (c_minus =? c_rbrace) with false.
    change (c_minus =? c_lbracket) with false. change (c_minus =? c_rbracket) with false.
    change (c_minus =? c_lparen) with false. change (c_minus =? c_rparen) with false.
    change (c_minus =? c_comma) with false. change (c_minus =? c_dot) with false.
    change (c_minus =? c_quote) with false. change (c_minus =? c_plus) with false.
    change (c_minus =? c_minus) with true. cbv iota.
    eapply runK_bind; [apply run_runK, run_peek_cons|]. rewrite Hc.
    eapply runK_bind; [apply run_runK, run_read_cons|].
    eapply runK_bind; [apply run_runK, (run_scan_numeric c rest Hc)|]. rewrite Hk.
    destruct (N.eqb_spec kind tokenTimestamp); [exfalso; now apply Hts|].
    eapply runK_bind; [apply run_runK, run_unread|].
    eapply runK_bind; [apply run_runK, run_unread|]. apply runK_t_ok.
  - rewrite (dispatch_digit c Hc).
    eapply runK_bind; [apply run_runK, (run_scan_numeric c rest Hc)|]. rewrite Hk.
    eapply runK_bind; [apply run_runK, run_unread|]. apply runK_t_ok.
Qed.
