(* TokenizerIO.v — the text tokenizer model and the bufio layer.  Text/Tokenizer.v reaches its input [t_in] in ONE place,
   [t_read] (tokenizer.read of ion/tokenizer.go): ReadByte; after a CR a Peek(1) and, if that shows LF, one more
   ReadByte.  That little program is written here as a [client] of the bufio model (Base/Bufio.v) and shown to compute
   exactly what [t_read] computes on the remaining input — so by C19_bufio_chunk_independent every character the
   tokenizer model obtains, CR LF straddling a chunk or buffer boundary included, is independent of how the source
   delivered the bytes, and a failing source surfaces as the model's I/O error, never as end of input. *)
From Coq Require Import List NArith ZArith Arith Bool Lia.
From IonV Require Import Base.Wire Base.Bufio Base.BufioP Text.Tokenizer.
Import ListNotations.

Definition tfin_of (t : tstate) : ferr := if t_ioerr t then FFail else FEof.
Definition tflat_of (t : tstate) : flat := mkFlat (t_in t) (tfin_of t).

(* tokenizer.read() when the push-back buffer is empty, as a program over the buffered reader:
   the answer is the character (or -1 at end of input), or None for an I/O error *)
Definition read_client : client (option Z) :=
  Do OReadByte (fun r =>
    match r with
    | ResByte (RBErr EEof) => Done (Some (-1)%Z)
    | ResByte (RB c) =>
      if (c =? 13)%N then
        Do (OPeek 1) (fun p =>
          match p with
          | ResBytes cs e =>
            match e with
            | Some EEof | None =>
              match cs with
              | c2 :: _ => if (c2 =? 10)%N then Do OReadByte (fun r2 =>
                                               match r2 with ResByte (RB _) => Done (Some 10%Z) | _ => Done None end)
                           else Done (Some 10%Z)
              | [] => Done (Some 10%Z)
              end
            | Some _ => Done None
            end
          | _ => Done None
          end)
      else Done (Some (Z.of_N c))
    | _ => Done None
    end).

(* what t_read answers from the input proper (empty push-back buffer) *)
Definition t_read_in (t : tstate) : option Z * list N :=
  match t_read t with
  | Ok (c, t') => (Some c, t_in t')
  | _ => (None, t_in t)
  end.

Ltac fin Ei := split; [reflexivity|intros H; first [exfalso; apply H; reflexivity | cbn [f_all set_in t_in]; rewrite ?Ei; reflexivity]].

Section WithSize.
Variable bsize : nat.
Hypothesis bsize_pos : (1 <= bsize)%nat.

(* on the chunk-free specification the client computes t_read's answer and leaves t_read's remaining input
   (after an error the model keeps its input; the specification state is then irrelevant) *)
Lemma read_client_spec t :
  t_buf t = [] ->
  fst (run_spec bsize read_client (tflat_of t)) = fst (t_read_in t) /\
  (fst (t_read_in t) <> None -> f_all (snd (run_spec bsize read_client (tflat_of t))) = snd (t_read_in t)).
Proof.
  intros Hb. unfold t_read_in, t_read, read_client, tflat_of, tfin_of. rewrite Hb.
  cbn [run_spec spec_op]. unfold spec_read_byte. cbn [f_all f_fin].
  destruct (t_in t) as [|c r] eqn:Ei.
  - destruct (t_ioerr t); cbn [of_ferr fst snd run_spec]; fin Ei.
  - cbn [fst snd]. destruct (c =? 13)%N eqn:E13.
    + cbn [run_spec spec_op]. unfold spec_peek. cbn [f_all f_fin].
      assert (E0 : (bsize <? 1)%nat = false) by (apply Nat.ltb_ge; exact bsize_pos). rewrite E0.
      destruct r as [|c2 r2].
      * cbn [length Nat.ltb Nat.leb]. destruct (t_ioerr t); cbn [of_ferr fst snd run_spec set_in t_in]; fin Ei.
      * cbn [length Nat.ltb Nat.leb firstn fst snd].
        destruct (c2 =? 10)%N eqn:E10.
        { cbn [run_spec spec_op]. unfold spec_read_byte. cbn [f_all f_fin fst snd set_in t_in]. fin Ei. }
        { cbn [run_spec fst snd set_in t_in]. fin Ei. }
    + cbn [run_spec fst snd set_in t_in]. fin Ei.
Qed.

(* the same against a concrete buffered reader over any chunk schedule that holds the model's input *)
Theorem read_client_bufio t br :
  t_buf t = [] -> Inv bsize br -> abs br = tflat_of t ->
  fst (run bsize read_client br) = fst (t_read_in t).
Proof.
  intros Hb HI Ha. rewrite (run_refines bsize bsize_pos) by exact HI. rewrite Ha. apply read_client_spec. exact Hb.
Qed.

(* hence: two chunkings of the same bytes give the tokenizer model's read the same character *)
Theorem read_chunk_independent s1 s2 :
  s_rest s1 = s_rest s2 -> s_fin s1 = s_fin s2 ->
  fst (run bsize read_client (new_breader s1)) = fst (run bsize read_client (new_breader s2)).
Proof. apply chunk_independent. exact bsize_pos. Qed.

End WithSize.

(* CR LF across a buffer fill: source chunks of 4 bytes, buffer of 4: the CR is the last byte of the first fill *)
Example read_client_crlf_ex :
  let inp := [97; 98; 99; 13; 10; 100]%N in
  let br := new_breader (mkSource inp [3; 0; 0]%nat FEof false) in
  let br3 := snd (run 4 (Do (ODiscard 3) (fun _ => Done tt)) br) in
  fst (run 4 read_client br3) = Some 10%Z /\
  abs (snd (run 4 read_client br3)) = mkFlat [100]%N FEof.
Proof. vm_compute. split; reflexivity. Qed.
