(* SpecText.v — SPECIFICATION: a decoder of Ion 1.0 TEXT written from the grammar of the
   Ion specification (text encoding chapter + the reference ANTLR grammar IonText.g4):
   whitespace and comments, every scalar literal, containers, annotations, symbol
   identifiers, local symbol tables and the version marker.  It shares no code with any
   model of ion-go's tokenizer; it is the judge of C02 (reader), C04/C12 (text writer
   output) and C07 (what is outside the grammar).  The symbol-table part reuses the
   specification code of Bin/SpecBin.v ([apply_lst], [is_lst], [resolve_sid]).  No proofs. *)
From Coq Require Import String List NArith ZArith Bool.
From IonV Require Import Base.Wire Data.Ion Bin.SpecBin.
Import ListNotations.
Open Scope N_scope.

(* ---- character classes ------------------------------------------------------------------ *)
Definition in_rng (lo hi c : N) : bool := (lo <=? c) && (c <=? hi).
Definition memN (c : N) (l : list N) : bool := existsb (N.eqb c) l.
Definition is_ws (c : N) : bool := (c =? 32) || in_rng 9 13 c.           (* SP HT LF VT FF CR *)
Definition is_digit (c : N) : bool := in_rng 48 57 c.
Definition is_id_start (c : N) : bool := in_rng 97 122 c || in_rng 65 90 c || (c =? 95) || (c =? 36).
Definition is_id_part (c : N) : bool := is_id_start c || is_digit c.
(* the nineteen operator characters  ! # % & * + - . / ; < = > ? @ ^ ` | ~ *)
Definition is_op (c : N) : bool := memN c [33; 35; 37; 38; 42; 43; 45; 46; 47; 59; 60; 61; 62; 63; 64; 94; 96; 124; 126].
(* numeric stop characters: braces, brackets, parentheses, comma, both quotes, whitespace *)
Definition is_stop (c : N) : bool := is_ws c || memN c [123; 125; 91; 93; 40; 41; 44; 34; 39].

Definition starts_comment (l : list N) : bool :=
  match l with 47 :: c :: _ => (c =? 47) || (c =? 42) | _ => false end.

(* whitespace and both comment forms; [None] = a block comment that never ends.
   st: 0 between tokens, 1 inside // ... end of line, 2 inside /* ... */ *)
Fixpoint skip_ws_st (st : N) (l : list N) : option (list N) :=
  match l with
  | [] => if st =? 2 then None else Some []
  | c :: r =>
    if st =? 0 then
      if is_ws c then skip_ws_st 0 r
      else if c =? 47 then
        match r with
        | c2 :: r2 => if c2 =? 47 then skip_ws_st 1 r2 else if c2 =? 42 then skip_ws_st 2 r2 else Some l
        | [] => Some l
        end
      else Some l
    else if st =? 1 then
      if (c =? 10) || (c =? 13) then skip_ws_st 0 r else skip_ws_st 1 r
    else
      if c =? 42 then
        match r with
        | c2 :: r2 => if c2 =? 47 then skip_ws_st 0 r2 else skip_ws_st 2 r
        | [] => None
        end
      else skip_ws_st 2 r
  end.
Definition skip_ws (l : list N) : option (list N) := skip_ws_st 0 l.
(* inside {{ }} only plain whitespace separates things: comments are not recognised there *)
Fixpoint skip_sp (l : list N) : list N :=
  match l with c :: r => if is_ws c then skip_sp r else l | [] => [] end.

(* a numeric literal (and a timestamp) must be followed by a stop character, the start of a
   comment (IonText.g4 counts comments as whitespace) or the end of the input *)
Definition num_end (l : list N) : bool :=
  match l with [] => true | c :: _ => is_stop c || starts_comment l end.

(* ---- numbers ------------------------------------------------------------------------------ *)
Definition decv (c : N) : option N := if is_digit c then Some (c - 48) else None.
Definition binv (c : N) : option N := if in_rng 48 49 c then Some (c - 48) else None.

(* digits after a first digit; an underscore only between two digits.  acc is reversed. *)
Fixpoint digits_us (isd : N -> option N) (l : list N) (acc : list N) : list N * list N :=
  match l with
  | [] => (rev acc, [])
  | c :: r =>
    match isd c with
    | Some d => digits_us isd r (d :: acc)
    | None =>
      if c =? 95 then
        match r with
        | c2 :: r2 => match isd c2 with Some d2 => digits_us isd r2 (d2 :: acc) | None => (rev acc, l) end
        | [] => (rev acc, l)
        end
      else (rev acc, l)
    end
  end.
Definition num_of (base : N) (ds : list N) : N := fold_left (fun a d => a * base + d) ds 0.
Definition sgn (neg : bool) (n : N) : Z := if neg then (- Z.of_N n)%Z else Z.of_N n.

Definition p_radix (neg : bool) (isd : N -> option N) (base : N) (l : list N) : option (value * list N) :=
  match l with
  | c :: r =>
    match isd c with
    | Some d => let '(ds, rest) := digits_us isd r [d] in
                if num_end rest then Some (VInt (sgn neg (num_of base ds)), rest) else None
    | None => None
    end
  | [] => None
  end.

(* plain digits, at least one (exponents) *)
Fixpoint plain_digits (l : list N) (acc : N) (n : N) : N * N * list N :=
  match l with
  | c :: r => if is_digit c then plain_digits r (acc * 10 + (c - 48)) (n + 1) else (acc, n, l)
  | [] => (acc, n, [])
  end.
Definition p_exp (l : list N) : option (Z * list N) :=
  let '(neg, l1) := match l with 43 :: r => (false, r) | 45 :: r => (true, r) | _ => (false, l) end in
  let '(v, n, r) := plain_digits l1 0 0 in
  if n =? 0 then None else Some (sgn neg v, r).

(* correctly rounded (nearest, ties to even) binary64 of (-1)^neg * m * 10^e, as its bit pattern *)
Definition f64_of_dec (neg : bool) (m : N) (e : Z) : N :=
  let sign := if neg then 2 ^ 63 else 0 in
  let sz := Z.of_N (N.size m) in
  if m =? 0 then sign
  else if (400 <? e)%Z then sign + 2047 * 2 ^ 52
  else if (e <? 0)%Z && (sz + 1100 <? 3 * (- e))%Z then sign
  else
    let num := if (0 <=? e)%Z then m * 10 ^ Z.to_N e else m in
    let den := if (0 <=? e)%Z then 1 else 10 ^ Z.to_N (- e) in
    let d0 := (Z.of_N (N.size num) - Z.of_N (N.size den))%Z in
    let ge_pow2 (x : Z) := if (0 <=? x)%Z then den * 2 ^ Z.to_N x <=? num else den <=? num * 2 ^ Z.to_N (- x) in
    let e2 := if ge_pow2 d0 then d0 else (d0 - 1)%Z in          (* 2^e2 <= num/den < 2^(e2+1) *)
    let ec := Z.max e2 (-1022) in
    let sh := (ec - 52)%Z in                                      (* unit in the last place *)
    let n2 := if (0 <=? sh)%Z then num else num * 2 ^ Z.to_N (- sh) in
    let d2 := if (0 <=? sh)%Z then den * 2 ^ Z.to_N sh else den in
    let q := n2 / d2 in
    let r := n2 mod d2 in
    let q' := if (d2 <? 2 * r) || ((2 * r =? d2) && N.odd q) then q + 1 else q in
    let bits := Z.to_N (ec + 1022) * 2 ^ 52 + q' in            (* a carry out of the mantissa lands in the exponent *)
    if 2047 * 2 ^ 52 <=? bits then sign + 2047 * 2 ^ 52 else sign + bits.

Definition mk_dec (neg : bool) (ids fds : list N) (e : Z) : value :=
  let co := num_of 10 (ids ++ fds) in
  VDecimal {| d_coef := sgn neg co; d_exp := (e - Z.of_nat (length fds))%Z; d_negzero := neg && (co =? 0) |}.
Definition mk_float (neg : bool) (ids fds : list N) (e : Z) : value :=
  VFloat (f64_of_dec neg (num_of 10 (ids ++ fds)) (e - Z.of_nat (length fds))%Z).

(* decimal-radix literal starting at its first digit: int, decimal or float *)
Definition p_decnum (neg : bool) (l : list N) : option (value * list N) :=
  match l with
  | [] => None
  | c :: r =>
    if negb (is_digit c) then None else
    let '(ids, r1) := if c =? 48 then ([0], r) else digits_us decv r [c - 48] in    (* no leading zeros *)
    let fin (v : value) (rest : list N) := if num_end rest then Some (v, rest) else None in
    let with_exp (fds : list N) (r3 : list N) (had_dot : bool) :=
      match r3 with
      | x :: r4 =>
        if (x =? 101) || (x =? 69) then
          match p_exp r4 with Some (e, r5) => fin (mk_float neg ids fds e) r5 | None => None end
        else if (x =? 100) || (x =? 68) then
          match p_exp r4 with Some (e, r5) => fin (mk_dec neg ids fds e) r5 | None => None end
        else if had_dot then fin (mk_dec neg ids fds 0%Z) r3
        else fin (VInt (sgn neg (num_of 10 ids))) r3
      | [] => if had_dot then Some (mk_dec neg ids fds 0%Z, []) else Some (VInt (sgn neg (num_of 10 ids)), [])
      end in
    match r1 with
    | 46 :: r2 =>
      let '(fds, r3) := match r2 with
                        | c2 :: r2' => if is_digit c2 then digits_us decv r2' [c2 - 48] else ([], r2)
                        | [] => ([], r2)
                        end in
      with_exp fds r3 true
    | _ => with_exp [] r1 false
    end
  end.

(* ---- timestamps ----------------------------------------------------------------------------- *)
Open Scope Z_scope.
(* proleptic Gregorian calendar, days since 1970-01-01, floor division throughout *)
Definition days_from_civil (y m d : Z) : Z :=
  let y' := if m <=? 2 then y - 1 else y in
  let era := y' / 400 in
  let yoe := y' - era * 400 in
  let doy := (153 * (if 2 <? m then m - 3 else m + 9) + 2) / 5 + d - 1 in
  let doe := yoe * 365 + yoe / 4 - yoe / 100 + doy in
  era * 146097 + doe - 719468.
Definition civil_from_days (z0 : Z) : Z * Z * Z :=
  let z := z0 + 719468 in
  let era := z / 146097 in
  let doe := z - era * 146097 in
  let yoe := (doe - doe / 1460 + doe / 36524 - doe / 146096) / 365 in
  let doy := doe - (365 * yoe + yoe / 4 - yoe / 100) in
  let mp := (5 * doy + 2) / 153 in
  let d := doy - (153 * mp + 2) / 5 + 1 in
  let m := if mp <? 10 then mp + 3 else mp - 9 in
  ((if m <=? 2 then yoe + era * 400 + 1 else yoe + era * 400), m, d).
Definition is_leap (y : Z) : bool := (y mod 4 =? 0) && (negb (y mod 100 =? 0) || (y mod 400 =? 0)).
Definition month_len (y m : Z) : Z :=
  if m =? 2 then (if is_leap y then 29 else 28)
  else if (m =? 4) || (m =? 6) || (m =? 9) || (m =? 11) then 30 else 31.
Close Scope Z_scope.

(* binary primitive fields (encoders, by the book) *)
Fixpoint be_groups (k : nat) (b v : N) (acc : list N) : list N :=
  match k with
  | O => acc
  | S k' => if v <? b then v :: acc else be_groups k' b (v / b) (v mod b :: acc)
  end.
Definition be_of (b v : N) : list N := be_groups (S (N.to_nat (N.size v))) b v [].
Fixpoint flag_last (l : list N) : list N :=
  match l with [] => [] | [x] => [x + 128] | x :: r => x :: flag_last r end.
Definition enc_varuint (v : N) : list N := flag_last (be_of 128 v).
Definition enc_varint (z : Z) : list N :=
  let g := be_of 128 (Z.abs_N z) in
  let g := match g with x :: _ => if 64 <=? x then 0 :: g else g | [] => [0] end in
  let g := match g with x :: r => (if (z <? 0)%Z then x + 64 else x) :: r | [] => [] end in
  flag_last g.
Definition enc_int_pos (v : N) : list N :=          (* Int field of a positive magnitude *)
  let g := be_of 256 v in
  match g with x :: _ => if 128 <=? x then 0 :: g else g | [] => [] end.

Definition dig2 (l : list N) : option (Z * list N) :=
  match l with
  | a :: b :: r => if is_digit a && is_digit b then Some (Z.of_N ((a - 48) * 10 + (b - 48)), r) else None
  | _ => None
  end.
Definition dig4 (l : list N) : option (Z * list N) :=
  match dig2 l with
  | Some (hi, r) => match dig2 r with Some (lo, r') => Some ((hi * 100 + lo)%Z, r') | None => None end
  | None => None
  end.

(* offset: Z | +hh:mm | -hh:mm ; result: None = unknown (-00:00), Some minutes *)
Definition p_offset (l : list N) : option (option Z * list N) :=
  match l with
  | 90 :: r => Some (Some 0%Z, r)
  | c :: r =>
    if (c =? 43) || (c =? 45) then
      match dig2 r with
      | Some (hh, 58 :: r1) =>
        match dig2 r1 with
        | Some (mm, r2) =>
          if ((hh <=? 23) && (mm <=? 59))%Z then
            let m := (hh * 60 + mm)%Z in
            if c =? 45 then (if (m =? 0)%Z then Some (None, r2) else Some (Some (- m)%Z, r2))
            else Some (Some m, r2)
          else None
        | None => None
        end
      | _ => None
      end
    else None
  | [] => None
  end.

(* the binary body of a timestamp given by its LOCAL fields; prec 1..6 as in ion.Timestamp:
   1 year, 2 month, 3 day, 4 minute, 5 second, 6 fraction *)
Definition ts_value (prec : N) (y mo d h mi sec : Z) (off : option Z) (nfrac : N) (frac : N) : value :=
  let '(y', mo', d', h', mi') :=
    match off with
    | Some o =>
      if (o =? 0)%Z then (y, mo, d, h, mi) else
      let tot := (days_from_civil y mo d * 1440 + h * 60 + mi - o)%Z in
      let days := (tot / 1440)%Z in
      let rem := (tot mod 1440)%Z in
      let '(cy, cm, cd) := civil_from_days days in
      (cy, cm, cd, (rem / 60)%Z, (rem mod 60)%Z)
    | None => (y, mo, d, h, mi)
    end in
  let u (z : Z) := enc_varuint (Z.to_N z) in
  VTimestamp
    ((match off with None => [192] | Some o => enc_varint o end)
     ++ u y'
     ++ (if 2 <=? prec then u mo' else [])
     ++ (if 3 <=? prec then u d' else [])
     ++ (if 4 <=? prec then u h' ++ u mi' else [])
     ++ (if 5 <=? prec then u sec else [])
     ++ (if 6 <=? prec then enc_varint (- Z.of_N nfrac) ++ (if frac =? 0 then [] else enc_int_pos frac) else [])).

(* a timestamp starting at its four year digits (the caller saw dddd followed by T or -) *)
Definition p_timestamp (l : list N) : option (value * list N) :=
  let fin (v : value) (rest : list N) := if num_end rest then Some (v, rest) else None in
  match dig4 l with
  | None => None
  | Some (y, r0) =>
    if (y <? 1)%Z then None else
    match r0 with
    | 84 :: r1 => fin (ts_value 1 y 1 1 0 0 0 None 0 0) r1                            (* yyyyT *)
    | 45 :: r1 =>
      match dig2 r1 with
      | None => None
      | Some (mo, r2) =>
        if negb ((1 <=? mo) && (mo <=? 12))%Z then None else
        match r2 with
        | 84 :: r3 => fin (ts_value 2 y mo 1 0 0 0 None 0 0) r3                       (* yyyy-mmT *)
        | 45 :: r3 =>
          match dig2 r3 with
          | None => None
          | Some (d, r4) =>
            if negb ((1 <=? d) && (d <=? month_len y mo))%Z then None else
            let day := ts_value 3 y mo d 0 0 0 None 0 0 in
            match r4 with
            | 84 :: r5 =>
              match r5 with
              | c :: _ =>
                if negb (is_digit c) then fin day r5                                   (* yyyy-mm-ddT *)
                else
                  match dig2 r5 with
                  | Some (h, 58 :: r6) =>
                    match dig2 r6 with
                    | None => None
                    | Some (mi, r7) =>
                      if negb ((h <=? 23) && (mi <=? 59))%Z then None else
                      match r7 with
                      | 58 :: r8 =>
                        match dig2 r8 with
                        | None => None
                        | Some (sec, r9) =>
                          if negb (sec <=? 59)%Z then None else
                          match r9 with
                          | 46 :: r10 =>
                            let '(fr, n, r11) := plain_digits r10 0 0 in
                            if n =? 0 then None else
                            match p_offset r11 with
                            | Some (off, r12) => fin (ts_value 6 y mo d h mi sec off n fr) r12
                            | None => None
                            end
                          | _ =>
                            match p_offset r9 with
                            | Some (off, r10) => fin (ts_value 5 y mo d h mi sec off 0 0) r10
                            | None => None
                            end
                          end
                        end
                      | _ =>
                        match p_offset r7 with
                        | Some (off, r8) => fin (ts_value 4 y mo d h mi 0 off 0 0) r8
                        | None => None
                        end
                      end
                    end
                  | _ => None
                  end
              | [] => Some (day, [])
              end
            | _ => fin day r4                                                            (* yyyy-mm-dd *)
            end
          end
        | _ => None
        end
      end
    | _ => None
    end
  end.

Definition looks_like_timestamp (l : list N) : bool :=
  match l with
  | a :: b :: c :: d :: e :: _ => is_digit a && is_digit b && is_digit c && is_digit d && ((e =? 84) || (e =? 45))
  | _ => false
  end.

(* any numeric literal, [l] starting at a digit or at '-' followed by a digit *)
Definition p_number (l : list N) : option (value * list N) :=
  let '(neg, l1) := match l with 45 :: r => (true, r) | _ => (false, l) end in
  match l1 with
  | 48 :: x :: r =>
    if (x =? 120) || (x =? 88) then p_radix neg hexval 16 r
    else if (x =? 98) || (x =? 66) then p_radix neg binv 2 r
    else if negb neg && looks_like_timestamp l1 then p_timestamp l1
    else p_decnum neg l1
  | _ => if negb neg && looks_like_timestamp l1 then p_timestamp l1 else p_decnum neg l1
  end.

(* ---- text: escapes, strings, quoted symbols, clob text ------------------------------------------ *)
Definition utf8_enc (cp : N) : list N :=
  if cp <? 128 then [cp]
  else if cp <? 2048 then [192 + cp / 64; 128 + cp mod 64]
  else if cp <? 65536 then [224 + cp / 4096; 128 + (cp / 64) mod 64; 128 + cp mod 64]
  else [240 + cp / 262144; 128 + (cp / 4096) mod 64; 128 + (cp / 64) mod 64; 128 + cp mod 64].

(* one well-formed UTF-8 sequence (RFC 3629 table) at the head of [l] *)
Definition is_cont (c : N) : bool := in_rng 128 191 c.
Definition utf8_seq (l : list N) : option (list N * list N) :=
  match l with
  | c :: r =>
    if in_rng 194 223 c then
      match r with c1 :: r' => if is_cont c1 then Some ([c; c1], r') else None | _ => None end
    else if in_rng 224 239 c then
      match r with
      | c1 :: c2 :: r' =>
        let lo := if c =? 224 then 160 else 128 in
        let hi := if c =? 237 then 159 else 191 in
        if in_rng lo hi c1 && is_cont c2 then Some ([c; c1; c2], r') else None
      | _ => None
      end
    else if in_rng 240 244 c then
      match r with
      | c1 :: c2 :: c3 :: r' =>
        let lo := if c =? 240 then 144 else 128 in
        let hi := if c =? 244 then 143 else 191 in
        if in_rng lo hi c1 && is_cont c2 && is_cont c3 then Some ([c; c1; c2; c3], r') else None
      | _ => None
      end
    else None
  | [] => None
  end.

Fixpoint hexn (k : nat) (l : list N) (acc : N) : option (N * list N) :=
  match k with
  | O => Some (acc, l)
  | S k' => match l with
            | c :: r => match hexval c with Some d => hexn k' r (acc * 16 + d) | None => None end
            | [] => None
            end
  end.

Inductive esc := EChar (cp : N) | ENothing.
(* [l] is what follows a backslash.  In a clob ([lob]) only the 7-bit escapes and \xHH exist. *)
Definition p_escape (lob : bool) (l : list N) : option (esc * list N) :=
  match l with
  | [] => None
  | c :: r =>
    if c =? 48 then Some (EChar 0, r) else if c =? 97 then Some (EChar 7, r)
    else if c =? 98 then Some (EChar 8, r) else if c =? 116 then Some (EChar 9, r)
    else if c =? 110 then Some (EChar 10, r) else if c =? 102 then Some (EChar 12, r)
    else if c =? 114 then Some (EChar 13, r) else if c =? 118 then Some (EChar 11, r)
    else if c =? 34 then Some (EChar 34, r) else if c =? 39 then Some (EChar 39, r)
    else if c =? 63 then Some (EChar 63, r) else if c =? 92 then Some (EChar 92, r)
    else if c =? 47 then Some (EChar 47, r)
    else if c =? 10 then Some (ENothing, r)
    else if c =? 13 then Some (ENothing, match r with 10 :: r' => r' | _ => r end)
    else if c =? 120 then
      match hexn 2 r 0 with Some (v, r') => Some (EChar v, r') | None => None end
    else if lob then None
    else if c =? 117 then
      match hexn 4 r 0 with
      | Some (v, r') =>
        if in_rng 55296 56319 v then                     (* high surrogate: a low one must follow *)
          match r' with
          | 92 :: 117 :: r2 =>
            match hexn 4 r2 0 with
            | Some (w, r3) => if in_rng 56320 57343 w then Some (EChar (65536 + (v - 55296) * 1024 + (w - 56320)), r3) else None
            | None => None
            end
          | _ => None
          end
        else if in_rng 56320 57343 v then None
        else Some (EChar v, r')
      | None => None
      end
    else if c =? 85 then
      match hexn 8 r 0 with
      | Some (v, r') => if (1114111 <? v) || in_rng 55296 57343 v then None else Some (EChar v, r')
      | None => None
      end
    else None
  end.

(* raw characters allowed in every quoted form: printable ASCII, HT VT FF; in text also
   well-formed UTF-8.  The delimiter, backslash and newlines are handled by the callers. *)
Definition raw_ok (c : N) : bool := (32 <=? c) && (c <? 128) || (c =? 9) || (c =? 11) || (c =? 12).

(* body of a short string (delim 34) or quoted symbol (delim 39), after the opening quote *)
Fixpoint p_quoted (k : nat) (delim : N) (lob : bool) (l : list N) (acc : list N) : option (list N * list N) :=
  match k with
  | O => None
  | S k' =>
    match l with
    | [] => None
    | c :: r =>
      if c =? delim then Some (rev acc, r)
      else if c =? 92 then
        match p_escape lob r with
        | Some (EChar cp, r') => p_quoted k' delim lob r' (rev_append (if lob then [cp] else utf8_enc cp) acc)
        | Some (ENothing, r') => p_quoted k' delim lob r' acc
        | None => None
        end
      else if c <? 128 then (if raw_ok c then p_quoted k' delim lob r (c :: acc) else None)
      else if lob then None
      else match utf8_seq l with
           | Some (bs, r') => p_quoted k' delim lob r' (rev_append bs acc)
           | None => None
           end
    end
  end.

(* body of '''...''', after the opening quotes; raw newlines are content, CR LF and CR read as LF *)
Fixpoint p_long (k : nat) (lob : bool) (l : list N) (acc : list N) : option (list N * list N) :=
  match k with
  | O => None
  | S k' =>
    match l with
    | [] => None
    | c :: r =>
      if c =? 39 then
        match r with
        | 39 :: 39 :: r' => Some (rev acc, r')
        | _ => p_long k' lob r (39 :: acc)
        end
      else if c =? 92 then
        match p_escape lob r with
        | Some (EChar cp, r') => p_long k' lob r' (rev_append (if lob then [cp] else utf8_enc cp) acc)
        | Some (ENothing, r') => p_long k' lob r' acc
        | None => None
        end
      else if c =? 13 then
        match r with
        | 10 :: r' => p_long k' lob r' (10 :: acc)
        | _ => p_long k' lob r (10 :: acc)
        end
      else if c <? 128 then (if raw_ok c || (c =? 10) then p_long k' lob r (c :: acc) else None)
      else if lob then None
      else match utf8_seq l with
           | Some (bs, r') => p_long k' lob r' (rev_append bs acc)
           | None => None
           end
    end
  end.

(* one or more long segments, concatenated; [l] follows an opening '''.  Between segments:
   whitespace and comments in text, whitespace only inside {{ }}.  The rest starts right
   after the last segment. *)
Fixpoint p_long_seq (k : nat) (lob : bool) (l : list N) (acc : list N) : option (list N * list N) :=
  match k with
  | O => None
  | S k' =>
    match p_long k lob l [] with
    | Some (t, r) =>
      match (if lob then Some (skip_sp r) else skip_ws r) with
      | Some (39 :: 39 :: 39 :: r2) => p_long_seq k' lob r2 (acc ++ t)
      | Some _ => Some (acc ++ t, r)
      | None => None
      end
    | None => None
    end
  end.

(* ---- blobs ------------------------------------------------------------------------------------------- *)
Definition b64val (c : N) : option N :=
  if in_rng 65 90 c then Some (c - 65) else if in_rng 97 122 c then Some (c - 71)
  else if is_digit c then Some (c + 4) else if c =? 43 then Some 62 else if c =? 47 then Some 63 else None.
(* sextets and '=' signs up to the closing }} ; whitespace anywhere; nothing after the first '=' but '=' *)
Fixpoint b64_scan (l : list N) (vals : list N) (pads : N) : option (list N * N * list N) :=
  match l with
  | [] => None
  | c :: r =>
    if is_ws c then b64_scan r vals pads
    else if c =? 125 then match r with 125 :: r' => Some (rev vals, pads, r') | _ => None end
    else if c =? 61 then b64_scan r vals (pads + 1)
    else match b64val c with
         | Some v => if pads =? 0 then b64_scan r (v :: vals) pads else None
         | None => None
         end
  end.
Fixpoint b64_bytes (vals : list N) : list N :=
  match vals with
  | a :: b :: c :: d :: r =>
    let w := ((a * 64 + b) * 64 + c) * 64 + d in
    w / 65536 :: (w / 256) mod 256 :: w mod 256 :: b64_bytes r
  | [a; b; c] => let w := (a * 64 + b) * 64 + c in [w / 1024; (w / 4) mod 256]
  | [a; b] => let w := a * 64 + b in [w / 16]
  | _ => []
  end.
Definition p_blob (l : list N) : option (value * list N) :=
  match b64_scan l [] 0 with
  | Some (vals, pads, r) =>
    let n := N.of_nat (length vals) in
    if ((n + pads) mod 4 =? 0) && (pads <=? 2) && negb (n mod 4 =? 1) then Some (VBlob (b64_bytes vals), r) else None
  | None => None
  end.

(* [l] follows the two opening braces *)
Definition p_lob (k : nat) (l : list N) : option (value * list N) :=
  let close (b : list N) (r : list N) :=
    match skip_sp r with 125 :: 125 :: r' => Some (VClob b, r') | _ => None end in
  match skip_sp l with
  | 34 :: r1 => match p_quoted k 34 true r1 [] with Some (b, r2) => close b r2 | None => None end
  | 39 :: 39 :: 39 :: r1 => match p_long_seq k true r1 [] with Some (b, r2) => close b r2 | None => None end
  | l1 => p_blob l1
  end.

(* ---- symbols ------------------------------------------------------------------------------------------- *)
Fixpoint p_ident_acc (l : list N) (acc : list N) : list N * list N :=
  match l with
  | c :: r => if is_id_part c then p_ident_acc r (c :: acc) else (rev acc, l)
  | [] => (rev acc, [])
  end.
Definition p_ident (l : list N) : list N * list N := p_ident_acc l [].

Local Open Scope string_scope.
Definition type_code (t : list N) : option N :=
  if tok_is t "null" then Some 1 else if tok_is t "bool" then Some 2 else if tok_is t "int" then Some 3
  else if tok_is t "float" then Some 4 else if tok_is t "decimal" then Some 5 else if tok_is t "timestamp" then Some 6
  else if tok_is t "symbol" then Some 7 else if tok_is t "string" then Some 8 else if tok_is t "clob" then Some 9
  else if tok_is t "blob" then Some 10 else if tok_is t "list" then Some 11 else if tok_is t "sexp" then Some 12
  else if tok_is t "struct" then Some 13 else None.
Definition is_keyword (t : list N) : bool :=
  tok_is t "null" || tok_is t "true" || tok_is t "false" || tok_is t "nan".
Local Close Scope string_scope.

(* an unquoted identifier that is not a keyword: $<digits> is a symbol ID, anything else its own text *)
Definition ident_symbol (ctx : symctx) (t : list N) : option symv :=
  match t with
  | 36 :: d :: ds =>
    if forallb is_digit (d :: ds) then
      match parse_N (d :: ds) with Some n => resolve_sid ctx n | None => None end
    else Some (SymText t)
  | _ => Some (SymText t)
  end.

(* operator symbol inside an s-expression: the longest run of operator characters that does
   not run into a comment *)
Fixpoint p_operator (l : list N) (acc : list N) : list N * list N :=
  match l with
  | c :: r => if is_op c && negb (starts_comment l) then p_operator r (c :: acc) else (rev acc, l)
  | [] => (rev acc, [])
  end.

Definition after_inf (r : list N) : bool := match r with c :: _ => negb (is_id_part c) | [] => true end.

(* ---- containers (the value parser is a parameter) ------------------------------------------------- *)
Section Containers.
  Variable pv : list N -> option (value * list N).

  (* after '[' : values separated by commas, one trailing comma allowed (IonText.g4) *)
  Fixpoint p_list_items (k : nat) (l : list N) : option (list value * list N) :=
    match k with
    | O => None
    | S k' =>
      match skip_ws l with
      | Some (93 :: r) => Some ([], r)
      | Some l1 =>
        match pv l1 with
        | Some (v, r1) =>
          match skip_ws r1 with
          | Some (44 :: r2) => match p_list_items k' r2 with Some (vs, r3) => Some (v :: vs, r3) | None => None end
          | Some (93 :: r2) => Some ([v], r2)
          | _ => None
          end
        | None => None
        end
      | None => None
      end
    end.

  (* after '(' : values separated by nothing at all *)
  Fixpoint p_sexp_items (k : nat) (l : list N) : option (list value * list N) :=
    match k with
    | O => None
    | S k' =>
      match skip_ws l with
      | Some (41 :: r) => Some ([], r)
      | Some l1 =>
        match pv l1 with
        | Some (v, r1) => match p_sexp_items k' r1 with Some (vs, r2) => Some (v :: vs, r2) | None => None end
        | None => None
        end
      | None => None
      end
    end.

  Variable pname : list N -> option (symv * list N).
  (* after '{' : name ':' value, separated by commas, one trailing comma allowed *)
  Fixpoint p_fields (k : nat) (l : list N) : option (list (symv * value) * list N) :=
    match k with
    | O => None
    | S k' =>
      match skip_ws l with
      | Some (125 :: r) => Some ([], r)
      | Some l1 =>
        match pname l1 with
        | Some (y, r1) =>
          match skip_ws r1 with
          | Some (58 :: r2) =>
            match skip_ws r2 with
            | Some r3 =>
              match pv r3 with
              | Some (v, r4) =>
                match skip_ws r4 with
                | Some (44 :: r5) => match p_fields k' r5 with Some (fs, r6) => Some ((y, v) :: fs, r6) | None => None end
                | Some (125 :: r5) => Some ([(y, v)], r5)
                | _ => None
                end
              | None => None
              end
            | None => None
            end
          | _ => None
          end
        | None => None
        end
      | None => None
      end
    end.
End Containers.

(* a field name: symbol (identifier, $n, quoted) or string (short, or long segments) *)
Definition p_field_name (k : nat) (ctx : symctx) (l : list N) : option (symv * list N) :=
  match l with
  | 34 :: r => match p_quoted k 34 false r [] with Some (t, r') => Some (SymText t, r') | None => None end
  | 39 :: 39 :: 39 :: r => match p_long_seq k false r [] with Some (t, r') => Some (SymText t, r') | None => None end
  | 39 :: r => match p_quoted k 39 false r [] with Some (t, r') => Some (SymText t, r') | None => None end
  | c :: _ =>
    if is_id_start c then
      let '(t, r) := p_ident l in
      if is_keyword t then None
      else match ident_symbol ctx t with Some y => Some (y, r) | None => None end
    else None
  | [] => None
  end.

(* ---- values ------------------------------------------------------------------------------------------------- *)
(* one value from the front of [l] (already past whitespace), with the annotations [anns]
   read so far; [sx] = directly inside an s-expression (operators are symbols there) *)
Fixpoint p_val (fuel : nat) (ctx : symctx) (sx : bool) (anns : list symv) (l : list N) : option (value * list N) :=
  match fuel with
  | O => None
  | S f =>
    let ret (v : value) (r : list N) := Some (match anns with [] => v | _ => VAnn anns v end, r) in
    let wrap (o : option (value * list N)) := match o with Some (v, r) => ret v r | None => None end in
    (* a symbol token: an annotation when '::' follows, else a symbol value *)
    let sym_or_ann (y : symv) (r : list N) :=
      match skip_ws r with
      | Some (58 :: 58 :: r2) =>
        match skip_ws r2 with Some r3 => p_val f ctx sx (anns ++ [y]) r3 | None => None end
      | Some _ => ret (VSymbol y) r
      | None => None
      end in
    let operator (l0 : list N) :=
      if sx then let '(t, r) := p_operator l0 [] in
                 match t with [] => None | _ => ret (VSymbol (SymText t)) r end
      else None in
    match l with
    | [] => None
    | c :: r =>
      if c =? 34 then                                                          (* short string *)
        match p_quoted f 34 false r [] with Some (t, r') => ret (VString t) r' | None => None end
      else if c =? 39 then
        match r with
        | 39 :: 39 :: r1 =>                                                     (* '''long''' ... *)
          match p_long_seq f false r1 [] with Some (t, r') => ret (VString t) r' | None => None end
        | _ =>                                                                  (* 'quoted symbol' *)
          match p_quoted f 39 false r [] with Some (t, r') => sym_or_ann (SymText t) r' | None => None end
        end
      else if c =? 123 then
        match r with
        | 123 :: r1 => wrap (p_lob f r1)                                       (* {{ lob }} *)
        | _ => match p_fields (p_val f ctx false []) (p_field_name f ctx) f r with
               | Some (fs, r') => ret (VStruct fs) r'
               | None => None
               end
        end
      else if c =? 91 then
        match p_list_items (p_val f ctx false []) f r with Some (vs, r') => ret (VList vs) r' | None => None end
      else if c =? 40 then
        match p_sexp_items (p_val f ctx true []) f r with Some (vs, r') => ret (VSexp vs) r' | None => None end
      else if is_digit c then wrap (p_number l)
      else if c =? 45 then
        match r with
        | d :: _ =>
          if is_digit d then wrap (p_number l)
          else match r with
               | 105 :: 110 :: 102 :: r' =>
                 if after_inf r' then ret (VFloat (2 ^ 63 + 2047 * 2 ^ 52)) r' else operator l    (* -inf *)
               | _ => operator l
               end
        | [] => operator l
        end
      else if c =? 43 then
        match r with
        | 105 :: 110 :: 102 :: r' =>
          if after_inf r' then ret (VFloat (2047 * 2 ^ 52)) r' else operator l                    (* +inf *)
        | _ => operator l
        end
      else if is_id_start c then
        let '(t, r') := p_ident l in
        if tok_is t "null"%string then
          match r' with
          | 46 :: r1 => let '(t2, r2) := p_ident r1 in
                        match type_code t2 with Some ty => ret (VNull ty) r2 | None => None end
          | _ => ret (VNull 1) r'
          end
        else if tok_is t "true"%string then ret (VBool true) r'
        else if tok_is t "false"%string then ret (VBool false) r'
        else if tok_is t "nan"%string then ret (VFloat 9221120237041090560) r'
        else match ident_symbol ctx t with Some y => sym_or_ann y r' | None => None end
      else operator l
    end
  end.

(* ---- streams ------------------------------------------------------------------------------------------------- *)
Fixpoint p_stream (k : nat) (fuel : nat) (ctx : symctx) (l : list N) : option (list value) :=
  match k with
  | O => None
  | S k' =>
    match skip_ws l with
    | None => None
    | Some [] => Some []
    | Some l1 =>
      let normal :=
        match p_val fuel ctx false [] l1 with
        | Some (v, r) =>
          match is_lst v with
          | Some fs => match apply_lst ctx fs with Some ctx' => p_stream k' fuel ctx' r | None => None end
          | None => option_map (cons v) (p_stream k' fuel ctx r)
          end
        | None => None
        end in
      (* the bare identifier $ion_1_0, unannotated and not itself an annotation: version marker *)
      let '(t, r) := p_ident l1 in
      if tok_is t "$ion_1_0"%string then
        match skip_ws r with
        | Some (58 :: 58 :: _) => normal
        | Some _ => p_stream k' fuel system_ctx r
        | None => None
        end
      else normal
    end
  end.

Definition tdecode_ctx (ctx : symctx) (l : list N) : option (list value) :=
  p_stream (S (length l)) (length l + 2) ctx l.
Definition tdecode (l : list N) : option (list value) := tdecode_ctx system_ctx l.
