(* SpellOp2.v — C02, stage 8b (continued): an operator symbol directly followed by a comment, `(+/**/1)`,
   `(+// c` LF `1)`.  The grammar ends an operator in front of `//` and `/*`; readOperator (as repaired, see
   SpellIdent.v) looks two characters ahead at every slash and stops there.  [run_read_operator_c] is the spelling
   theorem of readOperator for that case, [next_opc] one round of Next. *)
From Coq Require Import String List NArith ZArith Bool Lia ZifyBool ZifyN ZifyNat.
From IonV Require Import Base.Wire Base.Utf8 Data.Ion Bin.Bits Bin.BitStream Bin.BinReader Num.Float Text.Tokenizer Text.Skipper
  Text.TextReader Text.TextNum Text.SpellBase Text.SpellWs Text.SpellNum Text.SpellTok Text.SpellRead
  Text.SpellEsc Text.SpellStr Text.SpellLong Text.SpellIdent Text.SpellSym Text.SpellVal Text.SpellSymVal Text.SpellOp.
Import ListNotations.
Open Scope Z_scope.

(* the stream begins with `//` or `/*` *)
Definition comment_opener (t : list Z) : bool :=
  (shead t =? c_slash) && ((shead (stail t) =? c_slash) || (shead (stail t) =? c_star)).
(* after an operator symbol c :: r: a comment follows at once, and the operator does not end in a slash *)
Definition f_opc (c : N) (r : list N) (wn rest : list N) : Prop :=
  comment_opener (zs (wn ++ rest)) = true /\ last (c :: r) 0%N <> 47%N.

Lemma comment_opener_inv t : comment_opener t = true -> exists b r, t = 47 :: b :: r /\ (b = 47 \/ b = 42).
Proof.
  unfold comment_opener, c_slash, c_star. intros H. apply andb_true_iff in H as [H1 H2].
  destruct t as [|a [|b r]]; cbn [shead stail] in *; try lia.
  exists b, r. split; [f_equal; lia|lia].
Qed.
Lemma op_head_facts t : is_operator_char (shead t) = true -> starts_inf t = false /\ is_digit (shead t) = false.
Proof.
  unfold starts_inf, is_operator_char, is_digit, zmem. cbn [existsb]. intros H. split; lia.
Qed.
Lemma op_char_first c : op_char c -> is_whitespace (Z.of_N c) = false /\ c <> 58%N.
Proof.
  unfold op_char. cbn [In]. intros H.
  repeat (destruct H as [<-|H]; [split; [reflexivity|discriminate]|]). contradiction.
Qed.

(* ---- readOperator in front of a comment ----------------------------------------------------------------------------------------- *)
Lemma run_read_operator_loop_c : forall w f acc s,
  Forall op_char w -> no_comment_start w = true -> last w 0%N <> 47%N -> comment_opener s = true -> (length w < f)%nat ->
  run (read_operator_loop f acc) (zs w ++ s) (rev acc ++ w) s.
Proof.
  induction w as [|c w IH]; intros f acc s Hw Hn Hl Hs Hf; (destruct f as [|f]; [lia|]); cbn [read_operator_loop zs map app].
  - destruct (comment_opener_inv s Hs) as (b & r0 & -> & Hb).
    eapply run_bind; [apply run_peek_cons|]. change (is_operator_char 47) with true. cbv iota.
    change (47 =? c_slash) with true. cbv iota.
    eapply run_bind.
    { eapply run_bind; [apply (run_peekN 2 [47; b] r0); [reflexivity|repeat constructor; lia]|].
      cbv beta iota. apply run_ret. }
    cbn [length Nat.eqb andb znth nth].
    replace ((b =? c_slash) || (b =? c_star)) with true by (unfold c_slash, c_star; lia). cbv iota.
    rewrite app_nil_r. apply run_ret.
  - inversion Hw as [|? ? Hc Hw']; subst. destruct (op_char_model c Hc) as (Hoc & Hc256 & _).
    cbn [no_comment_start] in Hn. apply andb_true_iff in Hn as [Hn1 Hn2]. apply negb_true_iff in Hn1.
    assert (Hl' : last w 0%N <> 47%N) by (destruct w as [|d w']; [cbn; lia|exact Hl]).
    eapply run_bind; [apply run_peek_cons|]. rewrite Hoc.
    assert (Hgo : forall st, run (read_operator_loop f (c :: acc)) st (rev acc ++ c :: w) s ->
                             run (tdo _ <- t_read; read_operator_loop f (byte_of (Z.of_N c) :: acc)) (Z.of_N c :: st)
                                 (rev acc ++ c :: w) s).
    { intros st H. rewrite (byte_of_N c Hc256). eapply run_bind; [apply run_read_cons|]. exact H. }
    assert (Hrec : run (read_operator_loop f (c :: acc)) (zs w ++ s) (rev acc ++ c :: w) s).
    { eapply run_eq; [apply (IH f (c :: acc) s Hw' Hn2 Hl' Hs); cbn [length] in Hf; lia| |reflexivity].
      cbn [rev]. now rewrite <- app_assoc. }
    destruct (Z.eqb_spec (Z.of_N c) c_slash) as [E|E].
    + assert (c = 47%N) by (unfold c_slash in E; lia). subst c. change ((47 =? 47)%N) with true in Hn1. cbn [andb] in Hn1.
      destruct w as [|d w']; [cbn [last] in Hl; lia|].
      inversion Hw' as [|? ? Hd _]; subst. destruct (op_char_model d Hd) as (_ & Hd256 & _).
      cbn [zs map app] in *.
      eapply run_bind.
      { eapply run_bind; [apply (run_peekN 2 [47; Z.of_N d] (zs w' ++ s)); [reflexivity|repeat constructor; lia]|].
        cbv beta iota. apply run_ret. }
      cbn [length Nat.eqb andb znth nth].
      replace ((Z.of_N d =? c_slash) || (Z.of_N d =? c_star)) with false by (unfold c_slash, c_star; lia). cbv iota.
      apply (Hgo (Z.of_N d :: zs w' ++ s)). exact Hrec.
    + eapply run_bind; [apply run_ret|]. cbv iota. apply (Hgo (zs w ++ s)). exact Hrec.
Qed.
Theorem run_read_operator_c w s :
  op_chars w -> no_comment_start w = true -> last w 0%N <> 47%N -> comment_opener s = true ->
  run read_operator (zs w ++ s) w s.
Proof.
  intros Hw Hn Hl Hs. unfold read_operator. apply run_with_fuel. intros f Hf.
  rewrite nne_app, nne_zs in Hf.
  eapply run_eq; [apply (run_read_operator_loop_c w f [] s (op_chars_all _ Hw) Hn Hl Hs); lia|reflexivity|reflexivity].
Qed.
Lemma runK_read_value_opc w s k u :
  op_chars w -> no_comment_start w = true -> last w 0%N <> 47%N -> comment_opener s = true ->
  runK (t_read_value tokenSymbolOperator) (zs w ++ s, k, u) w (s, k, false).
Proof.
  intros Hw Hn Hl Hs. apply (runK_read_value tokenSymbolOperator read_operator); [reflexivity|].
  now apply run_read_operator_c.
Qed.

(* ---- Next on the first character ---------------------------------------------------------------------------------------------------- *)
Definition op_lookc (c : N) (r : list N) : nat := if ((c =? 43) || (c =? 45))%N then (5 - length r)%nat else 0%nat.
Lemma runK_dispatch_opc c r s k0 :
  op_chars (c :: r) -> comment_opener s = true ->
  runK (next_dispatch (Z.of_N c)) (zs r ++ s, k0, false) tt
       (Z.of_N c :: zs r ++ pks (op_lookc c r) s, tokenSymbolOperator, true).
Proof.
  intros Hw Hs. inversion Hw as [c' r' Hc Hr]; subst.
  assert (Hop : is_operator_char (shead (zs r ++ s)) = true).
  { destruct r as [|d r2]; cbn [zs map app shead].
    - destruct (comment_opener_inv s Hs) as (b & r0 & -> & _). reflexivity.
    - inversion Hr as [|? ? Hd _]; subst. apply (op_char_model d Hd). }
  destruct (op_head_facts _ Hop) as [Hni Hnd].
  assert (Hne : spush (zs r ++ s) = zs r ++ s).
  { destruct r; cbn [zs map app]; [|reflexivity]. destruct (comment_opener_inv s Hs) as (b & r0 & -> & _). reflexivity. }
  destruct (N.eq_dec c 43) as [->|H43]; [|destruct (N.eq_dec c 45) as [->|H45]; [|destruct (N.eq_dec c 46) as [->|H46]]].
  - unfold op_lookc. cbn [N.eqb Pos.eqb orb].
    change (next_dispatch (Z.of_N 43)) with
      (tdo ok <- t_is_inf 43; if ok then t_ok tokenFloatInf false else tdo _ <- t_unread 43; t_ok tokenSymbolOperator true).
    eapply runK_bind; [apply run_runK, (run_is_inf_no 43 _ (or_introl eq_refl) Hni)|]. cbv iota.
    eapply runK_bind; [apply run_runK, run_unread|]. rewrite pks_zs_app. apply runK_t_ok.
  - unfold op_lookc. cbn [N.eqb Pos.eqb orb].
    change (next_dispatch (Z.of_N 45)) with
        (tdo c2 <- t_peek;
         if is_digit c2 then
           tdo _ <- t_read; tdo k <- t_scan_numeric c2;
           if (k =? tokenTimestamp)%N then fail else tdo _ <- t_unread c2; tdo _ <- t_unread 45; t_ok k true
         else tdo ok <- t_is_inf 45; if ok then t_ok tokenFloatMinusInf false
              else tdo _ <- t_unread 45; t_ok tokenSymbolOperator true).
    eapply runK_bind; [apply run_runK, run_peek|]. rewrite Hnd, Hne.
    eapply runK_bind; [apply run_runK, (run_is_inf_no 45 _ (or_intror eq_refl) Hni)|]. cbv iota.
    eapply runK_bind; [apply run_runK, run_unread|]. rewrite pks_zs_app. apply runK_t_ok.
  - unfold op_lookc. cbn [N.eqb Pos.eqb orb pks].
    change (next_dispatch (Z.of_N 46)) with
      (tdo c2 <- t_peek;
       if is_operator_char c2 then tdo _ <- t_unread 46; t_ok tokenSymbolOperator true
       else tdo _ <- t_unread 46; t_ok tokenDot false).
    eapply runK_bind; [apply run_runK, run_peek|]. rewrite Hop, Hne.
    eapply runK_bind; [apply run_runK, run_unread|]. apply runK_t_ok.
  - unfold op_lookc. replace ((c =? 43)%N) with false by lia. replace ((c =? 45)%N) with false by lia. cbn [orb pks].
    rewrite (dispatch_op_plain c Hc H43 H45 H46).
    eapply runK_bind; [apply run_runK, run_unread|]. apply runK_t_ok.
Qed.

(* the first character of the operator stops the whitespace skipper *)
Lemma opc_first_stop c r s :
  op_chars (c :: r) -> no_comment_start (c :: r) = true -> last (c :: r) 0%N <> 47%N -> comment_opener s = true ->
  ws_stop (Z.of_N c :: zs r ++ s) = true /\ after_stop (Z.of_N c :: zs r ++ s) = zs r ++ s.
Proof.
  intros Hw Hn Hl Hs. inversion Hw as [c' r' Hc Hr]; subst. destruct (op_char_first c Hc) as [Hws _].
  assert (Hne : spush (zs r ++ s) = zs r ++ s).
  { destruct r; cbn [zs map app]; [|reflexivity]. destruct (comment_opener_inv s Hs) as (b & r0 & -> & _). reflexivity. }
  unfold ws_stop, after_stop. cbn [shead stail]. rewrite Hws. cbn [negb andb].
  destruct (Z.eqb_spec (Z.of_N c) c_slash) as [E|E]; [|split; reflexivity].
  assert (c = 47%N) by (unfold c_slash in E; lia). subst c. rewrite Hne. split; [|reflexivity].
  cbn [no_comment_start] in Hn. apply andb_true_iff in Hn as [Hn _]. apply negb_true_iff in Hn.
  change ((47 =? 47)%N) with true in Hn. cbn [andb] in Hn.
  destruct r as [|d r2]; [cbn [last] in Hl; lia|]. cbn [zs map app shead].
  unfold c_slash, c_star. replace (Z.of_N d =? 47) with ((d =? 47)%N) by lia. replace (Z.of_N d =? 42) with ((d =? 42)%N) by lia.
  now rewrite Hn.
Qed.

Section Values.
Variable pd : list N -> res dec.
Variable pt : list N -> res (list N).
Variable api : xstate -> xstate * res bool.
Notation BTA := trsBeforeTypeAnnotations.

Lemma next_opc w c r wn S2 k0 ctxr lst fld ann ty0 v0 kk fuel :
  ws_run w -> no_cr w -> op_chars (c :: r) -> no_comment_start (c :: r) = true -> last (c :: r) 0%N <> 47%N ->
  ws_run wn -> no_cr wn -> ws_stop S2 = true -> dcolon S2 = false -> comment_opener (zs wn ++ S2) = true ->
  rrun (x_next_loop pd pt api (S kk) fuel)
       (mkax (zs w ++ zs (c :: r) ++ zs wn ++ S2) k0 false BTA (CSexp :: ctxr) false false lst fld ann ty0 v0) true
       (mkax (after_dcolon (pks (op_lookc c r - length wn) S2)) tokenSymbolOperator
             false BTA (CSexp :: ctxr) false false lst fld ann TSymbol (XSymbol (name_symbol_token lst (c :: r)))).
Proof.
  intros Hw Hcr Hop Hnc Hl Hwn Hcrn Hs2 Hdc Hco x Hi Ha.
  set (s := zs wn ++ S2) in *.
  set (S2p := pks (op_lookc c r - length wn) S2).
  destruct (opc_first_stop c r s Hop Hnc Hl Hco) as [Hst Has].
  assert (Hwne : nonempty wn = true).
  { destruct wn; [|reflexivity]. cbn [zs map app] in s. unfold s in Hco. unfold ws_stop in Hs2. unfold comment_opener in Hco.
    apply andb_true_iff in Hs2 as [_ Hs2]. apply negb_true_iff in Hs2. congruence. }
  assert (Hco' : comment_opener (zs wn ++ S2p) = true).
  { destruct (comment_opener_inv s Hco) as (b & r0 & Es & Hb). unfold S2p. rewrite <- pks_zs_app. fold s. rewrite Es.
    unfold comment_opener. rewrite shead_pks, shead_stail_pks. cbn [shead stail]. unfold c_slash, c_star. lia. }
  destruct (loop_sym pd pt api w (zs (c :: r) ++ s) k0 tokenSymbolOperator true
              (zs (c :: r) ++ zs wn ++ S2p) (CSexp :: ctxr) lst fld ann ty0 v0 true
              (mkax (after_dcolon S2p) tokenSymbolOperator false BTA (CSexp :: ctxr) false false lst fld ann TSymbol
                    (XSymbol (name_symbol_token lst (c :: r))))
              kk fuel Hw Hcr) with (x := x) as (x2 & Hi2 & Ha2 & E); auto.
  - change (zs (c :: r) ++ s) with (Z.of_N c :: zs r ++ s). cbn [shead]. rewrite Has.
    pose proof (runK_dispatch_opc c r s k0 Hop Hco) as R.
    unfold s in R at 2. rewrite pks_zs_app in R. exact R.
  - right; right. split; [now left|eauto].
  - apply rrun_rget_bind. intros y Hy Hay. xfields Hay. unfold sym_branch.
    eapply rrun_bind; [apply rrun_lift; cbn [a_s a_k a_u]; apply (runK_read_value_opc (c :: r) (zs wn ++ S2p) _ _ Hop Hnc Hl Hco')|].
    unfold ax_tok. cbn [a_s a_k a_u a_state a_ctx a_eof a_err a_lst a_field a_annots a_type a_value].
    eapply rrun_bind.
    { apply rrun_lift_run. cbn [a_s].
      apply (run_skip_double_colon_no wn S2p Hwn Hcrn).
      - unfold S2p; now rewrite ws_stop_pks.
      - unfold S2p; now rewrite dcolon_pks. }
    cbv beta iota. unfold ax_tok. cbn [a_s a_k a_u a_state a_ctx a_eof a_err a_lst a_field a_annots a_type a_value].
    tok_cbn.
    unfold on_symbol. pose proof (op_not_keyword (c :: r) Hop) as Hkw. unfold is_keyword in Hkw.
    apply orb_false_iff in Hkw as [Hkw K4]. apply orb_false_iff in Hkw as [Hkw K3]. apply orb_false_iff in Hkw as [K1 K2].
    rewrite K1, K2, K3, K4.
    eapply rrun_bind.
    { apply rrun_rget_bind. intros z Hz Haz. xfields Haz. rewrite Flst0.
      eapply rrun_bind; [apply rrun_of_res; apply (op_symbol_token lst (c :: r) Hop)|]. apply rrun_set_value. }
    apply rrun_rget_bind. intros z Hz Haz. xfields Haz. rewrite Ftype0. tok_cbn. apply rrun_ret.
  - exists x2. rewrite E. xfields Ha2. rewrite Feof. auto.
Qed.
End Values.

(* the operator, seen from the value in front of it *)
Lemma opc_startok_raw c r t :
  op_chars (c :: r) -> no_comment_start (c :: r) = true -> last (c :: r) 0%N <> 47%N -> comment_opener (zs t) = true ->
  ws_stop (zs ((c :: r) ++ t)) = true.
Proof.
  intros Hop Hnc Hl Hco. destruct (opc_first_stop c r (zs t) Hop Hnc Hl Hco) as [Hst _].
  rewrite zs_app. exact Hst.
Qed.
