(* WriteSpellTs.v — C01, text half: [ts_fmt_ok] (Text/WriteSpell.v) holds of the concrete timestamp format
   [fmt_ts_std] (Text/WriteSpellTsDef.v) for the body of EVERY well-formed timestamp ([wf_ts], the quantifier of C15):
   the text is Timestamp.String of the timestamp ([ts_format]), it is a literal of the grammar ([ts_ok] shape,
   C15_text_valid_literal), and the specification decoder's value of that literal ([spec_value]: the binary body
   computed from the LOCAL fields and the offset as written, by SpecText's own calendar and field encoders) is the
   body the binary Writer model emits for the same timestamp ([ts_body]: Go's time arithmetic on the UTC instant,
   appendVarUint / appendVarInt / appendInt). *)
From Coq Require Import String List NArith ZArith Bool Lia ZifyBool ZifyN ZifyNat.
From IonV Require Import Base.Wire Data.Ion Bin.Bits Bin.BitsP Num.Calendar Num.CalendarP Num.CalendarS
  Num.Timestamp Num.TimestampP Num.TimestampT Text.TextWriter Text.TextNum Text.WriteSpellTsDef.
From IonV Require Text.SpecText Text.SpellTs Text.WriteSpell.
Import ListNotations.
Open Scope Z_scope.
Ltac Zify.zify_post_hook ::= Z.div_mod_to_equations.

Lemma leqb_eq (a b : list N) : list_eqb a b = true -> a = b.
Proof.
  revert b. induction a as [|x a IH]; intros [|y b]; cbn [list_eqb]; try discriminate; [reflexivity|].
  intros H. apply andb_true_iff in H as [H1 H2]. apply N.eqb_eq in H1. subst. f_equal. auto.
Qed.

(* ---- the specification's field encoders against Go's, on the ranges a timestamp uses ------------------------- *)
Lemma sweep_varuint :
  all_range 14 (fun z => list_eqb (SpecText.enc_varuint (Z.to_N z)) (vu (Z.to_N z))) 0 = true.
Proof. vm_compute. reflexivity. Qed.
Lemma enc_varuint_vu v : 0 <= v <= 10000 -> SpecText.enc_varuint (Z.to_N v) = vu (Z.to_N v).
Proof. intros H. apply leqb_eq. apply (all_range_spec _ _ _ sweep_varuint). cbn. lia. Qed.

Lemma sweep_varint :
  all_range 12 (fun z => list_eqb (SpecText.enc_varint z) (vi z)) (-2048) = true.
Proof. vm_compute. reflexivity. Qed.
Lemma enc_varint_vi v : -1440 < v < 1440 -> SpecText.enc_varint v = vi v.
Proof. intros H. apply leqb_eq. apply (all_range_spec _ _ _ sweep_varint). cbn. lia. Qed.

Lemma enc_varint_exp nf : 1 <= nf <= 9 -> SpecText.enc_varint (- nf) = [Z.to_N (Z.lor nf 192)].
Proof.
  intros H. assert (E : nf = 1 \/ nf = 2 \/ nf = 3 \/ nf = 4 \/ nf = 5 \/ nf = 6 \/ nf = 7 \/ nf = 8 \/ nf = 9) by lia.
  repeat (destruct E as [->|E]; [reflexivity|]). subst. reflexivity.
Qed.

(* the Int field of a positive coefficient: be_of 256 (fuel from the bit size) against appendUint's loop *)
Lemma be_groups_loop b k : (1 < b)%N -> forall v acc, (0 < v)%N ->
  SpecText.be_groups k b v acc = be_loop b k v acc.
Proof.
  intros Hb. induction k as [|k IH]; intros v acc Hv; [reflexivity|].
  cbn [SpecText.be_groups be_loop]. replace (0 <? v)%N with true by lia.
  destruct (N.ltb_spec v b) as [Hlt|Hge].
  - replace (v / b)%N with 0%N by (symmetry; apply N.div_small; exact Hlt).
    replace (v mod b)%N with v by (symmetry; apply N.mod_small; exact Hlt).
    destruct k; reflexivity.
  - apply IH. assert (b * 1 <= v)%N by lia. pose proof (N.div_le_lower_bound v b 1 ltac:(lia) H). lia.
Qed.
Lemma be_loop_fuel2 b : (1 < b)%N -> forall f1 f2 v acc, (v < b ^ N.of_nat f1)%N -> (v < b ^ N.of_nat f2)%N ->
  be_loop b f1 v acc = be_loop b f2 v acc.
Proof.
  intros Hb. induction f1 as [|f1 IH]; intros f2 v acc H1 H2.
  - cbn in H1. assert (v = 0)%N by lia. subst. destruct f2; reflexivity.
  - destruct f2 as [|f2].
    + cbn in H2. assert (v = 0)%N by lia. subst. reflexivity.
    + cbn [be_loop]. destruct (0 <? v)%N; [|reflexivity]. apply IH.
      * rewrite Nat2N.inj_succ, N.pow_succ_r' in H1. apply N.div_lt_upper_bound; lia.
      * rewrite Nat2N.inj_succ, N.pow_succ_r' in H2. apply N.div_lt_upper_bound; lia.
Qed.
Lemma enc_int_pos_append c : 0 < c < 1000000000 -> SpecText.enc_int_pos (Z.to_N c) = append_int [] c.
Proof.
  intros H. unfold SpecText.enc_int_pos, SpecText.be_of, append_int, append_uint, mag64.
  replace (c =? 0) with false by lia. replace (c <? 0) with false by lia.
  replace (Z.to_N (Z.abs c)) with (Z.to_N c) by lia. set (v := Z.to_N c). assert (Hv : (0 < v < 1000000000)%N) by lia.
  rewrite be_groups_loop by lia. cbn [app].
  assert (E : be_loop 256 8 (v / 256)%N [(v mod 256)%N] = be_loop 256 (S (N.to_nat (N.size v))) v []).
  { transitivity (be_loop 256 9 v []).
    - cbn [be_loop]. replace (0 <? v)%N with true by lia. reflexivity.
    - apply be_loop_fuel2; [lia| |].
      + change (256 ^ N.of_nat 9)%N with 4722366482869645213696%N. lia.
      + pose proof (lt_256_pow_size v) as Hs. rewrite size_nat_size in Hs.
        rewrite Nat2N.inj_succ, N2Nat.id, N.pow_succ_r'. lia. }
  rewrite E. unfold sign_bytes.
  destruct (be_loop 256 (S (N.to_nat (N.size v))) v []) as [|x r]; [reflexivity|].
  destruct (N.ltb_spec x 128); [replace (128 <=? x)%N with false by lia|replace (128 <=? x)%N with true by lia]; reflexivity.
Qed.

(* ---- the body the binary Writer model emits, field by field ------------------------------------------------------ *)
Definition off_bytes (k : tzkind) (om : Z) : list N := match k with KUnspec => [192%N] | _ => vi om end.
Definition frac_bytes (nf ns : Z) : list N :=
  if 0 <? nf then
    Z.to_N (Z.lor nf 192) :: (if 0 <? ns / 10 ^ (9 - nf) then append_int [] (ns / 10 ^ (9 - nf)) else [])
  else [].
Definition fv (v : Z) : list N := vu (Z.to_N v).
Definition body_of (p : tprec) (k : tzkind) (om uy umo ud uh umi us nf ns : Z) : list N :=
  off_bytes k om ++ fv uy ++
  match p with
  | PMonth => fv umo
  | PDay => fv umo ++ fv ud
  | PMinute => fv umo ++ fv ud ++ fv uh ++ fv umi
  | PSecond => fv umo ++ fv ud ++ fv uh ++ fv umi ++ fv us
  | PNano => fv umo ++ fv ud ++ fv uh ++ fv umi ++ fv us ++ frac_bytes nf ns
  | _ => []
  end.

Lemma len_fv v : N.of_nat (length (fv v)) = varuint_len (Z.to_N v).
Proof. unfold fv, vu. rewrite varuint_len_ok. cbn [length]. lia. Qed.
Lemma len_fv1 v : 0 <= v < 128 -> length (fv v) = 1%nat.
Proof. intros H. pose proof (len_fv v) as L. rewrite vlen_small in L by exact H. lia. Qed.
Lemma len_vi om : -1440 < om < 1440 -> N.of_nat (length (vi om)) = varint_len om.
Proof. intros H. unfold vi. apply varint_len_ok. unfold two63. lia. Qed.
Lemma len_frac nf ns : 0 <= nf <= 9 -> 0 <= ns < 1000000000 ->
  N.of_nat (length (frac_bytes nf ns)) =
  (if 0 <? nf then if 0 <? ns / 10 ^ (9 - nf) then (1 + int_len (ns / 10 ^ (9 - nf)))%N else 1%N else 0%N).
Proof.
  intros Hnf Hns. unfold frac_bytes. destruct (0 <? nf); [|reflexivity].
  destruct (0 <? ns / 10 ^ (9 - nf)) eqn:E; [|reflexivity]. cbn [length]. rewrite Nat2N.inj_succ.
  rewrite int_len_ok; [lia|].
  assert (0 < 10 ^ (9 - nf)) by (apply Z.pow_pos_nonneg; lia).
  assert (ns / 10 ^ (9 - nf) <= ns) by (apply Z.div_le_upper_bound; nia).
  unfold two64. lia.
Qed.

Lemma ts_body_view tm p k nf a ns om uy umo ud uh umi us :
  tm = mkTime a ns (60 * om) -> go_fields (mkTime a ns 0) = (uy, umo, ud, uh, umi, us) -> -1440 < om < 1440 ->
  0 <= uy <= 10000 -> 0 <= umo <= 12 -> 0 <= ud <= 31 -> 0 <= uh < 24 -> 0 <= umi < 60 -> 0 <= us < 60 ->
  0 <= ns < 1000000000 -> 0 <= nf <= 9 ->
  ts_body (mkTs tm p k nf) = body_of p k om uy umo ud uh umi us nf ns /\
  timestamp_len om (ts_utc (mkTs tm p k nf)) = N.of_nat (length (body_of p k om uy umo ud uh umi us nf ns)).
Proof.
  intros -> EU Hom Hy Hmo Hd Hh Hmi Hs Hns Hnf.
  unfold ts_body, ts_utc, timestamp_len, append_timestamp, go_in. cbn [t_time t_prec t_kind t_nfrac g_off g_abs g_nsec].
  rewrite quot_60, EU. rewrite !u64_small by (unfold two64z; lia).
  rewrite (truncated_nanos_div ns nf ltac:(lia) Hnf).
  set (q := ns / 10 ^ (9 - nf)). set (e := Z.to_N (Z.lor nf 192)).
  split.
  - unfold body_of, off_bytes, frac_bytes, fv. fold q e.
    destruct p, k; rewrite ?append_varuint_vu, ?append_varint_vi, ?app_nil_r; repeat rewrite <- app_assoc; cbn [app]; try reflexivity;
      (destruct (0 <? nf); [destruct (0 <? q); [rewrite append_int_app|]|]; repeat first [rewrite <- app_assoc | rewrite <- app_comm_cons]; rewrite ?app_nil_r; cbn [app]; reflexivity).
  - pose proof (len_frac nf ns Hnf Hns) as LF. fold q in LF.
    unfold body_of, off_bytes. rewrite !app_length, !Nat2N.inj_add, len_fv.
    assert (L1 : forall v, 0 <= v < 128 -> N.of_nat (length (fv v)) = 1%N) by (intros v Hv; rewrite len_fv1 by exact Hv; reflexivity).
    pose proof (L1 umo ltac:(lia)) as Lmo. pose proof (L1 ud ltac:(lia)) as Ld. pose proof (L1 uh ltac:(lia)) as Lh.
    pose proof (L1 umi ltac:(lia)) as Lmi. pose proof (L1 us ltac:(lia)) as Ls. pose proof (len_vi om Hom) as Lo.
    destruct p, k; cbv iota; rewrite ?app_length, ?Nat2N.inj_add, ?LF, ?Lo, ?Lmo, ?Ld, ?Lh, ?Lmi, ?Ls; cbn [length N.of_nat];
      try lia; destruct (0 <? nf); try lia; destruct (0 <? q); lia.
Qed.

(* ---- the specification's calendar is Num/Calendar's; the UTC fields it computes are Go's ---------------------------- *)
Lemma spec_dfc y m d : SpecText.days_from_civil y m d = days_from_civil y m d.
Proof.
  unfold SpecText.days_from_civil, days_from_civil, days_per_era, epoch_shift.
  destruct (Z.leb_spec m 2), (Z.ltb_spec 2 m); try lia; reflexivity.
Qed.
Lemma spec_cfd z : SpecText.civil_from_days z = civil_from_days z.
Proof. reflexivity. Qed.

Definition sp_utc (y mo d h mi : Z) (off : option Z) : Z * Z * Z * Z * Z :=
  match off with
  | Some o =>
    if o =? 0 then (y, mo, d, h, mi) else
    let tot := SpecText.days_from_civil y mo d * 1440 + h * 60 + mi - o in
    let days := tot / 1440 in
    let rem := tot mod 1440 in
    let '(cy, cm, cd) := SpecText.civil_from_days days in
    (cy, cm, cd, rem / 60, rem mod 60)
  | None => (y, mo, d, h, mi)
  end.
Lemma ts_value_eq prec y mo d h mi sec off nfrac frac :
  SpecText.ts_value prec y mo d h mi sec off nfrac frac =
  let '(y', mo', d', h', mi') := sp_utc y mo d h mi off in
  let u (z : Z) := SpecText.enc_varuint (Z.to_N z) in
  VTimestamp
    ((match off with None => [192%N] | Some o => SpecText.enc_varint o end)
     ++ u y'
     ++ (if (2 <=? prec)%N then u mo' else [])
     ++ (if (3 <=? prec)%N then u d' else [])
     ++ (if (4 <=? prec)%N then u h' ++ u mi' else [])
     ++ (if (5 <=? prec)%N then u sec else [])
     ++ (if (6 <=? prec)%N then SpecText.enc_varint (- Z.of_N nfrac) ++ (if (frac =? 0)%N then [] else SpecText.enc_int_pos frac) else [])).
Proof. reflexivity. Qed.

Lemma sp_utc_go y mo d h mi s uy umo ud uh umi a om off :
  valid_date y mo d = true -> valid_date uy umo ud = true -> tod_ok h mi s -> tod_ok uh umi s ->
  abs_of y mo d h mi s = a + 60 * om -> abs_of uy umo ud uh umi s = a ->
  (off = None /\ om = 0 \/ off = Some om) ->
  sp_utc y mo d h mi off = (uy, umo, ud, uh, umi).
Proof.
  intros V UV T UT EA UA Hoff.
  assert (Hz : om = 0 -> (uy, umo, ud, uh, umi, s) = (y, mo, d, h, mi, s)).
  { intros ->. apply abs_of_inj; auto. rewrite UA, EA. lia. }
  unfold sp_utc. destruct Hoff as [[-> Ho]| ->].
  - specialize (Hz Ho). now inversion Hz.
  - destruct (Z.eqb_spec om 0) as [Ho|Ho]; [specialize (Hz Ho); now inversion Hz|].
    rewrite spec_dfc, spec_cfd. cbv zeta.
    destruct T as (?&?&?), UT as (?&?&?). unfold abs_of in EA, UA.
    assert (Et : days_from_civil y mo d * 1440 + h * 60 + mi - om = days_from_civil uy umo ud * 1440 + (uh * 60 + umi)) by lia.
    rewrite Et.
    replace ((days_from_civil uy umo ud * 1440 + (uh * 60 + umi)) / 1440) with (days_from_civil uy umo ud) by lia.
    replace ((days_from_civil uy umo ud * 1440 + (uh * 60 + umi)) mod 1440) with (uh * 60 + umi) by lia.
    rewrite civil_of_days_of_civil by exact UV.
    replace ((uh * 60 + umi) / 60) with uh by lia. replace ((uh * 60 + umi) mod 60) with umi by lia. reflexivity.
Qed.

Lemma spec_off_of k om : -1440 < om < 1440 -> (k = KLocal <-> 60 * om <> 0) ->
  (SpellTs.spec_off (off_of k om) = None /\ om = 0 /\ k = KUnspec \/ SpellTs.spec_off (off_of k om) = Some om /\ k <> KUnspec).
Proof.
  intros Hom Hk. destruct (Z.eq_dec om 0) as [->|Hne].
  - assert (k <> KLocal) by (intros E; apply Hk in E; lia).
    destruct k; [left; auto|right; split; [reflexivity|discriminate]|exfalso; apply H; reflexivity].
  - assert (Ek : k = KLocal) by (apply Hk; lia). subst k. right. split; [|discriminate].
    unfold off_of. destruct (om <? 0) eqn:E; cbn [SpellTs.spec_off].
    + replace (Z.to_N (Z.abs om / 60) * 60 + Z.to_N (Z.abs om mod 60) =? 0)%N with false by lia. f_equal. lia.
    + f_equal. lia.
Qed.

Lemma dvalN_dval l : forall acc, Z.of_N (fold_left (fun a d => a * 10 + d)%N l acc) = fold_left (fun a d => a * 10 + Z.of_N d) l (Z.of_N acc).
Proof.
  induction l as [|c r IH]; intros acc; [reflexivity|]. cbn [fold_left]. rewrite IH. f_equal. lia.
Qed.

Lemma append_timestamp_app b off utc : append_timestamp b off utc = b ++ append_timestamp [] off utc.
Proof.
  unfold append_timestamp. destruct (go_fields (t_time utc)) as [[[[[y mo] d] h] mi] s].
  set (q := truncated_nanos (g_nsec (t_time utc)) (t_nfrac utc)).
  destruct (t_kind utc), (t_prec utc); rewrite ?append_varuint_vu, ?append_varint_vi;
    try (repeat rewrite <- app_assoc; cbn [app]; reflexivity);
    (destruct (0 <? t_nfrac utc); [destruct (0 <? q); [rewrite !(append_int_app (_ ++ _))|]|];
     repeat rewrite <- app_assoc; cbn [app]; reflexivity).
Qed.

(* ---- the body of a well-formed timestamp ---------------------------------------------------------------------------------- *)
Ltac leb_eval :=
  repeat match goal with
         | |- context [(?a <=? ?b)%N] => let v := eval vm_compute in (a <=? b)%N in change (a <=? b)%N with v
         end.

Theorem ts_body_spec t : wf_ts t ->
  SpellTs.spec_value (shape_of t) = VTimestamp (ts_body t) /\
  ts_write_bin t = append_tag [] 96 (N.of_nat (length (ts_body t))) ++ ts_body t.
Proof.
  intros W. destruct (wf_unpack t W) as (a & ns & om & y & mo & d & h & mi & s & WV).
  destruct WV as [ET Hom Ha EF V T EA R Hy Hns].
  unfold wf_ts in W. rewrite EF in W. destruct W as (_ & _ & _ & _ & Hnf & Hpn & Hmod & Hp).
  destruct t as [tm p k nf]. cbn [t_time t_prec t_kind t_nfrac] in *.
  destruct (utc_view a ns) as (uy & umo & ud & uh & umi & us & EU & UV & UT & UA & UY).
  { rewrite abs_lo_val, abs_hi_val in *. lia. }
  destruct (valid_date_ranges uy umo ud UV) as [Humo Hud]. pose proof UT as (Uh & Um & Us).
  destruct (valid_date_ranges y mo d V) as [Hmo Hd]. pose proof T as (Hh & Hmi & Hs).
  assert (Hsec : us = s) by (unfold abs_of in UA, EA; lia). subst us.
  destruct (ts_body_view tm p k nf a ns om uy umo ud uh umi s ET EU Hom UY ltac:(lia) ltac:(lia) Uh Um Us Hns Hnf) as [EB EL].
  split.
  2:{ unfold ts_write_bin. cbn [t_time t_prec t_kind t_nfrac]. fold (ts_utc (mkTs tm p k nf)).
      rewrite append_timestamp_app. fold (ts_body (mkTs tm p k nf)). f_equal. f_equal.
      rewrite <- EB in EL. rewrite <- EL. rewrite ET. cbn [g_off]. now rewrite quot_60. }
  rewrite EB. unfold shape_of. cbn [t_time t_prec t_kind t_nfrac]. rewrite EF. rewrite ET. cbn [g_off g_nsec]. rewrite quot_60.
  assert (NF0 : p <> PNano -> nf = 0 /\ ns = 0).
  { intros Hne. assert (nf = 0) by (destruct (Z_lt_le_dec nf 1); [lia|exfalso; apply Hne; apply Hpn; lia]).
    split; [assumption|]. subst tm. cbn [g_nsec] in Hmod. apply (nfrac_zero_nsec ns nf Hns H Hmod). }
  destruct p.
  - contradiction.
  - destruct Hp as (-> & Hoff & -> & -> & -> & -> & ->). subst tm. cbn [g_off] in Hoff. assert (om = 0) by lia. subst om.
    cbn [SpellTs.spec_value]. rewrite ts_value_eq, !Z2N.id by lia.
    rewrite (sp_utc_go y 1 1 0 0 0 uy umo ud uh umi a 0 None V UV T UT EA UA) by auto.
    cbv zeta beta iota. leb_eval. cbv iota. rewrite !enc_varuint_vu by lia. 
    unfold body_of, off_bytes, fv. rewrite ?app_nil_r. reflexivity.
  - destruct Hp as (-> & Hoff & -> & -> & -> & ->). subst tm. cbn [g_off] in Hoff. assert (om = 0) by lia. subst om.
    cbn [SpellTs.spec_value]. rewrite ts_value_eq, !Z2N.id by lia.
    rewrite (sp_utc_go y mo 1 0 0 0 uy umo ud uh umi a 0 None V UV T UT EA UA) by auto.
    cbv zeta beta iota. leb_eval. cbv iota. rewrite !enc_varuint_vu by lia.
    unfold body_of, off_bytes, fv. rewrite ?app_nil_r. reflexivity.
  - destruct Hp as (-> & Hoff & -> & -> & ->). subst tm. cbn [g_off] in Hoff. assert (om = 0) by lia. subst om.
    cbn [SpellTs.spec_value]. rewrite ts_value_eq, !Z2N.id by lia.
    rewrite (sp_utc_go y mo d 0 0 0 uy umo ud uh umi a 0 None V UV T UT EA UA) by auto.
    cbv zeta beta iota. leb_eval. cbv iota. rewrite !enc_varuint_vu by lia.
    unfold body_of, off_bytes, fv. rewrite ?app_nil_r. reflexivity.
  - destruct Hp as (Hk & ->). unfold kind_off_ok in Hk. cbn [t_kind t_time] in Hk. subst tm. cbn [g_off] in Hk.
    cbn [SpellTs.spec_value]. rewrite ts_value_eq, !Z2N.id by lia.
    destruct (spec_off_of k om Hom Hk) as [(E & -> & ->)|(E & Hne)]; rewrite E.
    + rewrite (sp_utc_go y mo d h mi 0 uy umo ud uh umi a 0 None V UV T UT EA UA) by auto.
      cbv zeta beta iota. leb_eval. cbv iota. rewrite !enc_varuint_vu by lia.
      unfold body_of, off_bytes, fv. rewrite ?app_nil_r. repeat rewrite <- app_assoc. reflexivity.
    + rewrite (sp_utc_go y mo d h mi 0 uy umo ud uh umi a om (Some om) V UV T UT EA UA) by auto.
      cbv zeta beta iota. leb_eval. cbv iota. rewrite !enc_varuint_vu, enc_varint_vi by lia.
      unfold body_of, off_bytes, fv. rewrite ?app_nil_r. repeat rewrite <- app_assoc. destruct k; [exfalso; apply Hne; reflexivity|reflexivity|reflexivity].
  - rename Hp into Hk. unfold kind_off_ok in Hk. cbn [t_kind t_time] in Hk. subst tm. cbn [g_off] in Hk.
    cbn [SpellTs.spec_value]. rewrite ts_value_eq, !Z2N.id by lia.
    destruct (spec_off_of k om Hom Hk) as [(E & -> & ->)|(E & Hne)]; rewrite E.
    + rewrite (sp_utc_go y mo d h mi s uy umo ud uh umi a 0 None V UV T UT EA UA) by auto.
      cbv zeta beta iota. leb_eval. cbv iota. rewrite !enc_varuint_vu by lia.
      unfold body_of, off_bytes, fv. rewrite ?app_nil_r. repeat rewrite <- app_assoc. reflexivity.
    + rewrite (sp_utc_go y mo d h mi s uy umo ud uh umi a om (Some om) V UV T UT EA UA) by auto.
      cbv zeta beta iota. leb_eval. cbv iota. rewrite !enc_varuint_vu, enc_varint_vi by lia.
      unfold body_of, off_bytes, fv. rewrite ?app_nil_r. repeat rewrite <- app_assoc. destruct k; [exfalso; apply Hne; reflexivity|reflexivity|reflexivity].
  - rename Hp into Hk. unfold kind_off_ok in Hk. cbn [t_kind t_time] in Hk. subst tm. cbn [g_off g_nsec] in Hk, Hmod.
    assert (Hnf1 : 1 <= nf <= 9) by (split; [apply Hpn; reflexivity|lia]).
    pose proof (pow10_pos (9 - nf) ltac:(lia)) as Pp. pose proof (pow10_split nf ltac:(lia)) as Ps.
    set (q := ns / 10 ^ (9 - nf)).
    assert (Hq : 0 <= q < 1000000000) by (unfold q; split; [apply Z.div_pos; lia|apply Z.div_lt_upper_bound; nia]).
    assert (FL : length (fd_of nf ns) = Z.to_nat nf) by (unfold fd_of; rewrite map_length; apply fixw_length).
    assert (EV : SpellTs.dvalN (fd_of nf ns) = Z.to_N q).
    { set (F := fixw (Z.to_nat nf) q). assert (FD : all_digits F = true) by apply all_digits_fixw.
      pose proof (dval_fd_of F 0 FD) as DV. unfold F in DV at 2.
      rewrite digits_val_fixw0 in DV by (rewrite Z2Nat.id by lia; unfold q; split; [apply Z.div_pos; lia|apply Z.div_lt_upper_bound; nia]).
      injection DV as DV. unfold SpellTs.dvalN. pose proof (dvalN_dval (fd_of nf ns) 0%N) as Hd0.
      change (Z.of_N 0) with 0 in Hd0. unfold fd_of in Hd0 |- *. fold q in Hd0 |- *. fold F in Hd0 |- *. lia. }
    cbn [SpellTs.spec_value]. rewrite ts_value_eq, !Z2N.id by lia. rewrite FL, EV.
    replace (- Z.of_N (N.of_nat (Z.to_nat nf))) with (- nf) by lia. rewrite enc_varint_exp by exact Hnf1.
    assert (Efr : (if (Z.to_N q =? 0)%N then [] else SpecText.enc_int_pos (Z.to_N q)) = (if 0 <? q then append_int [] q else [])).
    { destruct (Z.ltb_spec 0 q).
      - replace (Z.to_N q =? 0)%N with false by lia. apply enc_int_pos_append. lia.
      - replace (Z.to_N q =? 0)%N with true by lia. reflexivity. }
    rewrite Efr.
    destruct (spec_off_of k om Hom Hk) as [(E & -> & ->)|(E & Hne)]; rewrite E.
    + rewrite (sp_utc_go y mo d h mi s uy umo ud uh umi a 0 None V UV T UT EA UA) by auto.
      cbv zeta beta iota. leb_eval. cbv iota. rewrite !enc_varuint_vu by lia.
      unfold body_of, off_bytes, fv, frac_bytes. fold q. replace (0 <? nf) with true by lia.
      rewrite ?app_nil_r. repeat rewrite <- app_assoc. reflexivity.
    + rewrite (sp_utc_go y mo d h mi s uy umo ud uh umi a om (Some om) V UV T UT EA UA) by auto.
      cbv zeta beta iota. leb_eval. cbv iota. rewrite !enc_varuint_vu, enc_varint_vi by lia.
      unfold body_of, off_bytes, fv, frac_bytes. fold q. replace (0 <? nf) with true by lia.
      rewrite ?app_nil_r. repeat rewrite <- app_assoc. destruct k; [exfalso; apply Hne; reflexivity|reflexivity|reflexivity].
Qed.

Lemma body_of_len_le p k om uy umo ud uh umi us nf ns :
  -1440 < om < 1440 -> 0 <= uy <= 10000 -> 0 <= umo <= 12 -> 0 <= ud <= 31 -> 0 <= uh < 24 -> 0 <= umi < 60 -> 0 <= us < 60 ->
  0 <= ns < 1000000000 -> 0 <= nf <= 9 -> (length (body_of p k om uy umo ud uh umi us nf ns) <= 19)%nat.
Proof.
  intros Hom Hy Hmo Hd Hh Hmi Hs Hns Hnf.
  pose proof (len_fv uy) as Ly. pose proof (vlen_year uy Hy) as Ly2.
  pose proof (len_vi om Hom) as Lo. pose proof (varint_len_le2 om Hom) as Lo2.
  pose proof (len_frac nf ns Hnf Hns) as LF.
  assert (Pp : 0 < 10 ^ (9 - nf)) by (apply Z.pow_pos_nonneg; lia).
  assert (Hq : 0 <= ns / 10 ^ (9 - nf) <= ns) by (split; [apply Z.div_pos; lia|apply Z.div_le_upper_bound; nia]).
  pose proof (int_len_le9 (ns / 10 ^ (9 - nf)) ltac:(unfold two64; lia)) as Li.
  assert (LF2 : (length (frac_bytes nf ns) <= 10)%nat) by (destruct (0 <? nf); [destruct (0 <? ns / 10 ^ (9 - nf))|]; lia).
  unfold body_of, off_bytes. rewrite !app_length.
  pose proof (len_fv1 umo ltac:(lia)) as L1. pose proof (len_fv1 ud ltac:(lia)) as L2. pose proof (len_fv1 uh ltac:(lia)) as L3.
  pose proof (len_fv1 umi ltac:(lia)) as L4. pose proof (len_fv1 us ltac:(lia)) as L5.
  destruct p, k; rewrite ?app_length; cbn [length]; lia.
Qed.

(* the binary reader model finds the timestamp in its body *)
Theorem read_body_std t : wf_ts t -> read_ts_body patched (N.of_nat (length (ts_body t))) (ts_body t) = Ok t.
Proof.
  intros W. destruct (ts_body_spec t W) as [_ E]. pose proof (bin_roundtrip patched t W) as R.
  rewrite E, read_tag in R; [exact R|].
  destruct (wf_unpack t W) as (a & ns & om & y & mo & d & h & mi & s & WV).
  destruct WV as [ET Hom Ha EF V T EA RR Hy Hns].
  unfold wf_ts in W. rewrite EF in W. destruct W as (_ & _ & _ & _ & Hnf & _).
  destruct t as [tm p k nf]. cbn [t_time t_prec t_kind t_nfrac] in *.
  destruct (utc_view a ns) as (uy & umo & ud & uh & umi & us & EU & UV & UT & UA & UY).
  { rewrite abs_lo_val, abs_hi_val in *. lia. }
  destruct (valid_date_ranges uy umo ud UV) as [Humo Hud]. destruct UT as (Uh & Um & Us).
  destruct (ts_body_view tm p k nf a ns om uy umo ud uh umi us ET EU Hom UY ltac:(lia) ltac:(lia) Uh Um Us Hns Hnf) as [EB _].
  rewrite EB.
  pose proof (body_of_len_le p k om uy umo ud uh umi us nf ns Hom UY ltac:(lia) ltac:(lia) Uh Um Us Hns Hnf). lia.
Qed.

(* [ts_fmt_ok] for the concrete format, for the body of every well-formed timestamp *)
Theorem ts_fmt_ok_std F t : fmt_ts F = fmt_ts_std -> wf_ts t -> WriteSpell.ts_fmt_ok F (ts_body t).
Proof.
  intros HF W. exists (shape_of t). destruct (shape_of_spec t W) as (Hok & Htx & _). destruct (ts_body_spec t W) as [Hsv _].
  split; [exact Hok|]. split; [|exact Hsv].
  unfold WriteSpell.ts_lit. rewrite HF. unfold fmt_ts_std. rewrite read_body_std by exact W. symmetry. exact Htx.
Qed.
(* the text written is Timestamp.String of the timestamp, and the reader model's fields are the timestamp's *)
Theorem ts_lit_std F t : fmt_ts F = fmt_ts_std -> wf_ts t ->
  WriteSpell.ts_lit F (ts_body t) = ts_format t /\
  parse_ts_text (ts_format t) = Ok (show_tuple (Timestamp.ts_fields t)).
Proof.
  intros HF W. destruct (shape_of_spec t W) as (Hok & Htx & Hfl).
  split.
  - unfold WriteSpell.ts_lit. rewrite HF. unfold fmt_ts_std. now rewrite read_body_std by exact W.
  - rewrite <- Htx, <- Hfl. now apply SpellTs.parse_ts_text_spelling.
Qed.
