(* TextReaderNP.v — panics of the text reader model: the witnesses that refute
   "no call ever panics" for the code that exists (D02, D03). *)
From Coq Require Import String List NArith ZArith Bool.
From IonV Require Import Base.Wire Data.Ion Bin.BinReader Text.Tokenizer Text.Skipper Text.TextReader Text.TextNum.
Import ListNotations.
Open Scope N_scope.

(* IntValue on null.int *)
Lemma no_panic_refuted :
  ~ (forall inp ioerr p,
       ~ In (s "panic") (snd (x_run parse_decimal_text parse_ts_text (fun A => Panic) (x_init inp ioerr) p []))).
Proof.
  intros H. apply (H (s "null.int") false [ONext; OInt]).
  vm_compute. right. left. reflexivity.
Qed.

(* a typed null inside the imports of a local symbol table, met by a plain traversal *)
Definition lst_witness : list N :=
  s "$ion_symbol_table::{imports:[{name:""x"",version:null.int,max_id:2}]}".
Lemma no_panic_refuted_lst : exists inp,
  In (s "panic") (x_traverse parse_decimal_text parse_ts_text (fun A => Panic) inp false).
Proof. exists lst_witness. vm_compute. left. reflexivity. Qed.
