(* TextReaderNP.v — no call of the text reader model ever panics, for every input
   and every navigation program: the reader keeps an invariant ([WF]) under which
   the panic sites of tokenizer.go / skipper.go / textreader.go / textutils.go
   (ReadValue and skipValue on an unexpected token, scanForNumericType on a
   non-digit, the index expressions of parseInt, containerTypeToCtx, the
   "unexpected state / context" panics of Next) are unreachable. *)
From Coq Require Import String List NArith ZArith Bool Lia.
From IonV Require Import Base.Wire Base.Utf8 Bin.Bits Data.Ion Num.Float Bin.BitStream Bin.BinReader
  Text.Tokenizer Text.Skipper Text.TextReader Text.TokenizerNP Text.TextNum.
Import ListNotations.
Open Scope N_scope.

(* ---- the invariant ------------------------------------------------------------------------------------ *)
(* an unfinished token is one skipValue accepts *)
Definition U (t : tstate) : Prop := t_unfinished t = true -> skb (t_token t) = true.
Definition is_container (ty : N) : bool := (ty =? TList) || (ty =? TSexp) || (ty =? TStruct).

Record wf (x : xstate) : Prop := mk_wf {
  wf_err : x_err x = false;
  wf_state : x_state x = trsBeforeFieldName \/ x_state x = trsBeforeTypeAnnotations \/
             x_state x = trsBeforeContainer \/ x_state x = trsAfterValue;
  wf_bc : x_state x = trsBeforeContainer -> t_unfinished (x_tok x) = true /\ is_container (x_type x) = true;
  wf_av : x_state x = trsAfterValue -> state_after_value x = trsAfterValue;
  wf_unf : t_unfinished (x_tok x) = true ->
           skb (t_token (x_tok x)) = true \/
           (t_token (x_tok x) = tokenEOF /\ x_eof x = true /\ x_ctx x = [])
}.
(* exploded, or well-formed *)
Definition WF (x : xstate) : Prop := (x_state x = trsDone /\ x_err x = true) \/ wf x.
(* inside Next, before a token is read *)
Definition L (x : xstate) : Prop :=
  x_err x = false /\
  (x_state x = trsBeforeFieldName \/ x_state x = trsBeforeTypeAnnotations \/ x_state x = trsAfterValue) /\
  (x_state x = trsAfterValue -> state_after_value x = trsAfterValue) /\
  t_unfinished (x_tok x) = false.

Lemma L_wf x : L x -> wf x.
Proof.
  intros [E [S [A Uf]]]. constructor; auto.
  - destruct S as [S|[S|S]]; auto.
  - intros B. rewrite B in S. destruct S as [S|[S|S]]; discriminate.
  - intros T. congruence.
Qed.
Lemma explode_WF x : WF (x_explode x).
Proof. left; split; reflexivity. Qed.
Lemma sav_cases x : state_after_value x = trsBeforeTypeAnnotations \/ state_after_value x = trsAfterValue.
Proof. unfold state_after_value. destruct (x_ctx x) as [|[| |] r]; auto. Qed.

Lemma tokpost_U t : tokpost t -> (t_token t =? tokenEOF) = false -> U t.
Proof.
  intros [H _] E Hu. rewrite H in Hu. unfold unf_of in Hu. rewrite E in Hu. rewrite orb_false_r in Hu. exact Hu.
Qed.
Lemma same_U t t' : same t t' -> U t -> U t'.
Proof. intros [H1 [H2 _]] Hu. unfold U. rewrite H1, H2. exact Hu. Qed.

(* ---- Hoare-style stepping through the reader monad ------------------------------------------------------ *)
Definition hoare {A} (r : xstate * res A) (Q : A -> xstate -> Prop) : Prop :=
  match r with
  | (x', Ok a) => Q a x'
  | (_, Panic) => False
  | _ => True
  end.
Lemma hoare_weaken {A} (r : xstate * res A) (Q Q' : A -> xstate -> Prop) :
  hoare r Q -> (forall a x', Q a x' -> Q' a x') -> hoare r Q'.
Proof. destruct r as [x' [a| | |]]; cbn; auto. Qed.

Lemma hb {A B} (m : R A) (f : A -> R B) x (P : A -> xstate -> Prop) (Q : B -> xstate -> Prop) :
  hoare (m x) P -> (forall a x1, P a x1 -> hoare (f a x1) Q) -> hoare (rbind m f x) Q.
Proof.
  unfold rbind. destruct (m x) as [x1 [a| | |]]; cbn; auto.
Qed.
Lemma hb_lift {A B} (m : M A) (f : A -> R B) x (P : A -> tstate -> Prop) (Q : B -> xstate -> Prop) :
  match m (x_tok x) with Ok (a, t') => P a t' | Panic => False | _ => True end ->
  (forall a t', P a t' -> hoare (f a (xs_tok x t')) Q) ->
  hoare (rbind (lift m) f x) Q.
Proof.
  intros Hm Hf. unfold rbind, lift. destruct (m (x_tok x)) as [[a t']| | |]; cbn; auto.
Qed.
Lemma hb_frame {A B} (m : M A) (f : A -> R B) x (Q : B -> xstate -> Prop) :
  tframe m ->
  (forall a t', same (x_tok x) t' -> hoare (f a (xs_tok x t')) Q) ->
  hoare (rbind (lift m) f x) Q.
Proof.
  intros Hm Hf. apply hb_lift with (P := fun _ t' => same (x_tok x) t'); [|exact Hf].
  specialize (Hm (x_tok x)). destruct (m (x_tok x)) as [[a t']| | |]; auto.
Qed.
Lemma hb_fin {A B} (m : M A) (f : A -> R B) x (Q : B -> xstate -> Prop) :
  tfin m (x_tok x) ->
  (forall a t', t_token t' = t_token (x_tok x) -> t_unfinished t' = false -> hoare (f a (xs_tok x t')) Q) ->
  hoare (rbind (lift m) f x) Q.
Proof.
  intros Hm Hf. apply hb_lift with (P := fun _ t' => t_token t' = t_token (x_tok x) /\ t_unfinished t' = false).
  - unfold tfin in Hm. destruct (m (x_tok x)) as [[a t']| | |]; auto. destruct Hm as [H1 [H2 _]]; auto.
  - intros a t' [H1 H2]; auto.
Qed.
Lemma hb_next {B} (f : unit -> R B) x (Q : B -> xstate -> Prop) :
  U (x_tok x) ->
  (forall t', tokpost t' -> hoare (f tt (xs_tok x t')) Q) ->
  hoare (rbind (lift t_next) f x) Q.
Proof.
  intros Hu Hf. apply hb_lift with (P := fun _ t' => tokpost t').
  - apply next_spec. exact Hu.
  - intros [] t' H; auto.
Qed.
Lemma hb_res {A B} (r : res A) (f : A -> R B) x (Q : B -> xstate -> Prop) :
  r <> Panic -> (forall a, r = Ok a -> hoare (f a x) Q) -> hoare (rbind (of_res r) f x) Q.
Proof.
  intros Hn Hf. unfold rbind, of_res. destruct r as [a| | |]; cbn; auto.
Qed.

(* ---- StepIn / StepOut ------------------------------------------------------------------------------------------ *)
Lemma step_in_spec x : WF x ->
  match x_step_in x with
  | (x', Ok true) => L x' /\ exists c, x_ctx x' = c :: x_ctx x
  | (x', Ok false) => x' = x
  | (_, Panic) => False
  | _ => True
  end.
Proof.
  intros [[D E]|W]; unfold x_step_in.
  - rewrite E. reflexivity.
  - rewrite (wf_err x W).
    destruct (x_state x =? trsBeforeContainer) eqn:S; cbn [negb]; [|reflexivity].
    apply N.eqb_eq in S. destruct (wf_bc x W S) as [_ C]. unfold is_container in C.
    destruct (x_type x =? TList); [|destruct (x_type x =? TSexp); [|destruct (x_type x =? TStruct); [|discriminate]]];
      (split; [|eexists; reflexivity]); repeat split; cbn; auto using wf_err; try discriminate.
Qed.

Lemma step_out_spec x : WF x ->
  match x_step_out x with
  | (x', Ok true) => L x' /\ x_state x <> trsDone /\ exists c, x_ctx x = c :: x_ctx x'
  | (x', Ok false) => WF x' /\ (x_state x' <> trsDone -> x' = x)
  | (_, Panic) => False
  | _ => True
  end.
Proof.
  intros HW. unfold x_step_out. destruct HW as [[D E]|W].
  - rewrite E. split; [left; auto|reflexivity].
  - rewrite (wf_err x W). destruct (x_ctx x) as [|c rest] eqn:C.
    + split; [right; exact W|reflexivity].
    + assert (Hu : U (x_tok x)).
      { intros T. destruct (wf_unf x W T) as [S|[_ [_ K]]]; [exact S|congruence]. }
      pose proof (finish_value_fin (x_tok x) Hu) as Hf. unfold tfin in Hf. unfold lift at 1.
      destruct (t_finish_value (x_tok x)) as [[b t1]| | |]; try exact I; try contradiction.
      * destruct Hf as [F1 [F2 _]].
        assert (Hs : match (if x_eof (xs_tok x t1) then (xs_tok x t1, Ok tt) else lift (t_skip_container_contents c) (xs_tok x t1)) with
                     | (x2, Ok _) => x_err x2 = false /\ t_unfinished (x_tok x2) = false /\ x_ctx x2 = c :: rest
                     | (_, Panic) => False
                     | _ => True end).
        { destruct (x_eof (xs_tok x t1)).
          - cbn. repeat split; auto using wf_err.
          - unfold lift. cbn [x_tok xs_tok]. pose proof (tframe_skip_container_contents c t1) as Hk.
            destruct (t_skip_container_contents c t1) as [[u t2]| | |]; try exact I; try contradiction.
            destruct Hk as [_ [K2 _]]. cbn. repeat split; auto using wf_err. congruence. }
        destruct (if x_eof (xs_tok x t1) then (xs_tok x t1, Ok tt) else lift (t_skip_container_contents c) (xs_tok x t1))
          as [x2 [u| | |]]; try exact I; try contradiction.
        -- destruct Hs as [S1 [S2 S3]]. split; [|split; [destruct (wf_state x W) as [K|[K|[K|K]]]; rewrite K; discriminate|exists c; reflexivity]].
           unfold L, state_after_value; cbn. destruct rest as [|[| |] r]; repeat split; auto; discriminate.
        -- split; [apply explode_WF|intros K; exfalso; apply K; reflexivity].
      * split; [apply explode_WF|intros K; exfalso; apply K; reflexivity].
Qed.

(* ---- the token handlers ---------------------------------------------------------------------------------------------- *)
(* only the tokenizer part of the state differs *)
Definition tokonly (x x' : xstate) : Prop := exists t', x' = xs_tok x t'.
Lemma tokonly_refl x : tokonly x x.
Proof. exists (x_tok x). destruct x; reflexivity. Qed.

Lemma set_value_spec ty v x : x_err x = false -> U (x_tok x) ->
  hoare (set_value ty v x) (fun _ x' => wf x' /\ x_ctx x' = x_ctx x).
Proof.
  intros E Hu. unfold set_value, rmod, hoare. split; [|reflexivity].
  constructor; cbn; auto.
  - destruct (sav_cases x) as [S|S]; rewrite S; auto.
  - intros B. destruct (sav_cases x) as [S|S]; rewrite S in B; discriminate.
Qed.

Lemma new_symbol_token_np l t : new_symbol_token l t <> Panic.
Proof.
  unfold new_symbol_token. destruct (symbol_identifier t); [|destruct (symbol_id_out_of_range t); discriminate].
  destruct (z <? 0)%Z; [discriminate|]. destruct (tok_by_sid l (Z.to_N z)); discriminate.
Qed.

Lemma rvb_symbol : rvb tokenSymbol = true. Proof. reflexivity. Qed.

Lemma read_null_type_spec x : U (x_tok x) ->
  hoare (read_null_type x) (fun _ x' => tokonly x x' /\ t_unfinished (x_tok x') = false).
Proof.
  intros Hu. unfold read_null_type.
  apply hb_frame; [apply tframe_peek|]. intros c t0 S0.
  destruct (negb (is_identifier_start c)); [exact I|].
  apply hb_next; [cbn; eapply same_U; eassumption|]. intros t1 Ht1. unfold rbind at 1, rget. cbn [x_tok xs_tok].
  destruct (negb (t_token t1 =? tokenSymbol)); [exact I|].
  apply hb_fin; [apply read_value_fin, rvb_symbol|]. intros v t2 _ F2. cbn [xs_tok x_tok] in *.
  destruct (null_type_of v); [|exact I]. cbn. split; [eexists; reflexivity|exact F2].
Qed.

Lemma on_null_spec ws x : U (x_tok x) ->
  hoare (on_null ws x) (fun _ x' => tokonly x x' /\ U (x_tok x')).
Proof.
  intros Hu. unfold on_null. destruct ws; cbn [negb].
  - cbn. split; [apply tokonly_refl|exact Hu].
  - apply hb_frame; [apply tframe_skip_dot|]. intros ok t1 S1.
    destruct ok.
    + eapply hoare_weaken; [apply read_null_type_spec; cbn; eapply same_U; eassumption|].
      intros ty x' H; cbn beta in H; destruct H as [[t' ->] F]. split; [eexists; reflexivity|]. intros T. cbn in *. congruence.
    + cbn. split; [eexists; reflexivity|]. cbn. eapply same_U; eassumption.
Qed.

Lemma on_symbol_spec v ws x : x_err x = false -> U (x_tok x) ->
  hoare (on_symbol v ws x) (fun _ x' => wf x' /\ x_ctx x' = x_ctx x).
Proof.
  intros E Hu. unfold on_symbol.
  destruct (list_eqb v (s "null")).
  { eapply hb; [apply on_null_spec; exact Hu|]. intros ty x1 H; cbn beta in H; destruct H as [[t1 ->] U1].
    eapply hoare_weaken; [apply set_value_spec; [exact E|exact U1]|]. cbn. auto. }
  destruct (list_eqb v (s "true")); [apply set_value_spec; assumption|].
  destruct (list_eqb v (s "false")); [apply set_value_spec; assumption|].
  destruct (list_eqb v (s "nan")); [apply set_value_spec; assumption|].
  unfold rbind at 1, rget.
  apply hb_res; [apply new_symbol_token_np|]. intros k _. apply set_value_spec; assumption.
Qed.

(* the same with what the null.struct symbol-table case needs: where the reader stands afterwards *)
Definition after_value (x x' : xstate) : Prop :=
  wf x' /\ x_ctx x' = x_ctx x /\ x_state x' = state_after_value x' /\ t_unfinished (x_tok x') = false.
Lemma set_value_spec2 ty v x : x_err x = false -> t_unfinished (x_tok x) = false ->
  hoare (set_value ty v x) (fun _ x' => after_value x x').
Proof.
  intros E F. pose proof (set_value_spec ty v x E (fun T => ltac:(congruence))) as H.
  unfold set_value, rmod, hoare in *. destruct H as [W C].
  split; [exact W|split; [exact C|split; [reflexivity|exact F]]].
Qed.
Lemma on_null_spec2 ws x : t_unfinished (x_tok x) = false ->
  hoare (on_null ws x) (fun _ x' => tokonly x x' /\ t_unfinished (x_tok x') = false).
Proof.
  intros F. unfold on_null. destruct ws; cbn [negb].
  - cbn. split; [apply tokonly_refl|exact F].
  - apply hb_frame; [apply tframe_skip_dot|]. intros ok t1 S1.
    assert (F1 : t_unfinished t1 = false) by (destruct S1 as [_ [S1 _]]; congruence).
    destruct ok.
    + eapply hoare_weaken; [apply read_null_type_spec; cbn; intros T; congruence|].
      intros ty x' H; cbn beta in H; destruct H as [[t' ->] F']. split; [eexists; reflexivity|exact F'].
    + cbn. split; [eexists; reflexivity|exact F1].
Qed.
Lemma on_symbol_spec2 v ws x : x_err x = false -> t_unfinished (x_tok x) = false ->
  hoare (on_symbol v ws x) (fun _ x' => after_value x x').
Proof.
  intros E F. unfold on_symbol.
  destruct (list_eqb v (s "null")).
  { eapply hb; [apply on_null_spec2; exact F|]. intros ty x1 H; cbn beta in H; destruct H as [[t1 ->] F1].
    eapply hoare_weaken; [apply set_value_spec2; [exact E|exact F1]|].
    intros u x' [W [C [S T]]]. split; [exact W|split; [exact C|split; [exact S|exact T]]]. }
  destruct (list_eqb v (s "true")); [apply set_value_spec2; assumption|].
  destruct (list_eqb v (s "false")); [apply set_value_spec2; assumption|].
  destruct (list_eqb v (s "nan")); [apply set_value_spec2; assumption|].
  unfold rbind at 1, rget.
  apply hb_res; [apply new_symbol_token_np|]. intros k _. apply set_value_spec2; assumption.
Qed.

(* parseInt cannot panic on what readRadix yields, nor in radix 10 *)
Lemma parse_int_np v radix : radix = 10 \/ radix_shape v -> parse_int v radix <> Panic.
Proof.
  intros H. unfold parse_int.
  destruct (radix =? 10) eqn:R.
  - cbn. destruct (go_signed_val radix v); discriminate.
  - destruct H as [H|H]; [subst; discriminate|].
    destruct v as [|a [|b r]]; cbn in H; try contradiction.
    destruct (a =? 45) eqn:A.
    + destruct r as [|c r]; [congruence|]. cbn [bind]. destruct (go_signed_val radix (45 :: r)); discriminate.
    + cbn [bind]. destruct (go_signed_val radix r); discriminate.
Qed.

Section Handlers.
Variable pd : list N -> res dec.
Variable pt : list N -> res (list N).
Hypothesis pd_np : forall l, pd l <> Panic.
Hypothesis pt_np : forall l, pt l <> Panic.

Lemma on_number_spec tok x :
  x_err x = false -> tokpost (x_tok x) -> t_token (x_tok x) = tok ->
  (tok =? tokenBinary) || (tok =? tokenHex) || (tok =? tokenNumber) || (tok =? tokenFloatInf)
    || (tok =? tokenFloatMinusInf) <> false ->
  hoare (on_number pd tok x) (fun _ x' => wf x' /\ x_ctx x' = x_ctx x).
Proof.
  intros E Hp Ht Hk. unfold on_number.
  assert (Hrad : forall radix, is_radix tok = true -> rvb tok = true ->
            hoare ((rdo v <- lift (t_read_value tok); rdo i <- of_res (parse_int v radix); set_value TInt (XInt i)) x)
                  (fun _ x' => wf x' /\ x_ctx x' = x_ctx x)).
  { intros radix R V.
    apply hb_lift with (P := fun v t' => t_unfinished t' = false /\ radix_shape v).
    - pose proof (read_value_fin tok (x_tok x) V) as H1. unfold tfin in H1.
      pose proof (read_value_radix tok (x_tok x) R) as H2. rewrite <- Ht in R. specialize (H2 (proj2 Hp R)).
      destruct (t_read_value tok (x_tok x)) as [[v t']| | |]; auto. destruct H1 as [_ [H1 _]]. auto.
    - intros v t' [F S]. apply hb_res; [apply parse_int_np; right; exact S|]. intros i _.
      eapply hoare_weaken; [apply set_value_spec; [exact E|intros T; cbn in T; congruence]|]. cbn. auto. }
  destruct (tok =? tokenBinary) eqn:KB; [apply N.eqb_eq in KB; rewrite KB in *; apply Hrad; reflexivity|].
  destruct (tok =? tokenHex) eqn:KH; [apply N.eqb_eq in KH; rewrite KH in *; apply Hrad; reflexivity|].
  assert (Hu : forall k, tok = k -> (k =? tokenEOF) = false -> U (x_tok x)).
  { intros k K KE. apply tokpost_U; [exact Hp|rewrite Ht, K; exact KE]. }
  destruct (tok =? tokenNumber) eqn:KN.
  { apply N.eqb_eq in KN. specialize (Hu _ KN eq_refl).
    apply hb_frame; [apply tframe_read_number|]. intros [v kd] t1 S1.
    assert (U1 : U (x_tok (xs_tok x t1))) by (cbn; eapply same_U; eassumption).
    destruct kd.
    - apply hb_res; [apply parse_int_np; left; reflexivity|]. intros i _.
      eapply hoare_weaken; [apply set_value_spec; [exact E|exact U1]|]. cbn. auto.
    - destruct (float_syntax_ok v); [|exact I].
      eapply hoare_weaken; [apply set_value_spec; [exact E|exact U1]|]. cbn. auto.
    - apply hb_res; [apply pd_np|]. intros d _.
      eapply hoare_weaken; [apply set_value_spec; [exact E|exact U1]|]. cbn. auto. }
  destruct (tok =? tokenFloatInf) eqn:KI; [apply N.eqb_eq in KI; apply set_value_spec; [assumption|apply (Hu _ KI eq_refl)]|].
  destruct (tok =? tokenFloatMinusInf) eqn:KM; [apply N.eqb_eq in KM; apply set_value_spec; [assumption|apply (Hu _ KM eq_refl)]|].
  exfalso. apply Hk. reflexivity.
Qed.

Lemma on_timestamp_spec x :
  x_err x = false ->
  hoare (on_timestamp pt x) (fun _ x' => wf x' /\ x_ctx x' = x_ctx x).
Proof.
  intros E. unfold on_timestamp.
  apply hb_fin; [apply read_value_fin; reflexivity|]. intros v t1 _ F.
  apply hb_res; [apply pt_np|]. intros ts _.
  eapply hoare_weaken; [apply set_value_spec; [exact E|intros T; cbn in T; congruence]|]. cbn. auto.
Qed.

Lemma on_lob_spec x :
  x_err x = false -> U (x_tok x) ->
  hoare (on_lob x) (fun _ x' => wf x' /\ x_ctx x' = x_ctx x).
Proof.
  intros E Hu. unfold on_lob.
  apply hb_frame; [apply tframe_skip_lob_ws|]. intros c t1 S1.
  assert (Hsv : forall (v : xvalue) ty t', t_unfinished t' = false ->
            hoare (set_value ty v (xs_tok (xs_tok x t1) t')) (fun _ x' => wf x' /\ x_ctx x' = x_ctx x)).
  { intros v ty t' F. eapply hoare_weaken; [apply set_value_spec; [exact E|intros T; cbn in T; congruence]|]. cbn. auto. }
  destruct (c =? c_dquote)%Z.
  { apply hb_fin; [apply read_short_clob_fin|]. intros v t2 _ F. apply Hsv; exact F. }
  destruct (c =? c_quote)%Z.
  { apply hb_frame; [apply tframe_is_triple_quote|]. intros ok t2 S2.
    destruct (negb ok); [exact I|].
    apply hb_fin; [apply read_long_clob_fin|]. intros v t3 _ F.
    eapply hoare_weaken; [apply set_value_spec; [exact E|intros T; cbn in T; congruence]|]. cbn. auto. }
  apply hb_frame; [apply tframe_unread|]. intros u t2 S2.
  apply hb_fin; [apply read_blob_fin|]. intros b64 t3 _ F.
  destruct (b64_decode b64); [|exact I].
  eapply hoare_weaken; [apply set_value_spec; [exact E|intros T; cbn in T; congruence]|]. cbn. auto.
Qed.

Definition hpost (x0 : xstate) (b : bool) (x' : xstate) : Prop :=
  (if b then wf x' else L x') /\ x_ctx x' = x_ctx x0.

Lemma tokpost_unf t k : tokpost t -> t_token t = k -> t_unfinished t = unf_of k.
Proof. intros [H _] <-. exact H. Qed.

(* a value-less Ok true answer (end of container / of input): only eof changes *)
Lemma eof_wf x : x_err x = false ->
  (x_state x = trsBeforeFieldName \/ x_state x = trsBeforeTypeAnnotations \/ x_state x = trsAfterValue) ->
  (x_state x = trsAfterValue -> state_after_value x = trsAfterValue) ->
  (t_unfinished (x_tok x) = true -> t_token (x_tok x) = tokenEOF /\ x_ctx x = []) ->
  wf (xs_eof x true).
Proof.
  intros E S A Hu. constructor; cbn; auto.
  - destruct S as [S|[S|S]]; auto.
  - intros B. rewrite B in S. destruct S as [S|[S|S]]; discriminate.
  - intros T. right. destruct (Hu T). auto.
Qed.

Lemma next_after_value_spec x :
  x_err x = false -> x_state x = trsAfterValue -> state_after_value x = trsAfterValue -> tokpost (x_tok x) ->
  hoare (next_after_value x) (hpost x).
Proof.
  intros E S A Hp. unfold next_after_value. unfold rbind at 1, rget.
  assert (Hc : exists c r, x_ctx x = c :: r /\ (c = CStruct \/ c = CList)).
  { unfold state_after_value in A. destruct (x_ctx x) as [|[| |] r]; try discriminate; eauto. }
  destruct Hc as [c [r [C Hc]]].
  assert (Heof : forall k, t_token (x_tok x) = k -> unf_of k = false -> wf (xs_eof x true)).
  { intros k K F. apply eof_wf; auto. intros T. rewrite (tokpost_unf _ _ Hp K), F in T. discriminate. }
  destruct (t_token (x_tok x) =? tokenComma) eqn:K1.
  { apply N.eqb_eq in K1. pose proof (tokpost_unf _ _ Hp K1) as F. rewrite C.
    destruct Hc as [->| ->]; cbn; (split; [|reflexivity]); repeat split; cbn; auto; discriminate. }
  destruct (t_token (x_tok x) =? tokenCloseBrace) eqn:K2.
  { apply N.eqb_eq in K2. unfold x_in_struct. rewrite C. destruct c; try exact I.
    cbn. split; [apply (Heof _ K2); reflexivity|reflexivity]. }
  destruct (t_token (x_tok x) =? tokenCloseBracket) eqn:K3; [|exact I].
  apply N.eqb_eq in K3. rewrite C. destruct c; try exact I.
  cbn. split; [apply (Heof _ K3); reflexivity|reflexivity].
Qed.

Lemma rvb_field k :
  (k =? tokenSymbol) || (k =? tokenSymbolQuoted) || (k =? tokenString) || (k =? tokenLongString) = true -> rvb k = true.
Proof.
  intros H. repeat (apply orb_true_iff in H; destruct H as [H|H]); apply N.eqb_eq in H; subst; reflexivity.
Qed.

Lemma next_before_field_name_spec x :
  x_err x = false -> x_state x = trsBeforeFieldName -> tokpost (x_tok x) ->
  hoare (next_before_field_name x) (hpost x).
Proof.
  intros E S Hp. unfold next_before_field_name. unfold rbind at 1, rget.
  destruct (t_token (x_tok x) =? tokenCloseBrace) eqn:K1.
  { apply N.eqb_eq in K1. cbn. split; [|reflexivity]. apply eof_wf; auto.
    - rewrite S; discriminate.
    - intros T. rewrite (tokpost_unf _ _ Hp K1) in T. discriminate. }
  match goal with |- hoare ((if ?b then _ else _) x) _ => destruct b eqn:K2 end; [|exact I].
  apply hb_fin; [apply read_value_fin, rvb_field, K2|]. intros v t1 _ F1.
  match goal with |- hoare ((if ?b then _ else _) _) _ => destruct b end; [exact I|].
  eapply hb with (P := fun _ x1 => x1 = xs_tok x t1).
  { destruct (t_token (x_tok x) =? tokenSymbolQuoted); [reflexivity|].
    match goal with |- hoare ((if ?b then _ else _) _) _ => destruct b end; [reflexivity|].
    unfold of_res. pose proof (new_symbol_token_np (x_lst x) v) as Hn.
    destruct (new_symbol_token (x_lst x) v); cbn; auto. }
  intros k x1 ->. unfold rbind at 1, rmod.
  apply hb_next; [intros T; cbn in T; congruence|]. intros t2 Hp2.
  unfold rbind at 1, rget. cbn [x_tok xs_tok xs_field].
  destruct (t_token t2 =? tokenColon) eqn:K3; cbn [negb]; [|exact I].
  apply N.eqb_eq in K3. cbn. split; [|reflexivity].
  repeat split; cbn; auto; try discriminate. rewrite (tokpost_unf _ _ Hp2 K3). reflexivity.
Qed.

(* ---- Next inside a container never touches the context stack ------------------------------------------------------- *)
Definition ctxpres {A} (m : R A) : Prop := forall x, x_ctx (fst (m x)) = x_ctx x.
Lemma ctxpres_ret {A} (a : A) : ctxpres (rret a). Proof. intro x; reflexivity. Qed.
Lemma ctxpres_fail {A} : ctxpres (@rfail A). Proof. intro x; reflexivity. Qed.
Lemma ctxpres_panic {A} : ctxpres (@rpanic A). Proof. intro x; reflexivity. Qed.
Lemma ctxpres_rget : ctxpres rget. Proof. intro x; reflexivity. Qed.
Lemma ctxpres_of_res {A} (r : res A) : ctxpres (of_res r). Proof. intro x; reflexivity. Qed.
Lemma ctxpres_lift {A} (m : M A) : ctxpres (lift m).
Proof. intro x; unfold lift; destruct (m (x_tok x)) as [[a t]| | |]; reflexivity. Qed.
Lemma ctxpres_rmod (f : xstate -> xstate) : (forall x, x_ctx (f x) = x_ctx x) -> ctxpres (rmod f).
Proof. intros H x; apply H. Qed.
Lemma ctxpres_bind {A B} (m : R A) (f : A -> R B) :
  ctxpres m -> (forall a, ctxpres (f a)) -> ctxpres (rbind m f).
Proof.
  intros Hm Hf x; unfold rbind; specialize (Hm x).
  destruct (m x) as [x' [a| | |]]; cbn [fst] in *; try assumption.
  rewrite Hf; assumption.
Qed.
Ltac cp :=
  repeat first
    [ assumption
    | apply ctxpres_ret | apply ctxpres_fail | apply ctxpres_panic | apply ctxpres_rget
    | apply ctxpres_of_res | apply ctxpres_lift
    | apply ctxpres_rmod; intros; reflexivity
    | apply ctxpres_bind; [ | intros ]
    | match goal with
      | |- ctxpres (if ?b then _ else _) => destruct b
      | |- ctxpres (match ?v with _ => _ end) => destruct v
      | |- ctxpres (let '(_, _) := ?p in _) => destruct p
      end ].
Lemma ctxpres_set_value t v : ctxpres (set_value t v). Proof. unfold set_value; cp. Qed.
Lemma ctxpres_read_null_type : ctxpres read_null_type. Proof. unfold read_null_type; cp. Qed.
Lemma ctxpres_on_null ws : ctxpres (on_null ws).
Proof. pose proof ctxpres_read_null_type. unfold on_null; cp. Qed.
Lemma ctxpres_on_symbol v ws : ctxpres (on_symbol v ws).
Proof. pose proof ctxpres_set_value. pose proof (ctxpres_on_null ws). unfold on_symbol; cp; apply ctxpres_set_value. Qed.
Lemma ctxpres_on_number tok : ctxpres (on_number pd tok).
Proof. unfold on_number; cp; apply ctxpres_set_value. Qed.
Lemma ctxpres_on_timestamp : ctxpres (on_timestamp pt).
Proof. unfold on_timestamp; cp; apply ctxpres_set_value. Qed.
Lemma ctxpres_on_lob : ctxpres on_lob.
Proof. unfold on_lob; cp; apply ctxpres_set_value. Qed.
Lemma ctxpres_next_after_value : ctxpres next_after_value.
Proof. unfold next_after_value; cp. Qed.
Lemma ctxpres_next_before_field_name : ctxpres next_before_field_name.
Proof. unfold next_before_field_name; cp. Qed.
Lemma ctxpres_finish_value : ctxpres x_finish_value.
Proof. unfold x_finish_value; cp. Qed.

Lemma nbta_ctx api fuel x : x_ctx x <> [] ->
  x_ctx (fst (next_before_type_annotations pd pt api fuel x)) = x_ctx x.
Proof.
  intros Hc. unfold next_before_type_annotations. unfold rbind at 1, rget.
  assert (Top : x_at_top x = false) by (unfold x_at_top; destruct (x_ctx x); congruence).
  repeat match goal with
         | |- x_ctx (fst ((if ?b then _ else _) x)) = _ => destruct b
         | |- x_ctx (fst ((match ?v with _ => _ end) x)) = _ => destruct v eqn:?
         end;
    try (cbn; congruence);
    try (match goal with |- x_ctx (fst (?m x)) = _ => assert (Hm : ctxpres m); [ | exact (Hm x) ] end;
         cp; first [apply ctxpres_set_value | apply ctxpres_on_symbol | apply ctxpres_on_number
                   | apply ctxpres_on_timestamp | apply ctxpres_on_lob]).
  (* the struct case: not at top level, so no symbol table is read *)
  unfold rbind at 1, rmod. unfold rbind at 1, rget.
  match goal with |- context [x_at_top ?y] => change (x_at_top y) with (x_at_top x) end.
  rewrite Top. reflexivity.
Qed.

Lemma next_loop_ctx api fuel : forall k x, x_ctx x <> [] ->
  x_ctx (fst (x_next_loop pd pt api k fuel x)) = x_ctx x.
Proof.
  induction k as [|k IH]; intros x Hc; cbn [x_next_loop]; [reflexivity|].
  pose proof (ctxpres_lift t_next x) as H1.
  destruct (lift t_next x) as [x1 [u| | |]]; cbn [fst] in *; try assumption.
  assert (Hc1 : x_ctx x1 <> []) by (rewrite H1; exact Hc).
  match goal with |- context [?step x1] =>
    match type of step with R bool => assert (G : x_ctx (fst (step x1)) = x_ctx x1) end end.
  { destruct (x_state x1 =? trsAfterValue); [apply ctxpres_next_after_value|].
    destruct (x_state x1 =? trsBeforeFieldName); [apply ctxpres_next_before_field_name|].
    destruct (x_state x1 =? trsBeforeTypeAnnotations); [apply nbta_ctx; exact Hc1|reflexivity]. }
  match goal with |- context [?step x1] =>
    match type of step with R bool => destruct (step x1) as [x2 [[|]| | |]] end end; cbn [fst] in *; try congruence.
  - rewrite IH; congruence.
  - cbn. congruence.
Qed.
Lemma next_with_ctx api fuel x : x_ctx x <> [] ->
  x_ctx (fst (x_next_with pd pt api fuel x)) = x_ctx x.
Proof.
  intros Hc. unfold x_next_with. destruct ((x_state x =? trsDone) || x_eof x); [reflexivity|].
  pose proof (ctxpres_finish_value x) as H1.
  destruct (x_finish_value x) as [x1 [u| | |]]; cbn [fst] in *; try assumption.
  rewrite next_loop_ctx; cbn; congruence.
Qed.

(* ---- readLocalSymbolTable and Next ---------------------------------------------------------------------------------- *)
Definition GoodTop (r : xstate * res bool) : Prop :=
  match r with
  | (x', Ok true) => wf x'
  | (x', Ok false) => WF x'
  | (_, Panic) => False
  | _ => True
  end.
Definition GoodL {A} (x : xstate) (r : xstate * res A) : Prop :=
  match r with
  | (x', Ok _) => WF x' /\ x_ctx x' = x_ctx x
  | (_, Panic) => False
  | _ => True
  end.
(* Next as readLocalSymbolTable needs it: inside a container *)
Definition NextOK (api_next : xstate -> xstate * res bool) : Prop :=
  forall x, WF x -> x_ctx x <> [] -> GoodTop (api_next x) /\ x_ctx (fst (api_next x)) = x_ctx x.

Lemma GoodL_trans {A} x x1 (r : xstate * res A) : x_ctx x1 = x_ctx x -> GoodL x1 r -> GoodL x r.
Proof. intros C. destruct r as [x' [a| | |]]; cbn; auto. intros [H1 H2]. split; congruence. Qed.
Lemma wf_WF x : wf x -> WF x.
Proof. right; assumption. Qed.
Lemma GoodL_ret {A} x (a : A) : WF x -> GoodL x (x, Ok a).
Proof. intros H; split; auto. Qed.
Definition harmless {A B} (fl : res A -> res B) : Prop :=
  fl Err = Err /\ fl OutOfFuel = OutOfFuel.

Section Lst.
Variable api_next : xstate -> xstate * res bool.
Hypothesis Hnext : NextOK api_next.

Ltac nx x1 Hn Cn :=
  match goal with
  | Hw : WF ?x, Hc : x_ctx ?x <> [] |- context [api_next ?x] =>
    destruct (Hnext x Hw Hc) as [Hn Cn];
    destruct (api_next x) as [x1 [[|]| | |]]; cbn [GoodTop fst] in Hn, Cn; try contradiction;
    cbn [keep_bad GoodL]; try exact I
  end.

(* entering a container, running a loop in it and leaving it *)
Lemma in_container {A B} x (loop : xstate -> xstate * res A) (k : A -> xstate -> xstate * res B) (fl : res A -> res B) :
  WF x -> harmless fl ->
  (forall x1, WF x1 -> x_ctx x1 <> [] -> GoodL x1 (loop x1)) ->
  (forall a x3, WF x3 -> GoodL x3 (k a x3)) ->
  GoodL x (match x_step_in x with
           | (x1, Ok true) =>
             match loop x1 with
             | (x2, Ok a) => match x_step_out x2 with
                             | (x3, Ok true) => k a x3
                             | (x3, r) => (x3, keep_bad r)
                             end
             | (x2, r) => (x2, fl r)
             end
           | (x1, r) => (x1, keep_bad r)
           end).
Proof.
  intros Hw [F1 F2] Hloop Hk. pose proof (step_in_spec x Hw) as Hi.
  destruct (x_step_in x) as [x1 [[|]| | |]]; cbn [keep_bad GoodL]; try exact I; try contradiction.
  destruct Hi as [L1 [c C1]].
  assert (N1 : x_ctx x1 <> []) by (rewrite C1; discriminate).
  pose proof (Hloop x1 (wf_WF _ (L_wf _ L1)) N1) as H2.
  destruct (loop x1) as [x2 [a| | |]]; rewrite ?F1, ?F2; cbn [GoodL] in *; try exact I; try contradiction.
  destruct H2 as [W2 C2]. pose proof (step_out_spec x2 W2) as Ho.
  destruct (x_step_out x2) as [x3 [[|]| | |]]; cbn [keep_bad GoodL]; try exact I; try contradiction.
  destruct Ho as [L3 [ND [c' C3]]].
  assert (C : x_ctx x3 = x_ctx x) by (rewrite C2, C1 in C3; injection C3; auto).
  eapply GoodL_trans; [exact C|]. apply Hk. apply wf_WF, L_wf, L3.
Qed.
Lemma harmless_id {A} : harmless (fun r : res A => r). Proof. split; reflexivity. Qed.
Lemma harmless_keep {A B} : harmless (@keep_bad A B). Proof. split; reflexivity. Qed.

Lemma read_symbols_loop_ok fuel : forall x acc,
  WF x -> x_ctx x <> [] -> GoodL x (read_symbols_loop api_next fuel x acc).
Proof.
  induction fuel as [|f IH]; intros x acc Hw Hc; cbn [read_symbols_loop]; [exact I|].
  nx x1 Hn Cn.
  - eapply GoodL_trans; [exact Cn|]. apply IH; [apply wf_WF, Hn|rewrite Cn; exact Hc].
  - split; assumption.
Qed.
Lemma read_symbols_ok fuel x : WF x -> GoodL x (read_symbols api_next fuel x).
Proof.
  intros Hw. unfold read_symbols. destruct (negb (x_type x =? TList) || x_is_null x); [apply GoodL_ret; exact Hw|].
  apply (in_container x (fun x1 => read_symbols_loop api_next fuel x1 []) (fun a x3 => (x3, Ok a)) (fun r => r)); auto using harmless_id.
  - intros; apply read_symbols_loop_ok; assumption.
  - intros; apply GoodL_ret; assumption.
Qed.

Lemma read_import_loop_ok fuel : forall x d,
  WF x -> x_ctx x <> [] -> GoodL x (read_import_loop api_next fuel x d).
Proof.
  induction fuel as [|f IH]; intros x d Hw Hc; cbn [read_import_loop]; [exact I|].
  nx x1 Hn Cn.
  - eapply GoodL_trans; [exact Cn|].
    assert (Hrec : forall d', GoodL x1 (read_import_loop api_next f x1 d'))
      by (intros; apply IH; [apply wf_WF, Hn|rewrite Cn; exact Hc]).
    destruct (x_err x1); [exact I|]. destruct (field_text x1) as [fnm|]; [|exact I].
    repeat match goal with
           | |- GoodL _ (if ?b then _ else _) => destruct b
           | |- GoodL _ (match ?v with _ => _ end) => destruct v
           end; try apply Hrec; exact I.
  - split; assumption.
Qed.
Lemma read_import_ok fuel x : WF x -> GoodL x (read_import api_next fuel x).
Proof.
  intros Hw. unfold read_import. destruct (negb (x_type x =? TStruct) || x_is_null x); [apply GoodL_ret; exact Hw|].
  match goal with |- context [read_import_loop api_next fuel _ ?d0] =>
    apply (in_container x (fun x1 => read_import_loop api_next fuel x1 d0)
             (fun d x3 => if list_eqb (id_name d) [] || list_eqb (id_name d) (s "$ion") then (x3, Ok None)
                          else if (id_maxid d <? 0)%Z then (x3, Err)
                          else (x3, Ok (Some {| im_syms := []; im_maxid := Z.to_N (id_maxid d) |})))
             (@keep_bad _ _)) end; auto using harmless_keep.
  - intros; apply read_import_loop_ok; assumption.
  - intros d x3 W3. repeat match goal with |- GoodL _ (if ?b then _ else _) => destruct b end;
      try exact I; apply GoodL_ret; assumption.
Qed.
Lemma read_imports_loop_ok fuel : forall x acc,
  WF x -> x_ctx x <> [] -> GoodL x (read_imports_loop api_next fuel x acc).
Proof.
  induction fuel as [|f IH]; intros x acc Hw Hc; cbn [read_imports_loop]; [exact I|].
  nx x1 Hn Cn.
  - eapply GoodL_trans; [exact Cn|].
    pose proof (read_import_ok (S f) x1 (wf_WF _ Hn)) as H2.
    destruct (read_import api_next (S f) x1) as [x2 [[i|]| | |]]; cbn [keep_bad GoodL] in *; try exact I; try contradiction;
      destruct H2 as [W2 C2]; (eapply GoodL_trans; [exact C2|]); apply IH; try exact W2; rewrite C2, Cn; exact Hc.
  - split; assumption.
Qed.
Lemma read_imports_ok fuel x : WF x -> GoodL x (read_imports api_next fuel x).
Proof.
  intros Hw. unfold read_imports.
  match goal with |- GoodL x (match ?c with _ => _ end) => assert (Hc : forall r, c = Some r -> GoodL x r) end.
  { intros r. destruct (x_type x =? TSymbol); [|discriminate].
    destruct (x_err x); [intros E; injection E as <-; exact I|].
    destruct (x_value x) as [| | | | | | |tk| | |]; try discriminate.
    destruct (is_append_marker tk); [|discriminate].
    destruct (x_lst x); intros E; injection E as <-; apply GoodL_ret; exact Hw. }
  match goal with |- GoodL x (match ?c with _ => _ end) => destruct c as [r|] end; [apply Hc; reflexivity|].
  destruct (negb (x_type x =? TList) || x_is_null x); [apply GoodL_ret; exact Hw|].
  apply (in_container x (fun x1 => read_imports_loop api_next fuel x1 []) (fun a x3 => (x3, Ok a)) (fun r => r)); auto using harmless_id.
  - intros; apply read_imports_loop_ok; assumption.
  - intros; apply GoodL_ret; assumption.
Qed.
Lemma read_lst_loop_ok fuel : forall x imps syms fi fs,
  WF x -> x_ctx x <> [] -> GoodL x (read_lst_loop api_next fuel x imps syms fi fs).
Proof.
  induction fuel as [|f IH]; intros x imps syms fi fs Hw Hc; cbn [read_lst_loop]; [exact I|].
  nx x1 Hn Cn.
  - eapply GoodL_trans; [exact Cn|].
    assert (Hc1 : x_ctx x1 <> []) by (rewrite Cn; exact Hc).
    destruct (x_err x1); [exact I|]. destruct (field_text x1) as [fnm|]; [|exact I].
    destruct (list_eqb fnm (s "symbols")).
    + destruct fs; [exact I|].
      pose proof (read_symbols_ok (S f) x1 (wf_WF _ Hn)) as H2.
      destruct (read_symbols api_next (S f) x1) as [x2 [sy| | |]]; cbn [keep_bad GoodL] in *; try exact I; try contradiction.
      destruct H2 as [W2 C2]. eapply GoodL_trans; [exact C2|]. apply IH; [exact W2|rewrite C2; exact Hc1].
    + destruct (list_eqb fnm (s "imports")); [|apply IH; [apply wf_WF, Hn|exact Hc1]].
      destruct fi; [exact I|].
      pose proof (read_imports_ok (S f) x1 (wf_WF _ Hn)) as H2.
      destruct (read_imports api_next (S f) x1) as [x2 [im| | |]]; cbn [keep_bad GoodL] in *; try exact I; try contradiction.
      destruct H2 as [W2 C2]. eapply GoodL_trans; [exact C2|]. apply IH; [exact W2|rewrite C2; exact Hc1].
  - split; assumption.
Qed.
(* a successful readLocalSymbolTable leaves the reader after the struct, inside Next *)
Lemma read_lst_ok fuel x : WF x ->
  match read_local_symbol_table api_next fuel x with
  | (x', Ok _) => L x' /\ x_ctx x' = x_ctx x
  | (_, Panic) => False
  | _ => True
  end.
Proof.
  intros Hw. unfold read_local_symbol_table. pose proof (step_in_spec x Hw) as Hi.
  destruct (x_step_in x) as [x1 [[|]| | |]]; cbn [keep_bad]; try exact I; try contradiction.
  destruct Hi as [L1 [c C1]].
  assert (N1 : x_ctx x1 <> []) by (rewrite C1; discriminate).
  pose proof (read_lst_loop_ok fuel x1 [] [] false false (wf_WF _ (L_wf _ L1)) N1) as H2.
  destruct (read_lst_loop api_next fuel x1 [] [] false false) as [x2 [[im sy]| | |]]; cbn [keep_bad GoodL] in *; try exact I; try contradiction.
  destruct H2 as [W2 C2]. pose proof (step_out_spec x2 W2) as Ho.
  destruct (x_step_out x2) as [x3 [[|]| | |]]; cbn [keep_bad]; try exact I; try contradiction.
  destruct Ho as [L3 [ND [c' C3]]]. split; [exact L3|].
  rewrite C2, C1 in C3; injection C3; auto.
Qed.
End Lst.

Lemma value_then_true (m : R unit) y x :
  hoare (m y) (fun _ x' => wf x' /\ x_ctx x' = x_ctx y) -> x_ctx y = x_ctx x ->
  hoare ((rdo _ <- m; rret true) y) (hpost x).
Proof.
  intros H C. eapply hb; [exact H|]. intros _ x1 [W C1]. cbn. split; [exact W|congruence].
Qed.
Lemma L_xs_lst x l : L x -> L (xs_lst x l).
Proof. intros H; exact H. Qed.
Lemma rvb_symlike k :
  (k =? tokenSymbolOperator) || (k =? tokenDot) || (k =? tokenSymbolQuoted) || (k =? tokenSymbol) = true -> rvb k = true.
Proof.
  intros H. repeat (apply orb_true_iff in H; destruct H as [H|H]); apply N.eqb_eq in H; subst; reflexivity.
Qed.
Lemma rvb_strlike k : (k =? tokenString) || (k =? tokenLongString) = true -> rvb k = true.
Proof.
  intros H. repeat (apply orb_true_iff in H; destruct H as [H|H]); apply N.eqb_eq in H; subst; reflexivity.
Qed.
Lemma container_wf x ty k :
  x_err x = false -> tokpost (x_tok x) -> t_token (x_tok x) = k -> unf_of k = true -> skb k = true ->
  is_container ty = true ->
  wf (xs_val (xs_state x trsBeforeContainer) ty XContainer).
Proof.
  intros E Hp K Uf Sk C. pose proof (tokpost_unf _ _ Hp K) as F. rewrite Uf in F.
  constructor; cbn; auto; try discriminate. intros _. left. rewrite K. exact Sk.
Qed.

Lemma nbta_spec api fuel x :
  x_err x = false -> x_state x = trsBeforeTypeAnnotations -> tokpost (x_tok x) ->
  (x_ctx x <> [] \/ NextOK api) ->
  hoare (next_before_type_annotations pd pt api fuel x) (hpost x).
Proof.
  intros E S Hp Hctx. unfold next_before_type_annotations. unfold rbind at 1, rget.
  assert (Hst : x_state x = trsBeforeFieldName \/ x_state x = trsBeforeTypeAnnotations \/ x_state x = trsAfterValue) by auto.
  assert (Hav : x_state x = trsAfterValue -> state_after_value x = trsAfterValue) by (rewrite S; discriminate).
  assert (Heof : forall k, t_token (x_tok x) = k -> unf_of k = false -> wf (xs_eof x true)).
  { intros k K F. apply eof_wf; auto. intros T. rewrite (tokpost_unf _ _ Hp K), F in T. discriminate. }
  match goal with |- hoare ((if ?b then _ else _) x) _ => destruct b end; [exact I|].
  destruct (t_token (x_tok x) =? tokenEOF) eqn:K0.
  { apply N.eqb_eq in K0. unfold x_at_top. destruct (x_ctx x) eqn:C; [|exact I].
    cbn. split; [|reflexivity]. apply eof_wf; auto. }
  assert (Hu : U (x_tok x)) by (apply tokpost_U; assumption).
  match goal with |- hoare ((if ?b then _ else _) x) _ => destruct b end; [exact I|].
  match goal with |- hoare ((if ?b then _ else _) x) _ => destruct b eqn:K1 end.
  { (* a symbol: annotation or value *)
    apply hb_fin; [apply read_value_fin, rvb_symlike, K1|]. intros v t1 _ F1.
    apply hb_frame; [apply tframe_skip_double_colon|]. intros [ok ws] t2 S2.
    assert (F2 : t_unfinished t2 = false) by (destruct S2 as [_ [S2 _]]; cbn in S2; congruence).
    cbn beta iota.
    destruct ok.
    - match goal with |- hoare ((if ?b then _ else _) _) _ => destruct b end; [exact I|].
      match goal with |- hoare ((if ?b then _ else _) _) _ => destruct b end; [exact I|].
      unfold rbind at 1, rget.
      eapply hb with (P := fun _ x1 => x1 = xs_tok (xs_tok x t1) t2).
      { destruct (t_token (x_tok x) =? tokenSymbolQuoted); [reflexivity|].
        unfold of_res. match goal with |- hoare (_, ?r) _ => pose proof (new_symbol_token_np (x_lst (xs_tok (xs_tok x t1) t2)) v) as Hn;
          destruct r; cbn; auto end. }
      intros k x1 ->. cbn. split; [|reflexivity]. repeat split; cbn; auto.
    - match goal with |- hoare ((if ?b then _ else _) _) _ => destruct b end.
      { (* the version marker *) cbn. split; [|reflexivity]. repeat split; cbn; auto. }
      destruct (t_token (x_tok x) =? tokenSymbolQuoted).
      + apply value_then_true; [|reflexivity]. apply set_value_spec; [exact E|intros T; cbn in T; congruence].
      + eapply hb; [apply on_symbol_spec2; [exact E|exact F2]|].
        intros u x1 [W1 [C1 [S1 T1]]]. unfold rbind at 1, rget.
        match goal with |- hoare ((if ?b then _ else _) _) _ => destruct b eqn:Bn end.
        * (* $ion_symbol_table::null.struct: back inside Next *)
          cbn. split; [|exact C1].
          assert (Sv : state_after_value (xs_lst (x_clear x1) LSys) = state_after_value x1) by reflexivity.
          repeat split; cbn; auto using wf_err.
          -- rewrite S1. destruct (sav_cases x1) as [K|K]; rewrite K; auto.
          -- intros K. rewrite Sv. rewrite <- S1. exact K.
        * cbn. split; [exact W1|exact C1]. }
  match goal with |- hoare ((if ?b then _ else _) x) _ => destruct b eqn:K2 end.
  { apply hb_fin; [apply read_value_fin, rvb_strlike, K2|]. intros v t1 _ F1.
    apply value_then_true; [|reflexivity]. apply set_value_spec; [exact E|intros T; cbn in T; congruence]. }
  match goal with |- hoare ((if ?b then _ else _) x) _ => destruct b eqn:K3 end.
  { apply value_then_true; [|reflexivity]. apply on_number_spec; auto. rewrite K3; discriminate. }
  destruct (t_token (x_tok x) =? tokenTimestamp).
  { apply value_then_true; [|reflexivity]. apply on_timestamp_spec; exact E. }
  destruct (t_token (x_tok x) =? tokenOpenDoubleBrace).
  { apply value_then_true; [|reflexivity]. apply on_lob_spec; assumption. }
  destruct (t_token (x_tok x) =? tokenOpenBrace) eqn:K4.
  { apply N.eqb_eq in K4. unfold rbind at 1, rmod. unfold rbind at 1, rget.
    set (x1 := xs_val (xs_state x trsBeforeContainer) TStruct XContainer).
    assert (W1 : wf x1) by (apply (container_wf x TStruct tokenOpenBrace); auto).
    destruct (x_at_top x1 && is_ion_symbol_table (x_annots x1)) eqn:T.
    - apply andb_prop in T. destruct T as [T _].
      assert (Hn : NextOK api).
      { destruct Hctx as [Hc|Hn]; [|exact Hn]. exfalso. unfold x_at_top in T. subst x1. cbn in T.
        destruct (x_ctx x); [apply Hc; reflexivity|discriminate]. }
      change (x_is_null x1) with false. cbv iota.
      eapply hb; [apply (read_lst_ok api Hn fuel x1 (wf_WF _ W1))|].
      intros st x2 [L2 C2]. cbn. split; [exact L2|exact C2].
    - cbn. split; [exact W1|reflexivity]. }
  destruct (t_token (x_tok x) =? tokenOpenBracket) eqn:K5.
  { apply N.eqb_eq in K5. cbn. split; [|reflexivity]. apply (container_wf x TList tokenOpenBracket); auto. }
  destruct (t_token (x_tok x) =? tokenOpenParen) eqn:K6.
  { apply N.eqb_eq in K6. cbn. split; [|reflexivity]. apply (container_wf x TSexp tokenOpenParen); auto. }
  destruct (t_token (x_tok x) =? tokenCloseBracket) eqn:K7.
  { apply N.eqb_eq in K7. destruct (x_ctx x) as [|[| |] r]; try exact I.
    cbn. split; [apply (Heof _ K7); reflexivity|reflexivity]. }
  destruct (t_token (x_tok x) =? tokenCloseParen) eqn:K8; [|exact I].
  apply N.eqb_eq in K8.
  match goal with |- hoare ((if ?b then _ else _) x) _ => destruct b end; [|exact I].
  cbn. split; [apply (Heof _ K8); reflexivity|reflexivity].
Qed.

Lemma finish_value_val t b t' : t_finish_value t = Ok (b, t') -> b = t_unfinished t.
Proof.
  unfold t_finish_value, t_finish_value_with, mbind, get.
  destruct (t_unfinished t); cbn [negb].
  - destruct (t_skip_value t) as [[c t1]| | |]; try discriminate. cbn. intros H; injection H as <- _. reflexivity.
  - unfold ret. intros H; injection H as <- _. reflexivity.
Qed.

Lemma next_loop_spec api fuel : forall k x,
  L x -> (x_ctx x <> [] \/ NextOK api) -> GoodTop (x_next_loop pd pt api k fuel x).
Proof.
  induction k as [|k IH]; intros x HL Hctx; cbn [x_next_loop]; [exact I|].
  destruct HL as [E [S [A F]]].
  pose proof (next_spec (x_tok x)) as Hn. unfold lift at 1.
  destruct (t_next (x_tok x)) as [[u t1]| | |]; cbn [GoodTop]; try exact I.
  2: { apply explode_WF. }
  2: { apply Hn. intros T. congruence. }
  assert (Hp : tokpost t1) by (apply Hn; intros T; congruence). clear Hn.
  set (x1 := xs_tok x t1).
  assert (Hh : exists step : R bool,
            (if x_state x1 =? trsAfterValue then next_after_value
             else if x_state x1 =? trsBeforeFieldName then next_before_field_name
             else if x_state x1 =? trsBeforeTypeAnnotations then next_before_type_annotations pd pt api fuel
             else rpanic) = step /\ hoare (step x1) (hpost x1)).
  { eexists; split; [reflexivity|].
    change (x_state x1) with (x_state x).
    destruct S as [S|[S|S]]; rewrite S; cbn [N.eqb trsAfterValue trsBeforeFieldName trsBeforeTypeAnnotations Pos.eqb].
    - apply next_before_field_name_spec; auto.
    - apply nbta_spec; auto.
    - apply next_after_value_spec; auto. }
  destruct Hh as [step [-> Hh]].
  destruct (step x1) as [x2 [[|]| | |]]; cbn [hoare hpost GoodTop] in *; try exact I; try contradiction.
  - destruct Hh as [W2 _]. destruct (negb (x_eof x2)); cbn; [exact W2|right; exact W2].
  - destruct Hh as [L2 C2]. apply IH; [exact L2|]. destruct Hctx as [Hc|Hn]; [left; rewrite C2; exact Hc|right; exact Hn].
  - apply explode_WF.
Qed.

Lemma next_with_spec api fuel x :
  WF x -> (x_ctx x <> [] \/ NextOK api) -> GoodTop (x_next_with pd pt api fuel x).
Proof.
  intros Hw Hctx. unfold x_next_with.
  destruct ((x_state x =? trsDone) || x_eof x) eqn:B; [exact Hw|].
  apply orb_false_elim in B. destruct B as [B Eo]. apply N.eqb_neq in B.
  destruct Hw as [[D _]|W]; [contradiction|].
  assert (Hu : U (x_tok x)).
  { intros T. destruct (wf_unf x W T) as [Sk|[_ [K _]]]; [exact Sk|congruence]. }
  unfold x_finish_value, rbind at 1, lift at 1.
  pose proof (finish_value_fin (x_tok x) Hu) as Hf. unfold tfin in Hf.
  pose proof (finish_value_val (x_tok x)) as Hv.
  destruct (t_finish_value (x_tok x)) as [[b t1]| | |]; cbn [GoodTop]; try exact I; try contradiction.
  2: { apply explode_WF. }
  destruct Hf as [F1 [F2 _]]. specialize (Hv b t1 eq_refl).
  assert (HL : L (x_clear (fst ((if b then rmod (fun x0 => xs_state x0 (state_after_value x0)) else rret tt) (xs_tok x t1))))).
  { destruct b; cbn.
    - repeat split; cbn; auto using wf_err.
      + change (state_after_value (xs_tok x t1)) with (state_after_value x). destruct (sav_cases x) as [K|K]; rewrite K; auto.
    - repeat split; cbn; auto using wf_err.
      + destruct (wf_state x W) as [K|[K|[K|K]]]; auto. destruct (wf_bc x W K) as [T _]. congruence.
      + apply (wf_av x W). }
  destruct b; cbn in *; (apply next_loop_spec; [exact HL|exact Hctx]).
Qed.
End Handlers.

(* ---- the two levels of Next, the API, navigation programs ------------------------------------------------------------ *)
Section Api.
Variable pd : list N -> res dec.
Variable pt : list N -> res (list N).
Hypothesis pd_np : forall l, pd l <> Panic.
Hypothesis pt_np : forall l, pt l <> Panic.

Lemma next_inner_ok : NextOK (x_next_inner pd pt).
Proof.
  intros x Hw Hc. split.
  - apply next_with_spec; auto.
  - apply next_with_ctx; exact Hc.
Qed.
Lemma next_ok x : WF x -> GoodTop (x_next pd pt x).
Proof. intros Hw. apply next_with_spec; auto. right. exact next_inner_ok. Qed.

Lemma init_WF inp ioerr : WF (x_init inp ioerr).
Proof. right. constructor; cbn; auto; discriminate. Qed.

(* one API call on a well-formed reader: no panic, and the reader stays well-formed *)
Lemma op_ok x o : WF x ->
  match x_op_res pd pt x o with
  | (x', Ok _) => WF x'
  | (_, Panic) => False
  | _ => True
  end.
Proof.
  intros Hw. destruct o; cbn [x_op_res];
    repeat match goal with
           | |- match (if ?b then _ else _) with _ => _ end => destruct b
           end; try exact Hw.
  - pose proof (next_ok x Hw) as H. destruct (x_next pd pt x) as [x1 [[|]| | |]]; cbn in *; auto. right; exact H.
  - pose proof (step_in_spec x Hw) as H. destruct (x_step_in x) as [x1 [[|]| | |]]; cbn in *; auto.
    + destruct H as [H _]. right. apply L_wf, H.
    + subst; exact Hw.
  - pose proof (step_out_spec x Hw) as H. destruct (x_step_out x) as [x1 [[|]| | |]]; cbn in *; auto.
    + destruct H as [H _]. right. apply L_wf, H.
    + apply H.
  - repeat match goal with
           | |- match (if ?b then _ else _) with _ => _ end => destruct b
           | |- match (match ?v with _ => _ end) with _ => _ end => destruct v
           end; exact Hw.
  - repeat match goal with
           | |- match (if ?b then _ else _) with _ => _ end => destruct b
           | |- match (match ?v with _ => _ end) with _ => _ end => destruct v
           end; exact Hw.
Qed.

Definition PANIC : list N := [112; 97; 110; 105; 99].
(* no answer token of a call is the word "panic" *)
Lemma op_token x o x' t : x_op_res pd pt x o = (x', Ok t) -> t <> PANIC.
Proof.
  unfold PANIC. destruct o; cbn [x_op_res];
    repeat match goal with
           | |- (if ?b then _ else _) = _ -> _ => destruct b
           | |- (match ?v with _ => _ end) = _ -> _ => destruct v
           | |- (let (_, _) := ?v in _) = _ -> _ => destruct v
           end; try discriminate;
    intros H; injection H as _ <-; try discriminate;
    repeat match goal with
           | |- (if ?b then _ else _) <> _ => destruct b
           | |- (match ?v with _ => _ end) <> _ => destruct v
           end; try discriminate.
  all: unfold show_tok; repeat match goal with |- (match ?v with _ => _ end) <> _ => destruct v end; discriminate.
Qed.

Lemma run_ok : forall p x acc,
  WF x -> ~ In PANIC acc -> ~ In PANIC (snd (x_run pd pt x p acc)).
Proof.
  induction p as [|o p IH]; intros x acc Hw Ha; cbn [x_run].
  - cbn [snd]. rewrite <- in_rev. exact Ha.
  - pose proof (op_ok x o Hw) as H. pose proof (op_token x o) as Ht.
    destruct (x_op_res pd pt x o) as [x1 [t| | |]]; try contradiction.
    + apply IH; [exact H|]. intros [K|K]; [exact (Ht x1 t eq_refl K)|exact (Ha K)].
    + cbn [snd]. rewrite <- in_rev. intros [K|K]; [vm_compute in K; discriminate K|exact (Ha K)].
    + cbn [snd]. rewrite <- in_rev. intros [K|K]; [vm_compute in K; discriminate K|exact (Ha K)].
Qed.
Lemma run_WF : forall p x acc, WF x ->
  WF (fst (x_run pd pt x p acc)) \/ In (s "outoffuel") (snd (x_run pd pt x p acc)).
Proof.
  induction p as [|o p IH]; intros x acc Hw; cbn [x_run]; [left; exact Hw|].
  pose proof (op_ok x o Hw) as H.
  destruct (x_op_res pd pt x o) as [x1 [t| | |]]; try contradiction.
  - apply IH; exact H.
  - right. cbn [snd]. rewrite <- in_rev. left; reflexivity.
  - right. cbn [snd]. rewrite <- in_rev. left; reflexivity.
Qed.
End Api.

(* ---- the driver's decimal / timestamp parsers never panic -------------------------------------------------------------- *)
Lemma parse_decimal_text_np l : parse_decimal_text l <> Panic.
Proof.
  unfold parse_decimal_text. destruct l as [|c l]; [discriminate|].
  match goal with |- bind ?m _ <> _ => assert (Hm : m <> Panic); [ | destruct m as [[e0 inp]| | |]; try discriminate; try congruence ] end.
  { destruct (split_at_first _ (c :: l) []) as [[m ex]|]; [|discriminate].
    destruct ex; [discriminate|]. destruct (go_signed_val 10 (n :: ex)); [|discriminate].
    destruct (in_int64 z); discriminate. }
  cbn [bind]. destruct (split_at_first _ inp []) as [[ip fp]|].
  - destruct (negb (in_int32 _)); [discriminate|].
    match goal with |- context [go_signed_val 10 ?v] => destruct (go_signed_val 10 v) end; discriminate.
  - destruct (negb (in_int32 _)); [discriminate|].
    match goal with |- context [go_signed_val 10 ?v] => destruct (go_signed_val 10 v) end; discriminate.
Qed.
Lemma parse_ts_text_np l : parse_ts_text l <> Panic.
Proof.
  unfold parse_ts_text.
  repeat match goal with
         | |- (if ?b then _ else _) <> _ => destruct b
         | |- (match ?v with _ => _ end) <> _ => destruct v
         | |- (let '(_, _) := ?v in _) <> _ => destruct v
         end; discriminate.
Qed.

(* for every input and every navigation program no call panics *)
Theorem no_panic_run inp ioerr p :
  ~ In PANIC (snd (x_run parse_decimal_text parse_ts_text (x_init inp ioerr) p [])).
Proof.
  apply run_ok; [exact parse_decimal_text_np|exact parse_ts_text_np|apply init_WF|intros []].
Qed.

(* ---- every text the reader holds is UTF-8 -------------------------------------------------------------------------- *)
Definition vtext (t : text) : Prop := utf8_valid t = true.
Definition vtok (k : tok) : Prop := match tk_text k with Some t => vtext t | None => True end.
Definition vval (v : xvalue) : Prop :=
  match v with XString t => vtext t | XSymbol k => vtok k | _ => True end.
Definition vimp (i : imp) : Prop := Forall vtext (im_syms i).
Definition vlst (l : rlst) : Prop :=
  match l with LSys => True | LTab tb => Forall vimp (lt_imps tb) /\ Forall vtext (lt_locals tb) end.
Definition V (x : xstate) : Prop :=
  vval (x_value x) /\ match x_field x with Some k => vtok k | None => True end /\
  Forall vtok (x_annots x) /\ vlst (x_lst x).

Lemma v_system : Forall vtext system_symbols.
Proof. repeat constructor. Qed.
Lemma v_sys_imp : vimp sys_imp. Proof. exact v_system. Qed.

Lemma v_imp_find i id t : vimp i -> imp_find_by_id i id = Some t -> vtext t.
Proof.
  unfold imp_find_by_id. intros Hi. destruct ((id =? 0) || (N.of_nat (length (im_syms i)) <? id)); [discriminate|].
  intros E. apply nth_error_In in E. unfold vimp in Hi. rewrite Forall_forall in Hi. auto.
Qed.
Lemma v_find_in_imports : forall rest prev off nxt id t,
  vimp prev -> Forall vimp rest -> find_in_imports prev rest off nxt id = Some t -> vtext t.
Proof.
  induction rest as [|nx rest IH]; intros prev off nxt id t Hp Hr; cbn [find_in_imports].
  - apply v_imp_find; exact Hp.
  - destruct (id <=? nxt); [apply v_imp_find; exact Hp|].
    inversion Hr; subst. apply IH; assumption.
Qed.
Lemma v_lst_find l id t : vlst l -> lst_find_by_id l id = Some t -> vtext t.
Proof.
  destruct l as [|tb]; cbn [lst_find_by_id vlst].
  - intros _. apply v_imp_find, v_sys_imp.
  - intros [Hi Hl]. destruct (id =? 0); [discriminate|].
    destruct (id <=? max_import_id (lt_imps tb)).
    + destruct (lt_imps tb) as [|i0 rest]; [discriminate|]. inversion Hi; subst. apply v_find_in_imports; assumption.
    + match goal with |- (if ?b then _ else _) = _ -> _ => destruct b end; [|discriminate].
      intros E. apply nth_error_In in E. rewrite Forall_forall in Hl. auto.
Qed.
Lemma v_name_token l t : vtext t -> vtok (name_symbol_token l t).
Proof. intros H; exact H. Qed.
Lemma v_new_symbol_token l t k : vlst l -> vtext t -> new_symbol_token l t = Ok k -> vtok k.
Proof.
  intros Hl Ht. unfold new_symbol_token. destruct (symbol_identifier t).
  - destruct (z <? 0)%Z; [discriminate|]. unfold tok_by_sid.
    destruct (sid_ok l (Z.to_N z)); [|discriminate]. intros E; injection E as <-.
    unfold vtok. cbn. destruct (lst_find_by_id l (Z.to_N z)) eqn:F; [|exact I]. eapply v_lst_find; eassumption.
  - destruct (symbol_id_out_of_range t); [discriminate|]. intros E; injection E as <-. apply v_name_token, Ht.
Qed.
Lemma v_tok_text t : vtext t -> vtok (tok_text t).
Proof. intros H; exact H. Qed.

Lemma V_tok x t : V x -> V (xs_tok x t). Proof. intros H; exact H. Qed.
Lemma V_state x st : V x -> V (xs_state x st). Proof. intros H; exact H. Qed.
Lemma V_eof x b : V x -> V (xs_eof x b). Proof. intros H; exact H. Qed.
Lemma V_ctx x c : V x -> V (xs_ctx x c). Proof. intros H; exact H. Qed.
Lemma V_explode x : V x -> V (x_explode x). Proof. intros H; exact H. Qed.
Lemma V_clear x : V x -> V (x_clear x).
Proof. intros [_ [_ [_ H]]]. repeat split; cbn; auto. Qed.
Lemma V_val x ty v : V x -> vval v -> V (xs_val x ty v).
Proof. intros [_ [H2 [H3 H4]]] Hv. repeat split; cbn; auto. Qed.
Lemma V_lst x l : V x -> vlst l -> V (xs_lst x l).
Proof. intros [H1 [H2 [H3 _]]] Hl. repeat split; cbn; auto. Qed.
Lemma V_field x k : V x -> vtok k -> V (xs_field x (Some k)).
Proof. intros [H1 [_ [H3 H4]]] Hk. repeat split; cbn; auto. Qed.
Lemma V_annot x k : V x -> vtok k -> V (xs_annots x (x_annots x ++ [k])).
Proof. intros [H1 [H2 [H3 H4]]] Hk. repeat split; cbn; auto. apply Forall_app; auto. Qed.

(* V is kept whatever the outcome; an Ok answer satisfies Q *)
Definition vpres {A} (m : R A) (Q : A -> Prop) : Prop :=
  forall x, V x -> match m x with (x', Ok a) => V x' /\ Q a | (x', _) => V x' end.
Definition any {A} : A -> Prop := fun _ => True.
Lemma vpres_weaken {A} (m : R A) (Q Q' : A -> Prop) : vpres m Q -> (forall a, Q a -> Q' a) -> vpres m Q'.
Proof. intros H HQ x Hx. specialize (H x Hx). destruct (m x) as [x' [a| | |]]; auto. destruct H; auto. Qed.
Lemma vpres_ret {A} (a : A) (Q : A -> Prop) : Q a -> vpres (rret a) Q.
Proof. intros H x Hx; split; auto. Qed.
Lemma vpres_fail {A} (Q : A -> Prop) : vpres (@rfail A) Q. Proof. intros x Hx; exact Hx. Qed.
Lemma vpres_panic {A} (Q : A -> Prop) : vpres (@rpanic A) Q. Proof. intros x Hx; exact Hx. Qed.
Lemma vpres_rget : vpres rget V. Proof. intros x Hx; split; exact Hx. Qed.
Lemma vpres_of_res {A} (r : res A) (Q : A -> Prop) : (forall a, r = Ok a -> Q a) -> vpres (of_res r) Q.
Proof. intros H x Hx. unfold of_res. destruct r; auto. Qed.
Lemma vpres_lift {A} (m : M A) (Q : A -> Prop) :
  (forall t, match m t with Ok (a, _) => Q a | _ => True end) -> vpres (lift m) Q.
Proof.
  intros H x Hx. unfold lift. specialize (H (x_tok x)). destruct (m (x_tok x)) as [[a t]| | |]; auto.
Qed.
Lemma vpres_lift_any {A} (m : M A) : vpres (lift m) any.
Proof. apply vpres_lift. intros t. destruct (m t) as [[a t']| | |]; exact I. Qed.
Lemma vpres_rmod (f : xstate -> xstate) : (forall x, V x -> V (f x)) -> vpres (rmod f) any.
Proof. intros H x Hx. split; [apply H; exact Hx|exact I]. Qed.
Lemma vpres_bind {A B} (m : R A) (f : A -> R B) (P : A -> Prop) (Q : B -> Prop) :
  vpres m P -> (forall a, P a -> vpres (f a) Q) -> vpres (rbind m f) Q.
Proof.
  intros Hm Hf x Hx. unfold rbind. specialize (Hm x Hx). destruct (m x) as [x1 [a| | |]]; auto.
  destruct Hm as [H1 Pa]. apply Hf; assumption.
Qed.
Lemma vpres_bind_any {A B} (m : R A) (f : A -> R B) (Q : B -> Prop) :
  vpres m any -> (forall a, vpres (f a) Q) -> vpres (rbind m f) Q.
Proof. intros Hm Hf. eapply vpres_bind; [exact Hm|intros a _; apply Hf]. Qed.

Ltac vp :=
  repeat first
    [ assumption
    | apply vpres_fail | apply vpres_panic
    | apply vpres_ret; exact I
    | apply vpres_bind_any; [ first [ apply vpres_lift_any
                                    | apply vpres_of_res; intros; exact I
                                    | apply vpres_rmod; intros; first [assumption | apply V_state; assumption | apply V_eof; assumption]
                                    | eapply vpres_weaken; [apply vpres_rget | intros; exact I] ] | intros ]
    | match goal with
      | |- vpres (if ?b then _ else _) _ => destruct b
      | |- vpres (match ?v with _ => _ end) _ => destruct v
      | |- vpres (let '(_, _) := ?p in _) _ => destruct p
      end ].

Lemma vpres_set_value ty v : vval v -> vpres (set_value ty v) any.
Proof. intros Hv. unfold set_value. apply vpres_rmod. intros x Hx. apply V_val; [apply V_state; exact Hx|exact Hv]. Qed.
Lemma vpres_read_null_type : vpres read_null_type any.
Proof. unfold read_null_type. vp. Qed.
Lemma vpres_on_null ws : vpres (on_null ws) any.
Proof. pose proof vpres_read_null_type. unfold on_null. vp. Qed.
Lemma vpres_on_symbol v ws : vtext v -> vpres (on_symbol v ws) any.
Proof.
  intros Hv. unfold on_symbol.
  destruct (list_eqb v (s "null")); [apply vpres_bind_any; [apply vpres_on_null|intros; apply vpres_set_value; exact I]|].
  destruct (list_eqb v (s "true")); [apply vpres_set_value; exact I|].
  destruct (list_eqb v (s "false")); [apply vpres_set_value; exact I|].
  destruct (list_eqb v (s "nan")); [apply vpres_set_value; exact I|].
  eapply vpres_bind; [apply vpres_rget|]. intros x Hx.
  eapply vpres_bind; [apply (vpres_of_res _ vtok)|].
  { intros k E. destruct Hx as [_ [_ [_ Hl]]]. eapply v_new_symbol_token; eassumption. }
  intros k Hk. apply vpres_set_value. exact Hk.
Qed.
Section Utf8Reader.
Variable pd : list N -> res dec.
Variable pt : list N -> res (list N).
Lemma vpres_on_number tok : vpres (on_number pd tok) any.
Proof. unfold on_number. vp; apply vpres_set_value; exact I. Qed.
Lemma vpres_on_timestamp : vpres (on_timestamp pt) any.
Proof. unfold on_timestamp. vp; apply vpres_set_value; exact I. Qed.
Lemma vpres_on_lob : vpres on_lob any.
Proof. unfold on_lob. vp; apply vpres_set_value; exact I. Qed.
Lemma vpres_next_after_value : vpres next_after_value any.
Proof. unfold next_after_value. vp. Qed.
Lemma vpres_finish_value : vpres x_finish_value any.
Proof. unfold x_finish_value. vp. Qed.

Lemma read_value_vtext k : textual k = true ->
  forall t, match t_read_value k t with Ok (v, _) => vtext v | _ => True end.
Proof. intros Hk t. apply (valid_read_value k Hk t). Qed.
Lemma textual_field k :
  (k =? tokenSymbol) || (k =? tokenSymbolQuoted) || (k =? tokenString) || (k =? tokenLongString) = true -> textual k = true.
Proof. intros H. repeat (apply orb_true_iff in H; destruct H as [H|H]); apply N.eqb_eq in H; subst; reflexivity. Qed.
Lemma textual_symlike k :
  (k =? tokenSymbolOperator) || (k =? tokenDot) || (k =? tokenSymbolQuoted) || (k =? tokenSymbol) = true -> textual k = true.
Proof. intros H. repeat (apply orb_true_iff in H; destruct H as [H|H]); apply N.eqb_eq in H; subst; reflexivity. Qed.
Lemma textual_strlike k : (k =? tokenString) || (k =? tokenLongString) = true -> textual k = true.
Proof. intros H. repeat (apply orb_true_iff in H; destruct H as [H|H]); apply N.eqb_eq in H; subst; reflexivity. Qed.

Lemma vpres_next_before_field_name : vpres next_before_field_name any.
Proof.
  unfold next_before_field_name. eapply vpres_bind; [apply vpres_rget|]. intros x Hx.
  destruct (t_token (x_tok x) =? tokenCloseBrace); [vp|].
  match goal with |- vpres (if ?b then _ else _) _ => destruct b eqn:K end; [|apply vpres_fail].
  eapply vpres_bind; [apply (vpres_lift _ vtext), read_value_vtext, textual_field, K|]. intros v Hv.
  match goal with |- vpres (if ?b then _ else _) _ => destruct b end; [apply vpres_fail|].
  eapply vpres_bind with (P := vtok).
  { destruct (t_token (x_tok x) =? tokenSymbolQuoted); [apply vpres_ret, v_tok_text, Hv|].
    match goal with |- vpres (if ?b then _ else _) _ => destruct b end; [apply vpres_ret, v_name_token, Hv|].
    apply vpres_of_res. intros k E. destruct Hx as [_ [_ [_ Hl]]]. eapply v_new_symbol_token; eassumption. }
  intros k Hk. apply vpres_bind_any; [apply vpres_rmod; intros; apply V_field; assumption|]. intros _. vp.
Qed.

Section Lst.
Variable api_next : xstate -> xstate * res bool.
Hypothesis Hnext : forall x, V x -> V (fst (api_next x)).

Ltac nxv x1 r :=
  match goal with
  | |- context [api_next ?x] =>
    let H := fresh "Hn" in
    pose proof (Hnext x) as H; destruct (api_next x) as [x1 r]; cbn [fst] in H
  end.

Lemma step_in_V x : V x -> V (fst (x_step_in x)).
Proof.
  intros H. unfold x_step_in. destruct (x_err x); [exact H|].
  destruct (negb (x_state x =? trsBeforeContainer)); [exact H|].
  destruct (x_type x =? TList); [apply V_tok, V_clear, V_state, V_ctx, H|].
  destruct (x_type x =? TSexp); [apply V_tok, V_clear, V_state, V_ctx, H|].
  destruct (x_type x =? TStruct); [apply V_tok, V_clear, V_state, V_ctx, H|exact H].
Qed.
Lemma lift_V {A} (m : M A) x : V x -> V (fst (lift m x)).
Proof. intros H. unfold lift. destruct (m (x_tok x)) as [[a t]| | |]; cbn; auto. Qed.
Lemma step_out_V x : V x -> V (fst (x_step_out x)).
Proof.
  intros H. unfold x_step_out. destruct (x_err x); [exact H|]. destruct (x_ctx x) as [|c rest]; [exact H|].
  pose proof (lift_V t_finish_value x H) as H1.
  destruct (lift t_finish_value x) as [x1 [b| | |]]; cbn [fst] in *; auto using V_explode.
  assert (H2 : V (fst (if x_eof x1 then (x1, Ok tt) else lift (t_skip_container_contents c) x1)))
    by (destruct (x_eof x1); [exact H1|apply lift_V, H1]).
  destruct (if x_eof x1 then (x1, Ok tt) else lift (t_skip_container_contents c) x1) as [x2 [u| | |]];
    cbn [fst] in *; auto using V_explode.
  apply V_eof, V_clear, V_state, V_ctx, H2.
Qed.

(* the loops: the reader stays valid, and what they collect is valid *)
Definition VR {A} (P : A -> Prop) (r : xstate * res A) : Prop :=
  V (fst r) /\ match snd r with Ok a => P a | _ => True end.
Lemma read_symbols_loop_V fuel : forall x acc,
  V x -> Forall vtext acc -> VR (Forall vtext) (read_symbols_loop api_next fuel x acc).
Proof.
  induction fuel as [|f IH]; intros x acc H Ha; cbn [read_symbols_loop]; [split; auto; exact I|].
  nxv x1 r. specialize (Hn H). destruct r as [[|]| | |]; try (split; cbn; auto; fail).
  apply IH; [exact Hn|]. apply Forall_app; split; [exact Ha|]. constructor; [|constructor].
  destruct (x_type x1 =? TString); [|reflexivity].
  destruct Hn as [Hv _]. destruct (x_value x1); try reflexivity. exact Hv.
Qed.
Lemma read_symbols_V fuel x : V x -> VR (Forall vtext) (read_symbols api_next fuel x).
Proof.
  intros H. unfold read_symbols. destruct (negb (x_type x =? TList) || x_is_null x); [split; cbn; auto|].
  pose proof (step_in_V x H) as H1. destruct (x_step_in x) as [x1 [[|]| | |]]; cbn [fst] in *; try (split; cbn; auto; fail).
  pose proof (read_symbols_loop_V fuel x1 [] H1 (Forall_nil _)) as [H2 P2].
  destruct (read_symbols_loop api_next fuel x1 []) as [x2 [sy| | |]]; cbn [fst snd] in *; try (split; cbn; auto; fail).
  pose proof (step_out_V x2 H2) as H3. destruct (x_step_out x2) as [x3 [[|]| | |]]; cbn [fst] in *; split; cbn; auto.
Qed.
Lemma read_import_loop_V fuel : forall x d, V x -> V (fst (read_import_loop api_next fuel x d)).
Proof.
  induction fuel as [|f IH]; intros x d H; cbn [read_import_loop]; [exact H|].
  nxv x1 r. specialize (Hn H). destruct r as [[|]| | |]; cbn [fst]; auto.
  destruct (x_err x1); cbn [fst]; auto. destruct (field_text x1); cbn [fst]; auto.
  repeat match goal with
         | |- V (fst (if ?b then _ else _)) => destruct b
         | |- V (fst (match ?v with _ => _ end)) => destruct v
         end; cbn [fst]; auto.
Qed.
Lemma read_import_V fuel x : V x -> VR (fun o => match o with Some i => vimp i | None => True end) (read_import api_next fuel x).
Proof.
  intros H. unfold read_import. destruct (negb (x_type x =? TStruct) || x_is_null x); [split; cbn; auto|].
  pose proof (step_in_V x H) as H1. destruct (x_step_in x) as [x1 [[|]| | |]]; cbn [fst] in *; try (split; cbn; auto; fail).
  match goal with |- context [read_import_loop api_next fuel x1 ?d] =>
    pose proof (read_import_loop_V fuel x1 d H1) as H2;
    destruct (read_import_loop api_next fuel x1 d) as [x2 [dd| | |]] end; cbn [fst] in *; try (split; cbn; auto; fail).
  pose proof (step_out_V x2 H2) as H3. destruct (x_step_out x2) as [x3 [[|]| | |]]; cbn [fst] in *; try (split; cbn; auto; fail).
  repeat match goal with |- VR _ (if ?b then _ else _) => destruct b end; split; cbn; auto. constructor.
Qed.
Lemma read_imports_loop_V fuel : forall x acc,
  V x -> Forall vimp acc -> VR (Forall vimp) (read_imports_loop api_next fuel x acc).
Proof.
  induction fuel as [|f IH]; intros x acc H Ha; cbn [read_imports_loop]; [split; auto; exact I|].
  nxv x1 r. specialize (Hn H). destruct r as [[|]| | |]; try (split; cbn; auto; fail).
  pose proof (read_import_V (S f) x1 Hn) as [H2 P2].
  destruct (read_import api_next (S f) x1) as [x2 [[i|]| | |]]; cbn [fst snd] in *; try (split; cbn; auto; fail).
  - apply IH; [exact H2|]. apply Forall_app; split; [exact Ha|constructor; [exact P2|constructor]].
  - apply IH; assumption.
Qed.
Lemma read_imports_V fuel x : V x -> VR (Forall vimp) (read_imports api_next fuel x).
Proof.
  intros H. unfold read_imports.
  match goal with |- VR _ (match ?c with _ => _ end) => assert (Hc : forall r, c = Some r -> VR (Forall vimp) r) end.
  { intros r. destruct (x_type x =? TSymbol); [|discriminate].
    destruct (x_err x); [intros E; injection E as <-; split; cbn; auto|].
    destruct (x_value x) as [| | | | | | |tk| | |]; try discriminate.
    destruct (is_append_marker tk); [|discriminate].
    pose proof H as [_ [_ [_ H4]]].
    destruct (x_lst x) as [|t0] eqn:El; intros E; injection E as <-; (split; [exact H|]); cbn.
    - constructor.
    - destruct H4 as [Hi Hl]. apply Forall_app; split; [exact Hi|constructor; [exact Hl|constructor]]. }
  match goal with |- VR _ (match ?c with _ => _ end) => destruct c as [r|] end; [apply Hc; reflexivity|].
  destruct (negb (x_type x =? TList) || x_is_null x); [split; cbn; auto|].
  pose proof (step_in_V x H) as H1. destruct (x_step_in x) as [x1 [[|]| | |]]; cbn [fst] in *; try (split; cbn; auto; fail).
  pose proof (read_imports_loop_V fuel x1 [] H1 (Forall_nil _)) as [H2 P2].
  destruct (read_imports_loop api_next fuel x1 []) as [x2 [im| | |]]; cbn [fst snd] in *; try (split; cbn; auto; fail).
  pose proof (step_out_V x2 H2) as H3. destruct (x_step_out x2) as [x3 [[|]| | |]]; cbn [fst] in *; split; cbn; auto.
Qed.
Lemma read_lst_loop_V fuel : forall x imps syms fi fs,
  V x -> Forall vimp imps -> Forall vtext syms ->
  VR (fun p => Forall vimp (fst p) /\ Forall vtext (snd p)) (read_lst_loop api_next fuel x imps syms fi fs).
Proof.
  induction fuel as [|f IH]; intros x imps syms fi fs H Hi Hs; cbn [read_lst_loop]; [split; auto; exact I|].
  nxv x1 r. specialize (Hn H). destruct r as [[|]| | |]; try (split; cbn; auto; fail).
  destruct (x_err x1); [split; cbn; auto|]. destruct (field_text x1) as [fnm|]; [|split; cbn; auto].
  destruct (list_eqb fnm (s "symbols")).
  - destruct fs; [split; cbn; auto|].
    pose proof (read_symbols_V (S f) x1 Hn) as [H2 P2].
    destruct (read_symbols api_next (S f) x1) as [x2 [sy| | |]]; cbn [fst snd] in *; try (split; cbn; auto; fail).
    apply IH; assumption.
  - destruct (list_eqb fnm (s "imports")); [|apply IH; assumption].
    destruct fi; [split; cbn; auto|].
    pose proof (read_imports_V (S f) x1 Hn) as [H2 P2].
    destruct (read_imports api_next (S f) x1) as [x2 [im| | |]]; cbn [fst snd] in *; try (split; cbn; auto; fail).
    apply IH; assumption.
Qed.
Lemma read_lst_V fuel x : V x -> VR vlst (read_local_symbol_table api_next fuel x).
Proof.
  intros H. unfold read_local_symbol_table.
  pose proof (step_in_V x H) as H1. destruct (x_step_in x) as [x1 [[|]| | |]]; cbn [fst] in *; try (split; cbn; auto; fail).
  pose proof (read_lst_loop_V fuel x1 [] [] false false H1 (Forall_nil _) (Forall_nil _)) as [H2 P2].
  destruct (read_lst_loop api_next fuel x1 [] [] false false) as [x2 [[im sy]| | |]]; cbn [fst snd] in *; try (split; cbn; auto; fail).
  pose proof (step_out_V x2 H2) as H3. destruct (x_step_out x2) as [x3 [[|]| | |]]; cbn [fst] in *; try (split; cbn; auto; fail).
  destruct P2 as [Pi Ps]. split; [exact H3|]. cbn. split; [|exact Ps].
  unfold process_imports. match goal with |- Forall vimp (if ?b then _ else _) => destruct b end; [exact Pi|].
  constructor; [exact v_sys_imp|exact Pi].
Qed.

Lemma vpres_read_lst fuel : vpres (read_local_symbol_table api_next fuel) vlst.
Proof.
  intros x Hx. pose proof (read_lst_V fuel x Hx) as [H1 H2].
  destruct (read_local_symbol_table api_next fuel x) as [x' [l| | |]]; cbn [fst snd] in *; auto.
Qed.

Lemma vpres_nbta fuel : vpres (next_before_type_annotations pd pt api_next fuel) any.
Proof.
  unfold next_before_type_annotations. eapply vpres_bind; [apply vpres_rget|]. intros x Hx.
  match goal with |- vpres (if ?b then _ else _) _ => destruct b end; [apply vpres_fail|].
  destruct (t_token (x_tok x) =? tokenEOF); [vp|].
  match goal with |- vpres (if ?b then _ else _) _ => destruct b end; [apply vpres_fail|].
  match goal with |- vpres (if ?b then _ else _) _ => destruct b eqn:K1 end.
  { eapply vpres_bind; [apply (vpres_lift _ vtext), read_value_vtext, textual_symlike, K1|]. intros v Hv.
    apply vpres_bind_any; [apply vpres_lift_any|]. intros [ok ws].
    destruct ok.
    - match goal with |- vpres (if ?b then _ else _) _ => destruct b end; [apply vpres_fail|].
      match goal with |- vpres (if ?b then _ else _) _ => destruct b end; [apply vpres_fail|].
      eapply vpres_bind; [apply vpres_rget|]. intros x2 Hx2.
      eapply vpres_bind with (P := vtok).
      { destruct (t_token (x_tok x) =? tokenSymbolQuoted); [apply vpres_ret, v_tok_text, Hv|].
        apply vpres_of_res. intros k E. destruct Hx2 as [_ [_ [_ Hl]]]. eapply v_new_symbol_token; eassumption. }
      intros k Hk. apply vpres_bind_any; [apply vpres_rmod; intros; apply V_annot; assumption|]. intros _. vp.
    - match goal with |- vpres (if ?b then _ else _) _ => destruct b end.
      { apply vpres_bind_any; [apply vpres_rmod; intros; apply V_lst; [assumption|exact I]|]. intros _. vp. }
      destruct (t_token (x_tok x) =? tokenSymbolQuoted).
      + apply vpres_bind_any; [apply vpres_set_value, v_tok_text, Hv|]. intros _. vp.
      + apply vpres_bind_any; [apply vpres_on_symbol, Hv|]. intros _.
        eapply vpres_bind; [apply vpres_rget|]. intros x1 Hx1.
        match goal with |- vpres (if ?b then _ else _) _ => destruct b end; [|vp].
        apply vpres_bind_any; [apply vpres_rmod; intros; apply V_lst; [apply V_clear; assumption|exact I]|]. intros _. vp. }
  match goal with |- vpres (if ?b then _ else _) _ => destruct b eqn:K2 end.
  { eapply vpres_bind; [apply (vpres_lift _ vtext), read_value_vtext, textual_strlike, K2|]. intros v Hv.
    apply vpres_bind_any; [apply vpres_set_value, Hv|]. intros _. vp. }
  match goal with |- vpres (if ?b then _ else _) _ => destruct b end.
  { apply vpres_bind_any; [apply vpres_on_number|]. intros _. vp. }
  destruct (t_token (x_tok x) =? tokenTimestamp).
  { apply vpres_bind_any; [apply vpres_on_timestamp|]. intros _. vp. }
  destruct (t_token (x_tok x) =? tokenOpenDoubleBrace).
  { apply vpres_bind_any; [apply vpres_on_lob|]. intros _. vp. }
  destruct (t_token (x_tok x) =? tokenOpenBrace).
  { apply vpres_bind_any; [apply vpres_rmod; intros; apply V_val; [apply V_state; assumption|exact I]|]. intros _.
    eapply vpres_bind; [apply vpres_rget|]. intros x1 Hx1.
    match goal with |- vpres (if ?b then _ else _) _ => destruct b end; [|vp].
    destruct (x_is_null x1).
    - apply vpres_bind_any; [apply vpres_rmod; intros; apply V_lst; [apply V_clear; assumption|exact I]|]. intros _. vp.
    - eapply vpres_bind; [apply vpres_read_lst|]. intros st Hst.
      apply vpres_bind_any; [apply vpres_rmod; intros; apply V_lst; assumption|]. intros _. vp. }
  destruct (t_token (x_tok x) =? tokenOpenBracket).
  { apply vpres_bind_any; [apply vpres_rmod; intros; apply V_val; [apply V_state; assumption|exact I]|]. intros _. vp. }
  destruct (t_token (x_tok x) =? tokenOpenParen).
  { apply vpres_bind_any; [apply vpres_rmod; intros; apply V_val; [apply V_state; assumption|exact I]|]. intros _. vp. }
  vp.
Qed.

Lemma next_loop_V fuel : forall k x, V x -> V (fst (x_next_loop pd pt api_next k fuel x)).
Proof.
  induction k as [|k IH]; intros x H; cbn [x_next_loop]; [exact H|].
  pose proof (lift_V t_next x H) as H1.
  destruct (lift t_next x) as [x1 [u| | |]]; cbn [fst] in *; auto using V_explode.
  match goal with |- context [?step x1] =>
    match type of step with R bool => assert (G : vpres step any) end end.
  { destruct (x_state x1 =? trsAfterValue); [apply vpres_next_after_value|].
    destruct (x_state x1 =? trsBeforeFieldName); [apply vpres_next_before_field_name|].
    destruct (x_state x1 =? trsBeforeTypeAnnotations); [apply vpres_nbta|apply vpres_panic]. }
  specialize (G x1 H1).
  match goal with |- context [?step x1] =>
    match type of step with R bool => destruct (step x1) as [x2 [[|]| | |]] end end; cbn [fst]; auto using V_explode.
  - destruct G; assumption.
  - destruct G; auto.
Qed.
Lemma next_with_V fuel x : V x -> V (fst (x_next_with pd pt api_next fuel x)).
Proof.
  intros H. unfold x_next_with. destruct ((x_state x =? trsDone) || x_eof x); [exact H|].
  pose proof (vpres_finish_value x H) as H1.
  destruct (x_finish_value x) as [x1 [u| | |]]; cbn [fst] in *; auto using V_explode.
  destruct H1 as [H1 _]. apply next_loop_V, V_clear, H1.
Qed.
End Lst.

Lemma next_inner_V x : V x -> V (fst (x_next_inner pd pt x)).
Proof. intros H. unfold x_next_inner. apply next_with_V; [intros x0 H0; exact H0|exact H]. Qed.
Lemma next_V x : V x -> V (fst (x_next pd pt x)).
Proof. intros H. unfold x_next. apply next_with_V; [apply next_inner_V|exact H]. Qed.
Lemma init_V inp ioerr : V (x_init inp ioerr).
Proof. repeat split; cbn; auto. Qed.
Lemma op_V x o : V x -> V (fst (x_op_res pd pt x o)).
Proof.
  intros H. destruct o; cbn [x_op_res].
  1: { pose proof (next_V x H) as H1. destruct (x_next pd pt x) as [x1 [b| | |]]; cbn [fst] in *; auto. }
  1: { pose proof (step_in_V x H) as H1. destruct (x_step_in x) as [x1 [b| | |]]; cbn [fst] in *; auto. }
  1: { pose proof (step_out_V x H) as H1. destruct (x_step_out x) as [x1 [b| | |]]; cbn [fst] in *; auto. }
  all: repeat match goal with
           | |- V (fst (if ?b then _ else _)) => destruct b
           | |- V (fst (match ?v with _ => _ end)) => destruct v
           end; cbn [fst]; auto.
Qed.
Lemma run_V : forall p x acc, V x -> V (fst (x_run pd pt x p acc)).
Proof.
  induction p as [|o p IH]; intros x acc H; cbn [x_run]; [exact H|].
  pose proof (op_V x o H) as H1. destruct (x_op_res pd pt x o) as [x1 [t| | |]]; cbn [fst] in *; auto.
Qed.
End Utf8Reader.
