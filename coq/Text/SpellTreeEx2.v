(* SpellTreeEx2.v — C02: an example for the widened stream theorem of SpellTree2.v: operator symbols that begin with a
   slash, an operator directly followed by a comment, a long string with a continuation segment as a field name, and a
   `//` comment without newline at the very end of the input; cross-checked with the specification decoder. *)
From Coq Require Import String List NArith ZArith Bool Lia ZifyBool ZifyN ZifyNat.
From IonV Require Import Base.Wire Base.Utf8 Data.Ion Bin.Bits Bin.BitStream Bin.BinReader Num.Float Text.Tokenizer Text.Skipper
  Text.TextReader Text.TextNum Text.SpecText Text.SpellBase Text.SpellWs Text.SpellNum Text.SpellTok Text.SpellRead
  Text.SpellEsc Text.SpellStr Text.SpellLong Text.SpellIdent Text.SpellSym Text.SpellTs Text.SpellBlob
  Text.SpellVal Text.SpellSymVal Text.SpellOp Text.SpellStream Text.SpellCont Text.SpellTree Text.SpellTreeEx
  Text.SpellEofc Text.SpellOp2 Text.SpellStream2 Text.SpellIvm Text.SpellTree2.
Import ListNotations.
Open Scope Z_scope.

Definition tree2_example : list N :=
  s " (/ +/**/1 /=) {'''a''' /*c*/ '''b''':2} x $ion_1_0 $4 // the end".
Definition tree2_example_values : list tval :=
  [ TCont [] TSexp [ (None, TScalar [] TSymbol (XSymbol (tk "/" (-1))));
                     (None, TScalar [] TSymbol (XSymbol (tk "+" (-1))));
                     (None, TScalar [] TInt (XInt (I64 1)));
                     (None, TScalar [] TSymbol (XSymbol (tk "/=" (-1)))) ];
    TCont [] TStruct [ (Some (tk "ab" (-1)), TScalar [] TInt (XInt (I64 2))) ];
    TScalar [] TSymbol (XSymbol (tk "x" (-1)));
    TScalar [] TSymbol (XSymbol (tk "name" 4)) ].

Example tree2_example_spells :
  exists w0 text, norm tree2_example = w0 ++ text /\ ws_run w0 /\ tops_spell2 PD PT LSys text tree2_example_values.
Proof.
  exists (s " "),
    (([40]%N ++ [] ++ ([] ++ [] ++ s "/" ++ s " " ++ ([] ++ [] ++ s "+" ++ s "/**/" ++ ([] ++ [] ++ s "1" ++ s " " ++
        ([] ++ [] ++ s "/=" ++ [] ++ [41]%N)))))
     ++ s " " ++
     (([123]%N ++ [] ++ (((39%N :: 39%N :: 39%N :: s "a" ++ q3 ++ s " /*c*/ " ++ q3 ++ (s "b" ++ q3)) ++ [] ++ [58]%N) ++ [] ++
         s "2" ++ [] ++ [125]%N))
      ++ s " " ++
      (s "x" ++ s " " ++ (ivm_text ++ s " " ++ (s "$4" ++ s " " ++ s "// the end"))))).
  split; [reflexivity|]. split; [apply ws_ch; [reflexivity|constructor]|].
  (* the s-expression *)
  eapply (tp2_cons PD PT LSys _ f_any _ (s " ")).
  { apply (t2_cont PD PT LSys [] [40]%N [] tokenOpenParen [] _ _).
    - apply (ao_open LSys [] [] tokenOpenParen). right; now left.
    - constructor.
    - discriminate.
    - eapply (cs2_item PD PT LSys _ _ [] None 0 [] (s "/") (f_op 47 []) _ (s " ")).
      + apply sep2_none.
      + constructor.
      + reflexivity.
      + apply t2_scalar, av2_item. apply (it2_slash PD PT LSys _ _ [] _ eq_refl); [|reflexivity].
        constructor; [unfold op_char; cbn; tauto|constructor].
      + apply ws_ch; [reflexivity|constructor].
      + intros outer. repeat split; discriminate.
      + eapply (cs2_item PD PT LSys _ _ [] None 0 [] (s "+") (f_opc 43 []) _ (s "/**/")).
        * apply sep2_none.
        * constructor.
        * reflexivity.
        * apply t2_scalar, av2_item. apply (it2_opc PD PT LSys _ _ 43%N [] _ eq_refl); [|reflexivity].
          constructor; [unfold op_char; cbn; tauto|constructor].
        * apply (ws_block []); [reflexivity|constructor].
        * intros outer. split; [reflexivity|discriminate].
        * eapply (cs2_item PD PT LSys _ _ [] None 0 [] (s "1") f_term _ (s " ")).
          -- apply sep2_none.
          -- constructor.
          -- reflexivity.
          -- apply t2_scalar, av2_item, it2_old. apply int_item; [reflexivity|discriminate|reflexivity].
          -- apply ws_ch; [reflexivity|constructor].
          -- intros outer. reflexivity.
          -- eapply (cs2_item PD PT LSys _ _ [] None 0 [] (s "/=") (f_op 47 [61]%N) _ []).
             ++ apply sep2_none.
             ++ constructor.
             ++ reflexivity.
             ++ apply t2_scalar, av2_item. apply (it2_slash PD PT LSys _ _ [61]%N _ eq_refl); [|reflexivity].
                constructor; [unfold op_char; cbn; tauto|]. apply Forall_cons; [unfold op_char; cbn; tauto|constructor].
             ++ constructor.
             ++ intros outer. repeat split; discriminate.
             ++ apply (cs2_close PD PT LSys _ _ _ tokenCloseParen 0). apply cl_sexp. }
  { apply ws_ch; [reflexivity|constructor]. }
  { exact I. }
  (* the struct with a long string as field name *)
  eapply (tp2_cons PD PT LSys _ f_any _ (s " ")).
  { apply (t2_cont PD PT LSys [] [123]%N [] tokenOpenBrace [] _ _).
    - apply (ao_open LSys [] [] tokenOpenBrace). right; right. split; reflexivity.
    - constructor.
    - intros _. discriminate.
    - eapply (cs2_item PD PT LSys _ _ ((39%N :: 39%N :: 39%N :: s "a" ++ q3 ++ s " /*c*/ " ++ q3 ++ (s "b" ++ q3)) ++ [] ++ [58]%N)
                (Some (tk "ab" (-1))) 1 [] (s "2") f_term _ []).
      + apply sep2_field; [|constructor].
        apply (fn2_long LSys (s "a" ++ q3 ++ s " /*c*/ " ++ q3 ++ (s "b" ++ q3)) [s "a"; s "b"]).
        * apply ls_more.
          -- vm_compute. apply lb_raw; [unfold lraw_char, str_ws; lia|constructor].
          -- apply ws_ch; [reflexivity|]. apply (ws_block (s "c")); [reflexivity|]. apply ws_ch; [reflexivity|constructor].
          -- apply ls_last. vm_compute. apply lb_raw; [unfold lraw_char, str_ws; lia|constructor].
        * repeat constructor.
      + constructor.
      + discriminate.
      + apply t2_scalar, av2_item, it2_old. apply int_item; [reflexivity|discriminate|reflexivity].
      + constructor.
      + intros outer. reflexivity.
      + apply (cs2_close PD PT LSys _ _ _ tokenCloseBrace 0). apply cl_struct. }
  { apply ws_ch; [reflexivity|constructor]. }
  { exact I. }
  eapply (tp2_cons PD PT LSys (s "x") f_ident _ (s " ") _).
  { apply t2_scalar, av2_item, it2_old. apply it_sym; try reflexivity.
    constructor; [unfold id_start, letter; cbn; lia|constructor]. }
  { apply ws_ch; [reflexivity|constructor]. }
  { reflexivity. }
  (* the version marker between two values *)
  apply (tp2_ivm PD PT LSys (s " ") (s "$4" ++ s " " ++ s "// the end")).
  { apply ws_ch; [reflexivity|constructor]. }
  { reflexivity. }
  { reflexivity. }
  (* the last value, and the comment that ends the input *)
  eapply (tp2_cons PD PT LSys (s "$4") f_ident _ (s " ") (s "// the end")).
  { apply t2_scalar, av2_item, it2_old. apply it_sym; try reflexivity.
    constructor; [unfold id_start; cbn; lia|]. apply Forall_cons; [unfold id_part, digit; cbn; lia|constructor]. }
  { apply ws_ch; [reflexivity|constructor]. }
  { reflexivity. }
  apply (tp2_comment PD PT LSys (s " the end")). repeat constructor; discriminate.
Qed.

Example tree2_example_trace : x_traverse PD PT tree2_example false = ttrace tree2_example_values.
Proof.
  destruct tree2_example_spells as (w0 & text & Hn & Hw & Hv). exact (traverse_stream2_text _ w0 text _ Hn Hw Hv).
Qed.
Example tree2_example_ttrace :
  join_sp (ttrace tree2_example_values) =
  s "T nil a[] y12 n0 ok T nil a[] y7 n0 k2f.-1 T nil a[] y7 n0 k2b.-1 T nil a[] y3 n0 I1 T nil a[] y7 n0 k2f3d.-1 F ok T nil a[] y13 n0 ok T k6162.-1 a[] y3 n0 I2 F ok T nil a[] y7 n0 k78.-1 T nil a[] y7 n0 k6e616d65.4 F e0 F e0 F e0".
Proof. vm_compute. reflexivity. Qed.
(* the model computes that trace on the input (independently of the theorem) *)
Example tree2_example_model :
  join_sp (x_traverse PD PT tree2_example false) = join_sp (ttrace tree2_example_values).
Proof. vm_compute. reflexivity. Qed.
Example tree2_example_spec :
  option_map (fun v => show_str (show_values v)) (SpecText.tdecode tree2_example)
  = Some "( Yt2f Yt2b I1 Yt2f3d ) { ft6162 I2 } Yt78 Yt6e616d65"%string.
Proof. vm_compute. reflexivity. Qed.

(* the final comment directly behind every kind of last value whose reading looks through it *)
Example eof_comment_cases :
  map (fun t => show_str (join_sp (x_traverse PD PT (s t) false)))
      ["1 // c"; "1// c"; "abc // c"; "null// c"; "'q' //c"; "'''a''' // c"; "[1] //"; "// only"]%string =
  ["T nil a[] y3 n0 I1 F e0 F e0 F e0"; "T nil a[] y3 n0 I1 F e0 F e0 F e0";
   "T nil a[] y7 n0 k616263.-1 F e0 F e0 F e0"; "T nil a[] y1 n1 F e0 F e0 F e0";
   "T nil a[] y7 n0 k71.-1 F e0 F e0 F e0"; "T nil a[] y8 n0 Sx61 F e0 F e0 F e0";
   "T nil a[] y11 n0 ok T nil a[] y3 n0 I1 F ok F e0 F e0 F e0"; "F e0 F e0 F e0"]%string.
Proof. vm_compute. reflexivity. Qed.
