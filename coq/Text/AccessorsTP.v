(* AccessorsTP.v — the accessor clauses of C13 over the text reader model.
   Part 1: every reachable state stores an int64 exactly when the number fits an int64
   (parseInt: strconv.ParseInt first, big.Int only on a range error) — invariant [W].
   Part 2: IntSize / IntValue / Int64Value / BigIntValue, typed nulls, wrong types. *)
From Coq Require Import String List NArith ZArith Bool Lia ZifyBool ZifyN ZifyNat.
From IonV Require Import Base.Wire Base.Utf8 Bin.Bits Data.Ion Num.Float Bin.BitStream Bin.BinReader
  Text.Tokenizer Text.Skipper Text.TextReader.
Import ListNotations.
Open Scope N_scope.

Definition iv_exact (i : intval) : Prop :=
  match i with I64 z => in_int64 z = true | IBig z => in_int64 z = false end.
Definition wval (v : xvalue) : Prop := match v with XInt i => iv_exact i | _ => True end.
Definition W (x : xstate) : Prop := wval (x_value x).

Lemma parse_int_exact v radix i : parse_int v radix = Ok i -> iv_exact i.
Proof.
  unfold parse_int.
  match goal with |- (do digits <- ?d; _) = _ -> _ => destruct d as [digits| | |] end; cbn [bind]; try discriminate.
  destruct (go_signed_val radix digits) as [z|]; [|discriminate].
  destruct (in_int64 z) eqn:E; intros H; injection H as <-; exact E.
Qed.

Ltac wsimp := unfold W in *;
  cbn [x_value xs_val xs_state xs_eof xs_lst xs_field xs_annots xs_ctx xs_tok x_clear x_explode fst snd] in *.
Ltac wleaf := wsimp; first [assumption | exact I].

Definition wpres {A} (m : R A) : Prop := forall x, W x -> W (fst (m x)).
Lemma wpres_ret {A} (a : A) : wpres (rret a). Proof. intros x H; exact H. Qed.
Lemma wpres_fail {A} : wpres (@rfail A). Proof. intros x H; exact H. Qed.
Lemma wpres_panic {A} : wpres (@rpanic A). Proof. intros x H; exact H. Qed.
Lemma wpres_rget : wpres rget. Proof. intros x H; exact H. Qed.
Lemma wpres_of_res {A} (r : res A) : wpres (of_res r). Proof. intros x H; exact H. Qed.
Lemma wpres_lift {A} (m : M A) : wpres (lift m).
Proof. intros x H. unfold lift. destruct (m (x_tok x)) as [[a t]| | |]; exact H. Qed.
Lemma wpres_rmod (f : xstate -> xstate) : (forall x, W x -> W (f x)) -> wpres (rmod f).
Proof. intros Hf x H. apply Hf, H. Qed.
Lemma wpres_bind {A B} (m : R A) (f : A -> R B) : wpres m -> (forall a, wpres (f a)) -> wpres (rbind m f).
Proof. intros Hm Hf x H. unfold rbind. specialize (Hm x H). destruct (m x) as [x1 [a| | |]]; cbn [fst] in *; auto. apply Hf, Hm. Qed.
Lemma wpres_bind_res {A B} (r : res A) (f : A -> R B) : (forall a, r = Ok a -> wpres (f a)) -> wpres (rbind (of_res r) f).
Proof. intros Hf x H. unfold rbind, of_res. destruct r; cbn [fst]; auto. apply Hf; [reflexivity|exact H]. Qed.
Lemma wpres_set_value t v : wval v -> wpres (set_value t v).
Proof. intros Hv. unfold set_value. apply wpres_rmod. intros x _. wsimp. exact Hv. Qed.

Create HintDb wdb.
Ltac wp :=
  repeat first
    [ assumption
    | apply wpres_ret | apply wpres_fail | apply wpres_panic | apply wpres_rget | apply wpres_of_res | apply wpres_lift
    | apply wpres_set_value; exact I
    | apply wpres_rmod; intros ? ?; wleaf
    | solve [auto with wdb]
    | apply wpres_bind; [|intros]
    | match goal with
      | |- wpres (if ?b then _ else _) => destruct b
      | |- wpres (match ?v with _ => _ end) => destruct v
      end ].

Lemma wpres_read_null_type : wpres read_null_type. Proof. unfold read_null_type. wp. Qed.
#[export] Hint Resolve wpres_read_null_type : wdb.
Lemma wpres_on_null ws : wpres (on_null ws). Proof. unfold on_null. wp. Qed.
#[export] Hint Resolve wpres_on_null : wdb.
Lemma wpres_on_symbol v ws : wpres (on_symbol v ws). Proof. unfold on_symbol. wp. Qed.
#[export] Hint Resolve wpres_on_symbol : wdb.

Section IntReader.
Variable pd : list N -> res dec.
Variable pt : list N -> res (list N).

Lemma wpres_int v radix : wpres (rbind (of_res (parse_int v radix)) (fun i => set_value TInt (XInt i))).
Proof. apply wpres_bind_res. intros i E. apply wpres_set_value. exact (parse_int_exact _ _ _ E). Qed.
Hint Resolve wpres_int : wdb.
Lemma wpres_on_number tok : wpres (on_number pd tok).
Proof. unfold on_number. wp. Qed.
Lemma wpres_on_timestamp : wpres (on_timestamp pt). Proof. unfold on_timestamp. wp. Qed.
Lemma wpres_on_lob : wpres on_lob. Proof. unfold on_lob. wp. Qed.
Lemma wpres_next_after_value : wpres next_after_value. Proof. unfold next_after_value. wp. Qed.
Lemma wpres_finish_value : wpres x_finish_value. Proof. unfold x_finish_value. wp. Qed.
Lemma wpres_next_before_field_name : wpres next_before_field_name.
Proof. unfold next_before_field_name. wp. Qed.
Hint Resolve wpres_on_number wpres_on_timestamp wpres_on_lob wpres_next_after_value wpres_finish_value
  wpres_next_before_field_name : wdb.

Section Lst.
Variable api_next : xstate -> xstate * res bool.
Hypothesis Hnext : forall x, W x -> W (fst (api_next x)).

Ltac nxw x1 r :=
  match goal with
  | |- context [api_next ?x] =>
    let H := fresh "Hn" in
    pose proof (Hnext x) as H; destruct (api_next x) as [x1 r]; cbn [fst] in H
  end.

Lemma step_in_W x : W x -> W (fst (x_step_in x)).
Proof.
  intros H. unfold x_step_in. destruct (x_err x); [exact H|].
  destruct (negb (x_state x =? trsBeforeContainer)); [exact H|].
  destruct (x_type x =? TList); [exact I|]. destruct (x_type x =? TSexp); [exact I|].
  destruct (x_type x =? TStruct); [exact I|exact H].
Qed.
Lemma lift_W {A} (m : M A) x : W x -> W (fst (lift m x)).
Proof. apply wpres_lift. Qed.
Lemma step_out_W x : W x -> W (fst (x_step_out x)).
Proof.
  intros H. unfold x_step_out. destruct (x_err x); [exact H|]. destruct (x_ctx x) as [|c rest]; [exact H|].
  pose proof (lift_W t_finish_value x H) as H1.
  destruct (lift t_finish_value x) as [x1 [b| | |]]; cbn [fst] in *; auto.
  assert (H2 : W (fst (if x_eof x1 then (x1, Ok tt) else lift (t_skip_container_contents c) x1)))
    by (destruct (x_eof x1); [exact H1|apply lift_W, H1]).
  destruct (if x_eof x1 then (x1, Ok tt) else lift (t_skip_container_contents c) x1) as [x2 [u| | |]];
    cbn [fst] in *; auto.
  exact I.
Qed.

Lemma read_symbols_loop_W fuel : forall x acc, W x -> W (fst (read_symbols_loop api_next fuel x acc)).
Proof.
  induction fuel as [|f IH]; intros x acc H; cbn [read_symbols_loop]; [exact H|].
  nxw x1 r. specialize (Hn H). destruct r as [[|]| | |]; cbn [fst]; auto.
Qed.
Lemma read_symbols_W fuel x : W x -> W (fst (read_symbols api_next fuel x)).
Proof.
  intros H. unfold read_symbols. destruct (negb (x_type x =? TList) || x_is_null x); [exact H|].
  pose proof (step_in_W x H) as H1. destruct (x_step_in x) as [x1 [[|]| | |]]; cbn [fst] in *; auto.
  pose proof (read_symbols_loop_W fuel x1 [] H1) as H2.
  destruct (read_symbols_loop api_next fuel x1 []) as [x2 [sy| | |]]; cbn [fst snd] in *; auto.
  pose proof (step_out_W x2 H2) as H3. destruct (x_step_out x2) as [x3 [[|]| | |]]; cbn [fst] in *; auto.
Qed.
Lemma read_import_loop_W fuel : forall x d, W x -> W (fst (read_import_loop api_next fuel x d)).
Proof.
  induction fuel as [|f IH]; intros x d H; cbn [read_import_loop]; [exact H|].
  nxw x1 r. specialize (Hn H). destruct r as [[|]| | |]; cbn [fst]; auto.
  destruct (x_err x1); cbn [fst]; auto. destruct (field_text x1); cbn [fst]; auto.
  repeat match goal with
         | |- W (fst (if ?b then _ else _)) => destruct b
         | |- W (fst (match ?v with _ => _ end)) => destruct v
         end; cbn [fst]; auto.
Qed.
Lemma read_import_W fuel x : W x -> W (fst (read_import api_next fuel x)).
Proof.
  intros H. unfold read_import. destruct (negb (x_type x =? TStruct) || x_is_null x); [exact H|].
  pose proof (step_in_W x H) as H1. destruct (x_step_in x) as [x1 [[|]| | |]]; cbn [fst] in *; auto.
  match goal with |- context [read_import_loop api_next fuel x1 ?d] =>
    pose proof (read_import_loop_W fuel x1 d H1) as H2;
    destruct (read_import_loop api_next fuel x1 d) as [x2 [dd| | |]] end; cbn [fst] in *; auto.
  pose proof (step_out_W x2 H2) as H3. destruct (x_step_out x2) as [x3 [[|]| | |]]; cbn [fst] in *; auto.
  repeat match goal with |- W (fst (if ?b then _ else _)) => destruct b end; cbn [fst]; auto.
Qed.
Lemma read_imports_loop_W fuel : forall x acc, W x -> W (fst (read_imports_loop api_next fuel x acc)).
Proof.
  induction fuel as [|f IH]; intros x acc H; cbn [read_imports_loop]; [exact H|].
  nxw x1 r. specialize (Hn H). destruct r as [[|]| | |]; cbn [fst]; auto.
  pose proof (read_import_W (S f) x1 Hn) as H2.
  destruct (read_import api_next (S f) x1) as [x2 [[i|]| | |]]; cbn [fst snd] in *; auto.
Qed.
Lemma read_imports_W fuel x : W x -> W (fst (read_imports api_next fuel x)).
Proof.
  intros H. unfold read_imports. cbv zeta.
  match goal with |- W (fst (match ?c with _ => _ end)) => assert (Hc : forall r, c = Some r -> W (fst r)) end.
  { intros r. destruct (x_type x =? TSymbol); [|discriminate].
    destruct (x_err x); [intros E; injection E as <-; exact H|].
    destruct (x_value x) as [| | | | | | |tk| | |]; try discriminate.
    destruct (is_append_marker tk); [|discriminate].
    destruct (x_lst x) as [|t0] eqn:El; intros E; injection E as <-; cbn [fst]; wsimp; rewrite ?El; auto. }
  match goal with |- W (fst (match ?c with _ => _ end)) => destruct c as [r|] end; [apply Hc; reflexivity|].
  destruct (negb (x_type x =? TList) || x_is_null x); [exact H|].
  pose proof (step_in_W x H) as H1. destruct (x_step_in x) as [x1 [[|]| | |]]; cbn [fst] in *; auto.
  pose proof (read_imports_loop_W fuel x1 [] H1) as H2.
  destruct (read_imports_loop api_next fuel x1 []) as [x2 [im| | |]]; cbn [fst snd] in *; auto.
  pose proof (step_out_W x2 H2) as H3. destruct (x_step_out x2) as [x3 [[|]| | |]]; cbn [fst] in *; auto.
Qed.
Lemma read_lst_loop_W fuel : forall x imps syms fi fs, W x -> W (fst (read_lst_loop api_next fuel x imps syms fi fs)).
Proof.
  induction fuel as [|f IH]; intros x imps syms fi fs H; cbn [read_lst_loop]; [exact H|].
  nxw x1 r. specialize (Hn H). destruct r as [[|]| | |]; cbn [fst]; auto.
  destruct (x_err x1); cbn [fst]; auto. destruct (field_text x1) as [fnm|]; cbn [fst]; auto.
  destruct (list_eqb fnm (s "symbols")).
  - destruct fs; cbn [fst]; auto.
    pose proof (read_symbols_W (S f) x1 Hn) as H2.
    destruct (read_symbols api_next (S f) x1) as [x2 [sy| | |]]; cbn [fst snd] in *; auto.
  - destruct (list_eqb fnm (s "imports")); [|apply IH; assumption].
    destruct fi; cbn [fst]; auto.
    pose proof (read_imports_W (S f) x1 Hn) as H2.
    destruct (read_imports api_next (S f) x1) as [x2 [im| | |]]; cbn [fst snd] in *; auto.
Qed.
Lemma read_lst_W fuel x : W x -> W (fst (read_local_symbol_table api_next fuel x)).
Proof.
  intros H. unfold read_local_symbol_table.
  pose proof (step_in_W x H) as H1. destruct (x_step_in x) as [x1 [[|]| | |]]; cbn [fst] in *; auto.
  pose proof (read_lst_loop_W fuel x1 [] [] false false H1) as H2.
  destruct (read_lst_loop api_next fuel x1 [] [] false false) as [x2 [[im sy]| | |]]; cbn [fst snd] in *; auto.
  pose proof (step_out_W x2 H2) as H3. destruct (x_step_out x2) as [x3 [[|]| | |]]; cbn [fst] in *; auto.
Qed.
Lemma wpres_read_lst fuel : wpres (read_local_symbol_table api_next fuel).
Proof. intros x Hx. apply read_lst_W, Hx. Qed.
Hint Resolve wpres_read_lst : wdb.

Lemma wpres_nbta fuel : wpres (next_before_type_annotations pd pt api_next fuel).
Proof. unfold next_before_type_annotations. wp. Qed.

Lemma next_loop_W fuel : forall k x, W x -> W (fst (x_next_loop pd pt api_next k fuel x)).
Proof.
  induction k as [|k IH]; intros x H; cbn [x_next_loop]; [exact H|].
  pose proof (lift_W t_next x H) as H1.
  destruct (lift t_next x) as [x1 [u| | |]]; cbn [fst] in *; auto.
  match goal with |- context [?step x1] =>
    match type of step with R bool => assert (G : wpres step) end end.
  { destruct (x_state x1 =? trsAfterValue); [apply wpres_next_after_value|].
    destruct (x_state x1 =? trsBeforeFieldName); [apply wpres_next_before_field_name|].
    destruct (x_state x1 =? trsBeforeTypeAnnotations); [apply wpres_nbta|apply wpres_panic]. }
  specialize (G x1 H1).
  match goal with |- context [?step x1] =>
    match type of step with R bool => destruct (step x1) as [x2 [[|]| | |]] end end; cbn [fst] in *; auto.
Qed.
Lemma next_with_W fuel x : W x -> W (fst (x_next_with pd pt api_next fuel x)).
Proof.
  intros H. unfold x_next_with. destruct ((x_state x =? trsDone) || x_eof x); [exact H|].
  pose proof (wpres_finish_value x H) as H1.
  destruct (x_finish_value x) as [x1 [u| | |]]; cbn [fst] in *; auto.
  apply next_loop_W. exact I.
Qed.
End Lst.

Lemma next_inner_W x : W x -> W (fst (x_next_inner pd pt x)).
Proof. intros H. unfold x_next_inner. apply next_with_W; [intros x0 H0; exact H0|exact H]. Qed.
Lemma next_W x : W x -> W (fst (x_next pd pt x)).
Proof. intros H. unfold x_next. apply next_with_W; [apply next_inner_W|exact H]. Qed.
Lemma init_W inp ioerr : W (x_init inp ioerr).
Proof. exact I. Qed.
Lemma op_W x o : W x -> W (fst (x_op_res pd pt x o)).
Proof.
  intros H. destruct o; cbn [x_op_res].
  1: { pose proof (next_W x H) as H1. destruct (x_next pd pt x) as [x1 [b| | |]]; cbn [fst] in *; auto. }
  1: { pose proof (step_in_W x H) as H1. destruct (x_step_in x) as [x1 [b| | |]]; cbn [fst] in *; auto. }
  1: { pose proof (step_out_W x H) as H1. destruct (x_step_out x) as [x1 [b| | |]]; cbn [fst] in *; auto. }
  all: repeat match goal with
           | |- W (fst (if ?b then _ else _)) => destruct b
           | |- W (fst (match ?v with _ => _ end)) => destruct v
           end; cbn [fst]; auto.
Qed.
Lemma run_W : forall p x acc, W x -> W (fst (x_run pd pt x p acc)).
Proof.
  induction p as [|o p IH]; intros x acc H; cbn [x_run]; [exact H|].
  pose proof (op_W x o H) as H1. destruct (x_op_res pd pt x o) as [x1 [t| | |]]; cbn [fst] in *; auto.
Qed.
(* every state a navigation program reaches, on any input *)
Theorem reachable_int_exact inp ioerr p : W (fst (x_run pd pt (x_init inp ioerr) p [])).
Proof. apply run_W, init_W. Qed.
End IntReader.

(* ---- part 2: the accessors ------------------------------------------------------------------------------- *)
Section Acc.
Variable pd : list N -> res dec.
Variable pt : list N -> res (list N).

Definition size_code (i : intval) : N :=
  match i with I64 z => if in_int32 z then 1 else 2 | IBig _ => 3 end.
Definition min_size (z : Z) : N := if in_int32 z then 1 else if in_int64 z then 2 else 3.

Lemma in32_64 z : in_int32 z = true -> in_int64 z = true.
Proof. unfold in_int32, in_int64. lia. Qed.

(* the text reader names exactly the smallest width *)
Lemma size_code_exact i : iv_exact i -> size_code i = min_size (show_int i).
Proof.
  destruct i as [z|z]; cbn [iv_exact size_code show_int]; unfold min_size; intros H; rewrite H.
  - reflexivity.
  - destruct (in_int32 z) eqn:E; [rewrite (in32_64 _ E) in H; discriminate|reflexivity].
Qed.
Lemma int_size_answer x i : x_type x = TInt -> x_value x = XInt i ->
  x_op_res pd pt x OIntSize = (x, Ok (122 :: dec_of_N (size_code i))).
Proof. intros Ht Hv. cbn [x_op_res]. rewrite Ht, Hv. cbn [N.eqb Pos.eqb negb]. destruct i; reflexivity. Qed.
Lemma int_size_exact x i : x_type x = TInt -> x_value x = XInt i -> iv_exact i ->
  x_op_res pd pt x OIntSize = (x, Ok (122 :: dec_of_N (min_size (show_int i)))).
Proof. intros Ht Hv Hi. rewrite <- size_code_exact by exact Hi. apply int_size_answer; assumption. Qed.
Lemma int_value_answer x i : x_type x = TInt -> x_value x = XInt i ->
  x_op_res pd pt x OInt = (x, Ok (if in_int32 (show_int i) then 73 :: dec_of_Z (show_int i) else t_err)).
Proof.
  intros Ht Hv. cbn [x_op_res]. rewrite Ht, Hv. cbn [N.eqb Pos.eqb negb].
  destruct (in_int32 (show_int i)) eqn:E; [rewrite (in32_64 _ E); reflexivity|]. destruct (in_int64 (show_int i)); reflexivity.
Qed.
Lemma int64_value_answer x i : x_type x = TInt -> x_value x = XInt i ->
  x_op_res pd pt x OInt64 = (x, Ok (if in_int64 (show_int i) then 73 :: dec_of_Z (show_int i) else t_err)).
Proof. intros Ht Hv. cbn [x_op_res]. rewrite Ht, Hv. cbn [N.eqb Pos.eqb negb]. destruct (in_int64 (show_int i)); reflexivity. Qed.
Lemma bigint_value_answer x i : x_type x = TInt -> x_value x = XInt i ->
  x_op_res pd pt x OBigInt = (x, Ok (73 :: dec_of_Z (show_int i))).
Proof. intros Ht Hv. cbn [x_op_res]. rewrite Ht, Hv. reflexivity. Qed.

Definition acc_types (o : rop) : option (list N) :=
  match o with
  | OBool => Some [TBool] | OIntSize | OInt | OInt64 | OBigInt => Some [TInt] | OFloat => Some [TFloat]
  | ODecimal => Some [TDecimal] | OTimestamp => Some [TTimestamp] | OString => Some [TString]
  | OSymbol => Some [TSymbol] | OBytes => Some [TBlob; TClob]
  | _ => None
  end.
Definition nil_tok (o : rop) : list N := match o with OIntSize => 122 :: dec_of_N 0 | _ => t_nil end.

Lemma typed_null_answer x o tys : acc_types o = Some tys -> In (x_type x) tys -> x_value x = XNil -> x_err x = false ->
  x_op_res pd pt x o = (x, Ok (nil_tok o)).
Proof.
  intros Ho Hin Hv He.
  destruct o; cbn [acc_types] in Ho; try discriminate; injection Ho as <-; cbn [In] in Hin;
    repeat (destruct Hin as [Hin|Hin]); try contradiction; cbn [x_op_res nil_tok]; rewrite <- Hin, Hv, ?He; reflexivity.
Qed.
Lemma typed_null_is_null x : x_type x <> 0 -> x_value x = XNil -> x_op_res pd pt x OIsNull = (x, Ok [110; 49]).
Proof. intros Ht Hv. cbn [x_op_res]. unfold x_is_null. rewrite Hv. replace (x_type x =? 0) with false by lia. reflexivity. Qed.
Lemma wrong_type_answer x o tys : acc_types o = Some tys -> ~ In (x_type x) tys ->
  x_op_res pd pt x o = (x, Ok t_err).
Proof.
  intros Ho Hin.
  destruct o; cbn [acc_types] in Ho; try discriminate; injection Ho as <-; cbn [In] in Hin; cbn [x_op_res].
  all: try (replace (x_type x =? _) with false by lia; cbn [negb]; try destruct (x_err x); reflexivity).
  replace (x_type x =? TBlob) with false by lia. replace (x_type x =? TClob) with false by lia. reflexivity.
Qed.
Lemma accessor_state x o : o <> ONext -> o <> OStepIn -> o <> OStepOut -> fst (x_op_res pd pt x o) = x.
Proof.
  intros N1 N2 N3. destruct o; try congruence; cbn [x_op_res];
  repeat match goal with
         | |- fst (if ?b then _ else _) = _ => destruct b
         | |- fst (match ?v with _ => _ end) = _ => destruct v
         end; reflexivity.
Qed.
End Acc.

(* the integer clause for every state a program reaches, on any input *)
Theorem reachable_int_accessors pd pt inp ioerr p x i : x = fst (x_run pd pt (x_init inp ioerr) p []) ->
  x_type x = TInt -> x_value x = XInt i ->
  x_op_res pd pt x OIntSize = (x, Ok (122 :: dec_of_N (min_size (show_int i)))) /\
  x_op_res pd pt x OInt = (x, Ok (if in_int32 (show_int i) then 73 :: dec_of_Z (show_int i) else t_err)) /\
  x_op_res pd pt x OInt64 = (x, Ok (if in_int64 (show_int i) then 73 :: dec_of_Z (show_int i) else t_err)) /\
  x_op_res pd pt x OBigInt = (x, Ok (73 :: dec_of_Z (show_int i))).
Proof.
  intros -> Ht Hv. pose proof (reachable_int_exact pd pt inp ioerr p) as Hok. unfold W in Hok. rewrite Hv in Hok. cbn [wval] in Hok.
  split; [|split; [|split]].
  - apply int_size_exact; assumption.
  - apply int_value_answer; assumption.
  - apply int64_value_answer; assumption.
  - apply bigint_value_answer; assumption.
Qed.

(* the value parseInt returns for EVERY spelling of the Ion integer z (Props/C02: c02_parse_int_dec / _hex / _bin
   give [parse_int spelling = Ok (mk_int z)]) and what the four accessors answer on it *)
Definition mk_int (z : Z) : intval := if in_int64 z then I64 z else IBig z.
Lemma mk_int_show z : show_int (mk_int z) = z.
Proof. unfold mk_int. destruct (in_int64 z); reflexivity. Qed.
Lemma mk_int_exact z : iv_exact (mk_int z).
Proof. unfold mk_int. destruct (in_int64 z) eqn:E; exact E. Qed.
Theorem spelled_int_accessors pd pt x z : x_type x = TInt -> x_value x = XInt (mk_int z) ->
  x_op_res pd pt x OIntSize = (x, Ok (122 :: dec_of_N (min_size z))) /\
  x_op_res pd pt x OInt = (x, Ok (if in_int32 z then 73 :: dec_of_Z z else t_err)) /\
  x_op_res pd pt x OInt64 = (x, Ok (if in_int64 z then 73 :: dec_of_Z z else t_err)) /\
  x_op_res pd pt x OBigInt = (x, Ok (73 :: dec_of_Z z)).
Proof.
  intros Ht Hv.
  pose proof (int_size_exact pd pt x _ Ht Hv (mk_int_exact z)) as H1.
  pose proof (int_value_answer pd pt x _ Ht Hv) as H2.
  pose proof (int64_value_answer pd pt x _ Ht Hv) as H3.
  pose proof (bigint_value_answer pd pt x _ Ht Hv) as H4.
  rewrite mk_int_show in H1, H2, H3, H4. auto.
Qed.
