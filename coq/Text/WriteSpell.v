(* WriteSpell.v — C01, text half: the vocabulary of "what the text Writer model emits is a SPELLING of the
   forest" (the relations of Text/Spell*.v).  Definitions only; the lemmas are in WriteSpellOut.v (the Writer
   model emits [wt]), WriteSpellScalar.v (each scalar's text is a spelling), WriteSpellTree.v (containers,
   separators, annotations, field names) and WriteSpellStream.v (top level, composition with the reader).

   [wt pa v]     the bytes the Writer model emits, in compact mode, for the calls of [v] with the annotations
                 [pa] pending — from the first annotation to the end of the value (the separator and the field
                 name in front are the container's business: [items], [fitems], [wt_stream]).
   [tv pa v]     the same value as the text READER presents it ([tval] of SpellTree.v): annotations and field
                 names as the tokens the reader builds under the system symbol table ([rd_sym]), integers as
                 int64 / big, NaN canonical, finite floats as the literal handed to strconv.ParseFloat,
                 timestamps as the fields the model's parser returns on the written literal.
   [wf_value]    the forests covered; every exclusion is explained at its clause. *)
From Coq Require Import String List NArith ZArith Bool.
From IonV Require Import Base.Wire Base.Utf8 Data.Ion Num.Float Bin.BinWriter Bin.BitStream Bin.BinReader
  Text.TextOut Text.TextWriter Text.TextRoundtrip Text.Tokenizer Text.TextReader Text.TextNum
  Text.SpellNum Text.SpellTs Text.SpellTree.
Import ListNotations.
Open Scope N_scope.

Notation PD := parse_decimal_text.
Notation PT := parse_ts_text.

(* ---- symbols ----------------------------------------------------------------------------------------- *)
(* the bytes writeSymbol emits for a token *)
Definition sym_bytes (t : tok) : list N :=
  match write_symbol t with Some cs => concat cs | None => [] end.
Definition wsym (y : symv) : list N := sym_bytes (tok_of_sym y).

(* the token the reader builds, under the system symbol table, for the spelling the Writer chose:
   a quoted symbol is its text (no ID is looked up: newSymbolTokenFromString... the model's [tok_text]);
   a bare identifier is looked up by name (system symbols get their ID); a bare $n is looked up by ID *)
Definition rd_sym (y : symv) : tok :=
  match y with
  | SymText t =>
    match BinWriter.symbol_identifier t with
    | Some _ => tok_text t
    | None => if symbol_needs_quoting t then tok_text t else name_symbol_token LSys t
    end
  | SymSid n => match tok_by_sid LSys n with Some k => k | None => tok_sid (Z.of_N n) end
  end.

Definition ann_bytes (pa : list symv) : list N := flat_map (fun y => wsym y ++ [58; 58]) pa.

(* ---- scalars ----------------------------------------------------------------------------------------- *)
Section Defs.
Variable F : formats.

Definition ts_lit (body : list N) : list N := fmt_ts F (N.of_nat (length body)) body.

Definition scalar_bytes (v : value) : list N :=
  match v with
  | VNull t => nth (N.to_nat t) text_nulls []
  | VBool b => if b then s "true" else s "false"
  | VInt z => dec_of_Z z
  | VFloat b => format_float (fmt_float F) b
  | VDecimal d => fmt_dec F d
  | VTimestamp body => ts_lit body
  | VSymbol y => wsym y
  | VString t => 34 :: concat (escaped_string t) ++ [34]
  | VClob b => [123; 123; 34] ++ concat (escaped_clob b) ++ [34; 125; 125]
  | VBlob b => [123; 123] ++ concat (blob_body b) ++ [125; 125]
  | _ => []
  end.

(* type and value as the reader presents them *)
Definition scalar_ty (v : value) : N :=
  match v with
  | VNull t => t | VBool _ => TBool | VInt _ => TInt | VFloat _ => TFloat | VDecimal _ => TDecimal
  | VTimestamp _ => TTimestamp | VSymbol _ => TSymbol | VString _ => TString | VClob _ => TClob
  | VBlob _ => TBlob | _ => 0
  end.
Definition scalar_xv (v : value) : xvalue :=
  match v with
  | VNull _ => XNil
  | VBool b => XBool b
  | VInt z => XInt (mk_int z)
  | VFloat b =>
    if f64_is_nan b then XFloatBits canonical_nan64
    else if f64_is_inf b then XFloatBits (if f64_sign b =? 0 then inf_bits else neg_inf_bits)
    else XFloatText (format_float (fmt_float F) b)       (* strconv.ParseFloat is not modelled (C02) *)
  | VDecimal d => XDecimal d
  | VTimestamp body => XTimestamp (match PT (ts_lit body) with Ok f => f | _ => [] end)
  | VSymbol y => XSymbol (rd_sym y)
  | VString t => XString t
  | VClob b => XBytes b
  | VBlob b => XBytes b
  | _ => XNil
  end.

(* ---- the Writer's text, compact mode ------------------------------------------------------------------- *)
(* members of a list (sep = ",") or s-expression (sep = " "): the separator in front of every member but
   the first *)
Fixpoint items (sep : list N) (ns : bool) (l : list (list N)) : list N :=
  match l with
  | [] => []
  | x :: r => (if ns then sep else []) ++ x ++ items sep true r
  end.

Fixpoint wt (pa : list symv) (v : value) : list N :=
  match v with
  | VAnn a x => wt (pa ++ a) x
  | VList l => ann_bytes pa ++ [91] ++ items [44] false (map (wt []) l) ++ [93]
  | VSexp l => ann_bytes pa ++ [40] ++ items [32] false (map (wt []) l) ++ [41]
  | VStruct fs => ann_bytes pa ++ [123] ++ items [44] false (map (fun '(n, x) => wsym n ++ [58] ++ wt [] x) fs) ++ [125]
  | _ => ann_bytes pa ++ scalar_bytes v
  end.

(* top level: a newline between values, and one after the last unless TextWriterQuietFinish *)
Definition wt_stream (quiet : bool) (vs : list value) : list N :=
  items [10] false (map (wt []) vs) ++ (match vs with [] => [] | _ => if quiet then [] else [10] end).

(* ---- the forest as the text reader presents it ---------------------------------------------------------- *)
Fixpoint tv (pa : list symv) (v : value) : tval :=
  match v with
  | VAnn a x => tv (pa ++ a) x
  | VList l => TCont (map rd_sym pa) TList (map (fun x => (None, tv [] x)) l)
  | VSexp l => TCont (map rd_sym pa) TSexp (map (fun x => (None, tv [] x)) l)
  | VStruct fs => TCont (map rd_sym pa) TStruct (map (fun '(n, x) => (Some (rd_sym n), tv [] x)) fs)
  | _ => TScalar (map rd_sym pa) (scalar_ty v) (scalar_xv v)
  end.
Definition tvs (vs : list value) : list tval := map (tv []) vs.

(* ---- well-formedness -------------------------------------------------------------------------------------- *)
Definition bytes_ok (l : list N) : Prop := Forall (fun c => c < 256) l.

(* A symbol with text: the text is a Go string holding valid UTF-8.  The Writer copies bytes from 128 on
   unchanged (only clobs escape them), so a symbol or string that is not valid UTF-8 is written as invalid
   UTF-8 and the reader rejects it (tr_utf8, C07) — there is no spelling of such a text.
   A symbol without text: only the IDs the system symbol table defines ($0 .. $9); the Writer emits $n and
   under LSys the reader refuses every other n (new_symbol_token = Err). *)
Definition wf_sym (y : symv) : Prop :=
  match y with
  | SymText t => bytes_ok t /\ utf8_valid t = true
  | SymSid n => n <= 9
  end.

(* The text of a float / decimal / timestamp is an INPUT of the Writer model ([formats]); what is required
   of it for the values present in the forest:
   float (finite, non-zero or zero): the text after formatFloat's exponent repair is a decimal-radix literal
     of the Ion grammar with an e/E exponent, spelled without underscores;
   decimal: fmt_dec d is a decimal-radix literal of kind decimal (a `.` or a d/D exponent), without
     underscores, that the reader's ParseDecimal maps back to d;
   timestamp: fmt_ts is a timestamp literal of the grammar ([ts_ok], [ts_text] of SpellTs.v) that the
     specification decoder reads as the timestamp with the binary body of the forest. *)
Definition plain_num (n : numsp) : Prop := num_wf n /\ n_iw n = n_ip n /\ n_fw n = n_fp n.
Definition float_fmt_ok (bits : N) : Prop :=
  exists n, plain_num n /\ num_kind n = NKFloat /\ format_float (fmt_float F) bits = num_text n.
Definition dec_fmt_ok (d : dec) : Prop :=
  (exists n, plain_num n /\ num_kind n = NKDecimal /\ fmt_dec F d = num_text n) /\ PD (fmt_dec F d) = Ok d.
Definition ts_fmt_ok (body : list N) : Prop :=
  exists sh, ts_ok sh = true /\ ts_lit body = ts_text sh /\ spec_value sh = VTimestamp body.

Definition wf_scalar (v : value) : Prop :=
  match v with
  | VNull t => 1 <= t <= 13                    (* ion.Type codes; 0 is NoType, 14.. make the Writer fail *)
  | VFloat b => f64_is_nan b = true \/ f64_is_inf b = true \/ float_fmt_ok b
  | VDecimal d => dec_fmt_ok d
  | VTimestamp body => ts_fmt_ok body
  | VSymbol y => wf_sym y
  | VString t => bytes_ok t /\ utf8_valid t = true
  | VClob b => bytes_ok b                       (* a byte is below 256 *)
  | VBlob b => bytes_ok b
  | _ => True
  end.

Fixpoint wf_value (v : value) : Prop :=
  match v with
  | VAnn a x => Forall wf_sym a /\ wf_value x
  | VList l => (fix go (l : list value) : Prop := match l with [] => True | x :: r => wf_value x /\ go r end) l
  | VSexp l => (fix go (l : list value) : Prop := match l with [] => True | x :: r => wf_value x /\ go r end) l
  | VStruct fs => (fix go (l : list (symv * value)) : Prop :=
                     match l with [] => True | (n, x) :: r => wf_sym n /\ wf_value x /\ go r end) fs
  | _ => wf_scalar v
  end.

(* At top level only: a struct or null.struct whose FIRST annotation reads as $ion_symbol_table is not a
   value but a local symbol table (the Writer model would have to be given the table, and the reader does
   not surface it); it is also what [c02_traverse_stream_partial] omits (DESIGN.md §9). *)
Fixpoint top_ok_ann (pa : list symv) (v : value) : Prop :=
  match v with
  | VAnn a x => top_ok_ann (pa ++ a) x
  | VStruct _ | VNull 13 => is_ion_symbol_table (map rd_sym pa) = false
  | _ => True
  end.
Definition wf_top (v : value) : Prop := wf_value v /\ top_ok_ann [] v.
End Defs.
