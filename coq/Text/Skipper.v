(* Skipper.v — executable model of ion/skipper.go: the second grammar, used for
   values the caller did not read, containers it did not enter and StepOut.
   (skipWhitespaceWith, the comment handlers and skipEndOfLongString live in
   Tokenizer.v because the value readers need them.)  Same conventions as
   Tokenizer.v; every function returns the character it stopped on where the Go
   function does.  The file ends by tying tokenizer.Next / FinishValue to
   skipValue.  No proofs. *)
From Coq Require Import String List NArith ZArith Bool.
From IonV Require Import Base.Wire Text.Tokenizer.
Import ListNotations.
Open Scope Z_scope.

(* skipDigits *)
Fixpoint skip_digits_loop (fuel : nat) (c : Z) : M Z :=
  match fuel with
  | O => nofuel
  | S f => if is_digit c then tdo c2 <- t_read; skip_digits_loop f c2 else ret c
  end.
Definition skip_digits (c : Z) : M Z := with_fuel (fun f => skip_digits_loop f c).

(* skipNumber *)
Definition skip_number : M Z :=
  tdo c <- t_read;
  tdo c <- (if c =? c_minus then t_read else ret c);
  tdo c <- skip_digits c;
  tdo c <- (if c =? c_dot then tdo c2 <- t_read; skip_digits c2 else ret c);
  tdo c <- (if (c =? 100) || (c =? 68) || (c =? 101) || (c =? 69) then
              tdo c2 <- t_read;
              tdo c3 <- (if (c2 =? c_plus) || (c2 =? c_minus) then t_read else ret c2);
              skip_digits c3
            else ret c);
  tdo ok <- t_is_stop_char c;
  if negb ok then fail else ret c.

(* skipRadix *)
Fixpoint skip_radix_loop (fuel : nat) (valid : Z -> bool) : M Z :=
  match fuel with
  | O => nofuel
  | S f => tdo c <- t_read; if valid c then skip_radix_loop f valid else ret c
  end.
Definition skip_radix (is_marker valid : Z -> bool) : M Z :=
  tdo c <- t_read;
  tdo c <- (if c =? c_minus then t_read else ret c);
  if negb (c =? c_0) then fail else
  tdo _ <- t_expect is_marker;
  tdo c <- with_fuel (fun f => skip_radix_loop f valid);
  tdo ok <- t_is_stop_char c;
  if negb ok then fail else ret c.
Definition skip_binary : M Z := skip_radix is_b is_bin_digit.
Definition skip_hex : M Z := skip_radix is_x is_hex_digit.

(* timestamps *)
Fixpoint skip_timestamp_digits (n : nat) : M Z :=
  match n with
  | O => t_read
  | S n' => tdo _ <- t_expect is_digit; skip_timestamp_digits n'
  end.
Definition skip_timestamp_finish (c : Z) : M Z :=
  tdo ok <- t_is_stop_char c; if negb ok then fail else ret c.
Definition skip_timestamp_offset (c : Z) : M Z :=
  if negb ((c =? c_minus) || (c =? c_plus)) then ret c else
  tdo c2 <- skip_timestamp_digits 2;
  if negb (c2 =? c_colon) then fail else skip_timestamp_digits 2.
Definition skip_timestamp_offset_or_z (c : Z) : M Z :=
  if (c =? c_minus) || (c =? c_plus) then skip_timestamp_offset c
  else if (c =? 122) || (c =? 90) then t_read
  else fail.
Definition skip_timestamp : M Z :=
  tdo c <- skip_timestamp_digits 4;
  if c =? c_T then t_read else
  if negb (c =? c_minus) then fail else
  tdo c <- skip_timestamp_digits 2;
  if c =? c_T then t_read else
  if negb (c =? c_minus) then fail else
  tdo c <- skip_timestamp_digits 2;
  if negb (c =? c_T) then skip_timestamp_finish c else
  tdo c <- t_read;
  if negb (is_digit c) then tdo c2 <- skip_timestamp_offset c; skip_timestamp_finish c2 else
  tdo c <- skip_timestamp_digits 1;
  if negb (c =? c_colon) then fail else
  tdo c <- skip_timestamp_digits 2;
  if negb (c =? c_colon) then tdo c2 <- skip_timestamp_offset_or_z c; skip_timestamp_finish c2 else
  tdo c <- skip_timestamp_digits 2;
  if negb (c =? c_dot) then tdo c2 <- skip_timestamp_offset_or_z c; skip_timestamp_finish c2 else
  tdo c <- t_read;
  tdo c <- (if is_digit c then skip_digits c else ret c);
  tdo c2 <- skip_timestamp_offset_or_z c;
  skip_timestamp_finish c2.

(* skipSymbol / skipSymbolOperator *)
Fixpoint skip_while (fuel : nat) (p : Z -> bool) (c : Z) : M Z :=
  match fuel with
  | O => nofuel
  | S f => if p c then tdo c2 <- t_read; skip_while f p c2 else ret c
  end.
Definition skip_symbol : M Z := tdo c <- t_read; with_fuel (fun f => skip_while f is_identifier_part c).
(* skipSymbolOperator: a comment ends the operator *)
Fixpoint skip_operator_loop (fuel : nat) (c : Z) : M Z :=
  match fuel with
  | O => nofuel
  | S f =>
    if is_operator_char c then
      tdo stop <- (if c =? c_slash then tdo c2 <- t_peek; ret ((c2 =? c_slash) || (c2 =? c_star)) else ret false);
      if stop then ret c else tdo c2 <- t_read; skip_operator_loop f c2
    else ret c
  end.
Definition skip_symbol_operator : M Z := tdo c <- t_read; with_fuel (fun f => skip_operator_loop f c).

(* skipSymbolQuotedHelper / skipStringHelper: the same loop with a different closing quote *)
Fixpoint skip_quoted_helper (fuel : nat) (q : Z) : M unit :=
  match fuel with
  | O => nofuel
  | S f =>
    tdo c <- t_read;
    if (c =? -1) || (c =? c_nl) then fail
    else if c =? q then ret tt
    else if c =? c_bslash then tdo _ <- t_read; skip_quoted_helper f q
    else skip_quoted_helper f q
  end.
Definition skip_symbol_quoted_helper : M unit := with_fuel (fun f => skip_quoted_helper f c_quote).
Definition skip_string_helper : M unit := with_fuel (fun f => skip_quoted_helper f c_dquote).
Definition skip_symbol_quoted : M Z := tdo _ <- skip_symbol_quoted_helper; t_read.
Definition skip_string : M Z := tdo _ <- skip_string_helper; t_read.

(* skipLongStringHelper *)
Fixpoint skip_long_string_loop (fuel : nat) (h : handler) : M unit :=
  match fuel with
  | O => nofuel
  | S f =>
    tdo c <- t_read;
    if c =? -1 then fail
    else if c =? c_quote then
      tdo '(ok, _) <- t_skip_end_of_long_string h;
      if ok then ret tt else skip_long_string_loop f h
    else if c =? c_bslash then tdo _ <- t_read; skip_long_string_loop f h
    else skip_long_string_loop f h
  end.
Definition skip_long_string_helper (h : handler) : M unit := with_fuel (fun f => skip_long_string_loop f h).
Definition skip_long_string : M Z := tdo _ <- skip_long_string_helper HSkipComments; t_read.

(* skipBlobHelper: `for c != '}'` over skipLobWhitespace, then expect '}' *)
Fixpoint skip_blob_loop (fuel : nat) (c : Z) : M unit :=
  match fuel with
  | O => nofuel
  | S f =>
    if c =? c_rbrace then ret tt else
    tdo '(c2, _) <- t_skip_lob_whitespace;
    if c2 =? -1 then fail else skip_blob_loop f c2
  end.
(* skipBlobHelper, blob or clob: the text of a clob is skipped as the string it is *)
Definition skip_blob_helper : M unit :=
  tdo '(c, _) <- t_skip_lob_whitespace;
  tdo c <-
    (if c =? c_dquote then
       tdo _ <- skip_string_helper;
       tdo '(c2, _) <- t_skip_lob_whitespace; ret c2
     else if c =? c_quote then
       tdo ok <- t_is_triple_quote;
       if negb ok then fail else
       tdo _ <- skip_long_string_helper HEnsureNoComments;
       tdo '(c2, _) <- t_skip_lob_whitespace; ret c2
     else ret c);
  tdo _ <- with_fuel (fun f => skip_blob_loop f c);
  t_expect (fun c => c =? c_rbrace).
Definition skip_blob : M Z := tdo _ <- skip_blob_helper; t_read.

(* skipContainerHelper(term): [terms] are the terminators of the containers we are inside of, innermost
   first (the Go slice, innermost last).  term is always one of ] ) } here, so the entry panic is unreachable. *)
Fixpoint skip_container_loop (fuel : nat) (top : Z) (terms : list Z) : M unit :=
  match fuel with
  | O => nofuel
  | S f =>
    tdo '(c, _) <- t_skip_whitespace;
    if c =? -1 then fail
    else if c =? top then
      match terms with
      | [] => ret tt
      | t1 :: rest => skip_container_loop f t1 rest
      end
    else if c =? c_dquote then tdo _ <- skip_string_helper; skip_container_loop f top terms
    else if c =? c_quote then
      tdo ok <- t_is_triple_quote;
      tdo _ <- (if ok then skip_long_string_helper HSkipComments else skip_symbol_quoted_helper);
      skip_container_loop f top terms
    else if c =? c_lparen then skip_container_loop f c_rparen (top :: terms)
    else if c =? c_lbracket then skip_container_loop f c_rbracket (top :: terms)
    else if c =? c_lbrace then
      tdo c2 <- t_peek;
      if c2 =? c_lbrace then tdo _ <- t_read; tdo _ <- skip_blob_helper; skip_container_loop f top terms
      else if c2 =? c_rbrace then tdo _ <- t_read; skip_container_loop f top terms
      else skip_container_loop f c_rbrace (top :: terms)
    else skip_container_loop f top terms
  end.
Definition skip_container_helper (fuel : nat) (term : Z) : M unit := skip_container_loop fuel term [].
Definition t_skip_container_helper (term : Z) : M unit := with_fuel (fun f => skip_container_helper f term).
Definition skip_container (term : Z) : M Z := tdo _ <- t_skip_container_helper term; t_read.

(* SkipContainerContents(typ): the closing character of the container type (1 struct, 2 list, 3 sexp) *)
Inductive ctype := CStruct | CList | CSexp.
Definition term_of (c : ctype) : Z :=
  match c with CStruct => c_rbrace | CList => c_rbracket | CSexp => c_rparen end.
Definition t_skip_container_contents (c : ctype) : M unit := t_skip_container_helper (term_of c).

(* skipValue *)
Definition t_skip_value : M Z :=
  tdo t <- get;
  let k := t_token t in
  tdo c <-
    (if (k =? tokenNumber)%N then skip_number
     else if (k =? tokenBinary)%N then skip_binary
     else if (k =? tokenHex)%N then skip_hex
     else if (k =? tokenTimestamp)%N then skip_timestamp
     else if (k =? tokenSymbol)%N then skip_symbol
     else if (k =? tokenSymbolQuoted)%N then skip_symbol_quoted
     else if (k =? tokenSymbolOperator)%N then skip_symbol_operator
     else if (k =? tokenString)%N then skip_string
     else if (k =? tokenLongString)%N then skip_long_string
     else if (k =? tokenOpenDoubleBrace)%N then skip_blob
     else if (k =? tokenOpenBrace)%N then skip_container c_rbrace
     else if (k =? tokenOpenParen)%N then skip_container c_rparen
     else if (k =? tokenOpenBracket)%N then skip_container c_rbracket
     else mpanic);                                   (* panic(`skipValue called with token=...`) *)
  tdo c <- (if is_whitespace c then tdo '(c2, _) <- t_skip_whitespace; ret c2 else ret c);
  tdo _ <- finish;
  ret c.

(* SkipDoubleColon: (found, whitespace skipped) *)
Definition skip_double_colon : M bool :=
  tdo '(cs, eof) <- t_peekN 2;
  if eof then ret false
  else if (znth cs 0 =? c_colon) && (znth cs 1 =? c_colon) then tdo _ <- t_skipN 2; ret true
  else ret false.
Definition t_skip_double_colon : M (bool * bool) :=
  tdo '(c, ws) <- t_skip_whitespace;          (* skipWhitespaceHelper *)
  tdo _ <- t_unread c;
  tdo ok <- skip_double_colon;
  ret (ok, ws).
(* SkipDot *)
Definition t_skip_dot : M bool :=
  tdo c <- t_peek;
  if negb (c =? c_dot) then ret false else tdo _ <- t_read; ret true.
(* SkipLobWhitespace *)
Definition t_skip_lob_ws : M Z := tdo '(c, _) <- t_skip_lob_whitespace; ret c.

(* ---- tokenizer.Next / FinishValue with skipValue tied in ------------------------------------------------- *)
Definition t_next : M unit := t_next_with t_skip_value.
Definition t_finish_value : M bool := t_finish_value_with t_skip_value.
