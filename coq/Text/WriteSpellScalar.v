(* WriteSpellScalar.v — C01, text half, step 2: the text the Writer model emits for each scalar is a spelling
   of that scalar in the sense of [item_spells] (Text/SpellStream.v): integers via their decimal digits, strings
   / quoted symbols / clobs via the escape tables ([qbody], [cbody]), symbols via the quoting decision
   ([symbol_needs_quoting] against [ident_chars] / keywords / $n), blobs via base64 ([b64_text]), typed nulls,
   booleans, nan and the infinities; floats, decimals and timestamps from the hypotheses on [formats]. *)
From Coq Require Import String List NArith ZArith Bool Lia ZifyBool ZifyN ZifyNat.
From IonV Require Import Base.Wire Base.Utf8 Data.Ion Num.Float Num.Decimal Num.DecimalP Bin.BinWriter Bin.BitStream Bin.BinReader
  Bin.RoundTripBinS
  Text.TextOut Text.TextWriter Text.TextWriterP Text.TextRoundtrip Text.Tokenizer Text.TextReader Text.TextNum
  Text.SpellBase Text.SpellWs Text.SpellNum Text.SpellIdent Text.SpellSym Text.SpellEsc Text.SpellStr Text.SpellBlob
  Text.SpellTs Text.SpellRead Text.SpellVal Text.SpellSymVal Text.SpellStream Text.SpellTree Text.WriteSpell.
From IonV Require Text.SpecText.
Import ListNotations.
Open Scope N_scope.
Ltac Zify.zify_post_hook ::= Z.div_mod_to_equations.

(* ---- escapes ------------------------------------------------------------------------------------------------ *)
Lemma hex2_digits c : c < 256 -> hex_digits 2 [hex_char_upper ((c / 16) mod 16); hex_char_upper (c mod 16)] c.
Proof.
  intros Hc. split; [reflexivity|]. cbn [hex_acc].
  rewrite (hexval_upper ((c / 16) mod 16)) by lia. rewrite (hexval_upper (c mod 16)) by lia. f_equal. lia.
Qed.
Lemma escaped_char_spells c : c < 256 -> exists e, escaped_char c = 92 :: e /\ esc_spells_clob e (Z.of_N c).
Proof.
  intros Hc. unfold escaped_char.
  repeat match goal with
         | |- context [if ?x =? ?k then _ else _] =>
           destruct (N.eqb_spec x k) as [->|?];
           [eexists; split; [reflexivity|apply esc_one; cbn; tauto]|]
         end.
  eexists. split; [reflexivity|]. apply esc_x. now apply hex2_digits.
Qed.

(* strings and quoted symbols: one escape rule for both, [q] the delimiter *)
Definition esc_q (q c : N) : list N := if (c <? 32) || (c =? 92) || (c =? q) then escaped_char c else [c].
Lemma esc_string_q c : esc_string_char c = esc_q 34 c.  Proof. reflexivity. Qed.
Lemma esc_symbol_q c : esc_symbol_char c = esc_q 39 c.  Proof. reflexivity. Qed.
Lemma esc_q_qbody q t : q < 128 -> bytes_ok t -> qbody q (concat (map (esc_q q) t)) t.
Proof.
  intros Hq. induction 1 as [|c r Hc Hr IH]; cbn [map concat]; [constructor|].
  unfold esc_q at 1. destruct ((c <? 32) || (c =? 92) || (c =? q)) eqn:E.
  - destruct (escaped_char_spells c Hc) as (e & -> & He). cbn [app].
    assert (Hlt : c < 128) by lia.
    replace (c :: r) with (SpecText.utf8_enc (Z.to_N (Z.of_N c)) ++ r).
    + apply qb_esc; [now apply esc_clob_text|exact IH].
    + rewrite N2Z.id. unfold SpecText.utf8_enc. replace (c <? 128) with true by lia. reflexivity.
  - cbn [app]. apply qb_raw; [|exact IH]. unfold raw_char, str_ws. lia.
Qed.
Lemma string_qbody t : bytes_ok t -> qbody 34 (concat (escaped_string t)) t.
Proof. apply (esc_q_qbody 34). lia. Qed.
Lemma symbol_qbody t : bytes_ok t -> qbody 39 (concat (escaped_symbol t)) t.
Proof. apply (esc_q_qbody 39). lia. Qed.
Lemma clob_cbody b : bytes_ok b -> cbody (concat (escaped_clob b)) b.
Proof.
  induction 1 as [|c r Hc Hr IH]; unfold escaped_clob in *; cbn [map concat]; [constructor|].
  unfold esc_clob_char at 1. destruct ((c <? 32) || (c =? 92) || (c =? 34) || (127 <? c)) eqn:E.
  - destruct (escaped_char_spells c Hc) as (e & -> & He). cbn [app].
    replace (c :: r) with (Z.to_N (Z.of_N c) :: r) by now rewrite N2Z.id.
    apply cb_esc; assumption.
  - cbn [app]. apply cb_raw; [|exact IH]. unfold clob_raw, str_ws. lia.
Qed.

(* ---- symbols -------------------------------------------------------------------------------------------------- *)
Lemma id_part_model c : TextOut.is_identifier_part c = true -> id_part c.
Proof. unfold TextOut.is_identifier_part, TextOut.is_identifier_start, is_digit_c, in_rng, id_part, id_start, letter, digit. lia. Qed.
Lemma id_start_model' c : TextOut.is_identifier_start c = true -> id_start c.
Proof. unfold TextOut.is_identifier_start, in_rng, id_start, letter. lia. Qed.

Lemma keywords_model t : existsb (list_eqb t) keywords = false -> TextReader.is_keyword t = false.
Proof.
  unfold keywords, TextReader.is_keyword. cbn [existsb]. intros H.
  repeat (apply orb_false_iff in H as [? H]). repeat (apply orb_false_iff; split); assumption.
Qed.

(* the Writer never emits a carriage return *)
Lemma escaped_char_no_cr c : c < 256 -> no_cr (escaped_char c).
Proof.
  intros Hc. destruct (escaped_char_spells c Hc) as (e & -> & He). constructor; [discriminate|].
  apply (esc_spells_no_cr e (Z.of_N c)). now apply esc_clob_text.
Qed.
Lemma esc_q_no_cr q t : bytes_ok t -> no_cr (concat (map (esc_q q) t)).
Proof.
  induction 1 as [|c r Hc Hr IH]; cbn [map concat]; [constructor|]. apply no_cr_app. split; [|exact IH].
  unfold esc_q. destruct ((c <? 32) || (c =? 92) || (c =? q)) eqn:E; [now apply escaped_char_no_cr|].
  constructor; [lia|constructor].
Qed.
Lemma clob_no_cr b : bytes_ok b -> no_cr (concat (escaped_clob b)).
Proof.
  induction 1 as [|c r Hc Hr IH]; unfold escaped_clob in *; cbn [map concat]; [constructor|]. apply no_cr_app. split; [|exact IH].
  unfold esc_clob_char. destruct ((c <? 32) || (c =? 92) || (c =? 34) || (127 <? c)) eqn:E; [now apply escaped_char_no_cr|].
  constructor; [lia|constructor].
Qed.
Lemma ident_no_cr id : ident_chars id -> no_cr id.
Proof.
  intros [c r Hc Hr]. constructor; [unfold id_start, letter in Hc; lia|].
  eapply Forall_impl; [|exact Hr]. unfold id_part, id_start, letter, digit. intros a Ha. lia.
Qed.

(* how a symbol is written, and the token the reader builds from that spelling *)
Inductive sym_shape (y : symv) : Prop :=
| shape_bare : ident_chars (wsym y) -> TextReader.is_keyword (wsym y) = false ->
               new_symbol_token LSys (wsym y) = Ok (rd_sym y) ->
               list_eqb (wsym y) (s "$ion_1_0") = false -> sym_shape y
| shape_quoted body text : wsym y = 39 :: body ++ [39] -> qbody 39 body text -> no_cr body -> utf8_valid text = true ->
               rd_sym y = tok_text text -> sym_shape y.

Lemma version_marker_quoted : symbol_needs_quoting (s "$ion_1_0") = true.
Proof. reflexivity. Qed.

Lemma dollar_digits_qbody r : forallb BinWriter.is_digit r = true -> qbody 39 (36 :: r) (36 :: r).
Proof.
  intros H. apply qb_raw; [unfold raw_char, str_ws; lia|].
  induction r as [|c r IH]; [constructor|]. cbn [forallb] in H. apply andb_true_iff in H as [Hc Hr].
  apply qb_raw; [unfold BinWriter.is_digit in Hc; unfold raw_char, str_ws; lia|auto].
Qed.
Lemma digits_bytes_ok r : forallb BinWriter.is_digit r = true -> bytes_ok r.
Proof.
  induction r as [|c r IH]; cbn [forallb]; intros H; [constructor|].
  apply andb_true_iff in H as [Hc Hr]. constructor; [unfold BinWriter.is_digit in Hc; lia|exact (IH Hr)].
Qed.

Lemma symbol_identifier_shape t z : BinWriter.symbol_identifier t = Some z ->
  exists r, t = 36 :: r /\ forallb BinWriter.is_digit r = true.
Proof.
  unfold BinWriter.symbol_identifier. destruct t as [|c t']; [discriminate|].
  destruct c as [|p]; [discriminate|]. do 6 (destruct p as [p|p|]; try discriminate).
  destruct t' as [|d r]; [discriminate|].
  destruct (forallb BinWriter.is_digit (d :: r)) eqn:E; [|discriminate]. intros _. eauto.
Qed.

Lemma sym_text_shape t : bytes_ok t -> utf8_valid t = true -> sym_shape (SymText t).
Proof.
  intros Hb Hu. unfold wsym, sym_bytes, write_symbol. cbn [tok_of_sym tok_text tk_text tk_sid].
  destruct (BinWriter.symbol_identifier t) as [z|] eqn:Esi.
  - (* '$7': between quotes, raw *)
    apply (shape_quoted _ t t).
    + unfold wsym, sym_bytes, write_symbol. cbn [tok_of_sym tok_text tk_text]. rewrite Esi. cbn [concat]. now rewrite app_nil_r.
    + destruct (symbol_identifier_shape t z Esi) as (r & -> & Hr). now apply dollar_digits_qbody.
    + destruct (symbol_identifier_shape t z Esi) as (r & -> & Hr). constructor; [discriminate|].
      clear - Hr. induction r as [|c r IH]; [constructor|]. cbn [forallb] in Hr. apply andb_true_iff in Hr as [Hc Hr].
      constructor; [unfold BinWriter.is_digit in Hc; lia|auto].
    + exact Hu.
    + cbn [rd_sym]. now rewrite Esi.
  - destruct (symbol_needs_quoting t) eqn:Eq.
    + apply (shape_quoted _ (concat (escaped_symbol t)) t).
      * unfold wsym, sym_bytes, write_symbol. cbn [tok_of_sym tok_text tk_text]. rewrite Esi.
        rewrite (write_symbol_from_string_quoted t Eq). reflexivity.
      * now apply symbol_qbody.
      * now apply (esc_q_no_cr 39).
      * exact Hu.
      * cbn [rd_sym]. now rewrite Esi, Eq.
    + assert (Ews : wsym (SymText t) = t).
      { unfold wsym, sym_bytes, write_symbol. cbn [tok_of_sym tok_text tk_text]. rewrite Esi.
        rewrite (write_symbol_from_string_unquoted t Eq). cbn [concat]. now rewrite app_nil_r. }
      destruct (bare_symbol_is_identifier t Eq) as (Hkw & c & r & -> & Hc & Hr).
      assert (Hid : ident_chars (c :: r)).
      { constructor; [now apply id_start_model'|]. apply Forall_forall. intros x Hx.
        apply id_part_model. rewrite forallb_forall in Hr. now apply Hr. }
      assert (Hns : not_sid_form (c :: r)).
      { unfold not_sid_form. destruct (N.eqb_spec c 36) as [->|Hc36]; [|destruct c as [|p]; auto; repeat (destruct p; auto); contradiction].
        destruct r as [|d r']; [now left|right].
        (* all digits would make symbol_identifier answer or the quoting clause fire *)
        unfold symbol_needs_quoting in Eq. rewrite Hkw in Eq.
        apply orb_false_iff in Eq as [Eq _]. apply orb_false_iff in Eq as [_ Eq].
        rewrite Esi in Eq. change (36 =? 36) with true in Eq. cbn [list_eqb negb andb] in Eq.
        rewrite andb_true_r in Eq.
        apply Exists_exists. rewrite <- not_true_iff_false in Eq. rewrite forallb_forall in Eq.
        destruct (forallb is_dec_b (d :: r')) eqn:Ea.
        - exfalso. apply Eq. intros x Hx. rewrite forallb_forall in Ea. specialize (Ea x Hx).
          unfold is_dec_b in Ea. unfold is_digit_c, in_rng. exact Ea.
        - apply not_true_iff_false in Ea. rewrite forallb_forall in Ea.
          destruct (Exists_dec (fun x => is_dec_b x = false) (d :: r')) as [He|He].
          + intros x. destruct (is_dec_b x); [right; discriminate|now left].
          + apply Exists_exists in He. exact He.
          + exfalso. apply Ea. intros x Hx. destruct (is_dec_b x) eqn:Ex; [reflexivity|].
            exfalso. apply He. apply Exists_exists. eauto. }
      apply shape_bare; rewrite Ews.
      * exact Hid.
      * now apply keywords_model.
      * cbn [rd_sym]. rewrite Esi, Eq. now apply new_symbol_token_text.
      * destruct (list_eqb (c :: r) (s "$ion_1_0")) eqn:E; [|reflexivity].
        apply list_eqb_eq in E. rewrite E in Eq. discriminate Eq.
Qed.

Ltac sid_case := apply shape_bare;
  [ match goal with |- ident_chars ?x => let v := eval vm_compute in x in change x with v end;
    constructor; [unfold id_start; lia|repeat constructor; unfold id_part, digit; lia]
  | vm_compute; reflexivity | vm_compute; reflexivity | vm_compute; reflexivity ].
Lemma sym_sid_shape n : n <= 9 -> sym_shape (SymSid n).
Proof.
  intros H.
  assert (E : n = 0 \/ n = 1 \/ n = 2 \/ n = 3 \/ n = 4 \/ n = 5 \/ n = 6 \/ n = 7 \/ n = 8 \/ n = 9) by lia.
  repeat (destruct E as [->|E]; [sid_case|]). subst n. sid_case.
Qed.
Lemma sym_shape_wf y : wf_sym y -> sym_shape y.
Proof. destruct y as [t|n]; cbn [wf_sym]; [intros [Hb Hu]; now apply sym_text_shape|apply sym_sid_shape]. Qed.

(* ---- integers -------------------------------------------------------------------------------------------------- *)
Lemma all_digits_us ds : all_digits ds = true -> us_tail is_dec_b ds ds.
Proof.
  induction ds as [|c r IH]; cbn [all_digits]; intros H; [constructor|].
  apply andb_true_iff in H as [Hc Hr]. apply ut_digit; [exact Hc|auto].
Qed.
Lemma fold_val_digits ds : forall acc, all_digits ds = true ->
  fold_left (fun a c => a * 10 + SpellNum.dval c) ds acc = val_digits ds acc.
Proof.
  induction ds as [|c r IH]; intros acc H; [reflexivity|]. cbn [all_digits] in H. apply andb_true_iff in H as [Hc Hr].
  cbn [fold_left val_digits]. rewrite IH by exact Hr. f_equal. unfold SpellNum.dval. unfold Decimal.is_digit in Hc.
  replace (c <=? 57) with true by lia. reflexivity.
Qed.
Definition int_numsp (z : Z) : numsp :=
  {| n_neg := (z <? 0)%Z; n_iw := dec_of_N (Z.abs_N z); n_ip := dec_of_N (Z.abs_N z); n_dot := false;
     n_fw := []; n_fp := []; n_exp := None |}.
Lemma int_numsp_text z : num_text (int_numsp z) = dec_of_Z z.
Proof.
  unfold num_text, int_numsp. cbn [n_neg n_iw n_dot n_exp exp_text]. rewrite !app_nil_r.
  destruct z as [|p|p]; cbn [Z.ltb Z.compare sign_bytes app dec_of_Z Z.abs_N]; reflexivity.
Qed.
Lemma int_numsp_wf z : num_wf (int_numsp z).
Proof.
  unfold num_wf, int_numsp. cbn [n_iw n_ip n_dot n_fw n_fp n_exp exp_wf].
  pose proof (canon_dec_of_N (Z.abs_N z)) as Hc. pose proof (all_digits_dec_of_N (Z.abs_N z)) as Ha.
  repeat split; auto.
  - destruct (dec_of_N (Z.abs_N z)) as [|c r]; [destruct Hc as [Hc|(? & ? & Hc & _)]; discriminate|].
    cbn [all_digits] in Ha. apply andb_true_iff in Ha as [Hd Hr]. apply usd; [exact Hd|now apply all_digits_us].
  - unfold no_lead0. destruct Hc as [->|(c & r & -> & Hc & _)]; [now left|right; cbn [hd]; lia].
Qed.
Lemma int_numsp_value z : num_value PD (int_numsp z) = Some (TInt, XInt (mk_int z)).
Proof.
  unfold num_value, num_kind, int_numsp. cbn [n_exp n_dot n_neg n_ip]. do 4 f_equal.
  unfold digits_value. rewrite fold_val_digits by apply all_digits_dec_of_N. rewrite val_dec_of_N.
  unfold sgn. destruct (Z.ltb_spec z 0); lia.
Qed.

(* ---- blobs ------------------------------------------------------------------------------------------------------ *)
Lemma b64_encode_app3 : forall k p, (3 * k <= length p)%nat ->
  b64_encode (firstn (3 * k) p) ++ b64_encode (skipn (3 * k) p) = b64_encode p.
Proof.
  induction k as [|k IH]; intros p H; [reflexivity|].
  replace (3 * S k)%nat with (S (S (S (3 * k)))) in * by lia.
  destruct p as [|a [|b [|c r]]]; cbn [length] in H; try lia.
  cbn [firstn skipn]. cbn [b64_encode]. cbn [app]. do 4 f_equal. apply IH. lia.
Qed.
Lemma b64_writes_concat : forall fuel p, (length p < fuel)%nat -> concat (b64_writes fuel p) = b64_encode p.
Proof.
  induction fuel as [|f IH]; intros p H; [lia|]. cbn [b64_writes].
  destruct (Nat.leb_spec 3 (length p)) as [H3|H3].
  - set (nn := if Nat.ltb 768 (length p) then 768%nat else (length p - Nat.modulo (length p) 3)%nat).
    assert (Hnn : exists k, nn = (3 * k)%nat /\ (1 <= k)%nat /\ (nn <= length p)%nat).
    { unfold nn. destruct (Nat.ltb_spec 768 (length p)).
      - exists 256%nat. lia.
      - exists (length p / 3)%nat. pose proof (Nat.div_mod (length p) 3 ltac:(lia)).
        pose proof (Nat.mod_upper_bound (length p) 3 ltac:(lia)). lia. }
    destruct Hnn as (k & Ek & Hk & Hle). cbn [concat]. rewrite IH.
    + rewrite Ek. apply b64_encode_app3. lia.
    + rewrite skipn_length. lia.
  - destruct p as [|a r]; [reflexivity|]. cbn [concat]. now rewrite app_nil_r.
Qed.
Lemma blob_body_concat b : concat (blob_body b) = b64_encode b.
Proof. unfold blob_body. apply b64_writes_concat. lia. Qed.

Lemma b64_char_val v : v < 64 -> SpellBlob.b64_char (TextOut.b64_char v) v.
Proof.
  intros H. unfold SpellBlob.b64_char.
  assert (A : forallb (fun v => match SpecText.b64val (TextOut.b64_char v) with Some x => x =? v | None => false end)
                      (map N.of_nat (seq 0 64)) = true) by (vm_compute; reflexivity).
  rewrite forallb_forall in A. specialize (A v).
  assert (Hin : In v (map N.of_nat (seq 0 64))).
  { rewrite <- (N2Nat.id v). apply in_map. apply in_seq. lia. }
  specialize (A Hin). destruct (SpecText.b64val (TextOut.b64_char v)) as [x|]; [|discriminate].
  apply N.eqb_eq in A. now subst.
Qed.
Lemma b64_text_eq chars b b' : b64_text chars b' -> b' = b -> b64_text chars b.
Proof. intros H <-. exact H. Qed.
Lemma b64_encode_text : forall n b, (length b <= n)%nat -> bytes_ok b -> b64_text (b64_encode b) b.
Proof.
  induction n as [|n IH]; intros b Hl Hb.
  - destruct b; [constructor|cbn [length] in Hl; lia].
  - destruct b as [|a [|b0 [|c r]]].
    + constructor.
    + inversion Hb as [|? ? Ha _]; subst. cbn [b64_encode].
      eapply b64_text_eq; [apply b64_pad2; apply b64_char_val; lia|f_equal; lia].
    + inversion Hb as [|? ? Ha Hb']; subst. inversion Hb' as [|? ? Hb0 _]; subst. cbn [b64_encode].
      eapply b64_text_eq; [apply b64_pad1; apply b64_char_val; lia|f_equal; [lia|f_equal; lia]].
    + inversion Hb as [|? ? Ha Hb']; subst. inversion Hb' as [|? ? Hb0 Hb'']; subst. inversion Hb'' as [|? ? Hc Hr]; subst.
      cbn [b64_encode].
      eapply b64_text_eq; [apply b64_quad; [apply b64_char_val; lia|apply b64_char_val; lia|apply b64_char_val; lia|apply b64_char_val; lia|
                           apply IH; [cbn [length] in Hl; lia|exact Hr]]|f_equal; [lia|f_equal; [lia|f_equal; lia]]].
Qed.
Lemma b64_text_blob_bytes chars bytes : b64_text chars bytes -> Forall blob_byte chars.
Proof.
  assert (H61 : blob_byte 61) by (unfold blob_byte, ws_byte; cbn; lia).
  induction 1; repeat (apply Forall_cons; [first [eapply b64_char_blob_byte; eassumption|exact H61]|]); auto.
Qed.
Lemma interleaved_self l : Forall blob_byte l -> interleaved l l.
Proof.
  induction 1 as [|c r Hc Hr IH]; [apply il_end; constructor|].
  change (c :: r) with ([] ++ c :: r) at 1. apply il_ch; [constructor|exact Hc|exact IH].
Qed.

Lemma wsym_no_cr y : wf_sym y -> no_cr (wsym y).
Proof.
  intros H. destruct (sym_shape_wf y H) as [Hid _ _ _|body text E Hq Hcr Hu _].
  - now apply ident_no_cr.
  - rewrite E. constructor; [discriminate|]. apply no_cr_app. split; [exact Hcr|constructor; [discriminate|constructor]].
Qed.

(* ---- what follows a value the Writer wrote: `,` `]` ` ` `)` `}` LF or the end of the output --------------------- *)
Definition good_follow (t : list N) : Prop :=
  t = [] \/ exists c r, t = c :: r /\ (c = 44 \/ c = 93 \/ c = 32 \/ c = 41 \/ c = 125 \/ c = 10).
Definition fol_ok (fol : list N -> list N -> Prop) : Prop := forall wn rest, good_follow (wn ++ rest) -> fol wn rest.

Ltac gf_cases H :=
  destruct H as [H|(c0 & r0 & H & Hc0)]; rewrite H;
  [|destruct Hc0 as [->|[->|[->|[->|[->| ->]]]]]].
Lemma fol_term : fol_ok f_term.
Proof. intros wn rest H. unfold f_term. gf_cases H; reflexivity. Qed.
Lemma fol_ident : fol_ok f_ident.
Proof. intros wn rest H. unfold f_ident. gf_cases H; reflexivity. Qed.
Lemma fol_null : fol_ok f_null.
Proof.
  intros wn rest H. split; [now apply fol_ident|]. intros ->. cbn [app] in H. gf_cases H; discriminate.
Qed.
Lemma fol_quote body : fol_ok (f_quote body).
Proof. intros wn rest H _. gf_cases H; discriminate. Qed.
Lemma fol_any : fol_ok f_any.
Proof. intros wn rest _. exact I. Qed.

(* ---- every scalar ---------------------------------------------------------------------------------------------------- *)
Section Scalars.
Variable F : formats.

Lemma item_eq ctx ann t t' fol ty v :
  item_spells PD PT LSys ctx ann t fol ty v -> t = t' -> item_spells PD PT LSys ctx ann t' fol ty v.
Proof. intros H <-. exact H. Qed.

Definition tn_of (t : N) : list N := skipn 5 (nth (N.to_nat t) text_nulls []).

Lemma plain_num_plain n : plain_num n -> num_plain n = num_text n.
Proof. intros (_ & E1 & E2). unfold num_plain, num_text. now rewrite E1, E2. Qed.

Lemma scalar_item ctx ann v :
  is_scalar v -> wf_scalar F v -> (forall t, v = VNull t -> lst_marker t ctx ann = false) ->
  exists fol, fol_ok fol /\ no_cr (scalar_bytes F v) /\
              item_spells PD PT LSys ctx ann (scalar_bytes F v) fol (scalar_ty v) (scalar_xv F v).
Proof.
  intros Hs Hw Hm. destruct v; try contradiction; cbn [scalar_bytes scalar_ty scalar_xv wf_scalar] in *.
  - (* typed nulls *)
    specialize (Hm t eq_refl). exists f_ident. split; [exact fol_ident|].
    assert (E : t = 1 \/ t = 2 \/ t = 3 \/ t = 4 \/ t = 5 \/ t = 6 \/ t = 7 \/ t = 8 \/ t = 9 \/ t = 10 \/ t = 11 \/ t = 12 \/ t = 13) by lia.
    repeat (destruct E as [->|E];
            [split; [repeat constructor; discriminate|
                     match goal with |- item_spells _ _ _ _ _ _ _ ?k _ => exact (it_tnull PD PT LSys ctx ann (tn_of k) k eq_refl Hm) end]|]).
    subst t. split; [repeat constructor; discriminate|exact (it_tnull PD PT LSys ctx ann (tn_of 13) 13 eq_refl Hm)].
  - exists f_ident. split; [exact fol_ident|]. split; [destruct b; repeat constructor; discriminate|].
    apply it_kw. destruct b; reflexivity.
  - exists f_term. split; [exact fol_term|]. rewrite <- int_numsp_text. split; [apply num_text_no_cr, int_numsp_wf|].
    apply it_num; [apply int_numsp_wf|apply int_numsp_value].
  - (* floats *)
    unfold format_float. destruct (f64_is_nan bits) eqn:En.
    + exists f_ident. split; [exact fol_ident|]. split; [repeat constructor; discriminate|]. apply it_kw. reflexivity.
    + destruct (f64_is_inf bits) eqn:Ei.
      * exists f_term. split; [exact fol_term|]. split; [destruct (f64_sign bits =? 0); repeat constructor; discriminate|].
        destruct (f64_sign bits =? 0).
        -- exact (it_inf PD PT LSys ctx ann false).
        -- exact (it_inf PD PT LSys ctx ann true).
      * destruct Hw as [Hw|[Hw|(n & Hp & Hk & Et)]]; try discriminate.
        unfold format_float in Et. rewrite En, Ei in Et. rewrite Et.
        exists f_term. split; [exact fol_term|]. split; [apply num_text_no_cr, Hp|].
        apply it_num; [apply Hp|]. unfold num_value. rewrite Hk. now rewrite (plain_num_plain n Hp).
  - destruct Hw as ((n & Hp & Hk & Et) & Hpd). exists f_term. split; [exact fol_term|].
    rewrite Et in *. split; [apply num_text_no_cr, Hp|].
    apply it_num; [apply Hp|]. unfold num_value. rewrite Hk, (plain_num_plain n Hp), Hpd. reflexivity.
  - destruct Hw as (sh & Hok & Et & _). exists f_term. split; [exact fol_term|].
    rewrite Et, (parse_ts_text_spelling sh Hok). pose proof (ts_ok_fits sh Hok) as Hf.
    split; [now apply ts_text_no_cr|]. apply it_ts; [exact Hf|now apply parse_ts_text_spelling].
  - (* symbols *)
    pose proof (wsym_no_cr y Hw) as Hcr.
    destruct (sym_shape_wf y Hw) as [Hid Hkw Hk Hv|body text E Hq Hcb Hu Hk].
    + exists f_ident. split; [exact fol_ident|]. split; [exact Hcr|].
      apply it_sym; auto. unfold is_ivm. now rewrite Hv.
    + exists (f_quote body). split; [apply fol_quote|]. split; [exact Hcr|]. rewrite E, Hk.
      apply (it_qsym PD PT LSys ctx ann body text Hq Hu).
  - destruct Hw as [Hb Hu]. exists f_any. split; [exact fol_any|]. split.
    + constructor; [discriminate|]. apply no_cr_app. split; [now apply (esc_q_no_cr 34)|repeat constructor; discriminate].
    + apply (it_str PD PT LSys ctx ann _ t); [now apply string_qbody|exact Hu].
  - exists f_any. split; [exact fol_any|]. split.
    + cbn [app]. repeat (constructor; [discriminate|]). apply no_cr_app. split; [now apply clob_no_cr|repeat constructor; discriminate].
    + eapply item_eq; [apply (it_clob PD PT LSys ctx ann [] (concat (escaped_clob b)) b []); [constructor|now apply clob_cbody|constructor]|reflexivity].
  - exists f_any. split; [exact fol_any|]. rewrite blob_body_concat.
    pose proof (b64_encode_text (length b) b (le_n _) Hw) as Ht. pose proof (b64_text_blob_bytes _ _ Ht) as Hbb.
    split.
    + cbn [app]. repeat (constructor; [discriminate|]). apply no_cr_app. split; [|repeat constructor; discriminate].
      eapply Forall_impl; [|exact Hbb]. intros a (Ha & _). unfold ws_byte in Ha. lia.
    + eapply item_eq; [apply (it_blob PD PT LSys ctx ann (b64_encode b) (b64_encode b) b); [now apply interleaved_self|exact Ht]|reflexivity].
Qed.
End Scalars.
