(* SpellBase.v — the vocabulary of the spelling theorems (property C02).

   [norm]: newline normalisation of Ion text (CR LF and a lone CR read as LF), written
   here from the Ion specification, independently of the tokenizer.
   [stream t]: the characters the tokenizer state [t] will still deliver to [t_read]:
   its push-back buffer followed by the normalised remaining input.
   [run m s a s']: a Hoare triple over that abstraction: from every state (without I/O
   failure) whose stream is [s], the tokenizer operation [m] succeeds with answer [a]
   in a state whose stream is [s'], and leaves the token and the unfinished flag alone.
   [runK] is the same with the token and flag made explicit.
   The file proves the triples of the primitive operations (read, unread, peek, peekN,
   skipN, expect, isStopChar, with_fuel) and the bridge from a concrete input. *)
From Coq Require Import String List NArith ZArith Bool Lia ZifyBool ZifyN ZifyNat.
From IonV Require Import Base.Wire Base.Utf8 Text.Tokenizer Text.Skipper.
Import ListNotations.
Open Scope Z_scope.

(* ---- newline normalisation -------------------------------------------------------------------- *)
Fixpoint norm (i : list N) : list N :=
  match i with
  | [] => []
  | c :: r =>
    if (c =? 13)%N
    then 10%N :: match r with
                 | c2 :: r2 => if (c2 =? 10)%N then norm r2 else norm r
                 | [] => []
                 end
    else c :: norm r
  end.
Definition no_cr (l : list N) : Prop := Forall (fun c => c <> 13%N) l.

Lemma norm_id l : no_cr l -> norm l = l.
Proof.
  induction 1 as [|c r Hc Hr IH]; [reflexivity|]. cbn [norm].
  destruct (N.eqb_spec c 13); [contradiction|]. now rewrite IH.
Qed.
Lemma norm_no_cr l : no_cr (norm l).
Proof.
  remember (length l) as n eqn:Hn. revert l Hn.
  induction n as [n IH] using lt_wf_ind. intros l Hn. destruct l as [|c r]; [constructor|].
  cbn [norm]. destruct (N.eqb_spec c 13) as [->|Hc].
  - constructor; [discriminate|]. destruct r as [|c2 r2]; [constructor|].
    destruct (c2 =? 10)%N; (eapply IH; [|reflexivity]); cbn [length] in *; lia.
  - constructor; [exact Hc|]. eapply IH; [|reflexivity]. cbn [length] in *; lia.
Qed.
Lemma no_cr_app a b : no_cr (a ++ b) <-> no_cr a /\ no_cr b.
Proof. unfold no_cr. apply Forall_app. Qed.
Lemma norm_app_nocr a b : no_cr a -> norm (a ++ b) = a ++ norm b.
Proof.
  induction 1 as [|c r Hc Hr IH]; [reflexivity|]. cbn [app norm].
  destruct (N.eqb_spec c 13); [contradiction|]. now rewrite IH.
Qed.
(* normalisation distributes over a cut that does not split a CR LF pair *)
Lemma norm_app a b : (last a 0%N <> 13%N \/ hd 0%N b <> 10%N) -> norm (a ++ b) = norm a ++ norm b.
Proof.
  remember (length a) as n eqn:Hn. revert a Hn.
  induction n as [n IH] using lt_wf_ind. intros a Hn Hc. destruct a as [|c r]; [reflexivity|].
  cbn [app norm]. destruct (N.eqb_spec c 13) as [->|Hc13].
  - destruct r as [|c2 r2].
    + cbn [app]. destruct b as [|b0 b']; [reflexivity|]. cbn [last hd] in Hc.
      destruct (N.eqb_spec b0 10); [lia|reflexivity].
    + cbn [app]. f_equal. destruct (c2 =? 10)%N.
      * eapply IH; [|reflexivity|]; [cbn [length] in *; lia|].
        destruct Hc as [Hc|Hc]; [left|right; exact Hc]. cbn [last] in Hc.
        destruct r2; [cbn; lia|exact Hc].
      * change (c2 :: r2 ++ b) with ((c2 :: r2) ++ b).
        eapply IH; [|reflexivity|]; [cbn [length] in *; lia|].
        destruct Hc as [Hc|Hc]; [left|right; exact Hc]. exact Hc.
  - cbn [app]. f_equal. eapply IH; [|reflexivity|]; [cbn [length] in *; lia|].
    destruct Hc as [Hc|Hc]; [left|right; exact Hc]. cbn [last] in Hc. destruct r; [cbn; lia|exact Hc].
Qed.
Lemma norm_length l : (length (norm l) <= length l)%nat.
Proof.
  remember (length l) as n eqn:Hn. rewrite Hn. revert l Hn.
  induction n as [n IH] using lt_wf_ind. intros l Hn. destruct l as [|c r]; [cbn; lia|].
  cbn [norm]. destruct (c =? 13)%N.
  - destruct r as [|c2 r2]; [cbn; lia|]. destruct (c2 =? 10)%N.
    + pose proof (IH (length r2) ltac:(cbn [length] in *; lia) r2 eq_refl). cbn [length] in *. lia.
    + pose proof (IH (length (c2 :: r2)) ltac:(cbn [length] in *; lia) (c2 :: r2) eq_refl).
      cbn [length] in *. lia.
  - pose proof (IH (length r) ltac:(cbn [length] in *; lia) r eq_refl). cbn [length] in *. lia.
Qed.

(* ---- the character stream of a tokenizer state ------------------------------------------------ *)
Definition zs (l : list N) : list Z := map Z.of_N l.
Definition stream (t : tstate) : list Z := t_buf t ++ zs (norm (t_in t)).
(* the abstract state: stream, current token, unfinished flag *)
Definition abs (t : tstate) : list Z * N * bool := (stream t, t_token t, t_unfinished t).

Lemma zs_app a b : zs (a ++ b) = zs a ++ zs b.
Proof. apply map_app. Qed.
Lemma zs_length a : length (zs a) = length a.
Proof. apply map_length. Qed.
Lemma zs_nonneg a : Forall (fun c => 0 <= c) (zs a).
Proof. induction a; constructor; [lia|assumption]. Qed.

(* what a read delivers from a stream: end of input is -1, and stays *)
Definition shead (s : list Z) : Z := match s with [] => -1 | c :: _ => c end.
Definition stail (s : list Z) : list Z := match s with [] => [] | _ :: r => r end.
(* the stream after the head has been read and pushed back *)
Definition spush (s : list Z) : list Z := shead s :: stail s.
Lemma spush_cons c r : spush (c :: r) = c :: r.
Proof. reflexivity. Qed.
Lemma shead_spush s : shead (spush s) = shead s. Proof. reflexivity. Qed.
Lemma stail_spush s : stail (spush s) = stail s. Proof. reflexivity. Qed.

Definition runK {A} (m : M A) (x : list Z * N * bool) (a : A) (x' : list Z * N * bool) : Prop :=
  forall t, t_ioerr t = false -> abs t = x ->
    exists t', m t = Ok (a, t') /\ t_ioerr t' = false /\ abs t' = x'.
Definition run {A} (m : M A) (s : list Z) (a : A) (s' : list Z) : Prop :=
  forall k u, runK m (s, k, u) a (s', k, u).
(* failure *)
Definition run_err {A} (m : M A) (s : list Z) : Prop :=
  forall t, t_ioerr t = false -> stream t = s -> m t = Err.

Lemma runK_ret {A} (a : A) x : runK (ret a) x a x.
Proof. intros t Hi Ha. exists t. auto. Qed.
Lemma run_ret {A} (a : A) s : run (ret a) s a s.
Proof. intros k u. apply runK_ret. Qed.
Lemma runK_bind {A B} (m : M A) (f : A -> M B) x a x1 b x2 :
  runK m x a x1 -> runK (f a) x1 b x2 -> runK (mbind m f) x b x2.
Proof.
  intros H1 H2 t Hi Ha. destruct (H1 t Hi Ha) as (t1 & E1 & Hi1 & Ha1).
  destruct (H2 t1 Hi1 Ha1) as (t2 & E2 & Hi2 & Ha2). exists t2. unfold mbind. rewrite E1. auto.
Qed.
Lemma run_bind {A B} (m : M A) (f : A -> M B) s a s1 b s2 :
  run m s a s1 -> run (f a) s1 b s2 -> run (mbind m f) s b s2.
Proof. intros H1 H2 k u. eapply runK_bind; [apply H1|apply H2]. Qed.
Lemma run_runK {A} (m : M A) s a s' k u : run m s a s' -> runK m (s, k, u) a (s', k, u).
Proof. intros H. apply H. Qed.
Lemma run_eq {A} (m : M A) s a s' a' s'' : run m s a s' -> a = a' -> s' = s'' -> run m s a' s''.
Proof. intros H <- <-. exact H. Qed.

(* ---- read, unread, peek ------------------------------------------------------------------------- *)
Lemma run_read s : run t_read s (shead s) (stail s).
Proof.
  intros k u t Hi Ha. unfold abs in Ha. injection Ha as Hs Hk Hu. unfold stream in Hs. unfold t_read.
  destruct (t_buf t) as [|b bs] eqn:Eb.
  - cbn [app] in Hs. destruct (t_in t) as [|c r] eqn:Ei.
    + rewrite Hi. cbn in Hs. subst s. exists t. cbn [shead stail]. repeat split; auto.
      unfold abs, stream. rewrite Eb, Ei. cbn. now rewrite Hk, Hu.
    + cbn [norm] in Hs. destruct (N.eqb_spec c 13) as [->|Hc].
      * destruct r as [|c2 r2].
        -- rewrite Hi. subst s. cbn [zs map shead stail]. exists (set_in t []). repeat split; auto.
           unfold abs, stream. cbn. rewrite Eb, Hk, Hu. reflexivity.
        -- destruct (N.eqb_spec c2 10) as [->|Hc2]; subst s; cbn [zs map shead stail].
           ++ exists (set_in t r2). repeat split; auto. unfold abs, stream. cbn. rewrite Eb, Hk, Hu. reflexivity.
           ++ exists (set_in t (c2 :: r2)). repeat split; auto. unfold abs, stream.
              cbn [t_buf t_in set_in t_token t_unfinished]. rewrite Eb, Hk, Hu. reflexivity.
      * subst s. cbn [zs map shead stail]. exists (set_in t r). repeat split; auto.
        unfold abs, stream. cbn [t_buf t_in set_in t_token t_unfinished]. rewrite Eb, Hk, Hu. reflexivity.
  - cbn [app] in Hs. subst s. cbn [shead stail]. exists (set_buf t bs). repeat split; auto.
    unfold abs, stream. cbn [t_buf t_in set_buf t_token t_unfinished]. rewrite Hk, Hu. reflexivity.
Qed.
Lemma run_read_cons c r : run t_read (c :: r) c r.
Proof. exact (run_read (c :: r)). Qed.
Lemma run_unread c s : run (t_unread c) s tt (c :: s).
Proof.
  intros k u t Hi Ha. unfold abs in Ha. injection Ha as Hs Hk Hu. unfold t_unread.
  exists (set_buf t (c :: t_buf t)). repeat split; auto.
  unfold abs, stream in *. cbn [t_buf t_in set_buf t_token t_unfinished]. rewrite Hk, Hu. cbn [app]. now rewrite Hs.
Qed.
Lemma run_peek s : run t_peek s (shead s) (spush s).
Proof.
  intros k u t Hi Ha. unfold t_peek. destruct (t_buf t) as [|b bs] eqn:Eb.
  - eapply (runK_bind t_read _ _ _ _ _ _ (run_read s k u)); [|exact Hi|exact Ha].
    eapply runK_bind; [apply run_unread|]. apply runK_ret.
  - pose proof Ha as Ha'. unfold abs in Ha. injection Ha as Hs Hk Hu. unfold stream in Hs. rewrite Eb in Hs.
    cbn [app] in Hs. subst s. exists t. cbn [shead stail spush]. repeat split; auto.
Qed.
Lemma run_peek_cons c r : run t_peek (c :: r) c (c :: r).
Proof. exact (run_peek (c :: r)). Qed.

Lemma run_expect f s : f (shead s) = true -> run (t_expect f) s tt (stail s).
Proof.
  intros Hf. unfold t_expect. eapply run_bind; [apply run_read|]. rewrite Hf. apply run_ret.
Qed.

(* ---- fuel ------------------------------------------------------------------------------------------- *)
(* the characters of a stream that are not the end-of-input mark *)
Definition nne (s : list Z) : nat := length (filter (fun c => negb (c =? -1)) s).
Lemma nne_app a b : nne (a ++ b) = (nne a + nne b)%nat.
Proof. unfold nne. now rewrite filter_app, app_length. Qed.
Lemma nne_zs l : nne (zs l) = length l.
Proof.
  unfold nne. induction l as [|c r IH]; [reflexivity|]. cbn [zs map filter].
  destruct (Z.eqb_spec (Z.of_N c) (-1)); [lia|]. cbn [negb length]. unfold zs in IH. now rewrite IH.
Qed.
Lemma nne_le s : (nne s <= length s)%nat.
Proof. unfold nne. induction s as [|c r IH]; cbn [filter length]; [lia|]. destruct (negb (c =? -1)); cbn [length]; lia. Qed.
Lemma stream_rem t : (nne (stream t) <= t_rem t)%nat.
Proof.
  unfold stream, t_rem. rewrite nne_app, nne_zs. pose proof (norm_length (t_in t)). unfold nne. lia.
Qed.
Lemma runK_with_fuel {A} (g : nat -> M A) s k u a x' :
  (forall f, (nne s + 2 <= f)%nat -> runK (g f) (s, k, u) a x') -> runK (with_fuel g) (s, k, u) a x'.
Proof.
  intros H t Hi Ha. unfold with_fuel. apply H; auto. unfold t_fuel.
  pose proof (stream_rem t). unfold abs in Ha. injection Ha as Hs _ _. rewrite Hs in H0. lia.
Qed.
Lemma run_with_fuel {A} (g : nat -> M A) s a s' :
  (forall f, (nne s + 2 <= f)%nat -> run (g f) s a s') -> run (with_fuel g) s a s'.
Proof. intros H k u. apply runK_with_fuel. intros f Hf. apply H. exact Hf. Qed.

(* ---- isStopChar with its comment look-ahead -------------------------------------------------------- *)
(* [c] has been read and [s] follows: c ends a number / timestamp / $n / keyword *)
Definition stops (c : Z) (s : list Z) : bool :=
  is_stop_char c || ((c =? c_slash) && ((shead s =? c_slash) || (shead s =? c_star))).
Lemma run_is_stop_char c s :
  run (t_is_stop_char c) s (stops c s) (if is_stop_char c then s else if c =? c_slash then spush s else s).
Proof.
  unfold t_is_stop_char, stops. destruct (is_stop_char c); [apply run_ret|].
  destruct (c =? c_slash); [|apply run_ret]. cbn [orb andb].
  eapply run_bind; [apply run_peek|]. apply run_ret.
Qed.

(* ---- peekN / skipN on streams that are long enough --------------------------------------------------- *)
Lemma run_unread_all : forall l s, run (unread_all l) s tt (rev l ++ s).
Proof.
  induction l as [|c r IH]; intros s; cbn [unread_all rev]; [apply run_ret|].
  eapply run_bind; [apply run_unread|]. rewrite <- app_assoc. cbn [app]. apply IH.
Qed.
Lemma run_peekN_loop : forall n acc p s,
  length p = n -> Forall (fun c => c <> -1) p ->
  run (peekN_loop n acc) (p ++ s) (rev acc ++ p, false) s.
Proof.
  induction n as [|n IH]; intros acc p s Hl Hp.
  - destruct p; [|discriminate]. cbn [peekN_loop app]. rewrite app_nil_r. apply run_ret.
  - destruct p as [|c p]; [discriminate|]. cbn [peekN_loop app]. inversion Hp as [|? ? Hc Hp']; subst.
    eapply run_bind; [apply run_read_cons|]. destruct (Z.eqb_spec c (-1)); [contradiction|].
    eapply run_eq; [apply (IH (c :: acc) p s)|f_equal|reflexivity]; auto.
    cbn [rev]. now rewrite <- app_assoc.
Qed.
(* a stream that ends (with the end-of-input mark or nothing) before n characters *)
Lemma run_peekN_loop_eof : forall n acc p s,
  (length p < n)%nat -> Forall (fun c => c <> -1) p -> shead s = -1 ->
  run (peekN_loop n acc) (p ++ s) (rev acc ++ p, true) (stail s).
Proof.
  induction n as [|n IH]; intros acc p s Hl Hp Hs; [lia|].
  destruct p as [|c p]; cbn [peekN_loop app].
  - eapply run_bind; [apply run_read|]. rewrite Hs. cbn. rewrite app_nil_r. apply run_ret.
  - inversion Hp as [|? ? Hc Hp']; subst.
    eapply run_bind; [apply run_read_cons|]. destruct (Z.eqb_spec c (-1)); [contradiction|].
    eapply run_eq; [apply (IH (c :: acc) p s)|f_equal|reflexivity]; auto; [cbn [length] in Hl; lia|].
    cbn [rev]. now rewrite <- app_assoc.
Qed.
Lemma run_peekN n p s :
  length p = n -> Forall (fun c => c <> -1) p -> run (t_peekN n) (p ++ s) (p, false) (p ++ s).
Proof.
  intros Hl Hp. unfold t_peekN. eapply run_bind; [apply (run_peekN_loop n [] p s Hl Hp)|].
  cbn [rev app]. eapply run_bind; [apply run_ret|]. eapply run_bind; [apply run_unread_all|].
  rewrite rev_involutive. apply run_ret.
Qed.
Lemma run_peekN_eof n p s :
  (length p < n)%nat -> Forall (fun c => c <> -1) p -> shead s = -1 ->
  run (t_peekN n) (p ++ s) (p, true) (p ++ -1 :: stail s).
Proof.
  intros Hl Hp Hs. unfold t_peekN. eapply run_bind; [apply (run_peekN_loop_eof n [] p s Hl Hp Hs)|].
  cbn [rev app]. eapply run_bind; [apply run_unread|]. eapply run_bind; [apply run_unread_all|].
  rewrite rev_involutive. apply run_ret.
Qed.
Lemma run_skipN : forall n p s,
  length p = n -> Forall (fun c => c <> -1) p -> run (t_skipN n) (p ++ s) tt s.
Proof.
  induction n as [|n IH]; intros p s Hl Hp.
  - destruct p; [|discriminate]. apply run_ret.
  - destruct p as [|c p]; [discriminate|]. cbn [t_skipN app]. inversion Hp as [|? ? Hc Hp']; subst.
    eapply run_bind; [apply run_read_cons|]. destruct (Z.eqb_spec c (-1)); [contradiction|].
    apply IH; auto.
Qed.

(* ---- the bridge from a concrete input ------------------------------------------------------------------ *)
Lemma abs_init inp : abs (t_init inp false) = (zs (norm inp), tokenError, false).
Proof. reflexivity. Qed.
Lemma stream_in t : t_buf t = [] -> stream t = zs (norm (t_in t)).
Proof. unfold stream. now intros ->. Qed.
(* a triple, applied to a state given by its fields *)
Lemma run_apply {A} (m : M A) s a s' t :
  run m s a s' -> t_ioerr t = false -> stream t = s ->
  exists t', m t = Ok (a, t') /\ t_ioerr t' = false /\ stream t' = s' /\
             t_token t' = t_token t /\ t_unfinished t' = t_unfinished t.
Proof.
  intros H Hi Hs. destruct (H (t_token t) (t_unfinished t) t Hi) as (t' & E & Hi' & Ha).
  - unfold abs. now rewrite Hs.
  - exists t'. unfold abs in Ha. injection Ha as H1 H2 H3. auto.
Qed.
