(* SpellIdent.v — C02, stage: unquoted identifiers and operator symbols at tokenizer level.

   [ident_chars w]: an identifier of the Ion text grammar: a letter, `_` or `$`, followed by any
   number of letters, digits, `_`, `$`.
   [op_chars w]: a non-empty run of the nineteen operator characters  ! # % & * + - . / ; < = > ? @ ^ ` | ~
   (an operator symbol inside an s-expression).
   Both are written from the grammar, independently of the tokenizer.

   Theorems: readSymbol / readOperator started on  w ++ s, where s begins with a character that
   cannot continue the run (or is at its end), answer exactly w and leave s (its head peeked).
   The specification's p_ident / p_operator cut the same text at the same place.

   FINDING, now repaired (operators).  The grammar (IonText.g4: comments are tokens of their own, longest
   match) ends an operator run in front of `//` and `/*`; SpecText.p_operator does so.  ion-go's
   readOperator did not look ahead: it took `+//` and `+/**/` as operator symbols (minimal inputs
   `(+//` LF `)` and `(+/**/)`).  With fix_operator_comment.diff readOperator / skipSymbolOperator stop in front
   of a comment opener, and the model follows ([read_operator_loop]); [operator_comment_agreement] below.
   [run_read_operator] is the spelling theorem, for runs that contain no `//` and no `/*`
   ([no_comment_start]; since what follows is not an operator character, the run cannot end in
   the `/` of a comment opener either), where grammar and code agree ([spec_operator_spelling]).

   Not covered here: keywords and typed nulls, `$n` symbol identifiers (the text is read by the
   same readSymbol, its interpretation is not part of this file), quoted symbols. *)
From Coq Require Import String List NArith ZArith Bool Lia ZifyBool ZifyN ZifyNat.
From IonV Require Import Base.Wire Base.Utf8 Text.Tokenizer Text.Skipper Text.SpellBase.
From IonV Require Text.SpecText.
Import ListNotations.
Open Scope Z_scope.
Ltac Zify.zify_post_hook ::= Z.div_mod_to_equations.

(* ---- the relations ------------------------------------------------------------------------------------ *)
Definition letter (c : N) : Prop := (65 <= c <= 90 \/ 97 <= c <= 122)%N.
Definition digit (c : N) : Prop := (48 <= c <= 57)%N.
Definition id_start (c : N) : Prop := letter c \/ c = 95%N \/ c = 36%N.       (* _ $ *)
Definition id_part (c : N) : Prop := id_start c \/ digit c.
Inductive ident_chars : list N -> Prop :=
| ident_intro c r : id_start c -> Forall id_part r -> ident_chars (c :: r).

Definition op_char (c : N) : Prop :=
  In c [33; 35; 37; 38; 42; 43; 45; 46; 47; 59; 60; 61; 62; 63; 64; 94; 96; 124; 126]%N.
Inductive op_chars : list N -> Prop :=
| op_intro c r : op_char c -> Forall op_char r -> op_chars (c :: r).
(* no `//` and no `/*` inside *)
Fixpoint no_comment_start (l : list N) : bool :=
  match l with
  | [] => true
  | c :: r => negb ((c =? 47)%N && match r with c2 :: _ => (c2 =? 47)%N || (c2 =? 42)%N | [] => false end)
              && no_comment_start r
  end.

Lemma ident_chars_parts w : ident_chars w -> Forall id_part w.
Proof. destruct 1 as [c r Hc Hr]. constructor; [left; exact Hc|exact Hr]. Qed.
Lemma op_chars_all w : op_chars w -> Forall op_char w.
Proof. destruct 1 as [c r Hc Hr]. constructor; assumption. Qed.

Lemma id_part_model c : id_part c -> is_identifier_part (Z.of_N c) = true /\ (c < 256)%N /\ c <> 13%N.
Proof. unfold id_part, id_start, letter, digit, is_identifier_part, is_identifier_start, is_digit. lia. Qed.
Lemma id_start_model c : id_start c -> is_identifier_start (Z.of_N c) = true.
Proof. unfold id_start, letter, is_identifier_start. lia. Qed.
Lemma op_char_model c : op_char c -> is_operator_char (Z.of_N c) = true /\ (c < 256)%N /\ c <> 13%N.
Proof.
  unfold op_char. cbn [In]. intros H.
  repeat (destruct H as [<-|H]; [repeat split; (reflexivity || discriminate)|]). contradiction.
Qed.

(* ---- readWhile ------------------------------------------------------------------------------------------ *)
Lemma byte_of_N c : (c < 256)%N -> byte_of (Z.of_N c) = c.
Proof. intros H. unfold byte_of. lia. Qed.

Lemma run_read_while (p : Z -> bool) : forall w f acc s,
  Forall (fun c => p (Z.of_N c) = true /\ (c < 256)%N) w -> p (shead s) = false -> (length w < f)%nat ->
  run (read_while f p acc) (zs w ++ s) (rev acc ++ w) (spush s).
Proof.
  induction w as [|c w IH]; intros f acc s Hw Hs Hf; (destruct f as [|f]; [lia|]); cbn [read_while zs map app].
  - eapply run_bind; [apply run_peek|]. rewrite Hs, app_nil_r. apply run_ret.
  - inversion Hw as [|? ? [Hc Hc256] Hw']; subst.
    eapply run_bind; [apply run_peek_cons|]. rewrite Hc.
    eapply run_bind; [apply run_read_cons|]. rewrite (byte_of_N c Hc256).
    eapply run_eq; [apply (IH f (c :: acc) s Hw' Hs); cbn [length] in Hf; lia| |reflexivity].
    cbn [rev]. now rewrite <- app_assoc.
Qed.
Lemma run_with_read_while (p : Z -> bool) w s :
  Forall (fun c => p (Z.of_N c) = true /\ (c < 256)%N) w -> p (shead s) = false ->
  run (with_fuel (fun f => read_while f p [])) (zs w ++ s) w (spush s).
Proof.
  intros Hw Hs. apply run_with_fuel. intros f Hf. rewrite nne_app, nne_zs in Hf.
  apply (run_read_while p w f [] s Hw Hs). lia.
Qed.

Lemma runK_finish_val s k u : runK finish (s, k, u) tt (s, k, false).
Proof.
  intros t Hi Ha. unfold abs in Ha. injection Ha as Hs Hk Hu. exists (set_unfinished t false).
  unfold finish. repeat split; auto. unfold abs, stream in *.
  cbn [set_unfinished set_tok t_buf t_in t_token t_unfinished]. now rewrite Hs, Hk.
Qed.

(* ---- identifiers ---------------------------------------------------------------------------------------------- *)
Theorem run_read_symbol w s :
  ident_chars w -> is_identifier_part (shead s) = false ->
  run read_symbol (zs w ++ s) w (spush s).
Proof.
  intros Hw Hs. unfold read_symbol. apply run_with_read_while; [|exact Hs].
  eapply Forall_impl; [|apply ident_chars_parts; exact Hw]. intros c Hc.
  destruct (id_part_model c Hc) as (H1 & H2 & _). auto.
Qed.
(* the first character is what makes Next announce a symbol token *)
Lemma ident_chars_start w s : ident_chars w -> is_identifier_start (shead (zs w ++ s)) = true.
Proof. destruct 1 as [c r Hc Hr]. cbn [zs map app shead]. apply id_start_model. exact Hc. Qed.
(* ReadValue on a symbol token *)
Theorem run_read_value_symbol w s k u :
  ident_chars w -> is_identifier_part (shead s) = false ->
  runK (t_read_value tokenSymbol) (zs w ++ s, k, u) w (spush s, k, false).
Proof.
  intros Hw Hs. unfold t_read_value. change ((tokenSymbol =? tokenSymbol)%N) with true. cbv iota.
  eapply runK_bind; [apply run_runK, run_read_symbol; assumption|].
  eapply runK_bind; [apply runK_finish_val|apply runK_ret].
Qed.

(* ---- operators ---------------------------------------------------------------------------------------------------- *)
(* the loop of readOperator on a run without comment openers: the look-ahead at a slash finds no comment *)
Lemma slash_not_op_follow c : is_operator_char c = false -> (c =? c_slash) || (c =? c_star) = false.
Proof.
  intros H. destruct (Z.eqb_spec c c_slash) as [->|]; [discriminate H|]. destruct (Z.eqb_spec c c_star) as [->|]; [discriminate H|reflexivity].
Qed.
Lemma run_read_operator_loop : forall w f acc s,
  Forall op_char w -> no_comment_start w = true -> is_operator_char (shead s) = false -> (length w < f)%nat ->
  run (read_operator_loop f acc) (zs w ++ s) (rev acc ++ w) (spush s).
Proof.
  induction w as [|c w IH]; intros f acc s Hw Hn Hs Hf; (destruct f as [|f]; [lia|]); cbn [read_operator_loop zs map app].
  - eapply run_bind; [apply run_peek|]. rewrite Hs, app_nil_r. apply run_ret.
  - inversion Hw as [|? ? Hc Hw']; subst. destruct (op_char_model c Hc) as (Hoc & Hc256 & _).
    cbn [no_comment_start] in Hn. apply andb_true_iff in Hn as [Hn1 Hn2]. apply negb_true_iff in Hn1.
    eapply run_bind; [apply run_peek_cons|]. rewrite Hoc.
    assert (Hgo : forall st, run (read_operator_loop f (c :: acc)) st (rev acc ++ c :: w) (spush s) ->
                             run (tdo _ <- t_read; read_operator_loop f (byte_of (Z.of_N c) :: acc)) (Z.of_N c :: st)
                                 (rev acc ++ c :: w) (spush s)).
    { intros st H. rewrite (byte_of_N c Hc256). eapply run_bind; [apply run_read_cons|]. exact H. }
    assert (Hrec : run (read_operator_loop f (c :: acc)) (zs w ++ s) (rev acc ++ c :: w) (spush s)).
    { eapply run_eq; [apply (IH f (c :: acc) s Hw' Hn2 Hs); cbn [length] in Hf; lia| |reflexivity].
      cbn [rev]. now rewrite <- app_assoc. }
    destruct (Z.eqb_spec (Z.of_N c) c_slash) as [E|E].
    + (* a slash: the two characters ahead *)
      assert (c = 47%N) by (unfold c_slash in E; lia). subst c. change ((47 =? 47)%N) with true in Hn1. cbn [andb] in Hn1.
      destruct w as [|d w'].
      * (* the slash is the last character of the run: what follows is not an operator character *)
        cbn [zs map app] in *.
        destruct s as [|a r].
        -- eapply run_bind.
           { eapply run_bind; [apply (run_peekN_eof 2 [47] []); [cbn; lia|repeat constructor; discriminate|reflexivity]|].
             cbv beta iota. apply run_ret. }
           cbn [length Nat.eqb andb app stail]. cbv iota.
           eapply run_bind; [apply run_read_cons|]. rewrite (byte_of_N 47) by lia.
           destruct f as [|f]; [cbn [length] in Hf; lia|]. cbn [read_operator_loop].
           eapply run_bind; [apply run_peek_cons|]. change (is_operator_char (-1)) with false. cbv iota.
           cbn [rev]. apply run_ret.
        -- cbn [shead] in Hs. destruct (Z.eqb_spec a (-1)) as [->|Ha].
           ++ eapply run_bind.
              { eapply run_bind; [apply (run_peekN_eof 2 [47] (-1 :: r)); [cbn; lia|repeat constructor; discriminate|reflexivity]|].
                cbv beta iota. apply run_ret. }
              cbn [length Nat.eqb andb app stail]. cbv iota.
              apply (Hgo (-1 :: r)). exact Hrec.
           ++ eapply run_bind.
              { eapply run_bind; [apply (run_peekN 2 [47; a] r); [reflexivity|repeat constructor; [discriminate|exact Ha]]|].
                cbv beta iota. apply run_ret. }
              cbn [length Nat.eqb andb znth nth]. rewrite (slash_not_op_follow a Hs). cbv iota.
              apply (Hgo (a :: r)). exact Hrec.
      * inversion Hw' as [|? ? Hd _]; subst. destruct (op_char_model d Hd) as (_ & Hd256 & _).
        cbn [zs map app] in *.
        eapply run_bind.
        { eapply run_bind; [apply (run_peekN 2 [47; Z.of_N d] (zs w' ++ s)); [reflexivity|repeat constructor; lia]|].
          cbv beta iota. apply run_ret. }
        cbn [length Nat.eqb andb znth nth].
        replace ((Z.of_N d =? c_slash) || (Z.of_N d =? c_star)) with false by (unfold c_slash, c_star; lia). cbv iota.
        apply (Hgo (Z.of_N d :: zs w' ++ s)). exact Hrec.
    + eapply run_bind; [apply run_ret|]. cbv iota. apply (Hgo (zs w ++ s)). exact Hrec.
Qed.
(* the spelling theorem: an operator symbol of the grammar *)
Theorem run_read_operator w s :
  op_chars w -> no_comment_start w = true -> is_operator_char (shead s) = false ->
  run read_operator (zs w ++ s) w (spush s).
Proof.
  intros Hw Hn Hs. unfold read_operator. apply run_with_fuel. intros f Hf.
  rewrite nne_app, nne_zs in Hf.
  eapply run_eq; [apply (run_read_operator_loop w f [] s (op_chars_all _ Hw) Hn Hs); lia|reflexivity|reflexivity].
Qed.
Theorem run_read_value_operator w s k u :
  op_chars w -> no_comment_start w = true -> is_operator_char (shead s) = false ->
  runK (t_read_value tokenSymbolOperator) (zs w ++ s, k, u) w (spush s, k, false).
Proof.
  intros Hw Hn Hs. unfold t_read_value.
  change ((tokenSymbolOperator =? tokenSymbol)%N) with false.
  change ((tokenSymbolOperator =? tokenSymbolQuoted)%N) with false.
  change ((tokenSymbolOperator =? tokenSymbolOperator)%N) with true. cbn [orb]. cbv iota.
  eapply runK_bind; [apply run_runK, run_read_operator; assumption|].
  eapply runK_bind; [apply runK_finish_val|apply runK_ret].
Qed.

(* ---- on a concrete input ---------------------------------------------------------------------------------------------- *)
Lemma parts_no_cr w : Forall id_part w -> no_cr w.
Proof. intros H. eapply Forall_impl; [|exact H]. intros c Hc. apply (id_part_model c Hc). Qed.
Lemma ops_no_cr w : Forall op_char w -> no_cr w.
Proof. intros H. eapply Forall_impl; [|exact H]. intros c Hc. apply (op_char_model c Hc). Qed.

(* [pre] has been pushed back by Next (it is the first character of w, or nothing) *)
Theorem read_symbol_spelling pre w' w rest t :
  ident_chars w -> w = pre ++ w' -> is_identifier_part (shead (zs (norm rest))) = false ->
  t_ioerr t = false -> t_buf t = zs pre -> t_in t = w' ++ rest ->
  exists t', read_symbol t = Ok (w, t') /\
             stream t' = spush (zs (norm rest)) /\ t_ioerr t' = false /\
             t_token t' = t_token t /\ t_unfinished t' = t_unfinished t.
Proof.
  intros Hw Hpre Hs Hi Hb Hin.
  destruct (run_apply _ _ _ _ t (run_read_symbol w (zs (norm rest)) Hw Hs) Hi) as (t' & E & Hi' & Hs' & Hk & Hu).
  - unfold stream. rewrite Hb, Hin, Hpre. pose proof (parts_no_cr _ (ident_chars_parts _ Hw)) as Hcr.
    rewrite Hpre in Hcr. apply no_cr_app in Hcr as [_ Hcr].
    rewrite (norm_app_nocr w' rest Hcr), !zs_app, app_assoc. reflexivity.
  - exists t'. auto.
Qed.
Theorem read_operator_spelling pre w' w rest t :
  op_chars w -> no_comment_start w = true -> w = pre ++ w' ->
  is_operator_char (shead (zs (norm rest))) = false ->
  t_ioerr t = false -> t_buf t = zs pre -> t_in t = w' ++ rest ->
  exists t', read_operator t = Ok (w, t') /\
             stream t' = spush (zs (norm rest)) /\ t_ioerr t' = false /\
             t_token t' = t_token t /\ t_unfinished t' = t_unfinished t.
Proof.
  intros Hw Hn Hpre Hs Hi Hb Hin.
  destruct (run_apply _ _ _ _ t (run_read_operator w (zs (norm rest)) Hw Hn Hs) Hi) as (t' & E & Hi' & Hs' & Hk & Hu).
  - unfold stream. rewrite Hb, Hin, Hpre. pose proof (ops_no_cr _ (op_chars_all _ Hw)) as Hcr.
    rewrite Hpre in Hcr. apply no_cr_app in Hcr as [_ Hcr].
    rewrite (norm_app_nocr w' rest Hcr), !zs_app, app_assoc. reflexivity.
  - exists t'. auto.
Qed.

(* ---- the specification cuts the same text ------------------------------------------------------------------------------ *)
(* what may follow, as the specification sees it: the end of the input or a byte outside the class *)
Definition spec_stop (cls : N -> bool) (rest : list N) : Prop :=
  match rest with [] => True | c :: _ => cls c = false end.

Lemma id_part_spec c : id_part c -> SpecText.is_id_part c = true.
Proof.
  unfold id_part, id_start, letter, digit, SpecText.is_id_part, SpecText.is_id_start, SpecText.is_digit, SpecText.in_rng.
  lia.
Qed.
Lemma spec_ident_acc : forall w acc rest,
  Forall id_part w -> spec_stop SpecText.is_id_part rest ->
  SpecText.p_ident_acc (w ++ rest) acc = (rev acc ++ w, rest).
Proof.
  induction w as [|c w IH]; intros acc rest Hw Hs; cbn [app].
  - rewrite app_nil_r. destruct rest as [|c r]; [reflexivity|]. cbn [SpecText.p_ident_acc]. cbn [spec_stop] in Hs.
    now rewrite Hs.
  - inversion Hw as [|? ? Hc Hw']; subst. cbn [SpecText.p_ident_acc]. rewrite (id_part_spec c Hc).
    rewrite (IH (c :: acc) rest Hw' Hs). cbn [rev]. now rewrite <- app_assoc.
Qed.
Theorem spec_ident_spelling w rest :
  ident_chars w -> spec_stop SpecText.is_id_part rest -> SpecText.p_ident (w ++ rest) = (w, rest).
Proof. intros Hw Hs. unfold SpecText.p_ident. apply (spec_ident_acc w [] rest (ident_chars_parts _ Hw) Hs). Qed.

Lemma op_char_spec c : op_char c -> SpecText.is_op c = true.
Proof.
  unfold op_char. cbn [In]. intros H.
  repeat (destruct H as [<-|H]; [reflexivity|]). contradiction.
Qed.
Lemma starts_comment_eq l :
  SpecText.starts_comment l =
  match l with c :: c2 :: _ => ((c =? 47) && ((c2 =? 47) || (c2 =? 42)))%N | _ => false end.
Proof.
  destruct l as [|c [|c2 r]]; [reflexivity| |].
  - destruct c as [|p]; [reflexivity|]. repeat (destruct p as [p|p|]; try reflexivity).
  - destruct c as [|p]; [reflexivity|]. repeat (destruct p as [p|p|]; try reflexivity).
Qed.
Lemma spec_operator_acc : forall w acc rest,
  Forall op_char w -> no_comment_start w = true -> spec_stop SpecText.is_op rest ->
  SpecText.p_operator (w ++ rest) acc = (rev acc ++ w, rest).
Proof.
  induction w as [|c w IH]; intros acc rest Hw Hn Hs; cbn [app].
  - rewrite app_nil_r. destruct rest as [|c r]; [reflexivity|]. cbn [SpecText.p_operator]. cbn [spec_stop] in Hs.
    now rewrite Hs.
  - inversion Hw as [|? ? Hc Hw']; subst. cbn [SpecText.p_operator]. rewrite (op_char_spec c Hc).
    cbn [no_comment_start] in Hn. apply andb_true_iff in Hn as [Hn1 Hn2].
    assert (Hsc : SpecText.starts_comment (c :: w ++ rest) = false).
    { rewrite starts_comment_eq. destruct w as [|c2 w2]; cbn [app].
      - destruct rest as [|c2 r]; [reflexivity|]. cbn [spec_stop] in Hs.
        destruct (N.eqb_spec c2 47) as [->|]; [discriminate Hs|]. destruct (N.eqb_spec c2 42) as [->|]; [discriminate Hs|].
        cbn [orb]. apply andb_false_r.
      - apply negb_true_iff in Hn1. exact Hn1. }
    rewrite Hsc. cbn [negb andb].
    rewrite (IH (c :: acc) rest Hw' Hn2 Hs). cbn [rev]. now rewrite <- app_assoc.
Qed.
Theorem spec_operator_spelling w rest :
  op_chars w -> no_comment_start w = true -> spec_stop SpecText.is_op rest ->
  SpecText.p_operator (w ++ rest) [] = (w, rest).
Proof. intros Hw Hn Hs. apply (spec_operator_acc w [] rest (op_chars_all _ Hw) Hn Hs). Qed.

(* ---- examples ------------------------------------------------------------------------------------------------------------ *)
Ltac parts_auto :=
  repeat (constructor; [unfold id_part, id_start, letter, digit, op_char; cbn [In]; lia|]); try constructor.

(* the hypotheses are satisfiable: every class of identifier character, all nineteen operator characters *)
Example ident_example_ok : ident_chars (s "$ion_Symbol_table_9Z").
Proof. cbn. constructor; [unfold id_start, letter; lia|]. parts_auto. Qed.
Example op_example_ok :
  op_chars (s "!#%&*+-./;<=>?@^`|~") /\ no_comment_start (s "!#%&*+-./;<=>?@^`|~") = true.
Proof. split; [|reflexivity]. cbn. constructor; [unfold op_char; cbn [In]; lia|]. parts_auto. Qed.

(* the theorems applied: the tokenizer on  $ion_Symbol_table_9Z::x  and on  <all operators>a)  *)
Example read_symbol_example :
  exists t', read_symbol (t_init (s "$ion_Symbol_table_9Z::x") false) = Ok (s "$ion_Symbol_table_9Z", t') /\
             stream t' = zs (s "::x").
Proof.
  destruct (read_symbol_spelling [] _ _ (s "::x") (t_init (s "$ion_Symbol_table_9Z::x") false)
              ident_example_ok eq_refl eq_refl eq_refl eq_refl eq_refl) as (t' & H1 & H2 & _).
  exists t'. split; [exact H1|exact H2].
Qed.
Example read_operator_example :
  exists t', read_operator (t_init (s "!#%&*+-./;<=>?@^`|~a)") false) = Ok (s "!#%&*+-./;<=>?@^`|~", t') /\
             stream t' = zs (s "a)").
Proof.
  destruct (read_operator_spelling [] _ _ (s "a)") (t_init (s "!#%&*+-./;<=>?@^`|~a)") false)
              (proj1 op_example_ok) (proj2 op_example_ok) eq_refl eq_refl eq_refl eq_refl eq_refl) as (t' & H1 & H2 & _).
  exists t'. split; [exact H1|exact H2].
Qed.
(* the same after Next has pushed the first character back *)
Example read_symbol_example_pushed :
  let t := {| t_in := s "bc_1 d"; t_ioerr := false; t_buf := [97]; t_token := tokenSymbol; t_unfinished := true |} in
  exists t', read_symbol t = Ok (s "abc_1", t') /\ stream t' = zs (s " d") /\ t_unfinished t' = true.
Proof.
  intros t.
  assert (Hw : ident_chars (s "abc_1")) by (cbn; constructor; [unfold id_start, letter; lia|]; parts_auto).
  destruct (read_symbol_spelling (s "a") (s "bc_1") _ (s " d") t Hw eq_refl eq_refl eq_refl eq_refl eq_refl)
    as (t' & H1 & H2 & _ & _ & H5).
  exists t'. auto.
Qed.

(* vm_compute cross-checks: the model's reader and the specification's cut the input alike *)
Definition model_word (rd : M (list N)) (inp : list N) : option (list N * list Z) :=
  match rd (t_init inp false) with Ok (w, t') => Some (w, stream t') | _ => None end.
(* [rest] without CR; at the end of the input the model has pushed the end mark back *)
Definition same_cut (m : option (list N * list Z)) (sp : list N * list N) : bool :=
  match m with
  | Some (w, st) => list_eqb w (fst sp) &&
                    match snd sp with
                    | [] => match st with [-1] => true | _ => false end
                    | r => if list_eq_dec Z.eq_dec st (zs r) then true else false
                    end
  | None => false
  end.
Definition ident_agree (inp : list N) : bool := same_cut (model_word read_symbol inp) (SpecText.p_ident inp).
Definition op_agree (inp : list N) : bool := same_cut (model_word read_operator inp) (SpecText.p_operator inp []).
Example ident_x1 : ident_agree (s "abc") = true /\ ident_agree (s "$ion_1_0 x") = true /\ ident_agree (s "_a9$Z::x") = true
                   /\ ident_agree (s "a.b") = true /\ ident_agree (s "x//c") = true /\ ident_agree (s "nan+1") = true
                   /\ ident_agree (s "k{") = true /\ ident_agree (s "a'b'") = true.
Proof. vm_compute. auto 10. Qed.
Example op_x1 : op_agree (s "+") = true /\ op_agree (s "+-*/ 1") = true /\ op_agree (s "<=>)") = true
                /\ op_agree (s "./;a") = true /\ op_agree (s "...") = true /\ op_agree (s "*/ /") = true
                /\ op_agree (s "/ /") = true /\ op_agree (s "&&'a'") = true.
Proof. vm_compute. auto 10. Qed.

(* THE FORMER DISCREPANCY: an operator run in front of a comment.  The specification ends the operator before
   `//` and `/*`; ion-go's readOperator used to swallow the comment opener into the symbol.  With the repair
   (fix_operator_comment.diff) model and specification agree. *)
Example operator_comment_agreement :
  model_word read_operator (s "+//c" ++ [10]%N ++ s ")") = Some (s "+", zs (s "//c" ++ [10]%N ++ s ")")) /\
  SpecText.p_operator (s "+//c" ++ [10]%N ++ s ")") [] = (s "+", s "//c" ++ [10]%N ++ s ")") /\
  model_word read_operator (s "+/**/b)") = Some (s "+", zs (s "/**/b)")) /\
  SpecText.p_operator (s "+/**/b)") [] = (s "+", s "/**/b)").
Proof. vm_compute. auto. Qed.
From IonV Require Data.Ion Text.TextReader Text.TextNum.
Example operator_comment_agreement_reader :
  let trav i := TextReader.x_traverse TextNum.parse_decimal_text TextNum.parse_ts_text i false in
  let plus := Some [Ion.VSexp [Ion.VSymbol (Ion.SymText (s "+"))]] in
  trav (s "(+//" ++ [10]%N ++ s ")") = trav (s "('+')") /\
  SpecText.tdecode (s "(+//" ++ [10]%N ++ s ")") = plus /\
  trav (s "(+/**/)") = trav (s "('+')") /\
  SpecText.tdecode (s "(+/**/)") = plus.
Proof. vm_compute. repeat split. Qed.
