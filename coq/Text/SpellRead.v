(* SpellRead.v — C02, stage 8: a Hoare logic for the text READER model (Text/TextReader.v) over the
   abstraction of SpellBase, and the generic facts about Next that every value class uses.

   [ax]: what is observable of a reader state: the tokenizer's stream, token and unfinished flag,
   and the reader's own fields.  [rrun m X a X']: from every reader state (no I/O failure) with
   abstraction X the reader operation m answers Ok a in a state with abstraction X'. *)
From Coq Require Import String List NArith ZArith Bool Lia ZifyBool ZifyN ZifyNat.
From IonV Require Import Base.Wire Base.Utf8 Data.Ion Bin.Bits Bin.BitStream Bin.BinReader Text.Tokenizer Text.Skipper
  Text.TextReader Text.TextNum Text.SpellBase Text.SpellWs Text.SpellNum Text.SpellTok.
Import ListNotations.
Open Scope Z_scope.

Record ax := mkax {
  a_s : list Z; a_k : N; a_u : bool;
  a_state : N; a_ctx : list ctype; a_eof : bool; a_err : bool; a_lst : rlst;
  a_field : option tok; a_annots : list tok; a_type : N; a_value : xvalue }.
Definition xabs (x : xstate) : ax :=
  mkax (stream (x_tok x)) (t_token (x_tok x)) (t_unfinished (x_tok x))
       (x_state x) (x_ctx x) (x_eof x) (x_err x) (x_lst x) (x_field x) (x_annots x) (x_type x) (x_value x).
Definition xok (x : xstate) : Prop := t_ioerr (x_tok x) = false.
Definition ax_tok (X : ax) (s : list Z) (k : N) (u : bool) : ax :=
  mkax s k u (a_state X) (a_ctx X) (a_eof X) (a_err X) (a_lst X) (a_field X) (a_annots X) (a_type X) (a_value X).

Definition rrun {A} (m : R A) (X : ax) (a : A) (X' : ax) : Prop :=
  forall x, xok x -> xabs x = X -> exists x', m x = (x', Ok a) /\ xok x' /\ xabs x' = X'.

Lemma rrun_ret {A} (a : A) X : rrun (rret a) X a X.
Proof. intros x Hi Ha. exists x. auto. Qed.
Lemma rrun_bind {A B} (m : R A) (f : A -> R B) X a X1 b X2 :
  rrun m X a X1 -> rrun (f a) X1 b X2 -> rrun (rbind m f) X b X2.
Proof.
  intros H1 H2 x Hi Ha. destruct (H1 x Hi Ha) as (x1 & E1 & Hi1 & Ha1).
  destruct (H2 x1 Hi1 Ha1) as (x2 & E2 & Hi2 & Ha2). exists x2. unfold rbind. rewrite E1. auto.
Qed.
Lemma rrun_eq {A} (m : R A) X a X' a' X'' : rrun m X a X' -> a = a' -> X' = X'' -> rrun m X a' X''.
Proof. intros H <- <-. exact H. Qed.
Lemma rrun_lift {A} (m : M A) X a s' k' u' :
  runK m (a_s X, a_k X, a_u X) a (s', k', u') -> rrun (lift m) X a (ax_tok X s' k' u').
Proof.
  intros H x Hi Ha. unfold lift. destruct (H (x_tok x) Hi) as (t' & E & Hi' & Ha').
  - rewrite <- Ha. reflexivity.
  - rewrite E. exists (xs_tok x t'). split; [reflexivity|]. split; [exact Hi'|].
    unfold xabs, ax_tok. cbn [x_tok xs_tok x_state x_ctx x_eof x_err x_lst x_field x_annots x_type x_value].
    unfold abs in Ha'. injection Ha' as -> -> ->. rewrite <- Ha. reflexivity.
Qed.
Lemma rrun_lift_run {A} (m : M A) X a s' :
  run m (a_s X) a s' -> rrun (lift m) X a (ax_tok X s' (a_k X) (a_u X)).
Proof. intros H. apply rrun_lift. apply H. Qed.
Lemma rrun_rget_bind {A} (f : xstate -> R A) X a X' :
  (forall x, xok x -> xabs x = X -> rrun (f x) X a X') -> rrun (rbind rget f) X a X'.
Proof. intros H x Hi Ha. unfold rbind, rget. exact (H x Hi Ha x Hi Ha). Qed.
Lemma rrun_rmod (f : xstate -> xstate) X X' :
  (forall x, xabs x = X -> xabs (f x) = X' /\ t_ioerr (x_tok (f x)) = t_ioerr (x_tok x)) ->
  rrun (rmod f) X tt X'.
Proof.
  intros H x Hi Ha. destruct (H x Ha) as [H1 H2]. exists (f x). split; [reflexivity|]. split; [|exact H1].
  unfold xok in *. congruence.
Qed.
Lemma rrun_of_res {A} (r : res A) a X : r = Ok a -> rrun (of_res r) X a X.
Proof. intros -> x Hi Ha. exists x. auto. Qed.
Lemma rrun_apply {A} (m : R A) X a X' x :
  rrun m X a X' -> xok x -> xabs x = X -> exists x', m x = (x', Ok a) /\ xok x' /\ xabs x' = X'.
Proof. intros H. apply H. Qed.

(* the fields of an abstraction equation *)
Lemma xabs_fields x X : xabs x = X ->
  stream (x_tok x) = a_s X /\ t_token (x_tok x) = a_k X /\ t_unfinished (x_tok x) = a_u X /\
  x_state x = a_state X /\ x_ctx x = a_ctx X /\ x_eof x = a_eof X /\ x_err x = a_err X /\ x_lst x = a_lst X /\
  x_field x = a_field X /\ x_annots x = a_annots X /\ x_type x = a_type X /\ x_value x = a_value X.
Proof. intros <-. repeat split. Qed.
Ltac xfields H :=
  let F := fresh "F" in
  pose proof (xabs_fields _ _ H) as F; cbn [a_s a_k a_u a_state a_ctx a_eof a_err a_lst a_field a_annots a_type a_value ax_tok] in F;
  destruct F as (?Fs & ?Fk & ?Fu & ?Fst & ?Fctx & ?Feof & ?Ferr & ?Flst & ?Ffield & ?Fannots & ?Ftype & ?Fvalue).
(* prove  xabs (setters x) = mkax ...  from the fields of x *)
Ltac xabs_solve :=
  unfold xabs, x_clear, x_explode;
  cbn [x_tok x_state x_ctx x_eof x_err x_lst x_field x_annots x_type x_value
       xs_tok xs_state xs_ctx xs_eof xs_lst xs_field xs_annots xs_val
       a_s a_k a_u a_state a_ctx a_eof a_err a_lst a_field a_annots a_type a_value ax_tok];
  repeat match goal with H : _ = _ |- _ => rewrite H end; reflexivity.

(* setValue *)
Definition after_value_state (ctx : list ctype) : N :=
  match ctx with CList :: _ | CStruct :: _ => trsAfterValue | _ => trsBeforeTypeAnnotations end.
Lemma rrun_set_value ty v s k u st ctx eof err lst fld ann ty0 v0 :
  rrun (set_value ty v) (mkax s k u st ctx eof err lst fld ann ty0 v0) tt
       (mkax s k u (after_value_state ctx) ctx eof err lst fld ann ty v).
Proof.
  unfold set_value. apply rrun_rmod. intros x Ha. xfields Ha. split; [|reflexivity].
  unfold xabs, state_after_value, after_value_state.
  cbn [x_tok x_state x_ctx x_eof x_err x_lst x_field x_annots x_type x_value xs_val xs_state].
  rewrite Fs, Fk, Fu, Fctx, Feof, Ferr, Flst, Ffield, Fannots. reflexivity.
Qed.

(* ---- one round of the loop of Next ---------------------------------------------------------------------------- *)
Section Loop.
Variable pd : list N -> res dec.
Variable pt : list N -> res (list N).
Variable api : xstate -> xstate * res bool.

Lemma next_loop_bta k fuel x x1 x2 b :
  lift t_next x = (x1, Ok tt) -> x_state x1 = trsBeforeTypeAnnotations ->
  next_before_type_annotations pd pt api fuel x1 = (x2, Ok b) ->
  x_next_loop pd pt api (S k) fuel x =
    if b then (x2, Ok (negb (x_eof x2))) else x_next_loop pd pt api k fuel x2.
Proof.
  intros E1 Hst E2. cbn [x_next_loop]. rewrite E1, Hst.
  change (trsBeforeTypeAnnotations =? trsAfterValue)%N with false.
  change (trsBeforeTypeAnnotations =? trsBeforeFieldName)%N with false.
  change (trsBeforeTypeAnnotations =? trsBeforeTypeAnnotations)%N with true. cbv iota.
  rewrite E2. destruct b; reflexivity.
Qed.
Lemma next_loop_after_value k fuel x x1 x2 b :
  lift t_next x = (x1, Ok tt) -> x_state x1 = trsAfterValue ->
  next_after_value x1 = (x2, Ok b) ->
  x_next_loop pd pt api (S k) fuel x =
    if b then (x2, Ok (negb (x_eof x2))) else x_next_loop pd pt api k fuel x2.
Proof.
  intros E1 Hst E2. cbn [x_next_loop]. rewrite E1, Hst.
  change (trsAfterValue =? trsAfterValue)%N with true. cbv iota.
  rewrite E2. destruct b; reflexivity.
Qed.
Lemma next_loop_field_name k fuel x x1 x2 b :
  lift t_next x = (x1, Ok tt) -> x_state x1 = trsBeforeFieldName ->
  next_before_field_name x1 = (x2, Ok b) ->
  x_next_loop pd pt api (S k) fuel x =
    if b then (x2, Ok (negb (x_eof x2))) else x_next_loop pd pt api k fuel x2.
Proof.
  intros E1 Hst E2. cbn [x_next_loop]. rewrite E1, Hst.
  change (trsBeforeFieldName =? trsAfterValue)%N with false.
  change (trsBeforeFieldName =? trsBeforeFieldName)%N with true. cbv iota.
  rewrite E2. destruct b; reflexivity.
Qed.
End Loop.

(* ---- reducing the token tests of the state handlers ---------------------------------------------------------------- *)
Ltac tok_cbn :=
  cbn [N.eqb Pos.eqb orb andb negb tokenError tokenEOF tokenNumber tokenBinary tokenHex tokenFloatInf tokenFloatMinusInf
       tokenTimestamp tokenSymbol tokenSymbolQuoted tokenSymbolOperator tokenString tokenLongString tokenDot tokenComma
       tokenColon tokenDoubleColon tokenOpenParen tokenCloseParen tokenOpenBrace tokenCloseBrace tokenOpenBracket
       tokenCloseBracket tokenOpenDoubleBrace tokenCloseDoubleBrace].

Section Values.
Variable pd : list N -> res dec.
Variable pt : list N -> res (list N).
Variable api : xstate -> xstate * res bool.
Notation nbta := (next_before_type_annotations pd pt api).

(* nextBeforeTypeAnnotations on a token that starts a plain value: the handler of the token runs *)
Definition plain_token (k : N) : bool :=
  ((k =? tokenString) || (k =? tokenLongString) || (k =? tokenBinary) || (k =? tokenHex) || (k =? tokenNumber)
   || (k =? tokenFloatInf) || (k =? tokenFloatMinusInf) || (k =? tokenTimestamp) || (k =? tokenOpenDoubleBrace))%N.
Definition plain_handler (k : N) : R bool :=
  if ((k =? tokenString) || (k =? tokenLongString))%N then
    rdo v <- lift (t_read_value k); rdo _ <- set_value TString (XString v); rret true
  else if ((k =? tokenBinary) || (k =? tokenHex) || (k =? tokenNumber) || (k =? tokenFloatInf) || (k =? tokenFloatMinusInf))%N then
    rdo _ <- on_number pd k; rret true
  else if (k =? tokenTimestamp)%N then rdo _ <- on_timestamp pt; rret true
  else rdo _ <- on_lob; rret true.
Lemma nbta_plain fuel x :
  plain_token (t_token (x_tok x)) = true -> nbta fuel x = plain_handler (t_token (x_tok x)) x.
Proof.
  intros H. unfold next_before_type_annotations, plain_handler. unfold rbind at 1. unfold rget. cbv zeta.
  set (k := t_token (x_tok x)) in *. unfold plain_token in H.
  repeat (apply orb_true_iff in H; destruct H as [H|H]); apply N.eqb_eq in H; rewrite H; tok_cbn;
    rewrite ?andb_false_r; reflexivity.
Qed.

(* ---- numbers --------------------------------------------------------------------------------------------------------- *)
(* the value a decimal-radix literal is given *)
Definition num_value (n : numsp) : option (N * xvalue) :=
  match num_kind n with
  | NKInt => Some (TInt, XInt (mk_int (sgn (n_neg n) (digits_value 10 (n_ip n)))))
  | NKFloat => Some (TFloat, XFloatText (num_plain n))
  | NKDecimal => match pd (num_plain n) with Ok d => Some (TDecimal, XDecimal d) | _ => None end
  end.

Lemma rrun_plain_number n s ty v st ctx eof err lst fld ann ty0 v0 :
  num_wf n -> terminated s = true -> num_value n = Some (ty, v) ->
  rrun (plain_handler tokenNumber)
       (mkax (zs (num_text n) ++ s) tokenNumber true st ctx eof err lst fld ann ty0 v0) true
       (mkax (unterm s) tokenNumber true (after_value_state ctx) ctx eof err lst fld ann ty v).
Proof.
  intros Hwf Hs Hv. unfold plain_handler. tok_cbn. unfold on_number. tok_cbn.
  eapply rrun_bind; [|apply rrun_ret].
  eapply rrun_bind; [apply rrun_lift_run; cbn [a_s]; apply (run_read_number n s Hwf Hs)|].
  cbv beta iota. unfold ax_tok. cbn [a_s a_k a_u a_state a_ctx a_eof a_err a_lst a_field a_annots a_type a_value].
  unfold num_value in Hv. destruct (num_kind n) eqn:Hk.
  - injection Hv as <- <-. destruct Hwf as (Hi & _).
    assert (Hp : num_plain n = sign_bytes (n_neg n) ++ n_ip n).
    { unfold num_plain. unfold num_kind in Hk. destruct (n_exp n) as [[[m sg] ed]|]; [destruct ((m =? 101) || (m =? 69))%N; discriminate|].
      destruct (n_dot n); [discriminate|]. cbn [exp_text]. now rewrite !app_nil_r. }
    rewrite Hp.
    eapply rrun_bind; [apply rrun_of_res; apply (parse_int_dec (n_neg n) (n_iw n) (n_ip n) Hi) |].
    apply rrun_set_value.
  - injection Hv as <- <-. rewrite (float_syntax_spelling n Hwf Hk). apply rrun_set_value.
  - destruct (pd (num_plain n)) as [d| | |] eqn:Hd; try discriminate. injection Hv as <- <-.
    eapply rrun_bind; [apply rrun_of_res; reflexivity|]. apply rrun_set_value.
Qed.
End Values.

(* ---- FinishValue --------------------------------------------------------------------------------------------------------- *)
Lemma runK_finish_value_noop s k : runK t_finish_value (s, k, false) false (s, k, false).
Proof.
  unfold t_finish_value, t_finish_value_with. apply runK_get_bind. intros t Ha Hi.
  assert (Hu : t_unfinished t = false) by (unfold abs in Ha; now injection Ha). rewrite Hu. cbn [negb]. apply runK_ret.
Qed.
Lemma rrun_finish_noop X : a_u X = false -> rrun x_finish_value X tt X.
Proof.
  intros Hu. unfold x_finish_value. eapply rrun_bind.
  - apply rrun_lift. rewrite Hu. apply runK_finish_value_noop.
  - cbv iota. destruct X. cbn in Hu. subst. apply rrun_ret.
Qed.

(* what is left of a terminated stream after its terminator has been read again *)
Definition after_term (s : list Z) : list Z := if shead s =? c_slash then spush (stail s) else stail s.
Lemma unterm_after_term s : unterm s = shead s :: after_term s.
Proof. reflexivity. Qed.

(* skipNumber over a number that has been read already: only the terminator is read *)
Lemma run_skip_number_done s :
  terminated s = true -> run skip_number (unterm s) (shead s) (after_term s).
Proof.
  intros Hs. destruct (terminated_head s Hs) as (T1 & T2 & T3 & T4 & T5 & T6 & T7 & T8).
  unfold skip_number. rewrite unterm_after_term.
  eapply run_bind; [apply run_read_cons|].
  destruct (Z.eqb_spec (shead s) c_minus); [contradiction|].
  eapply run_bind; [apply run_ret|].
  eapply run_bind.
  { unfold skip_digits. apply run_with_fuel. intros f Hf. destruct f as [|f]; [lia|].
    cbn [skip_digits_loop]. rewrite T1. apply run_ret. }
  destruct (Z.eqb_spec (shead s) c_dot); [contradiction|].
  eapply run_bind; [apply run_ret|].
  replace ((shead s =? 100) || (shead s =? 68) || (shead s =? 101) || (shead s =? 69)) with false by lia.
  eapply run_bind; [apply run_ret|].
  eapply run_bind; [apply run_is_stop_char|].
  assert (Hst : stops (shead s) (after_term s) = true).
  { unfold terminated in Hs. unfold stops in *. destruct (is_stop_char (shead s)); [reflexivity|]. cbn [orb] in *.
    unfold after_term. apply andb_true_iff in Hs as [H1 H2]. rewrite H1. cbn [andb]. now rewrite shead_spush. }
  rewrite Hst. cbn [negb].
  eapply run_eq; [apply run_ret|reflexivity|].
  destruct (is_stop_char (shead s)); [reflexivity|]. unfold after_term.
  destruct (shead s =? c_slash); reflexivity.
Qed.

Lemma ws_run_head_ws c w : ws_run (c :: w) -> is_whitespace (Z.of_N c) = true -> ws_run w.
Proof.
  intros H Hc. inversion H as [|c' w' Hc' Hw'|body nl w' Hb Hn Hw'|body w' Hb Hw']; subst; [assumption| |]; discriminate Hc.
Qed.
Lemma ws_stop_not_ws S : ws_stop S = true -> is_whitespace (shead S) = false.
Proof. unfold ws_stop. intros H. apply andb_true_iff in H as [H _]. now apply negb_true_iff in H. Qed.

Lemma runK_finish_value_number wsr S2 :
  ws_run wsr -> no_cr wsr -> ws_stop S2 = true -> terminated (zs wsr ++ S2) = true ->
  runK t_finish_value (unterm (zs wsr ++ S2), tokenNumber, true) true
       ((if is_whitespace (shead (zs wsr ++ S2)) then shead S2 :: after_stop S2 else unterm (zs wsr ++ S2)),
        tokenNumber, false).
Proof.
  intros Hw Hcr Hs2 Hs. set (s := zs wsr ++ S2) in *.
  unfold t_finish_value, t_finish_value_with. apply runK_get_bind. intros t Ha Hi.
  assert (Hu : t_unfinished t = true) by (unfold abs in Ha; now injection Ha). rewrite Hu. cbn [negb]. clear t Ha Hi Hu.
  destruct (is_whitespace (shead s)) eqn:Hws.
  - (* the terminator is the first character of the whitespace run: the run is skipped *)
    destruct wsr as [|c0 wtail].
    { unfold s in Hws. cbn [zs map app] in Hws. rewrite (ws_stop_not_ws S2 Hs2) in Hws. discriminate Hws. }
    assert (Hc0 : shead s = Z.of_N c0) by reflexivity.
    assert (Hwt : ws_run wtail) by (apply (ws_run_head_ws c0 wtail Hw); now rewrite <- Hc0).
    assert (Hat : after_term s = zs wtail ++ S2).
    { unfold after_term. rewrite Hc0. destruct (Z.eqb_spec (Z.of_N c0) c_slash) as [E|E]; [|reflexivity].
      rewrite Hc0, E in Hws. discriminate Hws. }
    eapply runK_bind with (a := shead S2) (x1 := (after_stop S2, tokenNumber, false)).
    + unfold t_skip_value. apply runK_get_bind. intros t Ha Hi.
      assert (Hk : t_token t = tokenNumber) by (unfold abs in Ha; now injection Ha). rewrite Hk. tok_cbn. clear t Ha Hi Hk.
      eapply runK_bind; [apply run_runK, (run_skip_number_done s Hs)|].
      rewrite Hws, Hat.
      eapply runK_bind.
      { eapply runK_bind; [apply run_runK, (run_t_skip_whitespace wtail S2 Hwt)|]; [now inversion Hcr|exact Hs2|].
        cbv beta iota. apply runK_ret. }
      eapply runK_bind; [apply runK_finish|]. apply runK_ret.
    + eapply runK_bind; [apply run_runK, run_unread|].
      eapply runK_bind; [apply runK_finish|]. apply runK_ret.
  - eapply runK_bind with (a := shead s) (x1 := (after_term s, tokenNumber, false)).
    + unfold t_skip_value. apply runK_get_bind. intros t Ha Hi.
      assert (Hk : t_token t = tokenNumber) by (unfold abs in Ha; now injection Ha). rewrite Hk. tok_cbn. clear t Ha Hi Hk.
      eapply runK_bind; [apply run_runK, (run_skip_number_done s Hs)|].
      rewrite Hws.
      eapply runK_bind; [apply runK_ret|].
      eapply runK_bind; [apply runK_finish|]. apply runK_ret.
    + eapply runK_bind; [apply run_runK, run_unread|].
      eapply runK_bind; [apply runK_finish|]. rewrite <- unterm_after_term. apply runK_ret.
Qed.

Lemma ends_head_after_stop S r : ends S r -> ends (shead S :: after_stop S) r.
Proof.
  intros H. destruct r as [|c r].
  - rewrite (ends_shead_nil S H). apply ends_unread_eof. now apply ends_after_stop_nil.
  - rewrite (ends_shead_cons S c r H). apply ends_unread. exact (ends_after_stop S c r H).
Qed.

(* ---- Next, generically ------------------------------------------------------------------------------------------------------ *)
Section Next.
Variable pd : list N -> res dec.
Variable pt : list N -> res (list N).
Variable api : xstate -> xstate * res bool.

(* one round of the loop on a token that starts a plain value (anything but a symbol or a container) *)
Lemma loop_plain w SS k0 tk more pos ctx lst fld ann ty0 v0 X' kk fuel :
  ws_run w -> no_cr w -> ws_stop SS = true ->
  runK (next_dispatch (shead SS)) (after_stop SS, k0, false) tt (pos, tk, more) ->
  plain_token tk = true ->
  rrun (plain_handler pd pt tk) (mkax pos tk more trsBeforeTypeAnnotations ctx false false lst fld ann ty0 v0) true X' ->
  a_eof X' = false ->
  rrun (x_next_loop pd pt api (S kk) fuel)
       (mkax (zs w ++ SS) k0 false trsBeforeTypeAnnotations ctx false false lst fld ann ty0 v0) true X'.
Proof.
  intros Hw Hcr Hs Hd Hp Hh He x Hi Ha.
  pose proof (rrun_lift t_next (mkax (zs w ++ SS) k0 false trsBeforeTypeAnnotations ctx false false lst fld ann ty0 v0)
                tt pos tk more (runK_t_next w SS k0 _ Hw Hcr Hs Hd)) as HL.
  destruct (HL x Hi Ha) as (x1 & E1 & Hi1 & Ha1).
  unfold ax_tok in Ha1. cbn [a_state a_ctx a_eof a_err a_lst a_field a_annots a_type a_value] in Ha1.
  destruct (Hh x1 Hi1 Ha1) as (x2 & E2 & Hi2 & Ha2).
  xfields Ha1. rewrite <- Fk in E2. rewrite <- (nbta_plain pd pt api fuel x1) in E2 by (rewrite Fk; exact Hp).
  exists x2. rewrite (next_loop_bta pd pt api kk fuel x x1 x2 true E1 Fst E2).
  xfields Ha2. rewrite Feof0, He. auto.
Qed.

(* Next = FinishValue, clear, loop *)
Definition ax_clear (X : ax) : ax :=
  mkax (a_s X) (a_k X) (a_u X) (a_state X) (a_ctx X) (a_eof X) (a_err X) (a_lst X) None [] 0%N XNil.
Lemma xabs_clear x : xabs (x_clear x) = ax_clear (xabs x).
Proof. reflexivity. Qed.
Lemma x_next_with_ok fuel x X1 b X2 :
  xok x -> x_state x <> trsDone -> x_eof x = false ->
  rrun x_finish_value (xabs x) tt X1 ->
  rrun (x_next_loop pd pt api fuel fuel) (ax_clear X1) b X2 ->
  exists x2, x_next_with pd pt api fuel x = (x2, Ok b) /\ xok x2 /\ xabs x2 = X2.
Proof.
  intros Hi Hst Heof Hf Hl. unfold x_next_with.
  destruct (N.eqb_spec (x_state x) trsDone); [contradiction|]. rewrite Heof. cbn [orb].
  destruct (Hf x Hi eq_refl) as (x1 & E1 & Hi1 & Ha1). rewrite E1.
  destruct (Hl (x_clear x1)) as (x2 & E2 & Hi2 & Ha2); [exact Hi1|now rewrite xabs_clear, Ha1|].
  exists x2. auto.
Qed.
End Next.

(* ---- the accessors used by the traversal ---------------------------------------------------------------------------------- *)
Open Scope N_scope.
Section Trace.
Variable pd : list N -> res dec.
Variable pt : list N -> res (list N).

Definition tr_field (f : option tok) : list N := match f with Some t => show_tok t | None => t_nil end.
Definition tr_annots (a : list tok) : list N := 97 :: 91 :: concat (map (fun t => show_tok t ++ [59]) a) ++ [93].
(* Next, FieldName, Annotations, Type, IsNull *)
Definition tr_head (f : option tok) (a : list tok) (ty : N) (isnull : bool) : list (list N) :=
  [ [84]; tr_field f; tr_annots a; 121 :: dec_of_N ty; [110; if isnull then 49 else 48] ].
(* the answer of the accessor of a non-null scalar *)
Definition acc_token (ty : N) (v : xvalue) : option (list N) :=
  match v with
  | XBool b => if (ty =? TBool)%N then Some [98; if b then 49 else 48] else None
  | XInt i => if (ty =? TInt)%N then Some (73 :: dec_of_Z (show_int i)) else None
  | XFloatBits b => if (ty =? TFloat)%N then Some (70 :: dec_of_N (canon_float b)) else None
  | XFloatText l => if (ty =? TFloat)%N then Some (70 :: s "text"%string ++ hex_of_bytes l) else None
  | XDecimal d => if (ty =? TDecimal)%N then Some (show_dec d) else None
  | XTimestamp b => if (ty =? TTimestamp)%N then Some (84 :: b) else None
  | XString t => if (ty =? TString)%N then Some (83 :: xhex t) else None
  | XSymbol t => if (ty =? TSymbol)%N then Some (show_tok t) else None
  | XBytes b => if ((ty =? TBlob) || (ty =? TClob))%N then Some (66 :: xhex b) else None
  | _ => None
  end.

Lemma x_op_field x : x_err x = false -> x_op pd pt x OFieldName = (x, Some (tr_field (x_field x))).
Proof. intros H. unfold x_op, x_op_res. now rewrite H. Qed.
Lemma x_op_annots x : x_err x = false -> x_op pd pt x OAnnotations = (x, Some (tr_annots (x_annots x))).
Proof. intros H. unfold x_op, x_op_res. now rewrite H. Qed.
Lemma x_op_type x : x_op pd pt x OType = (x, Some (121 :: dec_of_N (x_type x))).
Proof. reflexivity. Qed.
Lemma x_op_isnull x : x_op pd pt x OIsNull = (x, Some [110; if x_is_null x then 49 else 48]).
Proof. reflexivity. Qed.

(* one round of the traversal on a scalar that Next has delivered *)
Lemma traverse_scalar f x x' depth acc ty v tok :
  x_op pd pt x ONext = (x', Some [84]) ->
  x_err x' = false -> x_type x' = ty -> x_value x' = v -> acc_token ty v = Some tok ->
  x_traverse_loop pd pt (S f) x depth acc =
  x_traverse_loop pd pt f x' depth (tok :: rev (tr_head (x_field x') (x_annots x') ty false) ++ acc).
Proof.
  intros E He Hty Hv Ha. cbn [x_traverse_loop]. rewrite E.
  change (list_eqb [84] [70]) with false. cbv iota.
  rewrite (x_op_field x' He), (x_op_annots x' He), x_op_type, x_op_isnull.
  assert (Hnn : x_is_null x' = false).
  { unfold x_is_null. rewrite Hv. destruct v; cbn in Ha; try discriminate; now rewrite andb_false_r. }
  rewrite Hnn, Hty.
  assert (Hacc : exists o, accessor_of ty = Some o /\ x_op pd pt x' o = (x', Some tok)).
  { unfold x_op, x_op_res, accessor_of. rewrite He, Hty, Hv. clear Hty Hnn.
    destruct v; cbn [acc_token] in Ha; try discriminate.
    - destruct (N.eqb_spec ty TBool); [|discriminate]. subst ty. injection Ha as <-. eexists; split; reflexivity.
    - destruct (N.eqb_spec ty TInt); [|discriminate]. subst ty. injection Ha as <-. eexists; split; reflexivity.
    - destruct (N.eqb_spec ty TFloat); [|discriminate]. subst ty. injection Ha as <-. eexists; split; reflexivity.
    - destruct (N.eqb_spec ty TFloat); [|discriminate]. subst ty. injection Ha as <-. eexists; split; reflexivity.
    - destruct (N.eqb_spec ty TDecimal); [|discriminate]. subst ty. injection Ha as <-. eexists; split; reflexivity.
    - destruct (N.eqb_spec ty TTimestamp); [|discriminate]. subst ty. injection Ha as <-. eexists; split; reflexivity.
    - destruct (N.eqb_spec ty TSymbol); [|discriminate]. subst ty. injection Ha as <-. eexists; split; reflexivity.
    - destruct (N.eqb_spec ty TString); [|discriminate]. subst ty. injection Ha as <-. eexists; split; reflexivity.
    - destruct (N.eqb_spec ty TBlob) as [->|Hb].
      + injection Ha as <-. eexists; split; reflexivity.
      + destruct (N.eqb_spec ty TClob) as [->|Hc]; [|discriminate]. injection Ha as <-. eexists; split; reflexivity. }
  destruct Hacc as (o & Ho & Eo). rewrite Ho, Eo. reflexivity.
Qed.
(* a null of any type *)
Lemma traverse_null f x x' depth acc ty :
  x_op pd pt x ONext = (x', Some [84]) ->
  x_err x' = false -> x_type x' = ty -> ty <> 0%N -> x_value x' = XNil ->
  x_traverse_loop pd pt (S f) x depth acc =
  x_traverse_loop pd pt f x' depth (rev (tr_head (x_field x') (x_annots x') ty true) ++ acc).
Proof.
  intros E He Hty Hn Hv. cbn [x_traverse_loop]. rewrite E.
  change (list_eqb [84] [70]) with false. cbv iota.
  rewrite (x_op_field x' He), (x_op_annots x' He), x_op_type, x_op_isnull.
  assert (Hnn : x_is_null x' = true).
  { unfold x_is_null. rewrite Hv, Hty. destruct (N.eqb_spec ty 0); [contradiction|reflexivity]. }
  rewrite Hnn, Hty. reflexivity.
Qed.
End Trace.
Open Scope Z_scope.
