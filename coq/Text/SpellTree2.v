(* SpellTree2.v — C02, stage 8h: the value trees of SpellTree, widened by the spellings its stream theorem omitted:
     1. operator symbols (directly inside an s-expression) that begin with a slash or are directly followed by a comment
        (SpellStream2.item_spells2);
     2. long strings ('''...''' with any number of continuation segments, whitespace and comments between them) as
        struct field names ([fn2_long]);
     3b. the bare version marker $ion_1_0 at the top level in front of, between and behind the values ([tp2_ivm]);
     4. a `//` comment without newline at the very end of the input ([tp2_comment], and [rest_eofc] behind the last value).
   [tspell2] / [cseq2] / [tops_spell2] contain [tspell] / [cseq] / [tops_spell] ([tspell_incl], [tops_spell_incl]);
   [traverse_tree2] and [traverse_stream2] are the traversal theorems for the wider relations.
   Still omitted at stream level: local symbol tables ($ion_symbol_table::{...} at the top level); a version marker
   directly followed by the final unterminated comment. *)
From Coq Require Import String List NArith ZArith Bool Lia ZifyBool ZifyN ZifyNat.
From IonV Require Import Base.Wire Base.Utf8 Data.Ion Bin.Bits Bin.BitStream Bin.BinReader Num.Float Text.Tokenizer Text.Skipper
  Text.TextReader Text.TextNum Text.SpellBase Text.SpellWs Text.SpellNum Text.SpellTok Text.SpellRead
  Text.SpellEsc Text.SpellStr Text.SpellLong Text.SpellIdent Text.SpellSym Text.SpellTs Text.SpellBlob
  Text.SpellVal Text.SpellSymVal Text.SpellOp Text.SpellStream Text.SpellCont Text.SpellTree
  Text.SpellEofc Text.SpellOp2 Text.SpellStream2 Text.SpellIvm.
Import ListNotations.
Open Scope Z_scope.

Section Tree.
Variable pd : list N -> res dec.
Variable pt : list N -> res (list N).
Variable lst : rlst.
Notation BTA := trsBeforeTypeAnnotations.
Notation api := (x_next_inner pd pt).

(* ---- field names: those of SpellTree, and long strings -------------------------------------------------------------------------- *)
Inductive fname_spells2 : list N -> tok -> Prop :=
| fn2_old nm k : fname_spells lst nm k -> fname_spells2 nm k
| fn2_long body ts : lsegs body ts -> valid_segs ts ->
    fname_spells2 (39%N :: 39%N :: 39%N :: body) (name_symbol_token lst (concat ts)).

(* name, whitespace, colon, for a long string: a copy of SpellCont.field_step_gen for the token tokenLongString *)
Lemma field_step_gen_long w SS pos v k r k0 ctx fld ann ty0 v0 kk fuel b X' :
  ws_run w -> no_cr w -> ws_stop SS = true ->
  runK (next_dispatch (shead SS)) (after_stop SS, k0, false) tt (pos, tokenLongString, true) ->
  (forall k1 u1, runK (t_read_value tokenLongString) (pos, k1, u1) v (58 :: r, k1, false)) ->
  name_symbol_token lst v = k ->
  shead r <> 58 ->
  rrun (x_next_loop pd pt api kk fuel)
       (mkax (spush r) tokenColon false BTA ctx false false lst (Some k) ann ty0 v0) b X' ->
  rrun (x_next_loop pd pt api (S kk) fuel)
       (mkax (zs w ++ SS) k0 false trsBeforeFieldName ctx false false lst fld ann ty0 v0) b X'.
Proof.
  intros Hw Hcr Hst Hd Hrd Hk Hr Hrest x Hi Ha.
  pose proof (rrun_lift t_next (mkax (zs w ++ SS) k0 false trsBeforeFieldName ctx false false lst fld ann ty0 v0)
                tt pos tokenLongString true (runK_t_next w SS k0 _ Hw Hcr Hst Hd)) as HL.
  destruct (HL x Hi Ha) as (x1 & E1 & Hi1 & Ha1).
  unfold ax_tok in Ha1. cbn [a_state a_ctx a_eof a_err a_lst a_field a_annots a_type a_value] in Ha1.
  assert (HF : rrun next_before_field_name (mkax pos tokenLongString true trsBeforeFieldName ctx false false lst fld ann ty0 v0) false
                 (mkax (spush r) tokenColon false BTA ctx false false lst (Some k) ann ty0 v0)).
  { unfold next_before_field_name. apply rrun_rget_bind. intros y Hy Hay. xfields Hay. cbv beta zeta. rewrite Fk.
    tok_cbn.
    eapply rrun_bind; [apply rrun_lift; cbn [a_s a_k a_u]; apply Hrd|].
    unfold ax_tok. cbn [a_s a_k a_u a_state a_ctx a_eof a_err a_lst a_field a_annots a_type a_value].
    eapply rrun_bind with (a := k).
    { rewrite Flst, Hk. apply rrun_ret. }
    eapply rrun_bind.
    { apply rrun_rmod. intros z Haz. xfields Haz. split; [|reflexivity].
      unfold xabs. cbn [x_tok x_state x_ctx x_eof x_err x_lst x_field x_annots x_type x_value xs_field].
      rewrite Fs0, Fk0, Fu0, Fst0, Fctx0, Feof0, Ferr0, Flst0, Fannots0, Ftype0, Fvalue0. reflexivity. }
    eapply rrun_bind.
    { apply (rrun_next_punct [] 58 r (spush r) tokenColon false); auto; try reflexivity; try discriminate; try constructor.
      cbn [a_k]. now apply runK_dispatch_colon. }
    unfold ax_tok. cbn [a_s a_k a_u a_state a_ctx a_eof a_err a_lst a_field a_annots a_type a_value].
    apply rrun_rget_bind. intros z Hz Haz. xfields Haz. rewrite Fk0. tok_cbn.
    eapply rrun_bind; [|apply rrun_ret].
    apply rrun_rmod. intros z' Haz'. xfields Haz'. split; [|reflexivity].
    unfold xabs. cbn [x_tok x_state x_ctx x_eof x_err x_lst x_field x_annots x_type x_value xs_state].
    rewrite Fs1, Fk1, Fu1, Fctx1, Feof1, Ferr1, Flst1, Ffield1, Fannots1, Ftype1, Fvalue1. reflexivity. }
  destruct (HF x1 Hi1 Ha1) as (x2 & E2 & Hi2 & Ha2).
  xfields Ha1. rewrite (next_loop_field_name pd pt api kk fuel x x1 x2 false E1 Fst E2).
  exact (Hrest x2 Hi2 Ha2).
Qed.

Lemma field_step2 ctx nm k w wn1 r k0 fld ann ty0 v0 kk fuel b X' :
  fname_spells2 nm k -> no_cr nm -> ws_run w -> no_cr w -> ws_run wn1 -> no_cr wn1 -> shead r <> 58 ->
  rrun (x_next_loop pd pt api kk fuel)
       (mkax (spush r) tokenColon false BTA ctx false false lst (Some k) ann ty0 v0) b X' ->
  rrun (x_next_loop pd pt api (S kk) fuel)
       (mkax (zs w ++ zs nm ++ zs wn1 ++ 58 :: r) k0 false trsBeforeFieldName ctx false false lst fld ann ty0 v0) b X'.
Proof.
  intros Hnm Hcn Hw Hcr Hwn Hcrn Hr Hrest.
  destruct Hnm as [nm k Hnm|body ts Hb Hv].
  - now apply (field_step pd pt lst ctx nm k).
  - apply no_cr_cons in Hcn as [_ Hcn]. apply no_cr_cons in Hcn as [_ Hcn]. apply no_cr_cons in Hcn as [_ Hcb].
    set (rest := zs body ++ zs wn1 ++ 58 :: r).
    eapply rrun_pre_eq.
    + apply (field_step_gen_long w (39 :: 39 :: 39 :: rest) rest (concat ts) (name_symbol_token lst (concat ts)) r k0 ctx fld ann
               ty0 v0 kk fuel b X'); auto.
      * cbn [shead]. change (after_stop (39 :: 39 :: 39 :: rest)) with (39 :: 39 :: rest).
        change (next_dispatch 39) with (tdo ok <- t_is_triple_quote; if ok then t_ok tokenLongString true else t_ok tokenSymbolQuoted true).
        eapply runK_bind; [apply run_runK, run_is_triple_quote|].
        change (triple (39 :: 39 :: rest)) with true. cbv iota. cbn [stail]. apply runK_t_ok.
      * intros k1 u1. apply (runK_read_value tokenLongString read_long_string); [reflexivity|].
        exact (run_read_long_string body ts wn1 (58 :: r) Hb Hcb Hv Hwn Hcrn eq_refl eq_refl).
    + unfold rest. f_equal; list_norm.
Qed.

Lemma fname_first2 nm k : fname_spells2 nm k -> exists c r, nm = c :: r /\ val_start c.
Proof.
  destruct 1 as [nm k Hnm|body ts Hb Hv].
  - exact (fname_first lst nm k Hnm).
  - eexists _, _. split; [reflexivity|]. unfold val_start; repeat split; (reflexivity || discriminate).
Qed.

(* ---- what stands between two members of a container ------------------------------------------------------------------------ *)
Inductive sep_spells2 : list ctype -> N -> list N -> option tok -> nat -> Prop :=
| sep2_none ctx : sep_spells2 ctx BTA [] None 0
| sep2_comma ctx : sep_spells2 (CList :: ctx) trsAfterValue [44%N] None 1
| sep2_field ctx nm k wn1 : fname_spells2 nm k -> ws_run wn1 ->
    sep_spells2 (CStruct :: ctx) trsBeforeFieldName (nm ++ wn1 ++ [58%N]) (Some k) 1
| sep2_comma_field ctx w nm k wn1 : ws_run w -> fname_spells2 nm k -> ws_run wn1 ->
    sep_spells2 (CStruct :: ctx) trsAfterValue (44%N :: w ++ nm ++ wn1 ++ [58%N]) (Some k) 2.

Lemma sep_spells_incl ctx st pre fld n : sep_spells lst ctx st pre fld n -> sep_spells2 ctx st pre fld n.
Proof.
  destruct 1 as [ctx|ctx|ctx nm k wn1 Hnm Hw1|ctx w nm k wn1 Hw Hnm Hw1].
  - constructor.
  - constructor.
  - apply sep2_field; [now apply fn2_old|exact Hw1].
  - apply sep2_comma_field; [exact Hw|now apply fn2_old|exact Hw1].
Qed.

Lemma sep_loop2 ctx st pre fld n :
  sep_spells2 ctx st pre fld n ->
  forall wa wb tail k0 kk fuel b X',
  ws_run wa -> ws_run wb -> no_cr (wa ++ pre ++ wb) -> (pre = [] -> wb = []) -> tail <> [] -> shead tail <> 58 ->
  (forall k1 w', ws_run w' -> no_cr w' ->
     rrun (x_next_loop pd pt api kk fuel) (mkax (zs w' ++ tail) k1 false BTA ctx false false lst fld [] 0%N XNil) b X') ->
  rrun (x_next_loop pd pt api (n + kk) fuel)
       (mkax (zs wa ++ zs pre ++ zs wb ++ tail) k0 false st ctx false false lst None [] 0%N XNil) b X'.
Proof.
  intros Hsep wa wb tail k0 kk fuel b X' Hwa Hwb Hcr Hpw Htl Hcolon Hk.
  apply no_cr_app in Hcr as [Hca Hcr]. apply no_cr_app in Hcr as [Hcp Hcb].
  assert (Hr0 : zs wb ++ tail <> []) by (destruct wb; [exact Htl|discriminate]).
  destruct Hsep as [ctx|ctx|ctx nm k wn1 Hnm Hw1|ctx w nm k wn1 Hw Hnm Hw1]; cbn [Nat.add].
  - rewrite (Hpw eq_refl). cbn [zs map app]. apply (Hk k0 wa Hwa Hca).
  - change (zs [44%N] ++ zs wb ++ tail) with (44 :: zs wb ++ tail).
    apply (comma_step pd pt api wa (zs wb ++ tail) CList k0 ctx lst None [] 0%N XNil kk fuel b X' Hwa Hca); [now left|].
    apply (Hk tokenComma wb Hwb Hcb).
  - apply no_cr_app in Hcp as [Hcn Hcp]. apply no_cr_app in Hcp as [Hc1 _].
    eapply rrun_pre_eq.
    + apply (field_step2 (CStruct :: ctx) nm k wa wn1 (zs wb ++ tail) k0 None [] 0%N XNil kk fuel b X' Hnm Hcn Hwa Hca Hw1 Hc1).
      * now apply ws_first_not_colon.
      * rewrite (spush_nonempty _ Hr0). apply (Hk tokenColon wb Hwb Hcb).
    + f_equal; list_norm.
  - apply no_cr_cons in Hcp as [_ Hcp]. apply no_cr_app in Hcp as [Hcw Hcp]. apply no_cr_app in Hcp as [Hcn Hcp].
    apply no_cr_app in Hcp as [Hc1 _].
    eapply rrun_pre_eq.
    + apply (comma_step pd pt api wa (zs w ++ zs nm ++ zs wn1 ++ 58 :: zs wb ++ tail) CStruct k0 ctx lst None [] 0%N XNil
               (S kk) fuel b X' Hwa Hca); [now right|].
      apply (field_step2 (CStruct :: ctx) nm k w wn1 (zs wb ++ tail) tokenComma None [] 0%N XNil kk fuel b X' Hnm Hcn Hw Hcw Hw1 Hc1).
      * now apply ws_first_not_colon.
      * rewrite (spush_nonempty _ Hr0). apply (Hk tokenColon wb Hwb Hcb).
    + f_equal; list_norm.
Qed.

Lemma sep_facts2 ctx st pre fld n : sep_spells2 ctx st pre fld n -> (n <= length pre)%nat /\ st <> trsDone.
Proof.
  destruct 1 as [ctx|ctx|ctx nm k wn1 Hnm Hw1|ctx w nm k wn1 Hw Hnm Hw1]; (split; [|discriminate]); cbn [length]; try lia.
  - destruct (fname_first2 nm k Hnm) as (c & r & -> & _). cbn [app length]. lia.
  - destruct (fname_first2 nm k Hnm) as (c & r & -> & _). rewrite !app_length. cbn [app length]. lia.
Qed.

(* ---- the spelling of value trees ------------------------------------------------------------------------------------------------ *)
Inductive tspell2 : list ctype -> list N -> (list N -> list N -> Prop) -> tval -> Prop :=
| t2_scalar ctx text fol anns ty v :
    aval_spells2 pd pt lst ctx [] text fol anns ty v -> tspell2 ctx text fol (TScalar anns ty v)
| t2_cont ctx otext anns tok w0 body items :
    aopen_spells lst ctx [] otext anns tok -> ws_run w0 ->
    (tok = tokenOpenBrace -> hd 0%N (w0 ++ body) <> 123%N) ->
    cseq2 (open_ctype tok :: ctx) (first_state tok) body items ->
    tspell2 ctx (otext ++ w0 ++ body) f_any (TCont anns (open_type tok) items)
with cseq2 : list ctype -> N -> list N -> list (option tok * tval) -> Prop :=
| cs2_close ctx st pre tok n : close_spells ctx st pre tok n -> cseq2 ctx st pre []
| cs2_item ctx st pre fld n wb text fol tv wn rest items :
    sep_spells2 ctx st pre fld n -> ws_run wb -> (pre = [] -> wb = []) ->
    tspell2 ctx text fol tv -> ws_run wn -> (forall outer, fol wn (rest ++ outer)) ->
    cseq2 ctx (after_value_state ctx) rest items ->
    cseq2 ctx st (pre ++ wb ++ text ++ wn ++ rest) ((fld, tv) :: items).

Scheme tspell2_mind := Minimality for tspell2 Sort Prop
  with cseq2_mind := Minimality for cseq2 Sort Prop.
Combined Scheme tspell2_cseq2_ind from tspell2_mind, cseq2_mind.

(* the relations of SpellTree are included *)
Lemma tspell_incl :
  (forall ctx text fol tv, tspell pd pt lst ctx text fol tv -> tspell2 ctx text fol tv) /\
  (forall ctx st text items, cseq pd pt lst ctx st text items -> cseq2 ctx st text items).
Proof.
  apply tspell_cseq_ind.
  - intros ctx text fol anns ty v Hav. apply t2_scalar. now apply aval_spells_incl.
  - intros ctx otext anns tok w0 body items Hao Hw0 Hb123 _ IH. now apply t2_cont.
  - intros ctx st pre tok n Hcl. now apply (cs2_close ctx st pre tok n).
  - intros ctx st pre fld n wb text fol tv wn rest items Hsep Hwb Hpw _ IHv Hwn Hfol _ IHs.
    apply (cs2_item ctx st pre fld n wb text fol tv wn rest items); auto. now apply sep_spells_incl.
Qed.

(* first characters *)
Lemma tspell_first2 ctx text fol tv :
  tspell2 ctx text fol tv -> first_ok text /\ forall wn rest, fol wn rest -> startok (text ++ wn ++ rest).
Proof.
  destruct 1 as [ctx text fol anns ty v Hav|ctx otext anns tok w0 body items Hao Hw0 Hb123 Hcs].
  - split; [exact (aval_nonempty2 pd pt lst ctx [] text fol anns ty v Hav)|exact (aval_first2 pd pt lst ctx [] text fol anns ty v Hav)].
  - destruct (aopen_first lst ctx [] otext anns tok Hao) as (c & r & -> & Hc). cbn [app]. split.
    + destruct Hc as (Ha & Hb & Hd). eexists _, _. eauto.
    + intros wn rest _. now apply val_start_startok.
Qed.
Lemma cseq_first2 ctx st text items :
  cseq2 ctx st text items -> first_ok text /\ forall outer, startok (text ++ outer).
Proof.
  assert (Hvs : forall c r, val_start c -> first_ok (c :: r) /\ forall outer, startok ((c :: r) ++ outer)).
  { intros c r Hc. split; [destruct Hc as (Ha & Hb & Hd); eexists _, _; eauto|]. intros outer. now apply val_start_startok. }
  destruct 1 as [ctx st pre tok n Hcl|ctx st pre fld n wb text fol tv wn rest items Hsep Hwb Hpw Htv Hwn Hfol Hcs].
  - destruct Hcl; apply Hvs; unfold val_start; repeat split; (reflexivity || discriminate).
  - destruct Hsep as [ctx|ctx|ctx nm k wn1 Hnm Hw1|ctx w nm k wn1 Hw Hnm Hw1].
    + rewrite (Hpw eq_refl). cbn [app]. destruct (tspell_first2 ctx text fol tv Htv) as [(c & r & -> & Ha & Hb) Hst]. split.
      * eexists _, _. cbn [app]. eauto.
      * intros outer. rewrite <- !app_assoc. apply Hst. apply Hfol.
    + apply Hvs; unfold val_start; repeat split; (reflexivity || discriminate).
    + destruct (fname_first2 nm k Hnm) as (c & r & -> & Hc). cbn [app]. now apply Hvs.
    + apply Hvs; unfold val_start; repeat split; (reflexivity || discriminate).
Qed.

(* ---- the traversal of a value tree ------------------------------------------------------------------------------------------------ *)
(* [nextable x st ctx T]: Next on x runs the loop of Next (any token behind it) in front of a whitespace run and the text T *)
Definition nextable (x : xstate) (st : N) (ctx : list ctype) (T : list N) : Prop :=
  forall b (Post : ax -> Prop),
  (forall S1 w1 k1 kk fuel, ws_run w1 -> no_cr w1 -> ends S1 (w1 ++ T) -> (length (w1 ++ T) <= kk)%nat ->
     exists X2, rrun (x_next_loop pd pt api (S kk) fuel)
                     (mkax S1 k1 false st ctx false false lst None [] 0%N XNil) b X2 /\ Post X2) ->
  exists x2, x_next pd pt x = (x2, Ok b) /\ xok x2 /\ Post (xabs x2).
Lemma nextable_settled x S0 k u st ctx fld ann ty v T :
  xok x -> xabs x = mkax S0 k u st ctx false false lst fld ann ty v -> st <> trsDone ->
  (u = true -> st = after_value_state ctx) -> settled S0 k u T -> nextable x st ctx T.
Proof.
  intros Hi Ha Hnd Hst Hset b Post Hloop.
  apply (x_next_settled pd pt x S0 k u st ctx lst fld ann ty v T b Post Hi Ha Hnd Hst Hset).
  intros S1 w1 kk fuel. apply Hloop.
Qed.

Definition P_val2 (ctx : list ctype) (text : list N) (fol : list N -> list N -> Prop) (tv : tval) : Prop :=
  forall pre st fld n wb, sep_spells2 ctx st pre fld n -> ws_run wb -> (pre = [] -> wb = []) ->
  forall x wn rest depth f acc,
  nextable x st ctx (pre ++ wb ++ text ++ wn ++ rest) -> no_cr (pre ++ wb ++ text ++ wn) -> ws_run wn -> fol wn rest ->
  rest_ok ctx rest ->
  exists x' S' k' u' fld' ann' ty' v',
    x_traverse_loop pd pt (cost tv + f) x depth acc = x_traverse_loop pd pt f x' depth (rev (tr_tval fld tv) ++ acc) /\
    xok x' /\ xabs x' = mkax S' k' u' (after_value_state ctx) ctx false false lst fld' ann' ty' v' /\
    settled_w S' k' u' rest.
Definition P_seq2 (ctx : list ctype) (st : N) (text : list N) (items : list (option tok * tval)) : Prop :=
  forall c ctx', ctx = c :: ctx' ->
  forall x S0 k u fld0 ann0 ty0 v0 outer depth f acc,
  xok x -> xabs x = mkax S0 k u st ctx false false lst fld0 ann0 ty0 v0 -> (u = true -> st = after_value_state ctx) ->
  settled S0 k u (text ++ outer) -> no_cr text ->
  exists x' S' k',
    x_traverse_loop pd pt (cost_items items + 1 + f) x (S depth) acc =
      x_traverse_loop pd pt f x' depth (s "ok"%string :: [70%N] :: rev (tr_items items) ++ acc) /\
    xok x' /\ xabs x' = mkax S' k' false (after_value_state ctx') ctx' false false lst None [] 0%N XNil /\ ends S' outer.

Theorem traverse_tree2 :
  (forall ctx text fol tv, tspell2 ctx text fol tv -> P_val2 ctx text fol tv) /\
  (forall ctx st text items, cseq2 ctx st text items -> P_seq2 ctx st text items).
Proof.
  apply tspell2_cseq2_ind.
  - (* a scalar *)
    intros ctx text fol anns ty v Hav pre st fld n wb Hsep Hwb Hpw x wn rest depth f acc Hnx Hcr Hwn Hfol Hrok.
    destruct (sep_facts2 _ _ _ _ _ Hsep) as [Hn Hnd].
    destruct (aval_nonempty2 pd pt lst ctx [] text fol anns ty v Hav) as (c0 & r0 & Etext & _ & Hc58).
    assert (Hcr' := Hcr). apply no_cr_app in Hcr' as [Hcp Hcr']. apply no_cr_app in Hcr' as [Hcb Hcr'].
    apply no_cr_app in Hcr' as [Hct Hcn].
    destruct (Hnx true
                (fun X2 => exists S' k' u', X2 = mkax S' k' u' (after_value_state ctx) ctx false false lst fld anns ty v /\
                                            settled_w S' k' u' rest)) as (x1 & E & Hi1 & HP).
    { intros S1 w1 k kk fuel Hw1 Hcr1 He1 Hlen.
      destruct (ends_split S1 _ _ He1) as (Sa & -> & Hea). destruct (ends_split Sa _ _ Hea) as (Sb & -> & Heb).
      destruct (ends_split Sb _ _ Heb) as (Sc & -> & Hec). destruct (ends_split Sc _ _ Hec) as (Sd & -> & Hed).
      destruct (ends_split Sd _ _ Hed) as (S2 & -> & He2).
      rewrite !app_length in Hlen.
      destruct (aval_next2 pd pt api lst ctx [] text fol anns ty v Hav wn rest S2 Hct Hwn Hcn Hfol He2 Hrok)
        as (S' & k' & u' & Hset' & R).
      exists (mkax S' k' u' (after_value_state ctx) ctx false false lst fld anns ty v). split; [|eauto].
      replace (S kk) with (n + S (kk - n))%nat by lia.
      apply (sep_loop2 ctx st pre fld n Hsep w1 wb (zs text ++ zs wn ++ S2) k (S (kk - n)) fuel true); auto.
      - apply no_cr_app. split; [exact Hcr1|]. apply no_cr_app. auto.
      - rewrite Etext. discriminate.
      - rewrite Etext. cbn [zs map app shead]. lia.
      - intros k1 w' Hw' Hcw'. apply R; auto. lia. }
    destruct HP as (S' & k' & u' & Ha1 & Hset1). pose proof (x_op_next pd pt x x1 true E) as Eo. xfields Ha1.
    exists x1, S', k', u', fld, anns, ty, v. split; [|auto].
    cbn [cost Nat.add].
    destruct (aval_value2 pd pt lst ctx [] text fol anns ty v Hav) as [[-> Hty]|[t Ht]].
    + rewrite (traverse_null pd pt f x x1 depth acc ty Eo Ferr Ftype Hty Fvalue). rewrite Ffield, Fannots. reflexivity.
    + rewrite (traverse_scalar pd pt f x x1 depth acc ty v t Eo Ferr Ftype Fvalue Ht). rewrite Ffield, Fannots.
      cbn [tr_tval]. rewrite Ht.
      replace (match v with XNil => tr_head fld anns ty true | _ => tr_head fld anns ty false ++ [t] end)
        with (tr_head fld anns ty false ++ [t]) by (destruct v; try reflexivity; discriminate Ht).
      rewrite rev_app_distr. reflexivity.
  - (* a container *)
    intros ctx otext anns tok w0 body items Hao Hw0 Hb123 Hcs IHseq pre st fld n wb Hsep Hwb Hpw x
           wn rest depth f acc Hnx Hcr Hwn Hfol Hrok.
    destruct (sep_facts2 _ _ _ _ _ Hsep) as [Hn Hnd].
    destruct (aopen_first lst ctx [] otext anns tok Hao) as (c0 & r0 & Etext & Hc0).
    destruct (cseq_first2 _ _ _ _ Hcs) as [(cb & rb & Ebody & _) _].
    assert (Hcr' := Hcr). apply no_cr_app in Hcr' as [Hcp Hcr']. apply no_cr_app in Hcr' as [Hcb Hcr'].
    apply no_cr_app in Hcr' as [Hct Hcn]. apply no_cr_app in Hct as [Hco Hct]. apply no_cr_app in Hct as [Hcw0 Hcbody].
    set (brace := (tok =? tokenOpenBrace)%N).
    destruct (Hnx true
                (fun X2 => exists r, X2 = mkax r tok true trsBeforeContainer ctx false false lst fld anns (open_type tok) XContainer /\
                                     ends r (w0 ++ body ++ wn ++ rest))) as (x1 & E & Hi1 & HP).
    { intros S1 w1 k kk fuel Hw1 Hcr1 He1 Hlen.
      destruct (ends_split S1 _ _ He1) as (Sa & -> & Hea). destruct (ends_split Sa _ _ Hea) as (Sb & -> & Heb).
      destruct (ends_split Sb _ _ Heb) as (Sc & -> & Hec). rewrite <- !app_assoc in Hec.
      destruct (ends_split Sc _ _ Hec) as (Sd & -> & Hed).
      rewrite !app_length in Hlen.
      assert (Hbr : tok = tokenOpenBrace -> shead Sd <> 123).
      { intros Ht. specialize (Hb123 Ht). rewrite (ends_shead _ _ Hed).
        destruct w0 as [|cw w0']; cbn [app] in *.
        - rewrite Ebody in *. cbn [app zs map shead hd] in *. lia.
        - cbn [zs map shead hd] in *. lia. }
      exists (mkax (if brace then spush Sd else Sd) tok true trsBeforeContainer ctx false false lst fld anns (open_type tok) XContainer).
      split; [|exists (if brace then spush Sd else Sd); split; [reflexivity|]; destruct brace; [now apply ends_spush|exact Hed]].
      replace (S kk) with (n + S (kk - n))%nat by lia.
      apply (sep_loop2 ctx st pre fld n Hsep w1 wb (zs otext ++ Sd) k (S (kk - n)) fuel true); auto.
      - apply no_cr_app. split; [exact Hcr1|]. apply no_cr_app. auto.
      - rewrite Etext. discriminate.
      - rewrite Etext. cbn [zs map app shead]. destruct Hc0 as (_ & _ & H58). lia.
      - intros k1 w' Hw' Hcw'.
        apply (aopen_next pd pt lst ctx [] otext anns tok Hao w' Sd k1 fld 0%N XNil (kk - n) fuel); auto. lia. }
    destruct HP as (r & Ha1 & Her). pose proof (x_op_next pd pt x x1 true E) as Eo. xfields Ha1.
    assert (Hty : open_type tok = TList \/ open_type tok = TSexp \/ open_type tok = TStruct).
    { unfold open_type. destruct (tok =? tokenOpenBracket)%N; [now left|]. destruct (tok =? tokenOpenParen)%N; [right; now left|right; now right]. }
    destruct (rrun_step_in r tok true ctx lst fld anns (open_type tok) Hty x1 Hi1 Ha1) as (x2 & Es & Hi2 & Ha2).
    assert (Htokc : tok = tokenOpenBracket \/ tok = tokenOpenParen \/ tok = tokenOpenBrace).
    { clear -Hao. induction Hao as [ann tok Hok| |]; auto. destruct Hok as [H|[H|[H _]]]; auto. }
    assert (Hctx : ctype_of (open_type tok) = open_ctype tok /\
                   (match open_ctype tok with CStruct => trsBeforeFieldName | _ => BTA end) = first_state tok).
    { destruct Htokc as [->|[->| ->]]; split; reflexivity. }
    destruct Hctx as [Hc1 Hc2]. rewrite Hc1, Hc2 in Ha2.
    destruct (IHseq (open_ctype tok) ctx eq_refl x2 r tok false None [] 0%N XNil (wn ++ rest) depth f
                (s "ok"%string :: rev (tr_head fld anns (open_type tok) false) ++ acc) Hi2 Ha2 ltac:(discriminate))
      as (x3 & S3 & k3 & Et & Hi3 & Ha3 & He3).
    { apply (settled_false _ _ _ w0); auto. }
    { exact Hcbody. }
    exists x3, S3, k3, false, None, [], 0%N, XNil. split; [|split; [exact Hi3|split; [exact Ha3|]]].
    + replace (cost (TCont anns (open_type tok) items) + f)%nat with (S (cost_items items + 1 + f))
        by (cbn [cost]; unfold cost_items; lia).
      rewrite (traverse_enter pd pt (cost_items items + 1 + f) x x1 x2 depth acc (open_type tok) Eo Ferr Ftype Fvalue Hty Es).
      rewrite Ffield, Fannots, Et. cbn [tr_tval]. fold (tr_items items).
      rewrite !rev_app_distr. cbn [rev app]. rewrite <- !app_assoc. cbn [app]. reflexivity.
    + left. apply (settled_false _ _ rest wn); auto.
  - (* the closing bracket *)
    intros ctx st pre tok n Hcl c ctx' Ectx x S0 k u fld0 ann0 ty0 v0 outer depth f acc Hi Ha Hst Hset Hcr.
    destruct (close_facts pd pt _ _ _ _ _ Hcl) as (Hn & Hnd & _).
    destruct (x_next_settled pd pt x S0 k u st ctx lst fld0 ann0 ty0 v0 (pre ++ outer) false
                (fun X2 => exists S2 st', X2 = mkax S2 tok false st' ctx true false lst None [] 0%N XNil /\ ends S2 outer)
                Hi Ha Hnd Hst Hset) as (x1 & E & Hi1 & HP).
    { intros S1 w1 kk fuel Hw1 Hcr1 He1 Hlen.
      destruct (ends_split S1 _ _ He1) as (Sa & -> & Hea). destruct (ends_split Sa _ _ Hea) as (S2 & -> & He2).
      rewrite !app_length in Hlen.
      destruct (close_loop pd pt lst ctx st pre tok n Hcl w1 S2 k (kk - n) fuel Hw1) as (st' & R).
      { apply no_cr_app. auto. }
      exists (mkax S2 tok false st' ctx true false lst None [] 0%N XNil). split; [|eauto].
      replace (S kk) with (n + S (kk - n))%nat by lia. exact R. }
    destruct HP as (S2 & st' & Ha1 & He2). pose proof (x_op_next pd pt x x1 false E) as Eo.
    subst ctx.
    destruct (rrun_step_out S2 tok st' c ctx' lst None [] 0%N XNil x1 Hi1 Ha1) as (x2 & Es & Hi2 & Ha2).
    exists x2, S2, tok. split; [|auto].
    change (cost_items [] + 1 + f)%nat with (S f).
    rewrite (traverse_exit pd pt f x x1 x2 depth acc Eo Es). reflexivity.
  - (* a member, then the rest *)
    intros ctx st pre fld n wb text fol tv wn rest items Hsep Hwb Hpw Htv IHv Hwn Hfol Hcs IHs
           c ctx' Ectx x S0 k u fld0 ann0 ty0 v0 outer depth f acc Hi Ha Hst Hset Hcr.
    destruct (cseq_first2 _ _ _ _ Hcs) as [_ Hro]. specialize (Hro outer).
    assert (Hcr' := Hcr). apply no_cr_app in Hcr' as [Hcp Hcr']. apply no_cr_app in Hcr' as [Hcb Hcr'].
    apply no_cr_app in Hcr' as [Hct Hcr']. apply no_cr_app in Hcr' as [Hcn Hcrest].
    destruct (IHv pre st fld n wb Hsep Hwb Hpw x wn (rest ++ outer) (S depth)
                (cost_items items + 1 + f)%nat acc) as (x1 & S1 & k1 & u1 & fld1 & ann1 & ty1 & v1 & Et & Hi1 & Ha1 & Hset1).
    { rewrite <- !app_assoc in Hset. apply (nextable_settled x S0 k u st ctx fld0 ann0 ty0 v0); auto.
      exact (proj2 (sep_facts2 _ _ _ _ _ Hsep)). }
    { repeat (apply no_cr_app; split); auto. }
    { exact Hwn. }
    { apply Hfol. }
    { now apply startok_rest_ok. }
    apply (settled_w_startok _ _ _ _ Hro) in Hset1.
    destruct (IHs c ctx' Ectx x1 S1 k1 u1 fld1 ann1 ty1 v1 outer depth f (rev (tr_tval fld tv) ++ acc) Hi1 Ha1)
      as (x2 & S2 & k2 & Et2 & Hi2 & Ha2 & He2); auto.
    exists x2, S2, k2. split; [|auto].
    replace (cost_items ((fld, tv) :: items) + 1 + f)%nat with (cost tv + (cost_items items + 1 + f))%nat
      by (unfold cost_items; cbn [fold_right snd]; lia).
    rewrite Et, Et2. unfold tr_items. cbn [flat_map]. rewrite rev_app_distr, <- !app_assoc. reflexivity.
Qed.
End Tree.

(* ---- top-level streams of value trees ---------------------------------------------------------------------------------------- *)
Section TopTree.
Variable pd : list N -> res dec.
Variable pt : list N -> res (list N).
Variable lst : rlst.
Notation BTA := trsBeforeTypeAnnotations.
Notation api := (x_next_inner pd pt).

Inductive tops_spell2 : list N -> list tval -> Prop :=
| tp2_nil : tops_spell2 [] []
(* a `//` comment that runs to the end of the input *)
| tp2_comment body : Forall not_nl body -> tops_spell2 (47 :: 47 :: body)%N []
| tp2_cons text fol tv wn rest tvs :
    tspell2 pd pt lst [] text fol tv -> ws_run wn -> fol wn rest -> tops_spell2 rest tvs ->
    tops_spell2 (text ++ wn ++ rest) (tv :: tvs)
(* the bare version marker $ion_1_0 between values (not followed by `::`, which would make it an annotation, nor
   directly by the final comment): it is consumed and denotes no value; it resets the symbol context to the system
   table, which is the context of the whole stream here *)
| tp2_ivm wn rest tvs :
    ws_run wn -> f_ident wn rest -> ws_stop (zs rest) = true -> tops_spell2 rest tvs ->
    tops_spell2 (ivm_text ++ wn ++ rest) tvs.

Lemma tops_spell_incl text tvs : tops_spell pd pt lst text tvs -> tops_spell2 text tvs.
Proof.
  induction 1 as [|text fol tv wn rest tvs Htv Hwn Hfol Hvs IH]; [constructor|].
  apply (tp2_cons text fol); auto. now apply (proj1 (tspell_incl pd pt lst)).
Qed.

Lemma ivm_startok t : startok (ivm_text ++ t).
Proof.
  assert (E : ivm_text = 36%N :: tl ivm_text) by reflexivity. rewrite E. cbn [app]. apply val_start_startok.
  unfold val_start; repeat split; (reflexivity || discriminate).
Qed.
Lemma tops_first2 rest tvs : tops_spell2 rest tvs -> rest_ok [] rest.
Proof.
  destruct 1 as [|body Hb|text fol tv wn rest tvs Htv Hwn Hfol Hvs|wn rest tvs Hwn Hfi Hst Hvs].
  - left; split; reflexivity.
  - right; split; [reflexivity|exists body; auto].
  - destruct (tspell_first2 pd pt lst [] text fol tv Htv) as [_ Hst]. specialize (Hst wn rest Hfol).
    now apply startok_rest_ok.
  - apply startok_rest_ok, ivm_startok.
Qed.

Lemma cost_bound2 :
  (forall ctx text fol tv, tspell2 pd pt lst ctx text fol tv -> (cost tv <= length text)%nat) /\
  (forall ctx st text items, cseq2 pd pt lst ctx st text items -> (cost_items items + 1 <= length text)%nat).
Proof.
  apply tspell2_cseq2_ind.
  - intros ctx text fol anns ty v Hav. destruct (aval_nonempty2 pd pt lst ctx [] text fol anns ty v Hav) as (c & r & -> & _).
    cbn [cost length]. lia.
  - intros ctx otext anns tok w0 body items Hao Hw0 Hb123 Hcs IH.
    destruct (aopen_first lst ctx [] otext anns tok Hao) as (c & r & -> & _).
    cbn [cost]. fold (cost_items items). rewrite !app_length. cbn [length]. lia.
  - intros ctx st pre tok n Hcl. destruct (close_facts pd pt _ _ _ _ _ Hcl) as (Hn & _). cbn [cost_items fold_right]. lia.
  - intros ctx st pre fld n wb text fol tv wn rest items Hsep Hwb Hpw Htv IHv Hwn Hfol Hcs IHs.
    unfold cost_items in *. cbn [fold_right snd]. rewrite !app_length. lia.
Qed.

(* the reader in front of the rest of a top-level stream: Next will run its loop there, or (when it has looked through
   the final comment already) at the very end *)
Definition topready (x : xstate) (text : list N) : Prop :=
  nextable pd pt lst x BTA [] text \/ (rest_eofc text /\ nextable pd pt lst x BTA [] []).

Lemma topready_settled x S' k' u' fld ann ty v rest :
  xok x -> xabs x = mkax S' k' u' BTA [] false false lst fld ann ty v -> settled_w S' k' u' rest -> topready x rest.
Proof.
  intros Hi Ha [Hset|[He Hset]]; [left|right; split; [exact He|]];
    apply (nextable_settled pd pt lst x S' k' u' BTA [] fld ann ty v); auto; discriminate.
Qed.

(* the version marker is passed within the same call of Next *)
Lemma nextable_ivm x wn rest :
  lst = LSys -> ws_run wn -> no_cr wn -> f_ident wn rest -> ws_stop (zs rest) = true -> dcolon (zs rest) = false ->
  nextable pd pt lst x BTA [] (ivm_text ++ wn ++ rest) -> nextable pd pt lst x BTA [] rest.
Proof.
  intros Hl Hwn Hcrn Hfi Hst Hdc Hnx b Post Hloop. apply Hnx.
  intros S1 w1 k1 kk fuel Hw1 Hcr1 He1 Hlen.
  destruct (ends_split S1 _ _ He1) as (Sa & -> & Hea). destruct (ends_split Sa _ _ Hea) as (Sb & -> & Heb).
  destruct (ends_split Sb _ _ Heb) as (S2 & -> & He2).
  rewrite !app_length in Hlen. change (length ivm_text) with 8%nat in Hlen.
  destruct kk as [|kk]; [lia|].
  destruct (Hloop (sym_rest wn S2) [] tokenSymbol kk fuel ws_nil (Forall_nil _)) as (X2 & R & HP).
  { cbn [app]. now apply ends_sym_rest. }
  { cbn [app length]. lia. }
  exists X2. split; [|exact HP].
  subst lst. apply (ivm_step pd pt api w1 wn S2 k1 LSys None 0%N XNil (S kk) fuel b X2); auto.
  - now rewrite (ends_ws_stop _ _ He2).
  - now rewrite (ends_dcolon _ _ He2).
  - rewrite (ends_shead _ _ (ends_zs_app wn S2 rest He2)). exact Hfi.
Qed.

(* the end of the input *)
Lemma top_eof_n x : nextable pd pt lst x BTA [] [] ->
  exists x', x_next pd pt x = (x', Ok false) /\ x_eof x' = true /\ x_err x' = false.
Proof.
  intros Hnx.
  destruct (Hnx false (fun X2 => a_eof X2 = true /\ a_err X2 = false)) as (x2 & E & Hi2 & He & Hr).
  - intros S1 w1 k1 kk fuel Hw1 Hcr1 He1 Hlen. rewrite app_nil_r in He1. destruct He1 as (e & Hee & ES1). cbn [zs map app] in ES1.
    assert (Hse : ws_stop e = true) by (apply ws_stop_eof, all_eof_shead; exact Hee).
    set (X2 := mkax (after_stop e) tokenEOF true BTA [] true false lst None [] 0%N XNil).
    exists X2. split; [|split; reflexivity]. subst S1.
    intros y Hy Hay.
    pose proof (rrun_lift t_next (mkax (zs w1 ++ e) k1 false BTA [] false false lst None [] 0%N XNil)
                  tt (after_stop e) tokenEOF true) as HL.
    destruct (HL (runK_t_next w1 e k1 _ Hw1 Hcr1 Hse ltac:(rewrite (all_eof_shead e Hee); apply runK_t_ok)) y Hy Hay)
      as (y1 & E1 & Hy1 & Hay1).
    unfold ax_tok in Hay1. cbn [a_state a_ctx a_eof a_err a_lst a_field a_annots a_type a_value] in Hay1.
    pose proof Hay1 as Hay1'. xfields Hay1.
    assert (E2 : next_before_type_annotations pd pt api fuel y1 = (xs_eof y1 true, Ok true)).
    { unfold next_before_type_annotations. unfold rbind at 1. unfold rget. cbv zeta. rewrite Fk, Fannots. tok_cbn.
      unfold x_at_top. rewrite Fctx. reflexivity. }
    exists (xs_eof y1 true). rewrite (next_loop_bta pd pt api _ fuel y y1 _ true E1 Fst E2).
    split; [reflexivity|]. split; [exact Hy1|].
    unfold X2, xabs. cbn [x_tok x_state x_ctx x_eof x_err x_lst x_field x_annots x_type x_value xs_eof].
    rewrite Fs, Fk, Fu, Fst, Fctx, Ferr, Flst, Ffield, Fannots, Ftype, Fvalue. reflexivity.
  - exists x2. split; [exact E|]. split; [exact He|exact Hr].
Qed.

(* the end of the input behind a final comment *)
Lemma top_eof_eofc_n x body : Forall not_nl body -> nextable pd pt lst x BTA [] (47 :: 47 :: body)%N ->
  exists x', x_next pd pt x = (x', Ok false) /\ x_eof x' = true /\ x_err x' = false.
Proof.
  intros Hb Hnx.
  destruct (Hnx false (fun X2 => a_eof X2 = true /\ a_err X2 = false)) as (x2 & E & Hi2 & He & Hr).
  - intros S1 w1 k1 kk fuel Hw1 Hcr1 He1 Hlen. destruct He1 as (e & Hee & ES1).
    assert (Hc : eofc (w1 ++ 47 :: 47 :: body)%N) by now constructor.
    set (X2 := mkax (stail (stail e)) tokenEOF true BTA [] true false lst None [] 0%N XNil).
    exists X2. split; [|split; reflexivity]. subst S1.
    intros y Hy Hay.
    pose proof (rrun_lift t_next (mkax (zs (w1 ++ 47 :: 47 :: body)%N ++ e) k1 false BTA [] false false lst None [] 0%N XNil)
                  tt (stail (stail e)) tokenEOF true) as HL.
    destruct (HL (runK_t_next_eofc _ e k1 Hc Hee) y Hy Hay) as (y1 & E1 & Hy1 & Hay1).
    unfold ax_tok in Hay1. cbn [a_state a_ctx a_eof a_err a_lst a_field a_annots a_type a_value] in Hay1.
    pose proof Hay1 as Hay1'. xfields Hay1.
    assert (E2 : next_before_type_annotations pd pt api fuel y1 = (xs_eof y1 true, Ok true)).
    { unfold next_before_type_annotations. unfold rbind at 1. unfold rget. cbv zeta. rewrite Fk, Fannots. tok_cbn.
      unfold x_at_top. rewrite Fctx. reflexivity. }
    exists (xs_eof y1 true). rewrite (next_loop_bta pd pt api _ fuel y y1 _ true E1 Fst E2).
    split; [reflexivity|]. split; [exact Hy1|].
    unfold X2, xabs. cbn [x_tok x_state x_ctx x_eof x_err x_lst x_field x_annots x_type x_value xs_eof].
    rewrite Fs, Fk, Fu, Fst, Fctx, Ferr, Flst, Ffield, Fannots, Ftype, Fvalue. reflexivity.
  - exists x2. split; [exact E|]. split; [exact He|exact Hr].
Qed.

Lemma traverse_tops2 : forall text tvs, tops_spell2 text tvs -> no_cr text -> lst = LSys ->
  forall x f acc, topready x text ->
  exists x', x_traverse_loop pd pt (fold_right (fun tv n => cost tv + n)%nat 0%nat tvs + 1 + f) x 0 acc
             = (x', [70%N] :: rev (flat_map (tr_tval None) tvs) ++ acc, false) /\
             x_eof x' = true /\ x_err x' = false.
Proof.
  assert (Hend : forall x x' f acc, x_next pd pt x = (x', Ok false) -> x_eof x' = true -> x_err x' = false ->
            exists x', x_traverse_loop pd pt (fold_right (fun tv n => cost tv + n)%nat 0%nat [] + 1 + f) x 0 acc
                       = (x', [70%N] :: rev (flat_map (tr_tval None) []) ++ acc, false) /\ x_eof x' = true /\ x_err x' = false).
  { intros x x' f acc E He Hr. cbn [fold_right Nat.add x_traverse_loop].
    rewrite (x_op_next pd pt x x' false E). change (list_eqb [70%N] [70%N]) with true. cbv iota.
    exists x'. cbn [flat_map rev app]. auto. }
  induction 1 as [|body Hb|text fol tv wn rest tvs Htv Hwn Hfol Hvs IH|wn rest tvs Hwn Hfi Hst Hvs IH];
    intros Hcr Hl x f acc Hrd.
  - assert (Hnx : nextable pd pt lst x BTA [] []) by (destruct Hrd as [H|[_ H]]; exact H).
    destruct (top_eof_n x Hnx) as (x' & E & He & Hr). eauto.
  - destruct Hrd as [Hnx|[_ Hnx]].
    + destruct (top_eof_eofc_n x body Hb Hnx) as (x' & E & He & Hr). eauto.
    + destruct (top_eof_n x Hnx) as (x' & E & He & Hr). eauto.
  - destruct (vals_no_cr_split _ _ _ Hcr) as [Hcr1 Hcr2].
    pose proof (tops_first2 rest tvs Hvs) as Hrok.
    destruct (tspell_first2 pd pt lst [] text fol tv Htv) as [_ Hst]. specialize (Hst wn rest Hfol).
    assert (Hnx : nextable pd pt lst x BTA [] (text ++ wn ++ rest)).
    { destruct Hrd as [H|[H _]]; [exact H|]. now apply startok_not_eofc in H. }
    destruct (proj1 (traverse_tree2 pd pt lst) [] text fol tv Htv [] BTA None 0%nat [] (sep2_none lst []) ws_nil (fun _ => eq_refl)
                x wn rest 0%nat
                (fold_right (fun tv n => cost tv + n)%nat 0%nat tvs + 1 + f)%nat acc Hnx Hcr1 Hwn Hfol Hrok)
      as (x1 & S' & k' & u' & fld' & ann' & ty' & v' & Et & Hi1 & Ha1 & Hset1).
    destruct (IH Hcr2 Hl x1 f (rev (tr_tval None tv) ++ acc) (topready_settled x1 S' k' u' fld' ann' ty' v' rest Hi1 Ha1 Hset1))
      as (x' & Et' & He & Hr).
    exists x'. split; [|auto]. cbn [fold_right].
    replace (cost tv + fold_right (fun tv0 n => cost tv0 + n) 0 tvs + 1 + f)%nat
      with (cost tv + (fold_right (fun tv0 n => cost tv0 + n) 0 tvs + 1 + f))%nat by lia.
    rewrite Et, Et'. cbn [flat_map]. rewrite rev_app_distr, <- app_assoc. reflexivity.
  - apply no_cr_app in Hcr as [_ Hcr]. apply no_cr_app in Hcr as [Hcrn Hcr2].
    assert (Hnx : nextable pd pt lst x BTA [] (ivm_text ++ wn ++ rest)).
    { destruct Hrd as [H|[H _]]; [exact H|]. now apply (startok_not_eofc _ (ivm_startok (wn ++ rest))) in H. }
    assert (Hdc : dcolon (zs rest) = false).
    { destruct (tops_first2 rest tvs Hvs) as [[_ H]|[_ (body & -> & _)]]; [exact H|discriminate Hst]. }
    apply (IH Hcr2 Hl x f acc). left. now apply (nextable_ivm x wn rest).
Qed.

Theorem traverse_stream2 inp w0 text tvs :
  norm inp = w0 ++ text -> ws_run w0 -> tops_spell2 text tvs ->
  lst = LSys -> x_traverse pd pt inp false = ttrace tvs.
Proof.
  intros Hn Hw0 Hvs Hl. unfold x_traverse.
  pose proof (norm_no_cr inp) as Hcr. rewrite Hn in Hcr. apply no_cr_app in Hcr as [Hcr0 Hcrt].
  assert (Hi : xok (x_init inp false)) by reflexivity.
  assert (Ha : xabs (x_init inp false)
               = mkax (zs (norm inp)) tokenError false BTA [] false false lst None [] 0%N XNil) by (rewrite Hl; reflexivity).
  assert (Hset : settled_w (zs (norm inp)) tokenError false text).
  { left. apply (settled_false _ _ text w0); auto. rewrite Hn. exists []. split; [constructor|now rewrite app_nil_r]. }
  set (c := fold_right (fun tv n => cost tv + n)%nat 0%nat tvs).
  assert (Hf : (c + 1 <= 4 * length inp + 17)%nat).
  { assert (Hl' : forall t v, tops_spell2 t v -> (fold_right (fun tv n => cost tv + n)%nat 0%nat v <= length t)%nat).
    { induction 1 as [|body Hb|tx fol tv wn rest vs' Htv Hwn Hfol Hv IH|wn rest vs' Hwn Hfi Hst Hv IH]; [cbn; lia|cbn; lia| |].
      - pose proof (proj1 cost_bound2 [] tx fol tv Htv). cbn [fold_right]. rewrite !app_length. lia.
      - rewrite !app_length. lia. }
    pose proof (Hl' _ _ Hvs). pose proof (norm_length inp) as Hnl. rewrite Hn, app_length in Hnl. unfold c. lia. }
  destruct (traverse_tops2 text tvs Hvs Hcrt Hl (x_init inp false) (4 * length inp + 17 - (c + 1))%nat []
              (topready_settled _ _ _ _ _ _ _ _ _ Hi Ha Hset))
    as (x' & Et & He & Hr).
  replace (fold_right (fun tv n => cost tv + n)%nat 0%nat tvs + 1 + (4 * length inp + 17 - (c + 1)))%nat
    with (4 * length inp + 17)%nat in Et by (fold c; lia).
  rewrite Et. cbv iota.
  assert (Hnext : x_next pd pt x' = (x', Ok false)).
  { unfold x_next, x_next_with. rewrite He, orb_true_r. reflexivity. }
  cbn [x_run]. unfold x_op_res at 1. rewrite Hr. cbv iota.
  cbn [x_run]. unfold x_op_res at 1. rewrite Hnext.
  cbn [x_run]. unfold x_op_res at 1. rewrite Hr. cbv iota.
  cbn [x_run]. unfold x_op_res at 1. rewrite Hnext.
  cbn [x_run]. unfold x_op_res at 1. rewrite Hr. cbv iota.
  cbn [x_run rev app]. unfold ttrace, tr_tail. rewrite app_nil_r.
  rewrite rev_involutive, <- app_assoc. reflexivity.
Qed.
End TopTree.

Theorem traverse_stream2_text inp w0 text tvs :
  norm inp = w0 ++ text -> ws_run w0 -> tops_spell2 parse_decimal_text parse_ts_text LSys text tvs ->
  x_traverse parse_decimal_text parse_ts_text inp false = ttrace tvs.
Proof. intros Hn Hw Hv. exact (traverse_stream2 parse_decimal_text parse_ts_text LSys inp w0 text tvs Hn Hw Hv eq_refl). Qed.
