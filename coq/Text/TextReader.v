(* TextReader.v — executable model of ion/textreader.go (the five-state machine
   over tokens), the accessors of ion/reader.go, the text side of
   ion/symboltoken.go (newSymbolToken, `$n` identifiers), symbol lookup by name
   (ion/symboltable.go FindByName), parseInt/parseFloat of ion/textutils.go and
   ion/readlocalsymboltable.go driven through the text reader (nil catalog).

   The symbol-table types and by-ID lookups are those of Bin/BinReader.v; the
   LST-reading functions are transcribed again here because BinReader's are
   tied to its own reader state.  Same observable interface as the binary
   reader model: [rop], and the trace tokens of [x_op]/[x_run]/[x_traverse].

   External parsers are Section parameters: [parse_decimal] (ion.ParseDecimal)
   and [parse_ts] (ion.ParseTimestamp; its result is the canonical field tuple
   printed after `T`).  strconv.ParseFloat is not modelled: a parsed float is
   carried as its literal text (`Ftext<hex>`), only its syntax check is.
   A type/value pair that the reader never builds (for instance type Int with a
   string value, where Go's type assertion would panic) is treated like the nil
   value of that type.  No proofs. *)
From Coq Require Import String List NArith ZArith Bool.
From IonV Require Import Base.Wire Bin.Bits Data.Ion Num.Float Bin.BitStream Bin.BinReader
  Text.Tokenizer Text.Skipper.
Import ListNotations.
Open Scope N_scope.

(* ---- symbol lookup by name ----------------------------------------------------------------------- *)
(* buildIndex: first occurrence, `` is never indexed *)
Definition syms_find_by_name (syms : list text) (off : N) (t : text) : option N :=
  match t with [] => None | _ => index_of t syms off end.
(* lst.FindByName over the imports (offsets[i] + id) and then the local index *)
Fixpoint imps_find_by_name (imps : list imp) (off : N) (t : text) : option N :=
  match imps with
  | [] => None
  | i :: r => match syms_find_by_name (im_syms i) 1 t with
              | Some id => Some (wrap64 (off + id))
              | None => imps_find_by_name r (wrap64 (off + im_maxid i)) t
              end
  end.
Definition lst_find_by_name (l : rlst) (t : text) : option N :=
  match l with
  | LSys => syms_find_by_name system_symbols 1 t
  | LTab tb =>
    match imps_find_by_name (lt_imps tb) 0 t with
    | Some id => Some id
    | None => option_map wrap64 (syms_find_by_name (lt_locals tb) (max_import_id (lt_imps tb) + 1) t)
    end
  end.

(* strconv.Atoi / ParseInt(s, 10, 64): optional sign, at least one digit, int64 range *)
Definition go_digits_val (radix : N) (l : list N) : option Z :=
  match l with
  | [] => None
  | _ => fold_left (fun acc c => match acc, hexval c with
                                 | Some a, Some d => if d <? radix then Some (a * Z.of_N radix + Z.of_N d)%Z else None
                                 | _, _ => None
                                 end) l (Some 0%Z)
  end.
Definition go_signed_val (radix : N) (l : list N) : option Z :=
  match l with
  | 45 :: r => option_map Z.opp (go_digits_val radix r)
  | 43 :: r => go_digits_val radix r
  | _ => go_digits_val radix l
  end.
Definition in_int64 (z : Z) : bool := ((-9223372036854775808 <=? z) && (z <=? 9223372036854775807))%Z.
Definition in_int32 (z : Z) : bool := ((-2147483648 <=? z) && (z <=? 2147483647))%Z.
(* symbolIdentifier: `$` followed by one or more decimal digits and nothing else (no sign),
   then ParseInt(_, 10, 64) on the digits *)
Definition dec_digit_b (c : N) : bool := (48 <=? c) && (c <=? 57).
Definition symbol_identifier (t : text) : option Z :=
  match t with
  | 36 :: (_ :: _) as r =>
    if forallb dec_digit_b r then
      match go_signed_val 10 r with
      | Some z => if in_int64 z then Some z else None
      | None => None
      end
    else None
  | _ => None
  end.
(* isSymbolIDOutOfRange: `$` and digits only, yet not a symbol identifier (the number does not fit) *)
Definition symbol_id_out_of_range (t : text) : bool :=
  match t with
  | 36 :: (_ :: _) as r =>
    forallb dec_digit_b r && match symbol_identifier t with Some _ => false | None => true end
  | _ => false
  end.
(* NewSymbolToken(table, text): the text, with its ID when the table has it *)
Definition name_symbol_token (l : rlst) (t : text) : tok :=
  {| tk_text := Some t;
     tk_sid := match lst_find_by_name l t with Some id => to_i64 id | None => (-1)%Z end |}.
(* newSymbolToken(table, text) *)
Definition new_symbol_token (l : rlst) (t : text) : res tok :=
  match symbol_identifier t with
  | Some sid =>
    if (sid <? 0)%Z then Err
    else match tok_by_sid l (Z.to_N sid) with Some k => Ok k | None => Err end
  | None =>
    if symbol_id_out_of_range t then Err        (* an ID that does not fit an int64 is undefined *)
    else Ok (name_symbol_token l t)
  end.

(* ---- textutils.go: parseInt, parseFloat ------------------------------------------------------------- *)
(* parseInt(str, radix): digits[0] and digits[2:] panic on too short a string *)
Definition parse_int (str : list N) (radix : N) : res intval :=
  let digits_r : res (list N) :=
    if radix =? 10 then Ok str else
    match str with
    | [] => Panic                                                   (* digits[0] *)
    | c :: r =>
      let neg := c =? 45 in
      let d := if neg then r else str in
      match d with
      | _ :: _ :: d2 => Ok (if neg then 45 :: d2 else d2)
      | _ => Panic                                                  (* digits[2:] *)
      end
    end in
  do digits <- digits_r;
  match go_signed_val radix digits with
  | None => Err
  | Some z => Ok (if in_int64 z then I64 z else IBig z)
  end.

(* the syntax strconv.ParseFloat accepts for a decimal literal (a range error is ignored by parseFloat) *)
Fixpoint span_digits (l : list N) : nat * list N :=
  match l with
  | c :: r => if (48 <=? c) && (c <=? 57) then let '(n, r') := span_digits r in (S n, r') else (O, l)
  | [] => (O, [])
  end.
Definition float_syntax_ok (l : list N) : bool :=
  let l := match l with 43 :: r | 45 :: r => r | _ => l end in
  let '(n1, l) := span_digits l in
  let '(n2, l) := match l with 46 :: r => span_digits r | _ => (O, l) end in
  if (n1 + n2 =? 0)%nat then false else
  match l with
  | [] => true
  | c :: r =>
    if (c =? 101) || (c =? 69) then
      let r := match r with 43 :: r' | 45 :: r' => r' | _ => r end in
      let '(n3, r) := span_digits r in
      negb (n3 =? 0)%nat && match r with [] => true | _ => false end
    else false
  end.

(* ---- base64.StdEncoding.DecodeString on text without \r \n ------------------------------------------- *)
Definition b64val (c : N) : option N :=
  if (65 <=? c) && (c <=? 90) then Some (c - 65)
  else if (97 <=? c) && (c <=? 122) then Some (c - 71)
  else if (48 <=? c) && (c <=? 57) then Some (c + 4)
  else if c =? 43 then Some 62 else if c =? 47 then Some 63 else None.
Fixpoint b64_decode (l : list N) : option (list N) :=
  match l with
  | [] => Some []
  | a :: b :: c :: d :: r =>
    match b64val a, b64val b with
    | Some x, Some y =>
      if c =? 61 then
        if (d =? 61) && match r with [] => true | _ => false end then Some [(x * 4 + y / 16) mod 256] else None
      else match b64val c with
           | None => None
           | Some z =>
             if d =? 61 then
               match r with
               | [] => Some [(x * 4 + y / 16) mod 256; (y * 16 + z / 4) mod 256]
               | _ => None
               end
             else match b64val d with
                  | None => None
                  | Some w =>
                    option_map (fun t => (x * 4 + y / 16) mod 256 :: (y * 16 + z / 4) mod 256 :: (z * 64 + w) mod 256 :: t)
                               (b64_decode r)
                  end
           end
    | _, _ => None
    end
  | _ => None
  end.

(* ---- reader state ------------------------------------------------------------------------------------- *)
Definition trsDone : N := 0.  Definition trsBeforeFieldName : N := 1.
Definition trsBeforeTypeAnnotations : N := 2.  Definition trsBeforeContainer : N := 3.
Definition trsAfterValue : N := 4.

Inductive xvalue :=
| XNil | XBool (b : bool) | XInt (i : intval) | XFloatBits (bits : N) | XFloatText (lit : list N)
| XDecimal (d : dec) | XTimestamp (fields : list N) | XSymbol (t : tok) | XString (t : text)
| XBytes (b : list N) | XContainer.

Record xstate := {
  x_tok : tstate;
  x_state : N;
  x_ctx : list ctype;           (* top first; [] = top level *)
  x_eof : bool;
  x_err : bool;
  x_lst : rlst;
  x_field : option tok;
  x_annots : list tok;
  x_type : N;
  x_value : xvalue
}.
Definition x_init (inp : list N) (ioerr : bool) : xstate :=
  {| x_tok := t_init inp ioerr; x_state := trsBeforeTypeAnnotations; x_ctx := []; x_eof := false; x_err := false;
     x_lst := LSys; x_field := None; x_annots := []; x_type := 0; x_value := XNil |}.

Definition xs_tok (x : xstate) (t : tstate) : xstate :=
  {| x_tok := t; x_state := x_state x; x_ctx := x_ctx x; x_eof := x_eof x; x_err := x_err x; x_lst := x_lst x;
     x_field := x_field x; x_annots := x_annots x; x_type := x_type x; x_value := x_value x |}.
Definition xs_state (x : xstate) (s : N) : xstate :=
  {| x_tok := x_tok x; x_state := s; x_ctx := x_ctx x; x_eof := x_eof x; x_err := x_err x; x_lst := x_lst x;
     x_field := x_field x; x_annots := x_annots x; x_type := x_type x; x_value := x_value x |}.
Definition xs_ctx (x : xstate) (c : list ctype) : xstate :=
  {| x_tok := x_tok x; x_state := x_state x; x_ctx := c; x_eof := x_eof x; x_err := x_err x; x_lst := x_lst x;
     x_field := x_field x; x_annots := x_annots x; x_type := x_type x; x_value := x_value x |}.
Definition xs_eof (x : xstate) (e : bool) : xstate :=
  {| x_tok := x_tok x; x_state := x_state x; x_ctx := x_ctx x; x_eof := e; x_err := x_err x; x_lst := x_lst x;
     x_field := x_field x; x_annots := x_annots x; x_type := x_type x; x_value := x_value x |}.
Definition xs_lst (x : xstate) (l : rlst) : xstate :=
  {| x_tok := x_tok x; x_state := x_state x; x_ctx := x_ctx x; x_eof := x_eof x; x_err := x_err x; x_lst := l;
     x_field := x_field x; x_annots := x_annots x; x_type := x_type x; x_value := x_value x |}.
Definition xs_field (x : xstate) (f : option tok) : xstate :=
  {| x_tok := x_tok x; x_state := x_state x; x_ctx := x_ctx x; x_eof := x_eof x; x_err := x_err x; x_lst := x_lst x;
     x_field := f; x_annots := x_annots x; x_type := x_type x; x_value := x_value x |}.
Definition xs_annots (x : xstate) (a : list tok) : xstate :=
  {| x_tok := x_tok x; x_state := x_state x; x_ctx := x_ctx x; x_eof := x_eof x; x_err := x_err x; x_lst := x_lst x;
     x_field := x_field x; x_annots := a; x_type := x_type x; x_value := x_value x |}.
Definition xs_val (x : xstate) (t : N) (v : xvalue) : xstate :=
  {| x_tok := x_tok x; x_state := x_state x; x_ctx := x_ctx x; x_eof := x_eof x; x_err := x_err x; x_lst := x_lst x;
     x_field := x_field x; x_annots := x_annots x; x_type := t; x_value := v |}.
(* explode *)
Definition x_explode (x : xstate) : xstate :=
  {| x_tok := x_tok x; x_state := trsDone; x_ctx := x_ctx x; x_eof := x_eof x; x_err := true; x_lst := x_lst x;
     x_field := x_field x; x_annots := x_annots x; x_type := x_type x; x_value := x_value x |}.
Definition x_clear (x : xstate) : xstate := xs_val (xs_annots (xs_field x None) []) 0 XNil.
Definition x_is_null (x : xstate) : bool :=
  negb (x_type x =? 0) && match x_value x with XNil => true | _ => false end.
Definition x_in_struct (x : xstate) : bool := match x_ctx x with CStruct :: _ => true | _ => false end.
Definition x_at_top (x : xstate) : bool := match x_ctx x with [] => true | _ => false end.
(* stateAfterValue *)
Definition state_after_value (x : xstate) : N :=
  match x_ctx x with
  | CList :: _ | CStruct :: _ => trsAfterValue
  | _ => trsBeforeTypeAnnotations
  end.

(* ---- the reader monad: the state survives an error ---------------------------------------------------- *)
Definition R (A : Type) : Type := xstate -> xstate * res A.
Definition rret {A} (a : A) : R A := fun x => (x, Ok a).
Definition rfail {A} : R A := fun x => (x, Err).
Definition rpanic {A} : R A := fun x => (x, Panic).
Definition rbind {A B} (m : R A) (f : A -> R B) : R B :=
  fun x => match m x with
           | (x', Ok a) => f a x'
           | (x', Err) => (x', Err)
           | (x', Panic) => (x', Panic)
           | (x', OutOfFuel) => (x', OutOfFuel)
           end.
Notation "'rdo' x <- m ; k" := (rbind m (fun x => k))
  (at level 200, x name, m at level 100, k at level 200, right associativity).
Notation "'rdo' ' p <- m ; k" := (rbind m (fun p => k))
  (at level 200, p pattern, m at level 100, k at level 200, right associativity).
(* a tokenizer operation inside the reader *)
Definition lift {A} (m : M A) : R A :=
  fun x => match m (x_tok x) with
           | Ok (a, t) => (xs_tok x t, Ok a)
           | Err => (x, Err)
           | Panic => (x, Panic)
           | OutOfFuel => (x, OutOfFuel)
           end.
Definition rget : R xstate := fun x => (x, Ok x).
Definition rmod (f : xstate -> xstate) : R unit := fun x => (f x, Ok tt).
Definition of_res {A} (r : res A) : R A := fun x => (x, r).

Definition is_ion_symbol_table (a : list tok) : bool :=
  match a with
  | t :: _ => match tk_text t with Some y => list_eqb y (s "$ion_symbol_table"%string) | None => false end
  | [] => false
  end.

Definition inf_bits : N := 9218868437227405312.        (* 0x7FF0000000000000 *)
Definition neg_inf_bits : N := 18442240474082181120.   (* 0xFFF0000000000000 *)

Section Reader.
Variable parse_decimal : list N -> res dec.
Variable parse_ts : list N -> res (list N).
(* Reader.Next as seen from readLocalSymbolTable *)
Variable api_next : xstate -> xstate * res bool.

(* ---- StepIn / StepOut: Ok true = nil, Ok false = an error is returned -------------------------------- *)
Definition x_step_in : R bool := fun x =>
  if x_err x then (x, Ok false) else
  if negb (x_state x =? trsBeforeContainer) then (x, Ok false) else
  let c := if x_type x =? TList then Some CList else if x_type x =? TSexp then Some CSexp
           else if x_type x =? TStruct then Some CStruct else None in
  match c with
  | None => (x, Panic)                                (* containerTypeToCtx panics *)
  | Some c =>
    let x := xs_ctx x (c :: x_ctx x) in
    let x := xs_state x (match c with CStruct => trsBeforeFieldName | _ => trsBeforeTypeAnnotations end) in
    let x := x_clear x in
    (xs_tok x (set_unfinished (x_tok x) false), Ok true)
  end.

Definition x_step_out : R bool := fun x =>
  if x_err x then (x, Ok false) else
  match x_ctx x with
  | [] => (x, Ok false)
  | c :: rest =>
    match lift t_finish_value x with
    | (x, Err) => (x_explode x, Ok false)
    | (x, Panic) => (x, Panic)
    | (x, OutOfFuel) => (x, OutOfFuel)
    | (x, Ok _) =>
      let skipped := if x_eof x then (x, Ok tt) else lift (t_skip_container_contents c) x in
      match skipped with
      | (x, Err) => (x_explode x, Ok false)
      | (x, Panic) => (x, Panic)
      | (x, OutOfFuel) => (x, OutOfFuel)
      | (x, Ok _) =>
        let x := xs_ctx x rest in
        let x := xs_state x (state_after_value x) in
        (xs_eof (x_clear x) false, Ok true)
      end
    end
  end.

(* ---- readLocalSymbolTable over the Reader interface (nil catalog) -------------------------------------- *)
Definition field_text (x : xstate) : option text :=
  match x_field x with Some t => tk_text t | None => None end.
Definition keep_bad {A B} (r : res A) : res B :=
  match r with Panic => Panic | OutOfFuel => OutOfFuel | _ => Err end.

(* readSymbols *)
Fixpoint read_symbols_loop (fuel : nat) (x : xstate) (acc : list text) : xstate * res (list text) :=
  match fuel with
  | O => (x, OutOfFuel)
  | S f =>
    match api_next x with
    | (x, Ok true) =>
      let sym := if x_type x =? TString
                 then match x_value x with XString t => t | _ => [] end
                 else [] in
      read_symbols_loop f x (acc ++ [sym])
    | (x, Ok false) => (x, Ok acc)
    | (x, r) => (x, keep_bad r)
    end
  end.
Definition read_symbols (fuel : nat) (x : xstate) : xstate * res (list text) :=
  if negb (x_type x =? TList) || x_is_null x then (x, Ok []) else
  match x_step_in x with
  | (x, Ok true) =>
    match read_symbols_loop fuel x [] with
    | (x, Ok syms) =>
      match x_step_out x with
      | (x, Ok true) => (x, Ok syms)
      | (x, r) => (x, keep_bad r)
      end
    | (x, r) => (x, r)
    end
  | (x, r) => (x, keep_bad r)                         (* StepIn refuses a null list: error *)
  end.

(* readImports: "val.LocalSID == 3 || *val.Text == $ion_symbol_table" *)
Definition is_append_marker (t : tok) : bool :=
  (tk_sid t =? 3)%Z ||
  match tk_text t with Some y => list_eqb y (s "$ion_symbol_table"%string) | None => false end.

Record impdecl := { id_name : text; id_version : Z; id_maxid : Z }.
Fixpoint read_import_loop (fuel : nat) (x : xstate) (d : impdecl) : xstate * res impdecl :=
  match fuel with
  | O => (x, OutOfFuel)
  | S f =>
    match api_next x with
    | (x, Ok true) =>
      if x_err x then (x, Err) else
      match field_text x with
      | None => (x, Err)
      | Some fnm =>
        if list_eqb fnm (s "name"%string) then
          (if x_type x =? TString
           then match x_value x with
                | XString t => read_import_loop f x {| id_name := t; id_version := id_version d; id_maxid := id_maxid d |}
                | _ => read_import_loop f x d                (* val == nil: ignored *)
                end
           else read_import_loop f x d)
        else if list_eqb fnm (s "version"%string) then
          (if x_type x =? TInt
           then match x_value x with
                | XInt iv =>
                  let z := match iv with I64 z => z | IBig z => z end in
                  if negb (in_int64 z) then (x, Err)
                  else if negb (in_int32 z) then (x, Err)
                  else read_import_loop f x {| id_name := id_name d; id_version := z; id_maxid := id_maxid d |}
                | _ => read_import_loop f x d                (* IntValue answers (nil, nil): ignored *)
                end
           else read_import_loop f x d)
        else if list_eqb fnm (s "max_id"%string) then
          (if x_type x =? TInt
           then if x_is_null x then (x, Err) else
                match x_value x with
                | XInt iv =>
                  let z := match iv with I64 z => z | IBig z => z end in
                  if negb (in_int64 z) then (x, Err)
                  else read_import_loop f x {| id_name := id_name d; id_version := id_version d; id_maxid := z |}
                | _ => (x, Err)                              (* cannot occur: not null, type Int *)
                end
           else read_import_loop f x d)
        else read_import_loop f x d
      end
    | (x, Ok false) => (x, Ok d)
    | (x, r) => (x, keep_bad r)
    end
  end.
(* readImport: None = skipped *)
Definition read_import (fuel : nat) (x : xstate) : xstate * res (option imp) :=
  if negb (x_type x =? TStruct) || x_is_null x then (x, Ok None) else
  match x_step_in x with
  | (x, Ok true) =>
    match read_import_loop fuel x {| id_name := []; id_version := (-1)%Z; id_maxid := (-1)%Z |} with
    | (x, Ok d) =>
      match x_step_out x with
      | (x, Ok true) =>
        if list_eqb (id_name d) [] || list_eqb (id_name d) (s "$ion"%string) then (x, Ok None)
        else if (id_maxid d <? 0)%Z then (x, Err)        (* nil catalog: no exact match possible *)
        else (x, Ok (Some {| im_syms := []; im_maxid := Z.to_N (id_maxid d) |}))
      | (x, r) => (x, keep_bad r)
      end
    | (x, r) => (x, keep_bad r)
    end
  | (x, r) => (x, keep_bad r)
  end.

Fixpoint read_imports_loop (fuel : nat) (x : xstate) (acc : list imp) : xstate * res (list imp) :=
  match fuel with
  | O => (x, OutOfFuel)
  | S f =>
    match api_next x with
    | (x, Ok true) =>
      match read_import fuel x with
      | (x, Ok (Some i)) => read_imports_loop f x (acc ++ [i])
      | (x, Ok None) => read_imports_loop f x acc
      | (x, r) => (x, keep_bad r)
      end
    | (x, Ok false) => (x, Ok acc)
    | (x, r) => (x, keep_bad r)
    end
  end.
Definition read_imports (fuel : nat) (x : xstate) : xstate * res (list imp) :=
  let append_case :=
    if x_type x =? TSymbol then
      if x_err x then Some (x, Err) else
      match x_value x with
      | XSymbol t =>
        if is_append_marker t then
          match x_lst x with
          | LSys => Some (x, Ok [])
          | LTab t0 =>
            Some (x, Ok (lt_imps t0 ++ [{| im_syms := lt_locals t0; im_maxid := N.of_nat (length (lt_locals t0)) |}]))
          end
        else None
      | _ => None                                          (* val == nil: not the append case *)
      end
    else None in
  match append_case with
  | Some r => r
  | None =>
    if negb (x_type x =? TList) || x_is_null x then (x, Ok []) else
    match x_step_in x with
    | (x, Ok true) =>
      match read_imports_loop fuel x [] with
      | (x, Ok imps) =>
        match x_step_out x with
        | (x, Ok true) => (x, Ok imps)
        | (x, r) => (x, keep_bad r)
        end
      | (x, r) => (x, r)
      end
    | (x, r) => (x, keep_bad r)
    end
  end.

Fixpoint read_lst_loop (fuel : nat) (x : xstate) (imps : list imp) (syms : list text)
  (found_imp found_sym : bool) : xstate * res (list imp * list text) :=
  match fuel with
  | O => (x, OutOfFuel)
  | S f =>
    match api_next x with
    | (x, Ok true) =>
      if x_err x then (x, Err) else
      match field_text x with
      | None => (x, Err)
      | Some fnm =>
        if list_eqb fnm (s "symbols"%string) then
          if found_sym then (x, Err) else
          match read_symbols fuel x with
          | (x, Ok sy) => read_lst_loop f x imps sy found_imp true
          | (x, r) => (x, keep_bad r)
          end
        else if list_eqb fnm (s "imports"%string) then
          if found_imp then (x, Err) else
          match read_imports fuel x with
          | (x, Ok im) => read_lst_loop f x im syms true found_sym
          | (x, r) => (x, keep_bad r)
          end
        else read_lst_loop f x imps syms found_imp found_sym
      end
    | (x, Ok false) => (x, Ok (imps, syms))
    | (x, r) => (x, keep_bad r)
    end
  end.

Definition read_local_symbol_table (fuel : nat) (x : xstate) : xstate * res rlst :=
  match x_step_in x with
  | (x, Ok true) =>
    match read_lst_loop fuel x [] [] false false with
    | (x, Ok (imps, syms)) =>
      match x_step_out x with
      | (x, Ok true) =>
        let starts := match imps with
                      | i :: _ => list_eqb (hd [] (im_syms i)) (s "$ion"%string) && (im_maxid i =? 9)
                      | [] => false
                      end in
        (x, Ok (LTab {| lt_imps := process_imports imps starts; lt_locals := syms |}))
      | (x, r) => (x, keep_bad r)
      end
    | (x, r) => (x, keep_bad r)
    end
  | (x, r) => (x, keep_bad r)
  end.

(* ---- the token handlers ----------------------------------------------------------------------------------- *)
(* verifyUnquotedSymbol *)
Definition is_keyword (v : text) : bool :=
  list_eqb v (s "null"%string) || list_eqb v (s "true"%string) || list_eqb v (s "false"%string)
  || list_eqb v (s "nan"%string).

Definition set_value (t : N) (v : xvalue) : R unit :=
  rmod (fun x => xs_val (xs_state x (state_after_value x)) t v).

(* readNullType *)
Definition null_type_of (v : text) : option N :=
  if list_eqb v (s "null"%string) then Some TNull else if list_eqb v (s "bool"%string) then Some TBool
  else if list_eqb v (s "int"%string) then Some TInt else if list_eqb v (s "float"%string) then Some TFloat
  else if list_eqb v (s "decimal"%string) then Some TDecimal else if list_eqb v (s "timestamp"%string) then Some TTimestamp
  else if list_eqb v (s "symbol"%string) then Some TSymbol else if list_eqb v (s "string"%string) then Some TString
  else if list_eqb v (s "blob"%string) then Some TBlob else if list_eqb v (s "clob"%string) then Some TClob
  else if list_eqb v (s "list"%string) then Some TList else if list_eqb v (s "struct"%string) then Some TStruct
  else if list_eqb v (s "sexp"%string) then Some TSexp else None.
Definition read_null_type : R N :=
  (* the type name follows the dot directly *)
  rdo c <- lift t_peek;
  if negb (is_identifier_start c) then rfail else
  rdo _ <- lift t_next;
  rdo x <- rget;
  if negb (t_token (x_tok x) =? tokenSymbol) then rfail else
  rdo v <- lift (t_read_value tokenSymbol);
  match null_type_of v with Some t => rret t | None => rfail end.
(* onNull *)
Definition on_null (ws : bool) : R N :=
  if negb ws then
    rdo ok <- lift t_skip_dot;
    if ok then read_null_type else rret TNull
  else rret TNull.
(* onSymbol (tok is tokenSymbol, tokenSymbolOperator or tokenDot here) *)
Definition on_symbol (v : text) (ws : bool) : R unit :=
  if list_eqb v (s "null"%string) then rdo t <- on_null ws; set_value t XNil
  else if list_eqb v (s "true"%string) then set_value TBool (XBool true)
  else if list_eqb v (s "false"%string) then set_value TBool (XBool false)
  else if list_eqb v (s "nan"%string) then set_value TFloat (XFloatBits canonical_nan64)
  else rdo x <- rget;
       rdo k <- of_res (new_symbol_token (x_lst x) v);
       set_value TSymbol (XSymbol k).

(* onNumber *)
Definition on_number (tok : N) : R unit :=
  if tok =? tokenBinary then
    rdo v <- lift (t_read_value tok); rdo i <- of_res (parse_int v 2); set_value TInt (XInt i)
  else if tok =? tokenHex then
    rdo v <- lift (t_read_value tok); rdo i <- of_res (parse_int v 16); set_value TInt (XInt i)
  else if tok =? tokenNumber then
    rdo '(v, kd) <- lift t_read_number;
    match kd with
    | NKInt => rdo i <- of_res (parse_int v 10); set_value TInt (XInt i)
    | NKFloat => if float_syntax_ok v then set_value TFloat (XFloatText v) else rfail
    | NKDecimal => rdo d <- of_res (parse_decimal v); set_value TDecimal (XDecimal d)
    end
  else if tok =? tokenFloatInf then set_value TFloat (XFloatBits inf_bits)
  else if tok =? tokenFloatMinusInf then set_value TFloat (XFloatBits neg_inf_bits)
  else rpanic.
(* onTimestamp *)
Definition on_timestamp : R unit :=
  rdo v <- lift (t_read_value tokenTimestamp);
  rdo t <- of_res (parse_ts v);
  set_value TTimestamp (XTimestamp t).
(* onLob *)
Definition on_lob : R unit :=
  rdo c <- lift t_skip_lob_ws;
  if (c =? c_dquote)%Z then
    rdo v <- lift t_read_short_clob; set_value TClob (XBytes v)
  else if (c =? c_quote)%Z then
    rdo ok <- lift t_is_triple_quote;
    if negb ok then rfail else
    rdo v <- lift t_read_long_clob; set_value TClob (XBytes v)
  else
    rdo _ <- lift (t_unread c);
    rdo b64 <- lift t_read_blob;
    match b64_decode b64 with
    | Some v => set_value TBlob (XBytes v)
    | None => rfail
    end.

(* nextAfterValue *)
Definition next_after_value : R bool :=
  rdo x <- rget;
  let tok := t_token (x_tok x) in
  if tok =? tokenComma then
    match x_ctx x with
    | CStruct :: _ => rdo _ <- rmod (fun x => xs_state x trsBeforeFieldName); rret false
    | CList :: _ => rdo _ <- rmod (fun x => xs_state x trsBeforeTypeAnnotations); rret false
    | _ => rpanic
    end
  else if tok =? tokenCloseBrace then
    if x_in_struct x then rdo _ <- rmod (fun x => xs_eof x true); rret true else rfail
  else if tok =? tokenCloseBracket then
    match x_ctx x with
    | CList :: _ => rdo _ <- rmod (fun x => xs_eof x true); rret true
    | _ => rfail
    end
  else rfail.

(* nextBeforeFieldName *)
Definition next_before_field_name : R bool :=
  rdo x <- rget;
  let tok := t_token (x_tok x) in
  if tok =? tokenCloseBrace then rdo _ <- rmod (fun x => xs_eof x true); rret true
  else if (tok =? tokenSymbol) || (tok =? tokenSymbolQuoted) || (tok =? tokenString) || (tok =? tokenLongString) then
    rdo v <- lift (t_read_value tok);
    if (tok =? tokenSymbol) && is_keyword v then rfail else
    rdo k <- (if tok =? tokenSymbolQuoted then rret (tok_text v)
              else if (tok =? tokenString) || (tok =? tokenLongString)
              then rret (name_symbol_token (x_lst x) v)          (* a string is never a symbol ID *)
              else of_res (new_symbol_token (x_lst x) v));
    rdo _ <- rmod (fun x => xs_field x (Some k));
    rdo _ <- lift t_next;
    rdo x <- rget;
    if negb (t_token (x_tok x) =? tokenColon) then rfail else
    rdo _ <- rmod (fun x => xs_state x trsBeforeTypeAnnotations);
    rret false
  else rfail.

(* nextBeforeTypeAnnotations; [fuel] is for reading a local symbol table *)
Definition next_before_type_annotations (fuel : nat) : R bool :=
  rdo x <- rget;
  let tok := t_token (x_tok x) in
  let in_sexp := match x_ctx x with CSexp :: _ => true | _ => false end in
  if match x_annots x with [] => false | _ => true end
     && ((tok =? tokenEOF) || (tok =? tokenCloseBracket) || (tok =? tokenCloseParen)) then
    rfail                                  (* annotations must be followed by the value they annotate *)
  else if tok =? tokenEOF then
    if x_at_top x then rdo _ <- rmod (fun x => xs_eof x true); rret true else rfail
  else if ((tok =? tokenSymbolOperator) || (tok =? tokenDot)) && negb in_sexp then rfail
  else if (tok =? tokenSymbolOperator) || (tok =? tokenDot) || (tok =? tokenSymbolQuoted) || (tok =? tokenSymbol) then
    rdo v <- lift (t_read_value tok);
    rdo '(ok, ws) <- lift t_skip_double_colon;
    if ok then
      if (tok =? tokenSymbol) && is_keyword v then rfail
      else if (tok =? tokenSymbolOperator) || (tok =? tokenDot) then rfail     (* an operator, '.' included, must be quoted *)
      else
        rdo x <- rget;
        rdo k <- (if tok =? tokenSymbolQuoted then rret (tok_text v)
                  else of_res (new_symbol_token (x_lst x) v));
        rdo _ <- rmod (fun x => xs_annots x (x_annots x ++ [k]));
        rret false
    else if (tok =? tokenSymbol) && list_eqb v (s "$ion_1_0"%string) && x_at_top x
            && match x_annots x with [] => true | _ => false end then
      (* an unquoted, unannotated top-level $ion_1_0 is the version marker: the table is reset, no value *)
      rdo _ <- rmod (fun x => xs_lst x LSys); rret false
    else if tok =? tokenSymbolQuoted then
      rdo _ <- set_value TSymbol (XSymbol (tok_text v)); rret true
    else
      rdo _ <- on_symbol v ws;
      rdo x1 <- rget;
      if (x_type x1 =? TStruct) && x_is_null x1 && x_at_top x1 && is_ion_symbol_table (x_annots x1) then
        (* $ion_symbol_table::null.struct at the top level: an empty symbol table, not a value *)
        rdo _ <- rmod (fun x => xs_lst (x_clear x) LSys); rret false
      else rret true
  else if (tok =? tokenString) || (tok =? tokenLongString) then
    rdo v <- lift (t_read_value tok);
    rdo _ <- set_value TString (XString v); rret true
  else if (tok =? tokenBinary) || (tok =? tokenHex) || (tok =? tokenNumber) || (tok =? tokenFloatInf)
          || (tok =? tokenFloatMinusInf) then
    rdo _ <- on_number tok; rret true
  else if tok =? tokenTimestamp then rdo _ <- on_timestamp; rret true
  else if tok =? tokenOpenDoubleBrace then rdo _ <- on_lob; rret true
  else if tok =? tokenOpenBrace then
    rdo _ <- rmod (fun x => xs_val (xs_state x trsBeforeContainer) TStruct XContainer);
    rdo x <- rget;
    if x_at_top x && is_ion_symbol_table (x_annots x) then
      if x_is_null x then                                  (* never true: value is non-nil here *)
        rdo _ <- rmod (fun x => xs_lst (x_clear x) LSys); rret false
      else
        rdo st <- read_local_symbol_table fuel;
        rdo _ <- rmod (fun x => xs_lst x st); rret false
    else rret true
  else if tok =? tokenOpenBracket then
    rdo _ <- rmod (fun x => xs_val (xs_state x trsBeforeContainer) TList XContainer); rret true
  else if tok =? tokenOpenParen then
    rdo _ <- rmod (fun x => xs_val (xs_state x trsBeforeContainer) TSexp XContainer); rret true
  else if tok =? tokenCloseBracket then
    match x_ctx x with
    | CList :: _ => rdo _ <- rmod (fun x => xs_eof x true); rret true
    | _ => rfail
    end
  else if tok =? tokenCloseParen then
    if in_sexp then rdo _ <- rmod (fun x => xs_eof x true); rret true else rfail
  else rfail.

(* ---- Next ---------------------------------------------------------------------------------------------------- *)
Fixpoint x_next_loop (k : nat) (fuel : nat) (x : xstate) : xstate * res bool :=
  match k with
  | O => (x, OutOfFuel)
  | S k' =>
    match lift t_next x with
    | (x, Err) => (x_explode x, Ok false)
    | (x, Panic) => (x, Panic)
    | (x, OutOfFuel) => (x, OutOfFuel)
    | (x, Ok _) =>
      let step : R bool :=
        if x_state x =? trsAfterValue then next_after_value
        else if x_state x =? trsBeforeFieldName then next_before_field_name
        else if x_state x =? trsBeforeTypeAnnotations then next_before_type_annotations fuel
        else rpanic in                                     (* panic(`unexpected state`) *)
      match step x with
      | (x, Err) => (x_explode x, Ok false)
      | (x, Panic) => (x, Panic)
      | (x, OutOfFuel) => (x, OutOfFuel)
      | (x, Ok true) => (x, Ok (negb (x_eof x)))
      | (x, Ok false) => x_next_loop k' fuel x
      end
    end
  end.
(* finishValue *)
Definition x_finish_value : R unit :=
  rdo ok <- lift t_finish_value;
  if ok then rmod (fun x => xs_state x (state_after_value x)) else rret tt.
Definition x_next_with (fuel : nat) (x : xstate) : xstate * res bool :=
  if (x_state x =? trsDone) || x_eof x then (x, Ok false) else
  match x_finish_value x with
  | (x, Err) => (x_explode x, Ok false)
  | (x, Panic) => (x, Panic)
  | (x, OutOfFuel) => (x, OutOfFuel)
  | (x, Ok _) => x_next_loop fuel fuel (x_clear x)
  end.
End Reader.

(* tie the knot: a local symbol table is read through the reader's own Next; inside it the
   context is never the top level, so the recursion is one level deep *)
Definition x_fuel (x : xstate) : nat := t_fuel (x_tok x).
Definition x_next_inner (pd : list N -> res dec) (pt : list N -> res (list N))
  (x : xstate) : xstate * res bool :=
  x_next_with pd pt (fun x0 => (x0, Panic)) (x_fuel x) x.
Definition x_next (pd : list N -> res dec) (pt : list N -> res (list N))
  (x : xstate) : xstate * res bool :=
  x_next_with pd pt (x_next_inner pd pt) (x_fuel x) x.

(* ---- accessors of reader.go and the navigation interface -------------------------------------------------------- *)
Section Api.
Variable pd : list N -> res dec.
Variable pt : list N -> res (list N).

Definition x_dummy_next : xstate -> xstate * res bool := fun x0 => (x0, Panic).

(* one API call: new state, and the token describing what it returned *)
Definition x_op_res (x : xstate) (o : rop) : xstate * res (list N) :=
  let wrong := (x, Ok t_err) in
  match o with
  | ONext => match x_next pd pt x with
             | (x', Ok b) => (x', Ok [if b then 84 else 70])
             | (x', r) => (x', keep_bad r)
             end
  | OStepIn => match x_step_in x with
               | (x', Ok b) => (x', Ok (if b then s "ok"%string else t_err))
               | (x', r) => (x', keep_bad r)
               end
  | OStepOut => match x_step_out x with
                | (x', Ok b) => (x', Ok (if b then s "ok"%string else t_err))
                | (x', r) => (x', keep_bad r)
                end
  | OType => (x, Ok (121 :: dec_of_N (x_type x)))
  | OIsNull => (x, Ok [110; if x_is_null x then 49 else 48])
  | OIsInStruct => (x, Ok [115; if x_in_struct x then 49 else 48])
  | OErr => (x, Ok [101; if x_err x then 49 else 48])
  | OAnnotations => if x_err x then wrong
                    else (x, Ok (97 :: 91 :: concat (map (fun t => show_tok t ++ [59]) (x_annots x)) ++ [93]))
  | OFieldName => if x_err x then wrong
                  else (x, Ok (match x_field x with Some t => show_tok t | None => t_nil end))
  | OBool => if negb (x_type x =? TBool) then wrong
             else (x, Ok (match x_value x with XBool b => [98; if b then 49 else 48] | _ => t_nil end))
  | OIntSize => if negb (x_type x =? TInt) then wrong
                else (x, Ok (122 :: dec_of_N (match x_value x with
                                                  | XInt (I64 z) => if in_int32 z then 1 else 2
                                                  | XInt (IBig _) => 3
                                                  | _ => 0
                                                  end)))
  | OInt64 => if negb (x_type x =? TInt) then wrong
              else match x_value x with
                   | XInt i => if in_int64 (show_int i) then (x, Ok (73 :: dec_of_Z (show_int i))) else wrong
                   | _ => (x, Ok t_nil)
                   end
  | OInt => if negb (x_type x =? TInt) then wrong
            else match x_value x with
                 | XInt i => if in_int64 (show_int i) && in_int32 (show_int i)
                             then (x, Ok (73 :: dec_of_Z (show_int i))) else wrong
                 | _ => (x, Ok t_nil)                      (* (nil, nil) for null.int *)
                 end
  | OBigInt => if negb (x_type x =? TInt) then wrong
               else (x, Ok (match x_value x with XInt i => 73 :: dec_of_Z (show_int i) | _ => t_nil end))
  | OFloat => if negb (x_type x =? TFloat) then wrong
              else (x, Ok (match x_value x with
                             | XFloatBits b => 70 :: dec_of_N (canon_float b)
                             | XFloatText l => 70 :: s "text"%string ++ hex_of_bytes l
                             | _ => t_nil
                             end))
  | ODecimal => if negb (x_type x =? TDecimal) then wrong
                else (x, Ok (match x_value x with XDecimal d => show_dec d | _ => t_nil end))
  | OTimestamp => if negb (x_type x =? TTimestamp) then wrong
                  else (x, Ok (match x_value x with XTimestamp b => 84 :: b | _ => t_nil end))
  | OString => if x_err x then wrong else if negb (x_type x =? TString) then wrong
               else (x, Ok (match x_value x with XString t => 83 :: xhex t | _ => t_nil end))
  | OSymbol => if x_err x then wrong else if negb (x_type x =? TSymbol) then wrong
               else (x, Ok (match x_value x with XSymbol t => show_tok t | _ => t_nil end))
  | OBytes => if negb ((x_type x =? TBlob) || (x_type x =? TClob)) then wrong
              else (x, Ok (match x_value x with XBytes b => 66 :: xhex b | _ => t_nil end))
  end.

(* the option-valued form of BinReader.r_op: None = the call did not return *)
Definition x_op (x : xstate) (o : rop) : xstate * option (list N) :=
  match x_op_res x o with
  | (x', Ok t) => (x', Some t)
  | (x', _) => (x', None)
  end.

(* run a navigation program; a panic ends the trace with the token `panic` *)
Fixpoint x_run (x : xstate) (p : list rop) (acc : list (list N)) : xstate * list (list N) :=
  match p with
  | [] => (x, rev acc)
  | o :: p' => match x_op_res x o with
               | (x', Ok t) => x_run x' p' (t :: acc)
               | (x', Panic) => (x', rev (s "panic"%string :: acc))
               | (x', _) => (x', rev (s "outoffuel"%string :: acc))
               end
  end.

(* the plain full traversal of BinReader.traverse, over the text reader *)
Fixpoint x_traverse_loop (fuel : nat) (x : xstate) (depth : nat) (acc : list (list N))
  : xstate * list (list N) * bool (* panicked *) :=
  match fuel with
  | O => (x, s "outoffuel"%string :: acc, true)
  | S f =>
    match x_op x ONext with
    | (x, None) => (x, s "panic"%string :: acc, true)
    | (x, Some t) =>
      let acc := t :: acc in
      if list_eqb t [70] then
        match depth with
        | O => (x, acc, false)
        | S d =>
          match x_op x OStepOut with
          | (x, None) => (x, s "panic"%string :: acc, true)
          | (x, Some t2) =>
            if list_eqb t2 (s "ok"%string) then x_traverse_loop f x d (t2 :: acc)
            else (x, t2 :: acc, false)
          end
        end
      else
        let '(x, t1) := x_op x OFieldName in
        let '(x, t2) := x_op x OAnnotations in
        let '(x, t3) := x_op x OType in
        let '(x, t4) := x_op x OIsNull in
        let acc := match t1, t2, t3, t4 with
                   | Some a, Some b, Some c, Some d => d :: c :: b :: a :: acc
                   | _, _, _, _ => acc
                   end in
        if x_is_null x then x_traverse_loop f x depth acc else
        match accessor_of (x_type x) with
        | Some o =>
          match x_op x o with
          | (x, None) => (x, s "panic"%string :: acc, true)
          | (x, Some t5) => x_traverse_loop f x depth (t5 :: acc)
          end
        | None =>
          match x_op x OStepIn with
          | (x, None) => (x, s "panic"%string :: acc, true)
          | (x, Some t5) =>
            if list_eqb t5 (s "ok"%string) then x_traverse_loop f x (S depth) (t5 :: acc)
            else x_traverse_loop f x depth (t5 :: acc)
          end
        end
    end
  end.
Definition x_traverse (inp : list N) (ioerr : bool) : list (list N) :=
  let x := x_init inp ioerr in
  let '(x, acc, pan) := x_traverse_loop (4 * length inp + 17) x 0 [] in
  if pan then rev acc else
  let '(_, tail) := x_run x [OErr; ONext; OErr; ONext; OErr] [] in
  rev acc ++ tail.
End Api.
