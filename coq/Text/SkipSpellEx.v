(* SkipSpellEx.v — C08 for text: an example for the skip-equals-read theorems: nested containers, a clob whose text
   contains a closing brace and an escaped double quote, a long string with a continuation segment behind a comment,
   comments that contain brackets, operators in an s-expression, a struct with a list inside.  The text is derived in
   [tops_spell2]; the navigation programs are run on the model by vm_compute. *)
From Coq Require Import String List NArith ZArith Bool Lia ZifyBool ZifyN ZifyNat.
From IonV Require Import Base.Wire Base.Utf8 Data.Ion Bin.Bits Bin.BitStream Bin.BinReader Num.Float Text.Tokenizer Text.Skipper
  Text.TextReader Text.TextNum Text.SpecText Text.SpellBase Text.SpellWs Text.SpellNum Text.SpellTok Text.SpellRead
  Text.SpellEsc Text.SpellStr Text.SpellLong Text.SpellIdent Text.SpellSym Text.SpellTs Text.SpellBlob
  Text.SpellVal Text.SpellSymVal Text.SpellOp Text.SpellStream Text.SpellCont Text.SpellTree Text.SpellTreeEx
  Text.SpellEofc Text.SpellOp2 Text.SpellStream2 Text.SpellIvm Text.SpellTree2 Text.SkipNav.
Import ListNotations.
Open Scope Z_scope.

Definition skip_example : list N :=
  s "[ {{""}\""""}} , '''a]''' /*]*/ '''b''', (+ /*)*/ -), {f:[1]} ] 7".
Definition skip_example_values : list tval :=
  [ TCont [] TList [ (None, TScalar [] TClob (XBytes [125; 34]%N));
                     (None, TScalar [] TString (XString (s "a]b")));
                     (None, TCont [] TSexp [ (None, TScalar [] TSymbol (XSymbol (tk "+" (-1))));
                                             (None, TScalar [] TSymbol (XSymbol (tk "-" (-1)))) ]);
                     (None, TCont [] TStruct [ (Some (tk "f" (-1)), TCont [] TList [ (None, TScalar [] TInt (XInt (I64 1))) ]) ]) ];
    TScalar [] TInt (XInt (I64 7)) ].

Definition clob_text : list N := 123%N :: 123%N :: [] ++ 34%N :: [125; 92; 34]%N ++ 34%N :: [] ++ [125; 125]%N.
Definition long_text : list N := 39%N :: 39%N :: 39%N :: s "a]" ++ q3 ++ s " /*]*/ " ++ q3 ++ (s "b" ++ q3).

Example skip_example_spells :
  exists w0 text, norm skip_example = w0 ++ text /\ ws_run w0 /\ tops_spell2 PD PT LSys text skip_example_values.
Proof.
  exists [],
    (([91]%N ++ s " " ++
       ([] ++ [] ++ clob_text ++ s " " ++
        ([44]%N ++ s " " ++ long_text ++ [] ++
         ([44]%N ++ s " " ++ ([40]%N ++ [] ++ ([] ++ [] ++ s "+" ++ s " /*)*/ " ++ ([] ++ [] ++ s "-" ++ [] ++ [41]%N))) ++ [] ++
          ([44]%N ++ s " " ++ ([123]%N ++ [] ++ ((s "f" ++ [] ++ [58]%N) ++ [] ++
                                  ([91]%N ++ [] ++ ([] ++ [] ++ s "1" ++ [] ++ [93]%N)) ++ [] ++ [125]%N)) ++ s " " ++
           [93]%N)))))
     ++ s " " ++ (s "7" ++ [] ++ [])).
  split; [reflexivity|]. split; [constructor|].
  eapply (tp2_cons PD PT LSys _ f_any _ (s " ")).
  { apply (t2_cont PD PT LSys [] [91]%N [] tokenOpenBracket (s " ") _ _).
    - apply (ao_open LSys [] [] tokenOpenBracket). now left.
    - apply ws_ch; [reflexivity|constructor].
    - discriminate.
    - (* the clob *)
      eapply (cs2_item PD PT LSys _ _ [] None 0 [] clob_text f_any _ (s " ")).
      + apply sep2_none.
      + constructor.
      + reflexivity.
      + apply t2_scalar, av2_item, it2_old.
        apply (it_clob PD PT LSys _ [] [] [125; 92; 34]%N [125; 34]%N []); [constructor| |constructor].
        apply cb_raw; [unfold clob_raw, str_ws; lia|].
        apply (cb_esc [34]%N 34 [] []); [|constructor]. apply esc_one. unfold esc_table. cbn [In]. tauto.
      + apply ws_ch; [reflexivity|constructor].
      + intros outer. exact I.
      + (* the long string *)
        eapply (cs2_item PD PT LSys _ _ [44]%N None 1 (s " ") long_text f_long _ []).
        * apply sep2_comma.
        * apply ws_ch; [reflexivity|constructor].
        * discriminate.
        * apply t2_scalar, av2_item, it2_old.
          apply (it_long PD PT LSys _ [] (s "a]" ++ q3 ++ s " /*]*/ " ++ q3 ++ (s "b" ++ q3)) [s "a]"; s "b"]).
          -- apply ls_more.
             ++ vm_compute. apply lb_raw; [unfold lraw_char, str_ws; lia|]. apply lb_raw; [unfold lraw_char, str_ws; lia|constructor].
             ++ apply ws_ch; [reflexivity|]. apply (ws_block (s "]")); [reflexivity|]. apply ws_ch; [reflexivity|constructor].
             ++ apply ls_last. vm_compute. apply lb_raw; [unfold lraw_char, str_ws; lia|constructor].
          -- repeat constructor.
        * constructor.
        * intros outer. reflexivity.
        * (* the s-expression *)
          eapply (cs2_item PD PT LSys _ _ [44]%N None 1 (s " ") _ f_any _ []).
          -- apply sep2_comma.
          -- apply ws_ch; [reflexivity|constructor].
          -- discriminate.
          -- apply (t2_cont PD PT LSys _ [40]%N [] tokenOpenParen [] _ _).
             ++ apply (ao_open LSys _ [] tokenOpenParen). right; now left.
             ++ constructor.
             ++ discriminate.
             ++ eapply (cs2_item PD PT LSys _ _ [] None 0 [] (s "+") (f_op 43 []) _ (s " /*)*/ ")).
                ** apply sep2_none.
                ** constructor.
                ** reflexivity.
                ** apply t2_scalar, av2_item, it2_old. apply (it_op PD PT LSys _ _ 43%N [] _ eq_refl); [|reflexivity|discriminate].
                   constructor; [unfold op_char; cbn; tauto|constructor].
                ** apply ws_ch; [reflexivity|]. apply (ws_block (s ")")); [reflexivity|]. apply ws_ch; [reflexivity|constructor].
                ** intros outer. repeat split; try discriminate; intros; reflexivity.
                ** eapply (cs2_item PD PT LSys _ _ [] None 0 [] (s "-") (f_op 45 []) _ []).
                   --- apply sep2_none.
                   --- constructor.
                   --- reflexivity.
                   --- apply t2_scalar, av2_item, it2_old. apply (it_op PD PT LSys _ _ 45%N [] _ eq_refl); [|reflexivity|discriminate].
                       constructor; [unfold op_char; cbn; tauto|constructor].
                   --- constructor.
                   --- intros outer. repeat split; try discriminate; intros; reflexivity.
                   --- apply (cs2_close PD PT LSys _ _ _ tokenCloseParen 0). apply cl_sexp.
          -- constructor.
          -- intros outer. exact I.
          -- (* the struct *)
             eapply (cs2_item PD PT LSys _ _ [44]%N None 1 (s " ") _ f_any _ (s " ")).
             ++ apply sep2_comma.
             ++ apply ws_ch; [reflexivity|constructor].
             ++ discriminate.
             ++ apply (t2_cont PD PT LSys _ [123]%N [] tokenOpenBrace [] _ _).
                ** apply (ao_open LSys _ [] tokenOpenBrace). right; right. split; reflexivity.
                ** constructor.
                ** intros _. discriminate.
                ** eapply (cs2_item PD PT LSys _ _ (s "f" ++ [] ++ [58]%N) (Some (tk "f" (-1))) 1 [] _ f_any _ []).
                   --- apply sep2_field; [|constructor]. apply fn2_old. apply fn_id; try reflexivity.
                       constructor; [unfold id_start, letter; cbn; lia|constructor].
                   --- constructor.
                   --- discriminate.
                   --- apply (t2_cont PD PT LSys _ [91]%N [] tokenOpenBracket [] _ _).
                       +++ apply (ao_open LSys _ [] tokenOpenBracket). now left.
                       +++ constructor.
                       +++ discriminate.
                       +++ eapply (cs2_item PD PT LSys _ _ [] None 0 [] (s "1") f_term _ []).
                           *** apply sep2_none.
                           *** constructor.
                           *** reflexivity.
                           *** apply t2_scalar, av2_item, it2_old. apply int_item; [reflexivity|discriminate|reflexivity].
                           *** constructor.
                           *** intros outer. reflexivity.
                           *** apply (cs2_close PD PT LSys _ _ _ tokenCloseBracket 0). apply cl_list.
                   --- constructor.
                   --- intros outer. exact I.
                   --- apply (cs2_close PD PT LSys _ _ _ tokenCloseBrace 0). apply cl_struct.
             ++ apply ws_ch; [reflexivity|constructor].
             ++ intros outer. exact I.
             ++ apply (cs2_close PD PT LSys _ _ _ tokenCloseBracket 0). apply cl_list. }
  { apply ws_ch; [reflexivity|constructor]. }
  { exact I. }
  eapply (tp2_cons PD PT LSys (s "7") f_term _ [] []).
  { apply t2_scalar, av2_item, it2_old. apply int_item; [reflexivity|discriminate|reflexivity]. }
  { constructor. }
  { reflexivity. }
  apply tp2_nil.
Qed.

(* plans: skip everything; enter the list and leave it after k members (k = 0..4), entering or skipping the inner
   containers; the plain full traversal *)
Definition plan_skip_all : list plan := [PSkip; PSkip].
Definition plan_early (k : nat) : list plan := [PEnter (repeat PSkip k) false; PSkip].
Definition plan_mixed : list plan :=
  [PEnter [PSkip; PSkip; PEnter [PSkip] false; PEnter [PEnter [] false] true] true; PSkip].
Definition plan_full : list plan := map full_plan skip_example_values.

Definition run_plan (qs : list plan) : list (list N) :=
  snd (x_run PD PT (x_init skip_example false) (top_prog skip_example_values qs) []).
