(* TextRoundtripP.v — the writer model against the specification decoder on the finite
   universe of Text/TextRoundtrip.v: closed computations checked by the kernel (vm_compute). *)
From Coq Require Import String List NArith ZArith Bool.
From IonV Require Import Base.Wire Data.Ion Bin.BinWriter Text.TextOut Text.TextWriter Text.SpecText Text.TextRoundtrip.
Import ListNotations.
Open Scope N_scope.

Lemma rt_all_compact : rt_all false false = true.  Proof. vm_compute. reflexivity. Qed.
Lemma rt_all_pretty : rt_all true false = true.  Proof. vm_compute. reflexivity. Qed.
Lemma rt_all_quiet : rt_all false true = true.  Proof. vm_compute. reflexivity. Qed.
Lemma rt_all_pretty_quiet : rt_all true true = true.  Proof. vm_compute. reflexivity. Qed.

Lemma rt_universe (pretty quiet : bool) (v : value) :
  In v universe -> rt_ok pretty quiet [v] = true.
Proof.
  intros H.
  assert (A : rt_all pretty quiet = true)
    by (destruct pretty, quiet; [exact rt_all_pretty_quiet | exact rt_all_pretty | exact rt_all_quiet | exact rt_all_compact]).
  unfold rt_all in A. rewrite forallb_forall in A. exact (A v H).
Qed.

(* what rt_ok says, spelled out *)
Lemma rt_ok_spec (pretty quiet : bool) (vs : list value) :
  rt_ok pretty quiet vs = true ->
  exists w rs got,
    tw_drive no_formats (new_text_writer None pretty quiet) (calls_of_stream vs) = Ok (w, rs) /\
    forallb (fun b => b) rs = true /\
    tdecode (sink_bytes (tw_out w)) = Some got /\
    list_eqb (show_values got) (show_values vs) = true.
Proof.
  unfold rt_ok.
  destruct (tw_drive no_formats (new_text_writer None pretty quiet) (calls_of_stream vs)) as [[w rs] | | |];
    try discriminate.
  intros H. apply andb_true_iff in H. destruct H as [H1 H2].
  destruct (tdecode (sink_bytes (tw_out w))) as [got |] eqn:E; try discriminate.
  exists w, rs, got. split; [reflexivity |]. split; [exact H1 |]. split; [exact E | exact H2].
Qed.

Lemma list_eqb_eq (a b : list N) : list_eqb a b = true -> a = b.
Proof.
  revert b. induction a as [| x a IH]; intros [| y b]; cbn; try discriminate; [reflexivity |].
  intros H. apply andb_true_iff in H. destruct H as [H1 H2].
  apply N.eqb_eq in H1. subst. f_equal. now apply IH.
Qed.

Lemma rt_batches_compact : rt_batches false false = true.  Proof. vm_compute. reflexivity. Qed.
Lemma rt_batches_pretty : rt_batches true false = true.  Proof. vm_compute. reflexivity. Qed.

Lemma rt_universe_spec (pretty quiet : bool) (v : value) :
  In v universe ->
  exists w rs got,
    tw_drive no_formats (new_text_writer None pretty quiet) (calls_of_stream [v]) = Ok (w, rs) /\
    forallb (fun b => b) rs = true /\
    tdecode (sink_bytes (tw_out w)) = Some got /\
    show_values got = show_values [v].
Proof.
  intros H. destruct (rt_ok_spec _ _ _ (rt_universe pretty quiet v H)) as (w & rs & got & A & B & C & D).
  exists w, rs, got. repeat split; try assumption. now apply list_eqb_eq.
Qed.

Lemma rt_batches_spec (pretty : bool) :
  exists w rs got,
    tw_drive no_formats (new_text_writer None pretty false)
             (flat_map calls_of_stream (chunks50 (length universe) universe)) = Ok (w, rs) /\
    forallb (fun b => b) rs = true /\
    tdecode (sink_bytes (tw_out w)) = Some got /\
    show_values got = show_values universe.
Proof.
  assert (A : rt_batches pretty false = true) by (destruct pretty; [exact rt_batches_pretty | exact rt_batches_compact]).
  unfold rt_batches in A.
  destruct (tw_drive no_formats (new_text_writer None pretty false)
                     (flat_map calls_of_stream (chunks50 (length universe) universe))) as [[w rs] | | |];
    try discriminate.
  apply andb_true_iff in A. destruct A as [A1 A2].
  destruct (tdecode (sink_bytes (tw_out w))) as [got |] eqn:E; try discriminate.
  exists w, rs, got. split; [reflexivity |]. split; [exact A1 |]. split; [exact E | now apply list_eqb_eq].
Qed.
