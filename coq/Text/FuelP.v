(* FuelP.v — the tokenizer and skipper models never run out of fuel: every fuelled loop is given
   [t_fuel] = [t_rem] + 2 steps by its caller, every iteration that does not leave the loop
   takes a character that is not EOF off [t_rem], and no operation gives back more than it took.
   Stated with a weakest-precondition predicate [wp] whose postconditions account for the
   character a function hands back to its caller ([wt c] = 1 unless c is EOF).  Builds on the
   [ni] / [nonincr] lemmas of TokenizerP.v. *)
From Coq Require Import String List NArith ZArith Bool Lia.
From IonV Require Import Base.Wire Base.Utf8 Text.Tokenizer Text.Skipper Text.TokenizerP.
Import ListNotations.
Open Scope Z_scope.

Definition wp {A} (m : M A) (t : tstate) (Q : A -> tstate -> Prop) : Prop :=
  match m t with Ok (a, t') => Q a t' | OutOfFuel => False | _ => True end.

Lemma wp_ret {A} (a : A) t (Q : A -> tstate -> Prop) : Q a t -> wp (ret a) t Q.
Proof. exact (fun H => H). Qed.
Lemma wp_fail {A} t Q : wp (@fail A) t Q. Proof. exact I. Qed.
Lemma wp_panic {A} t Q : wp (@mpanic A) t Q. Proof. exact I. Qed.
Lemma wp_bind {A B} (m : M A) (f : A -> M B) t Q :
  wp m t (fun a t' => wp (f a) t' Q) -> wp (mbind m f) t Q.
Proof. unfold wp, mbind. destruct (m t) as [[a t1]| | |]; auto. Qed.
Lemma wp_mono {A} (m : M A) t (Q Q' : A -> tstate -> Prop) :
  wp m t Q -> (forall a t', Q a t' -> Q' a t') -> wp m t Q'.
Proof. unfold wp. destruct (m t) as [[a t1]| | |]; auto. Qed.
Lemma wp_bind_ret {A B} (a : A) (f : A -> M B) t Q : wp (f a) t Q -> wp (mbind (ret a) f) t Q.
Proof. exact (fun H => H). Qed.
Lemma wp_bind_get {B} (f : tstate -> M B) t Q : wp (f t) t Q -> wp (mbind get f) t Q.
Proof. exact (fun H => H). Qed.
Lemma wp_get t (Q : tstate -> tstate -> Prop) : Q t t -> wp get t Q.
Proof. exact (fun H => H). Qed.
Lemma wp_with_fuel {A} (g : nat -> M A) t Q : wp (g (t_fuel t)) t Q -> wp (with_fuel g) t Q.
Proof. exact (fun H => H). Qed.
Lemma ni_wp {A} (m : M A) t : ni m t -> wp m t (fun _ t' => (t_rem t' <= t_rem t)%nat).
Proof. exact (fun H => H). Qed.
Lemma wp_ni {A} (m : M A) t : wp m t (fun _ t' => (t_rem t' <= t_rem t)%nat) -> ni m t.
Proof. exact (fun H => H). Qed.
Lemma wp_not_oof {A} (m : M A) t Q : wp m t Q -> m t <> OutOfFuel.
Proof. unfold wp. intros H E. rewrite E in H. exact H. Qed.

(* the character at the top of the push-back buffer, as a weight *)
Definition hdb (t : tstate) : nat := match t_buf t with c :: _ => wt c | [] => O end.

Lemma wt_le c : (wt c <= 1)%nat. Proof. unfold wt. destruct (c =? -1); lia. Qed.
Lemma wt_1 c : c <> -1 -> wt c = 1%nat.
Proof. intros H. unfold wt. destruct (c =? -1) eqn:E; [apply Z.eqb_eq in E; congruence|reflexivity]. Qed.
Lemma wt_eqb c d : (c =? d) = true -> d <> -1 -> wt c = 1%nat.
Proof. intros E H. apply Z.eqb_eq in E. subst. apply wt_1, H. Qed.

Lemma read_spec t : wp t_read t (fun c t' => (t_rem t' + wt c <= t_rem t)%nat /\ (hdb t <= wt c)%nat).
Proof.
  unfold wp. pose proof (read_not_oof t). destruct (t_read t) as [[c t']| | |] eqn:E; auto.
  destruct (read_rem _ _ _ E) as [H1 H2]. split.
  - unfold wt. destruct (c =? -1) eqn:C; [lia|]. apply Z.eqb_neq in C. specialize (H2 C). lia.
  - unfold hdb. unfold t_read in E. destruct (t_buf t) as [|b bs]; [lia|]. injection E as <- _. lia.
Qed.
Lemma unread_spec c t :
  wp (t_unread c) t (fun _ t' => t_rem t' = (t_rem t + wt c)%nat /\ t_buf t' = c :: t_buf t).
Proof.
  destruct (unread_wt c t) as [t' [E R]]. unfold wp. rewrite E. split; [exact R|].
  unfold t_unread in E. injection E as <-. reflexivity.
Qed.
Lemma peek_spec t : wp t_peek t (fun c t' => (t_rem t' <= t_rem t)%nat /\ exists b, t_buf t' = c :: b).
Proof.
  unfold wp. pose proof (peek_not_oof t). destruct (t_peek t) as [[c t']| | |] eqn:E; auto.
  split; [exact (peek_rem _ _ _ E)|].
  unfold t_peek in E. destruct (t_buf t) as [|b bs] eqn:Eb.
  - unfold mbind in E. destruct (t_read t) as [[c1 t1]| | |]; try discriminate.
    unfold t_unread, ret in E. injection E as <- <-. eexists; reflexivity.
  - injection E as <- <-. eexists; exact Eb.
Qed.
Lemma peek_hd t c b : t_buf t = c :: b -> t_peek t = Ok (c, t).
Proof. intros E. unfold t_peek. rewrite E. reflexivity. Qed.
Lemma read_hd t c b : t_buf t = c :: b -> t_read t = Ok (c, set_buf t b).
Proof. intros E. unfold t_read. rewrite E. reflexivity. Qed.
Lemma rem_hd t c b : t_buf t = c :: b -> t_rem t = (t_rem (set_buf t b) + wt c)%nat.
Proof.
  intros E. rewrite rem_set_buf. unfold t_rem. rewrite E. cbn [filter]. unfold wt.
  destruct (c =? -1); cbn [negb length]; lia.
Qed.

Lemma peekN_spec n t : wp (t_peekN n) t (fun _ t' => (t_rem t' <= t_rem t)%nat).
Proof. exact (nonincr_peekN n t). Qed.
Lemma skipN_spec n t : wp (t_skipN n) t (fun _ t' => (t_rem t' <= t_rem t)%nat).
Proof. exact (nonincr_skipN n t). Qed.
Lemma expect_spec f t : wp (t_expect f) t (fun _ t' => (t_rem t' <= t_rem t)%nat).
Proof. exact (nonincr_expect f t). Qed.
Lemma triple_quote_spec t : wp t_is_triple_quote t (fun _ t' => (t_rem t' <= t_rem t)%nat).
Proof. exact (nonincr_is_triple_quote t). Qed.
Lemma end_of_long_string_spec h t : wp (t_skip_end_of_long_string h) t (fun _ t' => (t_rem t' <= t_rem t)%nat).
Proof. exact (nonincr_end_of_long_string h t). Qed.
Lemma hex_escape_spec n v t : wp (read_hex_escape_seq n v) t (fun _ t' => (t_rem t' <= t_rem t)%nat).
Proof. exact (nonincr_hex_escape n v t). Qed.
Lemma escaped_char_spec k t : wp (read_escaped_char k) t (fun _ t' => (t_rem t' <= t_rem t)%nat).
Proof. exact (nonincr_escaped_char k t). Qed.
Lemma backslash_spec k t : wp (process_backslash k) t (fun _ t' => (t_rem t' <= t_rem t)%nat).
Proof. exact (nonincr_backslash k t). Qed.
Lemma skip_whitespace_spec t : wp t_skip_whitespace t (fun a t' => (t_rem t' + wt (fst a) <= t_rem t)%nat).
Proof.
  unfold wp. pose proof (skip_whitespace_hand t) as H.
  destruct (t_skip_whitespace t) as [[[c s0] t1]| | |]; auto.
Qed.
Lemma skip_lob_whitespace_spec t : wp t_skip_lob_whitespace t (fun a t' => (t_rem t' + wt (fst a) <= t_rem t)%nat).
Proof.
  unfold wp. pose proof (lob_whitespace_hand t) as H.
  destruct (t_skip_lob_whitespace t) as [[[c s0] t1]| | |]; auto.
Qed.
Lemma skip_whitespace_h_spec h t : wp (t_skip_whitespace_h h) t (fun a t' => (t_rem t' + wt (fst a) <= t_rem t)%nat).
Proof.
  unfold wp, t_skip_whitespace_h, with_fuel.
  pose proof (whitespace_hand (t_fuel t) h false t ltac:(unfold t_fuel; lia)) as H.
  destruct (skip_whitespace_with (t_fuel t) h false t) as [[[c s'] t']| | |]; auto.
Qed.
Lemma skip_string_helper_spec t : wp skip_string_helper t (fun _ t' => (t_rem t' <= t_rem t)%nat).
Proof. exact (nonincr_skip_string_helper t). Qed.
Lemma skip_symbol_quoted_helper_spec t : wp skip_symbol_quoted_helper t (fun _ t' => (t_rem t' <= t_rem t)%nat).
Proof. exact (nonincr_skip_symbol_quoted_helper t). Qed.
Lemma skip_long_string_helper_spec h t : wp (skip_long_string_helper h) t (fun _ t' => (t_rem t' <= t_rem t)%nat).
Proof. exact (nonincr_skip_long_string_helper h t). Qed.
Lemma skip_blob_helper_spec t : wp skip_blob_helper t (fun _ t' => (t_rem t' <= t_rem t)%nat).
Proof. exact (nonincr_skip_blob_helper t). Qed.
Lemma finish_spec t : wp finish t (fun _ t' => t_rem t' = t_rem t /\ t_buf t' = t_buf t).
Proof. split; reflexivity. Qed.

Create HintDb wps.
#[export] Hint Resolve read_spec unread_spec peek_spec peekN_spec skipN_spec expect_spec triple_quote_spec
  end_of_long_string_spec hex_escape_spec escaped_char_spec backslash_spec skip_whitespace_spec
  skip_lob_whitespace_spec skip_whitespace_h_spec skip_string_helper_spec skip_symbol_quoted_helper_spec
  skip_long_string_helper_spec skip_blob_helper_spec finish_spec : wps.

Ltac wsimp :=
  repeat match goal with
         | H : _ /\ _ |- _ => destruct H
         | H : exists _, _ |- _ => destruct H
         | p : (_ * _)%type |- _ => destruct p
         | u : unit |- _ => destruct u
         end; cbn [fst snd] in *.
Ltac wuse L := apply wp_bind; eapply wp_mono; [eapply L | cbn beta; intros; wsimp; cbn beta iota].
Ltac wstep :=
  match goal with
  | |- wp fail _ _ => apply wp_fail
  | |- wp mpanic _ _ => apply wp_panic
  | |- wp (ret _) _ _ => apply wp_ret; cbn beta iota; cbn [fst snd]
  | |- wp get _ _ => apply wp_get; cbn beta iota
  | |- wp (if ?b then _ else _) _ _ => destruct b eqn:?
  | |- wp (let '(_, _) := ?p in _) _ _ => destruct p
  | |- wp (mbind (if ?b then _ else _) _) _ _ => destruct b eqn:?
  | |- wp (mbind (ret _) _) _ _ => apply wp_bind_ret; cbn beta iota
  | |- wp (mbind get _) _ _ => apply wp_bind_get; cbn beta iota
  | |- wp (mbind (mbind _ _) _) _ _ => apply wp_bind
  | |- wp (mbind _ _) _ _ =>
    apply wp_bind; eapply wp_mono; [solve [eauto 2 with wps nocore] | cbn beta; intros; wsimp; cbn beta iota]
  | |- wp _ _ _ => eapply wp_mono; [solve [eauto 2 with wps nocore] | cbn beta; intros; wsimp; cbn beta iota]
  end.
Ltac wauto := repeat wstep.
(* a character known to equal a constant / satisfy a class test is not EOF *)
Ltac wt1 c :=
  lazymatch goal with | _ : wt c = 1%nat |- _ => fail | _ => idtac end;
  match goal with
  | H : ?e = true |- _ =>
    match e with
    | context [c] =>
      assert (wt c = 1%nat)
        by (apply wt_1; let K := fresh in intros K; rewrite K in H; vm_compute in H; discriminate H)
    end
  end.
Ltac wle c :=
  lazymatch goal with | _ : (wt c <= 1)%nat |- _ => fail | _ => pose proof (wt_le c) end.
Ltac wfin :=
  repeat match goal with
         | H : t_buf ?t = _ :: _, H' : context [hdb ?t] |- _ => unfold hdb in H'; rewrite H in H'
         end;
  repeat match goal with H : negb _ = false |- _ => apply negb_false_iff in H end;
  repeat match goal with c : Z |- _ => wt1 c end;
  repeat match goal with c : Z |- _ => wle c end;
  lia.

(* ---- small helpers ------------------------------------------------------------------------------ *)
Lemma is_stop_char_spec c t : wp (t_is_stop_char c) t (fun _ t' => (t_rem t' <= t_rem t)%nat).
Proof. unfold t_is_stop_char. wauto; lia. Qed.
#[export] Hint Resolve is_stop_char_spec : wps.
Lemma is_inf_spec c t : wp (t_is_inf c) t (fun _ t' => (t_rem t' <= t_rem t)%nat).
Proof. unfold t_is_inf. wauto; lia. Qed.
#[export] Hint Resolve is_inf_spec : wps.
Definition numtok (k : N) : Prop := k = tokenBinary \/ k = tokenHex \/ k = tokenTimestamp \/ k = tokenNumber.
Lemma scan_numeric_spec c t : wp (t_scan_numeric c) t (fun k t' => (t_rem t' <= t_rem t)%nat /\ numtok k).
Proof. unfold t_scan_numeric, numtok. wauto; split; try lia; auto. Qed.
#[export] Hint Resolve scan_numeric_spec : wps.

(* ---- digits ---------------------------------------------------------------------------------------- *)
Lemma radix_digits_spec : forall f valid w t, valid (-1) = false -> (t_rem t < f)%nat ->
  wp (read_radix_digits f valid w) t (fun a t' => (t_rem t' + wt (fst a) <= t_rem t)%nat).
Proof.
  induction f as [|f IH]; intros valid w t Hv Hf; [lia|]. cbn [read_radix_digits].
  wuse read_spec. destruct (a =? c_under) eqn:U.
  - pose proof (wt_eqb _ _ U ltac:(discriminate)). wuse peek_spec.
    destruct (negb (valid a0)); [apply wp_fail|].
    eapply wp_mono; [apply IH; [exact Hv|lia]|cbn beta; intros; lia].
  - destruct (negb (valid a)) eqn:V; [apply wp_ret; cbn [fst]; lia|].
    assert (wt a = 1%nat). { apply wt_1. intros ->. rewrite Hv in V. discriminate. }
    eapply wp_mono; [apply IH; [exact Hv|lia]|cbn beta; intros; lia].
Qed.
Lemma is_digit_eof : is_digit (-1) = false. Proof. reflexivity. Qed.
Lemma is_digit_wt c : is_digit c = true -> wt c = 1%nat.
Proof. intros H. apply wt_1. intros ->. discriminate. Qed.
Definition dg (c : Z) : nat := if is_digit c then 1%nat else O.
Lemma read_digits_spec c w t :
  wp (read_digits c w) t (fun a t' => (t_rem t' + wt (fst a) + dg c <= t_rem t + wt c)%nat).
Proof.
  unfold read_digits, dg. destruct (is_digit c) eqn:D; cbn [negb]; [|apply wp_ret; cbn [fst]; lia].
  pose proof (is_digit_wt _ D).
  apply wp_with_fuel. eapply wp_mono; [apply radix_digits_spec; [reflexivity|unfold t_fuel; lia]|cbn beta; intros; lia].
Qed.
#[export] Hint Resolve read_digits_spec : wps.
Lemma plain_digits_loop_spec : forall f c w t, (t_rem t + wt c < f)%nat ->
  wp (read_plain_digits_loop f c w) t (fun a t' => (t_rem t' + wt (fst a) <= t_rem t + wt c)%nat).
Proof.
  induction f as [|f IH]; intros c w t Hf; [lia|]. cbn [read_plain_digits_loop].
  destruct (is_digit c) eqn:D; [|apply wp_ret; cbn [fst]; lia].
  pose proof (is_digit_wt _ D). wuse read_spec.
  eapply wp_mono; [apply IH; lia|cbn beta; intros; lia].
Qed.
Lemma read_plain_digits_spec c w t :
  wp (read_plain_digits c w) t (fun a t' => (t_rem t' + wt (fst a) <= t_rem t + wt c)%nat).
Proof.
  unfold read_plain_digits. apply wp_with_fuel. apply plain_digits_loop_spec. pose proof (wt_le c). unfold t_fuel. lia.
Qed.
#[export] Hint Resolve read_plain_digits_spec : wps.
Lemma read_exponent_spec w t : wp (read_exponent w) t (fun a t' => (t_rem t' + wt (fst a) <= t_rem t)%nat).
Proof. unfold read_exponent. wauto; lia. Qed.
#[export] Hint Resolve read_exponent_spec : wps.

Lemma read_number_spec t : wp t_read_number t (fun _ t' => (t_rem t' <= t_rem t)%nat).
Proof. unfold t_read_number. wauto; wfin. Qed.
Lemma read_number_strict t c b : t_buf t = c :: b -> is_digit c || (c =? c_minus) = true ->
  wp t_read_number t (fun _ t' => (t_rem t' < t_rem t)%nat).
Proof.
  intros E Hc. unfold t_read_number. apply wp_bind. unfold wp at 1. rewrite (read_hd _ _ _ E).
  pose proof (rem_hd _ _ _ E) as R. wt1 c.
  destruct (c =? c_minus) eqn:M.
  - wauto; wfin.
  - rewrite orb_false_r in Hc. wauto; unfold dg in *; rewrite ?Hc in *; wfin.
Qed.

(* readRadix: a success has consumed the leading 0 *)
Lemma wp_peek_raw {B} (k : Z -> M B) (e : B) t (Q : B -> tstate -> Prop) :
  (forall nx t1, (t_rem t1 <= t_rem t)%nat -> wp (k nx) t1 Q) -> Q e t ->
  wp (fun t0 => match t_peek t0 with
                | Ok (nx, t1) => k nx t1
                | Err => Ok (e, t0)
                | Panic => Panic
                | OutOfFuel => OutOfFuel
                end) t Q.
Proof.
  intros Hk He. unfold wp at 1. pose proof (peek_spec t) as P. unfold wp in P.
  destruct (t_peek t) as [[nx t2]| | |]; try exact I; try exact P; [|exact He].
  apply Hk. apply P.
Qed.
Lemma read_radix_spec mk valid t : valid (-1) = false ->
  wp (read_radix mk valid) t (fun _ t' => (t_rem t' + 1 <= t_rem t)%nat).
Proof.
  intros Hv. unfold read_radix. wauto.
  all: apply wp_peek_raw; [intros nx t1 P1|wfin].
  all: match goal with |- wp (fun t0 => ?m t0) ?t ?Q => change (wp m t Q) end.
  all: wstep; [apply wp_fail|]; apply wp_bind; apply wp_with_fuel;
    (eapply wp_mono; [apply radix_digits_spec; [exact Hv|unfold t_fuel; lia]|cbn beta; intros; wsimp; cbn beta iota]).
  all: wauto; wfin.
Qed.

(* ---- timestamps ------------------------------------------------------------------------------------- *)
Lemma ts_digits_spec : forall n w t,
  wp (read_timestamp_digits n w) t (fun a t' => (t_rem t' + wt (fst a) + n <= t_rem t)%nat).
Proof.
  induction n as [|n IH]; intros w t; cbn [read_timestamp_digits].
  - wauto; wfin.
  - wuse read_spec. destruct (is_digit a) eqn:D; cbn [negb]; [|apply wp_fail].
    pose proof (is_digit_wt _ D). eapply wp_mono; [apply IH|cbn beta; intros; lia].
Qed.
#[export] Hint Resolve ts_digits_spec : wps.
Lemma ts_offset_spec c w t :
  wp (read_timestamp_offset c w) t (fun a t' => (t_rem t' + wt (fst a) <= t_rem t + wt c)%nat).
Proof. unfold read_timestamp_offset. wauto; wfin. Qed.
#[export] Hint Resolve ts_offset_spec : wps.
Lemma ts_offset_or_z_spec c w t :
  wp (read_timestamp_offset_or_z c w) t (fun a t' => (t_rem t' + wt (fst a) <= t_rem t + wt c)%nat).
Proof. unfold read_timestamp_offset_or_z. wauto; wfin. Qed.
#[export] Hint Resolve ts_offset_or_z_spec : wps.
Lemma ts_finish_spec c w t :
  wp (read_timestamp_finish c w) t (fun _ t' => (t_rem t' <= t_rem t + wt c)%nat).
Proof. unfold read_timestamp_finish. wauto; wfin. Qed.
#[export] Hint Resolve ts_finish_spec : wps.
Lemma read_timestamp_spec t : wp read_timestamp t (fun _ t' => (t_rem t' + 1 <= t_rem t)%nat).
Proof. unfold read_timestamp. wauto; wfin. Qed.

(* ---- symbols ------------------------------------------------------------------------------------------ *)
Lemma read_while_spec : forall f p w t, p (-1) = false -> (t_rem t < f)%nat ->
  wp (read_while f p w) t (fun _ t' => (t_rem t' <= t_rem t)%nat).
Proof.
  induction f as [|f IH]; intros p w t Hp Hf; [lia|]. cbn [read_while].
  wuse peek_spec. destruct (p a) eqn:P; [|apply wp_ret; lia].
  assert (wt a = 1%nat) by (apply wt_1; intros ->; congruence).
  match goal with HB : t_buf _ = _ :: _ |- _ => rename HB into HB1 end.
  apply wp_bind. unfold wp at 1. rewrite (read_hd _ _ _ HB1). pose proof (rem_hd _ _ _ HB1).
  eapply wp_mono; [apply IH; [exact Hp|lia]|cbn beta; intros; lia].
Qed.
Lemma read_while_S f p w :
  read_while (S f) p w = (tdo c <- t_peek; if p c then tdo _ <- t_read; read_while f p (byte_of c :: w) else ret (rev w)).
Proof. reflexivity. Qed.
Lemma read_symbol_spec t : wp read_symbol t (fun _ t' => (t_rem t' <= t_rem t)%nat).
Proof. unfold read_symbol. apply wp_with_fuel. apply read_while_spec; [reflexivity|unfold t_fuel; lia]. Qed.
Lemma read_symbol_strict t c b : t_buf t = c :: b -> is_identifier_start c = true ->
  wp read_symbol t (fun _ t' => (t_rem t' < t_rem t)%nat).
Proof.
  intros E Hc. unfold read_symbol. apply wp_with_fuel. unfold t_fuel. rewrite read_while_S.
  apply wp_bind. unfold wp at 1. rewrite (peek_hd _ _ _ E).
  assert (P : is_identifier_part c = true) by (unfold is_identifier_part; rewrite Hc; reflexivity).
  rewrite P. apply wp_bind. unfold wp at 1. rewrite (read_hd _ _ _ E). pose proof (rem_hd _ _ _ E).
  wt1 c. eapply wp_mono; [apply read_while_spec; [reflexivity|lia]|cbn beta; intros; lia].
Qed.

(* look-ahead keeps the character on top of the buffer there *)
Lemma peekN_loop_prefix : forall n acc t cs e t1,
  peekN_loop n acc t = Ok ((cs, e), t1) -> exists l, cs = rev acc ++ l.
Proof.
  induction n as [|n IH]; intros acc t cs e t1; cbn [peekN_loop].
  - unfold ret. intros E; injection E as <- _ _. exists []. rewrite app_nil_r. reflexivity.
  - unfold mbind. destruct (t_read t) as [[c t0]| | |]; try discriminate.
    destruct (c =? -1).
    + unfold ret. intros E; injection E as <- _ _. exists []. rewrite app_nil_r. reflexivity.
    + intros E. apply IH in E. destruct E as [l ->]. cbn [rev]. rewrite <- app_assoc. eexists; reflexivity.
Qed.
Lemma unread_all_last : forall l c t t', unread_all (l ++ [c]) t = Ok (tt, t') -> exists b, t_buf t' = c :: b.
Proof.
  induction l as [|x l IH]; intros c t t'; cbn [app unread_all].
  - unfold mbind, t_unread, ret. intros E; injection E as <-. eexists; reflexivity.
  - unfold mbind at 1. unfold t_unread at 1. apply IH.
Qed.
Lemma peekN_hd n t c b : t_buf t = c :: b -> c <> -1 ->
  wp (t_peekN (S n)) t (fun _ t' => (t_rem t' <= t_rem t)%nat /\ exists b', t_buf t' = c :: b').
Proof.
  intros E Hc. pose proof (peekN_spec (S n) t) as H. unfold wp in *.
  destruct (t_peekN (S n) t) as [[[cs e] t']| | |] eqn:EP; auto. split; [exact H|].
  unfold t_peekN, mbind in EP.
  destruct (peekN_loop (S n) [] t) as [[[cs1 e1] t1]| | |] eqn:E1; try discriminate.
  assert (exists l, cs1 = c :: l) as [l ->].
  { cbn [peekN_loop] in E1. unfold mbind in E1. rewrite (read_hd _ _ _ E) in E1.
    apply Z.eqb_neq in Hc. rewrite Hc in E1. apply peekN_loop_prefix in E1. destruct E1 as [l ->]. eexists; reflexivity. }
  destruct ((if e1 then t_unread (-1) else ret tt) t1) as [[u t2]| | |]; try discriminate.
  cbn [rev] in EP. destruct (unread_all (rev l ++ [c]) t2) as [[u3 t3]| | |] eqn:E3; try discriminate.
  destruct u3. apply unread_all_last in E3. unfold ret in EP. injection EP as _ _ <-. exact E3.
Qed.
Lemma is_operator_wt c : is_operator_char c = true -> wt c = 1%nat.
Proof. intros H. apply wt_1. intros ->. discriminate. Qed.
Lemma read_operator_loop_spec : forall f w t, (t_rem t < f)%nat ->
  wp (read_operator_loop f w) t (fun _ t' => (t_rem t' <= t_rem t)%nat).
Proof.
  induction f as [|f IH]; intros w t Hf; [lia|]. cbn [read_operator_loop].
  wuse peek_spec. destruct (is_operator_char a) eqn:P; [|apply wp_ret; lia].
  match goal with HB : t_buf _ = _ :: _ |- _ => rename HB into HB1 end.
  pose proof (is_operator_wt _ P) as W.
  assert (Hne : a <> -1) by (intros ->; discriminate).
  assert (Htail : forall t2 b2, t_buf t2 = a :: b2 -> (t_rem t2 <= t_rem t')%nat ->
            wp (tdo _ <- t_read; read_operator_loop f (byte_of a :: w)) t2 (fun _ t'0 => (t_rem t'0 <= t_rem t)%nat)).
  { intros t2 b2 E2 R2. apply wp_bind. unfold wp at 1. rewrite (read_hd _ _ _ E2). pose proof (rem_hd _ _ _ E2).
    eapply wp_mono; [apply IH; lia|cbn beta; intros; lia]. }
  destruct (a =? c_slash).
  - apply wp_bind. apply wp_bind. eapply wp_mono; [apply (peekN_hd 1 _ _ _ HB1 Hne)|]. cbn beta. intros [cs e] t2 [R2 [b2 E2]].
    apply wp_ret. cbn beta iota.
    match goal with |- wp (if ?b then _ else _) _ _ => destruct b end; [apply wp_ret; lia|].
    eapply Htail; eassumption.
  - apply wp_bind_ret. cbn beta iota. eapply Htail; [eassumption|lia].
Qed.
Lemma read_operator_spec t : wp read_operator t (fun _ t' => (t_rem t' <= t_rem t)%nat).
Proof. unfold read_operator. apply wp_with_fuel. apply read_operator_loop_spec. unfold t_fuel; lia. Qed.

(* ---- strings and lobs: the loops of TokenizerP.v under the fuel their callers give them ------------------ *)
Lemma read_quoted_symbol_spec t : wp read_quoted_symbol t (fun _ t' => (t_rem t' <= t_rem t)%nat).
Proof. exact (nonincr_with_fuel _ (fun f t0 H => quoted_symbol_loop_progress f [] t0 H) t). Qed.
Lemma read_string_spec t : wp read_string t (fun _ t' => (t_rem t' <= t_rem t)%nat).
Proof. exact (nonincr_with_fuel _ (fun f t0 H => string_loop_progress f [] t0 H) t). Qed.
Lemma read_long_string_spec t : wp read_long_string t (fun _ t' => (t_rem t' <= t_rem t)%nat).
Proof. exact (nonincr_with_fuel _ (fun f t0 H => long_string_loop_progress f [] [] t0 H) t). Qed.
Lemma read_clob_spec t : wp read_clob t (fun _ t' => (t_rem t' <= t_rem t)%nat).
Proof. exact (nonincr_with_fuel _ (fun f t0 H => clob_loop_progress f [] t0 H) t). Qed.
Lemma read_long_clob_spec t : wp read_long_clob t (fun _ t' => (t_rem t' <= t_rem t)%nat).
Proof. exact (nonincr_with_fuel _ (fun f t0 H => long_clob_loop_progress f [] t0 H) t). Qed.
Lemma read_blob_loop_spec t : wp (with_fuel (fun f => read_blob_loop f [])) t (fun _ t' => (t_rem t' <= t_rem t)%nat).
Proof. exact (nonincr_with_fuel _ (fun f t0 H => read_blob_loop_progress f [] t0 H) t). Qed.
#[export] Hint Resolve read_symbol_spec read_operator_spec read_quoted_symbol_spec read_string_spec read_long_string_spec
  read_clob_spec read_long_clob_spec read_blob_loop_spec : wps.
Lemma read_blob_spec t : wp t_read_blob t (fun _ t' => (t_rem t' <= t_rem t)%nat).
Proof. unfold t_read_blob. wauto; wfin. Qed.
Lemma lob_end_spec t : wp lob_end t (fun _ t' => (t_rem t' <= t_rem t)%nat).
Proof. unfold lob_end. wauto; wfin. Qed.
#[export] Hint Resolve lob_end_spec : wps.
Lemma read_short_clob_spec t : wp t_read_short_clob t (fun _ t' => (t_rem t' <= t_rem t)%nat).
Proof. unfold t_read_short_clob. wauto; wfin. Qed.
Lemma read_long_clob_spec' t : wp t_read_long_clob t (fun _ t' => (t_rem t' <= t_rem t)%nat).
Proof. unfold t_read_long_clob. wauto; wfin. Qed.

(* ---- ReadValue -------------------------------------------------------------------------------------------- *)
Lemma read_value_spec tok t : wp (t_read_value tok) t (fun _ t' => (t_rem t' <= t_rem t)%nat).
Proof.
  unfold t_read_value, read_binary, read_hex.
  repeat match goal with |- wp (mbind (if ?b then _ else _) _) _ _ => destruct b end.
  all: try (wauto; wfin).
  all: try (wuse read_radix_spec; [reflexivity|]; wauto; wfin).
  - wuse read_timestamp_spec. wauto; wfin.
  - apply wp_bind. apply wp_panic.
Qed.
Lemma read_value_symbol_strict t c b : t_buf t = c :: b -> is_identifier_start c = true ->
  wp (t_read_value tokenSymbol) t (fun _ t' => (t_rem t' < t_rem t)%nat).
Proof.
  intros E Hc. unfold t_read_value. cbn [N.eqb tokenSymbol Pos.eqb].
  wuse read_symbol_strict; [eassumption|exact Hc|]. wauto; wfin.
Qed.
Definition numlike (k : N) : bool := (k =? tokenBinary)%N || (k =? tokenHex)%N || (k =? tokenTimestamp)%N.
Lemma read_value_numlike_strict k t : numlike k = true ->
  wp (t_read_value k) t (fun _ t' => (t_rem t' < t_rem t)%nat).
Proof.
  unfold numlike. intros Hk.
  assert (Hc : k = tokenBinary \/ k = tokenHex \/ k = tokenTimestamp).
  { destruct (k =? tokenBinary)%N eqn:E1; [left; apply N.eqb_eq, E1|].
    destruct (k =? tokenHex)%N eqn:E2; [right; left; apply N.eqb_eq, E2|].
    right; right. apply N.eqb_eq. exact Hk. }
  destruct Hc as [Hc|[Hc|Hc]]; subst k.
  all: unfold t_read_value, read_binary, read_hex; cbn [N.eqb tokenSymbol tokenBinary tokenHex tokenTimestamp tokenSymbolQuoted
    tokenSymbolOperator tokenDot tokenString tokenLongString Pos.eqb orb].
  - wuse read_radix_spec; [reflexivity|]. wauto; wfin.
  - wuse read_radix_spec; [reflexivity|]. wauto; wfin.
  - wuse read_timestamp_spec. wauto; wfin.
Qed.

(* ---- skipper.go ---------------------------------------------------------------------------------------------- *)
Lemma skip_digits_loop_spec : forall f c t, (t_rem t + wt c < f)%nat ->
  wp (skip_digits_loop f c) t (fun c' t' => (t_rem t' + wt c' <= t_rem t + wt c)%nat).
Proof.
  induction f as [|f IH]; intros c t Hf; [lia|]. cbn [skip_digits_loop].
  destruct (is_digit c) eqn:D; [|apply wp_ret; lia].
  pose proof (is_digit_wt _ D). wuse read_spec.
  eapply wp_mono; [apply IH; lia|cbn beta; intros; lia].
Qed.
Lemma skip_digits_spec c t : wp (skip_digits c) t (fun c' t' => (t_rem t' + wt c' <= t_rem t + wt c)%nat).
Proof. unfold skip_digits. apply wp_with_fuel. apply skip_digits_loop_spec. pose proof (wt_le c). unfold t_fuel. lia. Qed.
#[export] Hint Resolve skip_digits_spec : wps.
Lemma skip_number_spec t : wp skip_number t (fun c t' => (t_rem t' + wt c <= t_rem t)%nat).
Proof. unfold skip_number. wauto; wfin. Qed.
Lemma skip_radix_loop_spec : forall f valid t, valid (-1) = false -> (t_rem t < f)%nat ->
  wp (skip_radix_loop f valid) t (fun c t' => (t_rem t' + wt c <= t_rem t)%nat).
Proof.
  induction f as [|f IH]; intros valid t Hv Hf; [lia|]. cbn [skip_radix_loop].
  wuse read_spec. destruct (valid a) eqn:V; [|apply wp_ret; lia].
  assert (wt a = 1%nat) by (apply wt_1; intros ->; congruence).
  eapply wp_mono; [apply IH; [exact Hv|lia]|cbn beta; intros; lia].
Qed.
Lemma skip_radix_spec mk valid t : valid (-1) = false ->
  wp (skip_radix mk valid) t (fun c t' => (t_rem t' + wt c <= t_rem t)%nat).
Proof.
  intros Hv. unfold skip_radix. wstep. wstep; wstep.
  all: wstep; [apply wp_fail|]; wstep; apply wp_bind; apply wp_with_fuel;
    (eapply wp_mono; [apply skip_radix_loop_spec; [exact Hv|unfold t_fuel; lia]|cbn beta; intros; wsimp; cbn beta iota]).
  all: wauto; wfin.
Qed.
Lemma skip_ts_digits_spec : forall n t, wp (skip_timestamp_digits n) t (fun c t' => (t_rem t' + wt c <= t_rem t)%nat).
Proof.
  induction n as [|n IH]; intros t; cbn [skip_timestamp_digits].
  - eapply wp_mono; [apply read_spec|cbn beta; intros; wsimp; lia].
  - wuse expect_spec. eapply wp_mono; [apply IH|cbn beta; intros; lia].
Qed.
#[export] Hint Resolve skip_ts_digits_spec : wps.
Lemma skip_ts_finish_spec c t : wp (skip_timestamp_finish c) t (fun c' t' => (t_rem t' + wt c' <= t_rem t + wt c)%nat).
Proof. unfold skip_timestamp_finish. wauto; wfin. Qed.
#[export] Hint Resolve skip_ts_finish_spec : wps.
Lemma skip_ts_offset_spec c t : wp (skip_timestamp_offset c) t (fun c' t' => (t_rem t' + wt c' <= t_rem t + wt c)%nat).
Proof. unfold skip_timestamp_offset. wauto; wfin. Qed.
#[export] Hint Resolve skip_ts_offset_spec : wps.
Lemma skip_ts_offset_or_z_spec c t : wp (skip_timestamp_offset_or_z c) t (fun c' t' => (t_rem t' + wt c' <= t_rem t + wt c)%nat).
Proof. unfold skip_timestamp_offset_or_z. wauto; wfin. Qed.
#[export] Hint Resolve skip_ts_offset_or_z_spec : wps.
Lemma skip_timestamp_spec t : wp skip_timestamp t (fun c t' => (t_rem t' + wt c <= t_rem t)%nat).
Proof. unfold skip_timestamp. wauto; wfin. Qed.

Lemma skip_while_spec : forall f p c t, p (-1) = false -> (t_rem t + wt c < f)%nat ->
  wp (skip_while f p c) t (fun c' t' => (t_rem t' + wt c' <= t_rem t + wt c)%nat).
Proof.
  induction f as [|f IH]; intros p c t Hp Hf; [lia|]. cbn [skip_while].
  destruct (p c) eqn:P; [|apply wp_ret; lia].
  assert (wt c = 1%nat) by (apply wt_1; intros ->; congruence).
  wuse read_spec. eapply wp_mono; [apply IH; [exact Hp|lia]|cbn beta; intros; lia].
Qed.
Lemma skip_symbol_spec t : wp skip_symbol t (fun c t' => (t_rem t' + wt c <= t_rem t)%nat).
Proof.
  unfold skip_symbol. wuse read_spec. apply wp_with_fuel.
  eapply wp_mono; [apply skip_while_spec; [reflexivity|pose proof (wt_le a); unfold t_fuel; lia]|cbn beta; intros; lia].
Qed.
Lemma skip_operator_loop_spec : forall f c t, (t_rem t + wt c < f)%nat ->
  wp (skip_operator_loop f c) t (fun c' t' => (t_rem t' + wt c' <= t_rem t + wt c)%nat).
Proof.
  induction f as [|f IH]; intros c t Hf; [lia|]. cbn [skip_operator_loop].
  destruct (is_operator_char c) eqn:P; [|apply wp_ret; lia].
  pose proof (is_operator_wt _ P).
  destruct (c =? c_slash).
  - apply wp_bind. wuse peek_spec. apply wp_ret. cbn beta iota.
    match goal with |- wp (if ?b then _ else _) _ _ => destruct b end; [apply wp_ret; lia|].
    wuse read_spec. eapply wp_mono; [apply IH; lia|cbn beta; intros; lia].
  - apply wp_bind_ret. cbn beta iota.
    wuse read_spec. eapply wp_mono; [apply IH; lia|cbn beta; intros; lia].
Qed.
Lemma skip_symbol_operator_spec t : wp skip_symbol_operator t (fun c t' => (t_rem t' + wt c <= t_rem t)%nat).
Proof.
  unfold skip_symbol_operator. wuse read_spec. apply wp_with_fuel.
  eapply wp_mono; [apply skip_operator_loop_spec; pose proof (wt_le a); unfold t_fuel; lia|cbn beta; intros; lia].
Qed.
Lemma skip_symbol_quoted_spec t : wp skip_symbol_quoted t (fun c t' => (t_rem t' + wt c <= t_rem t)%nat).
Proof. unfold skip_symbol_quoted. wauto; wfin. Qed.
Lemma skip_string_spec t : wp skip_string t (fun c t' => (t_rem t' + wt c <= t_rem t)%nat).
Proof. unfold skip_string. wauto; wfin. Qed.
Lemma skip_long_string_spec t : wp skip_long_string t (fun c t' => (t_rem t' + wt c <= t_rem t)%nat).
Proof. unfold skip_long_string. wauto; wfin. Qed.
Lemma skip_blob_spec t : wp skip_blob t (fun c t' => (t_rem t' + wt c <= t_rem t)%nat).
Proof. unfold skip_blob. wauto; wfin. Qed.
Lemma skip_container_helper_spec term t : wp (t_skip_container_helper term) t (fun _ t' => (t_rem t' <= t_rem t)%nat).
Proof. exact (nonincr_with_fuel _ (fun f t0 H => skip_container_progress f term t0 H) t). Qed.
#[export] Hint Resolve skip_container_helper_spec : wps.
Lemma skip_container_contents_spec c t : wp (t_skip_container_contents c) t (fun _ t' => (t_rem t' <= t_rem t)%nat).
Proof. apply skip_container_helper_spec. Qed.
Lemma skip_container_spec term t : wp (skip_container term) t (fun c t' => (t_rem t' + wt c <= t_rem t)%nat).
Proof. unfold skip_container. wauto; wfin. Qed.

Lemma skip_value_spec t : wp t_skip_value t (fun c t' => (t_rem t' + wt c <= t_rem t)%nat).
Proof.
  unfold t_skip_value. wstep. cbn zeta. apply wp_bind.
  assert (H : wp (if (t_token t =? tokenNumber)%N then skip_number
     else if (t_token t =? tokenBinary)%N then skip_binary
     else if (t_token t =? tokenHex)%N then skip_hex
     else if (t_token t =? tokenTimestamp)%N then skip_timestamp
     else if (t_token t =? tokenSymbol)%N then skip_symbol
     else if (t_token t =? tokenSymbolQuoted)%N then skip_symbol_quoted
     else if (t_token t =? tokenSymbolOperator)%N then skip_symbol_operator
     else if (t_token t =? tokenString)%N then skip_string
     else if (t_token t =? tokenLongString)%N then skip_long_string
     else if (t_token t =? tokenOpenDoubleBrace)%N then skip_blob
     else if (t_token t =? tokenOpenBrace)%N then skip_container c_rbrace
     else if (t_token t =? tokenOpenParen)%N then skip_container c_rparen
     else if (t_token t =? tokenOpenBracket)%N then skip_container c_rbracket
     else mpanic) t (fun c t' => (t_rem t' + wt c <= t_rem t)%nat)).
  { repeat match goal with |- wp (if ?b then _ else _) _ _ => destruct b end;
      first [ apply skip_number_spec | apply skip_radix_spec; reflexivity | apply skip_timestamp_spec
            | apply skip_symbol_spec | apply skip_symbol_quoted_spec | apply skip_symbol_operator_spec
            | apply skip_string_spec | apply skip_long_string_spec | apply skip_blob_spec
            | apply skip_container_spec | apply wp_panic ]. }
  eapply wp_mono; [exact H|]. cbn beta. intros c t1 H1. wauto; wfin.
Qed.
#[export] Hint Resolve skip_value_spec : wps.

Lemma skip_double_colon_spec t : wp skip_double_colon t (fun _ t' => (t_rem t' <= t_rem t)%nat).
Proof. unfold skip_double_colon. wauto; wfin. Qed.
#[export] Hint Resolve skip_double_colon_spec : wps.
Lemma t_skip_double_colon_spec t : wp t_skip_double_colon t (fun _ t' => (t_rem t' <= t_rem t)%nat).
Proof. unfold t_skip_double_colon. wauto; wfin. Qed.
Lemma skip_dot_spec t : wp t_skip_dot t (fun _ t' => (t_rem t' <= t_rem t)%nat).
Proof. unfold t_skip_dot. wauto; wfin. Qed.
Lemma skip_lob_ws_spec t : wp t_skip_lob_ws t (fun c t' => (t_rem t' + wt c <= t_rem t)%nat).
Proof. unfold t_skip_lob_ws. wauto; wfin. Qed.
Lemma finish_value_spec t : wp t_finish_value t (fun _ t' => (t_rem t' <= t_rem t)%nat).
Proof. unfold t_finish_value, t_finish_value_with. wauto; wfin. Qed.

(* ---- tokenizer.Next ---------------------------------------------------------------------------------------------- *)
(* the tokens whose first character Next pushes back for the value reader *)
Definition pushes (k : N) : bool :=
  existsb (N.eqb k) [tokenNumber; tokenBinary; tokenHex; tokenTimestamp; tokenSymbol; tokenSymbolOperator; tokenDot].
Definition tok_cost (k : N) : nat := if (k =? tokenEOF)%N || pushes k then O else 1%nat.
Definition next_post (t t' : tstate) : Prop :=
  (t_rem t' + tok_cost (t_token t') <= t_rem t)%nat /\
  (t_token t' = tokenSymbol -> exists c b, t_buf t' = c :: b /\ is_identifier_start c = true) /\
  (t_token t' = tokenNumber -> exists c b, t_buf t' = c :: b /\ is_digit c || (c =? c_minus) = true).
Lemma wp_t_ok k m t (Q : unit -> tstate -> Prop) : Q tt (set_tok t k m) -> wp (t_ok k m) t Q.
Proof. exact (fun H => H). Qed.
Lemma rem_set_tok t k m : t_rem (set_tok t k m) = t_rem t. Proof. reflexivity. Qed.

Ltac next_fin :=
  unfold next_post; cbn [t_token set_tok t_buf]; rewrite ?rem_set_tok;
  repeat match goal with
         | |- context [tok_cost ?k] => let v := eval vm_compute in (tok_cost k) in change (tok_cost k) with v
         end;
  split; [wfin|split; intros HK; try discriminate HK].
Lemma next_spec t : wp t_next t (fun _ t' => next_post t t').
Proof.
  unfold t_next, t_next_with. wstep.
  apply wp_bind. eapply wp_mono with (Q := fun c t' => (t_rem t' + wt c <= t_rem t)%nat).
  { destruct (t_unfinished t); [apply skip_value_spec|]. wauto; wfin. }
  cbn beta. intros c t1 H1.
  repeat match goal with
         | |- wp (if ?b then _ else _) _ _ => destruct b eqn:?
         | |- wp (t_ok _ _) _ _ => apply wp_t_ok
         | _ => wstep
         end.
  all: try (unfold numtok in *;
            repeat match goal with H : _ \/ _ |- _ => destruct H end; subst).
  all: try solve [next_fin].
  all: next_fin.
  all: do 2 eexists; (split; [eassumption|]).
  all: first [ assumption
             | match goal with H : is_digit ?c = true |- is_digit ?c || _ = true => rewrite H; reflexivity end
             | match goal with H : (?c =? c_minus) = true |- _ || (?c =? c_minus) = true => rewrite H; apply orb_true_r end ].
Qed.
