(* SpellBlob.v — C02, stage: base64 blobs with whitespace inside, and the closing braces of lobs.

   [b64_text chars bytes]: [chars] is a base64 text (RFC 4648 section 4, standard alphabet, with
   padding, no whitespace) of [bytes]: quads of four alphabet characters giving three bytes,
   ended by nothing, by `xy==` (one byte) or by `xyz=` (two bytes).
   Trailing bits: RFC 4648 section 3.5 lets a decoder reject a final group whose unused low bits
   are not zero, it does not oblige it to; the Ion specification says nothing.  The
   specification decoder Text/SpecText.v ([b64_bytes]) accepts such groups and drops the bits;
   this relation does the same (and so does Go's base64.StdEncoding, which is not Strict()).
   [interleaved w chars]: [w] is [chars] with runs of plain whitespace (space, tab, LF, CR, VT,
   FF: [ws_plain] of SpellWs.v) inserted anywhere: in front, between two characters, at the end.
   The characters themselves are bytes that are neither whitespace nor `}`.
   Both are written from the Ion text grammar / the RFC, independently of the tokenizer.

   Theorems: ReadBlob started on  w }} rest  consumes everything up to and including }} and
   answers exactly [chars]; base64 decoding of [chars] gives [bytes]; the specification decoder
   SpecText.p_blob reads the same bytes from the same spelling; lob_end (the `}}` of a clob)
   after any plain whitespace. *)
From Coq Require Import String List NArith ZArith Bool Lia ZifyBool ZifyN ZifyNat.
From IonV Require Import Base.Wire Base.Utf8 Data.Ion Text.TextReader Text.Tokenizer Text.Skipper
  Text.SpellBase Text.SpellWs.
From IonV Require Text.SpecText.
Import ListNotations.
Open Scope Z_scope.
Ltac Zify.zify_post_hook ::= Z.div_mod_to_equations.

(* ---- the relations ------------------------------------------------------------------------------------ *)
(* the alphabet: the value table is the specification's, not the model's *)
Definition b64_char (c v : N) : Prop := SpecText.b64val c = Some v.

Inductive b64_text : list N -> list N -> Prop :=
| b64_end : b64_text [] []
| b64_quad a b c d x y z v r bs :
    b64_char a x -> b64_char b y -> b64_char c z -> b64_char d v -> b64_text r bs ->
    b64_text (a :: b :: c :: d :: r)
             ((x * 4 + y / 16) :: (y mod 16 * 16 + z / 4) :: (z mod 4 * 64 + v) :: bs)%N
| b64_pad2 a b x y :
    b64_char a x -> b64_char b y ->
    b64_text [a; b; 61; 61]%N [x * 4 + y / 16]%N
| b64_pad1 a b c x y z :
    b64_char a x -> b64_char b y -> b64_char c z ->
    b64_text [a; b; c; 61]%N [x * 4 + y / 16; y mod 16 * 16 + z / 4]%N.

(* what may stand between the braces besides whitespace *)
Definition blob_byte (c : N) : Prop := ws_byte c = false /\ c <> 125%N /\ (c < 256)%N.

Inductive interleaved : list N -> list N -> Prop :=
| il_end ws : ws_plain ws -> interleaved ws []
| il_ch ws c w chars : ws_plain ws -> blob_byte c -> interleaved w chars ->
                       interleaved (ws ++ c :: w) (c :: chars).

(* a blob spelling: the text between {{ and }} *)
Definition blob_spelling (w bytes : list N) : Prop :=
  exists chars, interleaved w chars /\ b64_text chars bytes.

(* ---- facts about the relations ---------------------------------------------------------------------- *)
Lemma b64_char_facts c v :
  b64_char c v -> (v < 64)%N /\ (c < 128)%N /\ c <> 61%N /\ c <> 125%N /\ ws_byte c = false.
Proof.
  unfold b64_char, SpecText.b64val, SpecText.is_digit, SpecText.in_rng, ws_byte. intros H.
  repeat match type of H with (if ?b then _ else _) = _ => destruct b eqn:? end;
    inversion H; subst; lia.
Qed.
Lemma b64_char_blob_byte c v : b64_char c v -> blob_byte c.
Proof. intros H. destruct (b64_char_facts c v H) as (_ & H1 & _ & H2 & H3). unfold blob_byte. repeat split; auto; lia. Qed.
Lemma pad_blob_byte : blob_byte 61%N.
Proof. unfold blob_byte. split; [reflexivity|split; [discriminate|reflexivity]]. Qed.
Lemma b64_text_blob_bytes chars bytes : b64_text chars bytes -> Forall blob_byte chars.
Proof.
  induction 1 as [|a b c d x y z v r bs Ha Hb Hc Hd Hr IH|a b x y Ha Hb|a b c x y z Ha Hb Hc];
    repeat (constructor; eauto using b64_char_blob_byte, pad_blob_byte).
Qed.
(* the spelling without any whitespace *)
Lemma interleaved_self chars : Forall blob_byte chars -> interleaved chars chars.
Proof.
  induction 1 as [|c r Hc Hr IH]; [apply il_end; constructor|].
  apply (il_ch [] c r r); [constructor|exact Hc|exact IH].
Qed.
Lemma interleaved_length w chars : interleaved w chars -> (length chars <= length w)%nat.
Proof.
  induction 1 as [ws Hws|ws c w chars Hws Hc Hw IH]; cbn [length]; [lia|].
  rewrite app_length. cbn [length]. lia.
Qed.
(* whitespace may be added in front *)
Lemma interleaved_ws_app ws w chars : ws_plain ws -> interleaved w chars -> interleaved (ws ++ w) chars.
Proof.
  intros Hws Hw. assert (Happ : forall a b, ws_plain a -> ws_plain b -> ws_plain (a ++ b)).
  { induction 1 as [|c a Hc Ha IH]; intros Hb; cbn [app]; [exact Hb|apply wsp_ch; auto]. }
  destruct Hw as [ws' Hws'|ws' c w chars Hws' Hc Hw].
  - apply il_end. apply Happ; auto.
  - rewrite app_assoc. apply il_ch; auto.
Qed.

Lemma blob_byte_not_ws c : blob_byte c -> is_whitespace (Z.of_N c) = false.
Proof.
  intros (H & _ & _). unfold ws_byte in H. unfold is_whitespace, zmem. cbn [existsb]. lia.
Qed.
Lemma byte_of_N c : (c < 256)%N -> byte_of (Z.of_N c) = c.
Proof. intros H. unfold byte_of. lia. Qed.

(* ---- ReadBlob -------------------------------------------------------------------------------------------- *)
(* one unit of fuel per character (whitespace is skipped by skipLobWhitespace on its own fuel) *)
Lemma run_read_blob_loop : forall w chars, interleaved w chars -> forall f acc s,
  (length chars < f)%nat ->
  run (read_blob_loop f acc) (zs w ++ 125 :: s) (rev acc ++ chars) s.
Proof.
  induction 1 as [ws Hws|ws c w chars Hws Hc Hw IH]; intros f acc s Hf;
    (destruct f as [|f]; [cbn [length] in Hf; lia|]); cbn [read_blob_loop].
  - eapply run_bind; [apply (run_t_skip_lob_whitespace ws (125 :: s) Hws); reflexivity|].
    cbn [shead stail]. cbv beta iota. change (125 =? -1) with false. change (125 =? c_rbrace) with true.
    cbv iota. rewrite app_nil_r. apply run_ret.
  - rewrite zs_app, <- app_assoc. cbn [zs map app].
    eapply run_bind; [apply (run_t_skip_lob_whitespace ws (Z.of_N c :: map Z.of_N w ++ 125 :: s) Hws);
                      cbn [shead]; apply blob_byte_not_ws; exact Hc|].
    cbn [shead stail]. cbv beta iota. destruct Hc as (Hc1 & Hc2 & Hc3).
    replace (Z.of_N c =? -1) with false by lia.
    replace (Z.of_N c =? c_rbrace) with false by (unfold c_rbrace; lia).
    rewrite (byte_of_N c Hc3).
    eapply run_eq; [apply (IH f (c :: acc) s); cbn [length] in Hf; lia| |reflexivity].
    cbn [rev]. now rewrite <- app_assoc.
Qed.

Lemma runK_finish s k u : runK finish (s, k, u) tt (s, k, false).
Proof.
  intros t Hi Ha. unfold abs in Ha. injection Ha as Hs Hk Hu. exists (set_unfinished t false).
  unfold finish. repeat split; auto. unfold abs, stream in *.
  cbn [set_unfinished set_tok t_buf t_in t_token t_unfinished]. now rewrite Hs, Hk.
Qed.

(* ReadBlob on  w }} s : the base64 characters, everything up to and including }} consumed,
   the value finished.  (No [no_cr] hypothesis is needed: CR is whitespace like the rest.) *)
Theorem run_t_read_blob w chars s k u :
  interleaved w chars ->
  runK t_read_blob (zs w ++ 125 :: 125 :: s, k, u) chars (s, k, false).
Proof.
  intros Hw. unfold t_read_blob. eapply runK_bind.
  - apply run_runK. apply run_with_fuel. intros f Hf.
    apply (run_read_blob_loop w chars Hw f [] (125 :: s)).
    rewrite nne_app, nne_zs in Hf. pose proof (interleaved_length w chars Hw). lia.
  - cbn [rev app]. eapply runK_bind; [apply run_runK, run_read_cons|].
    change (negb (125 =? c_rbrace)) with false. cbv iota.
    eapply runK_bind; [apply runK_finish|apply runK_ret].
Qed.

(* ---- base64 decoding --------------------------------------------------------------------------------------- *)
(* the model's table and the specification's are the same function *)
Lemma b64val_spec c v : b64_char c v -> TextReader.b64val c = Some v.
Proof. intros H. exact H. Qed.

Theorem b64_decode_text chars bytes : b64_text chars bytes -> b64_decode chars = Some bytes.
Proof.
  induction 1 as [|a b c d x y z v r bs Ha Hb Hc Hd Hr IH|a b x y Ha Hb|a b c x y z Ha Hb Hc].
  - reflexivity.
  - destruct (b64_char_facts _ _ Ha) as (Hx & _). destruct (b64_char_facts _ _ Hb) as (Hy & _).
    destruct (b64_char_facts _ _ Hc) as (Hz & _ & Hc61 & _). destruct (b64_char_facts _ _ Hd) as (Hv & _ & Hd61 & _).
    cbn [b64_decode]. rewrite (b64val_spec _ _ Ha), (b64val_spec _ _ Hb), (b64val_spec _ _ Hc), (b64val_spec _ _ Hd).
    destruct (N.eqb_spec c 61); [contradiction|]. destruct (N.eqb_spec d 61); [contradiction|].
    rewrite IH. cbn [option_map]. f_equal. f_equal; [lia|]. f_equal; [lia|]. f_equal. lia.
  - destruct (b64_char_facts _ _ Ha) as (Hx & _). destruct (b64_char_facts _ _ Hb) as (Hy & _).
    cbn [b64_decode]. rewrite (b64val_spec _ _ Ha), (b64val_spec _ _ Hb).
    change ((61 =? 61)%N) with true. cbn [andb]. cbv iota. f_equal. f_equal. lia.
  - destruct (b64_char_facts _ _ Ha) as (Hx & _). destruct (b64_char_facts _ _ Hb) as (Hy & _).
    destruct (b64_char_facts _ _ Hc) as (Hz & _ & Hc61 & _).
    cbn [b64_decode]. rewrite (b64val_spec _ _ Ha), (b64val_spec _ _ Hb), (b64val_spec _ _ Hc).
    destruct (N.eqb_spec c 61); [contradiction|].
    change ((61 =? 61)%N) with true. cbv iota. f_equal. f_equal; [lia|]. f_equal. lia.
Qed.

(* ---- the closing braces of a clob ---------------------------------------------------------------------------- *)
Theorem run_lob_end w s k u :
  ws_plain w -> runK lob_end (zs w ++ 125 :: 125 :: s, k, u) tt (s, k, false).
Proof.
  intros Hw. unfold lob_end.
  eapply runK_bind; [apply run_runK, (run_t_skip_lob_whitespace w (125 :: 125 :: s) Hw); reflexivity|].
  cbn [shead stail]. cbv beta iota. change (negb (125 =? c_rbrace)) with false. cbv iota.
  eapply runK_bind; [apply run_runK, run_read_cons|].
  change (negb (125 =? c_rbrace)) with false. cbv iota. apply runK_finish.
Qed.

(* parametric in the triple of the body reader: whatever readClob / readLongClob answered with
   plain whitespace and }} left in front of [s] is the answer of the whole, the value finished *)
Theorem run_t_read_short_clob s0 v w s k u :
  run read_clob s0 v (zs w ++ 125 :: 125 :: s) -> ws_plain w ->
  runK t_read_short_clob (s0, k, u) v (s, k, false).
Proof.
  intros Hb Hw. unfold t_read_short_clob. eapply runK_bind; [apply run_runK, Hb|].
  eapply runK_bind; [apply run_lob_end, Hw|apply runK_ret].
Qed.
Theorem run_t_read_long_clob s0 v w s k u :
  run read_long_clob s0 v (zs w ++ 125 :: 125 :: s) -> ws_plain w ->
  runK t_read_long_clob (s0, k, u) v (s, k, false).
Proof.
  intros Hb Hw. unfold t_read_long_clob. eapply runK_bind; [apply run_runK, Hb|].
  eapply runK_bind; [apply run_lob_end, Hw|apply runK_ret].
Qed.

(* ---- closure under newline normalisation ------------------------------------------------------------------------ *)
Lemma interleaved_norm w chars : interleaved w chars -> interleaved (norm w) chars.
Proof.
  induction 1 as [ws Hws|ws c w chars Hws Hc Hw IH].
  - apply il_end. apply (ws_plain_norm _ ws eq_refl Hws).
  - pose proof Hc as (Hc1 & _ & _). unfold ws_byte in Hc1.
    rewrite norm_app by (right; cbn [hd]; lia). cbn [norm].
    destruct (N.eqb_spec c 13) as [->|_]; [discriminate Hc1|].
    apply il_ch; auto. apply (ws_plain_norm _ ws eq_refl Hws).
Qed.

(* ---- on a concrete input ------------------------------------------------------------------------------------------ *)
(* the reader stands behind {{ : the input is  w }} rest  with any of the six whitespace characters
   (CR LF pairs included) anywhere in w.  ReadBlob answers the base64 characters, which decode to
   the bytes; it has consumed the closing braces and the value is finished. *)
Theorem read_blob_spelling w chars bytes rest t :
  interleaved w chars -> b64_text chars bytes ->
  t_ioerr t = false -> t_buf t = [] -> t_in t = w ++ 125%N :: 125%N :: rest ->
  exists t', t_read_blob t = Ok (chars, t') /\
             stream t' = zs (norm rest) /\ t_ioerr t' = false /\
             t_token t' = t_token t /\ t_unfinished t' = false /\
             b64_decode chars = Some bytes.
Proof.
  intros Hw Hb Hi Hbuf Hin.
  pose proof (run_t_read_blob (norm w) chars (zs (norm rest)) (t_token t) (t_unfinished t)
                (interleaved_norm w chars Hw)) as R.
  destruct (R t Hi) as (t' & E & Hi' & Ha).
  - unfold abs. rewrite (stream_in t Hbuf), Hin, norm_app by (right; cbn [hd]; lia).
    rewrite zs_app. reflexivity.
  - exists t'. unfold abs in Ha. injection Ha as H1 H2 H3.
    repeat split; auto. apply b64_decode_text. exact Hb.
Qed.
Corollary read_blob_spelling' w bytes rest t :
  blob_spelling w bytes ->
  t_ioerr t = false -> t_buf t = [] -> t_in t = w ++ 125%N :: 125%N :: rest ->
  exists chars t', t_read_blob t = Ok (chars, t') /\ b64_decode chars = Some bytes /\
             stream t' = zs (norm rest) /\ t_ioerr t' = false /\
             t_token t' = t_token t /\ t_unfinished t' = false.
Proof.
  intros (chars & Hw & Hb) Hi Hbuf Hin.
  destruct (read_blob_spelling w chars bytes rest t Hw Hb Hi Hbuf Hin) as (t' & H1 & H2 & H3 & H4 & H5 & H6).
  exists chars, t'. auto 10.
Qed.

(* the closing braces of a clob on a concrete input *)
Theorem lob_end_spelling w rest t :
  ws_plain w ->
  t_ioerr t = false -> t_buf t = [] -> t_in t = w ++ 125%N :: 125%N :: rest ->
  exists t', lob_end t = Ok (tt, t') /\
             stream t' = zs (norm rest) /\ t_ioerr t' = false /\
             t_token t' = t_token t /\ t_unfinished t' = false.
Proof.
  intros Hw Hi Hbuf Hin.
  pose proof (run_lob_end (norm w) (zs (norm rest)) (t_token t) (t_unfinished t)
                (ws_plain_norm _ w eq_refl Hw)) as R.
  destruct (R t Hi) as (t' & E & Hi' & Ha).
  - unfold abs. rewrite (stream_in t Hbuf), Hin, norm_app by (right; cbn [hd]; lia).
    rewrite zs_app. reflexivity.
  - exists t'. unfold abs in Ha. injection Ha as H1 H2 H3. repeat split; auto.
Qed.

(* ---- the specification decoder reads the same bytes from the same spelling ------------------------------------- *)
(* SpecText.p_blob is the judge of C02; this shows that [interleaved] + [b64_text] describe spellings
   the specification accepts, with the value it gives them. *)
Lemma ws_byte_spec_ws c : ws_byte c = true -> SpecText.is_ws c = true.
Proof. unfold ws_byte, SpecText.is_ws, SpecText.in_rng. lia. Qed.
Lemma scan_ws : forall ws, ws_plain ws -> forall l vals pads,
  SpecText.b64_scan (ws ++ l) vals pads = SpecText.b64_scan l vals pads.
Proof.
  induction 1 as [|c ws Hc Hws IH]; intros l vals pads; cbn [app SpecText.b64_scan]; [reflexivity|].
  rewrite (ws_byte_spec_ws c Hc). apply IH.
Qed.
Lemma scan_il_end w rest vals pads :
  interleaved w [] -> SpecText.b64_scan (w ++ 125 :: 125 :: rest)%N vals pads = Some (rev vals, pads, rest).
Proof. intros H. inversion H as [ws Hws|]; subst. rewrite (scan_ws w Hws). reflexivity. Qed.
Lemma scan_il_char w c v chars tail vals :
  interleaved w (c :: chars) -> b64_char c v ->
  exists w', interleaved w' chars /\
             SpecText.b64_scan (w ++ tail) vals 0 = SpecText.b64_scan (w' ++ tail) (v :: vals) 0.
Proof.
  intros H Hc. inversion H as [|ws c' w' chars' Hws Hb Hw']; subst. exists w'. split; [exact Hw'|].
  rewrite <- app_assoc, (scan_ws ws Hws). cbn [app SpecText.b64_scan].
  destruct (b64_char_facts c v Hc) as (_ & _ & H61 & H125 & Hnws).
  replace (SpecText.is_ws c) with false
    by (unfold ws_byte in Hnws; unfold SpecText.is_ws, SpecText.in_rng; lia).
  destruct (N.eqb_spec c 125); [contradiction|]. destruct (N.eqb_spec c 61); [contradiction|].
  unfold b64_char in Hc. rewrite Hc. reflexivity.
Qed.
Lemma scan_il_pad w chars tail vals pads :
  interleaved w (61%N :: chars) ->
  exists w', interleaved w' chars /\
             SpecText.b64_scan (w ++ tail) vals pads = SpecText.b64_scan (w' ++ tail) vals (pads + 1)%N.
Proof.
  intros H. inversion H as [|ws c' w' chars' Hws Hb Hw']; subst. exists w'. split; [exact Hw'|].
  rewrite <- app_assoc, (scan_ws ws Hws). reflexivity.
Qed.

Lemma scan_text : forall chars bytes, b64_text chars bytes -> forall w vals rest, interleaved w chars ->
  exists vs pads,
    SpecText.b64_scan (w ++ 125 :: 125 :: rest)%N vals 0 = Some (rev vals ++ vs, pads, rest) /\
    SpecText.b64_bytes vs = bytes /\
    ((N.of_nat (length vs) + pads) mod 4 = 0 /\ pads <= 2 /\ N.of_nat (length vs) mod 4 <> 1)%N.
Proof.
  induction 1 as [|a b c d x y z v r bs Ha Hb Hc Hd Hr IH|a b x y Ha Hb|a b c x y z Ha Hb Hc];
    intros w vals rest Hw.
  - exists [], 0%N. rewrite (scan_il_end w rest vals 0%N Hw), app_nil_r. repeat split; cbn; lia.
  - destruct (scan_il_char _ _ _ _ (125 :: 125 :: rest)%N vals Hw Ha) as (w1 & Hw1 & E1).
    destruct (scan_il_char _ _ _ _ (125 :: 125 :: rest)%N (x :: vals) Hw1 Hb) as (w2 & Hw2 & E2).
    destruct (scan_il_char _ _ _ _ (125 :: 125 :: rest)%N (y :: x :: vals) Hw2 Hc) as (w3 & Hw3 & E3).
    destruct (scan_il_char _ _ _ _ (125 :: 125 :: rest)%N (z :: y :: x :: vals) Hw3 Hd) as (w4 & Hw4 & E4).
    destruct (IH w4 (v :: z :: y :: x :: vals) rest Hw4) as (vs & pads & E & Hbs & Hn).
    exists (x :: y :: z :: v :: vs), pads. rewrite E1, E2, E3, E4, E. split; [|split].
    + cbn [rev]. rewrite <- !app_assoc. reflexivity.
    + destruct (b64_char_facts _ _ Ha) as (Hx & _). destruct (b64_char_facts _ _ Hb) as (Hy & _).
      destruct (b64_char_facts _ _ Hc) as (Hz & _). destruct (b64_char_facts _ _ Hd) as (Hv & _).
      cbn [SpecText.b64_bytes]. rewrite Hbs. f_equal; [lia|]. f_equal; [lia|]. f_equal. lia.
    + cbn [length]. lia.
  - destruct (scan_il_char _ _ _ _ (125 :: 125 :: rest)%N vals Hw Ha) as (w1 & Hw1 & E1).
    destruct (scan_il_char _ _ _ _ (125 :: 125 :: rest)%N (x :: vals) Hw1 Hb) as (w2 & Hw2 & E2).
    destruct (scan_il_pad _ _ (125 :: 125 :: rest)%N (y :: x :: vals) 0%N Hw2) as (w3 & Hw3 & E3).
    destruct (scan_il_pad _ _ (125 :: 125 :: rest)%N (y :: x :: vals) (0 + 1)%N Hw3) as (w4 & Hw4 & E4).
    exists [x; y], 2%N. rewrite E1, E2, E3, E4, (scan_il_end w4 rest _ _ Hw4). split; [|split].
    + cbn [rev]. rewrite <- !app_assoc. reflexivity.
    + destruct (b64_char_facts _ _ Ha) as (Hx & _). destruct (b64_char_facts _ _ Hb) as (Hy & _).
      cbn [SpecText.b64_bytes]. f_equal. lia.
    + cbn. lia.
  - destruct (scan_il_char _ _ _ _ (125 :: 125 :: rest)%N vals Hw Ha) as (w1 & Hw1 & E1).
    destruct (scan_il_char _ _ _ _ (125 :: 125 :: rest)%N (x :: vals) Hw1 Hb) as (w2 & Hw2 & E2).
    destruct (scan_il_char _ _ _ _ (125 :: 125 :: rest)%N (y :: x :: vals) Hw2 Hc) as (w3 & Hw3 & E3).
    destruct (scan_il_pad _ _ (125 :: 125 :: rest)%N (z :: y :: x :: vals) 0%N Hw3) as (w4 & Hw4 & E4).
    exists [x; y; z], 1%N. rewrite E1, E2, E3, E4, (scan_il_end w4 rest _ _ Hw4). split; [|split].
    + cbn [rev]. rewrite <- !app_assoc. reflexivity.
    + destruct (b64_char_facts _ _ Ha) as (Hx & _). destruct (b64_char_facts _ _ Hb) as (Hy & _).
      destruct (b64_char_facts _ _ Hc) as (Hz & _).
      cbn [SpecText.b64_bytes]. f_equal; [lia|]. f_equal. lia.
    + cbn. lia.
Qed.

Theorem spec_blob_spelling w chars bytes rest :
  interleaved w chars -> b64_text chars bytes ->
  SpecText.p_blob (w ++ 125 :: 125 :: rest)%N = Some (VBlob bytes, rest).
Proof.
  intros Hw Hb. unfold SpecText.p_blob.
  destruct (scan_text chars bytes Hb w [] rest Hw) as (vs & pads & E & Hbs & Hn1 & Hn2 & Hn3).
  rewrite E. cbn [rev app]. rewrite Hbs.
  replace (_ && _ && _) with true by lia. reflexivity.
Qed.

(* both decoders agree on every spelling the relations describe *)
Corollary blob_spelling_agrees w bytes rest :
  blob_spelling w bytes ->
  SpecText.p_blob (w ++ 125 :: 125 :: rest)%N = Some (VBlob bytes, rest) /\
  exists chars t', t_read_blob (t_init (w ++ 125 :: 125 :: rest)%N false) = Ok (chars, t') /\
                   b64_decode chars = Some bytes /\ stream t' = zs (norm rest) /\ t_unfinished t' = false.
Proof.
  intros (chars & Hw & Hb). split; [apply (spec_blob_spelling w chars bytes rest Hw Hb)|].
  destruct (read_blob_spelling w chars bytes rest (t_init (w ++ 125 :: 125 :: rest)%N false) Hw Hb
              eq_refl eq_refl eq_refl) as (t' & H1 & H2 & _ & _ & H5 & H6).
  exists chars, t'. auto.
Qed.

(* ---- examples ------------------------------------------------------------------------------------------------------ *)
(* derived introduction rules, one input byte at a time *)
Lemma il_nil : interleaved [] [].
Proof. apply il_end. constructor. Qed.
Lemma il_ws c w chars : ws_byte c = true -> interleaved w chars -> interleaved (c :: w) chars.
Proof. intros Hc Hw. apply (interleaved_ws_app [c] w chars); [apply wsp_ch; [exact Hc|constructor]|exact Hw]. Qed.
Lemma il_c c w chars : blob_byte c -> interleaved w chars -> interleaved (c :: w) (c :: chars).
Proof. intros Hc Hw. apply (il_ch [] c w chars); [constructor|exact Hc|exact Hw]. Qed.
Lemma b64_text_eq chars b b' : b64_text chars b -> b = b' -> b64_text chars b'.
Proof. intros H <-. exact H. Qed.
Ltac il_auto :=
  repeat first [ apply il_nil
               | apply il_ws; [reflexivity|]
               | apply il_c; [split; [reflexivity|split; [discriminate|reflexivity]]|] ].

(* the hypotheses are satisfiable: `hello` = aGVsbG8= with all six whitespace characters and a
   CR LF pair inside, between the characters, before the padding and around the whole *)
Definition blob_example : list N :=
  [32; 97; 71; 9; 86; 10; 115; 13; 98; 11; 71; 12; 56; 13; 10; 61; 32; 10]%N.
Example blob_example_ok : blob_spelling blob_example (s "hello").
Proof.
  exists (s "aGVsbG8="). split.
  - unfold blob_example. cbn. il_auto.
  - cbn. eapply b64_text_eq.
    + eapply b64_quad; [exact eq_refl ..|]. eapply b64_pad1; exact eq_refl.
    + reflexivity.
Qed.
(* non-zero trailing bits are legal (and dropped), as in SpecText: aB== is the byte `h` like aA== *)
Example blob_trailing_bits_ok : blob_spelling (s "aB =" ++ [13; 11]%N ++ s "=") [104]%N.
Proof.
  exists (s "aB=="). split.
  - cbn. il_auto.
  - cbn. eapply b64_text_eq; [eapply b64_pad2; exact eq_refl|reflexivity].
Qed.
Example blob_empty_ok : blob_spelling [] [] /\ blob_spelling [32; 13; 10]%N [].
Proof. split; (exists []; split; [il_auto|constructor]). Qed.

(* the theorem applied: the reader behind {{ on  <blob_example>}} 1 *)
Example read_blob_example :
  exists chars t', t_read_blob (t_init (blob_example ++ s "}} 1") false) = Ok (chars, t') /\
                   b64_decode chars = Some (s "hello") /\ stream t' = zs (s " 1") /\ t_unfinished t' = false.
Proof.
  destruct (blob_spelling_agrees blob_example (s "hello") (s " 1") blob_example_ok) as (_ & chars & t' & H).
  exists chars, t'. exact H.
Qed.

(* vm_compute cross-checks of the two executable decoders on exotic spellings *)
Definition model_blob (inp : list N) : option (list N) :=
  match t_read_blob (t_init inp false) with Ok (chars, _) => b64_decode chars | _ => None end.
Definition spec_blob (inp : list N) : option (list N) :=
  match SpecText.p_blob inp with Some (VBlob b, _) => Some b | _ => None end.
Definition both_blob (inp : list N) (bytes : list N) : bool :=
  match model_blob inp, spec_blob inp with
  | Some a, Some b => list_eqb a bytes && list_eqb b bytes
  | _, _ => false
  end.
Example blob_x1 : both_blob (blob_example ++ s "}}") (s "hello") = true.
Proof. vm_compute. reflexivity. Qed.
Example blob_x2 : both_blob (s "}}") [] = true /\ both_blob (s " }}") [] = true
                  /\ both_blob ([13; 10; 9; 11; 12; 32; 13]%N ++ s "}}") [] = true.
Proof. vm_compute. auto. Qed.
Example blob_x3 : both_blob (s "TWFu}}") (s "Man") = true /\ both_blob (s "T W" ++ [10; 13]%N ++ s "Fu }}x") (s "Man") = true.
Proof. vm_compute. auto. Qed.
Example blob_x4 : both_blob (s "TWE=}}") (s "Ma") = true /\ both_blob (s "TW" ++ [11]%N ++ s "E" ++ [12; 13; 10]%N ++ s "=" ++ [9]%N ++ s "}}") (s "Ma") = true.
Proof. vm_compute. auto. Qed.
Example blob_x5 : both_blob (s "TQ==}}") (s "M") = true /\ both_blob (s " T Q = = }}") (s "M") = true
                  /\ both_blob (s "TR==}}") (s "M") = true /\ both_blob (s "TWF=}}") (s "Ma") = true.
Proof. vm_compute. auto. Qed.
Example blob_x6 : both_blob (s "+/+/" ++ [13]%N ++ s "/w==}}") [251; 255; 191; 255]%N = true.
Proof. vm_compute. reflexivity. Qed.
(* both refuse: a character after the padding, a lone sextet, a comment, a missing brace *)
Example blob_x7 : model_blob (s "TQ==TQ==}}") = None /\ spec_blob (s "TQ==TQ==}}") = None
                  /\ model_blob (s "T}}") = None /\ spec_blob (s "T}}") = None
                  /\ model_blob (s "TQ/**/==}}") = None /\ spec_blob (s "TQ/**/==}}") = None
                  /\ model_blob (s "TQ==}") = None /\ spec_blob (s "TQ==}") = None.
Proof. vm_compute. auto 10. Qed.
