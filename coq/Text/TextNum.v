(* TextNum.v — the instances the driver gives to the two external parsers of the
   text reader model.

   [parse_decimal_text] transcribes ion.ParseDecimal (decimal.go) completely.

   [parse_ts_text] is NOT a transcription of ion.ParseTimestamp / time.Parse: it is a
   direct parser for the literal shapes tokenizer.readTimestamp can produce
   (yyyyT, yyyy-mmT, yyyy-mm-dd[T], yyyy-mm-ddThh:mm[:ss[.f*]](Z|z|+hh:mm|-hh:mm)),
   with the range checks of time.Parse/time.Date, the 9-digit rounding of
   roundFractionalSeconds done in decimal arithmetic (round half up) and the
   answer printed as the canonical field tuple
   y,mo,d,h,mi,s,ns,offmin,kind,prec,nfrac of the harness.  It belongs to the
   trusted base of the correspondence (Num/Timestamp.v is the real model).
   No proofs. *)
From Coq Require Import String List NArith ZArith Bool.
From IonV Require Import Base.Wire Data.Ion Text.TextReader.
Import ListNotations.
Open Scope N_scope.

(* ---- ParseDecimal ---------------------------------------------------------------------------- *)
Definition wrap32 (z : Z) : Z := ((z + 2147483648) mod 4294967296 - 2147483648)%Z.
Fixpoint split_at_first (p : N -> bool) (l : list N) (acc : list N) : option (list N * list N) :=
  match l with
  | [] => None
  | c :: r => if p c then Some (rev acc, r) else split_at_first p r (c :: acc)
  end.
(* int64 wrap-around of "exponent -= int64(len(fpart))" *)
Definition wrap64z (z : Z) : Z := ((z + 9223372036854775808) mod 18446744073709551616 - 9223372036854775808)%Z.
Definition parse_decimal_text (inp : list N) : res dec :=
  match inp with
  | [] => Err
  | _ =>
    do '(e0, inp) <-
      match split_at_first (fun c => (c =? 68) || (c =? 100)) inp [] with
      | Some (m, ex) =>
        match ex with
        | [] => Err
        | _ => (* strconv.ParseInt(exp, 10, 64): a written exponent beyond int64 is an error *)
               match go_signed_val 10 ex with
               | Some z => if in_int64 z then Ok (z, m) else Err
               | None => Err
               end
        end
      | None => Ok (0%Z, inp)
      end;
    (* the fraction digits lower the written exponent (an int64 subtraction) *)
    let '(e1, inp) :=
      match split_at_first (fun c => c =? 46) inp [] with
      | Some (ip, fp) => (wrap64z (e0 - wrap64z (Z.of_nat (length fp))), ip ++ fp)
      | None => (e0, inp)
      end in
    (* the only range check: the exponent of the value must fit int32, with or without a fraction part *)
    if negb (in_int32 e1) then Err else
    match go_signed_val 10 inp with
    | None => Err
    | Some n =>
      let negzero := (n =? 0)%Z && match inp with 45 :: _ => true | _ => false end in
      Ok {| d_coef := n; d_exp := wrap32 (- wrap32 (- e1)); d_negzero := negzero |}
    end
  end.

(* ---- timestamps -------------------------------------------------------------------------------- *)
Definition dg (l : list N) (i : nat) : Z := Z.of_N (nth i l 48) - 48.
Definition num2 (l : list N) (i : nat) : Z := (dg l i * 10 + dg l (S i))%Z.
Definition num4 (l : list N) (i : nat) : Z := (num2 l i * 100 + num2 l (S (S i)))%Z.
Definition leap (y : Z) : bool := ((y mod 4 =? 0) && (negb (y mod 100 =? 0) || (y mod 400 =? 0)))%Z.
Definition days_in (y m : Z) : Z :=
  (if m =? 2 then (if leap y then 29 else 28)
   else if (m =? 4) || (m =? 6) || (m =? 9) || (m =? 11) then 30 else 31)%Z.
Definition date_ok (y m d : Z) : bool := ((1 <=? y) && (1 <=? m) && (m <=? 12) && (1 <=? d) && (d <=? days_in y m))%Z.

Definition show_tuple (l : list Z) : list N :=
  match l with
  | [] => []
  | a :: r => dec_of_Z a ++ concat (map (fun z => 44 :: dec_of_Z z) r)
  end.

Fixpoint take_digits (l : list N) : list N * list N :=
  match l with
  | c :: r => if (48 <=? c) && (c <=? 57) then let '(a, b) := take_digits r in (c :: a, b) else ([], l)
  | [] => ([], [])
  end.
Fixpoint digits_val (l : list N) (acc : Z) : Z :=
  match l with [] => acc | c :: r => digits_val r (acc * 10 + (Z.of_N c - 48))%Z end.
Fixpoint pad9 (l : list N) (n : nat) : list N :=
  match n with O => [] | S n' => match l with [] => 48 :: pad9 [] n' | c :: r => c :: pad9 r n' end end.

(* one second later, on civil fields *)
Definition add_second (y mo d h mi sec : Z) : Z * Z * Z * Z * Z * Z :=
  (if sec <? 59 then (y, mo, d, h, mi, sec + 1)
   else if mi <? 59 then (y, mo, d, h, mi + 1, 0)
   else if h <? 23 then (y, mo, d, h + 1, 0, 0)
   else if d <? days_in y mo then (y, mo, d + 1, 0, 0, 0)
   else if mo <? 12 then (y, mo + 1, 1, 0, 0, 0)
   else (y + 1, 1, 1, 0, 0, 0))%Z.

(* zone: Some (offset minutes, kind) *)
Definition parse_zone (z : list N) : option (Z * Z) :=
  match z with
  | [zc] => if zc =? 90 then Some (0, 1)%Z else None          (* Z; a lower-case z fails in time.Parse *)
  | [sg; a; b; col; c; d] =>
    if negb ((sg =? 43) || (sg =? 45)) || negb (col =? 58) then None else
    let hh := num2 [a; b] 0 in
    let mm := num2 [c; d] 0 in
    if ((24 <=? hh) || (60 <=? mm))%Z then None
    else if ((hh =? 0) && (mm =? 0))%Z then Some (0%Z, if N.eqb sg 45 then 0%Z else 1%Z)
    else Some ((if N.eqb sg 45 then - (hh * 60 + mm) else hh * 60 + mm)%Z, 2%Z)
  | _ => None
  end.

Definition parse_ts_text (l : list N) : res (list N) :=
  let n := length l in
  let y := num4 l 0 in
  if (n <? 5)%nat || (y <? 1)%Z then Err else
  if (n =? 5)%nat then Ok (show_tuple [y; 1; 1; 0; 0; 0; 0; 0; 0; 1; 0]%Z) else          (* yyyyT *)
  let mo := num2 l 5 in
  if (n <? 8)%nat then Err else
  if (n =? 8)%nat then
    if date_ok y mo 1 then Ok (show_tuple [y; mo; 1; 0; 0; 0; 0; 0; 0; 2; 0]%Z) else Err  (* yyyy-mmT *)
  else
  let d := num2 l 8 in
  if (n <? 10)%nat then Err else
  if (n <=? 11)%nat then
    if date_ok y mo d then Ok (show_tuple [y; mo; d; 0; 0; 0; 0; 0; 0; 3; 0]%Z) else Err  (* yyyy-mm-dd[T] *)
  else
  if (n <? 17)%nat then Err else
  let h := num2 l 11 in
  let mi := num2 l 14 in
  let c16 := nth 16 l 0 in
  if negb (date_ok y mo d) || (24 <=? h)%Z || (60 <=? mi)%Z then Err else
  if negb (c16 =? 58) then
    (* yyyy-mm-ddThh:mm<zone>; a date followed by T+hh:mm has a digit here and is invalid *)
    match parse_zone (skipn 16 l) with
    | Some (off, kind) => Ok (show_tuple [y; mo; d; h; mi; 0; 0; off; kind; 4; 0]%Z)
    | None => Err
    end
  else
  if (n <? 20)%nat then Err else
  let sec := num2 l 17 in
  if (60 <=? sec)%Z then Err else
  let rest := skipn 19 l in
  match rest with
  | dot :: fr =>
    if negb (dot =? 46) then
      match parse_zone rest with
      | Some (off, kind) => Ok (show_tuple [y; mo; d; h; mi; sec; 0; off; kind; 5; 0]%Z)
      | None => Err
      end
    else
    let '(fd, z) := take_digits fr in
    match parse_zone z with
    | None => Err
    | Some (off, kind) =>
      let nf := length fd in
      if (nf =? 0)%nat then Err                           (* `ss.Z`: time.Parse rejects *)
      else if (nf <=? 8)%nat then
        Ok (show_tuple [y; mo; d; h; mi; sec; digits_val (pad9 fd 9) 0; off; kind; 6; Z.of_nat nf]%Z)
      else
        (* roundFractionalSeconds: the units digit of the seconds and the fraction, to 9 places *)
        let u := dg l 18 in
        let f9 := digits_val (firstn 9 fd) 0 in
        let up := match skipn 9 fd with c :: _ => 53 <=? c | [] => false end in
        let tot := (u * 1000000000 + f9 + (if up then 1 else 0))%Z in
        if (tot =? 10000000000)%Z then
          let '(y2, mo2, d2, h2, mi2, s2) := add_second y mo d h mi (sec - u + 9) in
          Ok (show_tuple [y2; mo2; d2; h2; mi2; s2; 0; off; kind; 6; 9]%Z)
        else
          Ok (show_tuple [y; mo; d; h; mi; sec - u + tot / 1000000000; tot mod 1000000000; off; kind; 6; 9]%Z)
    end
  | [] => Err
  end.
