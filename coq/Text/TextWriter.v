(* TextWriter.v — executable model of ion/textwriter.go + writer.go + ctx.go: the text
   Writer as a state machine over the same API-call alphabet as the binary Writer
   ([wcall] of Bin/BinWriter.v), against the same failing io.Writer ([sink]).

   Kept from the Go code: the context stack, w.err exactly where the code records an
   error and where it only returns one, the pending field name / annotations,
   needsSeparator / emptyContainer / emptyStream / indent / wroteLST, the options, and
   the exact sequence of Write calls (TextOut.v: one chunk per Write).

   The methods are written with six combinators over [act] (ret_ok, fail, andthen,
   raw/raws, upd, on) that mirror Go's "if err := f(); err != nil { return err }"
   discipline: an action returns the new state and whether err == nil.

   lst.WriteTo(w) on the table built by w.lstb: NewTextWriter(out) without shared
   tables gives len(imports) == 1 and the text writer never adds a symbol to lstb, so
   WriteTo returns nil at once (symboltable.go: "if len(t.imports) == 1 &&
   len(t.symbols) == 0 { return nil }").  Writers created with shared tables are not
   modelled here.

   Trusted inputs ([formats]): strconv.FormatFloat(v,'e',-1,64) for finite non-zero v,
   Decimal.String, Timestamp.String.  The theorems hold for EVERY [formats].
   No proofs in this file. *)
From Coq Require Import String List NArith ZArith Bool.
From IonV Require Import Base.Wire Data.Ion Num.Float Bin.BinWriter Text.TextOut.
Import ListNotations.
Open Scope N_scope.

(* ---- the text of floats, decimals and timestamps ------------------------------------- *)
Record formats := {
  fmt_float : N -> list N;              (* bits -> strconv.FormatFloat(val,'e',-1,64) *)
  fmt_dec : dec -> list N;              (* Decimal.String() *)
  fmt_ts : N -> list N -> list N        (* the two arguments of CTimestamp -> Timestamp.String() *)
}.

(* ---- state ---------------------------------------------------------------------------- *)
(* everything but the io.Writer *)
Record pstate := {
  p_ctx : list N;                 (* top first; empty = top level *)
  p_err : bool;                   (* w.err != nil *)
  p_field : option tok;
  p_annots : list tok;
  p_needs_sep : bool;
  p_empty_cont : bool;
  p_empty_stream : bool;
  p_indent : Z;                   (* Go int *)
  p_wrote_lst : bool;
  p_pretty : bool;                (* opts & TextWriterPretty *)
  p_quiet : bool                  (* opts & TextWriterQuietFinish *)
}.
Record twstate := { tw_out : sink; tw_p : pstate }.

Definition tw_err (w : twstate) : bool := p_err (tw_p w).
Definition set_out (w : twstate) (k : sink) : twstate := {| tw_out := k; tw_p := tw_p w |}.
Definition set_p (w : twstate) (p : pstate) : twstate := {| tw_out := tw_out w; tw_p := p |}.

Definition p_set_err (p : pstate) (e : bool) : pstate :=
  {| p_ctx := p_ctx p; p_err := e; p_field := p_field p; p_annots := p_annots p;
     p_needs_sep := p_needs_sep p; p_empty_cont := p_empty_cont p; p_empty_stream := p_empty_stream p;
     p_indent := p_indent p; p_wrote_lst := p_wrote_lst p; p_pretty := p_pretty p; p_quiet := p_quiet p |}.
Definition p_set_ctx (p : pstate) (c : list N) : pstate :=
  {| p_ctx := c; p_err := p_err p; p_field := p_field p; p_annots := p_annots p;
     p_needs_sep := p_needs_sep p; p_empty_cont := p_empty_cont p; p_empty_stream := p_empty_stream p;
     p_indent := p_indent p; p_wrote_lst := p_wrote_lst p; p_pretty := p_pretty p; p_quiet := p_quiet p |}.
Definition p_set_field (p : pstate) (f : option tok) : pstate :=
  {| p_ctx := p_ctx p; p_err := p_err p; p_field := f; p_annots := p_annots p;
     p_needs_sep := p_needs_sep p; p_empty_cont := p_empty_cont p; p_empty_stream := p_empty_stream p;
     p_indent := p_indent p; p_wrote_lst := p_wrote_lst p; p_pretty := p_pretty p; p_quiet := p_quiet p |}.
Definition p_set_annots (p : pstate) (a : list tok) : pstate :=
  {| p_ctx := p_ctx p; p_err := p_err p; p_field := p_field p; p_annots := a;
     p_needs_sep := p_needs_sep p; p_empty_cont := p_empty_cont p; p_empty_stream := p_empty_stream p;
     p_indent := p_indent p; p_wrote_lst := p_wrote_lst p; p_pretty := p_pretty p; p_quiet := p_quiet p |}.
Definition p_set_flags (p : pstate) (needs_sep empty_cont empty_stream : bool) : pstate :=
  {| p_ctx := p_ctx p; p_err := p_err p; p_field := p_field p; p_annots := p_annots p;
     p_needs_sep := needs_sep; p_empty_cont := empty_cont; p_empty_stream := empty_stream;
     p_indent := p_indent p; p_wrote_lst := p_wrote_lst p; p_pretty := p_pretty p; p_quiet := p_quiet p |}.
Definition p_set_indent (p : pstate) (i : Z) : pstate :=
  {| p_ctx := p_ctx p; p_err := p_err p; p_field := p_field p; p_annots := p_annots p;
     p_needs_sep := p_needs_sep p; p_empty_cont := p_empty_cont p; p_empty_stream := p_empty_stream p;
     p_indent := i; p_wrote_lst := p_wrote_lst p; p_pretty := p_pretty p; p_quiet := p_quiet p |}.
Definition p_set_wrote (p : pstate) (b : bool) : pstate :=
  {| p_ctx := p_ctx p; p_err := p_err p; p_field := p_field p; p_annots := p_annots p;
     p_needs_sep := p_needs_sep p; p_empty_cont := p_empty_cont p; p_empty_stream := p_empty_stream p;
     p_indent := p_indent p; p_wrote_lst := b; p_pretty := p_pretty p; p_quiet := p_quiet p |}.

(* writer.clear() *)
Definition p_clear (p : pstate) : pstate := p_set_annots (p_set_field p None) [].
(* ctxstack.peek() / writer.IsInStruct() *)
Definition p_peek (p : pstate) : N := match p_ctx p with [] => 0 | c :: _ => c end.
Definition p_in_struct (p : pstate) : bool := p_peek p =? ctxStruct.
(* textWriter.endValue() *)
Definition p_end_value (p : pstate) : pstate := p_set_flags p true false false.

(* NewTextWriterOpts(out, opts) *)
Definition new_text_writer (budget : option nat) (pretty quiet : bool) : twstate :=
  {| tw_out := {| sk_writes := []; sk_budget := budget |};
     tw_p := {| p_ctx := []; p_err := false; p_field := None; p_annots := [];
                p_needs_sep := false; p_empty_cont := false; p_empty_stream := true;
                p_indent := 0%Z; p_wrote_lst := false; p_pretty := pretty; p_quiet := quiet |} |}.

(* ---- actions ---------------------------------------------------------------------------- *)
Definition tret := (twstate * bool)%type.
Definition act := twstate -> tret.

Definition ret_ok : act := fun w => (w, true).
Definition fail : act := fun w => (w, false).                      (* return a non-I/O error *)
Definition andthen (a b : act) : act :=
  fun w => let '(w', ok) := a w in if ok then b w' else (w', false).
Infix ";;" := andthen (at level 61, right associativity).
(* one out.Write(c) *)
Definition raw (c : chunk) : act :=
  fun w => let '(k, ok) := sink_write (tw_out w) c in (set_out w k, ok).
(* several writes, stopping at the first that fails *)
Definition raws (cs : list chunk) : act :=
  fun w => let '(k, ok) := sink_write_all (tw_out w) cs in (set_out w k, ok).
(* assignments to fields of w other than out *)
Definition upd (f : pstate -> pstate) : act := fun w => (set_p w (f (tw_p w)), true).
(* read fields of w other than out *)
Definition on {A} (g : pstate -> A) (k : A -> act) : act := fun w => k (g (tw_p w)) w.

(* writeSymbol(tok, w.out) *)
Definition sym_act (t : tok) : act :=
  match write_symbol t with
  | Some cs => raws cs
  | None => fail
  end.

(* lst.WriteTo(w) for the table of a writer without shared imports: returns nil *)
Definition lst_write_to : act := ret_ok.

(* writeSeparator *)
Definition write_separator : act :=
  on (fun p => (p_peek p, p_pretty p)) (fun '(c, pretty) =>
    if (c =? ctxStruct) || (c =? ctxList) then raw (if pretty then [44; 10] else [44])
    else if c =? ctxSexp then raw (if pretty then [10] else [32])
    else raw [10]).

(* writeIndent: for i := 0; i < w.indent; i++ { writeRawChar('\t') } *)
Definition write_indent : act :=
  on p_indent (fun i => raws (repeat [9] (Z.to_nat i))).

(* writeFieldName *)
Definition write_field_name : act :=
  on p_field (fun f =>
    match f with
    | None => fail                                          (* "field name not set" *)
    | Some name =>
      upd (fun p => p_set_field p None) ;;
      sym_act name ;;
      on p_pretty (fun pretty => raw (if pretty then [58; 32] else [58]))
    end).

(* writeAnnotations *)
Fixpoint annots_act (l : list tok) : act :=
  match l with
  | [] => ret_ok
  | a :: r => sym_act a ;; raw [58; 58] ;; annots_act r
  end.
Definition write_annotations : act :=
  on p_annots (fun l => upd (fun p => p_set_annots p []) ;; annots_act l).

(* beginValue *)
Definition begin_value : act :=
  on (fun p => (p_field p, p_annots p)) (fun '(name, annots) =>
    upd p_clear ;;
    on p_wrote_lst (fun wrote =>
      if wrote then ret_ok else upd (fun p => p_set_wrote p true) ;; lst_write_to) ;;
    on p_needs_sep (fun b => if b then write_separator else ret_ok) ;;
    on (fun p => p_empty_cont p && p_pretty p) (fun b => if b then raw [10] else ret_ok) ;;
    on p_pretty (fun b => if b then write_indent else ret_ok) ;;
    on p_in_struct (fun b =>
      if b then upd (fun p => p_set_field p name) ;; write_field_name else ret_ok) ;;
    upd (fun p => p_set_annots p (p_annots p ++ annots)) ;;
    on p_annots (fun l => match l with [] => ret_ok | _ => write_annotations end)).

(* endValue *)
Definition end_value : act := upd p_end_value.

(* "if w.err != nil { return w.err }; if w.err = body; w.err != nil { return w.err }; return nil" *)
Definition recorded (body : act) : act :=
  fun w => if tw_err w then (w, false)
           else let '(w', ok) := body w in (set_p w' (p_set_err (tw_p w') (negb ok)), ok).
(* w.err = <a non-nil error>; return w.err *)
Definition record_error (w : twstate) : tret := (set_p w (p_set_err (tw_p w) true), false).

(* writeValue(api, val, fn) *)
Definition write_value (body : list chunk) : act :=
  recorded (begin_value ;; raws body ;; end_value).
(* writeValue with writeSymbol / writeSymbolFromString *)
Definition write_value_act (fn : act) : act :=
  recorded (begin_value ;; fn ;; end_value).

(* begin(api, t, c) *)
Definition begin_container (t c : N) : act :=
  recorded (begin_value ;;
            upd (fun p => p_set_flags (p_set_indent (p_set_ctx p (t :: p_ctx p)) (p_indent p + 1))
                                      false true (p_empty_stream p)) ;;
            raw [c]).

(* end(api, t, c), after the check "w.ctx.peek() != t"; [rest] = the stack after pop *)
Definition end_body (rest : list N) (c : N) : act :=
  upd (fun p => p_set_indent p (p_indent p - 1)) ;;
  on (fun p => negb (p_empty_cont p) && p_pretty p) (fun b =>
    if b then raw [10] ;; write_indent else ret_ok) ;;
  raw [c] ;;
  upd (fun p => p_end_value (p_set_ctx (p_clear p) rest)).

Definition end_container (w : twstate) (t c : N) : res tret :=
  if tw_err w then Ok (w, false) else
  if negb (p_peek (tw_p w) =? t) then Ok (record_error w) else     (* w.err = UsageError *)
  match p_ctx (tw_p w) with
  | [] => Panic                                   (* ctxstack.pop at top level: "pop called at top level" *)
  | _ :: rest => Ok (recorded (end_body rest c) w)
  end.

(* Finish *)
Definition finish (w : twstate) : tret :=
  if tw_err w then (w, false) else
  if negb (p_peek (tw_p w) =? 0) then (w, false) else     (* error returned, NOT recorded *)
  let p := tw_p w in
  if negb (p_empty_stream p) && negb (p_quiet p) then
    let '(w1, ok) := raw [10] w in
    if negb ok then record_error w1                         (* w.err = the write error *)
    else upd (fun p => p_clear (p_set_flags p false (p_empty_cont p) true)) w1
  else upd p_clear w.

Section Step.
Variable F : formats.

Definition tw_step (w : twstate) (c : wcall) : res tret :=
  match c with
  | CFieldName t =>
    if tw_err w then Ok (w, false)
    else if negb (p_in_struct (tw_p w)) then Ok (record_error w)
    else Ok (upd (fun p => p_set_field p (Some t)) w)
  | CAnnotation t =>
    if tw_err w then Ok (w, false) else Ok (upd (fun p => p_set_annots p (p_annots p ++ [t])) w)
  | CAnnotations ts =>
    if tw_err w then Ok (w, false) else Ok (upd (fun p => p_set_annots p (p_annots p ++ ts)) w)
  | CNull => do x <- text_null 0; Ok (write_value [x] w)
  | CNullType t =>
    if tw_err w then Ok (w, false) else
    if 14 <=? t then Ok (record_error w)               (* int(t) >= len(textNulls) *)
    else do x <- text_null t; Ok (write_value [x] w)
  | CBool b => Ok (write_value [if b then s "true" else s "false"] w)
  | CInt z => Ok (write_value [dec_of_Z z] w)                         (* fmt.Sprintf("%d", val) *)
  | CUint n => Ok (write_value [dec_of_N n] w)
  | CBigInt oz =>
    if tw_err w then Ok (w, false) else
    match oz with
    | None => Ok (record_error w)                      (* "value is nil" *)
    | Some z => Ok (write_value [dec_of_Z z] w)       (* val.String() *)
    end
  | CFloat bits => Ok (write_value [format_float (fmt_float F) bits] w)
  | CDecimal od =>
    if tw_err w then Ok (w, false) else
    match od with
    | None => Ok (record_error w)                      (* "value is nil" *)
    | Some d => Ok (write_value [fmt_dec F d] w)
    end
  | CTimestamp a b => Ok (write_value [fmt_ts F a b] w)
  | CSymbol t => Ok (write_value_act (sym_act t) w)
  | CSymbolFromString x => Ok (write_value (write_symbol_from_string x) w)
  | CString x => Ok (write_value ([[34]] ++ escaped_string x ++ [[34]]) w)
  | CClob b => Ok (write_value ([[123; 123; 34]] ++ escaped_clob b ++ [[34; 125; 125]]) w)
  | CBlob b => Ok (write_value ([[123; 123]] ++ blob_body b ++ [[125; 125]]) w)
  | CBeginList => Ok (begin_container ctxList 91 w)
  | CEndList => end_container w ctxList 93
  | CBeginSexp => Ok (begin_container ctxSexp 40 w)
  | CEndSexp => end_container w ctxSexp 41
  | CBeginStruct => Ok (begin_container ctxStruct 123 w)
  | CEndStruct => end_container w ctxStruct 125
  | CFinish => Ok (finish w)
  end.

(* drive a whole call sequence the way a user does: every call is made regardless of
   earlier results; the per-call results are recorded *)
Fixpoint tw_drive (w : twstate) (cs : list wcall) : res (twstate * list bool) :=
  match cs with
  | [] => Ok (w, [])
  | c :: r => do '(w', ok) <- tw_step w c;
              do '(w'', oks) <- tw_drive w' r;
              Ok (w'', ok :: oks)
  end.
End Step.
