(* WriteSpellOut.v — C01, text half, step 1: in compact mode, on a sink that never fails, the text Writer
   model driven by the canonical calls of a forest returns nil from every call and emits exactly
   [wt_stream] (Text/WriteSpell.v).  Hoare triples over the action combinators of TextWriter.v:
   [runs a p bs p']: from every state with fields p (any bytes written so far) the action succeeds, appends
   the bytes bs and leaves the fields p'. *)
From Coq Require Import String List NArith ZArith Bool Lia ZifyBool ZifyN ZifyNat.
From IonV Require Import Base.Wire Base.Utf8 Data.Ion Num.Float Bin.BinWriter Bin.RoundTripBinS
  Text.TextOut Text.TextWriter Text.TextRoundtrip Text.WriteSpell.
Import ListNotations.
Open Scope N_scope.

Definition st (w : twstate) (out : list N) (p : pstate) : Prop :=
  sk_budget (tw_out w) = None /\ sink_bytes (tw_out w) = out /\ tw_p w = p.
Definition runs (a : act) (p : pstate) (bs : list N) (p' : pstate) : Prop :=
  forall w out, st w out p -> exists w', a w = (w', true) /\ st w' (out ++ bs) p'.

Ltac app_norm := repeat rewrite <- app_assoc; repeat rewrite app_nil_r; cbn [app]; try reflexivity.

Lemma runs_eq a p bs p' bs2 p2 : runs a p bs p' -> bs = bs2 -> p' = p2 -> runs a p bs2 p2.
Proof. intros H <- <-. exact H. Qed.
Lemma runs_ret p : runs ret_ok p [] p.
Proof. intros w out H. exists w. split; [reflexivity|]. now rewrite app_nil_r. Qed.
Lemma runs_upd f p : runs (upd f) p [] (f p).
Proof.
  intros w out (Hb & Ho & Hp). exists (set_p w (f (tw_p w))). split; [reflexivity|].
  rewrite app_nil_r. repeat split; cbn; auto. now rewrite Hp.
Qed.
Lemma runs_on {A} (g : pstate -> A) (k : A -> act) p bs p' : runs (k (g p)) p bs p' -> runs (on g k) p bs p'.
Proof. intros H w out Hs. unfold on. destruct Hs as (Hb & Ho & Hp). rewrite Hp. apply H. now repeat split. Qed.
Lemma runs_seq a b p bs1 p1 bs2 p2 : runs a p bs1 p1 -> runs b p1 bs2 p2 -> runs (a ;; b) p (bs1 ++ bs2) p2.
Proof.
  intros Ha Hb w out Hs. destruct (Ha w out Hs) as (w1 & E1 & Hs1). destruct (Hb w1 _ Hs1) as (w2 & E2 & Hs2).
  exists w2. unfold andthen. rewrite E1, E2. split; [reflexivity|]. now rewrite app_assoc.
Qed.
Lemma sink_write_all_none k cs : sk_budget k = None ->
  sink_write_all k cs = ({| sk_writes := sk_writes k ++ cs; sk_budget := None |}, true).
Proof.
  revert k. induction cs as [|c r IH]; intros k Hk; cbn [sink_write_all].
  - rewrite app_nil_r. destruct k as [ws b]; cbn in *. now subst b.
  - unfold sink_write. rewrite Hk. rewrite IH by reflexivity. cbn [sk_writes]. now rewrite <- app_assoc.
Qed.
Lemma runs_raws cs p : runs (raws cs) p (concat cs) p.
Proof.
  intros w out (Hb & Ho & Hp). unfold raws. rewrite (sink_write_all_none _ cs Hb).
  eexists. split; [reflexivity|]. repeat split; cbn; auto. unfold sink_bytes in *. cbn [sk_writes].
  now rewrite concat_app, Ho.
Qed.
Lemma runs_raw c p : runs (raw c) p c p.
Proof.
  intros w out (Hb & Ho & Hp). unfold raw, sink_write. rewrite Hb.
  eexists. split; [reflexivity|]. repeat split; cbn; auto. unfold sink_bytes in *. cbn [sk_writes].
  rewrite concat_app, Ho. cbn [concat]. now rewrite app_nil_r.
Qed.

(* ---- symbols and annotations ------------------------------------------------------------------------------ *)
Definition wok (t : tok) : Prop := write_symbol t <> None.
Lemma runs_sym_act t p : wok t -> runs (sym_act t) p (sym_bytes t) p.
Proof.
  unfold wok, sym_act, sym_bytes. destruct (write_symbol t) as [cs|]; [|contradiction]. intros _. apply runs_raws.
Qed.
Definition tann (a : list tok) : list N := flat_map (fun t => sym_bytes t ++ [58; 58]) a.
Lemma runs_annots_act a p : Forall wok a -> runs (annots_act a) p (tann a) p.
Proof.
  induction 1 as [|t r Ht Hr IH]; cbn [annots_act tann flat_map]; [apply runs_ret|].
  eapply runs_eq; [eapply runs_seq; [apply runs_sym_act, Ht|eapply runs_seq; [apply runs_raw|exact IH]]| |reflexivity].
  app_norm.
Qed.
Lemma tann_map pa : tann (map tok_of_sym pa) = ann_bytes pa.
Proof. unfold tann, ann_bytes, wsym. induction pa as [|y r IH]; [reflexivity|]. cbn [map flat_map]. now rewrite IH. Qed.

(* ---- beginValue, compact mode ---------------------------------------------------------------------------- *)
Definition mkp (c : list N) (f : option tok) (a : list tok) (ns ec es : bool) (i : Z) (wl q : bool) : pstate :=
  {| p_ctx := c; p_err := false; p_field := f; p_annots := a; p_needs_sep := ns; p_empty_cont := ec;
     p_empty_stream := es; p_indent := i; p_wrote_lst := wl; p_pretty := false; p_quiet := q |}.
Definition top_of (c : list N) : N := match c with [] => 0 | t :: _ => t end.
Definition sep_of (t : N) : list N :=
  if (t =? ctxStruct) || (t =? ctxList) then [44] else if t =? ctxSexp then [32] else [10].
Definition sep_bytes (c : list N) (ns : bool) : list N := if ns then sep_of (top_of c) else [].
Definition field_bytes (c : list N) (f : option tok) : list N :=
  if top_of c =? ctxStruct then match f with Some n => sym_bytes n ++ [58] | None => [] end else [].
Definition field_ok (c : list N) (f : option tok) : Prop :=
  top_of c = ctxStruct -> exists n, f = Some n /\ wok n.
(* the state after a value *)
Definition after (c : list N) (i : Z) (q : bool) : pstate := mkp c None [] true false false i true q.

Lemma runs_begin_value c f a ns ec es i wl q :
  field_ok c f -> Forall wok a ->
  runs begin_value (mkp c f a ns ec es i wl q) (sep_bytes c ns ++ field_bytes c f ++ tann a) (mkp c None [] ns ec es i true q).
Proof.
  intros Hf Ha. unfold begin_value. apply runs_on. cbn [mkp p_field p_annots].
  eapply runs_eq.
  - eapply runs_seq; [apply runs_upd|]. cbn [p_clear p_set_field p_set_annots mkp p_ctx p_err p_field p_annots
      p_needs_sep p_empty_cont p_empty_stream p_indent p_wrote_lst p_pretty p_quiet].
    eapply runs_seq.
    { apply runs_on. cbn [p_wrote_lst].
      instantiate (2 := []). instantiate (1 := mkp c None [] ns ec es i true q).
      destruct wl; [apply runs_ret|].
      eapply runs_eq; [eapply runs_seq; [apply runs_upd|apply runs_ret]|reflexivity|reflexivity]. }
    eapply runs_seq.
    { apply runs_on. cbn [mkp p_needs_sep]. instantiate (2 := sep_bytes c ns). instantiate (1 := mkp c None [] ns ec es i true q).
      unfold sep_bytes. destruct ns; [|apply runs_ret].
      unfold write_separator. apply runs_on. unfold p_peek, sep_of, top_of. cbn [mkp p_ctx p_pretty].
      destruct c as [|t c']; [apply runs_raw|].
      destruct ((t =? ctxStruct) || (t =? ctxList)); [apply runs_raw|]. destruct (t =? ctxSexp); apply runs_raw. }
    eapply runs_seq.
    { apply runs_on. cbn [mkp p_empty_cont p_pretty]. rewrite andb_false_r. apply runs_ret. }
    eapply runs_seq.
    { apply runs_on. cbn [mkp p_pretty]. apply runs_ret. }
    eapply runs_seq.
    { apply runs_on. unfold p_in_struct, p_peek. cbn [mkp p_ctx]. fold (top_of c).
      instantiate (2 := field_bytes c f). instantiate (1 := mkp c None [] ns ec es i true q).
      unfold field_bytes. destruct (N.eqb_spec (top_of c) ctxStruct) as [E|E]; [|apply runs_ret].
      destruct (Hf E) as (n & -> & Hn).
      eapply runs_eq; [eapply runs_seq; [apply runs_upd|]| |reflexivity].
      - cbn [p_set_field mkp p_ctx p_err p_field p_annots p_needs_sep p_empty_cont p_empty_stream p_indent p_wrote_lst p_pretty p_quiet].
        unfold write_field_name. apply runs_on. cbn [p_field].
        eapply runs_seq; [apply runs_upd|].
        eapply runs_seq; [apply runs_sym_act, Hn|]. apply runs_on. cbn [p_set_field p_pretty]. apply runs_raw.
      - app_norm. }
    eapply runs_seq; [apply runs_upd|].
    cbn [p_set_annots mkp p_ctx p_err p_field p_annots p_needs_sep p_empty_cont p_empty_stream p_indent p_wrote_lst p_pretty p_quiet app].
    apply runs_on. cbn [p_annots].
    instantiate (2 := tann a). instantiate (1 := mkp c None [] ns ec es i true q).
    destruct a as [|t a']; [apply runs_ret|].
    unfold write_annotations. apply runs_on. cbn [p_annots].
    eapply runs_eq; [eapply runs_seq; [apply runs_upd|apply runs_annots_act, Ha]|reflexivity|reflexivity].
  - app_norm.
  - reflexivity.
Qed.

Lemma runs_recorded body c f a ns ec es i wl q bs c' f' a' ns' ec' es' i' wl' q' :
  runs body (mkp c f a ns ec es i wl q) bs (mkp c' f' a' ns' ec' es' i' wl' q') ->
  runs (recorded body) (mkp c f a ns ec es i wl q) bs (mkp c' f' a' ns' ec' es' i' wl' q').
Proof.
  intros H w out Hs. unfold recorded, tw_err. destruct Hs as (Hb & Ho & Hp). rewrite Hp. cbn [mkp p_err].
  destruct (H w out) as (w' & E & Hb' & Ho' & Hp'); [now repeat split|]. rewrite E.
  eexists. split; [reflexivity|]. repeat split; cbn; auto. rewrite Hp'. reflexivity.
Qed.

(* writeValue *)
Lemma runs_write_value_act fn bs c f a ns ec es i wl q :
  field_ok c f -> Forall wok a ->
  (forall p, runs fn p bs p) ->
  runs (write_value_act fn) (mkp c f a ns ec es i wl q) (sep_bytes c ns ++ field_bytes c f ++ tann a ++ bs) (after c i q).
Proof.
  intros Hf Ha Hfn. unfold write_value_act, after. apply runs_recorded.
  eapply runs_eq; [eapply runs_seq; [apply (runs_begin_value c f a ns ec es i wl q Hf Ha)|
                   eapply runs_seq; [apply Hfn|apply runs_upd]]| |reflexivity].
  app_norm.
Qed.
Lemma runs_write_value body c f a ns ec es i wl q :
  field_ok c f -> Forall wok a ->
  runs (write_value body) (mkp c f a ns ec es i wl q) (sep_bytes c ns ++ field_bytes c f ++ tann a ++ concat body) (after c i q).
Proof. intros Hf Ha. apply (runs_write_value_act (raws body)); auto. intros p. apply runs_raws. Qed.

(* ---- calls ----------------------------------------------------------------------------------------------------- *)
Section Drive.
Variable F : formats.

Definition steps (c : wcall) (p : pstate) (bs : list N) (p' : pstate) : Prop :=
  forall w out, st w out p -> exists w', tw_step F w c = Ok (w', true) /\ st w' (out ++ bs) p'.
Definition drives (cs : list wcall) (p : pstate) (bs : list N) (p' : pstate) : Prop :=
  forall w out, st w out p ->
  exists w' oks, tw_drive F w cs = Ok (w', oks) /\ forallb (fun b => b) oks = true /\ st w' (out ++ bs) p'.

Lemma drives_eq cs p bs p' bs2 p2 : drives cs p bs p' -> bs = bs2 -> p' = p2 -> drives cs p bs2 p2.
Proof. intros H <- <-. exact H. Qed.
Lemma drives_nil p : drives [] p [] p.
Proof. intros w out Hs. exists w, []. split; [reflexivity|]. split; [reflexivity|]. now rewrite app_nil_r. Qed.
Lemma drives_cons c cs p b1 p1 b2 p2 : steps c p b1 p1 -> drives cs p1 b2 p2 -> drives (c :: cs) p (b1 ++ b2) p2.
Proof.
  intros H1 H2 w out Hs. destruct (H1 w out Hs) as (w1 & E1 & Hs1). destruct (H2 w1 _ Hs1) as (w2 & oks & E2 & Hok & Hs2).
  exists w2, (true :: oks). cbn [tw_drive]. rewrite E1. cbn [bind]. rewrite E2. cbn [bind].
  split; [reflexivity|]. split; [exact Hok|]. now rewrite app_assoc.
Qed.
Lemma drives_app cs1 cs2 p b1 p1 b2 p2 : drives cs1 p b1 p1 -> drives cs2 p1 b2 p2 -> drives (cs1 ++ cs2) p (b1 ++ b2) p2.
Proof.
  revert p b1. induction cs1 as [|c r IH]; intros p b1 H1 H2 w out Hs.
  - destruct (H1 w out Hs) as (w1 & oks1 & E1 & _ & Hs1). cbn [tw_drive] in E1. injection E1 as <- <-.
    destruct (H2 w _ Hs1) as (w2 & oks & E2 & Hok & Hs2). exists w2, oks. cbn [app]. now rewrite app_assoc.
  - destruct (H1 w out Hs) as (w1 & oks1 & E1 & Hok1 & Hs1). cbn [tw_drive app] in *.
    destruct (tw_step F w c) as [[wa ok]| | |] eqn:Ec; try discriminate. cbn [bind] in *.
    destruct (tw_drive F wa r) as [[wb oksb]| | |] eqn:Er; try discriminate. cbn [bind] in E1. injection E1 as <- <-.
    cbn [forallb] in Hok1. apply andb_true_iff in Hok1 as [-> Hokb].
    (* the rest of r from wa, as a [drives] statement for this particular state *)
    destruct (H2 wb _ Hs1) as (w2 & oks2 & E2 & Hok2 & Hs2).
    assert (Hd : forall cs w0 w1 o1, tw_drive F w0 cs = Ok (w1, o1) ->
                 tw_drive F w0 (cs ++ cs2) = match tw_drive F w1 cs2 with Ok (w2, o2) => Ok (w2, o1 ++ o2) | Err => Err | Panic => Panic | OutOfFuel => OutOfFuel end).
    { clear. induction cs as [|c0 r0 IH0]; intros w0 w1 o1 E; cbn [tw_drive app] in *.
      - injection E as <- <-. destruct (tw_drive F w0 cs2) as [[? ?]| | |]; reflexivity.
      - destruct (tw_step F w0 c0) as [[wa ok]| | |]; try discriminate. cbn [bind] in *.
        destruct (tw_drive F wa r0) as [[wb ob]| | |] eqn:Er; try discriminate. cbn [bind] in E. injection E as <- <-.
        rewrite (IH0 _ _ _ Er). destruct (tw_drive F wb cs2) as [[? ?]| | |]; reflexivity. }
    rewrite (Hd _ _ _ _ Er), E2. cbn [bind]. eexists _, _. split; [reflexivity|]. split.
    + cbn [forallb]. rewrite forallb_app, Hokb, Hok2. reflexivity.
    + now rewrite app_assoc.
Qed.

(* field names and annotations only set fields *)
Lemma steps_field_name t c' a ns ec es i wl q f0 :
  steps (CFieldName t) (mkp (ctxStruct :: c') f0 a ns ec es i wl q) [] (mkp (ctxStruct :: c') (Some t) a ns ec es i wl q).
Proof.
  intros w out (Hb & Ho & Hp). cbn [tw_step]. unfold tw_err, p_in_struct, p_peek. rewrite Hp. cbn [mkp p_err p_ctx].
  change (ctxStruct =? ctxStruct) with true. cbn [negb].
  eexists. split; [reflexivity|]. rewrite app_nil_r. repeat split; cbn; auto. rewrite Hp. reflexivity.
Qed.
Lemma drives_annotations pa c f a ns ec es i wl q :
  drives (map (fun y => CAnnotation (tok_of_sym y)) pa) (mkp c f a ns ec es i wl q) [] (mkp c f (a ++ map tok_of_sym pa) ns ec es i wl q).
Proof.
  revert a. induction pa as [|y r IH]; intros a; cbn [map].
  - rewrite app_nil_r. apply drives_nil.
  - eapply drives_eq; [eapply (drives_cons _ _ _ [] _ [] _); [|apply (IH (a ++ [tok_of_sym y]))]|reflexivity|].
    + intros w out (Hb & Ho & Hp). cbn [tw_step]. unfold tw_err. rewrite Hp. cbn [mkp p_err].
      eexists. split; [reflexivity|]. rewrite app_nil_r. repeat split; cbn; auto. rewrite Hp. reflexivity.
    + now rewrite <- app_assoc.
Qed.

(* every scalar: one call *)
Lemma steps_scalar v c f a ns ec es i wl q :
  is_scalar v -> wf_scalar F v -> field_ok c f -> Forall wok a ->
  exists call, calls_of_value v = [call] /\
  steps call (mkp c f a ns ec es i wl q) (sep_bytes c ns ++ field_bytes c f ++ tann a ++ scalar_bytes F v) (after c i q).
Proof.
  intros Hs Hw Hf Ha.
  assert (Herr : forall w out, st w out (mkp c f a ns ec es i wl q) -> tw_err w = false).
  { intros w out (_ & _ & Hp). unfold tw_err. now rewrite Hp. }
  destruct v; try contradiction; cbn [calls_of_value scalar_bytes]; eexists; (split; [reflexivity|]); intros w out Hst;
    cbn [tw_step]; rewrite ?(Herr w out Hst).
  - (* null *)
    cbn [wf_scalar] in Hw. replace (14 <=? t) with false by lia.
    assert (Ht : text_null t = Ok (nth (N.to_nat t) text_nulls [])).
    { unfold text_null. destruct (nth_error text_nulls (N.to_nat t)) eqn:E.
      - f_equal. symmetry. now apply nth_error_nth.
      - apply nth_error_None in E. cbn [length text_nulls] in E. lia. }
    rewrite Ht. cbn [bind].
    destruct (runs_write_value [nth (N.to_nat t) text_nulls []] c f a ns ec es i wl q Hf Ha w out Hst) as (w' & E & Hs').
    exists w'. rewrite E. split; [reflexivity|]. cbn [concat] in Hs'. now rewrite app_nil_r in Hs'.
  - destruct (runs_write_value [if b then s "true" else s "false"] c f a ns ec es i wl q Hf Ha w out Hst) as (w' & E & Hs').
    exists w'. rewrite E. split; [reflexivity|]. cbn [concat] in Hs'. now rewrite app_nil_r in Hs'.
  - destruct (runs_write_value [dec_of_Z z] c f a ns ec es i wl q Hf Ha w out Hst) as (w' & E & Hs').
    exists w'. rewrite E. split; [reflexivity|]. cbn [concat] in Hs'. now rewrite app_nil_r in Hs'.
  - destruct (runs_write_value [format_float (fmt_float F) bits] c f a ns ec es i wl q Hf Ha w out Hst) as (w' & E & Hs').
    exists w'. rewrite E. split; [reflexivity|]. cbn [concat] in Hs'. now rewrite app_nil_r in Hs'.
  - destruct (runs_write_value [fmt_dec F d] c f a ns ec es i wl q Hf Ha w out Hst) as (w' & E & Hs').
    exists w'. rewrite E. split; [reflexivity|]. cbn [concat] in Hs'. now rewrite app_nil_r in Hs'.
  - destruct (runs_write_value [fmt_ts F (N.of_nat (length body)) body] c f a ns ec es i wl q Hf Ha w out Hst) as (w' & E & Hs').
    exists w'. rewrite E. split; [reflexivity|]. cbn [concat] in Hs'. now rewrite app_nil_r in Hs'.
  - (* symbol *)
    assert (Hy : wok (tok_of_sym y)).
    { cbn [wf_scalar] in Hw. unfold wok, write_symbol. destruct y as [t|n]; cbn [tok_of_sym tok_text tok_sid tk_text tk_sid].
      - destruct (symbol_identifier t); discriminate.
      - replace (Z.of_N n =? -1)%Z with false by lia. discriminate. }
    destruct (runs_write_value_act (sym_act (tok_of_sym y)) (sym_bytes (tok_of_sym y)) c f a ns ec es i wl q Hf Ha
                (fun p => runs_sym_act _ p Hy) w out Hst) as (w' & E & Hs').
    exists w'. rewrite E. split; [reflexivity|]. exact Hs'.
  - destruct (runs_write_value ([[34]] ++ escaped_string t ++ [[34]]) c f a ns ec es i wl q Hf Ha w out Hst) as (w' & E & Hs').
    exists w'. rewrite E. split; [reflexivity|]. rewrite !concat_app in Hs'. cbn [concat app] in Hs'. exact Hs'.
  - destruct (runs_write_value ([[123; 123; 34]] ++ escaped_clob b ++ [[34; 125; 125]]) c f a ns ec es i wl q Hf Ha w out Hst) as (w' & E & Hs').
    exists w'. rewrite E. split; [reflexivity|]. rewrite !concat_app in Hs'. cbn [concat app] in Hs'. exact Hs'.
  - destruct (runs_write_value ([[123; 123]] ++ blob_body b ++ [[125; 125]]) c f a ns ec es i wl q Hf Ha w out Hst) as (w' & E & Hs').
    exists w'. rewrite E. split; [reflexivity|]. rewrite !concat_app in Hs'. cbn [concat app] in Hs'. exact Hs'.
Qed.

Lemma wsym_ok y : wf_sym y -> wok (tok_of_sym y).
Proof.
  unfold wok, write_symbol. destruct y as [t|n]; cbn [wf_sym tok_of_sym tok_text tok_sid tk_text tk_sid]; intros H.
  - destruct (symbol_identifier t); discriminate.
  - replace (Z.of_N n =? -1)%Z with false by lia. discriminate.
Qed.
Lemma wsyms_ok pa : Forall wf_sym pa -> Forall wok (map tok_of_sym pa).
Proof. induction 1; cbn [map]; constructor; auto using wsym_ok. Qed.

(* containers *)
Lemma steps_begin call t c0 c f a ns ec es i wl q :
  tw_step F = (fun w cl => tw_step F w cl) ->
  (forall w, tw_step F w call = Ok (begin_container t c0 w)) ->
  field_ok c f -> Forall wok a ->
  steps call (mkp c f a ns ec es i wl q) (sep_bytes c ns ++ field_bytes c f ++ tann a ++ [c0])
        (mkp (t :: c) None [] false true es (i + 1) true q).
Proof.
  intros _ Hcall Hf Ha w out Hst. rewrite Hcall. unfold begin_container.
  assert (R : runs (recorded (begin_value ;;
            upd (fun p => p_set_flags (p_set_indent (p_set_ctx p (t :: p_ctx p)) (p_indent p + 1)) false true (p_empty_stream p)) ;;
            raw [c0])) (mkp c f a ns ec es i wl q) (sep_bytes c ns ++ field_bytes c f ++ tann a ++ [c0])
            (mkp (t :: c) None [] false true es (i + 1) true q)).
  { apply runs_recorded.
    eapply runs_eq; [eapply runs_seq; [apply (runs_begin_value c f a ns ec es i wl q Hf Ha)|
                     eapply runs_seq; [apply runs_upd|apply runs_raw]]| |reflexivity].
    app_norm. }
  destruct (R w out Hst) as (w' & E & Hs'). exists w'. now rewrite E.
Qed.
Lemma steps_end call t c0 c ns ec es i q :
  t <> 0 ->
  (forall w, tw_step F w call = end_container w t c0) ->
  steps call (mkp (t :: c) None [] ns ec es i true q) [c0] (after c (i - 1) q).
Proof.
  intros Ht Hcall w out Hst. rewrite Hcall. unfold end_container, tw_err, p_peek.
  pose proof Hst as (Hb & Ho & Hp). rewrite Hp. cbn [mkp p_err p_ctx]. rewrite N.eqb_refl. cbn [negb].
  assert (R : runs (recorded (end_body c c0)) (mkp (t :: c) None [] ns ec es i true q) [c0] (after c (i - 1) q)).
  { unfold after. apply runs_recorded. unfold end_body.
    eapply runs_eq; [eapply runs_seq; [apply runs_upd|eapply runs_seq;
      [apply runs_on; cbn [mkp p_set_indent p_empty_cont p_pretty]; rewrite andb_false_r; apply runs_ret
      |eapply runs_seq; [apply runs_raw|apply runs_upd]]]|app_norm|reflexivity]. }
  destruct (R w out Hst) as (w' & E & Hs'). exists w'. now rewrite E.
Qed.

Definition Pv (v : value) : Prop :=
  wf_value F v ->
  forall pa c f ns ec es i wl q, field_ok c f -> Forall wf_sym pa ->
  drives (calls_of_value v) (mkp c f (map tok_of_sym pa) ns ec es i wl q)
         (sep_bytes c ns ++ field_bytes c f ++ wt F pa v) (after c i q).

Definition wf_list (l : list value) : Prop :=
  (fix go (l : list value) : Prop := match l with [] => True | x :: r => wf_value F x /\ go r end) l.
Definition wf_fields (l : list (symv * value)) : Prop :=
  (fix go (l : list (symv * value)) : Prop := match l with [] => True | (n, x) :: r => wf_sym n /\ wf_value F x /\ go r end) l.

(* the members of a list / s-expression / the top level *)
Lemma drives_members cx i q l : top_of cx <> ctxStruct -> Forall Pv l -> wf_list l ->
  forall ns ec es wl,
  drives (flat_map calls_of_value l) (mkp cx None [] ns ec es i wl q)
         (items (sep_of (top_of cx)) ns (map (wt F []) l))
         (match l with [] => mkp cx None [] ns ec es i wl q | _ => after cx i q end).
Proof.
  intros Hcx. induction 1 as [|x r Hx Hr IH]; intros Hw ns ec es wl; cbn [flat_map map items]; [apply drives_nil|].
  destruct Hw as [Hwx Hwr].
  assert (Hfo : field_ok cx None) by (intros E; contradiction).
  eapply drives_eq; [eapply drives_app; [apply (Hx Hwx [] cx None ns ec es i wl q Hfo (Forall_nil _))|apply (IH Hwr true false false true)]| |].
  - unfold sep_bytes, field_bytes. destruct (N.eqb_spec (top_of cx) ctxStruct); [contradiction|]. app_norm.
  - destruct r; reflexivity.
Qed.
Lemma drives_fields c i q fs : Forall (fun p => Pv (snd p)) fs -> wf_fields fs ->
  forall ns ec es,
  drives (flat_map (fun '(n, x) => CFieldName (tok_of_sym n) :: calls_of_value x) fs) (mkp (ctxStruct :: c) None [] ns ec es i true q)
         (items [44] ns (map (fun '(n, x) => wsym n ++ [58] ++ wt F [] x) fs))
         (match fs with [] => mkp (ctxStruct :: c) None [] ns ec es i true q | _ => after (ctxStruct :: c) i q end).
Proof.
  induction 1 as [|[n x] r Hx Hr IH]; intros Hw ns ec es; cbn [flat_map map items]; [apply drives_nil|].
  destruct Hw as (Hn & Hwx & Hwr). cbn [snd] in Hx.
  assert (Hfo : field_ok (ctxStruct :: c) (Some (tok_of_sym n))) by (intros _; eexists; split; [reflexivity|now apply wsym_ok]).
  change (CFieldName (tok_of_sym n) :: calls_of_value x ++ flat_map (fun '(n0, x0) => CFieldName (tok_of_sym n0) :: calls_of_value x0) r)
    with ((CFieldName (tok_of_sym n) :: calls_of_value x) ++ flat_map (fun '(n0, x0) => CFieldName (tok_of_sym n0) :: calls_of_value x0) r).
  eapply drives_eq; [eapply drives_app; [eapply drives_cons; [apply steps_field_name|
     apply (Hx Hwx [] (ctxStruct :: c) (Some (tok_of_sym n)) ns ec es i true q Hfo (Forall_nil _))]|apply (IH Hwr true false false)]| |].
  - unfold sep_bytes, field_bytes, wsym. cbn [top_of]. change (ctxStruct =? ctxStruct) with true.
    change (sep_of ctxStruct) with [44]. app_norm.
  - destruct r; reflexivity.
Qed.

Lemma after_indent c i q : after c (i + 1 - 1) q = after c i q.
Proof. unfold after, mkp. f_equal. lia. Qed.
Lemma wt_scalar pa v : is_scalar v -> wt F pa v = ann_bytes pa ++ scalar_bytes F v.
Proof. destruct v; try contradiction; reflexivity. Qed.

Lemma wf_list_eq l : wf_value F (VList l) = wf_list l.  Proof. reflexivity. Qed.
Lemma wf_sexp_eq l : wf_value F (VSexp l) = wf_list l.  Proof. reflexivity. Qed.
Lemma wf_struct_eq l : wf_value F (VStruct l) = wf_fields l.  Proof. reflexivity. Qed.

Theorem value_written v : Pv v.
Proof.
  induction v as [v Hsc|l IH|l IH|fs IH|a0 x IH] using value_ind'; intros Hw pa c f ns ec es i wl q Hf Hpa;
    pose proof (wsyms_ok pa Hpa) as Hwok.
  - assert (Hws : wf_scalar F v) by (destruct v; try contradiction; exact Hw).
    destruct (steps_scalar v c f (map tok_of_sym pa) ns ec es i wl q Hsc Hws Hf Hwok) as (call & -> & Hst).
    eapply drives_eq; [eapply drives_cons; [exact Hst|apply drives_nil]| |reflexivity].
    rewrite (wt_scalar pa v Hsc), tann_map. app_norm.
  - rewrite wf_list_eq in Hw. cbn [calls_of_value wt].
    change (CBeginList :: flat_map calls_of_value l ++ [CEndList]) with ([CBeginList] ++ flat_map calls_of_value l ++ [CEndList]).
    eapply drives_eq; [eapply drives_app; [eapply drives_cons; [apply (steps_begin CBeginList ctxList 91 c f _ ns ec es i wl q eq_refl (fun w => eq_refl) Hf Hwok)|apply drives_nil]|
                       eapply drives_app; [apply (drives_members (ctxList :: c) (i + 1) q l ltac:(discriminate) IH Hw false true es true)|
                                           eapply drives_cons; [|apply drives_nil]]]| |apply after_indent].
    + destruct l; apply (steps_end CEndList ctxList 93 c _ _ _ (i + 1) q ltac:(discriminate) (fun w => eq_refl)).
    + rewrite tann_map. cbn [top_of]. change (sep_of ctxList) with [44]. app_norm.
  - rewrite wf_sexp_eq in Hw. cbn [calls_of_value wt].
    change (CBeginSexp :: flat_map calls_of_value l ++ [CEndSexp]) with ([CBeginSexp] ++ flat_map calls_of_value l ++ [CEndSexp]).
    eapply drives_eq; [eapply drives_app; [eapply drives_cons; [apply (steps_begin CBeginSexp ctxSexp 40 c f _ ns ec es i wl q eq_refl (fun w => eq_refl) Hf Hwok)|apply drives_nil]|
                       eapply drives_app; [apply (drives_members (ctxSexp :: c) (i + 1) q l ltac:(discriminate) IH Hw false true es true)|
                                           eapply drives_cons; [|apply drives_nil]]]| |apply after_indent].
    + destruct l; apply (steps_end CEndSexp ctxSexp 41 c _ _ _ (i + 1) q ltac:(discriminate) (fun w => eq_refl)).
    + rewrite tann_map. cbn [top_of]. change (sep_of ctxSexp) with [32]. app_norm.
  - rewrite wf_struct_eq in Hw. cbn [calls_of_value wt].
    change (CBeginStruct :: ?x ++ [CEndStruct]) with ([CBeginStruct] ++ x ++ [CEndStruct]).
    eapply drives_eq; [eapply drives_app; [eapply drives_cons; [apply (steps_begin CBeginStruct ctxStruct 123 c f _ ns ec es i wl q eq_refl (fun w => eq_refl) Hf Hwok)|apply drives_nil]|
                       eapply drives_app; [apply (drives_fields c (i + 1) q fs IH Hw false true es)|
                                           eapply drives_cons; [|apply drives_nil]]]| |apply after_indent].
    + destruct fs; apply (steps_end CEndStruct ctxStruct 125 c _ _ _ (i + 1) q ltac:(discriminate) (fun w => eq_refl)).
    + rewrite tann_map. app_norm.
  - destruct Hw as [Ha0 Hwx]. cbn [calls_of_value wt].
    eapply drives_eq; [eapply drives_app; [apply drives_annotations|rewrite <- map_app; apply (IH Hwx (pa ++ a0) c f ns ec es i wl q Hf)]|reflexivity|reflexivity].
    apply Forall_app. now split.
Qed.

(* ---- the whole stream ---------------------------------------------------------------------------------------------- *)
Theorem forest_written quiet vs : Forall (wf_value F) vs ->
  exists w oks, tw_drive F (new_text_writer None false quiet) (calls_of_stream vs) = Ok (w, oks) /\
                forallb (fun b => b) oks = true /\ sink_bytes (tw_out w) = wt_stream F quiet vs.
Proof.
  intros Hvs.
  assert (Hwl : wf_list vs) by (induction Hvs; cbn; auto).
  assert (HP : Forall Pv vs) by (apply Forall_forall; intros v _; apply value_written).
  pose proof (drives_members [] 0%Z quiet vs ltac:(discriminate) HP Hwl false false true false) as Hm.
  assert (Hfin : steps CFinish (match vs with [] => mkp [] None [] false false true 0%Z false quiet | _ => after [] 0%Z quiet end)
                       (match vs with [] => [] | _ => if quiet then [] else [10] end)
                       (match vs with [] => mkp [] None [] false false true 0%Z false quiet
                                 | _ => mkp [] None [] (if quiet then true else false) false (if quiet then false else true) 0%Z true quiet end)).
  { intros w out Hst. cbn [tw_step]. unfold finish, tw_err, p_peek. pose proof Hst as (Hb & Ho & Hp). rewrite Hp.
    destruct vs as [|v0 vs']; unfold after; cbn [mkp p_err p_ctx p_empty_stream p_quiet N.eqb negb andb].
    - destruct (runs_upd p_clear (mkp [] None [] false false true 0%Z false quiet) w out Hst) as (w' & E & Hs').
      exists w'. rewrite E. split; [reflexivity|exact Hs'].
    - destruct quiet; cbn [negb andb].
      + destruct (runs_upd p_clear (mkp [] None [] true false false 0%Z true true) w out Hst) as (w' & E & Hs').
        exists w'. rewrite E. split; [reflexivity|exact Hs'].
      + destruct (runs_raw [10] _ w out Hst) as (w1 & E1 & Hs1). rewrite E1. cbn [negb].
        destruct (runs_upd (fun p => p_clear (p_set_flags p false (p_empty_cont p) true)) _ w1 _ Hs1) as (w' & E & Hs').
        exists w'. rewrite E. split; [reflexivity|]. rewrite app_nil_r in Hs'. exact Hs'. }
  assert (Hinit : st (new_text_writer None false quiet) [] (mkp [] None [] false false true 0%Z false quiet)) by (repeat split).
  unfold calls_of_stream.
  destruct (drives_app _ _ _ _ _ _ _ Hm (drives_cons _ _ _ _ _ _ _ Hfin (drives_nil _)) _ _ Hinit) as (w & oks & E & Hok & (_ & Hout & _)).
  exists w, oks. split; [exact E|]. split; [exact Hok|]. rewrite Hout. unfold wt_stream. cbn [app top_of].
  change (sep_of 0) with [10]. now rewrite app_nil_r.
Qed.
End Drive.
