(* Conc/SharedWritesOk.v — static.  Conc/SharedWrites.v is regenerated from the Go source
   on every check run (harness/cmd/vhwrites); this file compiles only when the translator
   found no instruction that can write shared state. *)
From Coq Require Import List String.
From IonV Require Import Conc.SharedWrites.
Import ListNotations.

Example shared_writes_nil : shared_writes = [].
Proof. reflexivity. Qed.
