(* Conc/Interleave.v — the interleaving model behind C18 (model only: no proofs here).

   N threads.  Thread i owns a private state (list position i of [st_priv]) and runs the
   step function at position i of [steps]; a step is atomic, reads the shared environment
   and its own private state and produces one output.  A schedule is the list of thread
   ids in the order in which their steps happen; [run] executes it.

   A step MAY write the shared environment: it returns a new one.  [no_shared_write] is the
   premise under which interleaving is unobservable; the read-only step shape
   [shared -> priv -> priv * out] of DESIGN.md §7 is the special case [lift_ro].

   Thread ids are list positions, hence [nat] (never a literal above a handful). *)
From Coq Require Import List Arith PeanoNat NArith String.
Import ListNotations.

Section Model.
  Variables shared priv out : Type.

  Definition step_t := shared -> priv -> shared * priv * out.

  (* the step never changes the shared environment *)
  Definition no_shared_write (f : step_t) : Prop := forall s p, fst (fst (f s p)) = s.

  (* the read-only step shape: there is no new shared environment to return *)
  Definition ro_step_t := shared -> priv -> priv * out.
  Definition lift_ro (g : ro_step_t) : step_t := fun s p => (s, fst (g s p), snd (g s p)).

  Record state := mkState {
    st_shared : shared;
    st_priv   : list priv;            (* private state of thread i at position i *)
    st_trace  : list (nat * out)      (* (thread id, output) in execution order *)
  }.

  Fixpoint upd {A : Type} (i : nat) (x : A) (l : list A) : list A :=
    match l, i with
    | [], _ => []
    | _ :: t, O => x :: t
    | h :: t, S i' => h :: upd i' x t
    end.

  (* one scheduled step of thread i; a schedule entry naming no thread is a no-op *)
  Definition exec1 (steps : list step_t) (σ : state) (i : nat) : state :=
    match nth_error steps i, nth_error (st_priv σ) i with
    | Some f, Some p =>
        match f (st_shared σ) p with
        | (s', p', o) => mkState s' (upd i p' (st_priv σ)) (st_trace σ ++ [(i, o)])
        end
    | _, _ => σ
    end.

  Definition run (steps : list step_t) (σ : state) (sched : list nat) : state :=
    fold_left (exec1 steps) sched σ.

  Definition init (s0 : shared) (pvs : list priv) : state := mkState s0 pvs [].

  Definition outputs_of_thread (i : nat) (σ : state) : list out :=
    map snd (filter (fun e => Nat.eqb (fst e) i) (st_trace σ)).

  (* thread run alone: k consecutive steps of f from shared s and private p *)
  Fixpoint alone (f : step_t) (s : shared) (p : priv) (k : nat) : list out :=
    match k with
    | O => []
    | S k' => match f s p with (s', p', o) => o :: alone f s' p' k' end
    end.

  Fixpoint alone_priv (f : step_t) (s : shared) (p : priv) (k : nat) : priv :=
    match k with
    | O => p
    | S k' => match f s p with (s', p', _) => alone_priv f s' p' k' end
    end.

  (* how many steps the schedule gives to thread i *)
  Definition turns (i : nat) (sched : list nat) : nat := count_occ Nat.eq_dec sched i.

  (* ---- the tie to the source: write sites ------------------------------------------- *)
  (* A piece of library code = its step semantics + the list of its instructions that can
     write shared state, as (function, description).  [sites_sound]: code without such an
     instruction does not change the shared environment (the meaning of "write site");
     [sites_listed all]: the translator's list [all] misses none of the code's sites (the
     translator's completeness).  Both are hypotheses of C18, never proved: they are the
     trusted reading of harness/cmd/vhwrites. *)
  Definition site := (string * string)%type.
  Record code := mkCode { c_run : step_t; c_sites : list site }.
  Definition sites_sound (c : code) : Prop := c_sites c = [] -> no_shared_write (c_run c).
  Definition sites_listed (all : list site) (c : code) : Prop := incl (c_sites c) all.

  (* the conclusion of C18 for one system, one schedule, one thread *)
  Definition thread_unaffected (steps : list step_t) (s0 : shared) (pvs : list priv)
             (sched : list nat) (i : nat) : Prop :=
    forall f p, nth_error steps i = Some f -> nth_error pvs i = Some p ->
      outputs_of_thread i (run steps (init s0 pvs) sched) = alone f s0 p (turns i sched).
End Model.

Arguments no_shared_write {shared priv out} f.
Arguments lift_ro {shared priv out} g.
Arguments mkState {shared priv out}.
Arguments st_shared {shared priv out}.
Arguments st_priv {shared priv out}.
Arguments st_trace {shared priv out}.
Arguments exec1 {shared priv out}.
Arguments run {shared priv out}.
Arguments init {shared priv out}.
Arguments outputs_of_thread {shared priv out}.
Arguments alone {shared priv out}.
Arguments alone_priv {shared priv out}.
Arguments mkCode {shared priv out}.
Arguments c_run {shared priv out}.
Arguments c_sites {shared priv out}.
Arguments sites_sound {shared priv out}.
Arguments sites_listed {shared priv out}.
Arguments thread_unaffected {shared priv out}.

(* The full-strength statement WITHOUT the premise: every system, whatever its steps do to
   the shared environment.  False (InterleaveP.C18_unconditional_refuted): the premise is
   the whole content of C18. *)
Definition C18_unconditional : Prop :=
  forall (shared priv out : Type) (steps : list (step_t shared priv out)) s0 pvs sched i,
    thread_unaffected steps s0 pvs sched i.

(* ---- concrete systems used by the examples ------------------------------------------ *)
Local Open Scope N_scope.

(* a reader over a shared symbol table: shared = list of (key, value), private = next key;
   the step looks its key up (0 when absent) and moves to the next key *)
Fixpoint table_find (t : list (N * N)) (k : N) : N :=
  match t with
  | [] => 0
  | (k', v) :: r => if N.eqb k k' then v else table_find r k
  end.
Definition lookup_ro : ro_step_t (list (N * N)) N N := fun t k => (k + 1, table_find t k).
Definition lookup_step : step_t (list (N * N)) N N := lift_ro lookup_ro.

(* the same lookup memoised in a SHARED cache (shared = list of keys seen so far); the step
   reports whether it hit the cache -- the observable difference a shared cache can make *)
Definition cache_step : step_t (list N) N bool :=
  fun cache k => if existsb (N.eqb k) cache then (cache, k, true) else (k :: cache, k, false).
