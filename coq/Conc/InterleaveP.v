(* Conc/InterleaveP.v — lemmas about Conc/Interleave.v (frame argument for C18). *)
From Coq Require Import List Arith PeanoNat NArith String Lia.
From IonV Require Import Conc.Interleave.
Import ListNotations.

Section Frame.
  Variables shared priv out : Type.
  Notation step := (step_t shared priv out).
  Notation st := (state shared priv out).

  Lemma nth_error_upd_same : forall (A : Type) (l : list A) i x x0,
    nth_error l i = Some x0 -> nth_error (upd i x l) i = Some x.
  Proof.
    induction l as [|h t IH]; intros [|i] x x0 H; simpl in *; try discriminate; auto.
    eapply IH; eauto.
  Qed.

  Lemma nth_error_upd_other : forall (A : Type) (l : list A) i j x,
    i <> j -> nth_error (upd j x l) i = nth_error l i.
  Proof.
    induction l as [|h t IH]; intros [|i] [|j] x H; simpl in *; auto; try congruence.
  Qed.

  Lemma lift_ro_no_shared_write : forall g : ro_step_t shared priv out, no_shared_write (lift_ro g).
  Proof. intros g s p. reflexivity. Qed.

  Variable steps : list step.
  Hypothesis RO : Forall no_shared_write steps.

  Lemma step_ro : forall i f, nth_error steps i = Some f -> no_shared_write f.
  Proof.
    intros i f H. rewrite Forall_forall in RO. apply RO. eapply nth_error_In; eauto.
  Qed.

  Lemma exec1_shared : forall (σ : st) j, st_shared (exec1 steps σ j) = st_shared σ.
  Proof.
    intros σ j. unfold exec1.
    destruct (nth_error steps j) as [f|] eqn:Ef; auto.
    destruct (nth_error (st_priv σ) j) as [p|] eqn:Ep; auto.
    pose proof (step_ro _ _ Ef (st_shared σ) p) as H.
    destruct (f (st_shared σ) p) as [[s' p'] o]. simpl in *. exact H.
  Qed.

  Lemma run_shared : forall sched (σ : st), st_shared (run steps σ sched) = st_shared σ.
  Proof.
    induction sched as [|j r IH]; intros σ; simpl; auto.
    unfold run in *. simpl. rewrite IH. apply exec1_shared.
  Qed.

  (* the frame lemma: what thread i sees of a run is its own steps run alone *)
  Lemma run_frame : forall sched (σ : st) i f p,
    nth_error steps i = Some f -> nth_error (st_priv σ) i = Some p ->
    outputs_of_thread i (run steps σ sched) =
      outputs_of_thread i σ ++ alone f (st_shared σ) p (turns i sched) /\
    nth_error (st_priv (run steps σ sched)) i = Some (alone_priv f (st_shared σ) p (turns i sched)).
  Proof.
    induction sched as [|j r IH]; intros σ i f p Hf Hp.
    - simpl. rewrite app_nil_r. auto.
    - change (run steps σ (j :: r)) with (run steps (exec1 steps σ j) r).
      unfold turns. simpl count_occ.
      destruct (Nat.eq_dec j i) as [->|Hne].
      + (* thread i moves *)
        pose proof (step_ro _ _ Hf (st_shared σ) p) as Hs.
        assert (E : exec1 steps σ i =
                    match f (st_shared σ) p with
                    | (s', p', o) => mkState s' (upd i p' (st_priv σ)) (st_trace σ ++ [(i, o)])
                    end).
        { unfold exec1. rewrite Hf, Hp. reflexivity. }
        simpl alone. simpl alone_priv.
        destruct (f (st_shared σ) p) as [[s' p'] o] eqn:Ef. simpl in Hs. subst s'.
        specialize (IH (exec1 steps σ i) i f p' Hf).
        rewrite E in *. simpl st_shared in *. simpl st_priv in *.
        specialize (IH (nth_error_upd_same _ _ _ _ _ Hp)).
        destruct IH as [IHo IHp]. split; [|exact IHp].
        rewrite IHo. fold (turns i r).
        unfold outputs_of_thread at 1. simpl st_trace.
        rewrite filter_app, map_app. simpl. rewrite Nat.eqb_refl. simpl.
        rewrite <- app_assoc. reflexivity.
      + (* another thread (or nobody) moves *)
        specialize (IH (exec1 steps σ j) i f p Hf).
        rewrite exec1_shared in IH.
        assert (Hp' : nth_error (st_priv (exec1 steps σ j)) i = Some p /\
                      outputs_of_thread i (exec1 steps σ j) = outputs_of_thread i σ).
        { unfold exec1.
          destruct (nth_error steps j) as [g|]; auto.
          destruct (nth_error (st_priv σ) j) as [q|]; auto.
          destruct (g (st_shared σ) q) as [[s' q'] o]. simpl. split.
          - rewrite nth_error_upd_other; auto.
          - unfold outputs_of_thread. simpl. rewrite filter_app, map_app. simpl.
            destruct (Nat.eqb_spec j i); [congruence|]. simpl. apply app_nil_r. }
        destruct Hp' as [Hp' Ho]. specialize (IH Hp'). rewrite Ho in IH. exact IH.
  Qed.

  Theorem interleave : forall s0 pvs sched i, thread_unaffected steps s0 pvs sched i.
  Proof.
    intros s0 pvs sched i f p Hf Hp.
    destruct (run_frame sched (init s0 pvs) i f p Hf Hp) as [H _]. exact H.
  Qed.

  Theorem interleave_final : forall s0 pvs sched,
    st_shared (run steps (init s0 pvs) sched) = s0 /\
    forall i f p, nth_error steps i = Some f -> nth_error pvs i = Some p ->
      nth_error (st_priv (run steps (init s0 pvs) sched)) i = Some (alone_priv f s0 p (turns i sched)).
  Proof.
    intros s0 pvs sched. split.
    - apply run_shared.
    - intros i f p Hf Hp. destruct (run_frame sched (init s0 pvs) i f p Hf Hp) as [_ H]. exact H.
  Qed.

  (* two schedules that give thread i the same number of turns are indistinguishable to it *)
  Theorem schedule_independent : forall s0 pvs sched1 sched2 i f p,
    nth_error steps i = Some f -> nth_error pvs i = Some p ->
    turns i sched1 = turns i sched2 ->
    outputs_of_thread i (run steps (init s0 pvs) sched1) =
    outputs_of_thread i (run steps (init s0 pvs) sched2).
  Proof.
    intros s0 pvs s1 s2 i f p Hf Hp Ht.
    rewrite (interleave s0 pvs s1 i f p Hf Hp), (interleave s0 pvs s2 i f p Hf Hp), Ht. reflexivity.
  Qed.
End Frame.

(* read-only step shape: the premise holds by construction *)
Theorem interleave_ro : forall (shared priv out : Type) (gs : list (ro_step_t shared priv out)) s0 pvs sched i,
  thread_unaffected (map lift_ro gs) s0 pvs sched i.
Proof.
  intros. apply interleave. rewrite Forall_forall. intros f Hin.
  apply in_map_iff in Hin. destruct Hin as [g [<- _]]. apply lift_ro_no_shared_write.
Qed.

(* the tie: write sites listed by the translator, and the list is empty *)
Theorem interleave_sites : forall (shared priv out : Type) (all : list site)
    (prog : list (code shared priv out)),
  Forall sites_sound prog -> Forall (sites_listed all) prog -> all = [] ->
  forall s0 pvs sched i, thread_unaffected (map c_run prog) s0 pvs sched i.
Proof.
  intros shared priv out all prog Hs Hl -> s0 pvs sched i.
  apply interleave. rewrite Forall_forall in *. intros f Hin.
  apply in_map_iff in Hin. destruct Hin as [c [<- Hc]].
  apply (Hs c Hc). specialize (Hl c Hc). unfold sites_listed in Hl.
  destruct (c_sites c) as [|x l]; auto. exfalso. apply (Hl x). left. reflexivity.
Qed.

(* without the premise the statement is false: two threads sharing a memo cache *)
Theorem C18_unconditional_refuted : ~ C18_unconditional.
Proof.
  intro H.
  specialize (H (list N) N bool [cache_step; cache_step] [] [7%N; 7%N] [0%nat; 1%nat] 1%nat cache_step 7%N eq_refl eq_refl).
  vm_compute in H. discriminate H.
Qed.

(* ... and it is exactly the write that breaks it: the cache step is not [no_shared_write] *)
Lemma cache_step_writes : ~ no_shared_write cache_step.
Proof. intro H. specialize (H [] 7%N). vm_compute in H. discriminate H. Qed.
