(* CtxHistory.v — the symbol-table reading of Sym/LstRead.v at the level of the
   VALUE TREE of the table struct ([impl_step]: what readLocalSymbolTable
   computes from the struct's fields, in field order: a field without text is
   an error, a second symbols/imports field is an error, malformed fields and
   typed nulls are ignored, null max_id is an error, symbols: null.list fails
   in StepIn), the history of tables of a stream ([impl_history]), and the
   abstraction of ion-go's tables to the slot lists of Sym/LstSpec.v.
   No proofs in this file. *)
From Coq Require Import String List NArith ZArith Bool.
From IonV Require Import Base.Wire Sym.SymTab Data.Ion Sym.LstSpec Sym.LstRead.
Import ListNotations.
Open Scope N_scope.

(* readSymbols *)
Definition t_symbols (v : tval) : res (list SymTab.text) :=
  match v with
  | TvList l => Ok (map (fun x => match x with TvString t => t | _ => [] end) l)
  | TvNull ty => if (ty =? TList) && negb fix_null_list then Err else Ok []   (* StepIn refuses null.list *)
  | _ => Ok []
  end.

(* the field loop of readImport *)
Fixpoint t_import_fields (fs : list (tok * tval)) (d : gdecl) : res gdecl :=
  match fs with
  | [] => Ok d
  | (k, v) :: r =>
    match tk_text k with
    | None => Err
    | Some fnm =>
      if list_eqb fnm (s "name"%string) then
        match v with
        | TvString t => t_import_fields r {| gd_name := t; gd_version := gd_version d; gd_maxid := gd_maxid d |}
        | _ => t_import_fields r d
        end
      else if list_eqb fnm (s "version"%string) then
        match v with
        | TvInt z => if negb (in_i64 z) then Err else if negb (in_i32 z) then Err
                     else t_import_fields r {| gd_name := gd_name d; gd_version := z; gd_maxid := gd_maxid d |}
        | _ => t_import_fields r d
        end
      else if list_eqb fnm (s "max_id"%string) then
        match v with
        | TvInt z => if negb (in_i64 z) then Err
                     else t_import_fields r {| gd_name := gd_name d; gd_version := gd_version d; gd_maxid := z |}
        | TvNull ty => if ty =? TInt then Err else t_import_fields r d
        | _ => t_import_fields r d
        end
      else t_import_fields r d
    end
  end.
Definition gdecl0 : gdecl := {| gd_name := []; gd_version := (-1)%Z; gd_maxid := (-1)%Z |}.
(* readImport *)
Definition t_import (cat : option catalog) (v : tval) : res (option shared) :=
  match v with
  | TvStruct fs => do d <- t_import_fields fs gdecl0; resolve_import cat (gd_name d) (gd_version d) (gd_maxid d)
  | _ => Ok None
  end.
Fixpoint t_import_list (cat : option catalog) (l : list tval) : res (list shared) :=
  match l with
  | [] => Ok []
  | v :: r => do i <- t_import cat v; do rest <- t_import_list cat r;
              Ok (match i with Some x => x :: rest | None => rest end)
  end.
(* readImports; [cur] = r.SymbolTable(), None = the system table *)
Definition t_imports (cat : option catalog) (cur : option lst) (v : tval) : res (list shared) :=
  match v with
  | TvSymbol k =>
    if is_append_marker k then
      match cur with
      | None => Ok []
      | Some t => Ok (lst_imports t ++ [Sst (sst_new [] 0 (lst_symbols t))])
      end
    else Ok []
  | TvList l => t_import_list cat l
  | _ => Ok []
  end.

Fixpoint t_lst_fields (cat : option catalog) (cur : option lst) (fs : list (tok * tval))
  (imps : list shared) (syms : list SymTab.text) (found_imp found_sym : bool)
  : res (list shared * list SymTab.text) :=
  match fs with
  | [] => Ok (imps, syms)
  | (k, v) :: r =>
    match tk_text k with
    | None => Err
    | Some fnm =>
      if list_eqb fnm (s "symbols"%string) then
        if found_sym then Err else
        do sy <- t_symbols v; t_lst_fields cat cur r imps sy found_imp true
      else if list_eqb fnm (s "imports"%string) then
        if found_imp then Err else
        do im <- t_imports cat cur v; t_lst_fields cat cur r im syms true found_sym
      else t_lst_fields cat cur r imps syms found_imp found_sym
    end
  end.

(* readLocalSymbolTable on the struct's fields *)
Definition impl_step (cat : option catalog) (cur : option lst) (fs : list (tok * tval)) : res lst :=
  do '(imps, syms) <- t_lst_fields cat cur fs [] [] false false;
  Ok (lst_new imps syms).

(* the table in force along a stream: None = V1SystemSymbolTable *)
Definition impl_hstep (cat : option catalog) (cur : option lst) (h : hitem) : res (option lst) :=
  match h with
  | HIvm => Ok None
  | HTable fs => do t <- impl_step cat cur fs; Ok (Some t)
  end.
Fixpoint impl_history (cat : option catalog) (cur : option lst) (hs : list hitem) : res (option lst) :=
  match hs with
  | [] => Ok cur
  | h :: r => do cur' <- impl_hstep cat cur h; impl_history cat cur' r
  end.

(* ---- abstraction to the specification's slots ---------------------------------------------- *)
Definition ids_upto (m : N) : list N := map N.of_nat (seq 1 (N.to_nat m)).
Definition shared_slots (x : shared) : ctx := map (sh_find_by_id x) (ids_upto (sh_max x)).
Definition slots_of (t : lst) : ctx := flat_map shared_slots (l_imports t) ++ map Some (l_syms t).
Definition slots_of_cur (c : option lst) : ctx :=
  match c with None => LstSpec.system_ctx | Some t => slots_of t end.
Definition spec_table (x : shared) : stable :=
  {| st_name := sh_name x; st_version := sh_ver x; st_symbols := shared_slots x |}.
Definition spec_cat (c : option catalog) : scatalog :=
  match c with None => [] | Some c => map spec_table c end.

(* what the reader answers for a symbol ID under table [c] (NewSymbolTokenBySID) *)
Definition impl_resolve (c : option lst) (sid : N) : res (option SymTab.text) :=
  match c with
  | None => if 9 <? sid then Err else Ok (sst_find_by_id system_sst sid)
  | Some t => if lst_max_id t <? sid then Err else Ok (lst_find_by_id t sid)
  end.

(* ---- the structs on which ion-go follows the rules ------------------------------------------- *)
Definition has_text (k : tok) : bool := match tk_text k with Some _ => true | None => false end.
Definition count_named (fs : list (tok * tval)) (name : string) : nat := List.length (fields_named fs name).
Definition regular_import (v : tval) : bool :=
  match v with
  | TvStruct fs =>
    forallb (fun f => has_text (fst f)) fs
    && (count_named fs "name" <=? 1)%nat && (count_named fs "version" <=? 1)%nat
    && (count_named fs "max_id" <=? 1)%nat
    && forallb (fun f => match snd f with
                         | TvInt z => if fname_is (fst f) "version" then in_i32 z
                                      else if fname_is (fst f) "max_id" then in_i64 z else true
                         | _ => true
                         end) fs
  | _ => true
  end.
Definition regular_field (f : tok * tval) : bool :=
  has_text (fst f) &&
  (if fname_is (fst f) "symbols" then
     match snd f with
     | TvNull ty => negb (ty =? TList)                         (* symbols: null.list *)
     | TvList l => forallb (fun x => match x with TvString _ => true | _ => false end) l   (* D16 *)
     | _ => true
     end
   else if fname_is (fst f) "imports" then
     match snd f with
     | TvSymbol k => Bool.eqb (tk_sid k =? 3)%Z (fname_is k "$ion_symbol_table")            (* D28 *)
     | TvList l => forallb regular_import l
     | _ => true
     end
   else true).
Definition regular_struct (fs : list (tok * tval)) : bool := forallb regular_field fs.
Definition regular_hitem (h : hitem) : bool :=
  match h with HIvm => true | HTable fs => regular_struct fs end.

Definition key_eqb (a b : shared) : bool := text_eqb (sh_name a) (sh_name b) && (sh_ver a =? sh_ver b)%Z.
Fixpoint keys_distinct (c : catalog) : bool :=
  match c with
  | [] => true
  | x :: r => negb (existsb (key_eqb x) r) && keys_distinct r
  end.
