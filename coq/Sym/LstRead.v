(* LstRead.v — executable model of ion/readlocalsymboltable.go WITH a catalog:
   readLocalSymbolTable(r Reader, cat Catalog) written once over the Reader
   interface (the Go function only uses Next, StepIn, StepOut, Type, IsNull,
   FieldName, StringValue, IntValue, Int64Value, SymbolValue, SymbolTable), and
   instantiated for the binary reader model (Bin/BinReader.v) and the text reader
   model (Text/TextReader.v).  Shared tables, the catalog, the import resolution
   and NewLocalSymbolTable are those of Sym/SymTab.v.

   The reader models keep their own table representation ([rlst]); a reader
   with a catalog carries, next to the reader state, the [SymTab.lst] that is
   installed (the object r.SymbolTable() returns, whose Imports()/Symbols() the
   append case uses), and installs [rlst_of_lst] of it in the reader state.

   r_next_raw_cat / x_next_loop_cat intercept exactly the case "top-level
   non-null struct whose first annotation is $ion_symbol_table" and defer to
   the existing reader model for everything else.  No proofs in this file. *)
From Coq Require Import String List NArith ZArith Bool.
From IonV Require Import Base.Wire Sym.SymTab.
From IonV Require Import Bin.Bits Data.Ion Num.Float Bin.BitStream Bin.BinReader
  Text.Tokenizer Text.Skipper Text.TextReader.
Import ListNotations.
Open Scope N_scope.

(* ---- repairs of ion-go that the model can follow ------------------------------------------------
   Each flag is [false] for the code that exists and is set to [true] when the corresponding patch
   (fix_lst_null_symbols.diff, fix_text_ivm.diff, fix_append_by_text.diff) is applied to ion-go. *)
Definition fix_null_list : bool := true.    (* symbols:null.list is an empty list, not a StepIn error *)
Definition fix_text_ivm : bool := true.     (* text: a bare top-level $ion_1_0 is a version marker *)
Definition fix_append_text : bool := true.  (* imports: the symbol $ion_symbol_table is recognised by its text too *)

(* ---- the Reader interface as readLocalSymbolTable uses it -------------------------------- *)
Record reader_api (S : Type) := {
  a_next : S -> S * res bool;          (* Next *)
  a_step_in : S -> S * res bool;       (* StepIn: Ok true = nil, Ok false = an error is returned *)
  a_step_out : S -> S * res bool;
  a_type : S -> N;                     (* Type() *)
  a_is_null : S -> bool;               (* IsNull() *)
  a_err : S -> bool;                   (* r.err != nil: FieldName/StringValue/SymbolValue return it *)
  a_field_text : S -> option SymTab.text;     (* FieldName(): token present and with text *)
  a_string : S -> option SymTab.text;         (* the string held when Type() = String; None = nil *)
  a_int : S -> option Z;               (* the integer held when Type() = Int; None = nil *)
  a_symbol_tok : S -> option tok;      (* the symbol token held when Type() = Symbol; None = nil *)
  a_table : S -> option lst            (* SymbolTable(): None = nil or V1SystemSymbolTable *)
}.
Arguments a_next {S}. Arguments a_step_in {S}. Arguments a_step_out {S}. Arguments a_type {S}.
Arguments a_is_null {S}. Arguments a_err {S}. Arguments a_field_text {S}. Arguments a_string {S}.
Arguments a_int {S}. Arguments a_symbol_tok {S}. Arguments a_table {S}.

Definition keep_bad2 {A B} (r : res A) : res B :=
  match r with Panic => Panic | OutOfFuel => OutOfFuel | _ => Err end.
Definition in_i64 (z : Z) : bool := ((-9223372036854775808 <=? z) && (z <=? 9223372036854775807))%Z.
Definition in_i32 (z : Z) : bool := ((-2147483648 <=? z) && (z <=? 2147483647))%Z.

(* val.LocalSID == 3 *)
Definition is_append_marker (k : tok) : bool :=
  (tk_sid k =? 3)%Z
  || (fix_append_text && match tk_text k with Some t => list_eqb t (s "$ion_symbol_table"%string) | None => false end).

Section Generic.
Variable S : Type.
Variable api : reader_api S.
Variable cat : option catalog.

(* StepIn()/StepOut() != nil is an error of the table *)
Definition enter (st : S) : S * res unit :=
  match a_step_in api st with
  | (st, Ok true) => (st, Ok tt)
  | (st, r) => (st, keep_bad2 r)
  end.
Definition leave (st : S) : S * res unit :=
  match a_step_out api st with
  | (st, Ok true) => (st, Ok tt)
  | (st, r) => (st, keep_bad2 r)
  end.

(* readSymbols *)
Fixpoint g_symbols_loop (fuel : nat) (st : S) (acc : list SymTab.text) : S * res (list SymTab.text) :=
  match fuel with
  | O => (st, OutOfFuel)
  | Datatypes.S f =>
    match a_next api st with
    | (st, Ok true) =>
      if a_type api st =? TString then
        if a_err api st then (st, Err) else
        g_symbols_loop f st (acc ++ [match a_string api st with Some t => t | None => [] end])
      else g_symbols_loop f st (acc ++ [[]])
    | (st, Ok false) => (st, Ok acc)
    | (st, r) => (st, keep_bad2 r)
    end
  end.
Definition g_symbols (fuel : nat) (st : S) : S * res (list SymTab.text) :=
  if negb (a_type api st =? TList) || (fix_null_list && a_is_null api st) then (st, Ok []) else
  match enter st with
  | (st, Ok _) =>
    match g_symbols_loop fuel st [] with
    | (st, Ok syms) => match leave st with (st, Ok _) => (st, Ok syms) | (st, r) => (st, keep_bad2 r) end
    | (st, r) => (st, r)
    end
  | (st, r) => (st, keep_bad2 r)
  end.

(* readImport: name, version, max_id as read (-1 = not seen) *)
Record gdecl := { gd_name : SymTab.text; gd_version : Z; gd_maxid : Z }.
Fixpoint g_import_loop (fuel : nat) (st : S) (d : gdecl) : S * res gdecl :=
  match fuel with
  | O => (st, OutOfFuel)
  | Datatypes.S f =>
    match a_next api st with
    | (st, Ok true) =>
      if a_err api st then (st, Err) else
      match a_field_text api st with
      | None => (st, Err)                                    (* "field name is nil" *)
      | Some fnm =>
        if list_eqb fnm (s "name"%string) then
          (if a_type api st =? TString
           then match a_string api st with
                | Some t => g_import_loop f st {| gd_name := t; gd_version := gd_version d; gd_maxid := gd_maxid d |}
                | None => g_import_loop f st d
                end
           else g_import_loop f st d)
        else if list_eqb fnm (s "version"%string) then
          (if a_type api st =? TInt
           then match a_int api st with
                | None => g_import_loop f st d
                | Some z =>
                  if negb (in_i64 z) then (st, Err)
                  else if negb (in_i32 z) then (st, Err)
                  else g_import_loop f st {| gd_name := gd_name d; gd_version := z; gd_maxid := gd_maxid d |}
                end
           else g_import_loop f st d)
        else if list_eqb fnm (s "max_id"%string) then
          (if a_type api st =? TInt
           then if a_is_null api st then (st, Err) else       (* "max id is null" *)
                match a_int api st with
                | None => (st, Panic)                          (* *i with i nil: IsNull() was false *)
                | Some z =>
                  if negb (in_i64 z) then (st, Err)
                  else g_import_loop f st {| gd_name := gd_name d; gd_version := gd_version d; gd_maxid := z |}
                end
           else g_import_loop f st d)
        else g_import_loop f st d
      end
    | (st, Ok false) => (st, Ok d)
    | (st, r) => (st, keep_bad2 r)
    end
  end.
Definition g_import (fuel : nat) (st : S) : S * res (option shared) :=
  if negb (a_type api st =? TStruct) || a_is_null api st then (st, Ok None) else
  match enter st with
  | (st, Ok _) =>
    match g_import_loop fuel st {| gd_name := []; gd_version := (-1)%Z; gd_maxid := (-1)%Z |} with
    | (st, Ok d) =>
      match leave st with
      | (st, Ok _) => (st, resolve_import cat (gd_name d) (gd_version d) (gd_maxid d))
      | (st, r) => (st, keep_bad2 r)
      end
    | (st, r) => (st, keep_bad2 r)
    end
  | (st, r) => (st, keep_bad2 r)
  end.

Fixpoint g_imports_loop (fuel : nat) (st : S) (acc : list shared) : S * res (list shared) :=
  match fuel with
  | O => (st, OutOfFuel)
  | Datatypes.S f =>
    match a_next api st with
    | (st, Ok true) =>
      match g_import fuel st with
      | (st, Ok (Some i)) => g_imports_loop f st (acc ++ [i])
      | (st, Ok None) => g_imports_loop f st acc
      | (st, r) => (st, keep_bad2 r)
      end
    | (st, Ok false) => (st, Ok acc)
    | (st, r) => (st, keep_bad2 r)
    end
  end.
(* readImports *)
Definition g_imports (fuel : nat) (st : S) : S * res (list shared) :=
  let append_case : option (S * res (list shared)) :=
    if a_type api st =? TSymbol then
      if a_err api st then Some (st, Err) else
      match a_symbol_tok api st with
      | Some k =>
        if is_append_marker k then
          match a_table api st with
          | None => Some (st, Ok [])
          | Some t => Some (st, Ok (lst_imports t ++ [Sst (sst_new [] 0 (lst_symbols t))]))
          end
        else None
      | None => None
      end
    else None in
  match append_case with
  | Some x => x
  | None =>
    if negb (a_type api st =? TList) || a_is_null api st then (st, Ok []) else
    match enter st with
    | (st, Ok _) =>
      match g_imports_loop fuel st [] with
      | (st, Ok imps) => match leave st with (st, Ok _) => (st, Ok imps) | (st, r) => (st, keep_bad2 r) end
      | (st, r) => (st, r)
      end
    | (st, r) => (st, keep_bad2 r)
    end
  end.

Fixpoint g_lst_loop (fuel : nat) (st : S) (imps : list shared) (syms : list SymTab.text)
  (found_imp found_sym : bool) : S * res (list shared * list SymTab.text) :=
  match fuel with
  | O => (st, OutOfFuel)
  | Datatypes.S f =>
    match a_next api st with
    | (st, Ok true) =>
      if a_err api st then (st, Err) else
      match a_field_text api st with
      | None => (st, Err)
      | Some fnm =>
        if list_eqb fnm (s "symbols"%string) then
          if found_sym then (st, Err) else
          match g_symbols fuel st with
          | (st, Ok sy) => g_lst_loop f st imps sy found_imp true
          | (st, r) => (st, keep_bad2 r)
          end
        else if list_eqb fnm (s "imports"%string) then
          if found_imp then (st, Err) else
          match g_imports fuel st with
          | (st, Ok im) => g_lst_loop f st im syms true found_sym
          | (st, r) => (st, keep_bad2 r)
          end
        else g_lst_loop f st imps syms found_imp found_sym
      end
    | (st, Ok false) => (st, Ok (imps, syms))
    | (st, r) => (st, keep_bad2 r)
    end
  end.

(* readLocalSymbolTable *)
Definition read_local_symbol_table_cat (fuel : nat) (st : S) : S * res lst :=
  match enter st with
  | (st, Ok _) =>
    match g_lst_loop fuel st [] [] false false with
    | (st, Ok (imps, syms)) =>
      match leave st with
      | (st, Ok _) => (st, Ok (lst_new imps syms))
      | (st, r) => (st, keep_bad2 r)
      end
    | (st, r) => (st, keep_bad2 r)
    end
  | (st, r) => (st, keep_bad2 r)
  end.
End Generic.

(* ---- the installed table in the reader models' representation ------------------------------ *)
Definition imp_of_shared (x : shared) : imp :=
  match x with
  | Sst t => {| im_syms := s_syms t; im_maxid := s_max t |}
  | Bogus _ _ m => {| im_syms := []; im_maxid := m |}
  end.
Definition rlst_of_lst (t : lst) : rlst :=
  LTab {| lt_imps := map imp_of_shared (l_imports t); lt_locals := l_syms t |}.

(* ---- binary reader with a catalog -------------------------------------------------------------- *)
Definition bstate_cat := (rstate * option lst)%type.
Definition bcat_init (inp : list N) (ioerr : bool) : bstate_cat := (r_init inp ioerr, None).
Definition cur_table_b (st : bstate_cat) : option lst :=
  match r_lst (fst st) with Some (LTab _) => snd st | _ => None end.

Section BinCat.
Variable ts_ok : list N -> res unit.
Variable cat : option catalog.

Definition lift_b (f : rstate -> rstate * res bool) (st : bstate_cat) : bstate_cat * res bool :=
  let '(r, x) := f (fst st) in ((r, snd st), x).
(* Next inside a symbol table: the reader's own Next below the top level *)
Definition bin_api : reader_api bstate_cat :=
  {| a_next := lift_b (r_next_inner ts_ok);
     a_step_in := lift_b r_step_in;
     a_step_out := lift_b r_step_out;
     a_type := fun st => r_type (fst st);
     a_is_null := fun st => r_is_null (fst st);
     a_err := fun st => r_err (fst st);
     a_field_text := fun st => match r_field (fst st) with Some t => tk_text t | None => None end;
     a_string := fun st => match r_value (fst st) with RString t => Some t | _ => None end;
     a_int := fun st => match r_value (fst st) with RInt (I64 z) => Some z | RInt (IBig z) => Some z | _ => None end;
     a_symbol_tok := fun st => match r_value (fst st) with RSymbol t => Some t | _ => None end;
     a_table := cur_table_b |}.

(* binaryReader.next() *)
Definition r_next_raw_cat (fuel : nat) (st : bstate_cat) : bstate_cat * res bool :=
  let r := fst st in
  let base := lift_b (r_next_raw ts_ok (fun r0 => (r0, Panic)) fuel) st in
  match b_next (r_bits r) with
  | (b, Ok _) =>
    if b_code b =? bcStruct then
      let r2 := rs_val (rs_bits r b) TStruct (if b_null b then RNil else RContainer) in
      if (r_ctx_peek r2 =? 0) && BinReader.is_ion_symbol_table (r_annots r2) && negb (r_is_null r2) then
        match read_local_symbol_table_cat bstate_cat bin_api cat fuel (r2, snd st) with
        | ((r3, _), Ok t) => ((rs_lst r3 (Some (rlst_of_lst t)), Some t), Ok false)
        | (st3, x) => (st3, keep_bad2 x)
        end
      else base
    else base
  | _ => base
  end.

Fixpoint r_next_loop_cat (k : nat) (fuel : nat) (st : bstate_cat) : bstate_cat * res bool :=
  match k with
  | O => (st, OutOfFuel)
  | Datatypes.S k' =>
    match r_next_raw_cat fuel st with
    | (st, Ok true) => (st, Ok (negb (r_eof (fst st))))
    | (st, Ok false) => r_next_loop_cat k' fuel st
    | (st, Err) => ((rs_err (fst st) true, snd st), Ok false)
    | (st, Panic) => (st, Panic)
    | (st, OutOfFuel) => (st, OutOfFuel)
    end
  end.
(* Next *)
Definition r_next_cat (st : bstate_cat) : bstate_cat * res bool :=
  let r := fst st in
  if r_eof r || r_err r then (st, Ok false)
  else r_next_loop_cat (input_fuel r) (input_fuel r) (r_clear r, snd st).

Definition r_op_cat (st : bstate_cat) (o : rop) : bstate_cat * option (list N) :=
  match o with
  | ONext => match r_next_cat st with
             | (st', Ok b) => (st', Some [if b then 84 else 70])
             | (st', _) => (st', None)
             end
  | _ => let '(r', t) := r_op ts_ok (fst st) o in ((r', snd st), t)
  end.
Fixpoint r_run_cat (st : bstate_cat) (p : list rop) (acc : list (list N)) : bstate_cat * list (list N) :=
  match p with
  | [] => (st, rev_append acc [])
  | o :: p' => match r_op_cat st o with
               | (st', Some t) => r_run_cat st' p' (t :: acc)
               | (st', None) => (st', rev_append (s "panic"%string :: acc) [])
               end
  end.

(* the plain full traversal of BinReader.traverse *)
Fixpoint traverse_loop_cat (fuel : nat) (st : bstate_cat) (depth : nat) (acc : list (list N))
  : bstate_cat * list (list N) * bool :=
  match fuel with
  | O => (st, s "outoffuel"%string :: acc, true)
  | Datatypes.S f =>
    match r_op_cat st ONext with
    | (st, None) => (st, s "panic"%string :: acc, true)
    | (st, Some t) =>
      let acc := t :: acc in
      if list_eqb t [70] then
        match depth with
        | O => (st, acc, false)
        | Datatypes.S d =>
          match r_op_cat st OStepOut with
          | (st, None) => (st, s "panic"%string :: acc, true)
          | (st, Some t2) =>
            if list_eqb t2 (s "ok"%string) then traverse_loop_cat f st d (t2 :: acc)
            else (st, t2 :: acc, false)
          end
        end
      else
        let '(st, t1) := r_op_cat st OFieldName in
        let '(st, t2) := r_op_cat st OAnnotations in
        let '(st, t3) := r_op_cat st OType in
        let '(st, t4) := r_op_cat st OIsNull in
        let acc := match t1, t2, t3, t4 with
                   | Some a, Some b, Some c, Some d => d :: c :: b :: a :: acc
                   | _, _, _, _ => acc
                   end in
        if r_is_null (fst st) then traverse_loop_cat f st depth acc else
        match accessor_of (r_type (fst st)) with
        | Some o =>
          match r_op_cat st o with
          | (st, None) => (st, s "panic"%string :: acc, true)
          | (st, Some t5) => traverse_loop_cat f st depth (t5 :: acc)
          end
        | None =>
          match r_op_cat st OStepIn with
          | (st, None) => (st, s "panic"%string :: acc, true)
          | (st, Some t5) =>
            if list_eqb t5 (s "ok"%string) then traverse_loop_cat f st (Datatypes.S depth) (t5 :: acc)
            else traverse_loop_cat f st depth (t5 :: acc)
          end
        end
    end
  end.
Definition traverse_cat (inp : list N) (ioerr : bool) : list (list N) :=
  let st := bcat_init inp ioerr in
  let '(st, acc, pan) := traverse_loop_cat (4 * List.length inp + 16) st 0 [] in
  if pan then rev_append acc [] else
  let '(_, tail) := r_run_cat st [OErr; ONext; OErr; ONext; OErr] [] in
  rev_append acc [] ++ tail.
End BinCat.

(* ---- text reader with a catalog ------------------------------------------------------------------- *)
Definition xstate_cat := (xstate * option lst)%type.
Definition xcat_init (inp : list N) (ioerr : bool) : xstate_cat := (x_init inp ioerr, None).
Definition cur_table_x (st : xstate_cat) : option lst :=
  match x_lst (fst st) with LTab _ => snd st | LSys => None end.

Section TextCat.
Variable pd : list N -> res dec.
Variable pt : list N -> res (list N).
Variable cat : option catalog.

Definition lift_x (f : xstate -> xstate * res bool) (st : xstate_cat) : xstate_cat * res bool :=
  let '(x, r) := f (fst st) in ((x, snd st), r).
Definition text_api : reader_api xstate_cat :=
  {| a_next := lift_x (x_next_inner pd pt);
     a_step_in := lift_x x_step_in;
     a_step_out := lift_x x_step_out;
     a_type := fun st => x_type (fst st);
     a_is_null := fun st => x_is_null (fst st);
     a_err := fun st => x_err (fst st);
     a_field_text := fun st => match x_field (fst st) with Some t => tk_text t | None => None end;
     a_string := fun st => match x_value (fst st) with XString t => Some t | _ => None end;
     a_int := fun st => match x_value (fst st) with XInt (I64 z) => Some z | XInt (IBig z) => Some z | _ => None end;
     a_symbol_tok := fun st => match x_value (fst st) with XSymbol t => Some t | _ => None end;
     a_table := cur_table_x |}.

Definition x_dummy : xstate -> xstate * res bool := fun x0 => (x0, Panic).
(* fix_text_ivm: in nextBeforeTypeAnnotations, an unquoted, unannotated top-level symbol `$ion_1_0` that is not
   itself an annotation resets the table and is not a value.  Some x2 = the state after the marker. *)
Definition text_ivm (x : xstate) : option xstate :=
  if fix_text_ivm && (x_state x =? trsBeforeTypeAnnotations) && (t_token (x_tok x) =? tokenSymbol)
     && x_at_top x && match x_annots x with [] => true | _ => false end then
    match TextReader.lift (t_read_value tokenSymbol) x with
    | (x1, Ok v) =>
      if list_eqb v (s "$ion_1_0"%string) then
        match TextReader.lift t_skip_double_colon x1 with
        | (x2, Ok (ok, _)) => if ok then None else Some x2
        | _ => None
        end
      else None
    | _ => None
    end
  else None.
(* textReader.Next's token loop *)
Fixpoint x_next_loop_cat (k : nat) (fuel : nat) (st : xstate_cat) : xstate_cat * res bool :=
  match k with
  | O => (st, OutOfFuel)
  | Datatypes.S k' =>
    match TextReader.lift t_next (fst st) with
    | (x, Err) => ((x_explode x, snd st), Ok false)
    | (x, Panic) => ((x, snd st), Panic)
    | (x, OutOfFuel) => ((x, snd st), OutOfFuel)
    | (x, Ok _) =>
      match text_ivm x with
      | Some x2 => x_next_loop_cat k' fuel (xs_lst x2 LSys, None)
      | None =>
      if (x_state x =? trsBeforeTypeAnnotations) && (t_token (x_tok x) =? tokenOpenBrace)
         && x_at_top x && TextReader.is_ion_symbol_table (x_annots x) then
        (* case tokenOpenBrace of nextBeforeTypeAnnotations, symbol-table branch *)
        let x1 := xs_val (xs_state x trsBeforeContainer) TStruct XContainer in
        match read_local_symbol_table_cat xstate_cat text_api cat fuel (x1, snd st) with
        | ((x2, _), Ok t) => x_next_loop_cat k' fuel (xs_lst x2 (rlst_of_lst t), Some t)
        | ((x2, c2), Err) => ((x_explode x2, c2), Ok false)
        | (st2, Panic) => (st2, Panic)
        | (st2, OutOfFuel) => (st2, OutOfFuel)
        end
      else
        let step : R bool :=
          if x_state x =? trsAfterValue then next_after_value
          else if x_state x =? trsBeforeFieldName then next_before_field_name
          else if x_state x =? trsBeforeTypeAnnotations then next_before_type_annotations pd pt x_dummy fuel
          else rpanic in
        match step x with
        | (x, Err) => ((x_explode x, snd st), Ok false)
        | (x, Panic) => ((x, snd st), Panic)
        | (x, OutOfFuel) => ((x, snd st), OutOfFuel)
        | (x, Ok true) => ((x, snd st), Ok (negb (x_eof x)))
        | (x, Ok false) => x_next_loop_cat k' fuel (x, snd st)
        end
      end
    end
  end.
Definition x_next_cat (st : xstate_cat) : xstate_cat * res bool :=
  let x := fst st in
  if (x_state x =? trsDone) || x_eof x then (st, Ok false) else
  match x_finish_value x with
  | (x, Err) => ((x_explode x, snd st), Ok false)
  | (x, Panic) => ((x, snd st), Panic)
  | (x, OutOfFuel) => ((x, snd st), OutOfFuel)
  | (x, Ok _) => x_next_loop_cat (x_fuel (fst st)) (x_fuel (fst st)) (x_clear x, snd st)
  end.

Definition x_op_cat (st : xstate_cat) (o : rop) : xstate_cat * option (list N) :=
  match o with
  | ONext => match x_next_cat st with
             | (st', Ok b) => (st', Some [if b then 84 else 70])
             | (st', _) => (st', None)
             end
  | _ => let '(x', t) := x_op pd pt (fst st) o in ((x', snd st), t)
  end.
Fixpoint x_run_cat (st : xstate_cat) (p : list rop) (acc : list (list N)) : xstate_cat * list (list N) :=
  match p with
  | [] => (st, rev_append acc [])
  | o :: p' => match x_op_cat st o with
               | (st', Some t) => x_run_cat st' p' (t :: acc)
               | (st', None) => (st', rev_append (s "panic"%string :: acc) [])
               end
  end.
Fixpoint x_traverse_loop_cat (fuel : nat) (st : xstate_cat) (depth : nat) (acc : list (list N))
  : xstate_cat * list (list N) * bool :=
  match fuel with
  | O => (st, s "outoffuel"%string :: acc, true)
  | Datatypes.S f =>
    match x_op_cat st ONext with
    | (st, None) => (st, s "panic"%string :: acc, true)
    | (st, Some t) =>
      let acc := t :: acc in
      if list_eqb t [70] then
        match depth with
        | O => (st, acc, false)
        | Datatypes.S d =>
          match x_op_cat st OStepOut with
          | (st, None) => (st, s "panic"%string :: acc, true)
          | (st, Some t2) =>
            if list_eqb t2 (s "ok"%string) then x_traverse_loop_cat f st d (t2 :: acc)
            else (st, t2 :: acc, false)
          end
        end
      else
        let '(st, t1) := x_op_cat st OFieldName in
        let '(st, t2) := x_op_cat st OAnnotations in
        let '(st, t3) := x_op_cat st OType in
        let '(st, t4) := x_op_cat st OIsNull in
        let acc := match t1, t2, t3, t4 with
                   | Some a, Some b, Some c, Some d => d :: c :: b :: a :: acc
                   | _, _, _, _ => acc
                   end in
        if x_is_null (fst st) then x_traverse_loop_cat f st depth acc else
        match accessor_of (x_type (fst st)) with
        | Some o =>
          match x_op_cat st o with
          | (st, None) => (st, s "panic"%string :: acc, true)
          | (st, Some t5) => x_traverse_loop_cat f st depth (t5 :: acc)
          end
        | None =>
          match x_op_cat st OStepIn with
          | (st, None) => (st, s "panic"%string :: acc, true)
          | (st, Some t5) =>
            if list_eqb t5 (s "ok"%string) then x_traverse_loop_cat f st (Datatypes.S depth) (t5 :: acc)
            else x_traverse_loop_cat f st depth (t5 :: acc)
          end
        end
    end
  end.
Definition x_traverse_cat (inp : list N) (ioerr : bool) : list (list N) :=
  let st := xcat_init inp ioerr in
  let '(st, acc, pan) := x_traverse_loop_cat (4 * List.length inp + 17) st 0 [] in
  if pan then rev_append acc [] else
  let '(_, tail) := x_run_cat st [OErr; ONext; OErr; ONext; OErr] [] in
  rev_append acc [] ++ tail.
End TextCat.
