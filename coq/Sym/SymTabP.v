(* SymTabP.v — lemmas about Sym/SymTab.v: the symbol-ID space of a local
   symbol table is the concatenation of its imports' max_id slots followed by
   the locals; FindByName answers the lowest id carrying a non-empty text;
   the builder never renumbers. *)
From Coq Require Import List NArith ZArith Bool Lia ZifyBool ZifyN ZifyNat.
From IonV Require Import Base.Wire Sym.SymTab.
Import ListNotations.
Open Scope N_scope.
Ltac Zify.zify_post_hook ::= Z.div_mod_to_equations.

(* ---- basics ------------------------------------------------------------------ *)
Lemma list_eqb_eq (a b : list N) : list_eqb a b = true <-> a = b.
Proof.
  revert b. induction a as [|x a IH]; intros [|y b]; cbn [list_eqb]; split; intros H;
    try reflexivity; try discriminate.
  - apply andb_true_iff in H. destruct H as [H1 H2]. apply N.eqb_eq in H1. apply IH in H2. congruence.
  - inversion H; subst. apply andb_true_iff. split. apply N.eqb_refl. apply IH. reflexivity.
Qed.

Lemma text_eqb_eq a b : text_eqb a b = true <-> a = b.
Proof. apply list_eqb_eq. Qed.
Lemma text_eqb_refl a : text_eqb a a = true.
Proof. apply text_eqb_eq. reflexivity. Qed.
Lemma text_eqb_neq a b : text_eqb a b = false <-> a <> b.
Proof.
  split; intros H.
  - intros E. apply text_eqb_eq in E. congruence.
  - destruct (text_eqb a b) eqn:E; [apply text_eqb_eq in E; contradiction | reflexivity].
Qed.

Lemma is_empty_false x : x <> [] -> is_empty x = false.
Proof. destruct x; [congruence | reflexivity]. Qed.

Lemma wrap64_small v : v < two64 -> wrap64 v = v.
Proof. intros H. unfold wrap64. apply N.mod_small. exact H. Qed.
Lemma wrap64_le v : wrap64 v <= v.
Proof. unfold wrap64, two64. apply N.mod_le. discriminate. Qed.
Lemma sub64_le a b : b <= a -> sub64 a b = a - b.
Proof. intros H. unfold sub64. destruct (b <=? a) eqn:E; [reflexivity | lia]. Qed.

Lemma sub64_sub1 a m : m < a -> sub64 (sub64 a m) 1 = a - m - 1.
Proof. intros H. rewrite (sub64_le a m) by lia. apply sub64_le. lia. Qed.

Lemma lenN_app {A} (l1 l2 : list A) : lenN (l1 ++ l2) = lenN l1 + lenN l2.
Proof. unfold lenN. rewrite app_length. lia. Qed.
Lemma lenN_cons {A} (x : A) l : lenN (x :: l) = 1 + lenN l.
Proof. unfold lenN. cbn [length]. lia. Qed.
Lemma lenN_nil {A} : lenN (@nil A) = 0.
Proof. reflexivity. Qed.

(* ---- nth_N / take_N ------------------------------------------------------------ *)
Lemma nth_N_nil {A} i : nth_N (@nil A) i = None.
Proof. reflexivity. Qed.
Lemma nth_N_cons0 {A} (x : A) l : nth_N (x :: l) 0 = Some x.
Proof. reflexivity. Qed.
Lemma nth_N_consS {A} (x : A) l i : 0 < i -> nth_N (x :: l) i = nth_N l (i - 1).
Proof. intros H. cbn [nth_N]. destruct (i =? 0) eqn:E; [lia | reflexivity]. Qed.

Lemma nth_N_none {A} (l : list A) i : lenN l <= i -> nth_N l i = None.
Proof.
  revert i. induction l as [|x l IH]; intros i H; [reflexivity|].
  rewrite lenN_cons in H. rewrite nth_N_consS by lia. apply IH. lia.
Qed.
Lemma nth_N_some_lt {A} (l : list A) i x : nth_N l i = Some x -> i < lenN l.
Proof.
  intros H. destruct (N.ltb_spec i (lenN l)) as [L|L]; [exact L|].
  rewrite nth_N_none in H by exact L. discriminate.
Qed.
Lemma nth_N_lt_some {A} (l : list A) i : i < lenN l -> exists x, nth_N l i = Some x.
Proof.
  revert i. induction l as [|x l IH]; intros i H.
  - rewrite lenN_nil in H. lia.
  - rewrite lenN_cons in H. destruct (N.eqb_spec i 0) as [->|NE].
    + exists x. reflexivity.
    + rewrite nth_N_consS by lia. apply IH. lia.
Qed.
Lemma nth_N_app_l {A} (l1 l2 : list A) i : i < lenN l1 -> nth_N (l1 ++ l2) i = nth_N l1 i.
Proof.
  revert i. induction l1 as [|x l1 IH]; intros i H.
  - rewrite lenN_nil in H. lia.
  - rewrite lenN_cons in H. cbn [app]. destruct (N.eqb_spec i 0) as [->|NE]; [reflexivity|].
    rewrite !nth_N_consS by lia. apply IH. lia.
Qed.
Lemma nth_N_app_r {A} (l1 l2 : list A) i : lenN l1 <= i -> nth_N (l1 ++ l2) i = nth_N l2 (i - lenN l1).
Proof.
  revert i. induction l1 as [|x l1 IH]; intros i H.
  - rewrite lenN_nil. cbn [app]. f_equal. lia.
  - rewrite lenN_cons in *. cbn [app]. rewrite nth_N_consS by lia. rewrite IH by lia. f_equal. lia.
Qed.
Lemma nth_N_In {A} (l : list A) i x : nth_N l i = Some x -> In x l.
Proof.
  revert i. induction l as [|y l IH]; intros i H; [discriminate|].
  cbn [nth_N] in H. destruct (i =? 0); [inversion H; left; reflexivity | right; eapply IH; exact H].
Qed.

Lemma take_N_len {A} (l : list A) n : lenN (take_N l n) = N.min n (lenN l).
Proof.
  revert n. induction l as [|x l IH]; intros n; cbn [take_N].
  - rewrite lenN_nil. lia.
  - destruct (N.eqb_spec n 0) as [->|NE].
    + rewrite lenN_nil. lia.
    + rewrite !lenN_cons, IH. lia.
Qed.
Lemma take_N_all {A} (l : list A) n : lenN l <= n -> take_N l n = l.
Proof.
  revert n. induction l as [|x l IH]; intros n H; [reflexivity|].
  rewrite lenN_cons in H. cbn [take_N]. destruct (N.eqb_spec n 0) as [->|NE]; [lia|].
  f_equal. apply IH. lia.
Qed.
Lemma nth_N_take {A} (l : list A) n i : nth_N (take_N l n) i = if i <? n then nth_N l i else None.
Proof.
  revert n i. induction l as [|x l IH]; intros n i; cbn [take_N].
  - rewrite !nth_N_nil. destruct (i <? n); reflexivity.
  - destruct (N.eqb_spec n 0) as [->|NE].
    + rewrite nth_N_nil. destruct (N.ltb_spec i 0); [lia | reflexivity].
    + destruct (N.eqb_spec i 0) as [->|NI].
      * rewrite !nth_N_cons0. destruct (N.ltb_spec 0 n); [reflexivity | lia].
      * rewrite !nth_N_consS by lia. rewrite IH.
        destruct (N.ltb_spec (i - 1) (n - 1)), (N.ltb_spec i n); try reflexivity; lia.
Qed.
Lemma take_N_take {A} (l : list A) n m : take_N (take_N l n) m = take_N l (N.min n m).
Proof.
  revert n m. induction l as [|x l IH]; intros n m; cbn [take_N]; [reflexivity|].
  destruct (N.eqb_spec n 0) as [->|NE].
  - cbn [take_N]. replace (N.min 0 m) with 0 by lia. reflexivity.
  - cbn [take_N]. destruct (N.eqb_spec m 0) as [->|ME].
    + replace (N.min n 0) with 0 by lia. reflexivity.
    + destruct (N.eqb_spec (N.min n m) 0); [lia|]. f_equal. rewrite IH. f_equal. lia.
Qed.

(* ---- index_of: first occurrence -------------------------------------------------- *)
Lemma index_from_shift x l p : index_from x l p = option_map (fun i => p + i) (index_of x l).
Proof.
  unfold index_of. revert p. induction l as [|y l IH]; intros p; cbn [index_from]; [reflexivity|].
  destruct (text_eqb y x).
  - cbn [option_map]. f_equal. lia.
  - rewrite (IH (p + 1)), (IH (0 + 1)). destruct (index_from x l 0); cbn [option_map]; [f_equal; lia | reflexivity].
Qed.

Lemma index_of_cons x y l :
  index_of x (y :: l) = if text_eqb y x then Some 0 else option_map (fun i => 1 + i) (index_of x l).
Proof.
  unfold index_of at 1. cbn [index_from]. destruct (text_eqb y x); [reflexivity|].
  rewrite index_from_shift. reflexivity.
Qed.

Lemma index_of_some x l i : index_of x l = Some i ->
  nth_N l i = Some x /\ forall j, j < i -> nth_N l j <> Some x.
Proof.
  revert i. induction l as [|y l IH]; intros i H; [discriminate|].
  rewrite index_of_cons in H. destruct (text_eqb y x) eqn:E.
  - inversion H; subst. apply text_eqb_eq in E. subst. split; [reflexivity | intros; lia].
  - destruct (index_of x l) as [i0|] eqn:E0; [|discriminate]. assert (Hi : i = 1 + i0) by (unfold option_map in H; congruence). subst i.
    destruct (IH i0 eq_refl) as [A B]. split.
    + rewrite nth_N_consS by lia. replace (1 + i0 - 1) with i0 by lia. exact A.
    + intros j Hj. destruct (N.eqb_spec j 0) as [->|NJ].
      * rewrite nth_N_cons0. apply text_eqb_neq in E. congruence.
      * rewrite nth_N_consS by lia. apply B. lia.
Qed.
Lemma index_of_none x l : index_of x l = None -> forall j, nth_N l j <> Some x.
Proof.
  induction l as [|y l IH]; intros H j; [rewrite nth_N_nil; discriminate|].
  rewrite index_of_cons in H. destruct (text_eqb y x) eqn:E; [discriminate|].
  destruct (index_of x l) eqn:E0; [discriminate|].
  destruct (N.eqb_spec j 0) as [->|NJ].
  - rewrite nth_N_cons0. apply text_eqb_neq in E. congruence.
  - rewrite nth_N_consS by lia. apply IH. reflexivity.
Qed.
Lemma index_of_none_iff x l : index_of x l = None <-> ~ In x l.
Proof.
  induction l as [|y l IH].
  - split; [intros _ []| reflexivity].
  - rewrite index_of_cons. destruct (text_eqb y x) eqn:E.
    + apply text_eqb_eq in E. subst. split; [discriminate | intros H; exfalso; apply H; left; reflexivity].
    + apply text_eqb_neq in E. destruct (index_of x l) eqn:E0; cbn [option_map].
      * split; [discriminate|]. intros H. exfalso. destruct IH as [_ IH2].
        assert (HH : ~ In x l) by (intros HI; apply H; right; exact HI). apply IH2 in HH. discriminate.
      * split; [|reflexivity]. intros _ [HI|HI]; [congruence|]. destruct IH as [IH1 _]. apply IH1; auto.
Qed.
Lemma index_of_app_some x l1 l2 i : index_of x l1 = Some i -> index_of x (l1 ++ l2) = Some i.
Proof.
  revert i. induction l1 as [|y l1 IH]; intros i H; [discriminate|].
  cbn [app]. rewrite index_of_cons in *. destruct (text_eqb y x); [exact H|].
  destruct (index_of x l1) eqn:E0; [|discriminate]. rewrite (IH _ eq_refl). exact H.
Qed.
Lemma index_of_app_none x l1 l2 : index_of x l1 = None ->
  index_of x (l1 ++ l2) = option_map (fun i => lenN l1 + i) (index_of x l2).
Proof.
  induction l1 as [|y l1 IH]; intros H.
  - cbn [app]. rewrite lenN_nil. destruct (index_of x l2); reflexivity.
  - cbn [app]. rewrite index_of_cons in *. destruct (text_eqb y x); [discriminate|].
    destruct (index_of x l1) eqn:E0; [discriminate|]. rewrite (IH eq_refl), lenN_cons.
    destruct (index_of x l2); cbn [option_map]; [f_equal; lia | reflexivity].
Qed.

(* ---- shared tables ---------------------------------------------------------------- *)
(* the invariant every constructor of package ion maintains: len(symbols) <= maxID *)
Definition sst_wf (s : sst) : Prop := lenN (s_syms s) <= s_max s.
Definition sh_wf (x : shared) : Prop := match x with Sst s => sst_wf s | Bogus _ _ _ => True end.

Lemma sst_wf_new name ver syms : sst_wf (sst_new name ver syms).
Proof. unfold sst_wf, sst_new. cbn [s_syms s_max]. lia. Qed.

Lemma sst_adjust_spec s m : sst_wf s ->
  s_max (sst_adjust s m) = m /\ s_syms (sst_adjust s m) = take_N (s_syms s) m /\
  s_name (sst_adjust s m) = s_name s /\ s_ver (sst_adjust s m) = s_ver s.
Proof.
  unfold sst_wf, sst_adjust. intros W.
  destruct (N.eqb_spec m (s_max s)) as [->|NE].
  - repeat split. symmetry. apply take_N_all. exact W.
  - destruct (N.ltb_spec (lenN (s_syms s)) m) as [L|L]; cbn [s_max s_syms s_name s_ver]; repeat split.
    symmetry. apply take_N_all. lia.
Qed.

Lemma sst_wf_adjust s m : sst_wf s -> sst_wf (sst_adjust s m).
Proof.
  intros W. destruct (sst_adjust_spec s m W) as (A & B & _). unfold sst_wf. rewrite A, B, take_N_len. lia.
Qed.
Lemma sh_wf_adjust x m : sh_wf x -> sh_wf (sh_adjust x m).
Proof. destruct x; cbn [sh_wf sh_adjust]; [apply sst_wf_adjust | trivial]. Qed.
Lemma sh_adjust_max x m : sh_wf x -> sh_max (sh_adjust x m) = m.
Proof.
  destruct x; cbn [sh_wf sh_adjust sh_max]; [|reflexivity]. intros W. apply (sst_adjust_spec s m W).
Qed.
Lemma sh_adjust_name_ver x m : sh_wf x ->
  sh_name (sh_adjust x m) = sh_name x /\ sh_ver (sh_adjust x m) = sh_ver x.
Proof.
  destruct x; cbn [sh_wf sh_adjust sh_name sh_ver]; [|split; reflexivity]. intros W.
  destruct (sst_adjust_spec s m W) as (_ & _ & A & B). split; assumption.
Qed.

Lemma sst_find_by_id_nth s id :
  sst_find_by_id s id = if id =? 0 then None else nth_N (s_syms s) (id - 1).
Proof.
  unfold sst_find_by_id. destruct (N.eqb_spec id 0) as [->|NE]; [reflexivity|]. cbn [orb].
  destruct (N.ltb_spec (lenN (s_syms s)) id) as [L|L]; [|reflexivity].
  symmetry. apply nth_N_none. lia.
Qed.

(* Adjust = truncate to max_id, pad with undefined text *)
Lemma sst_adjust_find_by_id s m id : sst_wf s ->
  sst_find_by_id (sst_adjust s m) id = if id <=? m then sst_find_by_id s id else None.
Proof.
  intros W. destruct (sst_adjust_spec s m W) as (_ & B & _).
  rewrite !sst_find_by_id_nth, B, nth_N_take.
  destruct (N.eqb_spec id 0) as [->|NE]; [destruct (0 <=? m); reflexivity|].
  destruct (N.ltb_spec (id - 1) m), (N.leb_spec id m); try reflexivity; lia.
Qed.
Lemma sh_adjust_find_by_id x m id : sh_wf x ->
  sh_find_by_id (sh_adjust x m) id = if id <=? m then sh_find_by_id x id else None.
Proof.
  destruct x; cbn [sh_wf sh_adjust sh_find_by_id]; [apply sst_adjust_find_by_id|].
  intros _. destruct (id <=? m); reflexivity.
Qed.

Lemma sh_find_by_id_in_slot x id t : sh_wf x -> sh_find_by_id x id = Some t -> 1 <= id <= sh_max x.
Proof.
  destruct x; cbn [sh_wf sh_find_by_id sh_max]; [|discriminate]. unfold sst_wf. intros W H.
  rewrite sst_find_by_id_nth in H. destruct (N.eqb_spec id 0) as [->|NE]; [discriminate|].
  apply nth_N_some_lt in H. lia.
Qed.
Lemma sh_find_by_id_0 x : sh_find_by_id x 0 = None.
Proof. destruct x; reflexivity. Qed.

Lemma sst_find_by_name_empty s : sst_find_by_name s [] = None.
Proof. reflexivity. Qed.
Lemma sh_find_by_name_empty x : sh_find_by_name x [] = None.
Proof. destruct x; reflexivity. Qed.

Lemma sst_find_by_name_some s x id : sst_wf s -> s_max s < two64 -> sst_find_by_name s x = Some id ->
  x <> [] /\ 1 <= id <= lenN (s_syms s) /\ sst_find_by_id s id = Some x /\
  forall id', id' < id -> sst_find_by_id s id' <> Some x.
Proof.
  unfold sst_wf, sst_find_by_name, build_index_lookup. intros W M H.
  destruct x as [|c x]; [discriminate|]. cbn [is_empty] in H.
  destruct (index_of (c :: x) (s_syms s)) as [i|] eqn:E; [|discriminate].
  apply index_of_some in E. destruct E as [A B].
  pose proof (nth_N_some_lt _ _ _ A) as L.
  assert (Hid : id = 1 + i) by (unfold option_map in H; rewrite wrap64_small in H by lia; congruence).
  subst id. split; [discriminate|]. split; [lia|]. split.
  - rewrite sst_find_by_id_nth. destruct (N.eqb_spec (1 + i) 0); [lia|].
    replace (1 + i - 1) with i by lia. exact A.
  - intros id' Hlt. rewrite sst_find_by_id_nth. destruct (N.eqb_spec id' 0); [discriminate|]. apply B. lia.
Qed.
Lemma sst_find_by_name_none s x : x <> [] -> sst_find_by_name s x = None ->
  forall id, sst_find_by_id s id <> Some x.
Proof.
  unfold sst_find_by_name, build_index_lookup. intros NE H id. rewrite (is_empty_false _ NE) in H.
  destruct (index_of x (s_syms s)) eqn:E; [discriminate|].
  rewrite sst_find_by_id_nth. destruct (id =? 0); [discriminate|]. apply index_of_none. exact E.
Qed.

Lemma sh_find_by_name_some x t id : sh_wf x -> sh_max x < two64 -> sh_find_by_name x t = Some id ->
  t <> [] /\ 1 <= id <= sh_max x /\ sh_find_by_id x id = Some t /\
  forall id', id' < id -> sh_find_by_id x id' <> Some t.
Proof.
  destruct x; cbn [sh_wf sh_max sh_find_by_name sh_find_by_id]; [|discriminate].
  intros W M H. destruct (sst_find_by_name_some s t id W M H) as (A & B & C & D).
  unfold sst_wf in W. repeat split; try assumption; lia.
Qed.
Lemma sh_find_by_name_none x t : t <> [] -> sh_find_by_name x t = None ->
  forall id, sh_find_by_id x id <> Some t.
Proof.
  destruct x; cbn [sh_find_by_name sh_find_by_id]; [apply sst_find_by_name_none | discriminate].
Qed.

(* Find agrees with FindByName *)
Lemma sh_find_spec x t : sh_wf x -> sh_max x < two64 ->
  sh_find x t = match sh_find_by_name x t with Some _ => Some t | None => None end.
Proof.
  destruct x; cbn [sh_wf sh_max sh_find sh_find_by_name]; [|reflexivity]. intros W M.
  unfold sst_find. destruct (sst_find_by_name s t) as [id|] eqn:E; [|reflexivity].
  apply (sst_find_by_name_some s t id W M E).
Qed.

(* ---- the ID space of a local table ------------------------------------------------- *)
Fixpoint sum_max (imps : list shared) : N :=
  match imps with [] => 0 | i :: r => sh_max i + sum_max r end.
(* offset of import k = sum of the max_ids declared before it *)
Definition offset_of (imps : list shared) (k : nat) : N := sum_max (firstn k imps).
Fixpoint prefix_sums (imps : list shared) (acc : N) : list N :=
  match imps with [] => [] | i :: r => acc :: prefix_sums r (acc + sh_max i) end.

Lemma offset_of_0 imps : offset_of imps 0 = 0.
Proof. reflexivity. Qed.
Lemma offset_of_S a imps k : offset_of (a :: imps) (S k) = sh_max a + offset_of imps k.
Proof. reflexivity. Qed.

Lemma offsets_from_nowrap imps acc : acc + sum_max imps < two64 ->
  offsets_from imps acc = (prefix_sums imps acc, acc + sum_max imps).
Proof.
  revert acc. induction imps as [|a imps IH]; intros acc H; cbn [offsets_from prefix_sums sum_max] in *.
  - f_equal. lia.
  - rewrite wrap64_small by lia. rewrite IH by lia. f_equal. lia.
Qed.

Lemma offset_of_bound imps k imp : nth_error imps k = Some imp ->
  offset_of imps k + sh_max imp <= sum_max imps.
Proof.
  revert k. induction imps as [|a imps IH]; intros [|k] H; cbn [nth_error] in H; try discriminate.
  - inversion H; subst. rewrite offset_of_0. cbn [sum_max]. lia.
  - rewrite offset_of_S. cbn [sum_max]. specialize (IH k H). lia.
Qed.
Lemma offset_of_mono imps k k' imp imp' : (k < k')%nat ->
  nth_error imps k = Some imp -> nth_error imps k' = Some imp' ->
  offset_of imps k + sh_max imp <= offset_of imps k'.
Proof.
  revert k k'. induction imps as [|a imps IH]; intros [|k] [|k'] L H H'; cbn [nth_error] in *;
    try discriminate; try lia.
  - inversion H; subst. rewrite offset_of_0, offset_of_S. lia.
  - rewrite !offset_of_S. assert (L' : (k < k')%nat) by lia. specialize (IH k k' L' H H'). lia.
Qed.

(* every id of the import range lies in exactly one import's slot row *)
Lemma slot_decompose imps id : 1 <= id <= sum_max imps ->
  exists k imp j, nth_error imps k = Some imp /\ 1 <= j <= sh_max imp /\ id = offset_of imps k + j.
Proof.
  revert id. induction imps as [|a imps IH]; intros id H; cbn [sum_max] in H; [lia|].
  destruct (N.leb_spec id (sh_max a)) as [L|L].
  - exists 0%nat, a, id. repeat split; try lia.
  - destruct (IH (id - sh_max a)) as (k & imp & j & A & B & C); [lia|].
    exists (S k), imp, j. rewrite offset_of_S. repeat split; try assumption; lia.
Qed.

Lemma fbi_loop_prev ri acc prev off id : off < id <= acc ->
  fbi_loop ri (prefix_sums ri acc) prev off id = sh_find_by_id prev (id - off).
Proof.
  intros H. destruct ri as [|a ri]; cbn [prefix_sums fbi_loop].
  - rewrite sub64_le by lia. reflexivity.
  - destruct (N.leb_spec id acc); [|lia]. rewrite sub64_le by lia. reflexivity.
Qed.

Lemma fbi_loop_slot ri : forall acc prev off id k imp j, off <= acc ->
  nth_error ri k = Some imp -> 1 <= j <= sh_max imp -> id = acc + offset_of ri k + j ->
  fbi_loop ri (prefix_sums ri acc) prev off id = sh_find_by_id imp j.
Proof.
  induction ri as [|a ri IH]; intros acc prev off id [|k] imp j Hoff Hn Hj Hid; cbn [nth_error] in Hn;
    try discriminate; cbn [prefix_sums fbi_loop].
  - inversion Hn; subst a. rewrite offset_of_0 in Hid.
    destruct (N.leb_spec id acc); [lia|]. rewrite fbi_loop_prev by lia. f_equal. lia.
  - rewrite offset_of_S in Hid. destruct (N.leb_spec id acc); [lia|].
    apply (IH (acc + sh_max a) a acc id k imp j); try assumption; lia.
Qed.

(* the state invariant established by processImports, plus absence of uint64 overflow *)
Definition lst_wf (t : lst) : Prop :=
  l_imports t <> [] /\
  offsets_from (l_imports t) 0 = (l_offsets t, l_maximp t) /\
  Forall sh_wf (l_imports t) /\
  sum_max (l_imports t) + lenN (l_syms t) < two64.

Lemma lst_wf_offsets t : lst_wf t ->
  l_offsets t = prefix_sums (l_imports t) 0 /\ l_maximp t = sum_max (l_imports t).
Proof.
  intros (_ & O & _ & B). rewrite offsets_from_nowrap in O by lia. inversion O. split; [reflexivity | lia].
Qed.

Lemma lst_wf_imp t k imp : lst_wf t -> nth_error (l_imports t) k = Some imp ->
  sh_wf imp /\ sh_max imp < two64.
Proof.
  intros (_ & _ & F & B) H. split.
  - rewrite Forall_forall in F. apply F. eapply nth_error_In. exact H.
  - pose proof (offset_of_bound _ _ _ H). lia.
Qed.

Lemma lst_max_id_spec t : lst_wf t -> lst_max_id t = sum_max (l_imports t) + lenN (l_syms t).
Proof.
  intros W. destruct (lst_wf_offsets t W) as [_ M]. destruct W as (_ & _ & _ & B).
  unfold lst_max_id. rewrite M. apply wrap64_small. exact B.
Qed.

Lemma find_by_id_import t k imp j : lst_wf t ->
  nth_error (l_imports t) k = Some imp -> 1 <= j <= sh_max imp ->
  lst_find_by_id t (offset_of (l_imports t) k + j) = sh_find_by_id imp j.
Proof.
  intros W Hn Hj. destruct (lst_wf_offsets t W) as [O M].
  pose proof (offset_of_bound _ _ _ Hn) as Hb.
  unfold lst_find_by_id. destruct (N.eqb_spec (offset_of (l_imports t) k + j) 0); [lia|].
  rewrite M. destruct (N.leb_spec (offset_of (l_imports t) k + j) (sum_max (l_imports t))); [|lia].
  unfold find_by_id_in_imports. rewrite O.
  destruct (l_imports t) as [|i0 ri] eqn:EI; [destruct k; discriminate|].
  cbn [prefix_sums]. destruct k as [|k]; cbn [nth_error] in Hn.
  - inversion Hn; subst i0. rewrite offset_of_0. rewrite fbi_loop_prev by lia. f_equal. lia.
  - rewrite offset_of_S. apply (fbi_loop_slot ri (0 + sh_max i0) i0 0 _ k imp j); try assumption; lia.
Qed.

Lemma find_by_id_local t j : lst_wf t -> j < lenN (l_syms t) ->
  lst_find_by_id t (sum_max (l_imports t) + 1 + j) = nth_N (l_syms t) j.
Proof.
  intros W Hj. destruct (lst_wf_offsets t W) as [_ M]. unfold lst_find_by_id. rewrite M.
  destruct (N.eqb_spec (sum_max (l_imports t) + 1 + j) 0); [lia|].
  destruct (N.leb_spec (sum_max (l_imports t) + 1 + j) (sum_max (l_imports t))); [lia|].
  rewrite sub64_sub1 by lia.
  replace (sum_max (l_imports t) + 1 + j - sum_max (l_imports t) - 1) with j by lia.
  destruct (N.ltb_spec j (lenN (l_syms t))); [reflexivity | lia].
Qed.

Lemma find_by_id_above t id : lst_wf t -> lst_max_id t < id -> lst_find_by_id t id = None.
Proof.
  intros W H. rewrite (lst_max_id_spec t W) in H. destruct (lst_wf_offsets t W) as [_ M].
  unfold lst_find_by_id. rewrite M. destruct (N.eqb_spec id 0); [reflexivity|].
  destruct (N.leb_spec id (sum_max (l_imports t))); [lia|]. rewrite sub64_sub1 by lia.
  destruct (N.ltb_spec (id - sum_max (l_imports t) - 1) (lenN (l_syms t))); [lia | reflexivity].
Qed.
Lemma find_by_id_0 t : lst_find_by_id t 0 = None.
Proof. reflexivity. Qed.

(* ---- FindByName -------------------------------------------------------------------------- *)
Lemma fii_some imps : forall acc x id, Forall sh_wf imps -> acc + sum_max imps < two64 ->
  find_in_imports imps (prefix_sums imps acc) x = Some id ->
  exists k imp j, nth_error imps k = Some imp /\ sh_find_by_name imp x = Some j /\
    id = acc + offset_of imps k + j /\
    forall k' imp', (k' < k)%nat -> nth_error imps k' = Some imp' -> sh_find_by_name imp' x = None.
Proof.
  induction imps as [|a imps IH]; intros acc x id F B H; cbn [prefix_sums find_in_imports sum_max] in *;
    [discriminate|].
  inversion F as [|? ? Wa F']; subst.
  destruct (sh_find_by_name a x) as [j|] eqn:E.
  - destruct (sh_find_by_name_some a x j Wa ltac:(lia) E) as (_ & Hj & _).
    rewrite wrap64_small in H by lia. inversion H; subst id.
    exists 0%nat, a, j. rewrite offset_of_0. repeat split; try assumption; try lia.
  - destruct (IH (acc + sh_max a) x id F' ltac:(lia) H) as (k & imp & j & A & Bj & C & D).
    exists (S k), imp, j. rewrite offset_of_S. repeat split; try assumption; try lia.
    intros [|k'] imp' L Hn; cbn [nth_error] in Hn.
    + inversion Hn; subst. exact E.
    + apply (D k' imp'); [lia | exact Hn].
Qed.
Lemma fii_none imps : forall acc x, find_in_imports imps (prefix_sums imps acc) x = None ->
  forall imp, In imp imps -> sh_find_by_name imp x = None.
Proof.
  induction imps as [|a imps IH]; intros acc x H imp HI; cbn [prefix_sums find_in_imports] in *; [destruct HI|].
  destruct (sh_find_by_name a x) eqn:E; [discriminate|].
  destruct HI as [->|HI]; [exact E|]. eapply IH; eassumption.
Qed.

Lemma local_lookup_some t x id : lst_wf t -> local_lookup t x = Some id ->
  exists i, index_of x (l_syms t) = Some i /\ id = sum_max (l_imports t) + 1 + i /\ i < lenN (l_syms t).
Proof.
  intros W H. destruct (lst_wf_offsets t W) as [_ M]. destruct W as (_ & _ & _ & B).
  unfold local_lookup in H. destruct (is_empty x && negb (l_idx_empty t)); [discriminate|].
  destruct (index_of x (l_syms t)) as [i|] eqn:E; [|discriminate]. exists i.
  destruct (index_of_some _ _ _ E) as [A _]. apply nth_N_some_lt in A.
  unfold option_map in H. rewrite M in H. rewrite (wrap64_small (sum_max (l_imports t) + 1)) in H by lia.
  rewrite wrap64_small in H by lia. repeat split; try assumption. congruence.
Qed.

(* FindByName answers the lowest id carrying the text, and FindByID inverts it *)
Lemma find_lowest t x id : lst_wf t -> x <> [] -> lst_find_by_name t x = Some id ->
  1 <= id <= lst_max_id t /\ lst_find_by_id t id = Some x /\
  forall id', id' < id -> lst_find_by_id t id' <> Some x.
Proof.
  intros W NE H. pose proof W as (NI & _ & F & B). destruct (lst_wf_offsets t W) as [O M].
  rewrite (lst_max_id_spec t W). unfold lst_find_by_name in H. rewrite O in H.
  destruct (find_in_imports (l_imports t) (prefix_sums (l_imports t) 0) x) as [id0|] eqn:E.
  - inversion H; subst id0. clear H.
    destruct (fii_some _ 0 x id F ltac:(lia) E) as (k & imp & j & Hn & Hj & Hid & Hlow).
    destruct (lst_wf_imp t k imp W Hn) as [Wi Mi].
    destruct (sh_find_by_name_some imp x j Wi Mi Hj) as (_ & Rj & Fj & Lj).
    pose proof (offset_of_bound _ _ _ Hn) as Hb.
    replace id with (offset_of (l_imports t) k + j) by lia. split; [lia|]. split.
    + rewrite (find_by_id_import t k imp j W Hn Rj). exact Fj.
    + intros id' Hlt HF. destruct (N.eqb_spec id' 0) as [->|N0]; [discriminate|].
      destruct (slot_decompose (l_imports t) id' ltac:(lia)) as (k' & imp' & j' & Hn' & Rj' & Hid').
      rewrite Hid' in HF. rewrite (find_by_id_import t k' imp' j' W Hn' Rj') in HF.
      destruct (Nat.lt_trichotomy k' k) as [L|[L|L]].
      * apply (sh_find_by_name_none imp' x NE (Hlow k' imp' L Hn') j'). exact HF.
      * subst k'. rewrite Hn in Hn'. inversion Hn'; subst imp'. apply (Lj j'); [lia | exact HF].
      * pose proof (offset_of_mono _ _ _ _ _ L Hn Hn'). lia.
  - destruct (local_lookup_some t x id W H) as (i & Ei & Hid & Li).
    destruct (index_of_some _ _ _ Ei) as [A Bi].
    subst id. split; [lia|]. split.
    + rewrite find_by_id_local by assumption. exact A.
    + intros id' Hlt HF. destruct (N.eqb_spec id' 0) as [->|N0]; [discriminate|].
      destruct (N.leb_spec id' (sum_max (l_imports t))) as [L|L].
      * destruct (slot_decompose (l_imports t) id' ltac:(lia)) as (k' & imp' & j' & Hn' & Rj' & Hid').
        rewrite Hid' in HF. rewrite (find_by_id_import t k' imp' j' W Hn' Rj') in HF.
        apply (sh_find_by_name_none imp' x NE (fii_none _ 0 x E imp' (nth_error_In _ _ Hn')) j'). exact HF.
      * replace id' with (sum_max (l_imports t) + 1 + (id' - sum_max (l_imports t) - 1)) in HF by lia.
        rewrite find_by_id_local in HF by (try assumption; lia). apply (Bi (id' - sum_max (l_imports t) - 1)); [lia | exact HF].
Qed.

(* and it misses no text: not found means no id carries it *)
Lemma find_complete t x : lst_wf t -> x <> [] -> lst_find_by_name t x = None ->
  forall id, lst_find_by_id t id <> Some x.
Proof.
  intros W NE H id HF. destruct (lst_wf_offsets t W) as [O M].
  unfold lst_find_by_name in H. rewrite O in H.
  destruct (find_in_imports (l_imports t) (prefix_sums (l_imports t) 0) x) as [id0|] eqn:E; [discriminate|].
  unfold local_lookup in H. rewrite (is_empty_false _ NE) in H. cbn [andb] in H.
  destruct (index_of x (l_syms t)) eqn:Ei; [discriminate|].
  destruct (N.eqb_spec id 0) as [->|N0]; [discriminate|].
  destruct (N.leb_spec id (sum_max (l_imports t))) as [L|L].
  - destruct (slot_decompose (l_imports t) id ltac:(lia)) as (k' & imp' & j' & Hn' & Rj' & Hid').
    rewrite Hid' in HF. rewrite (find_by_id_import t k' imp' j' W Hn' Rj') in HF.
    apply (sh_find_by_name_none imp' x NE (fii_none _ 0 x E imp' (nth_error_In _ _ Hn')) j'). exact HF.
  - destruct (N.ltb_spec (lst_max_id t) id) as [A|A].
    + rewrite find_by_id_above in HF by assumption. discriminate.
    + rewrite (lst_max_id_spec t W) in A.
      replace id with (sum_max (l_imports t) + 1 + (id - sum_max (l_imports t) - 1)) in HF by lia.
      rewrite find_by_id_local in HF by (try assumption; lia). apply (index_of_none _ _ Ei _ HF).
Qed.

(* ---- the constructors establish the invariant ------------------------------------------ *)
Definition user_ion (imports : list shared) : bool :=
  match imports with i0 :: _ => text_eqb (sh_name i0) ion_name | [] => false end.

Lemma effective_imports_system imports : user_ion imports = false ->
  effective_imports imports = system_table :: imports.
Proof. destruct imports as [|i0 r]; cbn [user_ion effective_imports]; [reflexivity|]. intros ->. reflexivity. Qed.
Lemma effective_imports_user imports : user_ion imports = true -> effective_imports imports = imports.
Proof. destruct imports as [|i0 r]; cbn [user_ion effective_imports]; [discriminate|]. intros ->. reflexivity. Qed.

Lemma system_table_wf : sh_wf system_table.
Proof. cbn [sh_wf system_table]. unfold sst_wf. vm_compute. discriminate. Qed.

Lemma effective_imports_wf imports : Forall sh_wf imports ->
  effective_imports imports <> [] /\ Forall sh_wf (effective_imports imports).
Proof.
  intros F. destruct (user_ion imports) eqn:E.
  - rewrite effective_imports_user by exact E. split; [|exact F]. destruct imports; [discriminate E | discriminate].
  - rewrite effective_imports_system by exact E. split; [discriminate|]. constructor; [apply system_table_wf | exact F].
Qed.

Lemma process_imports_spec imports : sum_max (effective_imports imports) < two64 ->
  process_imports imports =
  (effective_imports imports, prefix_sums (effective_imports imports) 0, sum_max (effective_imports imports)).
Proof.
  intros B. unfold process_imports. rewrite offsets_from_nowrap by lia. f_equal. 
Qed.

Lemma lst_wf_new imports locals : Forall sh_wf imports ->
  sum_max (effective_imports imports) + lenN locals < two64 -> lst_wf (lst_new imports locals).
Proof.
  intros F B. unfold lst_new. rewrite process_imports_spec by lia.
  destruct (effective_imports_wf imports F) as [NE FE].
  unfold lst_wf. cbn [l_imports l_offsets l_maximp l_syms]. repeat split; try assumption.
  rewrite offsets_from_nowrap by lia. reflexivity.
Qed.
Lemma lst_new_fields imports locals : sum_max (effective_imports imports) < two64 ->
  l_imports (lst_new imports locals) = effective_imports imports /\ l_syms (lst_new imports locals) = locals.
Proof. intros B. unfold lst_new. rewrite process_imports_spec by lia. split; reflexivity. Qed.

Lemma lst_wf_builder_new imports : Forall sh_wf imports ->
  sum_max (effective_imports imports) < two64 -> lst_wf (builder_new imports).
Proof.
  intros F B. unfold builder_new. rewrite process_imports_spec by lia.
  destruct (effective_imports_wf imports F) as [NE FE].
  unfold lst_wf. cbn [l_imports l_offsets l_maximp l_syms]. change (lenN (@nil text)) with 0. repeat split; try assumption; try lia.
  rewrite offsets_from_nowrap by lia. reflexivity.
Qed.
Lemma builder_new_fields imports : sum_max (effective_imports imports) < two64 ->
  l_imports (builder_new imports) = effective_imports imports /\ l_syms (builder_new imports) = [] /\
  l_idx_empty (builder_new imports) = true.
Proof. intros B. unfold builder_new. rewrite process_imports_spec by lia. repeat split; reflexivity. Qed.

(* ---- system symbols ------------------------------------------------------------------------ *)
Lemma system_symbols_at t rest i : lst_wf t -> l_imports t = system_table :: rest -> 1 <= i <= 9 ->
  lst_find_by_id t i = nth_N system_symbols (i - 1).
Proof.
  intros W E Hi.
  assert (Hn : nth_error (l_imports t) 0 = Some system_table) by (rewrite E; reflexivity).
  pose proof (find_by_id_import t 0 system_table i W Hn) as H.
  rewrite offset_of_0 in H. replace (0 + i) with i in H by lia. rewrite H.
  - cbn [system_table sh_find_by_id]. rewrite sst_find_by_id_nth.
    destruct (N.eqb_spec i 0); [lia | reflexivity].
  - change (sh_max system_table) with 9. lia.
Qed.

(* ---- "" ---------------------------------------------------------------------------------------- *)
Lemma find_in_imports_empty imps : forall offs, find_in_imports imps offs [] = None.
Proof.
  induction imps as [|a imps IH]; intros [|o offs]; cbn [find_in_imports]; try reflexivity.
  rewrite sh_find_by_name_empty. apply IH.
Qed.
Lemma find_by_name_empty t : lst_find_by_name t [] = local_lookup t [].
Proof. unfold lst_find_by_name. rewrite find_in_imports_empty. reflexivity. Qed.

Lemma lst_new_idx imports locals : l_idx_empty (lst_new imports locals) = false.
Proof. unfold lst_new. destruct (process_imports imports) as [[a b] c]. reflexivity. Qed.

(* buildIndex skips "": a table made by NewLocalSymbolTable never finds "" *)
Lemma find_empty_lst imports locals : lst_find_by_name (lst_new imports locals) [] = None.
Proof. rewrite find_by_name_empty. unfold local_lookup. rewrite lst_new_idx. reflexivity. Qed.

(* the builder indexes "": it is found iff it was added as a local (imports never count) *)
Lemma find_empty_builder b : l_idx_empty b = true ->
  (lst_find_by_name b [] = None <-> ~ In [] (l_syms b)).
Proof.
  intros E. rewrite find_by_name_empty. unfold local_lookup. rewrite E. cbn [negb andb is_empty].
  rewrite <- index_of_none_iff. destruct (index_of [] (l_syms b)); cbn [option_map]; split; congruence.
Qed.

(* ---- builder ------------------------------------------------------------------------------------- *)
Definition add_state (b : lst) (x : text) : lst := fst (fst (builder_add b x)).
Definition adds_state (b : lst) (xs : list text) : lst := fst (builder_adds b xs).

Lemma builder_add_existing b x id : lst_find_by_name b x = Some id -> builder_add b x = (b, id, false).
Proof. intros H. unfold builder_add. rewrite H. reflexivity. Qed.

Lemma builder_add_new b x : lst_find_by_name b x = None ->
  builder_add b x =
  (mkLst (l_imports b) (l_offsets b) (l_maximp b) (l_syms b ++ [x]) (l_idx_empty b),
   wrap64 (l_maximp b + (lenN (l_syms b) + 1)), true).
Proof. intros H. unfold builder_add. rewrite H, lenN_app. reflexivity. Qed.

(* t' has the same imports and its locals extend those of t *)
Definition extends (t t' : lst) : Prop :=
  l_imports t' = l_imports t /\ l_offsets t' = l_offsets t /\ l_maximp t' = l_maximp t /\
  l_idx_empty t' = l_idx_empty t /\ exists ext, l_syms t' = l_syms t ++ ext.

Lemma extends_refl t : extends t t.
Proof. repeat split. exists []. rewrite app_nil_r. reflexivity. Qed.
Lemma extends_trans a b c : extends a b -> extends b c -> extends a c.
Proof.
  intros (A1 & A2 & A3 & A4 & e1 & A5) (B1 & B2 & B3 & B4 & e2 & B5).
  repeat split; try congruence. exists (e1 ++ e2). rewrite B5, A5, app_assoc. reflexivity.
Qed.
Lemma extends_add b x : extends b (add_state b x).
Proof.
  unfold add_state, builder_add. destruct (lst_find_by_name b x); cbn [fst].
  - apply extends_refl.
  - repeat split. exists [x]. reflexivity.
Qed.
Lemma adds_state_cons b x xs : adds_state b (x :: xs) = adds_state (add_state b x) xs.
Proof.
  unfold adds_state, add_state. cbn [builder_adds]. destruct (builder_add b x) as [[b1 id] ad]. cbn [fst].
  destruct (builder_adds b1 xs). reflexivity.
Qed.
Lemma extends_adds xs : forall b, extends b (adds_state b xs).
Proof.
  induction xs as [|x xs IH]; intros b.
  - apply extends_refl.
  - rewrite adds_state_cons. eapply extends_trans; [apply extends_add | apply IH].
Qed.

(* an id is valid when it is at most maxImportID + len(symbols), computed without wrap *)
Definition valid_id (t : lst) (id : N) : Prop := id <= l_maximp t + lenN (l_syms t).
Lemma valid_of_max_id t id : id <= lst_max_id t -> valid_id t id.
Proof. unfold valid_id, lst_max_id. pose proof (wrap64_le (l_maximp t + lenN (l_syms t))). lia. Qed.

Lemma find_by_id_extends t t' id : extends t t' -> valid_id t id ->
  lst_find_by_id t' id = lst_find_by_id t id.
Proof.
  intros (E1 & E2 & E3 & _ & ext & E5) V. unfold valid_id in V. unfold lst_find_by_id, find_by_id_in_imports.
  rewrite E1, E2, E3, E5. destruct (id =? 0); [reflexivity|].
  destruct (N.leb_spec id (l_maximp t)) as [L|L]; [reflexivity|].
  rewrite sub64_sub1 by lia. rewrite lenN_app.
  destruct (N.ltb_spec (id - l_maximp t - 1) (lenN (l_syms t))); [|lia].
  destruct (N.ltb_spec (id - l_maximp t - 1) (lenN (l_syms t) + lenN ext)); [|lia].
  apply nth_N_app_l. assumption.
Qed.

Lemma find_by_name_extends t t' x id : extends t t' ->
  lst_find_by_name t x = Some id -> lst_find_by_name t' x = Some id.
Proof.
  intros (E1 & E2 & E3 & E4 & ext & E5). unfold lst_find_by_name, local_lookup.
  rewrite E1, E2, E3, E4, E5.
  destruct (find_in_imports (l_imports t) (l_offsets t) x); [trivial|].
  destruct (is_empty x && negb (l_idx_empty t)); [trivial|].
  destruct (index_of x (l_syms t)) as [i|] eqn:E; [|discriminate].
  rewrite (index_of_app_some _ _ ext _ E). trivial.
Qed.

(* no id that was valid at some point of a history is ever renumbered *)
Lemma builder_stable b xs id : id <= lst_max_id b ->
  lst_find_by_id (adds_state b xs) id = lst_find_by_id b id.
Proof. intros H. apply find_by_id_extends; [apply extends_adds | apply valid_of_max_id; exact H]. Qed.
Lemma builder_stable_names b xs x id : lst_find_by_name b x = Some id ->
  lst_find_by_name (adds_state b xs) x = Some id.
Proof. apply find_by_name_extends. apply extends_adds. Qed.

(* the history splits at any point *)
Lemma builder_adds_app b xs ys :
  builder_adds b (xs ++ ys) =
  (adds_state (adds_state b xs) ys, snd (builder_adds b xs) ++ snd (builder_adds (adds_state b xs) ys)).
Proof.
  revert b. induction xs as [|x xs IH]; intros b.
  - cbn [app builder_adds snd]. unfold adds_state. cbn [builder_adds fst].
    destruct (builder_adds b ys). reflexivity.
  - cbn [app]. rewrite (adds_state_cons b x xs). cbn [builder_adds].
    unfold add_state. destruct (builder_add b x) as [[b1 id] ad]. cbn [fst].
    rewrite IH. destruct (builder_adds b1 xs) as [b2 o2]. cbn [snd app]. reflexivity.
Qed.

(* texts that were appended, in call order *)
Fixpoint added_texts (xs : list text) (outs : list (N * bool)) : list text :=
  match xs, outs with
  | x :: xr, (_, ad) :: outr => if ad then x :: added_texts xr outr else added_texts xr outr
  | _, _ => []
  end.
Lemma builder_adds_syms xs : forall b,
  l_syms (adds_state b xs) = l_syms b ++ added_texts xs (snd (builder_adds b xs)).
Proof.
  induction xs as [|x xs IH]; intros b.
  - cbn. rewrite app_nil_r. reflexivity.
  - rewrite adds_state_cons, IH. cbn [builder_adds]. unfold add_state, builder_add.
    destruct (lst_find_by_name b x) as [id|]; cbn [fst].
    + destruct (builder_adds b xs). cbn [snd added_texts]. reflexivity.
    + destruct (builder_adds _ xs). cbn [snd added_texts l_syms]. rewrite <- app_assoc. reflexivity.
Qed.
Lemma adds_len xs : forall b, lenN (l_syms (adds_state b xs)) <= lenN (l_syms b) + lenN xs.
Proof.
  induction xs as [|x xs IH]; intros b.
  - cbn. lia.
  - rewrite adds_state_cons. specialize (IH (add_state b x)). rewrite lenN_cons.
    unfold add_state, builder_add in *. destruct (lst_find_by_name b x); cbn [fst l_syms] in *; [lia|].
    rewrite lenN_app in IH. change (lenN [x]) with 1 in IH. lia.
Qed.

Lemma lst_wf_extends t t' : lst_wf t -> extends t t' ->
  sum_max (l_imports t) + lenN (l_syms t') < two64 -> lst_wf t'.
Proof.
  intros (A & B & C & D) (E1 & E2 & E3 & _ & _) H. unfold lst_wf. rewrite E1, E2, E3. repeat split; assumption.
Qed.

(* every state of a builder history satisfies the invariant *)
Lemma lst_wf_adds imports xs : Forall sh_wf imports ->
  sum_max (effective_imports imports) + lenN xs < two64 ->
  lst_wf (adds_state (builder_new imports) xs).
Proof.
  intros F B. pose proof (lst_wf_builder_new imports F ltac:(lia)) as W.
  destruct (builder_new_fields imports ltac:(lia)) as (I & S0 & _).
  apply (lst_wf_extends _ _ W (extends_adds xs _)). rewrite I.
  pose proof (adds_len xs (builder_new imports)) as L. rewrite S0, lenN_nil in L. lia.
Qed.
Lemma adds_fields imports xs : sum_max (effective_imports imports) < two64 ->
  l_imports (adds_state (builder_new imports) xs) = effective_imports imports /\
  l_idx_empty (adds_state (builder_new imports) xs) = true.
Proof.
  intros B. destruct (builder_new_fields imports B) as (I & _ & E).
  destruct (extends_adds xs (builder_new imports)) as (E1 & _ & _ & E4 & _). split; congruence.
Qed.

(* a new text goes to MaxID+1 and is found there afterwards *)
Lemma builder_add_new_spec b x : lst_wf b -> lst_find_by_name b x = None ->
  sum_max (l_imports b) + lenN (l_syms b) + 1 < two64 ->
  snd (fst (builder_add b x)) = lst_max_id b + 1 /\ snd (builder_add b x) = true /\
  l_syms (add_state b x) = l_syms b ++ [x] /\
  lst_max_id (add_state b x) = lst_max_id b + 1 /\
  lst_find_by_id (add_state b x) (lst_max_id b + 1) = Some x.
Proof.
  intros W H B. pose proof (extends_add b x) as EX.
  assert (W' : lst_wf (add_state b x)).
  { apply (lst_wf_extends _ _ W EX). unfold add_state. rewrite builder_add_new by exact H.
    cbn [fst l_syms]. rewrite lenN_app. change (lenN [x]) with 1. lia. }
  destruct (lst_wf_offsets b W) as [_ M].
  assert (S' : l_syms (add_state b x) = l_syms b ++ [x])
    by (unfold add_state; rewrite builder_add_new by exact H; reflexivity).
  assert (I' : l_imports (add_state b x) = l_imports b) by apply EX.
  rewrite (lst_max_id_spec b W). rewrite builder_add_new by exact H. cbn [fst snd].
  rewrite M, wrap64_small by lia. repeat split; try lia; try assumption.
  - rewrite (lst_max_id_spec _ W'), I', S', lenN_app. change (lenN [x]) with 1. lia.
  - replace (sum_max (l_imports b) + lenN (l_syms b) + 1)
      with (sum_max (l_imports (add_state b x)) + 1 + lenN (l_syms b)) by (rewrite I'; lia).
    rewrite find_by_id_local; [| exact W' | rewrite S', lenN_app; change (lenN [x]) with 1; lia].
    rewrite S', nth_N_app_r by lia. replace (lenN (l_syms b) - lenN (l_syms b)) with 0 by lia. reflexivity.
Qed.

(* ---- tokens ---------------------------------------------------------------------------------------- *)
Lemma token_reject t sid : (sid < 0 \/ Z.of_N (lst_max_id t) < sid)%Z -> new_token_by_sid t sid = Err.
Proof.
  intros H. unfold new_token_by_sid.
  destruct (Z.ltb_spec sid 0) as [L|L]; [reflexivity|]. cbn [orb].
  destruct (N.ltb_spec (lst_max_id t) (Z.to_N sid)) as [L2|L2]; [reflexivity | lia].
Qed.
Lemma token_by_sid_ok t sid : (0 <= sid <= Z.of_N (lst_max_id t))%Z ->
  new_token_by_sid t sid = Ok (mkTok (lst_find_by_id t (Z.to_N sid)) sid).
Proof.
  intros H. unfold new_token_by_sid.
  destruct (Z.ltb_spec sid 0) as [L|L]; [lia|]. cbn [orb].
  destruct (N.ltb_spec (lst_max_id t) (Z.to_N sid)) as [L2|L2]; [lia|].
  destruct (lst_find_by_id t (Z.to_N sid)); reflexivity.
Qed.
Lemma to_i64_small v : v < two63 -> to_i64 v = Z.of_N v.
Proof. intros H. unfold to_i64. destruct (N.ltb_spec v two63); [reflexivity | lia]. Qed.
Lemma new_token_spec t x :
  new_token t x = Ok (mkTok (Some x) (match lst_find_by_name t x with
                                      | Some id => to_i64 id | None => sid_unknown end)).
Proof. unfold new_token. destruct (lst_find_by_name t x); reflexivity. Qed.

(* ---- symbolIdentifier / newSymbolToken ------------------------------------------------------------- *)
(* the text of a symbol identifier: '$' followed by one or more decimal digits *)
Definition sid_form (x : text) (ds : list N) : Prop :=
  x = 36 :: ds /\ ds <> [] /\ Forall (fun c => 48 <= c <= 57) ds.

Lemma forallb_sid_digit ds : forallb sid_digit ds = true <-> Forall (fun c => 48 <= c <= 57) ds.
Proof.
  rewrite forallb_forall, Forall_forall. unfold sid_digit.
  split; intros H c Hc; specialize (H c Hc); lia.
Qed.
Lemma digits_val_spec ds : forall acc, forallb sid_digit ds = true ->
  digits_val ds acc = Some (fold_left (fun a c => a * 10 + (c - 48)) ds acc).
Proof.
  induction ds as [|c r IH]; intros acc H; [reflexivity|].
  cbn [forallb] in H. apply andb_true_iff in H. destruct H as [Hc Hr].
  cbn [digits_val fold_left]. rewrite Hc. apply IH, Hr.
Qed.
Lemma parse_int64_digits_spec ds : ds <> [] -> forallb sid_digit ds = true ->
  parse_int64_digits ds = if sid_digits_value ds <? two63 then Some (Z.of_N (sid_digits_value ds)) else None.
Proof.
  intros Hn Hd. unfold parse_int64_digits. destruct ds as [|c r]; [contradiction|].
  rewrite (digits_val_spec (c :: r) 0 Hd). reflexivity.
Qed.

Lemma symbol_identifier_in_range x ds : sid_form x ds -> sid_digits_value ds < two63 ->
  symbol_identifier x = (Z.of_N (sid_digits_value ds), true).
Proof.
  intros (-> & Hn & Hd) Hr. apply forallb_sid_digit in Hd.
  unfold symbol_identifier. destruct ds as [|c r]; [contradiction|].
  rewrite Hd, (parse_int64_digits_spec (c :: r) Hn Hd).
  destruct (N.ltb_spec (sid_digits_value (c :: r)) two63); [reflexivity | lia].
Qed.
Lemma symbol_identifier_beyond x ds : sid_form x ds -> two63 <= sid_digits_value ds ->
  symbol_identifier x = (sid_unknown, false).
Proof.
  intros (-> & Hn & Hd) Hr. apply forallb_sid_digit in Hd.
  unfold symbol_identifier. destruct ds as [|c r]; [contradiction|].
  rewrite Hd, (parse_int64_digits_spec (c :: r) Hn Hd).
  destruct (N.ltb_spec (sid_digits_value (c :: r)) two63); [lia | reflexivity].
Qed.
Lemma symbol_identifier_other x : (forall ds, ~ sid_form x ds) -> symbol_identifier x = (sid_unknown, false).
Proof.
  intros H. unfold symbol_identifier.
  destruct x as [|c r]; [reflexivity|].
  destruct (N.eq_dec c 36) as [->|Hc].
  - destruct r as [|d r]; [reflexivity|].
    destruct (forallb sid_digit (d :: r)) eqn:E; [|reflexivity].
    exfalso. apply (H (d :: r)). split; [reflexivity|]. split; [discriminate|]. apply forallb_sid_digit, E.
  - destruct c as [|p]; [reflexivity|].
    do 6 (destruct p as [p|p|]; try reflexivity). congruence.
Qed.

(* exactly '$' digits with a value that fits an int64: no sign, no other character *)
Lemma symbol_identifier_spec x n :
  symbol_identifier x = (n, true) <->
  exists ds, sid_form x ds /\ n = Z.of_N (sid_digits_value ds) /\ (n <= 9223372036854775807)%Z.
Proof.
  split.
  - intros H. unfold symbol_identifier in H.
    destruct x as [|c r]; [discriminate|].
    destruct c as [|p]; [discriminate|].
    do 6 (destruct p as [p|p|]; try discriminate).
    destruct r as [|d r]; [discriminate|].
    destruct (forallb sid_digit (d :: r)) eqn:E; [|discriminate].
    rewrite (parse_int64_digits_spec (d :: r)) in H by (assumption || discriminate).
    destruct (N.ltb_spec (sid_digits_value (d :: r)) two63) as [L|L]; [|discriminate].
    inversion H; subst n. exists (d :: r). split.
    + split; [reflexivity|]. split; [discriminate|]. apply forallb_sid_digit, E.
    + split; [reflexivity|]. unfold two63 in L. lia.
  - intros (ds & Hf & -> & Hr). apply symbol_identifier_in_range; [exact Hf|]. unfold two63. lia.
Qed.
Lemma symbol_identifier_not_ok x n : symbol_identifier x = (n, false) -> n = sid_unknown.
Proof.
  unfold symbol_identifier. intros H.
  repeat match type of H with
         | (match ?e with _ => _ end) = _ => destruct e; try (inversion H; reflexivity)
         | (if ?e then _ else _) = _ => destruct e; try (inversion H; reflexivity)
         end.
Qed.

(* newSymbolToken: '$' digits is a symbol ID — looked up when it fits an int64, an
   error when it does not; anything else is text *)
Lemma new_symbol_token_auto_sid t x ds : sid_form x ds -> sid_digits_value ds < two63 ->
  new_symbol_token_auto t x = new_token_by_sid t (Z.of_N (sid_digits_value ds)).
Proof.
  intros Hf Hr. unfold new_symbol_token_auto. rewrite (symbol_identifier_in_range x ds Hf Hr). reflexivity.
Qed.
Lemma new_symbol_token_auto_out_of_range t x ds : sid_form x ds -> two63 <= sid_digits_value ds ->
  new_symbol_token_auto t x = Err.
Proof.
  intros Hf Hr. unfold new_symbol_token_auto. rewrite (symbol_identifier_beyond x ds Hf Hr).
  unfold symbol_id_out_of_range. rewrite (symbol_identifier_beyond x ds Hf Hr).
  destruct Hf as (-> & Hn & Hd). destruct ds as [|c r]; [contradiction|].
  apply forallb_sid_digit in Hd. rewrite Hd. reflexivity.
Qed.
Lemma new_symbol_token_auto_text t x : (forall ds, ~ sid_form x ds) ->
  new_symbol_token_auto t x = new_token t x.
Proof.
  intros H. unfold new_symbol_token_auto. rewrite (symbol_identifier_other x H).
  replace (symbol_id_out_of_range x) with false; [reflexivity|].
  unfold symbol_id_out_of_range.
  destruct x as [|c r]; [reflexivity|].
  destruct c as [|p]; [reflexivity|].
  do 6 (destruct p as [p|p|]; try reflexivity).
  destruct r as [|d r]; [reflexivity|].
  destruct (forallb sid_digit (d :: r)) eqn:E; [|reflexivity].
  exfalso. apply (H (d :: r)). split; [reflexivity|]. split; [discriminate|]. apply forallb_sid_digit, E.
Qed.

(* ---- what fails without the hypotheses: concrete witnesses ------------------------------------------- *)
Definition big63 : N := 9223372036854775807.   (* 2^63-1, the largest max_id an Ion int64 can declare *)

(* MaxID = sum of the slots, for every import list: false once the sum passes 2^64 *)
Definition max_id_any_size : Prop := forall imports locals, Forall sh_wf imports ->
  lst_max_id (lst_new imports locals) = sum_max (effective_imports imports) + lenN locals.
Lemma max_id_overflow_refuted : ~ max_id_any_size.
Proof.
  intros H.
  specialize (H [Bogus [97] 1 big63; Bogus [98] 1 big63] [[120]]
                ltac:(repeat constructor)).
  vm_compute in H. discriminate.
Qed.

(* FindByName/FindByID are inverse, for every import list: false once the sum passes 2^64 *)
Definition find_lowest_any_size : Prop := forall imports locals x id, Forall sh_wf imports -> x <> [] ->
  lst_find_by_name (lst_new imports locals) x = Some id ->
  lst_find_by_id (lst_new imports locals) id = Some x.
Definition overflow_imports : list shared :=
  [Sst (sst_adjust (sst_new [97] 1 [[112]]) big63); Sst (sst_adjust (sst_new [98] 1 [[113]]) big63)].
Lemma overflow_imports_wf : Forall sh_wf overflow_imports.
Proof. repeat constructor; apply sst_wf_adjust, sst_wf_new. Qed.
Lemma find_lowest_overflow_refuted : ~ find_lowest_any_size.
Proof.
  intros H.
  specialize (H overflow_imports [] [113] 9223372036854775817 overflow_imports_wf ltac:(discriminate)).
  vm_compute in H. specialize (H eq_refl). discriminate.
Qed.

(* the lowest-id rule for every text including "": false for the builder ... *)
Definition builder_find_lowest_any_text : Prop := forall imports xs x id id', Forall sh_wf imports ->
  sum_max (effective_imports imports) + lenN xs < two64 ->
  lst_find_by_name (adds_state (builder_new imports) xs) x = Some id -> id' < id ->
  lst_find_by_id (adds_state (builder_new imports) xs) id' <> Some x.
Lemma find_lowest_empty_refuted : ~ builder_find_lowest_any_text.
Proof.
  intros H.
  specialize (H [Sst (sst_new [120] 1 [[]])] [[]] [] 11 10
                ltac:(repeat constructor; apply sst_wf_new)).
  vm_compute in H. specialize (H eq_refl eq_refl eq_refl). apply H. reflexivity.
Qed.
(* ... and "not found means no id carries the text" is false for "" in NewLocalSymbolTable *)
Definition find_complete_any_text : Prop := forall imports locals x id, Forall sh_wf imports ->
  sum_max (effective_imports imports) + lenN locals < two64 ->
  lst_find_by_name (lst_new imports locals) x = None ->
  lst_find_by_id (lst_new imports locals) id <> Some x.
Lemma find_complete_empty_refuted : ~ find_complete_any_text.
Proof.
  intros H. specialize (H [] [[]] [] 10 (Forall_nil _)).
  vm_compute in H. specialize (H eq_refl eq_refl). apply H. reflexivity.
Qed.
