(* SymTab.v — executable model of ion/symboltable.go (sst, bogusSST, lst,
   symbolTableBuilder, V1SystemSymbolTable), of the token constructors of
   ion/symboltoken.go (symbolIdentifier, NewSymbolTokenBySID, NewSymbolToken,
   newSymbolToken), of ion/catalog.go (NewCatalog / add / FindExact /
   FindLatest) and of the import resolution at the end of readImport
   (ion/readlocalsymboltable.go).

   Conventions.  Symbol text is a byte list ([list N]); Go's [uint64] is an [N]
   with the wrap [mod 2^64] written wherever the Go expression can wrap
   (processImports' running sum, offsets[i]+id, maxImportID+len, offset+i of
   buildIndex); Go's [int]/[int64] is a [Z].

   The Go maps called [index] are not stored: every [index] in the Go code is
   the result of buildIndex (first occurrence wins, "" is skipped) over the
   very symbol list it is stored next to, or — for the builder — of the
   assignments [b.index[symbol] = id] executed exactly when [symbol] is
   appended (so every local, including "", is a key and maps to its first and
   only position).  A map lookup is therefore modelled as a first-occurrence
   search in the symbol list; the flag [l_idx_empty] of an lst records whether
   "" is a key (builder and tables made by Build) or not
   (NewLocalSymbolTable).  This reading is validated against the real code by
   correspondence K6.  No proofs in this file. *)
From Coq Require Import List NArith ZArith Bool String.
From IonV Require Import Base.Wire.
Import ListNotations.
Open Scope N_scope.

Definition text := list N.

Definition two64 : N := 18446744073709551616.
Definition two63 : N := 9223372036854775808.
Definition wrap64 (v : N) : N := v mod two64.
(* a - b on uint64 *)
Definition sub64 (a b : N) : N := if b <=? a then a - b else wrap64 (a + two64 - b).
(* int64(v) for a uint64 v *)
Definition to_i64 (v : N) : Z := if v <? two63 then Z.of_N v else (Z.of_N v - Z.of_N two64)%Z.

Definition text_eqb (a b : text) : bool := list_eqb a b.
Definition is_empty (t : text) : bool := match t with [] => true | _ => false end.
Definition lenN {A} (l : list A) : N := N.of_nat (List.length l).

(* l[i] for a uint64 index, None when out of range *)
Fixpoint nth_N {A} (l : list A) (i : N) : option A :=
  match l with
  | [] => None
  | x :: r => if i =? 0 then Some x else nth_N r (i - 1)
  end.

(* l[:n] for n <= len(l) *)
Fixpoint take_N {A} (l : list A) (n : N) : list A :=
  match l with
  | [] => []
  | x :: r => if n =? 0 then [] else x :: take_N r (n - 1)
  end.

(* position (from [pos]) of the first element equal to [t] *)
Fixpoint index_from (t : text) (syms : list text) (pos : N) : option N :=
  match syms with
  | [] => None
  | x :: r => if text_eqb x t then Some pos else index_from t r (pos + 1)
  end.
Definition index_of (t : text) (syms : list text) : option N := index_from t syms 0.

(* buildIndex(symbols, offset)[t]: "" is never a key, the first occurrence wins,
   the value is offset + uint64(i) *)
Definition build_index_lookup (syms : list text) (offset : N) (t : text) : option N :=
  if is_empty t then None
  else option_map (fun i => wrap64 (offset + i)) (index_of t syms).

(* ---- shared symbol tables --------------------------------------------------- *)
Record sst := mkSst { s_name : text; s_ver : Z; s_syms : list text; s_max : N }.

(* NewSharedSymbolTable *)
Definition sst_new (name : text) (ver : Z) (syms : list text) : sst :=
  mkSst name ver syms (lenN syms).

(* sst.Adjust *)
Definition sst_adjust (s : sst) (m : N) : sst :=
  if m =? s_max s then s
  else if lenN (s_syms s) <? m then mkSst (s_name s) (s_ver s) (s_syms s) m
  else mkSst (s_name s) (s_ver s) (take_N (s_syms s) m) m.

(* sst.FindByName / sst.FindByID / sst.Find *)
Definition sst_find_by_name (s : sst) (t : text) : option N := build_index_lookup (s_syms s) 1 t.
Definition sst_find_by_id (s : sst) (id : N) : option text :=
  if (id =? 0) || (lenN (s_syms s) <? id) then None else nth_N (s_syms s) (id - 1).
Definition sst_find (s : sst) (t : text) : option text :=
  match sst_find_by_name s t with
  | None => None
  | Some id => sst_find_by_id s id
  end.
(* sst.Symbols(): make([]string, maxID); copy(..).  Only for small maxID (Go
   allocates maxID strings). *)
Definition sst_symbols (s : sst) : list text :=
  let l := take_N (s_syms s) (s_max s) in
  l ++ repeat [] (N.to_nat (s_max s - lenN l)).

(* the two implementations of SharedSymbolTable in package ion *)
Inductive shared :=
| Sst (s : sst)
| Bogus (name : text) (ver : Z) (maxid : N).

Definition sh_name (x : shared) : text := match x with Sst s => s_name s | Bogus n _ _ => n end.
Definition sh_ver (x : shared) : Z := match x with Sst s => s_ver s | Bogus _ v _ => v end.
Definition sh_max (x : shared) : N := match x with Sst s => s_max s | Bogus _ _ m => m end.
Definition sh_adjust (x : shared) (m : N) : shared :=
  match x with Sst s => Sst (sst_adjust s m) | Bogus n v _ => Bogus n v m end.
Definition sh_find_by_name (x : shared) (t : text) : option N :=
  match x with Sst s => sst_find_by_name s t | Bogus _ _ _ => None end.
Definition sh_find_by_id (x : shared) (id : N) : option text :=
  match x with Sst s => sst_find_by_id s id | Bogus _ _ _ => None end.
Definition sh_find (x : shared) (t : text) : option text :=
  match x with Sst s => sst_find s t | Bogus _ _ _ => None end.
Definition sh_symbols (x : shared) : list text :=
  match x with Sst s => sst_symbols s | Bogus _ _ _ => [] end.

Open Scope string_scope.
Definition system_symbols : list text :=
  [ s "$ion"; s "$ion_1_0"; s "$ion_symbol_table"; s "name"; s "version"; s "imports";
    s "symbols"; s "max_id"; s "$ion_shared_symbol_table" ].
Definition ion_name : text := s "$ion".
Close Scope string_scope.
Definition system_sst : sst := sst_new ion_name 1 system_symbols.
Definition system_table : shared := Sst system_sst.

(* ---- local symbol tables ----------------------------------------------------- *)
Record lst := mkLst {
  l_imports : list shared;
  l_offsets : list N;
  l_maximp : N;          (* maxImportID *)
  l_syms : list text;
  l_idx_empty : bool     (* is "" a key of index (builder) or not (buildIndex) *)
}.

(* the offsets loop of processImports: offsets[i] = maxID; maxID += imp.MaxID() *)
Fixpoint offsets_from (imps : list shared) (acc : N) : list N * N :=
  match imps with
  | [] => ([], acc)
  | i :: r => let '(o, m) := offsets_from r (wrap64 (acc + sh_max i)) in (acc :: o, m)
  end.

Definition effective_imports (imports : list shared) : list shared :=
  match imports with
  | i0 :: _ => if text_eqb (sh_name i0) ion_name then imports else system_table :: imports
  | [] => [system_table]
  end.

Definition process_imports (imports : list shared) : list shared * list N * N :=
  let imps := effective_imports imports in
  let '(offs, m) := offsets_from imps 0 in
  (imps, offs, m).

(* NewLocalSymbolTable *)
Definition lst_new (imports : list shared) (syms : list text) : lst :=
  let '(imps, offs, m) := process_imports imports in
  mkLst imps offs m syms false.

(* lst.MaxID / Symbols / Imports *)
Definition lst_max_id (t : lst) : N := wrap64 (l_maximp t + lenN (l_syms t)).
Definition lst_symbols (t : lst) : list text := l_syms t.
Definition lst_imports (t : lst) : list shared := l_imports t.

(* t.index[s]: buildIndex(syms, maxID+1) for NewLocalSymbolTable, the builder's
   assignments maxImportID + len(symbols) otherwise *)
Definition local_lookup (t : lst) (x : text) : option N :=
  if is_empty x && negb (l_idx_empty t) then None
  else option_map (fun i => wrap64 (wrap64 (l_maximp t + 1) + i)) (index_of x (l_syms t)).

(* the import loop of lst.FindByName *)
Fixpoint find_in_imports (imps : list shared) (offs : list N) (x : text) : option N :=
  match imps, offs with
  | imp :: ri, off :: ro =>
    match sh_find_by_name imp x with
    | Some id => Some (wrap64 (off + id))
    | None => find_in_imports ri ro x
    end
  | _, _ => None
  end.

Definition lst_find_by_name (t : lst) (x : text) : option N :=
  match find_in_imports (l_imports t) (l_offsets t) x with
  | Some id => Some id
  | None => local_lookup t x
  end.

(* the loop of findByIDInImports, entered with i = 1: [imps]/[offs] are
   imports[i:] / offsets[i:], [prev] is imports[i-1] *)
Fixpoint fbi_loop (imps : list shared) (offs : list N) (prev : shared) (off id : N) : option text :=
  match imps, offs with
  | imp :: ri, o :: ro =>
    if id <=? o then sh_find_by_id prev (sub64 id off) else fbi_loop ri ro imp o id
  | _, _ => sh_find_by_id prev (sub64 id off)
  end.
(* an lst always has at least one import (processImports); imports[0] of an
   empty slice would panic, which no constructor can reach *)
Definition find_by_id_in_imports (t : lst) (id : N) : option text :=
  match l_imports t, l_offsets t with
  | i0 :: ri, _ :: ro => fbi_loop ri ro i0 0 id
  | _, _ => None
  end.

Definition lst_find_by_id (t : lst) (id : N) : option text :=
  if id =? 0 then None
  else if id <=? l_maximp t then find_by_id_in_imports t id
  else
    let idx := sub64 (sub64 id (l_maximp t)) 1 in
    if idx <? lenN (l_syms t) then nth_N (l_syms t) idx else None.

(* lst.Find: Some text = a token with that text (LocalSID unknown), None = nil *)
Fixpoint find_tok_in_imports (imps : list shared) (x : text) : option text :=
  match imps with
  | [] => None
  | imp :: r => match sh_find imp x with Some tx => Some tx | None => find_tok_in_imports r x end
  end.
Definition lst_find (t : lst) (x : text) : option text :=
  match find_tok_in_imports (l_imports t) x with
  | Some tx => Some tx
  | None => match local_lookup t x with Some _ => Some x | None => None end
  end.

(* ---- builder ------------------------------------------------------------------- *)
(* NewSymbolTableBuilder: the state is the embedded lst *)
Definition builder_new (imports : list shared) : lst :=
  let '(imps, offs, m) := process_imports imports in
  mkLst imps offs m [] true.

(* Add: (new state, id, added) *)
Definition builder_add (b : lst) (x : text) : lst * N * bool :=
  match lst_find_by_name b x with
  | Some id => (b, id, false)
  | None =>
    let syms := l_syms b ++ [x] in
    (mkLst (l_imports b) (l_offsets b) (l_maximp b) syms (l_idx_empty b),
     wrap64 (l_maximp b + lenN syms), true)
  end.

(* Build: a copy *)
Definition builder_build (b : lst) : lst := b.

(* a history of Add calls: final state and the answers, in call order *)
Fixpoint builder_adds (b : lst) (xs : list text) : lst * list (N * bool) :=
  match xs with
  | [] => (b, [])
  | x :: r =>
    let '(b1, id, added) := builder_add b x in
    let '(b2, outs) := builder_adds b1 r in
    (b2, (id, added) :: outs)
  end.

(* ---- tokens ---------------------------------------------------------------------- *)
Record token := mkTok { tk_text : option text; tk_sid : Z }.
Definition sid_unknown : Z := (-1)%Z.

(* NewSymbolTokenBySID(table, sid int64) *)
Definition new_token_by_sid (t : lst) (sid : Z) : res token :=
  if (sid <? 0)%Z || (lst_max_id t <? Z.to_N sid) then Err
  else match lst_find_by_id t (Z.to_N sid) with
       | None => Ok (mkTok None sid)
       | Some tx => Ok (mkTok (Some tx) sid)
       end.

(* NewSymbolToken(table, text) with a non-nil table *)
Definition new_token (t : lst) (x : text) : res token :=
  match lst_find_by_name t x with
  | None => Ok (mkTok (Some x) sid_unknown)
  | Some sid => Ok (mkTok (Some x) (to_i64 sid))
  end.

(* the digits of symbolIdentifier: every byte in '0'..'9'; the value, most significant first *)
Definition sid_digit (c : N) : bool := (48 <=? c) && (c <=? 57).
Definition sid_digits_value (l : list N) : N := fold_left (fun a c => a * 10 + (c - 48)) l 0.
(* strconv.ParseInt(s, 10, 64) of a string of decimal digits: the value when it fits an int64 *)
Fixpoint digits_val (l : list N) (acc : N) : option N :=
  match l with
  | [] => Some acc
  | c :: r => if sid_digit c then digits_val r (acc * 10 + (c - 48)) else None
  end.
Definition parse_int64_digits (ds : list N) : option Z :=
  match ds with
  | [] => None
  | _ => match digits_val ds 0 with
         | None => None
         | Some v => if v <? two63 then Some (Z.of_N v) else None
         end
  end.

(* symbolIdentifier: '$', then one or more decimal digits and nothing else (no
   sign), then ParseInt on the digits *)
Definition symbol_identifier (x : text) : Z * bool :=
  match x with
  | 36 :: ((_ :: _) as r) =>
    if forallb sid_digit r then
      match parse_int64_digits r with
      | Some sid => (sid, true)
      | None => (sid_unknown, false)
      end
    else (sid_unknown, false)
  | _ => (sid_unknown, false)
  end.

(* isSymbolIDOutOfRange: '$' and digits only, yet not a symbol identifier *)
Definition symbol_id_out_of_range (x : text) : bool :=
  match x with
  | 36 :: ((_ :: _) as r) => forallb sid_digit r && negb (snd (symbol_identifier x))
  | _ => false
  end.

(* newSymbolToken *)
Definition new_symbol_token_auto (t : lst) (x : text) : res token :=
  let '(sid, ok) := symbol_identifier x in
  if ok then new_token_by_sid t sid
  else if symbol_id_out_of_range x then Err
  else new_token t x.

(* ---- catalog ----------------------------------------------------------------------- *)
(* NewCatalog(ssts...): the entries in argument order.  ssts[name/version] is
   overwritten by later entries (last wins); latest[name] is replaced only by a
   strictly larger version (first wins on ties). *)
Definition catalog := list shared.

Fixpoint cat_find_exact_from (c : catalog) (name : text) (ver : Z) (cur : option shared) : option shared :=
  match c with
  | [] => cur
  | x :: r =>
    if text_eqb (sh_name x) name && (sh_ver x =? ver)%Z
    then cat_find_exact_from r name ver (Some x)
    else cat_find_exact_from r name ver cur
  end.
Definition cat_find_exact (c : catalog) (name : text) (ver : Z) : option shared :=
  cat_find_exact_from c name ver None.

Fixpoint cat_find_latest_from (c : catalog) (name : text) (cur : option shared) : option shared :=
  match c with
  | [] => cur
  | x :: r =>
    if text_eqb (sh_name x) name
    then match cur with
         | None => cat_find_latest_from r name (Some x)
         | Some y => if (sh_ver y <? sh_ver x)%Z then cat_find_latest_from r name (Some x)
                     else cat_find_latest_from r name cur
         end
    else cat_find_latest_from r name cur
  end.
Definition cat_find_latest (c : catalog) (name : text) : option shared :=
  cat_find_latest_from c name None.

(* the tail of readImport once name, version and max_id have been read (max_id
   = -1 when absent): Ok None = the import is skipped, Err = the read fails *)
Definition resolve_import (c : option catalog) (name : text) (ver : Z) (maxid : Z) : res (option shared) :=
  if is_empty name || text_eqb name ion_name then Ok None
  else
    let ver := if (ver <? 1)%Z then 1%Z else ver in
    let imp := match c with
               | None => None
               | Some c => match cat_find_exact c name ver with
                           | Some x => Some x
                           | None => cat_find_latest c name
                           end
               end in
    let maxid_r :=
      if (maxid <? 0)%Z then
        match imp with
        | None => Err
        | Some x => if (ver =? sh_ver x)%Z then Ok (sh_max x) else Err   (* uint64(int64(MaxID())) *)
        end
      else Ok (Z.to_N maxid) in
    do m <- maxid_r;
    match imp with
    | None => Ok (Some (Bogus name ver m))
    | Some x => Ok (Some (sh_adjust x m))
    end.
