(* LstReadP.v — a top-level struct whose first annotation is $ion_symbol_table never
   surfaces: the raw step of the reader (with or without a catalog) does not answer
   "a user value is ready" on it. *)
From Coq Require Import String List NArith ZArith Bool Lia.
From IonV Require Import Base.Wire Sym.SymTab.
From IonV Require Import Bin.Bits Data.Ion Num.Float Bin.BitStream Bin.BinReader Sym.LstRead.
Import ListNotations.
Open Scope N_scope.

Theorem never_surface_raw ts_ok api_next fuel r b u :
  b_next (r_bits r) = (b, Ok u) -> b_code b = bcStruct -> r_ctx_peek r = 0 ->
  BinReader.is_ion_symbol_table (r_annots r) = true ->
  snd (r_next_raw ts_ok api_next fuel r) <> Ok true.
Proof.
  intros HB HC HT HA. unfold r_next_raw. rewrite HB, HC.
  change (bcStruct =? bcEOF) with false. change (bcStruct =? bcBVM) with false.
  change (bcStruct =? bcFieldID) with false. change (bcStruct =? bcAnnotation) with false.
  change (bcStruct =? bcNull) with false. change (bcStruct =? bcFalse) with false.
  change (bcStruct =? bcTrue) with false. change (bcStruct =? bcInt) with false.
  change (bcStruct =? bcNegInt) with false. change (bcStruct =? bcFloat) with false.
  change (bcStruct =? bcDecimal) with false. change (bcStruct =? bcTimestamp) with false.
  change (bcStruct =? bcSymbol) with false. change (bcStruct =? bcString) with false.
  change (bcStruct =? bcClob) with false. change (bcStruct =? bcBlob) with false.
  change (bcStruct =? bcList) with false. change (bcStruct =? bcSexp) with false.
  change (bcStruct =? bcStruct) with true. cbn [orb].
  set (r2 := rs_val (rs_bits r b) TStruct (if b_null b then RNil else RContainer)).
  change (r_ctx_peek r2) with (r_ctx_peek r). change (r_annots r2) with (r_annots r).
  rewrite HT, HA. cbn [N.eqb andb].
  destruct (r_is_null r2); [cbn [snd]; discriminate|].
  destruct (read_local_symbol_table api_next fuel r2) as [r3 [st| | |]]; cbn [snd]; discriminate.
Qed.

Theorem never_surface_raw_cat ts_ok cat fuel st b u :
  b_next (r_bits (fst st)) = (b, Ok u) -> b_code b = bcStruct -> r_ctx_peek (fst st) = 0 ->
  BinReader.is_ion_symbol_table (r_annots (fst st)) = true ->
  snd (r_next_raw_cat ts_ok cat fuel st) <> Ok true.
Proof.
  intros HB HC HT HA. unfold r_next_raw_cat. rewrite HB, HC. change (bcStruct =? bcStruct) with true.
  set (r2 := rs_val (rs_bits (fst st) b) TStruct (if b_null b then RNil else RContainer)).
  change (r_ctx_peek r2) with (r_ctx_peek (fst st)). change (r_annots r2) with (r_annots (fst st)).
  rewrite HT, HA. cbn [N.eqb andb].
  destruct (r_is_null r2); cbn [negb].
  - unfold lift_b.
    pose proof (never_surface_raw ts_ok (fun r0 => (r0, Panic)) fuel (fst st) b u HB HC HT HA) as H.
    destruct (r_next_raw ts_ok (fun r0 => (r0, Panic)) fuel (fst st)) as [r' x]. cbn [snd] in *. exact H.
  - destruct (read_local_symbol_table_cat bstate_cat (bin_api ts_ok) cat fuel (r2, snd st)) as [[r3 c3] [t| | |]];
      cbn [snd keep_bad2]; discriminate.
Qed.

(* hence Next's loop continues: the struct is consumed, and a value the loop returns comes from a later step *)
