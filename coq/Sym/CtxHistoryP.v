(* CtxHistoryP.v — proofs about Sym/CtxHistory.v: the table ion-go builds from a
   symbol-table struct denotes the context the Ion rules prescribe (LstSpec). *)
From Coq Require Import String List NArith ZArith Bool Lia ZifyBool ZifyN ZifyNat.
From IonV Require Import Base.Wire Sym.SymTab Sym.SymTabP Data.Ion Sym.LstSpec Sym.LstRead Sym.CtxHistory.
Import ListNotations.
Open Scope N_scope.
Ltac Zify.zify_post_hook ::= Z.div_mod_to_equations.

(* ---- lists of ids ------------------------------------------------------------------------------- *)
Lemma seq_split a b : (a <= b)%nat -> seq 1 b = seq 1 a ++ seq (1 + a) (b - a).
Proof. intros H. replace b with (a + (b - a))%nat at 1 by lia. apply seq_app. Qed.

Lemma map_none_repeat {A B} (f : A -> option B) l : (forall x, In x l -> f x = None) ->
  map f l = repeat None (List.length l).
Proof.
  induction l as [|x l IH]; intros H; [reflexivity|]. cbn [map List.length repeat].
  rewrite H by (left; reflexivity). f_equal. apply IH. intros y Hy. apply H. right. exact Hy.
Qed.

Lemma fit_ids (f : N -> option stext) (a b : nat) :
  (forall i, (b < i)%nat -> f (N.of_nat i) = None) ->
  map f (map N.of_nat (seq 1 a)) =
  firstn a (map f (map N.of_nat (seq 1 b))) ++ repeat None (a - List.length (map f (map N.of_nat (seq 1 b)))).
Proof.
  intros H. rewrite !map_length, seq_length.
  destruct (Nat.le_gt_cases a b) as [L|L].
  - rewrite (seq_split a b L), !map_app, firstn_app.
    rewrite !map_length, seq_length, Nat.sub_diag. cbn [firstn].
    rewrite firstn_all2 by (rewrite !map_length, seq_length; lia).
    replace (a - b)%nat with 0%nat by lia. cbn [repeat]. rewrite !app_nil_r. reflexivity.
  - rewrite (seq_split b a) by lia. rewrite !map_app.
    rewrite firstn_all2 by (rewrite !map_length, seq_length; lia). f_equal.
    rewrite map_map. rewrite map_none_repeat.
    + rewrite seq_length. reflexivity.
    + intros x Hx. apply in_seq in Hx. apply H. lia.
Qed.

Lemma ids_upto_in m id : In id (ids_upto m) -> 1 <= id <= m.
Proof.
  unfold ids_upto. intros H. apply in_map_iff in H. destruct H as (i & <- & Hi). apply in_seq in Hi. lia.
Qed.
Lemma shared_slots_len x : List.length (shared_slots x) = N.to_nat (sh_max x).
Proof. unfold shared_slots, ids_upto. rewrite !map_length, seq_length. reflexivity. Qed.

(* Adjust = trim or pad the slots to max_id *)
Lemma shared_slots_adjust x m : sh_wf x -> shared_slots (sh_adjust x m) = fit m (shared_slots x).
Proof.
  intros W. unfold shared_slots at 1. rewrite (sh_adjust_max x m W).
  rewrite (map_ext_in _ (sh_find_by_id x)).
  2:{ intros id Hid. apply ids_upto_in in Hid. rewrite (sh_adjust_find_by_id x m id W).
      destruct (N.leb_spec id m); [reflexivity | lia]. }
  unfold fit, shared_slots, ids_upto. apply fit_ids.
  intros i Hi. destruct (sh_find_by_id x (N.of_nat i)) eqn:E; [|reflexivity].
  apply (sh_find_by_id_in_slot x _ _ W) in E. lia.
Qed.

Lemma shared_slots_bogus n v m : shared_slots (Bogus n v m) = repeat None (N.to_nat m).
Proof.
  unfold shared_slots. cbn [sh_max sh_find_by_id]. rewrite map_none_repeat by reflexivity.
  unfold ids_upto. rewrite map_length, seq_length. reflexivity.
Qed.

Lemma nth_ids (l : list SymTab.text) : map (fun id => nth_N l (id - 1)) (ids_upto (lenN l)) = map Some l.
Proof.
  induction l as [|x l IH] using rev_ind; [reflexivity|].
  unfold ids_upto in *. rewrite lenN_app. unfold lenN at 2. cbn [List.length].
  replace (N.to_nat (lenN l + N.of_nat 1)) with (S (N.to_nat (lenN l))) by (unfold lenN; lia).
  rewrite seq_S, !map_app. cbn [map]. f_equal.
  - rewrite <- IH. rewrite !map_map. apply map_ext_in. intros i Hi. apply in_seq in Hi.
    apply nth_N_app_l. unfold lenN in *. lia.
  - rewrite nth_N_app_r by (unfold lenN; lia).
    replace (N.of_nat (1 + N.to_nat (lenN l)) - 1 - lenN l) with 0 by (unfold lenN; lia).
    reflexivity.
Qed.
Lemma shared_slots_new n v syms : shared_slots (Sst (sst_new n v syms)) = map Some syms.
Proof.
  unfold shared_slots. cbn [sh_max sh_find_by_id sst_new s_max]. rewrite <- nth_ids.
  apply map_ext_in. intros id Hid. apply ids_upto_in in Hid. cbn [sh_find_by_id].
  rewrite sst_find_by_id_nth. cbn [s_syms sst_new].
  destruct (N.eqb_spec id 0); [lia | reflexivity].
Qed.
Lemma shared_slots_system : shared_slots system_table = LstSpec.system_ctx.
Proof. vm_compute. reflexivity. Qed.

(* ---- the catalog ------------------------------------------------------------------------------------- *)
Definition wf_cat (c : option catalog) : Prop :=
  match c with None => True | Some c => Forall sh_wf c /\ keys_distinct c = true end.

Definition is_key (name : SymTab.text) (ver : Z) (x : shared) : bool :=
  text_eqb (sh_name x) name && (sh_ver x =? ver)%Z.

Lemma find_exact_map c name ver :
  find_exact (map spec_table c) name ver = option_map spec_table (find (is_key name ver) c).
Proof.
  induction c as [|x c IH]; [reflexivity|]. cbn [map find_exact find].
  unfold name_is, is_key at 1. cbn [spec_table st_name st_version]. unfold text_eqb.
  destruct (list_eqb (sh_name x) name && (sh_ver x =? ver)%Z); [reflexivity | exact IH].
Qed.

Lemma cat_find_exact_none c name ver : forall cur,
  (forall x, In x c -> is_key name ver x = false) -> cat_find_exact_from c name ver cur = cur.
Proof.
  induction c as [|x c IH]; intros cur H; [reflexivity|]. cbn [cat_find_exact_from].
  pose proof (H x (or_introl eq_refl)) as Hx. unfold is_key in Hx. rewrite Hx.
  apply IH. intros y Hy. apply H. right. exact Hy.
Qed.

Lemma key_eqb_is_key x y : key_eqb x y = is_key (sh_name x) (sh_ver x) y.
Proof.
  unfold key_eqb, is_key.
  destruct (text_eqb (sh_name x) (sh_name y)) eqn:E1, (text_eqb (sh_name y) (sh_name x)) eqn:E2;
    try (apply text_eqb_eq in E1; rewrite E1, text_eqb_refl in E2; discriminate);
    try (apply text_eqb_eq in E2; rewrite E2, text_eqb_refl in E1; discriminate); cbn [andb]; [|reflexivity].
  rewrite Z.eqb_sym. reflexivity.
Qed.

Lemma cat_find_exact_spec c name ver : keys_distinct c = true ->
  cat_find_exact c name ver = find (is_key name ver) c.
Proof.
  unfold cat_find_exact. intros D. induction c as [|x c IH]; [reflexivity|].
  cbn [keys_distinct] in D. apply andb_prop in D. destruct D as [D1 D2].
  cbn [cat_find_exact_from find]. fold (is_key name ver x).
  destruct (is_key name ver x) eqn:K.
  - apply cat_find_exact_none. intros y Hy.
    apply negb_true_iff in D1. destruct (is_key name ver y) eqn:Ky; [|reflexivity].
    exfalso. assert (existsb (key_eqb x) c = true); [|congruence].
    apply existsb_exists. exists y. split; [exact Hy|]. rewrite key_eqb_is_key.
    unfold is_key in K. apply andb_prop in K. destruct K as [K1 K2].
    apply text_eqb_eq in K1. apply Z.eqb_eq in K2. rewrite K1, K2. exact Ky.
  - apply IH. exact D2.
Qed.

(* the latest version: both sides take the first table among those of greatest version *)
Fixpoint fl (c : catalog) (name : SymTab.text) : option shared :=
  match c with
  | [] => None
  | x :: r =>
    if text_eqb (sh_name x) name then
      match fl r name with
      | Some u => if (sh_ver x <? sh_ver u)%Z then Some u else Some x
      | None => Some x
      end
    else fl r name
  end.
Lemma find_latest_map c name : find_latest (map spec_table c) name = option_map spec_table (fl c name).
Proof.
  induction c as [|x c IH]; [reflexivity|]. cbn [map find_latest fl].
  unfold name_is. cbn [spec_table st_name]. unfold text_eqb.
  destruct (list_eqb (sh_name x) name); [|exact IH]. rewrite IH.
  destruct (fl c name) as [u|]; cbn [option_map spec_table st_version]; [|reflexivity].
  destruct (sh_ver x <? sh_ver u)%Z; reflexivity.
Qed.
Lemma cat_find_latest_from_spec c name : forall cur,
  cat_find_latest_from c name cur =
  match cur, fl c name with
  | None, r => r
  | Some y, None => Some y
  | Some y, Some u => if (sh_ver y <? sh_ver u)%Z then Some u else Some y
  end.
Proof.
  induction c as [|x c IH]; intros cur; cbn [cat_find_latest_from fl].
  - destruct cur; reflexivity.
  - destruct (text_eqb (sh_name x) name); [|apply IH].
    destruct cur as [y|]; [|rewrite IH; reflexivity].
    destruct (Z.ltb_spec (sh_ver y) (sh_ver x)); rewrite IH; destruct (fl c name) as [u|];
      repeat match goal with |- context [(?a <? ?b)%Z] => destruct (Z.ltb_spec a b) end;
      try reflexivity; lia.
Qed.
Lemma cat_find_latest_spec c name : cat_find_latest c name = fl c name.
Proof. unfold cat_find_latest. rewrite cat_find_latest_from_spec. reflexivity. Qed.

Lemma fl_in c name x : fl c name = Some x -> In x c /\ sh_name x = name.
Proof.
  induction c as [|y c IH]; cbn [fl]; [discriminate|].
  destruct (text_eqb (sh_name y) name) eqn:E.
  - destruct (fl c name) as [u|].
    + destruct (sh_ver y <? sh_ver u)%Z; intros H; inversion H; subst.
      * destruct (IH eq_refl). split; [right|]; assumption.
      * split; [left; reflexivity | apply text_eqb_eq; exact E].
    + intros H; inversion H; subst. split; [left; reflexivity | apply text_eqb_eq; exact E].
  - intros H. destruct (IH H). split; [right|]; assumption.
Qed.
Lemma find_in {A} (p : A -> bool) l x : find p l = Some x -> In x l /\ p x = true.
Proof. apply find_some. Qed.

(* ---- one import declaration -------------------------------------------------------------------------- *)
Definition decl_of_g (name : SymTab.text) (ver maxid : Z) : import_decl :=
  {| i_name := name; i_version := Some ver;
     i_maxid := if (maxid <? 0)%Z then None else Some (Z.to_N maxid) |}.

Lemma is_empty_list_eqb (t : list N) : is_empty t = list_eqb t [].
Proof. destruct t; reflexivity. Qed.

Lemma fit_adjust x m : sh_wf x -> fit m (shared_slots x) = shared_slots (sh_adjust x m).
Proof. intros W. symmetry. apply shared_slots_adjust. exact W. Qed.

Lemma import_refines cat name ver maxid : wf_cat cat ->
  match resolve_import cat name ver maxid with
  | Ok None => import_slots (spec_cat cat) (decl_of_g name ver maxid) = Ok []
  | Ok (Some x) => import_slots (spec_cat cat) (decl_of_g name ver maxid) = Ok (shared_slots x)
                   /\ sh_wf x /\ text_eqb (sh_name x) ion_name = false
  | Err => import_slots (spec_cat cat) (decl_of_g name ver maxid) = Err
  | _ => False
  end.
Proof.
  intros WC. unfold resolve_import, import_slots, decl_of_g. cbn [i_name i_version i_maxid effective_version].
  rewrite is_empty_list_eqb. unfold text_eqb at 1. change ion_name with (s "$ion"%string).
  destruct (list_eqb name [] || list_eqb name (s "$ion"%string)) eqn:EN; [reflexivity|].
  apply orb_false_iff in EN. destruct EN as [_ EN].
  set (v := if (ver <? 1)%Z then 1%Z else ver).
  destruct cat as [c|]; cbn [spec_cat].
  - destruct WC as [WF KD]. rewrite Forall_forall in WF.
    rewrite (cat_find_exact_spec c name v KD), find_exact_map, cat_find_latest_spec, find_latest_map.
    destruct (find (is_key name v) c) as [x|] eqn:EX; cbn [option_map].
    + apply find_some in EX. destruct EX as [IN KEY]. unfold is_key in KEY. apply andb_prop in KEY.
      destruct KEY as [K1 K2]. apply text_eqb_eq in K1. apply Z.eqb_eq in K2.
      pose proof (WF x IN) as W. cbn [spec_table st_symbols].
      assert (NM : forall m, text_eqb (sh_name (sh_adjust x m)) (s "$ion"%string) = false).
      { intros m. destruct (sh_adjust_name_ver x m W) as [-> _]. rewrite K1. exact EN. }
      destruct (maxid <? 0)%Z eqn:EM.
      * rewrite K2, Z.eqb_refl. cbn [bind]. rewrite shared_slots_len, N2Nat.id.
        rewrite (fit_adjust x _ W). repeat split; [apply sh_wf_adjust; exact W | apply NM].
      * cbn [bind]. rewrite (fit_adjust x _ W). repeat split; [apply sh_wf_adjust; exact W | apply NM].
    + destruct (maxid <? 0)%Z eqn:EM.
      * destruct (fl c name) as [x|] eqn:EL; [|reflexivity].
        destruct (fl_in _ _ _ EL) as [IN NMx].
        pose proof (find_none _ _ EX x IN) as K. unfold is_key in K. rewrite NMx, text_eqb_refl in K.
        cbn [andb] in K. rewrite Z.eqb_sym, K. reflexivity.
      * cbn [bind]. destruct (fl c name) as [x|] eqn:EL; cbn [option_map].
        -- destruct (fl_in _ _ _ EL) as [IN NMx]. pose proof (WF x IN) as W.
           cbn [spec_table st_symbols]. rewrite (fit_adjust x _ W). repeat split; [apply sh_wf_adjust; exact W|].
           destruct (sh_adjust_name_ver x (Z.to_N maxid) W) as [-> _]. rewrite NMx. exact EN.
        -- rewrite shared_slots_bogus. repeat split. exact EN.
  - cbn [find_exact find_latest]. destruct (maxid <? 0)%Z; [reflexivity|]. cbn [bind].
    rewrite shared_slots_bogus. repeat split. exact EN.
Qed.

(* ---- the fields of an import struct ------------------------------------------------------------------ *)
Lemma fields_named_cons k v r nm :
  fields_named ((k, v) :: r) nm = if fname_is k nm then v :: fields_named r nm else fields_named r nm.
Proof. unfold fields_named. cbn [filter fst]. destruct (fname_is k nm); reflexivity. Qed.
Lemma fname_is_text k t nm : tk_text k = Some t -> fname_is k nm = list_eqb t (s nm).
Proof. unfold fname_is. intros ->. reflexivity. Qed.
Lemma count_named_cons k v r nm :
  count_named ((k, v) :: r) nm = if fname_is k nm then S (count_named r nm) else count_named r nm.
Proof. unfold count_named. rewrite fields_named_cons. destruct (fname_is k nm); reflexivity. Qed.
Lemma count0 fs nm : count_named fs nm = 0%nat -> fields_named fs nm = [].
Proof. unfold count_named. destruct (fields_named fs nm); [reflexivity | discriminate]. Qed.

Definition upd_name (fs : list (tok * tval)) (n : SymTab.text) : SymTab.text :=
  match fields_named fs "name" with TvString t :: _ => t | _ => n end.
Definition upd_ver (fs : list (tok * tval)) (z0 : Z) : Z :=
  match fields_named fs "version" with TvInt z :: _ => z | _ => z0 end.
Definition upd_max (fs : list (tok * tval)) (z0 : Z) : Z :=
  match fields_named fs "max_id" with TvInt z :: _ => z | _ => z0 end.
Definition max_null (fs : list (tok * tval)) : bool :=
  match fields_named fs "max_id" with TvNull ty :: _ => ty =? TInt | _ => false end.

Definition import_fields_ok (fs : list (tok * tval)) : Prop :=
  forallb (fun f => has_text (fst f)) fs = true /\
  (count_named fs "name" <= 1)%nat /\ (count_named fs "version" <= 1)%nat /\ (count_named fs "max_id" <= 1)%nat /\
  forallb (fun f => match snd f with
                    | TvInt z => if fname_is (fst f) "version" then in_i32 z
                                 else if fname_is (fst f) "max_id" then in_i64 z else true
                    | _ => true
                    end) fs = true.

Lemma in_i32_i64 z : in_i32 z = true -> in_i64 z = true.
Proof. unfold in_i32, in_i64. lia. Qed.

Lemma t_import_fields_spec fs : forall d, import_fields_ok fs ->
  t_import_fields fs d =
  if max_null fs then Err
  else Ok {| gd_name := upd_name fs (gd_name d); gd_version := upd_ver fs (gd_version d);
             gd_maxid := upd_max fs (gd_maxid d) |}.
Proof.
  induction fs as [|[k v] r IH]; intros d (HT & C1 & C2 & C3 & RG).
  - cbn. destruct d; reflexivity.
  - cbn [forallb fst snd] in HT, RG. apply andb_prop in HT. destruct HT as [HT HTr].
    apply andb_prop in RG. destruct RG as [RG RGr].
    unfold has_text in HT. destruct (tk_text k) as [fnm|] eqn:TX; [|discriminate].
    rewrite count_named_cons in C1, C2, C3.
    rewrite (fname_is_text k fnm "name" TX) in C1. rewrite (fname_is_text k fnm "version" TX) in C2.
    rewrite (fname_is_text k fnm "max_id" TX) in C3.
    rewrite (fname_is_text k fnm "version" TX), (fname_is_text k fnm "max_id" TX) in RG.
    unfold max_null, upd_name, upd_ver, upd_max. rewrite !fields_named_cons.
    rewrite (fname_is_text k fnm "name" TX), (fname_is_text k fnm "version" TX), (fname_is_text k fnm "max_id" TX).
    cbn [t_import_fields]. rewrite TX.
    destruct (list_eqb fnm (s "name"%string)) eqn:E1.
    { apply list_eqb_eq in E1. subst fnm.
      change (list_eqb (s "name"%string) (s "version"%string)) with false in *.
      change (list_eqb (s "name"%string) (s "max_id"%string)) with false in *.
      assert (OK : import_fields_ok r) by (repeat split; try assumption; lia).
      pose proof (count0 r "name" ltac:(lia)) as Z0.
      destruct v; rewrite (IH _ OK); unfold max_null, upd_name, upd_ver, upd_max; rewrite ?Z0; reflexivity. }
    destruct (list_eqb fnm (s "version"%string)) eqn:E2.
    { apply list_eqb_eq in E2. subst fnm.
      change (list_eqb (s "version"%string) (s "max_id"%string)) with false in *.
      assert (OK : import_fields_ok r) by (repeat split; try assumption; lia).
      pose proof (count0 r "version" ltac:(lia)) as Z0.
      destruct v; try (rewrite (IH _ OK); unfold max_null, upd_name, upd_ver, upd_max; rewrite ?Z0; reflexivity).
      rewrite (in_i32_i64 _ RG), RG. cbn [negb].
      rewrite (IH _ OK); unfold max_null, upd_name, upd_ver, upd_max; rewrite ?Z0; reflexivity. }
    destruct (list_eqb fnm (s "max_id"%string)) eqn:E3.
    { assert (OK : import_fields_ok r) by (repeat split; try assumption; lia).
      pose proof (count0 r "max_id" ltac:(lia)) as Z0.
      destruct v as [ty| | | | | |];
        try (rewrite (IH _ OK); unfold max_null, upd_name, upd_ver, upd_max; rewrite ?Z0; reflexivity).
      rewrite RG. cbn [negb].
      rewrite (IH _ OK); unfold max_null, upd_name, upd_ver, upd_max; rewrite ?Z0; reflexivity. }
    assert (OK : import_fields_ok r) by (repeat split; try assumption; lia).
    rewrite (IH _ OK). reflexivity.
Qed.

Definition spec_import (C : scatalog) (v : tval) : res ctx :=
  do od <- decl_of v; match od with Some D => import_slots C D | None => Ok [] end.

Lemma decl_of_struct fs : max_null fs = false ->
  exists D, decl_of (TvStruct fs) = Ok (Some D) /\
    forall C, import_slots C D = import_slots C (decl_of_g (upd_name fs []) (upd_ver fs (-1)) (upd_max fs (-1))).
Proof.
  unfold max_null, decl_of, upd_name, upd_ver, upd_max, decl_of_g. intros H.
  destruct (fields_named fs "max_id") as [|v0 ?]; [|destruct v0]; try rewrite H; cbn [bind];
    (eexists; split; [reflexivity|]); intros C; unfold import_slots; cbn [i_name i_version i_maxid];
    destruct (fields_named fs "version") as [|[] ?]; reflexivity.
Qed.
Lemma decl_of_null fs : max_null fs = true -> decl_of (TvStruct fs) = Err.
Proof.
  unfold max_null, decl_of. destruct (fields_named fs "max_id") as [|v0 ?]; [discriminate|].
  destruct v0; try discriminate. intros ->. reflexivity.
Qed.

Lemma regular_import_ok fs : regular_import (TvStruct fs) = true -> import_fields_ok fs.
Proof.
  cbn [regular_import]. intros H. repeat (apply andb_prop in H; destruct H as [H ?]).
  repeat split; try assumption; apply Nat.leb_le; assumption.
Qed.

Lemma t_import_refines cat v : wf_cat cat -> regular_import v = true ->
  match t_import cat v with
  | Ok None => spec_import (spec_cat cat) v = Ok []
  | Ok (Some x) => spec_import (spec_cat cat) v = Ok (shared_slots x) /\ sh_wf x
                   /\ text_eqb (sh_name x) ion_name = false
  | Err => spec_import (spec_cat cat) v = Err
  | _ => False
  end.
Proof.
  intros WC RG. destruct v; try reflexivity.
  unfold t_import. rewrite (t_import_fields_spec fs gdecl0 (regular_import_ok fs RG)).
  destruct (max_null fs) eqn:MN.
  - cbn [bind]. unfold spec_import. rewrite (decl_of_null fs MN). reflexivity.
  - cbn [bind gdecl0 gd_name gd_version gd_maxid].
    destruct (decl_of_struct fs MN) as (D & E1 & E2). unfold spec_import. rewrite E1. cbn [bind].
    rewrite E2. apply import_refines. exact WC.
Qed.

Lemma decl_of_total v : decl_of v = Err \/ exists od, decl_of v = Ok od.
Proof.
  destruct v; try (right; eexists; reflexivity). unfold decl_of.
  destruct (fields_named fs "max_id") as [|v0 ?]; [|destruct v0]; cbn [bind]; try (right; eexists; reflexivity).
  destruct (ty =? TInt); [left | right; eexists]; reflexivity.
Qed.
Lemma decls_of_total l : decls_of l = Err \/ exists ds, decls_of l = Ok ds.
Proof.
  induction l as [|v l IH]; [right; eexists; reflexivity|]. cbn [decls_of].
  destruct (decl_of_total v) as [->|(od & ->)]; [left; reflexivity|]. cbn [bind].
  destruct IH as [->|(ds & ->)]; [left; reflexivity | right; eexists; reflexivity].
Qed.
Lemma import_slots_total C D : import_slots C D = Err \/ exists c, import_slots C D = Ok c.
Proof.
  unfold import_slots. destruct (_ || _); [right; eexists; reflexivity|].
  destruct (find_exact _ _ _); [right; eexists; reflexivity|].
  destruct (i_maxid D); [|left; reflexivity]. destruct (find_latest _ _); right; eexists; reflexivity.
Qed.

Definition not_ion (x : shared) : Prop := text_eqb (sh_name x) ion_name = false.

Lemma t_import_list_refines cat l : wf_cat cat -> forallb regular_import l = true ->
  match t_import_list cat l with
  | Ok xs => (do ds <- decls_of l; imports_slots (spec_cat cat) ds) = Ok (flat_map shared_slots xs)
             /\ Forall sh_wf xs /\ Forall not_ion xs
  | Err => (do ds <- decls_of l; imports_slots (spec_cat cat) ds) = Err
  | _ => False
  end.
Proof.
  intros WC. induction l as [|v l IH]; intros RG.
  - cbn. repeat split; constructor.
  - cbn [forallb] in RG. apply andb_prop in RG. destruct RG as [RGv RGl]. specialize (IH RGl).
    assert (NS : (t_import cat v = Ok None /\ decl_of v = Ok None) \/ exists fs, v = TvStruct fs).
    { destruct v; try (left; split; reflexivity). right; eexists; reflexivity. }
    destruct NS as [[E1 E2]|[fs ->]].
    + cbn [t_import_list decls_of]. rewrite E1, E2. cbn [bind].
      destruct (decls_of_total l) as [EL|(ds & EL)]; rewrite EL in *; cbn [bind] in *.
      * destruct (t_import_list cat l); try contradiction; [destruct IH; discriminate | reflexivity].
      * destruct (t_import_list cat l); try contradiction; cbn [bind]; exact IH.
    + pose proof (t_import_refines cat _ WC RGv) as HV. unfold spec_import in HV.
      cbn [t_import_list decls_of].
      destruct (max_null fs) eqn:MN.
      * rewrite (decl_of_null fs MN) in *. cbn [bind] in *.
        destruct (t_import cat (TvStruct fs)) as [[x|]| | |]; try contradiction; try discriminate;
          [destruct HV; discriminate | reflexivity].
      * destruct (decl_of_struct fs MN) as (D & ED & _). rewrite ED in *. cbn [bind] in *.
        destruct (decls_of_total l) as [EL|(ds & EL)]; rewrite EL in *; cbn [bind] in *.
        -- destruct (t_import cat (TvStruct fs)) as [[x|]| | |]; try contradiction; cbn [bind];
             try reflexivity; destruct (t_import_list cat l); try contradiction; try reflexivity;
             destruct IH; discriminate.
        -- cbn [imports_slots].
           destruct (t_import cat (TvStruct fs)) as [[x|]| | |]; try contradiction; cbn [bind].
           ++ destruct HV as (HS & W & NI). rewrite HS. cbn [bind].
              destruct (t_import_list cat l) as [xs| | |]; try contradiction; cbn [bind].
              ** destruct IH as (HI & FW & FN). rewrite HI. cbn [bind flat_map].
                 repeat split; constructor; assumption.
              ** rewrite IH. reflexivity.
           ++ rewrite HV. cbn [bind].
              destruct (t_import_list cat l) as [xs| | |]; try contradiction; cbn [bind].
              ** destruct IH as (HI & FW & FN). rewrite HI. repeat split; assumption.
              ** rewrite IH. reflexivity.
           ++ rewrite HV. reflexivity.
Qed.

(* ---- the imports field ----------------------------------------------------------------------------------- *)
Definition starts_ion (t : lst) : Prop :=
  exists i0 rest, l_imports t = i0 :: rest /\ text_eqb (sh_name i0) ion_name = true.
Definition cur_ok (c : option lst) : Prop :=
  match c with None => True | Some t => starts_ion t /\ Forall sh_wf (l_imports t) end.

Definition spec_of_imports (C : scatalog) (cx : ctx) (f : imports_field) : res ctx :=
  match f with
  | ImpAppend => Ok cx
  | ImpList ds => do imp <- imports_slots C ds; Ok (LstSpec.system_ctx ++ imp)
  end.

Lemma effective_not_ion imps : Forall not_ion imps -> effective_imports imps = system_table :: imps.
Proof.
  intros F. destruct imps as [|i0 r]; [reflexivity|]. cbn [effective_imports].
  inversion F; subst. unfold not_ion in *. rewrite H1. reflexivity.
Qed.
Lemma effective_starts_ion t x : starts_ion t -> effective_imports (l_imports t ++ x) = l_imports t ++ x.
Proof. intros (i0 & rest & -> & E). cbn [app effective_imports]. rewrite E. reflexivity. Qed.

Definition imports_regular (v : tval) : bool :=
  match v with
  | TvSymbol k => Bool.eqb (tk_sid k =? 3)%Z (fname_is k "$ion_symbol_table")
  | TvList l => forallb regular_import l
  | _ => true
  end.

Lemma t_imports_refines cat cur v : wf_cat cat -> cur_ok cur -> imports_regular v = true ->
  match t_imports cat cur v with
  | Ok imps => (do f <- imports_of v; spec_of_imports (spec_cat cat) (slots_of_cur cur) f)
               = Ok (flat_map shared_slots (effective_imports imps)) /\ Forall sh_wf imps
  | Err => (do f <- imports_of v; spec_of_imports (spec_cat cat) (slots_of_cur cur) f) = Err
  | _ => False
  end.
Proof.
  intros WC CO RG.
  assert (BASE : (do f <- Ok (ImpList []); spec_of_imports (spec_cat cat) (slots_of_cur cur) f)
                 = Ok (flat_map shared_slots (effective_imports [])) /\ Forall sh_wf []).
  { split; [|constructor]. cbn [bind spec_of_imports imports_slots effective_imports flat_map].
    rewrite shared_slots_system, !app_nil_r. reflexivity. }
  destruct v; try exact BASE.
  - (* symbol *)
    cbn [imports_regular] in RG. cbn [t_imports imports_of]. unfold is_append_marker.
    assert (FT : match tk_text k with Some t => list_eqb t (s "$ion_symbol_table"%string) | None => false end
                 = fname_is k "$ion_symbol_table") by reflexivity.
    rewrite FT. clear FT.
    destruct (tk_sid k =? 3)%Z; destruct (fname_is k "$ion_symbol_table"); cbn [Bool.eqb] in RG; try discriminate;
      rewrite ?andb_false_r; cbn [orb].
    + cbn [bind spec_of_imports].
      destruct cur as [t|]; cbn [slots_of_cur].
      * destruct CO as [SI FW]. unfold lst_imports, lst_symbols. rewrite (effective_starts_ion t _ SI).
        rewrite flat_map_app. cbn [flat_map]. rewrite shared_slots_new, app_nil_r. split; [reflexivity|].
        apply Forall_app. split; [exact FW|]. constructor; [apply sst_wf_new | constructor].
      * cbn [app effective_imports flat_map]. rewrite shared_slots_system, app_nil_r. split; [reflexivity | constructor].
    + exact BASE.
  - (* list *)
    cbn [imports_regular] in RG. cbn [t_imports imports_of].
    pose proof (t_import_list_refines cat l WC RG) as H.
    destruct (t_import_list cat l) as [xs| | |]; try contradiction.
    + destruct H as (HS & FW & FN). rewrite (effective_not_ion xs FN). cbn [flat_map].
      rewrite shared_slots_system. split; [|exact FW].
      destruct (decls_of_total l) as [EL|(ds & EL)]; rewrite EL in *; cbn [bind] in *; [discriminate|].
      cbn [spec_of_imports]. rewrite HS. reflexivity.
    + destruct (decls_of_total l) as [EL|(ds & EL)]; rewrite EL in *; cbn [bind] in *; [reflexivity|].
      cbn [spec_of_imports]. rewrite H. reflexivity.
Qed.

(* ---- the fields of the table struct ------------------------------------------------------------------------ *)
Definition pure_syms (v : tval) : list SymTab.text :=
  match v with
  | TvList l => map (fun x => match x with TvString t => t | _ => [] end) l
  | _ => []
  end.
Definition symbols_regular (v : tval) : bool :=
  match v with
  | TvNull ty => negb (ty =? TList)
  | TvList l => forallb (fun x => match x with TvString _ => true | _ => false end) l
  | _ => true
  end.
Lemma t_symbols_regular v : symbols_regular v = true ->
  t_symbols v = Ok (pure_syms v) /\ symbols_of v = map Some (pure_syms v).
Proof.
  destruct v; cbn [symbols_regular t_symbols pure_syms symbols_of map]; intros H; try (split; reflexivity).
  - apply negb_true_iff in H. rewrite H. split; reflexivity.
  - split; [reflexivity|]. rewrite map_map. apply map_ext_in. intros x Hx.
    rewrite forallb_forall in H. specialize (H x Hx). destruct x; try discriminate. reflexivity.
Qed.

Lemma regular_field_inv k v : regular_field (k, v) = true ->
  exists fnm, tk_text k = Some fnm /\
    (list_eqb fnm (s "symbols"%string) = true -> symbols_regular v = true) /\
    (list_eqb fnm (s "imports"%string) = true -> imports_regular v = true).
Proof.
  unfold regular_field. cbn [fst snd]. intros H. apply andb_prop in H. destruct H as [HT H].
  unfold has_text in HT. destruct (tk_text k) as [fnm|] eqn:TX; [|discriminate]. exists fnm. split; [reflexivity|].
  rewrite (fname_is_text k fnm "symbols" TX), (fname_is_text k fnm "imports" TX) in H.
  split; intros E.
  - rewrite E in H. exact H.
  - destruct (list_eqb fnm (s "symbols"%string)) eqn:E2.
    + apply list_eqb_eq in E2. subst fnm. discriminate.
    + rewrite E in H. exact H.
Qed.

Lemma loop_spec cat cur fs : forall imps syms (fi fsy : bool),
  forallb regular_field fs = true ->
  (count_named fs "imports" <= (if fi then 0 else 1))%nat ->
  (count_named fs "symbols" <= (if fsy then 0 else 1))%nat ->
  t_lst_fields cat cur fs imps syms fi fsy =
  do im <- (match fields_named fs "imports" with v :: _ => t_imports cat cur v | [] => Ok imps end);
  Ok (im, match fields_named fs "symbols" with v :: _ => pure_syms v | [] => syms end).
Proof.
  induction fs as [|[k v] r IH]; intros imps syms fi fsy RG CI CS; [reflexivity|].
  cbn [forallb] in RG. apply andb_prop in RG. destruct RG as [RG RGr].
  destruct (regular_field_inv k v RG) as (fnm & TX & HS & HI).
  rewrite count_named_cons in CI, CS.
  rewrite (fname_is_text k fnm "imports" TX) in CI. rewrite (fname_is_text k fnm "symbols" TX) in CS.
  rewrite !fields_named_cons.
  rewrite (fname_is_text k fnm "imports" TX), (fname_is_text k fnm "symbols" TX).
  cbn [t_lst_fields]. rewrite TX.
  destruct (list_eqb fnm (s "symbols"%string)) eqn:E1.
  - assert (E2 : list_eqb fnm (s "imports"%string) = false).
    { apply list_eqb_eq in E1. subst fnm. reflexivity. }
    rewrite E2 in *. destruct fsy; [lia|].
    destruct (t_symbols_regular v (HS eq_refl)) as [-> _]. cbn [bind].
    rewrite (IH imps (pure_syms v) fi true RGr CI ltac:(cbn; lia)).
    rewrite (count0 r "symbols" ltac:(lia)). reflexivity.
  - destruct (list_eqb fnm (s "imports"%string)) eqn:E2.
    + destruct fi; [lia|].
      destruct (t_imports cat cur v) as [im| | |]; cbn [bind]; try reflexivity.
      rewrite (IH im syms true fsy RGr ltac:(cbn; lia) CS).
      rewrite (count0 r "imports" ltac:(lia)). reflexivity.
    + apply IH; assumption.
Qed.

Definition regular_table (fs : list (tok * tval)) : Prop :=
  regular_struct fs = true /\ (count_named fs "imports" <= 1)%nat /\ (count_named fs "symbols" <= 1)%nat.

Definition spec_struct (C : scatalog) (cx : ctx) (fs : list (tok * tval)) : res ctx :=
  do it <- item_of_struct fs; spec_step C cx it.

Lemma lst_new_imports imps syms :
  l_imports (lst_new imps syms) = effective_imports imps /\ l_syms (lst_new imps syms) = syms.
Proof.
  unfold lst_new, process_imports. destruct (offsets_from (effective_imports imps) 0). split; reflexivity.
Qed.
Lemma effective_starts imps : exists i0 rest, effective_imports imps = i0 :: rest /\ text_eqb (sh_name i0) ion_name = true.
Proof.
  destruct imps as [|i0 r]; cbn [effective_imports].
  - exists system_table, []. split; reflexivity.
  - destruct (text_eqb (sh_name i0) ion_name) eqn:E.
    + exists i0, r. split; [reflexivity | exact E].
    + exists system_table, (i0 :: r). split; reflexivity.
Qed.
Lemma effective_wf imps : Forall sh_wf imps -> Forall sh_wf (effective_imports imps).
Proof. apply effective_imports_wf. Qed.

Lemma spec_step_of_imports C cx f sy :
  spec_step C cx (LocalTable f sy) = do base <- spec_of_imports C cx f; Ok (base ++ sy).
Proof.
  destruct f; cbn [spec_step spec_of_imports bind]; [reflexivity|].
  destruct (imports_slots C l); cbn [bind]; reflexivity.
Qed.

Lemma finish_step C cx (IMPL : res (list shared)) (SPECF : res imports_field) syms :
  match IMPL with
  | Ok imps => (do f <- SPECF; spec_of_imports C cx f) = Ok (flat_map shared_slots (effective_imports imps))
               /\ Forall sh_wf imps
  | Err => (do f <- SPECF; spec_of_imports C cx f) = Err
  | _ => False
  end ->
  match (do '(imps, sy) <- (do im <- IMPL; Ok (im, syms)); Ok (lst_new imps sy)) with
  | Ok t => (do it <- (do imps <- SPECF; Ok (LocalTable imps (map Some syms))); spec_step C cx it) = Ok (slots_of t)
            /\ cur_ok (Some t)
  | Err => (do it <- (do imps <- SPECF; Ok (LocalTable imps (map Some syms))); spec_step C cx it) = Err
  | _ => False
  end.
Proof.
  destruct IMPL as [imps| | |]; cbn [bind]; try contradiction.
  - intros [H FW]. destruct SPECF as [f| | |]; cbn [bind] in *; try discriminate.
    rewrite spec_step_of_imports, H. cbn [bind]. unfold slots_of.
    destruct (lst_new_imports imps syms) as [-> ->]. split; [reflexivity|].
    cbn [cur_ok]. destruct (lst_new_imports imps syms) as [E _]. unfold starts_ion. rewrite E.
    split; [apply effective_starts | apply effective_wf; exact FW].
  - intros H. destruct SPECF as [f| | |]; cbn [bind] in *; try discriminate; [|reflexivity].
    rewrite spec_step_of_imports, H. reflexivity.
Qed.

Theorem ctx_step_refines_m cat cur fs : wf_cat cat -> cur_ok cur -> regular_table fs ->
  match impl_step cat cur fs with
  | Ok t => spec_struct (spec_cat cat) (slots_of_cur cur) fs = Ok (slots_of t) /\ cur_ok (Some t)
  | Err => spec_struct (spec_cat cat) (slots_of_cur cur) fs = Err
  | _ => False
  end.
Proof.
  intros WC CO (RG & CI & CS). unfold impl_step.
  rewrite (loop_spec cat cur fs [] [] false false RG CI CS).
  unfold spec_struct, item_of_struct.
  assert (RGf : forall nm v rest, fields_named fs nm = v :: rest ->
            exists k, In (k, v) fs /\ fname_is k nm = true).
  { intros nm v rest H. unfold fields_named in H.
    assert (IN : In v (map snd (filter (fun f => fname_is (fst f) nm) fs))) by (rewrite H; left; reflexivity).
    apply in_map_iff in IN. destruct IN as ([k v'] & EQ & IN). cbn [snd] in EQ. subst v'.
    apply filter_In in IN. destruct IN as [IN FN]. exists k. split; assumption. }
  unfold regular_struct in RG. rewrite forallb_forall in RG.
  assert (SY : match fields_named fs "symbols" with v :: _ => symbols_of v | [] => [] end
               = map Some (match fields_named fs "symbols" with v :: _ => pure_syms v | [] => [] end)).
  { destruct (fields_named fs "symbols") as [|v rest] eqn:E; [reflexivity|].
    destruct (RGf _ _ _ E) as (k & IN & FN). specialize (RG _ IN).
    destruct (regular_field_inv k v RG) as (fnm & TX & HS & _).
    rewrite (fname_is_text k fnm _ TX) in FN. apply (t_symbols_regular v (HS FN)). }
  assert (IM : match (match fields_named fs "imports" with v :: _ => t_imports cat cur v | [] => Ok [] end) with
               | Ok imps => (do f <- (match fields_named fs "imports" with v :: _ => imports_of v | [] => Ok (ImpList []) end);
                             spec_of_imports (spec_cat cat) (slots_of_cur cur) f)
                            = Ok (flat_map shared_slots (effective_imports imps)) /\ Forall sh_wf imps
               | Err => (do f <- (match fields_named fs "imports" with v :: _ => imports_of v | [] => Ok (ImpList []) end);
                         spec_of_imports (spec_cat cat) (slots_of_cur cur) f) = Err
               | _ => False
               end).
  { destruct (fields_named fs "imports") as [|v rest] eqn:E.
    - split; [|constructor]. cbn [bind spec_of_imports imports_slots effective_imports flat_map].
      rewrite shared_slots_system, !app_nil_r. reflexivity.
    - destruct (RGf _ _ _ E) as (k & IN & FN). specialize (RG _ IN).
      destruct (regular_field_inv k v RG) as (fnm & TX & _ & HI).
      rewrite (fname_is_text k fnm _ TX) in FN. apply (t_imports_refines cat cur v WC CO (HI FN)). }
  pose proof (finish_step _ _ _ _ (match fields_named fs "symbols" with v :: _ => pure_syms v | [] => [] end) IM) as FIN.
  rewrite <- SY in FIN. clear SY IM.
  unfold count_named in CI, CS.
  destruct (fields_named fs "imports") as [|vi [|? ?]]; [| |cbn in CI; lia];
    destruct (fields_named fs "symbols") as [|vs [|? ?]]; try (cbn in CS; lia); exact FIN.
Qed.

Definition res_map {A B} (f : A -> B) (r : res A) : res B :=
  match r with Ok a => Ok (f a) | Err => Err | Panic => Panic | OutOfFuel => OutOfFuel end.

Theorem ctx_step_refines cat cur fs : wf_cat cat -> cur_ok cur -> regular_table fs ->
  res_map slots_of (impl_step cat cur fs) = spec_struct (spec_cat cat) (slots_of_cur cur) fs.
Proof.
  intros WC CO RT. pose proof (ctx_step_refines_m cat cur fs WC CO RT) as H.
  destruct (impl_step cat cur fs); cbn [res_map]; try contradiction; [destruct H as [-> _] | rewrite H]; reflexivity.
Qed.

(* ---- histories ------------------------------------------------------------------------------------------------ *)
Definition regular_history (hs : list hitem) : Prop :=
  Forall (fun h => match h with HIvm => True | HTable fs => regular_table fs end) hs.

Theorem history_refines cat : wf_cat cat -> forall hs cur, cur_ok cur -> regular_history hs ->
  res_map slots_of_cur (impl_history cat cur hs) = spec_history (spec_cat cat) (slots_of_cur cur) hs.
Proof.
  intros WC. induction hs as [|h hs IH]; intros cur CO RH; [reflexivity|].
  inversion RH; subst. cbn [impl_history spec_history].
  destruct h as [|fs]; cbn [impl_hstep item_of_hitem bind spec_step].
  - apply (IH None I H2).
  - pose proof (ctx_step_refines_m cat cur fs WC CO H1) as H. unfold spec_struct in H.
    destruct (impl_step cat cur fs) as [t| | |]; cbn [bind]; try contradiction.
    + destruct H as [HS CO']. destruct (item_of_struct fs) as [it| | |]; cbn [bind] in *; try discriminate.
      rewrite HS. cbn [bind]. apply (IH (Some t) CO' H2).
    + destruct (item_of_struct fs) as [it| | |]; cbn [bind] in *; try discriminate; [rewrite H|]; reflexivity.
Qed.

Lemma in_firstn_in {A} n : forall (l : list A) x, In x (firstn n l) -> In x l.
Proof.
  induction n as [|n IH]; intros [|a l] x H; cbn [firstn] in H; try contradiction.
  destruct H as [->|H]; [left; reflexivity | right; apply IH; exact H].
Qed.
(* the context in force after ANY prefix of the history is the specification's *)
Theorem history_prefix_refines cat hs n : wf_cat cat -> regular_history hs ->
  res_map slots_of_cur (impl_history cat None (firstn n hs))
  = spec_history (spec_cat cat) LstSpec.system_ctx (firstn n hs).
Proof.
  intros WC RH. apply (history_refines cat WC (firstn n hs) None I).
  unfold regular_history in *. rewrite Forall_forall in *. intros h Hh. apply RH.
  eapply in_firstn_in; exact Hh.
Qed.

(* ---- symbol IDs resolve against the specification's context ---------------------------------------------- *)
Lemma nth_error_seq start n i : (i < n)%nat -> nth_error (seq start n) i = Some (start + i)%nat.
Proof.
  revert start i. induction n as [|n IH]; intros start [|i] H; cbn [seq nth_error]; try lia.
  - f_equal. lia.
  - rewrite IH by lia. f_equal. lia.
Qed.
Lemma shared_slots_nth x j : 1 <= j <= sh_max x ->
  nth_error (shared_slots x) (N.to_nat (j - 1)) = Some (sh_find_by_id x j).
Proof.
  intros H. unfold shared_slots, ids_upto. rewrite map_map.
  erewrite map_nth_error; [|apply nth_error_seq; lia]. do 2 f_equal. lia.
Qed.
Lemma flat_slots_len imps : List.length (flat_map shared_slots imps) = N.to_nat (sum_max imps).
Proof.
  induction imps as [|a r IH]; [reflexivity|]. cbn [flat_map sum_max].
  rewrite app_length, shared_slots_len, IH. lia.
Qed.
Lemma flat_slots_nth imps : forall k imp j, nth_error imps k = Some imp -> 1 <= j <= sh_max imp ->
  nth_error (flat_map shared_slots imps) (N.to_nat (offset_of imps k + j - 1)) = Some (sh_find_by_id imp j).
Proof.
  induction imps as [|a r IH]; intros [|k] imp j Hn Hj; cbn [nth_error] in Hn; try discriminate.
  - inversion Hn; subst. cbn [flat_map]. rewrite offset_of_0.
    rewrite nth_error_app1 by (rewrite shared_slots_len; lia).
    replace (0 + j - 1) with (j - 1) by lia. apply shared_slots_nth. exact Hj.
  - cbn [flat_map]. rewrite offset_of_S.
    rewrite nth_error_app2 by (rewrite shared_slots_len; lia). rewrite shared_slots_len.
    replace (N.to_nat (sh_max a + offset_of r k + j - 1) - N.to_nat (sh_max a))%nat
      with (N.to_nat (offset_of r k + j - 1)) by lia.
    apply IH; assumption.
Qed.
Lemma nth_N_nth_error {A} (l : list A) : forall i, nth_N l i = nth_error l (N.to_nat i).
Proof.
  induction l as [|x l IH]; intros i; cbn [nth_N].
  - destruct (N.to_nat i); reflexivity.
  - destruct (N.eqb_spec i 0) as [->|NE]; [reflexivity|].
    rewrite IH. replace (N.to_nat i) with (S (N.to_nat (i - 1))) by lia. reflexivity.
Qed.

Theorem resolve_refines t sid : lst_wf t -> impl_resolve (Some t) sid = resolve (slots_of t) sid.
Proof.
  intros W. unfold impl_resolve, resolve, slots_of.
  pose proof (lst_max_id_spec t W) as MX.
  destruct (N.eqb_spec sid 0) as [->|NZ].
  - destruct (N.ltb_spec (lst_max_id t) 0); [lia|]. rewrite find_by_id_0. reflexivity.
  - destruct (N.ltb_spec (lst_max_id t) sid) as [L|L].
    + rewrite (proj2 (nth_error_None _ _)); [reflexivity|].
      rewrite app_length, flat_slots_len, map_length. unfold lenN in MX. lia.
    + destruct (N.le_gt_cases sid (sum_max (l_imports t))) as [LI|LI].
      * destruct (slot_decompose (l_imports t) sid ltac:(lia)) as (k & imp & j & Hn & Hj & ->).
        rewrite (find_by_id_import t k imp j W Hn Hj).
        rewrite nth_error_app1 by (rewrite flat_slots_len; lia).
        rewrite (flat_slots_nth _ _ _ _ Hn Hj). reflexivity.
      * set (j := sid - sum_max (l_imports t) - 1).
        assert (Hj : j < lenN (l_syms t)) by (unfold j; lia).
        replace sid with (sum_max (l_imports t) + 1 + j) by (unfold j; lia).
        rewrite (find_by_id_local t j W Hj).
        rewrite nth_error_app2 by (rewrite flat_slots_len; lia). rewrite flat_slots_len.
        replace (N.to_nat (sum_max (l_imports t) + 1 + j - 1) - N.to_nat (sum_max (l_imports t)))%nat
          with (N.to_nat j) by lia.
        rewrite nth_N_nth_error. destruct (nth_error (l_syms t) (N.to_nat j)) eqn:E.
        -- erewrite map_nth_error by exact E. reflexivity.
        -- apply nth_error_None in E. unfold lenN in Hj. lia.
Qed.

Theorem resolve_refines_system sid : impl_resolve None sid = resolve LstSpec.system_ctx sid.
Proof.
  unfold impl_resolve, resolve. destruct (N.ltb_spec 9 sid) as [L|L].
  - destruct (N.eqb_spec sid 0); [lia|].
    rewrite (proj2 (nth_error_None _ _)); [reflexivity|]. cbn [LstSpec.system_ctx LstSpec.system_texts map List.length]. lia.
  - assert (H : sid = 0 \/ sid = 1 \/ sid = 2 \/ sid = 3 \/ sid = 4 \/ sid = 5 \/ sid = 6 \/ sid = 7 \/ sid = 8 \/ sid = 9) by lia.
    repeat (destruct H as [->|H]; [reflexivity|]). subst. reflexivity.
Qed.

(* the table ion-go builds is well-formed as long as the declared sizes stay below 2^64 *)
Theorem impl_step_wf cat cur fs t : wf_cat cat -> cur_ok cur -> regular_table fs ->
  impl_step cat cur fs = Ok t -> sum_max (l_imports t) + lenN (l_syms t) < two64 -> lst_wf t.
Proof.
  intros WC CO RT E B. pose proof (ctx_step_refines_m cat cur fs WC CO RT) as H. rewrite E in H.
  destruct H as [_ [(i0 & rest & EI & _) FW]].
  unfold impl_step in E. destruct (t_lst_fields cat cur fs [] [] false false) as [[imps syms]| | |]; try discriminate.
  cbn [bind] in E. inversion E; subst t. clear E.
  destruct (lst_new_imports imps syms) as [E1 E2]. rewrite E1, E2 in *.
  unfold lst_wf. rewrite E1, E2. unfold lst_new, process_imports in *.
  destruct (offsets_from (effective_imports imps) 0) as [offs m] eqn:EO. cbn [l_offsets l_maximp].
  repeat split; try assumption. rewrite EI. discriminate.
Qed.

(* ---- full-strength statements that are false of the code, with witnesses ---------------------------------- *)
Definition step_refines_any_struct : Prop := forall cat cur fs, wf_cat cat -> cur_ok cur ->
  res_map slots_of (impl_step cat cur fs) = spec_struct (spec_cat cat) (slots_of_cur cur) fs.

Definition ftok (name : string) (sid : Z) : tok := {| tk_text := Some (s name); tk_sid := sid |}.
(* D16  $ion_symbol_table::{symbols:[1]}: slot 10 gets text "" instead of no text *)
Definition dev_nonstring : list (tok * tval) := [(ftok "symbols" 7, TvList [TvInt 1])].
(* D28  imports:'$ion_symbol_table' (text known, SID unknown) after {symbols:["a"]}: replaces instead of appending *)
Definition dev_quoted : list (tok * tval) :=
  [(ftok "imports" 6, TvSymbol {| tk_text := Some (s "$ion_symbol_table"%string); tk_sid := (-1)%Z |});
   (ftok "symbols" 7, TvList [TvString [98]])].
Definition dev_cur : lst := lst_new [] [[97]].
(* symbols:null.list is an error instead of an empty list *)
Definition dev_null_list : list (tok * tval) := [(ftok "symbols" 7, TvNull TList)].
(* a field whose name has no text ($0:1) is an error instead of being ignored *)
Definition dev_notext : list (tok * tval) :=
  [({| tk_text := None; tk_sid := 0 |}, TvInt 1); (ftok "symbols" 7, TvList [TvString [97]])].

Lemma dev_cur_ok : cur_ok (Some dev_cur).
Proof.
  split; [exists system_table, []; split; reflexivity|].
  repeat constructor. apply sst_wf_new.
Qed.

Lemma step_deviations :
  res_map slots_of (impl_step None None dev_nonstring) = Ok (LstSpec.system_ctx ++ [Some []]) /\
  spec_struct [] LstSpec.system_ctx dev_nonstring = Ok (LstSpec.system_ctx ++ [None]) /\
  res_map slots_of (impl_step None (Some dev_cur) dev_quoted)
    = Ok (LstSpec.system_ctx ++ (if fix_append_text then [Some [97]; Some [98]] else [Some [98]])) /\
  spec_struct [] (slots_of dev_cur) dev_quoted = Ok (LstSpec.system_ctx ++ [Some [97]; Some [98]]) /\
  res_map slots_of (impl_step None None dev_null_list) = (if fix_null_list then Ok LstSpec.system_ctx else Err) /\
  spec_struct [] LstSpec.system_ctx dev_null_list = Ok LstSpec.system_ctx /\
  res_map slots_of (impl_step None None dev_notext) = Err /\
  spec_struct [] LstSpec.system_ctx dev_notext = Ok (LstSpec.system_ctx ++ [Some [97]]).
Proof. vm_compute. repeat split; reflexivity. Qed.

Lemma step_refines_any_struct_refuted : ~ step_refines_any_struct.
Proof.
  intros H. specialize (H None None dev_nonstring I I).
  destruct step_deviations as (A & B & _). cbn [spec_cat slots_of_cur] in H. rewrite A, B in H. discriminate.
Qed.

(* duplicates agree: both sides reject a table with two symbols (or two imports) fields *)
Lemma duplicates_agree :
  impl_step None None [(ftok "symbols" 7, TvList []); (ftok "symbols" 7, TvList [])] = Err /\
  spec_struct [] LstSpec.system_ctx [(ftok "symbols" 7, TvList []); (ftok "symbols" 7, TvList [])] = Err /\
  impl_step None None [(ftok "imports" 6, TvList []); (ftok "imports" 6, TvList [])] = Err /\
  spec_struct [] LstSpec.system_ctx [(ftok "imports" 6, TvList []); (ftok "imports" 6, TvList [])] = Err.
Proof. vm_compute. repeat split; reflexivity. Qed.

(* D17: without the size bound of lst_wf the offsets wrap and IDs resolve to the wrong slot *)
Definition resolve_any_size : Prop := forall t sid, cur_ok (Some t) ->
  impl_resolve (Some t) sid = resolve (slots_of t) sid.
Definition big63 : N := 9223372036854775807.
Definition dev_overflow : lst := lst_new [Bogus [65] 1 big63; Bogus [65] 1 big63; Bogus [66] 1 3] [[97]].
Lemma resolve_overflow_refuted : ~ resolve_any_size.
Proof.
  intros H. specialize (H dev_overflow 11).
  assert (CO : cur_ok (Some dev_overflow)).
  { split; [exists system_table, [Bogus [65] 1 big63; Bogus [65] 1 big63; Bogus [66] 1 3]; split; reflexivity|].
    repeat constructor. apply sst_wf_new. }
  specialize (H CO).
  assert (A : impl_resolve (Some dev_overflow) 11 = Ok (Some [97])) by (vm_compute; reflexivity).
  assert (B : resolve (slots_of dev_overflow) 11 = Ok None).
  { unfold resolve, slots_of. change (11 =? 0) with false. cbv iota.
    change (N.to_nat (11 - 1)) with (N.to_nat (offset_of (l_imports dev_overflow) 1 + 2 - 1)).
    rewrite nth_error_app1.
    - rewrite (flat_slots_nth (l_imports dev_overflow) 1 (Bogus [65] 1 big63) 2); [reflexivity | reflexivity |].
      cbn [sh_max]. unfold big63. lia.
    - rewrite flat_slots_len.
      change (sum_max (l_imports dev_overflow)) with 18446744073709551626.
      change (offset_of (l_imports dev_overflow) 1) with 9. lia. }
  rewrite A, B in H. discriminate.
Qed.
