(* LstSpec.v — SPECIFICATION of the symbol context of an Ion stream, written from
   the Ion 1.0 rules ("Symbols": system symbols, local symbol tables, imports,
   catalogs), sharing nothing with the reader model.

   A context is the list of slots in force: slot i (0-based) is symbol ID i+1
   and holds the symbol's text, or nothing when the text is undefined.
   A history item is a version marker or a local symbol table, given by what the
   rules look at: its imports (the symbol $ion_symbol_table = "append to the
   current context", or a list of import declarations) and its symbols.

   Import resolution (Ion "Imports", steps 1-4): name "" or "$ion" is ignored;
   version absent or < 1 is 1; the catalog's exact (name, version) match is
   taken, trimmed or padded to max_id (max_id absent: the table's own length);
   otherwise max_id is required and the greatest version of that name is taken,
   trimmed or padded to max_id; otherwise max_id placeholder slots of undefined
   text are allocated.  No proofs in this file. *)
From Coq Require Import List NArith ZArith Bool String.
From IonV Require Import Base.Wire Data.Ion.
Import ListNotations.
Open Scope N_scope.

Definition stext := list N.
Definition ctx := list (option stext).

(* ---- shared tables and catalogs, as the rules see them --------------------------------- *)
Record stable := { st_name : stext; st_version : Z; st_symbols : list (option stext) }.
Definition scatalog := list stable.

Record import_decl := { i_name : stext; i_version : option Z; i_maxid : option N }.
Inductive imports_field := ImpAppend | ImpList (l : list import_decl).
Inductive item :=
| IVM                                                         (* version marker *)
| LocalTable (imps : imports_field) (syms : list (option stext)).

Open Scope string_scope.
Definition system_texts : list stext :=
  [ s "$ion"; s "$ion_1_0"; s "$ion_symbol_table"; s "name"; s "version"; s "imports";
    s "symbols"; s "max_id"; s "$ion_shared_symbol_table" ].
Close Scope string_scope.
Definition system_ctx : ctx := map Some system_texts.

(* exactly [n] slots: the first n of [l], padded with undefined text *)
Definition fit (n : N) (l : ctx) : ctx :=
  firstn (N.to_nat n) l ++ repeat None (N.to_nat n - List.length l).

Definition name_is (t : stable) (name : stext) : bool := list_eqb (st_name t) name.
Fixpoint find_exact (c : scatalog) (name : stext) (ver : Z) : option stable :=
  match c with
  | [] => None
  | t :: r => if name_is t name && (st_version t =? ver)%Z then Some t else find_exact r name ver
  end.
(* the table of that name with the greatest version *)
Fixpoint find_latest (c : scatalog) (name : stext) : option stable :=
  match c with
  | [] => None
  | t :: r =>
    if name_is t name then
      match find_latest r name with
      | Some u => if (st_version t <? st_version u)%Z then Some u else Some t
      | None => Some t
      end
    else find_latest r name
  end.

Definition effective_version (v : option Z) : Z :=
  match v with Some z => if (z <? 1)%Z then 1%Z else z | None => 1%Z end.

Definition import_slots (c : scatalog) (d : import_decl) : res ctx :=
  if list_eqb (i_name d) [] || list_eqb (i_name d) (s "$ion"%string) then Ok []
  else
    let v := effective_version (i_version d) in
    match find_exact c (i_name d) v with
    | Some t =>
      Ok (fit (match i_maxid d with Some m => m | None => N.of_nat (List.length (st_symbols t)) end) (st_symbols t))
    | None =>
      match i_maxid d with
      | None => Err                                   (* no usable max_id and no exact match *)
      | Some m =>
        match find_latest c (i_name d) with
        | Some t => Ok (fit m (st_symbols t))
        | None => Ok (repeat None (N.to_nat m))
        end
      end
    end.

Fixpoint imports_slots (c : scatalog) (ds : list import_decl) : res ctx :=
  match ds with
  | [] => Ok []
  | d :: r => do a <- import_slots c d; do b <- imports_slots c r; Ok (a ++ b)
  end.

(* one item of the history *)
Definition spec_step (c : scatalog) (cur : ctx) (it : item) : res ctx :=
  match it with
  | IVM => Ok system_ctx
  | LocalTable ImpAppend syms => Ok (cur ++ syms)
  | LocalTable (ImpList ds) syms => do imp <- imports_slots c ds; Ok (system_ctx ++ imp ++ syms)
  end.

(* the context after a whole history, from the system context *)
Fixpoint spec_run (c : scatalog) (cur : ctx) (its : list item) : res ctx :=
  match its with
  | [] => Ok cur
  | it :: r => do cur' <- spec_step c cur it; spec_run c cur' r
  end.

(* a symbol ID against the context: $0 has no text, an ID above the maximum is an error *)
Definition resolve (cur : ctx) (sid : N) : res (option stext) :=
  if sid =? 0 then Ok None
  else match nth_error cur (N.to_nat (sid - 1)) with
       | Some slot => Ok slot
       | None => Err
       end.

(* ---- a local symbol table as a value --------------------------------------------------- *)
(* the value tree of a symbol-table struct, as far as the rules look at it: symbols are
   tokens (text when known, and the symbol ID they were written with), every value that is
   neither a string, an int, a symbol, a list nor a struct only has a type *)
Inductive tval :=
| TvNull (ty : N)                       (* null of ion.Type ty *)
| TvString (t : stext)
| TvInt (z : Z)
| TvSymbol (k : tok)
| TvList (l : list tval)
| TvStruct (fs : list (tok * tval))
| TvOther (ty : N).

Definition fname_is (k : tok) (name : string) : bool :=
  match tk_text k with Some t => list_eqb t (s name) | None => false end.
Definition fields_named (fs : list (tok * tval)) (name : string) : list tval :=
  map snd (filter (fun f => fname_is (fst f) name) fs).

(* the symbols field: a list; every element that is not a string is a gap *)
Definition symbols_of (v : tval) : list (option stext) :=
  match v with
  | TvList l => map (fun x => match x with TvString t => Some t | _ => None end) l
  | _ => []
  end.

(* one element of the imports list; None = not an import declaration (ignored) *)
Definition decl_of (v : tval) : res (option import_decl) :=
  match v with
  | TvStruct fs =>
    let name := match fields_named fs "name" with TvString t :: _ => t | _ => [] end in
    let ver := match fields_named fs "version" with TvInt z :: _ => Some z | _ => None end in
    do m <- (match fields_named fs "max_id" with
             | TvInt z :: _ => Ok (if (z <? 0)%Z then None else Some (Z.to_N z))
             | TvNull ty :: _ => if ty =? TInt then Err else Ok None     (* null.int max_id: invalid *)
             | _ => Ok None
             end);
    Ok (Some {| i_name := name; i_version := ver; i_maxid := m |})
  | _ => Ok None
  end.
Fixpoint decls_of (l : list tval) : res (list import_decl) :=
  match l with
  | [] => Ok []
  | v :: r => do d <- decl_of v; do ds <- decls_of r;
              Ok (match d with Some x => x :: ds | None => ds end)
  end.
Definition imports_of (v : tval) : res imports_field :=
  match v with
  | TvSymbol k => if fname_is k "$ion_symbol_table" then Ok ImpAppend else Ok (ImpList [])
  | TvList l => do ds <- decls_of l; Ok (ImpList ds)
  | _ => Ok (ImpList [])
  end.

(* the item a symbol-table struct denotes; a struct with several imports or several symbols
   fields is invalid (ion-tests bad/localSymbolTableWithMultiple{Imports,Symbols}Fields) *)
Definition item_of_struct (fs : list (tok * tval)) : res item :=
  match fields_named fs "imports", fields_named fs "symbols" with
  | _ :: _ :: _, _ => Err
  | _, _ :: _ :: _ => Err
  | im, sy =>
    do imps <- (match im with v :: _ => imports_of v | [] => Ok (ImpList []) end);
    Ok (LocalTable imps (match sy with v :: _ => symbols_of v | [] => [] end))
  end.

(* a stream's history: version markers and symbol-table structs, in order *)
Inductive hitem := HIvm | HTable (fs : list (tok * tval)).
Definition item_of_hitem (h : hitem) : res item :=
  match h with HIvm => Ok IVM | HTable fs => item_of_struct fs end.
Fixpoint spec_history (c : scatalog) (cur : ctx) (hs : list hitem) : res ctx :=
  match hs with
  | [] => Ok cur
  | h :: r => do it <- item_of_hitem h; do cur' <- spec_step c cur it; spec_history c cur' r
  end.
