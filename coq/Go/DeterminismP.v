(* DeterminismP.v — MarshalText does not depend on Go's map iteration order: sort.Slice on the (distinct) keys gives
   the same list for every order in which the map delivered them.  encodeMap is the only place where the order of a
   map enters the output, so this holds for a map at any depth of any value. *)
From Coq Require Import String List NArith ZArith Bool Lia ZifyBool ZifyN ZifyNat Arith Permutation.
From IonV Require Import Base.Wire Data.Ion Num.Float Bin.BinWriter
  Go.GoTypes Go.Fields Go.Encode Go.Decode Go.MarshalSpec Go.MarshalP Go.DecodeSafeP Go.RoundtripP.
Import ListNotations.
Open Scope N_scope.

Lemma ltb_one_of : forall a b, a <> b -> (text_ltb a b = true /\ text_ltb b a = false) \/ (text_ltb a b = false /\ text_ltb b a = true).
Proof.
  intros a b Hne. destruct (text_ltb a b) eqn:E.
  - left. split; [reflexivity|]. exact (proj1 (text_ltb_asym _ _ E)).
  - right. split; [reflexivity|]. apply text_ltb_total; assumption.
Qed.

Lemma insert_key_comm : forall {A} k1 (x1 : A) k2 x2 l, k1 <> k2 ->
  insert_key k1 x1 (insert_key k2 x2 l) = insert_key k2 x2 (insert_key k1 x1 l).
Proof.
  intros A k1 x1 k2 x2 l Hne. induction l as [|[k' y] r IH].
  - cbn [insert_key]. destruct (ltb_one_of k1 k2 Hne) as [[E1 E2]|[E1 E2]]; rewrite E1, E2; reflexivity.
  - cbn [insert_key]. destruct (text_ltb k1 k') eqn:A1; destruct (text_ltb k2 k') eqn:A2; cbn [insert_key].
    + destruct (ltb_one_of k1 k2 Hne) as [[E1 E2]|[E1 E2]]; rewrite E1, E2; rewrite ?A1, ?A2; reflexivity.
    + rewrite A1. assert (E : text_ltb k2 k1 = false).
      { destruct (text_ltb k2 k1) eqn:E; [|reflexivity]. rewrite (text_ltb_trans _ _ _ E A1) in A2. discriminate A2. }
      rewrite E, A2. reflexivity.
    + rewrite A2. assert (E : text_ltb k1 k2 = false).
      { destruct (text_ltb k1 k2) eqn:E; [|reflexivity]. rewrite (text_ltb_trans _ _ _ E A2) in A1. discriminate A1. }
      rewrite E, A1. reflexivity.
    + rewrite A1, A2, IH. reflexivity.
Qed.

Lemma sort_keys_cons : forall {A} (a : text * A) l, sort_keys (a :: l) = insert_key (fst a) (snd a) (sort_keys l).
Proof. reflexivity. Qed.

Lemma sort_keys_perm : forall {A} (l l' : list (text * A)),
  Permutation l l' -> NoDup (map fst l) -> sort_keys l = sort_keys l'.
Proof.
  intros A l l' HP. induction HP as [|a l l' HP IH|a b l|l l' l'' HP1 IH1 HP2 IH2]; intro Hnd.
  - reflexivity.
  - rewrite !sort_keys_cons. rewrite IH; [reflexivity|]. inversion Hnd; assumption.
  - rewrite !sort_keys_cons. apply insert_key_comm. cbn [map] in Hnd. inversion Hnd as [|? ? Hin _]; subst.
    intro E. apply Hin. left. symmetry. exact E.
  - rewrite IH1 by exact Hnd. apply IH2. eapply Permutation_NoDup; [|exact Hnd]. apply Permutation_map. exact HP1.
Qed.

(* encodeMap under EncodeSortMaps, for ANY recursive encoder, element type and hint: the calls do not depend on the
   order in which the map delivers its (distinct) keys *)
Theorem enc_map_order_independent : forall rec e m m' h,
  Permutation m m' -> NoDup (map fst m) -> enc_map rec true e m h = enc_map rec true e m' h.
Proof. intros rec e m m' h HP Hnd. unfold enc_map. rewrite (sort_keys_perm m m' HP Hnd). reflexivity. Qed.

(* MarshalText of a map value (any fuel, any element type, any hint) *)
Theorem encode_map_order_independent : forall f e m m' a h,
  Permutation m m' -> NoDup (map fst m) ->
  encode_f f true (TyMap e) (GMap (Some m)) a h = encode_f f true (TyMap e) (GMap (Some m')) a h.
Proof.
  intros f e m m' a h HP Hnd. destruct f; [reflexivity|]. rewrite !enc_unfold. cbn [enc_body].
  apply enc_map_order_independent; assumption.
Qed.
