(* MarshalSpec.v — specification-side definitions for C16/C17, written independently of
   Encode.v / Decode.v: the Ion values denoted by a Writer call sequence ([values_of]),
   the documented Go<->Ion mapping ([represents]) and the documented normalisations of a
   round trip ([norm]).  No proofs. *)
From Coq Require Import String List NArith ZArith Bool.
From IonV Require Import Base.Wire Data.Ion Num.Float Bin.BinWriter Go.GoTypes.
Import ListNotations.
Open Scope N_scope.

(* ---- values denoted by a call sequence --------------------------------------------- *)
Definition symv_of_tok (t : tok) : symv :=
  match tk_text t with
  | Some x => SymText x
  | None => SymSid (Z.to_N (tk_sid t))
  end.

(* Writer.WriteSymbolFromString: "$<digits>" is a symbol identifier (symbolIdentifier in
   symboltoken.go); only the system table is in scope for Marshal *)
Fixpoint all_digits (l : list N) : bool :=
  match l with [] => true | c :: r => (48 <=? c) && (c <=? 57) && all_digits r end.
Definition sid_like (x : text) : bool :=
  match x with
  | 36 :: c :: r => (((48 <=? c) && (c <=? 57)) || (c =? 43) || (c =? 45)) &&
                    match (if (c =? 43) || (c =? 45) then r else c :: r) with
                    | [] => false
                    | ds => all_digits ds
                    end
  | _ => false
  end.

Definition with_anns (a : list symv) (v : value) : value :=
  match a with [] => v | _ => VAnn a v end.

Definition scalar_of (c : wcall) : option value :=
  match c with
  | CNull => Some (VNull TNull)
  | CNullType t => Some (VNull (if t =? 0 then TNull else t))
  | CBool b => Some (VBool b)
  | CInt z => Some (VInt z)
  | CUint n => Some (VInt (Z.of_N n))
  | CBigInt (Some z) => Some (VInt z)
  | CBigInt None => Some (VNull TInt)
  | CFloat b => Some (VFloat b)
  | CDecimal (Some d) => Some (VDecimal d)
  | CDecimal None => Some (VNull TDecimal)
  | CTimestamp _ body => Some (VTimestamp body)
  | CSymbol t => Some (VSymbol (symv_of_tok t))
  | CSymbolFromString x => if sid_like x then None else Some (VSymbol (SymText x))
  | CString x => Some (VString x)
  | CClob b => Some (VClob b)
  | CBlob b => Some (VBlob b)
  | _ => None
  end.

Inductive closer := KTop | KList | KSexp | KStruct.

(* one value from the front of the calls *)
Fixpoint pvalue (fuel : nat) (cs : list wcall) (a : list symv) {struct fuel} : option (value * list wcall) :=
  match fuel with
  | O => None
  | S f =>
    match cs with
    | [] => None
    | CAnnotation t :: r => pvalue f r (a ++ [symv_of_tok t])
    | CAnnotations ts :: r => pvalue f r (a ++ map symv_of_tok ts)
    | CBeginList :: r =>
      match pseq f r KList with Some (l, r') => Some (with_anns a (VList l), r') | None => None end
    | CBeginSexp :: r =>
      match pseq f r KSexp with Some (l, r') => Some (with_anns a (VSexp l), r') | None => None end
    | CBeginStruct :: r =>
      match pfields f r with Some (l, r') => Some (with_anns a (VStruct l), r') | None => None end
    | c :: r => match scalar_of c with Some v => Some (with_anns a v, r) | None => None end
    end
  end
with pseq (fuel : nat) (cs : list wcall) (k : closer) {struct fuel} : option (list value * list wcall) :=
  match fuel with
  | O => None
  | S f =>
    match cs, k with
    | [], KTop => Some ([], [])
    | CEndList :: r, KList => Some ([], r)
    | CEndSexp :: r, KSexp => Some ([], r)
    | _, _ =>
      match pvalue f cs [] with
      | Some (v, r) => match pseq f r k with Some (l, r') => Some (v :: l, r') | None => None end
      | None => None
      end
    end
  end
with pfields (fuel : nat) (cs : list wcall) {struct fuel} : option (list (symv * value) * list wcall) :=
  match fuel with
  | O => None
  | S f =>
    match cs with
    | CEndStruct :: r => Some ([], r)
    | CFieldName t :: r =>
      match pvalue f r [] with
      | Some (v, r') => match pfields f r' with
                        | Some (l, r'') => Some ((symv_of_tok t, v) :: l, r'')
                        | None => None
                        end
      | None => None
      end
    | _ => None
    end
  end.

Definition values_of (cs : list wcall) : option (list value) :=
  match pseq (2 * length cs + 2) cs KTop with
  | Some (l, []) => Some l
  | _ => None
  end.
Definition value_of (cs : list wcall) : option value :=
  match values_of cs with Some [v] => Some v | _ => None end.

(* ---- the documented mapping: "g (of type t) represents v" ---------------------------- *)
(* Table of ion/unmarshal.go: null <- nil/zero; bool <- bool; int <- any ints/uints/big.Int;
   float <- float32/float64; decimal <- Decimal; timestamp <- Timestamp; symbol, string <-
   string; clob, blob <- []byte; list, sexp <- slices; struct <- map / struct.  "No wrap":
   the stored integer IS the Ion integer and lies in the range of the kind; a float32 holds the
   IEEE round-to-nearest narrowing of a float64 whose magnitude does not exceed MaxFloat32. *)
Definition strip (v : value) : value := match v with VAnn _ x => x | _ => v end.

Definition finite_f32_ok (b : N) : bool :=
  let a := b mod 2 ^ 63 in (a <=? 5183643170566569984) || (9218868437227405311 <? a).

Definition represents_scalar (t : gty) (g : gval) (v : value) : bool :=
  match strip v, t, g with
  | VNull _, _, _ => true                      (* judged separately: g = zero t *)
  | VBool b, TyBool, GBool b' => Bool.eqb b b'
  | VInt z, TyInt k, GInt z' => (z =? z')%Z && in_range k z
  | VInt z, TyBigInt, GBigInt z' => (z =? z')%Z
  | VFloat b, TyF64, GFloat b' => b =? b'
  | VFloat b, TyF32, GFloat b' => finite_f32_ok b && (b' =? narrow b)
  | VDecimal d, TyDecimal, GDecimal d' =>
    (d_coef d =? d_coef d')%Z && (d_exp d =? d_exp d')%Z && Bool.eqb (d_negzero d) (d_negzero d')
  | VTimestamp b, TyTimestamp, GTimestamp b' => list_eqb b b'
  | VString x, TyString, GString x' => list_eqb x x'
  | VSymbol (SymText x), TyString, GString x' => list_eqb x x'
  | VClob b, TySlice (TyInt U8), GBytes (Some b') => list_eqb b b'
  | VBlob b, TySlice (TyInt U8), GBytes (Some b') => list_eqb b b'
  | _, _, _ => false
  end.

(* scalar target types and scalar Ion values: the domain of the "never wrapped, truncated or
   zeroed" clause *)
Definition scalar_ty (t : gty) : bool :=
  match t with
  | TyBool | TyInt _ | TyF32 | TyF64 | TyString | TyBigInt | TyDecimal | TyTimestamp => true
  | TySlice (TyInt U8) => true
  | _ => false
  end.
Definition scalar_val (v : value) : bool :=
  match v with
  | VList _ | VSexp _ | VStruct _ | VAnn _ _ => false
  | _ => true
  end.

(* ---- round-trip normalisation on the sub-universe of C16 ------------------------------ *)
(* flat types: everything whose Marshal output is one scalar call *)
Definition flat_ty (t : gty) : bool :=
  match t with
  | TyBool | TyInt _ | TyF64 | TyString => true
  | TySlice (TyInt U8) => true
  | _ => false
  end.

(* ---- the plain sub-universe of the inductive theorems ------------------------------------- *)
(* well-formed Ion values: a float is 64 bits, lob bytes are bytes; an annotation wrapper is never directly under another *)
Fixpoint wfv (v : value) : bool :=
  match v with
  | VFloat b => b <? 2 ^ 64
  | VClob b | VBlob b => forallb byte_ok b
  | VList l | VSexp l => forallb wfv l
  | VStruct l => forallb (fun kv => wfv (snd kv)) l
  | VAnn _ x => match x with VAnn _ _ => false | _ => true end && wfv x
  | _ => true
  end.

(* nesting depth of a type: the recursion depth of decodeTo on an interface-free type *)
Fixpoint ty_depth (t : gty) : nat :=
  match t with
  | TySlice e | TyArray _ e | TyMap e | TyPtr e => S (ty_depth e)
  | TyStruct fs => S (fs_depth fs)
  | _ => O
  end
with fs_depth (fs : gfields) : nat :=
  match fs with
  | FNil => O
  | FCons _ _ _ _ ty rest => Nat.max (ty_depth ty) (fs_depth rest)
  end.

(* plain types: no interface{}, struct fields exported and not embedded (any tag) *)
Fixpoint pty (t : gty) : bool :=
  match t with
  | TyIface => false
  | TySlice e | TyArray _ e | TyMap e | TyPtr e => pty e
  | TyStruct fs => pfs fs
  | _ => true
  end
with pfs (fs : gfields) : bool :=
  match fs with
  | FNil => true
  | FCons _ ex emb _ ty rest => ex && negb emb && pty ty && pfs rest
  end.

(* the outcome the property allows for Unmarshal into a target of type t *)
Definition safe_out (t : gty) (r : res gval) : Prop :=
  match r with
  | Ok g => has_type g t = true
  | Err => True
  | Panic => False
  | OutOfFuel => False
  end.

(* ---- the documented Marshal mapping as a function Go value -> Ion value (no hints) ------------------ *)
(* bool -> bool, every integer kind and big.Int -> int, float64 -> float, string -> string,
   []byte -> blob, slices and arrays -> list, map[string]T -> struct with the keys in sorted
   order, struct -> struct with one field per Go field named by its tag (or its Go name),
   Decimal -> decimal, Timestamp -> timestamp, nil slice / map / pointer / []byte -> null,
   non-nil pointer -> the pointee. *)
Fixpoint no_comma (t : text) : bool :=
  match t with [] => true | c :: r => negb (c =? 44) && no_comma r end.
Definition field_ion_name (name tag : text) : text := match tag with [] => name | _ => tag end.

Fixpoint ion_of (t : gty) (g : gval) {struct g} : value :=
  match g with
  | GBool b => VBool b
  | GInt z => VInt z
  | GFloat b => VFloat b
  | GString x => VString x
  | GBytes None => VNull TNull
  | GBytes (Some b) => VBlob b
  | GSlice None => VNull TNull
  | GSlice (Some l) => VList (map (ion_of (match t with TySlice e => e | _ => t end)) l)
  | GArr l => VList (map (ion_of (match t with TyArray _ e => e | _ => t end)) l)
  | GMap None => VNull TNull
  | GMap (Some m) =>
    VStruct (map (fun kv => (SymText (fst kv), ion_of (match t with TyMap e => e | _ => t end) (snd kv))) m)
  | GPtr None => VNull TNull
  | GPtr (Some x) => ion_of (match t with TyPtr e => e | _ => t end) x
  | GIface None => VNull TNull
  | GIface (Some (dt, x)) => ion_of dt x
  | GStruct l =>
    VStruct ((fix go (l : list gval) (fs : gfields) {struct l} : list (symv * value) :=
                match l with
                | [] => []
                | x :: r =>
                  match fs with
                  | FCons name _ _ tag ty rest => (SymText (field_ion_name name tag), ion_of ty x) :: go r rest
                  | FNil => []
                  end
                end) l (match t with TyStruct fs => fs | _ => FNil end))
  | GTimestamp b => VTimestamp b
  | GDecimal d => VDecimal d
  | GBigInt z => VInt z
  | GTime b => VTimestamp b
  | GSymTok _ => VNull TNull
  end.

(* the round-trip sub-universe: interface-free, float32-free; struct fields exported, not embedded,
   tagged with a plain name (or untagged): no options, not "-", distinct names; pointers to
   non-nullable types *)
Fixpoint ion_names (fs : gfields) : list text :=
  match fs with FNil => [] | FCons name _ _ tag _ rest => field_ion_name name tag :: ion_names rest end.
Fixpoint distinct (l : list text) : bool :=
  match l with [] => true | x :: r => negb (existsb (list_eqb x) r) && distinct r end.

Definition nullable (t : gty) : bool :=
  match t with TySlice _ | TyMap _ | TyPtr _ | TyIface => true | _ => false end.

Fixpoint rty (t : gty) : bool :=
  match t with
  | TyBool | TyInt _ | TyF64 | TyString | TyBigInt | TyDecimal | TyTimestamp => true
  | TySlice e | TyArray _ e | TyMap e => rty e
  | TyPtr e => rty e && negb (nullable e)
  | TyStruct fs => rfs fs && distinct (ion_names fs)
  | _ => false
  end
with rfs (fs : gfields) : bool :=
  match fs with
  | FNil => true
  | FCons _ ex emb tag ty rest =>
    ex && negb emb && no_comma tag && negb (list_eqb tag [45]) && rty ty && rfs rest
  end.
